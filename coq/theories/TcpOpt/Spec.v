(* TcpOpt/Spec.v -- wire format of the TCP options the crate knows, written from
   the RFCs and independent of the structure of the Rust code.

   RFC 9293 3.1 (option list, kinds 0/1/2):
     kind 0  End of Option List   1 octet, "used at the end of all options ...
                                   only if the end of the options would not
                                   otherwise coincide with the end of the header"
     kind 1  No-Operation         1 octet
     kind 2  Maximum Segment Size length 4, 16 bit value
     every other option: kind, length (counts kind and length octets), data
   RFC 7323 2.2: kind 3 Window Scale, length 3, shift.cnt (1 octet)
   RFC 7323 3.2: kind 8 Timestamps, length 10, TSval (4), TSecr (4)
   RFC 2018 2:   kind 4 SACK-Permitted, length 2
   RFC 2018 3:   kind 5 SACK, length 8*n+2, n blocks (left edge, right edge:
                 2 x 32 bit); at most 4 blocks fit into the 40 option bytes. *)
From EP Require Import Base.Bytes.
Local Open Scope N_scope.

(* ---- options as the RFCs describe them ---------------------------------- *)
Inductive opt :=
| ONop
| OMss (mss : N)
| OWscale (shift : N)
| OSackPerm
| OSack (blocks : list (N * N))      (* 1..4 blocks *)
| OTs (tsval tsecr : N).

Definition u8_ok (v : N) : Prop := v < 256.
Definition u16_ok (v : N) : Prop := v < 65536.
Definition u32_ok (v : N) : Prop := v < 4294967296.
Definition block_ok (b : N * N) : Prop := u32_ok (fst b) /\ u32_ok (snd b).

Definition opt_ok (o : opt) : Prop :=
  match o with
  | ONop | OSackPerm => True
  | OMss v => u16_ok v
  | OWscale v => u8_ok v
  | OSack bl => (1 <= length bl <= 4)%nat /\ Forall block_ok bl
  | OTs a b => u32_ok a /\ u32_ok b
  end.

Definition wire_block (b : N * N) : bytes := to_be32 (fst b) ++ to_be32 (snd b).

(* the octets of one option *)
Definition wire (o : opt) : bytes :=
  match o with
  | ONop => [1]
  | OMss v => [2; 4] ++ to_be16 v
  | OWscale v => [3; 3; v]
  | OSackPerm => [4; 2]
  | OSack bl => [5; 2 + 8 * len bl] ++ concat (map wire_block bl)
  | OTs a b => [8; 10] ++ to_be32 a ++ to_be32 b
  end.

Definition wire_list (os : list opt) : bytes := concat (map wire os).

(* the option area of a header is a multiple of 4 octets (data offset counts
   32 bit words); the filler is End-of-Option-List = 0 *)
Definition pad4 (n : N) : N := ((n + 3) / 4) * 4.
Definition KIND_END : N := 0.
Definition padding (n : N) : bytes := repeat KIND_END (N.to_nat (pad4 n - n)).
Definition MAX_OPTIONS : N := 40.    (* data offset is 4 bits: 15*4 - 20 *)

(* kind -> the values its length octet may have (None: not an option the crate
   decodes; 0 and 1 have no length octet) *)
Definition known_lens (k : N) : option (list N) :=
  if k =? 2 then Some [4]
  else if k =? 3 then Some [3]
  else if k =? 4 then Some [2]
  else if k =? 5 then Some [10; 18; 26; 34]
  else if k =? 8 then Some [10]
  else None.

Definition mem (x : N) (l : list N) : bool := existsb (N.eqb x) l.

(* ---- what the decoder may report (vocabulary of TcpOptionReadError) ------- *)
Inductive read_error :=
| UnexpectedEndOfSlice (option_id expected_len actual_len : N)
| UnexpectedSize (option_id size : N)
| UnknownId (id : N).

(* "the error states the real kind, size and remaining length": [bs] is the
   not yet consumed part of the option area at the moment of the error *)
Inductive err_true (bs : bytes) : read_error -> Prop :=
| ET_unknown k :
    rd bs 0 = Some k -> k <> 0 -> k <> 1 -> known_lens k = None ->
    err_true bs (UnknownId k)
| ET_size k s ls :
    rd bs 0 = Some k -> rd bs 1 = Some s -> known_lens k = Some ls -> mem s ls = false ->
    err_true bs (UnexpectedSize k s)
| ET_short k e ls :
    rd bs 0 = Some k -> known_lens k = Some ls -> len bs < e ->
    (* e is the length this option needs: the only one its kind allows, or the
       (allowed) one announced by its length octet, or 2 when even the length
       octet is missing *)
    (ls = [e] \/ (rd bs 1 = Some e /\ mem e ls = true) \/ (e = 2 /\ len bs < 2)) ->
    err_true bs (UnexpectedEndOfSlice k e (len bs)).

(* ---- an executable reference decoder (table driven, generic big endian
        fields), used as oracle by the correspondence run -------------------- *)
Fixpoint blocks_of (n : nat) (body : bytes) : list (N * N) :=
  match n with
  | O => []
  | S n' => (be_val (take 4 body), be_val (take 4 (drop 4 body))) :: blocks_of n' (drop 8 body)
  end.

Definition parse_body (k : N) (body : bytes) : opt :=
  if k =? 2 then OMss (be_val body)
  else if k =? 3 then OWscale (be_val body)
  else if k =? 4 then OSackPerm
  else if k =? 5 then OSack (blocks_of (N.to_nat (len body / 8)) body)
  else OTs (be_val (take 4 body)) (be_val (drop 4 body)).

Inductive sitem :=
| SOk (o : opt) (rest : bytes)
| SErr (e : read_error)
| SEnd.

Definition spec_next (bs : bytes) : sitem :=
  match bs with
  | [] => SEnd
  | k :: _ =>
    if k =? 0 then SEnd
    else if k =? 1 then SOk ONop (drop 1 bs)
    else match known_lens k with
    | None => SErr (UnknownId k)
    | Some ls =>
      (* the length the option claims / must have *)
      let need :=
        match ls with
        | [l] => inl l
        | _ => match rd bs 1 with
               | None => inl 2
               | Some s => if mem s ls then inl s else inr s
               end
        end in
      match need with
      | inr s => SErr (UnexpectedSize k s)
      | inl l =>
        if len bs <? l then SErr (UnexpectedEndOfSlice k l (len bs))
        else match rd bs 1 with
        | None => SErr (UnexpectedEndOfSlice k 2 (len bs))
        | Some s =>
          if s =? l then SOk (parse_body k (take (l - 2) (drop 2 bs))) (drop l bs)
          else SErr (UnexpectedSize k s)
        end
      end
    end
  end.

(* decode a whole area: elements until END / end of area / first error *)
Fixpoint spec_decode (fuel : nat) (bs : bytes) : list sitem :=
  match fuel with
  | O => []
  | S f =>
    match spec_next bs with
    | SOk o r => SOk o r :: spec_decode f r
    | SErr e => [SErr e]
    | SEnd => [SEnd]
    end
  end.
