(* TcpOpt/HeaderProofs.v -- lemmas for the header level part of C13:
   Part 1: the adapter between the two records for struct TcpOptions
           (TcpOpt/Model.v and Roundtrip/Tcp.v) and the two transliterations of
           try_from_slice / as_slice / data_offset.
   Part 2: explicit results of try_from_elements / try_from_slice, set_options,
           set_options_raw, to_bytes of the header afterwards.
   Part 3: the serialised header through TcpHeaderSlice / TcpSlice /
           TcpHeader::from_slice / read (C08's tcp_dec_enc) and the three
           option iterators.
   Part 4: any byte string: the three views agree.
   Part 5: the statements used by Props/C13.v. *)
From EP Require Import Base.Bytes TcpOpt.Spec TcpOpt.Model TcpOpt.Proofs TcpOpt.Header.
From EP Require Roundtrip.Common Roundtrip.CommonProofs Roundtrip.Tcp Roundtrip.TcpProofs.
Local Open Scope N_scope.

(* ====================================================================== *)
(* Part 1: adapter *)
Lemma of_to_c08 o : of_c08 (to_c08 o) = o.
Proof. destruct o; reflexivity. Qed.
Lemma to_of_c08 o : to_c08 (of_c08 o) = o.
Proof. destruct o; reflexivity. Qed.

Lemma as_slice_adapter o :
  as_slice o = match Tcp.opt_as_slice (to_c08 o) with Some s => Ret s | None => OOB end.
Proof.
  unfold as_slice, Tcp.opt_as_slice, to_c08. cbn [Tcp.o_len Tcp.o_buf].
  destruct (o_len o <=? len (o_buf o)); reflexivity.
Qed.

Lemma data_offset_adapter o : Tcp.opt_data_offset (to_c08 o) = data_offset o.
Proof. reflexivity. Qed.
Lemma header_len_adapter h : Tcp.header_len h = hdr_header_len h.
Proof. reflexivity. Qed.
Lemma hdr_data_offset_adapter h : Tcp.data_offset h = hdr_data_offset h.
Proof. reflexivity. Qed.

Lemma try_from_slice_adapter s :
  try_from_slice s = match Tcp.opt_try_from_slice s with
                     | Some o => Ret (Ok (of_c08 o))
                     | None => Ret (Err (NotEnoughSpace (len s)))
                     end.
Proof.
  unfold try_from_slice, Tcp.opt_try_from_slice, MAX_LEN.
  destruct (40 <? len s) eqn:L; [reflexivity|]. apply N.ltb_ge in L.
  rewrite (write_at_zeros (zeros 40) [] 40 0 s eq_refl eq_refl L). cbn [bind app].
  reflexivity.
Qed.

(* ====================================================================== *)
(* Part 2: explicit results *)
(* the TcpOptions value holding [content] (<= 40 bytes): zero filled buffer,
   length rounded up to the next multiple of four *)
Definition opts_of (content : bytes) : tcp_options :=
  {| o_len := pad4 (len content); o_buf := content ++ zeros (40 - len content) |}.

Lemma try_from_elements_explicit els : required_len els <= 40 ->
  try_from_elements els = Ret (Ok (opts_of (wire_list (map to_opt els)))).
Proof.
  intros Hreq. unfold try_from_elements, MAX_LEN. cbv zeta.
  destruct (N.ltb_spec 40 (required_len els)); [lia|].
  assert (W : write_elements els (zeros 40, 0) =
    Ret (wire_list (map to_opt els) ++ zeros (40 - required_len els), 0 + required_len els))
    by (apply (write_elements_char els [] 40 Hreq)).
  rewrite W. cbn [bind]. rewrite N.add_0_l.
  fold (round_len (required_len els)). rewrite round_len_pad4 by assumption.
  unfold opts_of. rewrite <- required_len_wire. reflexivity.
Qed.

Lemma try_from_slice_explicit s : len s <= 40 -> try_from_slice s = Ret (Ok (opts_of s)).
Proof.
  intros H. unfold try_from_slice, MAX_LEN.
  destruct (N.ltb_spec 40 (len s)); [lia|].
  rewrite (write_at_zeros (zeros 40) [] 40 0 s eq_refl eq_refl H). cbn [bind app].
  fold (slice_len_u8 (len s)). rewrite slice_len_pad4 by assumption. reflexivity.
Qed.

Lemma as_slice_opts_of c : len c <= 40 -> as_slice (opts_of c) = Ret (c ++ padding (len c)).
Proof.
  intros H. destruct (pad4_props _ H) as (P1 & P2 & P3 & P4).
  unfold as_slice, opts_of. cbn [o_len o_buf]. rewrite len_app, len_zeros.
  destruct (N.leb_spec (pad4 (len c)) (len c + (40 - len c))); [|lia].
  rewrite padding_zeros.
  replace (pad4 (len c)) with (len c + (pad4 (len c) - len c)) at 1 by lia.
  rewrite take_app_zeros by lia. reflexivity.
Qed.

(* the header after a successful set_options / set_options_raw *)
Definition install (h : Tcp.TcpHeader) (c : bytes) : Tcp.TcpHeader :=
  with_options h (to_c08 (opts_of c)).

Lemma options_install h c : Tcp.options (install h c) = to_c08 (opts_of c).
Proof. reflexivity. Qed.

Lemma install_same_fixed h c : same_fixed_fields h (install h c).
Proof. reflexivity. Qed.

Lemma set_options_ok h els : required_len els <= 40 ->
  set_options h els = Ret (Ok tt, install h (wire_list (map to_opt els))).
Proof. intros H. unfold set_options. rewrite try_from_elements_explicit by assumption. reflexivity. Qed.

Lemma set_options_err h els : 40 < required_len els ->
  set_options h els = Ret (Err (NotEnoughSpace (required_len els)), h).
Proof. intros H. unfold set_options. rewrite reject by assumption. reflexivity. Qed.

Lemma set_options_raw_ok h s : len s <= 40 ->
  set_options_raw h s = Ret (Ok tt, install h s).
Proof. intros H. unfold set_options_raw. rewrite try_from_slice_explicit by assumption. reflexivity. Qed.

Lemma set_options_raw_err h s : 40 < len s ->
  set_options_raw h s = Ret (Err (NotEnoughSpace (len s)), h).
Proof. intros H. unfold set_options_raw. rewrite from_slice_reject by assumption. reflexivity. Qed.

Lemma header_len_install h c : hdr_header_len (install h c) = 20 + pad4 (len c).
Proof. reflexivity. Qed.

Lemma data_offset_install h c : len c <= 40 -> hdr_data_offset (install h c) = 5 + pad4 (len c) / 4.
Proof. intros H. unfold hdr_data_offset. apply data_offset_val; [assumption|reflexivity]. Qed.

Lemma to_bytes_install h c : len c <= 40 ->
  Tcp.to_bytes (install h c) = Some (Tcp.fixed_bytes (install h c) ++ c ++ padding (len c)).
Proof.
  intros L. destruct (pad4_props _ L) as (P1 & P2 & P3 & P4).
  unfold Tcp.to_bytes, Tcp.header_len. rewrite options_install.
  cbn [to_c08 opts_of Tcp.o_len Tcp.o_buf o_len o_buf].
  rewrite !len_app, TcpProofs.len_fixed, len_zeros.
  destruct (N.leb_spec (20 + (len c + (40 - len c))) 60); [|lia].
  destruct (N.leb_spec (20 + pad4 (len c)) (20 + (len c + (40 - len c)))); [|lia].
  cbn [andb]. f_equal.
  rewrite (CommonProofs.take_app_more _ _ _ (pad4 (len c))) by (rewrite TcpProofs.len_fixed; reflexivity).
  f_equal. rewrite padding_zeros.
  replace (pad4 (len c)) with (len c + (pad4 (len c) - len c)) at 1 by lia.
  apply take_app_zeros. lia.
Qed.

(* byte 12 of the serialised header: data offset nibble and NS bit *)
Definition b12_sweep : bool :=
  forallb (fun n => forallb (fun ns =>
     TcpProofs.byte12_of (pad4 n) ns =? 16 * (5 + pad4 n / 4) + (if ns then 1 else 0))
     [true; false]) upto40.
Lemma b12_sweep_ok : b12_sweep = true.
Proof. vm_compute. reflexivity. Qed.

Lemma byte12_install_val h c : len c <= 40 ->
  Tcp.byte12 (install h c) = 16 * (5 + pad4 (len c) / 4) + (if Tcp.ns h then 1 else 0).
Proof.
  intros L. rewrite TcpProofs.byte12_is, options_install.
  cbn [to_c08 opts_of Tcp.o_len o_len].
  change (Tcp.ns (install h c)) with (Tcp.ns h).
  pose proof (proj1 (forallb_forall _ _) b12_sweep_ok (len c) (in_upto40 _ L)) as S.
  cbv beta in S. rewrite forallb_forall in S. apply N.eqb_eq. apply S.
  destruct (Tcp.ns h); cbn; auto.
Qed.

Lemma byte12_install h c : len c <= 40 ->
  let b := Tcp.byte12 (install h c) in
  Common.shr (Common.band b 240) 2 = 20 + pad4 (len c)
  /\ Common.shr (Common.band b 240) 4 * 4 = 20 + pad4 (len c).
Proof.
  intros L. destruct (pad4_props _ L) as (P1 & P2 & P3 & P4).
  cbv zeta. rewrite TcpProofs.byte12_is, options_install.
  cbn [to_c08 opts_of Tcp.o_len o_len].
  destruct (TcpProofs.byte12_dec (pad4 (len c)) (Tcp.ns (install h c)) P2 P4) as (D1 & D2 & _).
  split; assumption.
Qed.

Lemma rd_fixed_12 h x : rd (Tcp.fixed_bytes h ++ x) 12 = Some (Tcp.byte12 h).
Proof. rewrite TcpProofs.fixed_explicit. reflexivity. Qed.

(* &s[a..b] in the middle of a concatenation *)
Lemma slice_range_mid (F O R : bytes) n m : n = len F -> m = len F + len O ->
  slice_range (F ++ O ++ R) n m = Ret O.
Proof.
  intros -> ->. unfold slice_range. rewrite !len_app.
  destruct (N.leb_spec (len F) (len F + len O)); [|lia].
  destruct (N.leb_spec (len F + len O) (len F + (len O + len R))); [|lia].
  cbn [andb]. replace (len F + len O - len F) with (len O) by lia.
  rewrite drop_app_exact, take_app_exact. reflexivity.
Qed.

(* ====================================================================== *)
(* Part 3: the serialised header and its views *)
Section Wire.
  Variable h : Tcp.TcpHeader.
  Variable c payload : bytes.
  Hypothesis Lc : len c <= 40.

  Let h' := install h c.
  Let area := c ++ padding (len c).
  Let bs := Tcp.fixed_bytes h' ++ area.
  Let hl := 20 + pad4 (len c).

  Lemma len_area : len area = pad4 (len c).
  Proof.
    destruct (pad4_props _ Lc) as (P1 & P2 & P3 & P4).
    unfold area. rewrite len_app, padding_zeros, len_zeros. lia.
  Qed.

  Lemma w_b12 : Common.shr (Common.band (Tcp.byte12 h') 240) 2 = hl
              /\ Common.shr (Common.band (Tcp.byte12 h') 240) 4 * 4 = hl.
  Proof. exact (byte12_install h c Lc). Qed.

  Lemma w_to_bytes : Tcp.to_bytes h' = Some bs.
  Proof. apply to_bytes_install. exact Lc. Qed.

  Lemma w_len_bs : len bs = hl.
  Proof. unfold bs, hl. rewrite len_app, TcpProofs.len_fixed, len_area. reflexivity. Qed.

  Lemma w_header_slice : Tcp.slice_from_slice (bs ++ payload) = Common.Ok bs.
  Proof.
    unfold bs. rewrite <- app_assoc.
    apply (TcpProofs.slice_from_slice_app _ _ _ (Tcp.byte12 h')).
    - apply TcpProofs.len_fixed.
    - rewrite <- (app_nil_r (Tcp.fixed_bytes h')). apply rd_fixed_12.
    - rewrite len_area. apply w_b12.
  Qed.

  Lemma w_hs_options : hs_options bs = Ret area.
  Proof.
    unfold hs_options, hs_data_offset, bs. rewrite rd_fixed_12. cbn [bind].
    rewrite <- (app_nil_r area) at 1.
    apply slice_range_mid; [symmetry; apply TcpProofs.len_fixed|].
    rewrite TcpProofs.len_fixed, len_area. apply w_b12.
  Qed.

  Lemma w_ts_from_slice : ts_from_slice (bs ++ payload) = Common.Ok (hl, bs ++ payload).
  Proof.
    unfold ts_from_slice.
    assert (LB : len (bs ++ payload) = hl + len payload) by (rewrite len_app, w_len_bs; reflexivity).
    rewrite LB. destruct (N.ltb_spec (hl + len payload) 20); [unfold hl in *; lia|].
    unfold bs at 1. rewrite <- app_assoc, rd_fixed_12. cbv zeta.
    rewrite (proj1 w_b12).
    destruct (N.ltb_spec hl 20); [unfold hl in *; lia|].
    destruct (N.ltb_spec (hl + len payload) hl); [lia|]. reflexivity.
  Qed.

  Lemma w_ts_options : ts_options (hl, bs ++ payload) = Ret area.
  Proof.
    unfold ts_options. cbn [fst snd]. unfold bs. rewrite <- app_assoc.
    apply slice_range_mid; [symmetry; apply TcpProofs.len_fixed|].
    rewrite TcpProofs.len_fixed, len_area. reflexivity.
  Qed.

  Lemma w_ts_header_slice : ts_header_slice (hl, bs ++ payload) = Ret bs.
  Proof.
    unfold ts_header_slice. cbn [fst snd]. rewrite len_app, w_len_bs.
    destruct (N.leb_spec hl (hl + len payload)); [|lia].
    rewrite <- w_len_bs. rewrite take_app_exact. reflexivity.
  Qed.

  Lemma w_ts_payload : ts_payload (hl, bs ++ payload) = Ret payload.
  Proof.
    unfold ts_payload. cbn [fst snd]. rewrite len_app, w_len_bs.
    destruct (N.leb_spec hl (hl + len payload)); [|lia].
    rewrite <- w_len_bs. rewrite drop_app_exact. reflexivity.
  Qed.

  Lemma w_hdr_area : hdr_options_area h' = Ret area.
  Proof.
    unfold hdr_options_area, h'. rewrite options_install, of_to_c08. apply as_slice_opts_of. exact Lc.
  Qed.

  Lemma w_hdr_iterate : hdr_options_iterate h' = iterate area.
  Proof.
    unfold hdr_options_iterate, elements_iterate, h'. rewrite options_install, of_to_c08.
    rewrite as_slice_opts_of by exact Lc. reflexivity.
  Qed.

  Lemma w_hs_iterate : hs_options_iterate bs = iterate area.
  Proof. unfold hs_options_iterate. rewrite w_hs_options. reflexivity. Qed.

  Lemma w_ts_iterate : ts_options_iterate (hl, bs ++ payload) = iterate area.
  Proof. unfold ts_options_iterate. rewrite w_ts_options. reflexivity. Qed.

  (* -- the part that needs C08's round trip: field ranges of h, byte range of c -- *)
  Hypothesis Wh : Tcp.wf_tcp h = true.
  Hypothesis Bc : bytes_ok c.

  Lemma w_wf_opt : Tcp.wf_opt (to_c08 (opts_of c)) = true.
  Proof.
    destruct (pad4_props _ Lc) as (P1 & P2 & P3 & P4).
    unfold Tcp.wf_opt, to_c08, opts_of. cbn [Tcp.o_len Tcp.o_buf o_len o_buf].
    destruct (N.leb_spec (pad4 (len c)) 40); [|lia]. rewrite P4.
    change (0 =? 0) with true. rewrite len_app, len_zeros.
    replace (len c + (40 - len c) =? 40) with true by (symmetry; apply N.eqb_eq; lia).
    cbn [andb]. apply bytes_okb_spec, bytes_ok_app. split; [exact Bc|].
    apply CommonProofs.bytes_ok_zeros.
  Qed.

  Lemma w_wf : Tcp.wf_tcp h' = true.
  Proof.
    pose proof Wh as W. unfold Tcp.wf_tcp in W |- *.
    apply andb_true_iff in W. destruct W as [W _].
    apply andb_true_iff. split; [exact W|]. exact w_wf_opt.
  Qed.

  Lemma w_norm : Tcp.norm h' = h'.
  Proof.
    destruct (pad4_props _ Lc) as (P1 & P2 & P3 & P4).
    unfold h', install. change (Tcp.norm (with_options h (to_c08 (opts_of c))))
      with (with_options h (Tcp.norm_opt (to_c08 (opts_of c)))).
    f_equal. unfold Tcp.norm_opt, to_c08, opts_of. cbn [Tcp.o_len Tcp.o_buf o_len o_buf].
    f_equal.
    replace (pad4 (len c)) with (len c + (pad4 (len c) - len c)) at 1 by lia.
    rewrite take_app_zeros by lia. rewrite <- app_assoc. f_equal.
    change (Common.zeros (40 - pad4 (len c))) with (zeros (40 - pad4 (len c))).
    rewrite <- zeros_split. f_equal. lia.
  Qed.

  Lemma w_from_slice : Tcp.from_slice (bs ++ payload) = Common.Ok (h', payload)
                    /\ Tcp.read (bs ++ payload) = Common.Ok (h', payload).
  Proof.
    destruct (TcpProofs.tcp_dec_enc h' payload w_wf) as (e & E1 & E2 & E3 & _).
    rewrite w_to_bytes in E1. apply CommonProofs.Some_inj in E1. subst e.
    rewrite w_norm in E2, E3. split; assumption.
  Qed.
End Wire.

(* ---- bytes of encoded elements are bytes ---- *)
Lemma bytes_ok_to_be32 v : bytes_ok (to_be32 v).
Proof.
  unfold to_be32. repeat (apply CommonProofs.bytes_ok_explicit_cons; [apply N.mod_lt; lia|]). constructor.
Qed.

Lemma bytes_ok_block b : bytes_ok (wire_block b).
Proof. unfold wire_block. apply bytes_ok_app. split; apply bytes_ok_to_be32. Qed.

Lemma bytes_ok_wire e : element_ok e -> bytes_ok (wire (to_opt e)).
Proof.
  destruct e as [|v|v| |f [[a b] c]|ta tb]; cbn [element_ok to_opt wire]; intros H.
  - repeat constructor.
  - unfold to_be16. repeat (apply CommonProofs.bytes_ok_explicit_cons; [try (apply N.mod_lt); lia|]). constructor.
  - unfold u8_ok in H. repeat (apply CommonProofs.bytes_ok_explicit_cons; [lia|]). constructor.
  - repeat (apply CommonProofs.bytes_ok_explicit_cons; [lia|]). constructor.
  - apply bytes_ok_app. split.
    + destruct a, b, c; cbn [acks_list somes]; rewrite ?len_cons, ?len_nil;
        repeat (apply CommonProofs.bytes_ok_explicit_cons; [lia|]); constructor.
    + induction (f :: somes (acks_list (a, b, c))) as [|x l IH]; [constructor|].
      cbn [map concat]. apply bytes_ok_app. split; [apply bytes_ok_block|exact IH].
  - apply CommonProofs.bytes_ok_explicit_cons; [lia|].
    apply CommonProofs.bytes_ok_explicit_cons; [lia|].
    apply bytes_ok_app. split; apply bytes_ok_to_be32.
Qed.

Lemma bytes_ok_wire_list els : Forall element_ok els -> bytes_ok (wire_list (map to_opt els)).
Proof.
  induction 1 as [|e els He _ IH]; [constructor|].
  unfold wire_list in *. cbn [map concat]. apply bytes_ok_app. split; [apply bytes_ok_wire; exact He|exact IH].
Qed.

Lemma iterate_encoded els : Forall element_ok els ->
  iterate (wire_list (map to_opt els) ++ padding (required_len els))
  = Ret (enc_trace els (padding (required_len els)), []).
Proof.
  intros Hok. apply iterate_wire; [assumption|]. rewrite padding_zeros. apply next_zeros.
Qed.

(* ====================================================================== *)
(* Part 4: any byte string seen through the three views *)
Lemma ts_from_slice_eq s :
  ts_from_slice s = match Tcp.slice_from_slice s with
                    | Common.Ok hs => Common.Ok (len hs, s)
                    | Common.Err e => Common.Err e
                    end.
Proof.
  unfold ts_from_slice, Tcp.slice_from_slice.
  destruct (len s <? 20); [reflexivity|].
  destruct (rd s 12) as [b12|]; [|reflexivity]. cbv zeta.
  destruct (Common.shr (Common.band b12 240) 2 <? 20); [reflexivity|].
  destruct (N.ltb_spec (len s) (Common.shr (Common.band b12 240) 2)); [reflexivity|].
  rewrite len_take. do 2 f_equal. lia.
Qed.

Lemma slice_from_slice_char s hs : Tcp.slice_from_slice s = Common.Ok hs ->
  exists b12, rd s 12 = Some b12
    /\ 20 <= Common.shr (Common.band b12 240) 2 <= len s
    /\ hs = take (Common.shr (Common.band b12 240) 2) s.
Proof.
  unfold Tcp.slice_from_slice. intros H.
  destruct (len s <? 20); [discriminate|].
  destruct (rd s 12) as [b12|]; [|discriminate]. cbv zeta in H.
  destruct (N.ltb_spec (Common.shr (Common.band b12 240) 2) 20); [discriminate|].
  destruct (N.ltb_spec (len s) (Common.shr (Common.band b12 240) 2)); [discriminate|].
  apply CommonProofs.Ok_inj in H. exists b12. repeat split; try assumption. symmetry; exact H.
Qed.

Lemma drop_take_comm {A} (l : list A) a b : a <= len l -> drop a (take (a + b) l) = take b (drop a l).
Proof.
  intros H. rewrite CommonProofs.take_drop_split.
  apply CommonProofs.drop_app_len. rewrite len_take. lia.
Qed.

(* to_header on a header slice: the option part *)
Lemma to_header_options hs b12 : bytes_ok hs -> rd hs 12 = Some b12 -> 20 <= len hs ->
  len hs = Common.shr (Common.band b12 240) 2 ->
  exists h, Tcp.to_header hs = Common.Ok h
    /\ Tcp.options h = {| Tcp.o_len := len hs - 20;
                          Tcp.o_buf := drop 20 hs ++ Common.zeros (40 - (len hs - 20)) |}.
Proof.
  intros OK R L20 HL.
  assert (L : (len hs <? 20) = false) by (apply N.ltb_ge; exact L20).
  assert (B12 : b12 < 256) by (eapply rd_ok; eassumption).
  assert (L1 : (Common.shr (Common.band b12 240) 2 <? 20) = false) by (apply N.ltb_ge; lia).
  destruct (TcpProofs.Q12_facts b12 B12 L1) as (_ & Q2 & Q3 & _). cbv zeta in Q2, Q3.
  destruct hs as [|b0 [|b1 [|b2 [|b3 [|b4 [|b5 [|b6 [|b7 [|b8 [|b9 [|b10 [|b11 [|b12' [|b13 [|b14
    [|b15 [|b16 [|b17 [|b18 [|b19 r]]]]]]]]]]]]]]]]]]]]; try (vm_compute in L; discriminate).
  clear L.
  assert (E12 : b12' = b12) by (vm_compute in R; congruence). subst b12'.
  set (hs := b0 :: b1 :: b2 :: b3 :: b4 :: b5 :: b6 :: b7 :: b8 :: b9 :: b10 :: b11 :: b12 :: b13
             :: b14 :: b15 :: b16 :: b17 :: b18 :: b19 :: r) in *.
  assert (DR : drop 20 hs = r) by reflexivity.
  assert (LR : len r = len hs - 20).
  { unfold hs. rewrite !len_cons. lia. }
  assert (SR : Common.slice_range hs 20 (Common.shr (Common.band b12 240) 4 * 4) = Some r).
  { unfold Common.slice_range. rewrite Q2, <- HL.
    destruct (N.leb_spec 20 (len hs)); [|lia]. rewrite N.leb_refl. cbn [andb].
    rewrite DR. f_equal. apply CommonProofs.take_all. lia. }
  unfold Tcp.to_header. unfold hs at 1. cbv beta iota zeta. rewrite SR.
  replace (40 <? len r) with false by (symmetry; apply N.ltb_ge; lia).
  eexists. split; [reflexivity|]. cbn [Tcp.options]. rewrite DR, LR.
  f_equal. unfold Common.as_u8. apply N.mod_small. lia.
Qed.

Lemma views_agree s hs : bytes_ok s -> Tcp.slice_from_slice s = Common.Ok hs ->
  exists h,
    let area := take (len hs - 20) (drop 20 s) in
    Tcp.from_slice s = Common.Ok (h, drop (len hs) s)
    /\ ts_from_slice s = Common.Ok (len hs, s)
    /\ ts_header_slice (len hs, s) = Ret hs
    /\ ts_payload (len hs, s) = Ret (drop (len hs) s)
    /\ hs_options hs = Ret area
    /\ ts_options (len hs, s) = Ret area
    /\ hdr_options_area h = Ret area
    /\ hs_options_iterate hs = iterate area
    /\ ts_options_iterate (len hs, s) = iterate area
    /\ hdr_options_iterate h = iterate area.
Proof.
  intros OK H.
  destruct (slice_from_slice_char s hs H) as (b12 & R & (HL1 & HL2) & Ehs).
  set (hl := Common.shr (Common.band b12 240) 2) in *.
  assert (Lhs : len hs = hl) by (rewrite Ehs, len_take; lia).
  assert (OKhs : bytes_ok hs) by (rewrite Ehs; apply bytes_ok_take; exact OK).
  assert (Rhs : rd hs 12 = Some b12).
  { rewrite Ehs. rewrite CommonProofs.rd_take_lt by lia. exact R. }
  destruct (to_header_options hs b12 OKhs Rhs ltac:(lia) Lhs) as (h & TH & OH).
  assert (B12 : b12 < 256) by (eapply rd_ok; eassumption).
  assert (L1 : (hl <? 20) = false) by (apply N.ltb_ge; lia).
  destruct (TcpProofs.Q12_facts b12 B12 L1) as (_ & Q2 & Q3 & _). cbv zeta in Q2, Q3. fold hl in Q2, Q3.
  assert (D20 : drop 20 hs = take (hl - 20) (drop 20 s)).
  { rewrite Ehs. replace hl with (20 + (hl - 20)) at 1 by lia. apply drop_take_comm. lia. }
  assert (A1 : hs_options hs = Ret (take (hl - 20) (drop 20 s))).
  { unfold hs_options, hs_data_offset. rewrite Rhs. cbn [bind]. rewrite Q2.
    unfold slice_range. rewrite Lhs.
    destruct (N.leb_spec 20 hl); [|lia]. rewrite N.leb_refl. cbn [andb].
    rewrite D20. f_equal. apply CommonProofs.take_all. rewrite len_take, len_drop. lia. }
  assert (A2 : ts_options (hl, s) = Ret (take (hl - 20) (drop 20 s))).
  { unfold ts_options, slice_range. cbn [fst snd].
    destruct (N.leb_spec 20 hl); [|lia]. destruct (N.leb_spec hl (len s)); [|lia]. reflexivity. }
  assert (A3 : hdr_options_area h = Ret (take (hl - 20) (drop 20 s))).
  { unfold hdr_options_area, as_slice, of_c08. rewrite OH. cbn [Tcp.o_len Tcp.o_buf o_len o_buf].
    rewrite Lhs, D20.
    assert (LA : len (take (hl - 20) (drop 20 s)) = hl - 20) by (rewrite len_take, len_drop; lia).
    rewrite len_app, LA, CommonProofs.len_zeros.
    destruct (N.leb_spec (hl - 20) (hl - 20 + (40 - (hl - 20)))); [|lia].
    rewrite <- LA at 1. rewrite take_app_exact. reflexivity. }
  exists h. cbv zeta. rewrite Lhs.
  split; [|split; [|split; [|split; [|split; [|split; [|split; [|split; [|split]]]]]]]].
  - unfold Tcp.from_slice. rewrite H, TH. unfold Common.slice_from. rewrite Lhs.
    destruct (N.leb_spec hl (len s)); [|lia]. reflexivity.
  - rewrite ts_from_slice_eq, H, Lhs. reflexivity.
  - unfold ts_header_slice. cbn [fst snd]. destruct (N.leb_spec hl (len s)); [|lia].
    rewrite Ehs. reflexivity.
  - unfold ts_payload. cbn [fst snd]. destruct (N.leb_spec hl (len s)); [|lia]. reflexivity.
  - exact A1.
  - exact A2.
  - exact A3.
  - unfold hs_options_iterate. rewrite A1. reflexivity.
  - unfold ts_options_iterate. rewrite A2. reflexivity.
  - unfold hdr_options_iterate, elements_iterate. fold (hdr_options_area h). rewrite A3. reflexivity.
Qed.

Lemma views_agree_err s e : Tcp.slice_from_slice s = Common.Err e ->
  ts_from_slice s = Common.Err e /\ Tcp.from_slice s = Common.Err e.
Proof.
  intros H. split.
  - rewrite ts_from_slice_eq, H. reflexivity.
  - unfold Tcp.from_slice. rewrite H. reflexivity.
Qed.

(* ====================================================================== *)
(* Part 5: the statements of Props/C13.v *)
Lemma c13_header_set_options : forall h els,
  (required_len els <= 40 ->
     exists h' bs,
       set_options h els = Ret (Ok tt, h')
       /\ same_fixed_fields h h'
       /\ hdr_data_offset h' = 5 + pad4 (required_len els) / 4
       /\ hdr_header_len h' = 20 + pad4 (required_len els)
       /\ Tcp.to_bytes h' = Some bs
       /\ len bs = hdr_header_len h'
       /\ take 20 bs = Tcp.fixed_bytes h'
       /\ rd bs 12 = Some (16 * hdr_data_offset h' + (if Tcp.ns h then 1 else 0))
       /\ options_area_of bs = wire_list (map to_opt els) ++ padding (required_len els))
  /\ (40 < required_len els ->
       set_options h els = Ret (Err (NotEnoughSpace (required_len els)), h))
  /\ (forall r h', set_options h els = Ret (r, h') -> (r = Ok tt <-> required_len els <= 40)).
Proof.
  intros h els. split; [|split].
  - intros Hreq. set (W := wire_list (map to_opt els)).
    assert (LW : len W = required_len els) by (symmetry; apply required_len_wire).
    assert (Lc : len W <= 40) by lia.
    exists (install h W), (Tcp.fixed_bytes (install h W) ++ W ++ padding (len W)).
    rewrite <- LW.
    split; [apply set_options_ok; lia|].
    split; [apply install_same_fixed|].
    split; [apply data_offset_install; exact Lc|].
    split; [apply header_len_install|].
    split; [apply to_bytes_install; exact Lc|].
    split; [rewrite (w_len_bs h W Lc); reflexivity|].
    split; [apply CommonProofs.take_app_len; symmetry; apply TcpProofs.len_fixed|].
    split.
    + rewrite rd_fixed_12, byte12_install_val by exact Lc.
      rewrite data_offset_install by exact Lc. reflexivity.
    + unfold options_area_of. apply CommonProofs.drop_app_len. symmetry; apply TcpProofs.len_fixed.
  - apply set_options_err.
  - intros r h' H. destruct (N.le_gt_cases (required_len els) 40) as [L|L].
    + rewrite set_options_ok in H by exact L. injection H as <- _. split; auto.
    + rewrite set_options_err in H by exact L. injection H as <- _.
      split; [discriminate|lia].
Qed.

Lemma c13_header_set_options_raw : forall h data,
  (len data <= 40 ->
     exists h' bs,
       set_options_raw h data = Ret (Ok tt, h')
       /\ same_fixed_fields h h'
       /\ hdr_data_offset h' = 5 + pad4 (len data) / 4
       /\ hdr_header_len h' = 20 + pad4 (len data)
       /\ Tcp.to_bytes h' = Some bs
       /\ len bs = hdr_header_len h'
       /\ take 20 bs = Tcp.fixed_bytes h'
       /\ options_area_of bs = data ++ padding (len data)
       /\ hdr_options_area h' = Ret (data ++ padding (len data))
       /\ (forall payload,
             Tcp.slice_from_slice (bs ++ payload) = Common.Ok bs
             /\ hs_options bs = Ret (data ++ padding (len data))
             /\ ts_from_slice (bs ++ payload) = Common.Ok (hdr_header_len h', bs ++ payload)
             /\ ts_options (hdr_header_len h', bs ++ payload) = Ret (data ++ padding (len data))
             /\ (Tcp.wf_tcp h = true -> bytes_ok data ->
                 Tcp.from_slice (bs ++ payload) = Common.Ok (h', payload))))
  /\ (40 < len data ->
       set_options_raw h data = Ret (Err (NotEnoughSpace (len data)), h)).
Proof.
  intros h data. split.
  - intros Lc.
    exists (install h data), (Tcp.fixed_bytes (install h data) ++ data ++ padding (len data)).
    split; [apply set_options_raw_ok; exact Lc|].
    split; [apply install_same_fixed|].
    split; [apply data_offset_install; exact Lc|].
    split; [apply header_len_install|].
    split; [apply to_bytes_install; exact Lc|].
    split; [rewrite (w_len_bs h data Lc); reflexivity|].
    split; [apply CommonProofs.take_app_len; symmetry; apply TcpProofs.len_fixed|].
    split; [unfold options_area_of; apply CommonProofs.drop_app_len; symmetry; apply TcpProofs.len_fixed|].
    split; [apply w_hdr_area; exact Lc|].
    intros payload.
    split; [apply w_header_slice; exact Lc|].
    split; [apply w_hs_options; exact Lc|].
    split; [apply w_ts_from_slice; exact Lc|].
    split; [apply w_ts_options; exact Lc|].
    intros Wh Bc. apply (w_from_slice h data payload Lc Wh Bc).
  - apply set_options_raw_err.
Qed.

Lemma c13_header_wire_roundtrip : forall h els payload,
  Tcp.wf_tcp h = true -> Forall element_ok els -> required_len els <= 40 ->
  exists h' bs tr,
    set_options h els = Ret (Ok tt, h')
    /\ Tcp.to_bytes h' = Some bs
    (* TcpHeaderSlice::from_slice on header + payload: the header bytes; its options() *)
    /\ Tcp.slice_from_slice (bs ++ payload) = Common.Ok bs
    /\ hs_options bs = Ret (wire_list (map to_opt els) ++ padding (required_len els))
    /\ hs_options_iterate bs = Ret (tr, [])
    (* TcpSlice::from_slice *)
    /\ ts_from_slice (bs ++ payload) = Common.Ok (hdr_header_len h', bs ++ payload)
    /\ ts_payload (hdr_header_len h', bs ++ payload) = Ret payload
    /\ ts_options_iterate (hdr_header_len h', bs ++ payload) = Ret (tr, [])
    (* TcpHeader::from_slice / read: the same header value comes back *)
    /\ Tcp.from_slice (bs ++ payload) = Common.Ok (h', payload)
    /\ Tcp.read (bs ++ payload) = Common.Ok (h', payload)
    /\ hdr_options_iterate h' = Ret (tr, [])
    (* what the iterators yield *)
    /\ map fst tr = map (fun e => Ok (compact e)) els
    /\ last_rest (wire_list (map to_opt els) ++ padding (required_len els)) tr
       = padding (required_len els).
Proof.
  intros h els payload Wh Hok Hreq. set (W := wire_list (map to_opt els)).
  assert (LW : len W = required_len els) by (symmetry; apply required_len_wire).
  assert (Lc : len W <= 40) by lia.
  assert (Bc : bytes_ok W) by (apply bytes_ok_wire_list; exact Hok).
  pose proof (iterate_encoded els Hok) as IT. fold W in IT. rewrite <- LW in IT.
  exists (install h W), (Tcp.fixed_bytes (install h W) ++ W ++ padding (len W)),
         (enc_trace els (padding (len W))).
  rewrite <- LW.
  destruct (w_from_slice h W payload Lc Wh Bc) as (FS & RD).
  change (hdr_header_len (install h W)) with (20 + pad4 (len W)).
  split; [apply set_options_ok; lia|].
  split; [apply to_bytes_install; exact Lc|].
  split; [apply w_header_slice; exact Lc|].
  split; [apply w_hs_options; exact Lc|].
  split; [rewrite (w_hs_iterate h W Lc); exact IT|].
  split; [apply w_ts_from_slice; exact Lc|].
  split; [apply w_ts_payload; exact Lc|].
  split; [rewrite (w_ts_iterate h W payload Lc); exact IT|].
  split; [exact FS|]. split; [exact RD|].
  split; [rewrite (w_hdr_iterate h W Lc); exact IT|].
  split; [apply enc_trace_items|apply enc_trace_last].
Qed.

Lemma c13_header_iterators_agree : forall s, bytes_ok s ->
  (forall e, Tcp.slice_from_slice s = Common.Err e ->
     ts_from_slice s = Common.Err e /\ Tcp.from_slice s = Common.Err e)
  /\ (forall hs, Tcp.slice_from_slice s = Common.Ok hs ->
       exists h area tr,
         Tcp.from_slice s = Common.Ok (h, drop (len hs) s)
         /\ ts_from_slice s = Common.Ok (len hs, s)
         /\ ts_header_slice (len hs, s) = Ret hs
         /\ ts_payload (len hs, s) = Ret (drop (len hs) s)
         /\ area = take (len hs - 20) (drop 20 s)
         /\ hs_options hs = Ret area
         /\ ts_options (len hs, s) = Ret area
         /\ hdr_options_area h = Ret area
         /\ iterate area = Ret (tr, [])
         /\ hs_options_iterate hs = Ret (tr, [])
         /\ ts_options_iterate (len hs, s) = Ret (tr, [])
         /\ hdr_options_iterate h = Ret (tr, [])).
Proof.
  intros s OK. split; [intros e; apply views_agree_err|].
  intros hs H. destruct (views_agree s hs OK H) as (h & V). cbv zeta in V.
  destruct V as (V1 & V2 & Vh & Vp & V3 & V4 & V5 & V6 & V7 & V8).
  destruct (iterate_char (take (len hs - 20) (drop 20 s))) as (tr & fin & IT & TR).
  pose proof (fin_lemma _ _ _ TR) as F. subst fin.
  exists h, (take (len hs - 20) (drop 20 s)), tr.
  rewrite V6, V7, V8. repeat split; assumption.
Qed.

Lemma c13_header_adapter :
  (forall o, of_c08 (to_c08 o) = o) /\ (forall o, to_c08 (of_c08 o) = o)
  /\ (forall o, as_slice o = match Tcp.opt_as_slice (to_c08 o) with Some s => Ret s | None => OOB end)
  /\ (forall o, Tcp.opt_data_offset (to_c08 o) = data_offset o)
  /\ (forall h, Tcp.header_len h = hdr_header_len h)
  /\ (forall h, Tcp.data_offset h = hdr_data_offset h)
  /\ (forall s, try_from_slice s = match Tcp.opt_try_from_slice s with
                                   | Some o => Ret (Ok (of_c08 o))
                                   | None => Ret (Err (NotEnoughSpace (len s)))
                                   end).
Proof.
  split; [exact of_to_c08|]. split; [exact to_of_c08|]. split; [exact as_slice_adapter|].
  split; [exact data_offset_adapter|]. split; [exact header_len_adapter|].
  split; [exact hdr_data_offset_adapter|]. exact try_from_slice_adapter.
Qed.
