(* TcpOpt/Model.v -- transliteration of
     etherparse/src/transport/tcp_options.rs        (try_from_slice, try_from_elements,
                                                     len, as_slice, elements_iter, data_offset)
     etherparse/src/transport/tcp_options_iterator.rs (from_slice, rest, Iterator::next)
     etherparse/src/transport/tcp_option_element.rs   (TcpOptionElement)
     etherparse/src/transport/tcp_option_impl.rs      (KIND_* / LEN_* constants)
   usize values are unbounded N, u8 narrowing (`as u8`) is `mod 256`.
   Checked indexing / slicing (`s[i]`, `&s[a..b]`, `&mut buf[a..b]`) can panic:
   value [Panic].  Unchecked reads (`get_unchecked_be_u16/u32(ptr.add(off))`,
   `slice::from_raw_parts`) outside the slice are undefined behaviour: value [OOB].
   Proofs.v shows that neither is reachable. *)
From EP Require Import Base.Bytes TcpOpt.Spec.
Local Open Scope N_scope.

(* ---- results of partial operations --------------------------------------- *)
Inductive M (A : Type) : Type :=
| Ret (a : A)
| OOB          (* unchecked read outside the slice *)
| Panic        (* index / slice range check failed *)
| OutOfFuel.   (* only produced by [run] *)
Arguments Ret {A} a.
Arguments OOB {A}.
Arguments Panic {A}.
Arguments OutOfFuel {A}.

Definition bind {A B} (m : M A) (k : A -> M B) : M B :=
  match m with
  | Ret a => k a
  | OOB => OOB
  | Panic => Panic
  | OutOfFuel => OutOfFuel
  end.
Notation "x <- e ;; k" := (bind e (fun x => k)) (at level 61, e at next level, right associativity).

Inductive result (A E : Type) : Type := Ok (a : A) | Err (e : E).
Arguments Ok {A E} a.
Arguments Err {A E} e.

(* slice[i] *)
Definition idx (s : bytes) (i : N) : M N :=
  match rd s i with Some v => Ret v | None => Panic end.
(* &slice[a..] *)
Definition slice_from (s : bytes) (a : N) : M bytes :=
  if a <=? len s then Ret (drop a s) else Panic.
(* &slice[a..b] *)
Definition slice_range (s : bytes) (a b : N) : M bytes :=
  if (a <=? b) && (b <=? len s) then Ret (take (b - a) (drop a s)) else Panic.
(* get_unchecked_be_u16(slice.as_ptr().add(off)) *)
Definition unchecked_be_u16 (s : bytes) (off : N) : M N :=
  match rd s off, rd s (off + 1) with
  | Some a, Some b => Ret (be16 a b)
  | _, _ => OOB
  end.
(* get_unchecked_be_u32(slice.as_ptr().add(off)) *)
Definition unchecked_be_u32 (s : bytes) (off : N) : M N :=
  match rd s off, rd s (off + 1), rd s (off + 2), rd s (off + 3) with
  | Some a, Some b, Some c, Some d => Ret (be32 a b c d)
  | _, _, _, _ => OOB
  end.

(* ---- tcp_option_impl.rs --------------------------------------------------- *)
Definition KIND_END : N := 0.
Definition KIND_NOOP : N := 1.
Definition KIND_MAXIMUM_SEGMENT_SIZE : N := 2.
Definition KIND_WINDOW_SCALE : N := 3.
Definition KIND_SELECTIVE_ACK_PERMITTED : N := 4.
Definition KIND_SELECTIVE_ACK : N := 5.
Definition KIND_TIMESTAMP : N := 8.
Definition LEN_MAXIMUM_SEGMENT_SIZE : N := 4.
Definition LEN_WINDOW_SCALE : N := 3.
Definition LEN_SELECTIVE_ACK_PERMITTED : N := 2.
Definition LEN_TIMESTAMP : N := 10.

(* ---- tcp_option_element.rs ------------------------------------------------ *)
Definition ack := option (N * N).
Inductive element :=
| Noop
| MaximumSegmentSize (v : N)                               (* u16 *)
| WindowScale (v : N)                                      (* u8 *)
| SelectiveAcknowledgementPermitted
| SelectiveAcknowledgement (first : N * N) (rest : ack * ack * ack)  (* (u32,u32), [Option<(u32,u32)>;3] *)
| Timestamp (a b : N).                                     (* u32, u32 *)

Definition acks_list (r : ack * ack * ack) : list ack :=
  let '(a, b, c) := r in [a; b; c].

Definition item := result element read_error.

(* ---- tcp_options_iterator.rs ---------------------------------------------- *)
(* the closure expect_specific_size *)
Definition expect_specific_size (expected_size : N) (slice : bytes) : M (result unit read_error) :=
  id <- idx slice 0 ;;
  if len slice <? expected_size then
    Ret (Err (UnexpectedEndOfSlice id expected_size (len slice)))
  else
    s1 <- idx slice 1 ;;
    if negb (s1 =? expected_size) then
      id' <- idx slice 0 ;;
      s1' <- idx slice 1 ;;
      Ret (Err (UnexpectedSize id' s1'))
    else Ret (Ok tt).

(* one round of `for (i, item) in acks.iter_mut().enumerate().take(3)` *)
Definition sack_slot (options : bytes) (ln : N) (i : N) : M ack :=
  let offset := 2 + 8 + i * 8 in
  if offset <? ln then
    l <- unchecked_be_u32 options offset ;;
    r <- unchecked_be_u32 options (offset + 4) ;;
    Ret (Some (l, r))
  else Ret None.

(* the `match self.options[0] { .. }`: result and the new value of self.options *)
Definition next_match (options : bytes) : M (option item * bytes) :=
  k <- idx options 0 ;;
  if k =? KIND_END then Ret (None, options)
  else if k =? KIND_NOOP then
    o' <- slice_from options 1 ;;
    Ret (Some (Ok Noop), o')
  else if k =? KIND_MAXIMUM_SEGMENT_SIZE then
    c <- expect_specific_size LEN_MAXIMUM_SEGMENT_SIZE options ;;
    match c with
    | Err value => Ret (Some (Err value), options)
    | Ok _ =>
      value <- unchecked_be_u16 options 2 ;;
      o' <- slice_from options 4 ;;
      Ret (Some (Ok (MaximumSegmentSize value)), o')
    end
  else if k =? KIND_WINDOW_SCALE then
    c <- expect_specific_size LEN_WINDOW_SCALE options ;;
    match c with
    | Err value => Ret (Some (Err value), options)
    | Ok _ =>
      value <- idx options 2 ;;
      o' <- slice_from options 3 ;;
      Ret (Some (Ok (WindowScale value)), o')
    end
  else if k =? KIND_SELECTIVE_ACK_PERMITTED then
    c <- expect_specific_size LEN_SELECTIVE_ACK_PERMITTED options ;;
    match c with
    | Err value => Ret (Some (Err value), options)
    | Ok _ =>
      o' <- slice_from options 2 ;;
      Ret (Some (Ok SelectiveAcknowledgementPermitted), o')
    end
  else if k =? KIND_SELECTIVE_ACK then
    if len options <? 2 then
      id <- idx options 0 ;;
      Ret (Some (Err (UnexpectedEndOfSlice id 2 (len options))), options)
    else
      ln <- idx options 1 ;;
      if negb (ln =? 10) && negb (ln =? 18) && negb (ln =? 26) && negb (ln =? 34) then
        id <- idx options 0 ;;
        Ret (Some (Err (UnexpectedSize id ln)), options)
      else if len options <? ln then
        id <- idx options 0 ;;
        Ret (Some (Err (UnexpectedEndOfSlice id ln (len options))), options)
      else
        f0 <- unchecked_be_u32 options 2 ;;
        f1 <- unchecked_be_u32 options 6 ;;
        a0 <- sack_slot options ln 0 ;;
        a1 <- sack_slot options ln 1 ;;
        a2 <- sack_slot options ln 2 ;;
        o' <- slice_from options ln ;;
        Ret (Some (Ok (SelectiveAcknowledgement (f0, f1) (a0, a1, a2))), o')
  else if k =? KIND_TIMESTAMP then
    c <- expect_specific_size LEN_TIMESTAMP options ;;
    match c with
    | Err value => Ret (Some (Err value), options)
    | Ok _ =>
      a <- unchecked_be_u32 options 2 ;;
      b <- unchecked_be_u32 options 6 ;;
      o' <- slice_from options 10 ;;
      Ret (Some (Ok (Timestamp a b)), o')
    end
  else
    id <- idx options 0 ;;
    Ret (Some (Err (UnknownId id)), options).

(* Iterator::next: the returned item and the iterator state (= rest()) afterwards *)
Definition next (options : bytes) : M (option item * bytes) :=
  if len options =? 0 then Ret (None, options)
  else
    ro <- next_match options ;;
    let '(result, options1) := ro in
    match result with
    | None | Some (Err _) =>
      (* "move the slice to an end position": &self.options[len..len] *)
      let ln := len options1 in
      o2 <- slice_range options1 ln ln ;;
      Ret (result, o2)
    | _ => Ret (result, options1)
    end.

(* TcpOptionsIterator::from_slice(area) followed by next() until it returns
   None: every yielded item together with rest() after the call, and rest()
   after the final None.  Fuel only makes the recursion structural. *)
Fixpoint run (fuel : nat) (options : bytes) : M (list (item * bytes) * bytes) :=
  match fuel with
  | O => OutOfFuel
  | S f =>
    r <- next options ;;
    match r with
    | (None, o') => Ret ([], o')
    | (Some it, o') =>
      tl <- run f o' ;;
      Ret ((it, o') :: fst tl, snd tl)
    end
  end.

Definition iterate (area : bytes) : M (list (item * bytes) * bytes) :=
  run (S (length area)) area.

(* n further calls of next(): the items they return and the last state *)
Fixpoint next_n (n : nat) (options : bytes) : M (list (option item) * bytes) :=
  match n with
  | O => Ret ([], options)
  | S n' =>
    r <- next options ;;
    tl <- next_n n' (snd r) ;;
    Ret (fst r :: fst tl, snd tl)
  end.

(* ---- tcp_options.rs ------------------------------------------------------- *)
Record tcp_options := { o_len : N; o_buf : bytes }.   (* len: u8, buf: [u8;40] *)
Inductive write_error := NotEnoughSpace (required : N).

Definition MAX_LEN : N := 40.
Definition zeros (n : N) : bytes := repeat 0 (N.to_nat n).

(* buf[off..off + data.len()] = data  (range checked) *)
Definition write_at (buf : bytes) (off : N) (data : bytes) : M bytes :=
  if off + len data <=? len buf then
    Ret (take off buf ++ data ++ drop (off + len data) buf)
  else Panic.

Definition U64_NOT_3 : N := 18446744073709551612.   (* !0b11usize *)

Definition try_from_slice (slice : bytes) : M (result tcp_options write_error) :=
  if MAX_LEN <? len slice then Ret (Err (NotEnoughSpace (len slice)))
  else
    let ln := len slice mod 256 in                    (* as u8 *)
    buf <- write_at (zeros 40) 0 slice ;;             (* buf[..slice.len()].copy_from_slice *)
    Ret (Ok {| o_len := (N.shiftl (N.shiftr ln 2) 2 mod 256
                         + (if negb (N.land ln 3 =? 0) then 4 else 0)) mod 256;
               o_buf := buf |}).

(* rest.iter().fold(10, |acc, y| match y { None => acc, Some(_) => acc + 8 }) *)
Definition sack_len (wrap : N) (rest : ack * ack * ack) : N :=
  fold_left (fun acc y => match y with None => acc | Some _ => (acc + 8) mod wrap end)
            (acks_list rest) 10.

Definition USIZE : N := 18446744073709551616.

Definition element_len (x : element) : N :=
  match x with
  | Noop => 1
  | MaximumSegmentSize _ => 4
  | WindowScale _ => 3
  | SelectiveAcknowledgementPermitted => 2
  | SelectiveAcknowledgement _ rest => sack_len USIZE rest
  | Timestamp _ _ => 10
  end.

(* elements.iter().fold(0, |acc, x| acc + ..): a slice of elements cannot hold
   more than usize::MAX/2 bytes, every element contributes <= 34: no wrap *)
Definition required_len (elements : list element) : N :=
  fold_left (fun acc x => acc + element_len x) elements 0.

(* the body of `for element in elements { match element {..} }` *)
Definition write_element (st : bytes * N) (e : element) : M (bytes * N) :=
  let '(buf, ln) := st in
  match e with
  | Noop =>
    buf <- write_at buf ln [KIND_NOOP] ;;
    Ret (buf, ln + 1)
  | MaximumSegmentSize value =>
    buf <- write_at buf ln ([KIND_MAXIMUM_SEGMENT_SIZE; 4] ++ to_be16 value) ;;
    Ret (buf, ln + 4)
  | WindowScale value =>
    buf <- write_at buf ln [KIND_WINDOW_SCALE; 3; value] ;;
    Ret (buf, ln + 3)
  | SelectiveAcknowledgementPermitted =>
    buf <- write_at buf ln [KIND_SELECTIVE_ACK_PERMITTED; 2] ;;
    Ret (buf, ln + 2)
  | SelectiveAcknowledgement first rest =>
    buf <- write_at buf ln ([KIND_SELECTIVE_ACK; sack_len 256 rest]
                            ++ to_be32 (fst first) ++ to_be32 (snd first)) ;;
    let ln := ln + 10 in
    fold_left (fun (acc : M (bytes * N)) v =>
                 st <- acc ;;
                 let '(buf, ln) := st in
                 match v with
                 | None => Ret (buf, ln)
                 | Some (a, b) =>
                   buf <- write_at buf ln (to_be32 a ++ to_be32 b) ;;
                   Ret (buf, ln + 8)
                 end)
              (acks_list rest) (Ret (buf, ln))
  | Timestamp a b =>
    buf <- write_at buf ln ([KIND_TIMESTAMP; 10] ++ to_be32 a ++ to_be32 b) ;;
    Ret (buf, ln + 10)
  end.

Definition write_elements (elements : list element) (st : bytes * N) : M (bytes * N) :=
  fold_left (fun acc e => st <- acc ;; write_element st e) elements (Ret st).

Definition try_from_elements (elements : list element) : M (result tcp_options write_error) :=
  let required := required_len elements in
  if MAX_LEN <? required then Ret (Err (NotEnoughSpace required))
  else
    st <- write_elements elements (zeros 40, 0) ;;
    let '(buf, ln) := st in
    let ln := if (0 <? ln) && negb (N.land ln 3 =? 0)
              then N.land ln U64_NOT_3 + 4 else ln in
    Ret (Ok {| o_len := ln mod 256; o_buf := buf |}).

Definition options_len (o : tcp_options) : N := o_len o.
Definition data_offset (o : tcp_options) : N := (5 + N.shiftr (o_len o) 2) mod 256.

(* unsafe { core::slice::from_raw_parts(self.buf.as_ptr(), self.len()) } *)
Definition as_slice (o : tcp_options) : M bytes :=
  if o_len o <=? len (o_buf o) then Ret (take (o_len o) (o_buf o)) else OOB.

(* elements_iter() and iteration to the end *)
Definition elements_iterate (o : tcp_options) : M (list (item * bytes) * bytes) :=
  s <- as_slice o ;;
  iterate s.

(* ---- relation to the RFC vocabulary ---------------------------------------- *)
Fixpoint somes (l : list ack) : list (N * N) :=
  match l with
  | [] => []
  | None :: r => somes r
  | Some b :: r => b :: somes r
  end.

Definition to_opt (e : element) : opt :=
  match e with
  | Noop => ONop
  | MaximumSegmentSize v => OMss v
  | WindowScale v => OWscale v
  | SelectiveAcknowledgementPermitted => OSackPerm
  | SelectiveAcknowledgement first rest => OSack (first :: somes (acks_list rest))
  | Timestamp a b => OTs a b
  end.

(* what the wire can carry of a SACK element: the blocks without the holes *)
Definition compact_acks (r : ack * ack * ack) : ack * ack * ack :=
  match somes (acks_list r) with
  | [] => (None, None, None)
  | [x] => (Some x, None, None)
  | [x; y] => (Some x, Some y, None)
  | x :: y :: z :: _ => (Some x, Some y, Some z)
  end.

Definition compact (e : element) : element :=
  match e with
  | SelectiveAcknowledgement first rest => SelectiveAcknowledgement first (compact_acks rest)
  | _ => e
  end.

(* a Some never follows a None *)
Definition no_hole (r : ack * ack * ack) : Prop :=
  match r with
  | (None, Some _, _) | (_, None, Some _) => False
  | _ => True
  end.

(* the ranges of the Rust field types *)
Definition ack_ok (a : ack) : Prop :=
  match a with None => True | Some b => block_ok b end.
Definition element_ok (e : element) : Prop :=
  match e with
  | Noop | SelectiveAcknowledgementPermitted => True
  | MaximumSegmentSize v => u16_ok v
  | WindowScale v => u8_ok v
  | SelectiveAcknowledgement first (a, b, c) => block_ok first /\ ack_ok a /\ ack_ok b /\ ack_ok c
  | Timestamp a b => u32_ok a /\ u32_ok b
  end.

(* a SACK element as the decoder produces it *)
Definition canonical (e : element) : Prop :=
  match e with SelectiveAcknowledgement _ r => no_hole r | _ => True end.

(* ---- vocabulary for statements about traces -------------------------------- *)
(* a trace is the list of (yielded item, rest() after the call) *)
Definition is_ok (p : item * bytes) : Prop := exists e, fst p = Ok e.
Definition all_ok (tr : list (item * bytes)) : Prop := Forall is_ok tr.

Fixpoint elems_of (tr : list (item * bytes)) : list element :=
  match tr with
  | [] => []
  | (Ok e, _) :: r => e :: elems_of r
  | (Err _, _) :: r => elems_of r
  end.

(* rest() after the last call of the trace (the whole area before any call) *)
Definition last_rest (area : bytes) (tr : list (item * bytes)) : bytes :=
  last (map snd tr) area.

(* the trace expected from iterating the encoding of [els] followed by [tail] *)
Fixpoint enc_trace (els : list element) (tail : bytes) : list (item * bytes) :=
  match els with
  | [] => []
  | e :: r => (Ok (compact e), wire_list (map to_opt r) ++ tail) :: enc_trace r tail
  end.

(* ---- the model against the executable reference decoder of Spec.v ----------- *)
(* one call of next() *)
Definition agrees (m : M (option item * bytes)) (s : sitem) : Prop :=
  match m with
  | Ret (None, r) => s = SEnd /\ r = []
  | Ret (Some (Ok e), r) => s = SOk (to_opt e) r
  | Ret (Some (Err e), r) => s = SErr e /\ r = []
  | _ => False
  end.
(* a whole trace in the reference decoder's vocabulary *)
Fixpoint sitems_of (tr : list (item * bytes)) : list sitem :=
  match tr with
  | [] => [SEnd]
  | (Ok e, r) :: tl => SOk (to_opt e) r :: sitems_of tl
  | (Err e, _) :: _ => [SErr e]
  end.
