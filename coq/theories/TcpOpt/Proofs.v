(* TcpOpt/Proofs.v -- lemmas for property C13.
   Part 1: big-endian round trips.
   Part 2: one call of next(): it never faults and is described by [next_rel]
           (the RFC wire format of Spec.v); evaluation lemmas for encoded options.
   Part 3: the whole iteration ([trace_rel]) and its consequences: tiling,
           error truth, boundedness, exhaustion.
   Part 4: try_from_elements / try_from_slice / as_slice and the round trip. *)
From EP Require Import Base.Bytes TcpOpt.Spec TcpOpt.Model.
Local Open Scope N_scope.

(* ====================================================================== *)
Lemma to_be16_be16 a b : a < 256 -> b < 256 -> to_be16 (be16 a b) = [a; b].
Proof.
  intros Ha Hb. unfold to_be16, be16.
  assert (E1 : (a * 256 + b) / 256 = a) by (symmetry; apply (N.div_unique _ 256 a b); lia).
  assert (E2 : (a * 256 + b) mod 256 = b) by (symmetry; apply (N.mod_unique _ 256 a b); lia).
  rewrite E1, E2. rewrite (N.mod_small a 256) by lia. reflexivity.
Qed.

Lemma be16_to_be16 v : v < 65536 -> be16 ((v / 256) mod 256) (v mod 256) = v.
Proof.
  intros Hv. unfold be16.
  assert (v / 256 < 256) by (apply N.div_lt_upper_bound; lia).
  rewrite (N.mod_small (v / 256)) by lia.
  pose proof (N.div_mod v 256). lia.
Qed.

Lemma to_be32_be32 a b c d : a < 256 -> b < 256 -> c < 256 -> d < 256 ->
  to_be32 (be32 a b c d) = [a; b; c; d].
Proof.
  intros Ha Hb Hc Hd. unfold to_be32, be32.
  set (v := ((a * 256 + b) * 256 + c) * 256 + d).
  assert (E0 : v mod 256 = d) by (symmetry; apply (N.mod_unique v 256 ((a * 256 + b) * 256 + c) d); subst v; lia).
  assert (Q1 : v / 256 = (a * 256 + b) * 256 + c) by (symmetry; apply (N.div_unique v 256 _ d); subst v; lia).
  assert (Q2 : v / 65536 = a * 256 + b).
  { change 65536 with (256 * 256). rewrite <- N.div_div by lia. rewrite Q1.
    symmetry; apply (N.div_unique _ 256 _ c); lia. }
  assert (Q3 : v / 16777216 = a).
  { change 16777216 with (65536 * 256). rewrite <- N.div_div by lia. rewrite Q2.
    symmetry; apply (N.div_unique _ 256 _ b); lia. }
  rewrite E0, Q1, Q2, Q3.
  rewrite (N.mod_small a 256) by lia.
  assert (E1 : ((a * 256 + b) * 256 + c) mod 256 = c) by (symmetry; apply (N.mod_unique _ 256 (a * 256 + b) c); lia).
  assert (E2 : (a * 256 + b) mod 256 = b) by (symmetry; apply (N.mod_unique _ 256 a b); lia).
  rewrite E1, E2. reflexivity.
Qed.

Lemma be32_to_be32 v : v < 4294967296 ->
  be32 ((v / 16777216) mod 256) ((v / 65536) mod 256) ((v / 256) mod 256) (v mod 256) = v.
Proof.
  intros Hv. unfold be32.
  set (q1 := v / 256).
  assert (E2 : v / 65536 = q1 / 256) by (change 65536 with (256 * 256); rewrite <- N.div_div by lia; reflexivity).
  assert (E3 : v / 16777216 = q1 / 256 / 256).
  { change 16777216 with (256 * 256 * 256). rewrite <- !N.div_div by lia. reflexivity. }
  rewrite E2, E3.
  set (q2 := q1 / 256). set (q3 := q2 / 256).
  pose proof (N.div_mod v 256 ltac:(lia)) as D1. fold q1 in D1.
  pose proof (N.div_mod q1 256 ltac:(lia)) as D2. fold q2 in D2.
  pose proof (N.div_mod q2 256 ltac:(lia)) as D3. fold q3 in D3.
  pose proof (N.mod_lt v 256 ltac:(lia)). pose proof (N.mod_lt q1 256 ltac:(lia)).
  pose proof (N.mod_lt q2 256 ltac:(lia)).
  assert (q3 < 256).
  { subst q3 q2 q1. rewrite !N.div_div by lia. apply N.div_lt_upper_bound; lia. }
  rewrite (N.mod_small q3) by lia. lia.
Qed.

(* ====================================================================== *)
Ltac is_plit p := lazymatch p with xH => idtac | xO ?q => is_plit q | xI ?q => is_plit q end.
Ltac is_lit n := lazymatch n with N0 => idtac | Npos ?p => is_plit p end.
Ltac norm1 f a b := is_lit a; is_lit b; let v := eval vm_compute in (f a b) in change (f a b) with v.
Ltac norm_lits := repeat match goal with
  | |- context [N.add ?a ?b] => norm1 N.add a b
  | |- context [N.mul ?a ?b] => norm1 N.mul a b
  | |- context [N.sub ?a ?b] => norm1 N.sub a b
  | |- context [N.eqb ?a ?b] => norm1 N.eqb a b
  | |- context [N.ltb ?a ?b] => norm1 N.ltb a b
  | |- context [N.leb ?a ?b] => norm1 N.leb a b
  | |- context [N.to_nat ?a] => is_lit a; let v := eval vm_compute in (N.to_nat a) in change (N.to_nat a) with v
  end.


(* what one call of next() does, in terms of the RFC vocabulary *)
Inductive next_rel (bs : bytes) : option item -> bytes -> Prop :=
| NR_empty : bs = [] -> next_rel bs None []
| NR_end r : bs = 0 :: r -> next_rel bs None []
| NR_ok e r : len r < len bs -> canonical e ->
    (bytes_ok bs -> bs = wire (to_opt e) ++ r /\ element_ok e) ->
    next_rel bs (Some (Ok e)) r
| NR_err e : bs <> [] -> err_true bs e -> spec_next bs = SErr e -> next_rel bs (Some (Err e)) [].

Lemma slice_range_end s : slice_range s (len s) (len s) = Ret [].
Proof.
  unfold slice_range. rewrite !N.leb_refl. cbn [andb]. rewrite N.sub_diag. reflexivity.
Qed.

Lemma len_pos_cons {A} (x : A) l : len (x :: l) =? 0 = false.
Proof. rewrite len_cons. apply N.eqb_neq. lia. Qed.

Ltac len_norm := rewrite ?len_cons, ?len_nil in *.

(* split a list known to be long enough into explicit cons cells *)
Ltac uncons bs H :=
  let x := fresh "x" in
  destruct bs as [|x bs]; [exfalso; len_norm; lia|].

Lemma ess_char L k bs : 2 <= L ->
  (len (k :: bs) < L /\
     expect_specific_size L (k :: bs) = Ret (Err (UnexpectedEndOfSlice k L (len (k :: bs)))))
  \/ (exists s r, bs = s :: r /\ L <= len (k :: bs) /\ s <> L /\
     expect_specific_size L (k :: bs) = Ret (Err (UnexpectedSize k s)))
  \/ (exists r, bs = L :: r /\ L <= len (k :: bs) /\
     expect_specific_size L (k :: bs) = Ret (Ok tt)).
Proof.
  intros HL. unfold expect_specific_size.
  change (idx (k :: bs) 0) with (Ret k). cbn [bind].
  destruct (N.ltb_spec (len (k :: bs)) L) as [Hs|Hs].
  { left. split; [exact Hs|reflexivity]. }
  right. destruct bs as [|s r]; [exfalso; len_norm; lia|].
  change (idx (k :: s :: r) 1) with (Ret s). cbn [bind].
  destruct (N.eqb_spec s L) as [->|Hne]; cbn [negb bind].
  - right. exists r. repeat split; assumption.
  - left. exists s, r. repeat split; assumption.
Qed.

Lemma fixed_err_short k L bs : known_lens k = Some [L] -> len (k :: bs) < L ->
  err_true (k :: bs) (UnexpectedEndOfSlice k L (len (k :: bs))).
Proof.
  intros HK Hs. apply ET_short with (ls := [L]); auto.
Qed.

Lemma fixed_err_size k L s r : known_lens k = Some [L] -> s <> L ->
  err_true (k :: s :: r) (UnexpectedSize k s).
Proof.
  intros HK Hs. apply ET_size with (ls := [L]); auto.
  unfold mem. cbn [existsb]. apply N.eqb_neq in Hs. rewrite Hs. reflexivity.
Qed.

(* the reference decoder of Spec.v on the same malformed inputs *)
Lemma spec_fixed_short k L bs : known_lens k = Some [L] -> k <> 0 -> k <> 1 ->
  len (k :: bs) < L ->
  spec_next (k :: bs) = SErr (UnexpectedEndOfSlice k L (len (k :: bs))).
Proof.
  intros HK K0 K1 Hs. unfold spec_next.
  apply N.eqb_neq in K0, K1. rewrite K0, K1, HK.
  apply N.ltb_lt in Hs. rewrite Hs. reflexivity.
Qed.

Lemma spec_fixed_size k L s r : known_lens k = Some [L] -> k <> 0 -> k <> 1 ->
  L <= len (k :: s :: r) -> s <> L ->
  spec_next (k :: s :: r) = SErr (UnexpectedSize k s).
Proof.
  intros HK K0 K1 Hl Hne. unfold spec_next.
  apply N.eqb_neq in K0, K1. rewrite K0, K1, HK.
  apply N.ltb_ge in Hl. rewrite Hl.
  change (rd (k :: s :: r) 1) with (Some s). cbv iota beta.
  apply N.eqb_neq in Hne. rewrite Hne. reflexivity.
Qed.

Lemma spec_sack_short1 bs : len (5 :: bs) < 2 ->
  spec_next (5 :: bs) = SErr (UnexpectedEndOfSlice 5 2 (len (5 :: bs))).
Proof.
  intros Hs. destruct bs as [|x bs]; [reflexivity|].
  exfalso. rewrite !len_cons in Hs. lia.
Qed.

Lemma spec_sack_short2 s r : mem s [10; 18; 26; 34] = true -> len (5 :: s :: r) < s ->
  spec_next (5 :: s :: r) = SErr (UnexpectedEndOfSlice 5 s (len (5 :: s :: r))).
Proof.
  intros Hm Hs. unfold spec_next. norm_lits. cbv iota beta.
  change (known_lens 5) with (Some [10; 18; 26; 34]). cbv iota beta.
  change (rd (5 :: s :: r) 1) with (Some s). cbv iota beta. rewrite Hm.
  apply N.ltb_lt in Hs. rewrite Hs. reflexivity.
Qed.

Lemma spec_sack_size s r : s <> 10 -> s <> 18 -> s <> 26 -> s <> 34 ->
  spec_next (5 :: s :: r) = SErr (UnexpectedSize 5 s).
Proof.
  intros H1 H2 H3 H4. unfold spec_next. norm_lits. cbv iota beta.
  change (known_lens 5) with (Some [10; 18; 26; 34]). cbv iota beta.
  change (rd (5 :: s :: r) 1) with (Some s). cbv iota beta.
  unfold mem. cbn [existsb]. apply N.eqb_neq in H1, H2, H3, H4. rewrite H1, H2, H3, H4. reflexivity.
Qed.

Lemma spec_unknown k bs : k <> 0 -> k <> 1 -> known_lens k = None ->
  spec_next (k :: bs) = SErr (UnknownId k).
Proof.
  intros K0 K1 HK. unfold spec_next. apply N.eqb_neq in K0, K1. rewrite K0, K1, HK. reflexivity.
Qed.

Ltac err_case HK :=
  cbn [bind]; rewrite slice_range_end; cbn [bind];
  eexists _, []; split; [reflexivity|]; apply NR_err;
  [ discriminate
  | first [ apply fixed_err_short; [exact HK | assumption]
          | eapply fixed_err_size; [exact HK | assumption] ]
  | first [ apply spec_fixed_short; [exact HK | lia | lia | assumption]
          | eapply spec_fixed_size; [exact HK | lia | lia | assumption | assumption] ] ].

Ltac bytes_inv H :=
  repeat match type of H with
  | bytes_ok (_ :: _) => let Hb := fresh "Hb" in apply bytes_ok_cons in H; destruct H as [Hb H]; unfold byte_ok in Hb
  end.


Ltac rd_eval := unfold rd; norm_lits; cbn [nth_error bind].
Ltac do_slice_from := unfold slice_from; len_norm;
  match goal with |- context [N.leb ?a ?b] => destruct (N.leb_spec a b); [|exfalso; lia] end;
  cbn [bind]; unfold drop; norm_lits; cbn [skipn].

Lemma sack_err_short1 bs : len (5 :: bs) < 2 ->
  err_true (5 :: bs) (UnexpectedEndOfSlice 5 2 (len (5 :: bs))).
Proof.
  intros H. apply ET_short with (ls := [10; 18; 26; 34]); auto.
Qed.

Lemma sack_err_short2 s r : mem s [10; 18; 26; 34] = true -> len (5 :: s :: r) < s ->
  err_true (5 :: s :: r) (UnexpectedEndOfSlice 5 s (len (5 :: s :: r))).
Proof.
  intros Hm H. apply ET_short with (ls := [10; 18; 26; 34]); auto.
Qed.

Lemma sack_err_size s r : s <> 10 -> s <> 18 -> s <> 26 -> s <> 34 ->
  err_true (5 :: s :: r) (UnexpectedSize 5 s).
Proof.
  intros H1 H2 H3 H4. apply ET_size with (ls := [10; 18; 26; 34]); auto.
  unfold mem. cbn [existsb]. apply N.eqb_neq in H1, H2, H3, H4. rewrite H1, H2, H3, H4. reflexivity.
Qed.

Ltac finish_err := cbn [bind]; rewrite slice_range_end; cbn [bind];
  eexists _, []; split; [reflexivity|]; apply NR_err; [discriminate| | ].

Tactic Notation "sack_ok" integer(n) ident(r) :=
  do n (uncons r tt);
  unfold unchecked_be_u32, sack_slot; norm_lits; rd_eval; do_slice_from;
  eexists _, r; split; [reflexivity|]; apply NR_ok; [len_norm; lia|exact I|];
  let Hok := fresh "Hok" in intros Hok; bytes_inv Hok;
  cbn [to_opt acks_list somes wire map concat wire_block fst snd app];
  unfold len; cbn [length N.of_nat Pos.of_succ_nat Pos.succ]; norm_lits;
  unfold wire_block; cbn [fst snd]; rewrite !to_be32_be32 by assumption; cbn [app];
  split; [reflexivity|];
  cbn [element_ok ack_ok]; unfold block_ok, u32_ok; cbn [fst snd];
  repeat split; apply be32_lt; assumption.
Lemma next_char bs : exists it r, next bs = Ret (it, r) /\ next_rel bs it r.
Proof.
  destruct bs as [|k bs].
  { exists None, []. split; [reflexivity|]. now constructor. }
  unfold next. rewrite len_pos_cons. unfold next_match.
  change (idx (k :: bs) 0) with (Ret k). cbn [bind].
  unfold KIND_END, KIND_NOOP, KIND_MAXIMUM_SEGMENT_SIZE, KIND_WINDOW_SCALE,
    KIND_SELECTIVE_ACK_PERMITTED, KIND_SELECTIVE_ACK, KIND_TIMESTAMP,
    LEN_MAXIMUM_SEGMENT_SIZE, LEN_WINDOW_SCALE, LEN_SELECTIVE_ACK_PERMITTED, LEN_TIMESTAMP.
  destruct (N.eqb_spec k 0) as [->|K0].
  { cbn [bind]. rewrite slice_range_end. cbn [bind]. exists None, []. split; [reflexivity|].
    now apply NR_end with bs. }
  destruct (N.eqb_spec k 1) as [->|K1].
  { unfold slice_from. rewrite len_cons.
    destruct (N.leb_spec 1 (1 + len bs)); [|lia]. cbn [bind]; unfold drop; norm_lits; cbn [skipn].
    exists (Some (Ok Noop)), bs. split; [reflexivity|].
    apply NR_ok; [rewrite len_cons; lia|exact I|]. intros _. split; [reflexivity|exact I]. }
  destruct (N.eqb_spec k 2) as [->|K2].
  { assert (HK : known_lens 2 = Some [4]) by reflexivity.
    destruct (ess_char 4 2 bs ltac:(lia)) as [[Hs ->]|[(s & r & -> & Hl & Hne & ->)|(r & -> & Hl & ->)]].
    - err_case HK.
    - err_case HK.
    - cbn [bind]. uncons r Hl. uncons r Hl.
      unfold unchecked_be_u16. norm_lits. rd_eval.
      unfold slice_from. len_norm. destruct (N.leb_spec 4 (1 + (1 + (1 + (1 + len r))))); [|lia].
      cbn [bind]; unfold drop; norm_lits; cbn [skipn].
      eexists _, r. split; [reflexivity|]. apply NR_ok; [len_norm; lia|exact I|].
      intros Hok. bytes_inv Hok. cbn [to_opt wire app]. rewrite to_be16_be16 by assumption.
      split; [reflexivity|]. cbn [element_ok]. unfold u16_ok. apply be16_lt; assumption. }

  destruct (N.eqb_spec k 3) as [->|K3].
  { assert (HK : known_lens 3 = Some [3]) by reflexivity.
    destruct (ess_char 3 3 bs ltac:(lia)) as [[Hs ->]|[(s & r & -> & Hl & Hne & ->)|(r & -> & Hl & ->)]].
    - err_case HK.
    - err_case HK.
    - cbn [bind]. uncons r Hl. unfold idx. rd_eval. do_slice_from.
      eexists _, r. split; [reflexivity|]. apply NR_ok; [len_norm; lia|exact I|].
      intros Hok. bytes_inv Hok. split; [reflexivity|]. exact Hb1. }
  destruct (N.eqb_spec k 4) as [->|K4].
  { assert (HK : known_lens 4 = Some [2]) by reflexivity.
    destruct (ess_char 2 4 bs ltac:(lia)) as [[Hs ->]|[(s & r & -> & Hl & Hne & ->)|(r & -> & Hl & ->)]].
    - err_case HK.
    - err_case HK.
    - cbn [bind]. do_slice_from.
      eexists _, r. split; [reflexivity|]. apply NR_ok; [len_norm; lia|exact I|].
      intros Hok. split; [reflexivity|exact I]. }
  destruct (N.eqb_spec k 5) as [->|K5].
  { destruct (N.ltb_spec (len (5 :: bs)) 2) as [Hs|Hs].
    { change (idx (5 :: bs) 0) with (Ret 5). finish_err; [now apply sack_err_short1 | now apply spec_sack_short1]. }
    destruct bs as [|s r]; [exfalso; len_norm; lia|].
    change (idx (5 :: s :: r) 1) with (Ret s). change (idx (5 :: s :: r) 0) with (Ret 5). cbn [bind].
    destruct (N.eqb_spec s 10) as [->|S10]; cbn [negb andb].
    { destruct (N.ltb_spec (len (5 :: 10 :: r)) 10) as [Hs2|Hs2].
      { finish_err; [now apply sack_err_short2 | now apply spec_sack_short2]. }
      sack_ok 8 r. }
    destruct (N.eqb_spec s 18) as [->|S18]; cbn [negb andb].
    { destruct (N.ltb_spec (len (5 :: 18 :: r)) 18) as [Hs2|Hs2].
      { finish_err; [now apply sack_err_short2 | now apply spec_sack_short2]. }
      sack_ok 16 r. }
    destruct (N.eqb_spec s 26) as [->|S26]; cbn [negb andb].
    { destruct (N.ltb_spec (len (5 :: 26 :: r)) 26) as [Hs2|Hs2].
      { finish_err; [now apply sack_err_short2 | now apply spec_sack_short2]. }
      sack_ok 24 r. }
    destruct (N.eqb_spec s 34) as [->|S34]; cbn [negb andb].
    { destruct (N.ltb_spec (len (5 :: 34 :: r)) 34) as [Hs2|Hs2].
      { finish_err; [now apply sack_err_short2 | now apply spec_sack_short2]. }
      sack_ok 32 r. }
    finish_err; [now apply sack_err_size | now apply spec_sack_size]. }
  destruct (N.eqb_spec k 8) as [->|K8].
  { assert (HK : known_lens 8 = Some [10]) by reflexivity.
    destruct (ess_char 10 8 bs ltac:(lia)) as [[Hs ->]|[(s & r & -> & Hl & Hne & ->)|(r & -> & Hl & ->)]].
    - err_case HK.
    - err_case HK.
    - cbn [bind]. do 8 (uncons r Hl).
      unfold unchecked_be_u32. norm_lits. rd_eval. do_slice_from.
      eexists _, r. split; [reflexivity|]. apply NR_ok; [len_norm; lia|exact I|].
      intros Hok. bytes_inv Hok. cbn [to_opt wire app]. rewrite !to_be32_be32 by assumption.
      split; [reflexivity|]. cbn [element_ok]. unfold u32_ok. split; apply be32_lt; assumption. }
  assert (HK : known_lens k = None).
  { unfold known_lens.
    apply N.eqb_neq in K2, K3, K4, K5, K8. rewrite K2, K3, K4, K5, K8. reflexivity. }
  finish_err; [apply ET_unknown; auto | apply spec_unknown; assumption].
Qed.

(* ====================================================================== *)
Lemma next_total bs : exists it r, next bs = Ret (it, r).
Proof. destruct (next_char bs) as (it & r & H & _). eauto. Qed.

Lemma next_nil : next [] = Ret (None, []).
Proof. reflexivity. Qed.

(* the whole iteration *)
Inductive trace_rel : bytes -> list (item * bytes) -> bytes -> Prop :=
| TR_stop bs : (bs = [] \/ exists r, bs = 0 :: r) -> trace_rel bs [] []
| TR_ok bs e r tr fin : next_rel bs (Some (Ok e)) r -> trace_rel r tr fin ->
    trace_rel bs ((Ok e, r) :: tr) fin
| TR_err bs e : next_rel bs (Some (Err e)) [] -> trace_rel bs [(Err e, [])] [].

Lemma len_length {A} (l : list A) : len l = N.of_nat (length l).
Proof. reflexivity. Qed.

Lemma run_char fuel : forall bs, (length bs < fuel)%nat ->
  exists tr fin, run fuel bs = Ret (tr, fin) /\ trace_rel bs tr fin.
Proof.
  induction fuel as [|f IH]; intros bs Hf; [lia|].
  cbn [run]. destruct (next_char bs) as (it & r & E & R). rewrite E. cbn [bind].
  destruct R as [Hnil | r0 Hend | e r Hlt Hcan Hw | e Hne Het Hsp].
  - exists [], []. split; [reflexivity|]. apply TR_stop. now left.
  - exists [], []. split; [reflexivity|]. apply TR_stop. right. eauto.
  - assert (Hr : (length r < f)%nat) by (rewrite !len_length in Hlt; lia).
    destruct (IH r Hr) as (tr & fin & E2 & T2). rewrite E2. cbn [bind fst snd].
    exists ((Ok e, r) :: tr), fin. split; [reflexivity|].
    apply TR_ok; [apply NR_ok; assumption | exact T2].
  - destruct f as [|f'].
    { destruct bs; [congruence | cbn [length] in Hf; lia]. }
    cbn [run]. rewrite next_nil. cbn [bind fst snd].
    exists [(Err e, [])], []. split; [reflexivity|]. apply TR_err. apply NR_err; assumption.
Qed.

Lemma iterate_char area : exists tr fin, iterate area = Ret (tr, fin) /\ trace_rel area tr fin.
Proof. unfold iterate. apply run_char. lia. Qed.

Lemma iterate_rel area tr fin : iterate area = Ret (tr, fin) -> trace_rel area tr fin.
Proof.
  intros H. destruct (iterate_char area) as (tr' & fin' & E & R).
  rewrite E in H. inversion H; subst. exact R.
Qed.

(* ---- consequences of trace_rel ---- *)
Lemma last_cons_default {A} (l : list A) : forall x d, last (x :: l) d = last l x.
Proof.
  induction l as [|y l IH]; intros x d; [reflexivity|].
  change (last (x :: y :: l) d) with (last (y :: l) d). rewrite !IH. reflexivity.
Qed.

Lemma last_rest_cons area p tr : last_rest area (p :: tr) = last_rest (snd p) tr.
Proof. unfold last_rest. cbn [map]. apply last_cons_default. Qed.

Lemma next_rel_ok_inv bs e r : next_rel bs (Some (Ok e)) r ->
  len r < len bs /\ canonical e /\ (bytes_ok bs -> bs = wire (to_opt e) ++ r /\ element_ok e).
Proof. intros H. inversion H; subst. auto. Qed.

Lemma next_rel_err_inv bs e r : next_rel bs (Some (Err e)) r -> r = [] /\ bs <> [] /\ err_true bs e.
Proof. intros H. inversion H; subst. auto. Qed.

Lemma tiles_lemma area tr fin : trace_rel area tr fin -> bytes_ok area ->
  forall pre post, tr = pre ++ post -> all_ok pre ->
    area = wire_list (map to_opt (elems_of pre)) ++ last_rest area pre
    /\ Forall element_ok (elems_of pre) /\ Forall canonical (elems_of pre).
Proof.
  induction 1 as [bs Hs | bs e r tr fin Hn Ht IH | bs e Hn]; intros Hok pre post Hsplit Hall.
  - destruct pre; [|discriminate]. cbn. auto.
  - destruct pre as [|p pre].
    { cbn. auto. }
    cbn [app] in Hsplit. inversion Hsplit; subst p tr.
    apply next_rel_ok_inv in Hn. destruct Hn as (Hlt & Hcan & Hw).
    destruct (Hw Hok) as [Hbs Heo].
    assert (Hokr : bytes_ok r).
    { rewrite Hbs in Hok. apply bytes_ok_app in Hok. tauto. }
    assert (Hall' : all_ok pre) by (inversion Hall; assumption).
    destruct (IH Hokr pre post eq_refl Hall') as (Ht1 & Ht2 & Ht3).
    rewrite last_rest_cons. cbn [snd elems_of map].
    unfold wire_list in *. cbn [map concat]. rewrite <- app_assoc. rewrite <- Ht1.
    repeat split; [exact Hbs | constructor; assumption | constructor; assumption].
  - destruct pre as [|p pre].
    { cbn. auto. }
    cbn [app] in Hsplit. inversion Hsplit; subst p.
    assert (Hp : is_ok (Err e, [])) by (inversion Hall; assumption).
    destruct Hp as [e' He']. discriminate.
Qed.

Lemma error_lemma area tr fin : trace_rel area tr fin ->
  forall pre e r post, tr = pre ++ (Err e, r) :: post ->
    all_ok pre /\ post = [] /\ r = [] /\ last_rest area pre <> [] /\ err_true (last_rest area pre) e.
Proof.
  induction 1 as [bs Hs | bs e0 r0 tr fin Hn Ht IH | bs e0 Hn]; intros pre e r post Hsplit.
  - destruct pre; discriminate.
  - destruct pre as [|p pre]; [discriminate|].
    cbn [app] in Hsplit. inversion Hsplit; subst p tr.
    destruct (IH pre e r post eq_refl) as (H1 & H2 & H3 & H4 & H5).
    rewrite last_rest_cons. cbn [snd].
    repeat split; try assumption. constructor; [|exact H1]. exists e0. reflexivity.
  - apply next_rel_err_inv in Hn. destruct Hn as (_ & Hne & Het).
    destruct pre as [|p pre].
    + cbn [app] in Hsplit. inversion Hsplit; subst.
      repeat split; try assumption. constructor.
    + cbn [app] in Hsplit. inversion Hsplit as [[Hp Hrest]]. destruct pre; discriminate.
Qed.

Lemma bounded_lemma area tr fin : trace_rel area tr fin ->
  (length tr <= length area)%nat /\
  (forall pre e r post, tr = pre ++ (Ok e, r) :: post -> len r < len (last_rest area pre)).
Proof.
  induction 1 as [bs Hs | bs e0 r0 tr fin Hn Ht IH | bs e0 Hn].
  - split; [cbn; lia|]. intros pre e r post H. destruct pre; discriminate.
  - apply next_rel_ok_inv in Hn. destruct Hn as (Hlt & _).
    destruct IH as [IH1 IH2]. split.
    + cbn [length]. rewrite !len_length in Hlt. lia.
    + intros pre e r post Hsplit. destruct pre as [|p pre].
      * cbn [app] in Hsplit. inversion Hsplit; subst. exact Hlt.
      * cbn [app] in Hsplit. inversion Hsplit; subst p tr.
        rewrite last_rest_cons. cbn [snd]. eapply IH2. reflexivity.
  - apply next_rel_err_inv in Hn. destruct Hn as (_ & Hne & _). split.
    + destruct bs; [congruence|]. cbn [length]. lia.
    + intros pre e r post Hsplit. destruct pre as [|p pre]; [discriminate|].
      cbn [app] in Hsplit. inversion Hsplit. destruct pre; discriminate.
Qed.

Lemma next_n_nil n : next_n n [] = Ret (repeat None n, []).
Proof.
  induction n as [|n IH]; [reflexivity|].
  cbn [next_n]. rewrite next_nil. cbn [bind snd fst]. rewrite IH. reflexivity.
Qed.

Lemma fin_lemma area tr fin : trace_rel area tr fin -> fin = [].
Proof. induction 1; auto. Qed.

(* why the iteration ended *)
Lemma stop_lemma area tr fin : trace_rel area tr fin ->
  last_rest area tr = [] \/ (exists r, last_rest area tr = 0 :: r).
Proof.
  induction 1 as [bs Hs | bs e0 r0 tr fin Hn Ht IH | bs e0 Hn].
  - exact Hs.
  - rewrite last_rest_cons. exact IH.
  - left. reflexivity.
Qed.

Lemma next_exhausts bs it r : next bs = Ret (it, r) ->
  (it = None \/ exists e, it = Some (Err e)) -> r = [].
Proof.
  intros E H. destruct (next_char bs) as (it' & r' & E' & R). rewrite E in E'.
  inversion E'; subst it' r'.
  destruct R; try reflexivity. destruct H as [H|[e' H]]; discriminate.
Qed.

(* ====================================================================== *)
Ltac kill_len_tests := repeat match goal with
  | |- context [N.ltb (len ?l) ?b] => rewrite (proj2 (N.ltb_ge (len l) b)) by (len_norm; lia)
  end.

Ltac eval_next :=
  unfold next, next_match, expect_specific_size, sack_slot, unchecked_be_u16, unchecked_be_u32, idx,
    KIND_END, KIND_NOOP, KIND_MAXIMUM_SEGMENT_SIZE, KIND_WINDOW_SCALE,
    KIND_SELECTIVE_ACK_PERMITTED, KIND_SELECTIVE_ACK, KIND_TIMESTAMP,
    LEN_MAXIMUM_SEGMENT_SIZE, LEN_WINDOW_SCALE, LEN_SELECTIVE_ACK_PERMITTED, LEN_TIMESTAMP;
  rewrite len_pos_cons;
  repeat (progress (norm_lits; rd_eval; kill_len_tests; cbn [negb andb bind]));
  try do_slice_from.

Lemma next_sack10 x0 x1 x2 x3 x4 x5 x6 x7 r :
  next (5 :: 10 :: x0 :: x1 :: x2 :: x3 :: x4 :: x5 :: x6 :: x7 :: r) =
  Ret (Some (Ok (SelectiveAcknowledgement (be32 x0 x1 x2 x3, be32 x4 x5 x6 x7) (None, None, None))), r).
Proof. eval_next. reflexivity. Qed.

Lemma next_sack18 x0 x1 x2 x3 x4 x5 x6 x7 x8 x9 x10 x11 x12 x13 x14 x15 r :
  next (5 :: 18 :: x0 :: x1 :: x2 :: x3 :: x4 :: x5 :: x6 :: x7 :: x8 :: x9 :: x10 :: x11 :: x12 :: x13 :: x14 :: x15 :: r) =
  Ret (Some (Ok (SelectiveAcknowledgement (be32 x0 x1 x2 x3, be32 x4 x5 x6 x7) (Some (be32 x8 x9 x10 x11, be32 x12 x13 x14 x15), None, None))), r).
Proof. eval_next. reflexivity. Qed.

Lemma next_sack26 x0 x1 x2 x3 x4 x5 x6 x7 x8 x9 x10 x11 x12 x13 x14 x15 x16 x17 x18 x19 x20 x21 x22 x23 r :
  next (5 :: 26 :: x0 :: x1 :: x2 :: x3 :: x4 :: x5 :: x6 :: x7 :: x8 :: x9 :: x10 :: x11 :: x12 :: x13 :: x14 :: x15 :: x16 :: x17 :: x18 :: x19 :: x20 :: x21 :: x22 :: x23 :: r) =
  Ret (Some (Ok (SelectiveAcknowledgement (be32 x0 x1 x2 x3, be32 x4 x5 x6 x7) (Some (be32 x8 x9 x10 x11, be32 x12 x13 x14 x15), Some (be32 x16 x17 x18 x19, be32 x20 x21 x22 x23), None))), r).
Proof. eval_next. reflexivity. Qed.

Lemma next_sack34 x0 x1 x2 x3 x4 x5 x6 x7 x8 x9 x10 x11 x12 x13 x14 x15 x16 x17 x18 x19 x20 x21 x22 x23 x24 x25 x26 x27 x28 x29 x30 x31 r :
  next (5 :: 34 :: x0 :: x1 :: x2 :: x3 :: x4 :: x5 :: x6 :: x7 :: x8 :: x9 :: x10 :: x11 :: x12 :: x13 :: x14 :: x15 :: x16 :: x17 :: x18 :: x19 :: x20 :: x21 :: x22 :: x23 :: x24 :: x25 :: x26 :: x27 :: x28 :: x29 :: x30 :: x31 :: r) =
  Ret (Some (Ok (SelectiveAcknowledgement (be32 x0 x1 x2 x3, be32 x4 x5 x6 x7) (Some (be32 x8 x9 x10 x11, be32 x12 x13 x14 x15), Some (be32 x16 x17 x18 x19, be32 x20 x21 x22 x23), Some (be32 x24 x25 x26 x27, be32 x28 x29 x30 x31)))), r).
Proof. eval_next. reflexivity. Qed.

Lemma next_wire e r : element_ok e -> next (wire (to_opt e) ++ r) = Ret (Some (Ok (compact e)), r).
Proof.
  intros Hok. destruct e as [|v|v| |[f0 f1] [[a b] c]|ta tb]; cbn [to_opt wire app compact].
  - eval_next. reflexivity.
  - unfold to_be16. cbn [app]. eval_next. cbn [element_ok] in Hok. unfold u16_ok in Hok.
    rewrite be16_to_be16 by assumption. reflexivity.
  - eval_next. reflexivity.
  - eval_next. reflexivity.
  - cbn [element_ok] in Hok. destruct Hok as ([Hf0 Hf1] & Ha & Hb & Hc). cbn [fst snd] in *.
    unfold u32_ok in *.
    destruct a as [[a0 a1]|], b as [[b0 b1]|], c as [[c0 c1]|];
      cbn [ack_ok] in Ha, Hb, Hc; unfold block_ok, u32_ok in Ha, Hb, Hc; cbn [fst snd] in Ha, Hb, Hc;
      cbn [acks_list somes map concat wire_block];
      unfold len; cbn [length N.of_nat Pos.of_succ_nat Pos.succ]; norm_lits;
      unfold wire_block, to_be32; cbn [fst snd app];
      first [rewrite next_sack10 | rewrite next_sack18 | rewrite next_sack26 | rewrite next_sack34];
      rewrite !be32_to_be32 by tauto; reflexivity.
  - unfold to_be32. cbn [app]. eval_next. cbn [element_ok] in Hok. unfold u32_ok in Hok.
    rewrite !be32_to_be32 by tauto. reflexivity.
Qed.

(* ====================================================================== *)
(* ---- zeros / take / drop helpers ---- *)
Lemma len_repeat {A} (x : A) n : len (repeat x n) = N.of_nat n.
Proof. unfold len. rewrite repeat_length. reflexivity. Qed.

Lemma len_zeros n : len (zeros n) = n.
Proof. unfold zeros. rewrite len_repeat. lia. Qed.

Lemma zeros_split a b : zeros (a + b) = zeros a ++ zeros b.
Proof.
  unfold zeros. replace (N.to_nat (a + b)) with (N.to_nat a + N.to_nat b)%nat by lia.
  apply repeat_app.
Qed.

Lemma take_app_exact {A} (a b : list A) : take (len a) (a ++ b) = a.
Proof.
  unfold take, len. rewrite Nat2N.id. rewrite firstn_app, Nat.sub_diag. cbn [firstn].
  rewrite firstn_all, app_nil_r. reflexivity.
Qed.

Lemma drop_app_exact {A} (a b : list A) : drop (len a) (a ++ b) = b.
Proof.
  unfold drop, len. rewrite Nat2N.id. rewrite skipn_app, Nat.sub_diag, skipn_all. reflexivity.
Qed.

Lemma write_at_zeros buf pre n ln data :
  buf = pre ++ zeros n -> ln = len pre -> len data <= n ->
  write_at buf ln data = Ret ((pre ++ data) ++ zeros (n - len data)).
Proof.
  intros -> -> Hd. unfold write_at. rewrite len_app, len_zeros.
  destruct (N.leb_spec (len pre + len data) (len pre + n)); [|lia].
  rewrite take_app_exact.
  replace n with (len data + (n - len data)) at 1 by lia.
  rewrite zeros_split. rewrite (app_assoc pre (zeros (len data))).
  replace (len pre + len data) with (len (pre ++ zeros (len data))) by (rewrite len_app, len_zeros; reflexivity).
  rewrite drop_app_exact. rewrite <- app_assoc. reflexivity.
Qed.

(* ---- lengths ---- *)
Lemma sack_len_val w rest : 34 < w ->
  sack_len w rest = 10 + 8 * len (somes (acks_list rest)).
Proof.
  intros Hw. destruct rest as [[a b] c]. unfold sack_len.
  assert (M1 : (10 + 8) mod w = 18) by (apply N.mod_small; lia).
  assert (M2 : (18 + 8) mod w = 26) by (apply N.mod_small; lia).
  assert (M3 : (26 + 8) mod w = 34) by (apply N.mod_small; lia).
  destruct a, b, c; cbn [acks_list fold_left somes]; rewrite ?M1, ?M2, ?M3; reflexivity.
Qed.

Lemma len_to_be32 v : len (to_be32 v) = 4. Proof. reflexivity. Qed.
Lemma len_wire_block b : len (wire_block b) = 8. Proof. reflexivity. Qed.

Lemma len_concat_blocks bl : len (concat (map wire_block bl)) = 8 * len bl.
Proof.
  induction bl as [|b bl IH]; [reflexivity|].
  cbn [map concat]. rewrite len_app, len_wire_block, IH, len_cons. lia.
Qed.

Lemma element_len_wire e : element_len e = len (wire (to_opt e)).
Proof.
  destruct e as [|v|v| |f rest|a b]; try reflexivity.
  cbn [element_len to_opt wire]. rewrite sack_len_val by (unfold USIZE; lia).
  rewrite len_app, len_concat_blocks. rewrite !len_cons, len_nil. lia.
Qed.

Lemma fold_add_shift (f : element -> N) els : forall a,
  fold_left (fun acc x => acc + f x) els a = a + fold_left (fun acc x => acc + f x) els 0.
Proof.
  induction els as [|e els IH]; intros a; cbn [fold_left]; [lia|].
  rewrite (IH (a + f e)), (IH (0 + f e)). lia.
Qed.

Lemma required_len_cons e els : required_len (e :: els) = element_len e + required_len els.
Proof.
  unfold required_len. cbn [fold_left]. rewrite fold_add_shift. lia.
Qed.

Lemma required_len_wire els : required_len els = len (wire_list (map to_opt els)).
Proof.
  induction els as [|e els IH]; [reflexivity|].
  rewrite required_len_cons, IH, element_len_wire. unfold wire_list. cbn [map concat].
  rewrite len_app. reflexivity.
Qed.

(* ---- writing ---- *)
Lemma write_at_step pre n ln data k :
  ln = len pre -> len data = k -> k <= n ->
  write_at (pre ++ zeros n) ln data = Ret ((pre ++ data) ++ zeros (n - k)).
Proof. intros H1 H2 H3. subst k. now apply write_at_zeros. Qed.

Ltac len_solve := repeat rewrite len_app; repeat rewrite len_cons; rewrite ?len_nil, ?len_to_be32; lia.

Ltac wstep k := erewrite (write_at_step _ _ _ _ k); [ | len_solve | reflexivity | lia ]; cbn [bind].

Lemma write_element_char e pre n :
  element_len e <= n ->
  write_element (pre ++ zeros n, len pre) e =
    Ret ((pre ++ wire (to_opt e)) ++ zeros (n - element_len e), len pre + element_len e).
Proof.
  intros Hn.
  destruct e as [|v|v| |[f0 f1] [[a b] c]|ta tb]; cbn [write_element element_len to_opt wire] in *;
    unfold KIND_NOOP, KIND_MAXIMUM_SEGMENT_SIZE, KIND_WINDOW_SCALE,
      KIND_SELECTIVE_ACK_PERMITTED, KIND_SELECTIVE_ACK, KIND_TIMESTAMP.
  1-4, 6: (erewrite write_at_zeros; [ | reflexivity | reflexivity | ]; [reflexivity | exact Hn]).
  rewrite !sack_len_val in * by (unfold USIZE; lia).
  destruct a as [[a0 a1]|], b as [[b0 b1]|], c as [[c0 c1]|];
    cbn [acks_list somes fold_left fst snd map concat] in *;
    rewrite ?len_cons, ?len_nil in *;
    unfold wire_block; cbn [fst snd];
    norm_lits.
  all: wstep 10; repeat (wstep 8).
  all: rewrite <- ?app_assoc; cbn [app].
  all: rewrite <- ?N.sub_add_distr, <- ?N.add_assoc; norm_lits; reflexivity.
Qed.

(* ====================================================================== *)
Lemma write_elements_bind_fault els : forall (m : M (bytes * N)),
  (forall st, m <> Ret st) ->
  fold_left (fun acc e => st <- acc ;; write_element st e) els m = m.
Proof.
  induction els as [|e els IH]; intros m Hm; [reflexivity|].
  cbn [fold_left]. destruct m; try (apply IH; intros st; discriminate).
  exfalso. eapply Hm. reflexivity.
Qed.

Lemma write_elements_char els : forall pre n,
  required_len els <= n ->
  write_elements els (pre ++ zeros n, len pre) =
    Ret ((pre ++ wire_list (map to_opt els)) ++ zeros (n - required_len els),
         len pre + required_len els).
Proof.
  induction els as [|e els IH]; intros pre n Hn.
  - unfold write_elements, wire_list. cbn [fold_left map concat required_len].
    rewrite app_nil_r, N.sub_0_r, N.add_0_r. reflexivity.
  - rewrite required_len_cons in *. unfold write_elements in *. cbn [fold_left bind].
    assert (He : element_len e <= n) by lia. rewrite (write_element_char e pre n He).
    replace (len pre + element_len e) with (len (pre ++ wire (to_opt e)))
      by (rewrite len_app, element_len_wire; reflexivity).
    rewrite IH by lia. unfold wire_list. cbn [map concat].
    rewrite len_app, <- element_len_wire. rewrite <- !app_assoc.
    rewrite N.sub_add_distr, N.add_assoc. reflexivity.
Qed.

(* the rounding code, all lengths that can occur *)
Definition round_len (ln : N) : N :=
  (if (0 <? ln) && negb (N.land ln 3 =? 0) then N.land ln U64_NOT_3 + 4 else ln) mod 256.

Definition upto40 : list N := map N.of_nat (seq 0 41).

Lemma in_upto40 n : n <= 40 -> In n upto40.
Proof.
  intros H. unfold upto40. apply in_map_iff. exists (N.to_nat n). split; [lia|].
  apply in_seq. lia.
Qed.

Lemma round_len_sweep : forallb (fun n => round_len n =? pad4 n) upto40 = true.
Proof. vm_compute. reflexivity. Qed.

Lemma round_len_pad4 n : n <= 40 -> round_len n = pad4 n.
Proof.
  intros H. apply N.eqb_eq.
  exact (proj1 (forallb_forall _ _) round_len_sweep n (in_upto40 n H)).
Qed.

Definition slice_len_u8 (n : N) : N :=
  let ln := n mod 256 in
  (N.shiftl (N.shiftr ln 2) 2 mod 256 + (if negb (N.land ln 3 =? 0) then 4 else 0)) mod 256.

Lemma slice_len_sweep : forallb (fun n => slice_len_u8 n =? pad4 n) upto40 = true.
Proof. vm_compute. reflexivity. Qed.

Lemma slice_len_pad4 n : n <= 40 -> slice_len_u8 n = pad4 n.
Proof.
  intros H. apply N.eqb_eq.
  exact (proj1 (forallb_forall _ _) slice_len_sweep n (in_upto40 n H)).
Qed.

Lemma pad4_sweep : forallb (fun n => (n <=? pad4 n) && (pad4 n <=? 40) && (pad4 n - n <? 4) && (pad4 n mod 4 =? 0)) upto40 = true.
Proof. vm_compute. reflexivity. Qed.

Lemma pad4_props n : n <= 40 -> n <= pad4 n /\ pad4 n <= 40 /\ pad4 n - n < 4 /\ pad4 n mod 4 = 0.
Proof.
  intros H. pose proof (proj1 (forallb_forall _ _) pad4_sweep n (in_upto40 n H)) as P.
  cbv beta in P. rewrite !andb_true_iff in P. destruct P as [[[P1 P2] P3] P4].
  apply N.leb_le in P1, P2. apply N.ltb_lt in P3. apply N.eqb_eq in P4. auto.
Qed.

Lemma padding_zeros n : padding n = zeros (pad4 n - n).
Proof. reflexivity. Qed.

Lemma take_app_zeros (w : bytes) a b : a <= b ->
  take (len w + a) (w ++ zeros b) = w ++ zeros a.
Proof.
  intros H. replace b with (a + (b - a)) by lia. rewrite zeros_split, app_assoc.
  replace (len w + a) with (len (w ++ zeros a)) by (rewrite len_app, len_zeros; reflexivity).
  apply take_app_exact.
Qed.

Lemma next_zeros n : next (zeros n) = Ret (None, []).
Proof.
  unfold zeros. destruct (N.to_nat n) as [|k]; [reflexivity|].
  cbn [repeat]. unfold next. rewrite len_pos_cons. unfold next_match.
  change (idx (0 :: repeat 0 k) 0) with (Ret 0). cbn [bind]. unfold KIND_END. norm_lits. cbn [bind].
  rewrite slice_range_end. reflexivity.
Qed.

Lemma run_wire els : forall tail fuel,
  Forall element_ok els -> (length els < fuel)%nat -> next tail = Ret (None, []) ->
  run fuel (wire_list (map to_opt els) ++ tail) = Ret (enc_trace els tail, []).
Proof.
  induction els as [|e els IH]; intros tail fuel Hok Hf Ht.
  - destruct fuel; [lia|]. unfold wire_list. cbn [map concat app run enc_trace]. rewrite Ht. reflexivity.
  - destruct fuel; [cbn [length] in Hf; lia|].
    inversion Hok as [|? ? He Hels]; subst.
    unfold wire_list. cbn [map concat run enc_trace]. rewrite <- app_assoc.
    rewrite next_wire by assumption. cbn [bind].
    fold (wire_list (map to_opt els)). rewrite IH; [reflexivity | assumption | cbn [length] in Hf; lia | assumption].
Qed.

Lemma wire_nonempty o : 1 <= len (wire o).
Proof. destruct o; cbn [wire app]; rewrite ?len_cons; lia. Qed.

Lemma length_le_wire os : N.of_nat (length os) <= len (wire_list os).
Proof.
  induction os as [|o os IH]; [cbn; lia|].
  unfold wire_list in *. cbn [map concat length]. rewrite len_app. pose proof (wire_nonempty o). lia.
Qed.

Lemma iterate_wire els tail : Forall element_ok els -> next tail = Ret (None, []) ->
  iterate (wire_list (map to_opt els) ++ tail) = Ret (enc_trace els tail, []).
Proof.
  intros Hok Ht. unfold iterate. apply run_wire; try assumption.
  rewrite app_length. pose proof (length_le_wire (map to_opt els)) as H.
  rewrite map_length in H. unfold len in H. lia.
Qed.

Lemma enc_dec els : Forall element_ok els -> required_len els <= 40 ->
  exists o, try_from_elements els = Ret (Ok o)
    /\ options_len o = pad4 (required_len els)
    /\ required_len els = len (wire_list (map to_opt els))
    /\ as_slice o = Ret (wire_list (map to_opt els) ++ padding (required_len els))
    /\ elements_iterate o = Ret (enc_trace els (padding (required_len els)), []).
Proof.
  intros Hok Hreq. unfold try_from_elements. unfold MAX_LEN. cbv zeta.
  destruct (N.ltb_spec 40 (required_len els)); [lia|].
  assert (W : write_elements els (zeros 40, 0) =
    Ret (wire_list (map to_opt els) ++ zeros (40 - required_len els), 0 + required_len els))
    by (apply (write_elements_char els [] 40 Hreq)).
  exists {| o_len := pad4 (required_len els);
            o_buf := wire_list (map to_opt els) ++ zeros (40 - required_len els) |}.
  split.
  { rewrite W. cbn [bind]. rewrite N.add_0_l.
    fold (round_len (required_len els)). rewrite round_len_pad4 by assumption. reflexivity. }
  cbn [options_len o_len].
  destruct (pad4_props _ Hreq) as (P1 & P2 & P3 & P4).
  assert (Hs : as_slice {| o_len := pad4 (required_len els);
                          o_buf := wire_list (map to_opt els) ++ zeros (40 - required_len els) |}
               = Ret (wire_list (map to_opt els) ++ padding (required_len els))).
  { unfold as_slice. cbn [o_len o_buf]. rewrite len_app, len_zeros, <- required_len_wire.
    destruct (N.leb_spec (pad4 (required_len els)) (required_len els + (40 - required_len els))); [|lia].
    rewrite padding_zeros.
    replace (pad4 (required_len els)) with (len (wire_list (map to_opt els)) + (pad4 (required_len els) - required_len els)) at 1
      by (rewrite <- required_len_wire; lia).
    rewrite take_app_zeros by lia. reflexivity. }
  repeat split.
  - apply required_len_wire.
  - exact Hs.
  - unfold elements_iterate. rewrite Hs. cbn [bind]. apply iterate_wire; [assumption|].
    rewrite padding_zeros. apply next_zeros.
Qed.

Lemma reject els : 40 < required_len els ->
  try_from_elements els = Ret (Err (NotEnoughSpace (required_len els))).
Proof.
  intros H. unfold try_from_elements, MAX_LEN. cbv zeta.
  destruct (N.ltb_spec 40 (required_len els)); [reflexivity|lia].
Qed.

Lemma from_slice_ok s : len s <= 40 ->
  exists o, try_from_slice s = Ret (Ok o) /\ options_len o = pad4 (len s)
    /\ as_slice o = Ret (s ++ padding (len s)).
Proof.
  intros H. unfold try_from_slice, MAX_LEN.
  destruct (N.ltb_spec 40 (len s)); [lia|].
  assert (W : write_at (zeros 40) 0 s = Ret (s ++ zeros (40 - len s)))
    by (apply (write_at_zeros (zeros 40) [] 40 0 s eq_refl eq_refl H)).
  exists {| o_len := pad4 (len s); o_buf := s ++ zeros (40 - len s) |}.
  split.
  { rewrite W. cbn [bind]. fold (slice_len_u8 (len s)). rewrite slice_len_pad4 by assumption.
    reflexivity. }
  cbn [options_len o_len]. split; [reflexivity|].
  destruct (pad4_props _ H) as (P1 & P2 & P3 & P4).
  unfold as_slice. cbn [o_len o_buf]. rewrite len_app, len_zeros.
  destruct (N.leb_spec (pad4 (len s)) (len s + (40 - len s))); [|lia].
  rewrite padding_zeros.
  replace (pad4 (len s)) with (len s + (pad4 (len s) - len s)) at 1 by lia.
  rewrite take_app_zeros by lia. reflexivity.
Qed.

Lemma from_slice_reject s : 40 < len s ->
  try_from_slice s = Ret (Err (NotEnoughSpace (len s))).
Proof.
  intros H. unfold try_from_slice, MAX_LEN.
  destruct (N.ltb_spec 40 (len s)); [reflexivity|lia].
Qed.

(* compaction *)
Lemma compact_canonical e : canonical e -> compact e = e.
Proof.
  destruct e as [|v|v| |f [[a b] c]|ta tb]; try reflexivity.
  cbn [canonical compact]. destruct a, b, c; cbn; intros H; try reflexivity; contradiction.
Qed.

Lemma compact_is_canonical e : canonical (compact e).
Proof.
  destruct e as [|v|v| |f [[a b] c]|ta tb]; try exact I.
  destruct a, b, c; exact I.
Qed.

Lemma compact_wire e : to_opt (compact e) = to_opt e.
Proof.
  destruct e as [|v|v| |f [[a b] c]|ta tb]; try reflexivity.
  destruct a, b, c; reflexivity.
Qed.

Lemma enc_trace_items els tail : map fst (enc_trace els tail) = map (fun e => Ok (compact e)) els.
Proof. induction els as [|e els IH]; [reflexivity|]. cbn [enc_trace map fst]. now rewrite IH. Qed.

Lemma enc_trace_last els tail : last_rest (wire_list (map to_opt els) ++ tail) (enc_trace els tail) = tail.
Proof.
  induction els as [|e els IH]; [reflexivity|].
  cbn [enc_trace]. rewrite last_rest_cons. cbn [snd]. exact IH.
Qed.

(* ====================================================================== *)
(* the statements used by Props/C13.v *)

Lemma data_offset_sweep :
  forallb (fun n => (5 + N.shiftr (pad4 n) 2) mod 256 =? 5 + pad4 n / 4) upto40 = true.
Proof. vm_compute. reflexivity. Qed.

Lemma data_offset_val o n : n <= 40 -> o_len o = pad4 n -> data_offset o = 5 + pad4 n / 4.
Proof.
  intros H E. unfold data_offset. rewrite E. apply N.eqb_eq.
  exact (proj1 (forallb_forall _ _) data_offset_sweep n (in_upto40 n H)).
Qed.

Lemma c13_enc_dec : forall els, Forall element_ok els -> required_len els <= 40 ->
  exists o tr,
    try_from_elements els = Ret (Ok o)
    /\ options_len o = pad4 (required_len els)
    /\ data_offset o = 5 + pad4 (required_len els) / 4
    /\ required_len els = len (wire_list (map to_opt els))
    /\ as_slice o = Ret (wire_list (map to_opt els) ++ padding (required_len els))
    /\ elements_iterate o = Ret (tr, [])
    /\ map fst tr = map (fun e => Ok (compact e)) els
    /\ last_rest (wire_list (map to_opt els) ++ padding (required_len els)) tr
       = padding (required_len els).
Proof.
  intros els Hok Hreq. destruct (enc_dec els Hok Hreq) as (o & H1 & H2 & H3 & H4 & H5).
  exists o, (enc_trace els (padding (required_len els))).
  repeat split; try assumption.
  - apply data_offset_val; assumption.
  - apply enc_trace_items.
  - apply enc_trace_last.
Qed.

Lemma c13_compact :
  (forall e, canonical e -> compact e = e)
  /\ (forall e, canonical (compact e))
  /\ (forall e, to_opt (compact e) = to_opt e)
  /\ (forall e, element_ok e -> element_ok (compact e)).
Proof.
  repeat split.
  - apply compact_canonical.
  - apply compact_is_canonical.
  - apply compact_wire.
  - intros e. destruct e as [|v|v| |f [[a b] c]|ta tb]; try (intros H; exact H).
    destruct a, b, c; cbn; tauto.
Qed.

Lemma c13_reject : forall els, 40 < required_len els ->
  try_from_elements els = Ret (Err (NotEnoughSpace (required_len els))).
Proof. exact reject. Qed.

Lemma c13_from_slice : forall s,
  (len s <= 40 -> exists o, try_from_slice s = Ret (Ok o) /\ options_len o = pad4 (len s)
     /\ as_slice o = Ret (s ++ padding (len s)))
  /\ (40 < len s -> try_from_slice s = Ret (Err (NotEnoughSpace (len s)))).
Proof. intros s. split; [apply from_slice_ok | apply from_slice_reject]. Qed.

Lemma c13_in_bounds :
  (forall opts, exists it r, next opts = Ret (it, r))
  /\ (forall area, exists tr fin, iterate area = Ret (tr, fin)).
Proof.
  split; [exact next_total|].
  intros area. destruct (iterate_char area) as (tr & fin & E & _). eauto.
Qed.

Lemma c13_tiles : forall area tr fin, bytes_ok area -> iterate area = Ret (tr, fin) ->
  forall pre post, tr = pre ++ post -> all_ok pre ->
    area = wire_list (map to_opt (elems_of pre)) ++ last_rest area pre
    /\ Forall element_ok (elems_of pre) /\ Forall canonical (elems_of pre).
Proof.
  intros area tr fin Hok E. apply iterate_rel in E. eapply tiles_lemma; eassumption.
Qed.

Lemma c13_error_truth : forall area tr fin, iterate area = Ret (tr, fin) ->
  forall pre e r post, tr = pre ++ (Err e, r) :: post ->
    all_ok pre /\ post = [] /\ r = [] /\ last_rest area pre <> []
    /\ err_true (last_rest area pre) e.
Proof.
  intros area tr fin E. apply iterate_rel in E. eapply error_lemma; eassumption.
Qed.

Lemma c13_bounded : forall area, exists tr fin, iterate area = Ret (tr, fin)
  /\ (length tr <= length area)%nat
  /\ (forall pre e r post, tr = pre ++ (Ok e, r) :: post -> len r < len (last_rest area pre)).
Proof.
  intros area. destruct (iterate_char area) as (tr & fin & E & R).
  exists tr, fin. split; [exact E|]. eapply bounded_lemma; eassumption.
Qed.

Lemma c13_exhausted :
  (forall opts it o', next opts = Ret (it, o') ->
     (it = None \/ exists e, it = Some (Err e)) ->
     o' = [] /\ forall n, next_n n o' = Ret (repeat None n, []))
  /\ (forall area tr fin, iterate area = Ret (tr, fin) ->
     fin = [] /\ (forall n, next_n n fin = Ret (repeat None n, []))
     /\ (last_rest area tr = [] \/ exists r, last_rest area tr = 0 :: r)).
Proof.
  split.
  - intros opts it o' E H. assert (o' = []) by (eapply next_exhausts; eassumption).
    subst o'. split; [reflexivity|]. apply next_n_nil.
  - intros area tr fin E. apply iterate_rel in E.
    assert (fin = []) by (eapply fin_lemma; eassumption). subst fin.
    split; [reflexivity|]. split; [apply next_n_nil|]. eapply stop_lemma; eassumption.
Qed.

(* ====================================================================== *)
(* the executable reference decoder of Spec.v (the oracle of the correspondence
   run) gives the same answers as the model *)
Ltac is_natlit n := lazymatch n with O => idtac | S ?m => is_natlit m end.
Ltac norm_more := repeat match goal with
  | |- context [N.of_nat ?a] => is_natlit a; let v := eval vm_compute in (N.of_nat a) in change (N.of_nat a) with v
  | |- context [N.div ?a ?b] => norm1 N.div a b
  | |- context [N.pow ?a ?b] => norm1 N.pow a b
  end.

Lemma be_val_1 a : be_val [a] = a.
Proof. cbn [be_val]. change (256 ^ len (@nil N)) with 1. lia. Qed.
Lemma be_val_2 a b : be_val [a; b] = be16 a b.
Proof. unfold be16. cbn [be_val]. change (256 ^ len [b]) with 256. change (256 ^ len (@nil N)) with 1. lia. Qed.
Lemma be_val_4 a b c d : be_val [a; b; c; d] = be32 a b c d.
Proof.
  unfold be32. cbn [be_val]. change (256 ^ len [b; c; d]) with 16777216.
  change (256 ^ len [c; d]) with 65536. change (256 ^ len [d]) with 256.
  change (256 ^ len (@nil N)) with 1. lia.
Qed.

Ltac eval_spec :=
  unfold spec_next, known_lens, mem, parse_body;
  repeat (progress (norm_lits; cbn [existsb orb andb negb]; kill_len_tests;
                    unfold rd, take, drop; norm_lits; cbn [nth_error firstn skipn])).

Lemma spec_next_wire e r : element_ok e -> spec_next (wire (to_opt e) ++ r) = SOk (to_opt e) r.
Proof.
  intros Hok. destruct e as [|v|v| |[f0 f1] [[a b] c]|ta tb]; cbn [to_opt wire app].
  - eval_spec. reflexivity.
  - unfold to_be16. cbn [app]. eval_spec. rewrite be_val_2.
    cbn [element_ok] in Hok. unfold u16_ok in Hok. rewrite be16_to_be16 by assumption. reflexivity.
  - eval_spec. rewrite be_val_1. reflexivity.
  - eval_spec. reflexivity.
  - cbn [element_ok] in Hok. destruct Hok as ([Hf0 Hf1] & Ha & Hb & Hc). cbn [fst snd] in *.
    unfold u32_ok in *.
    destruct a as [[a0 a1]|], b as [[b0 b1]|], c as [[c0 c1]|];
      cbn [ack_ok] in Ha, Hb, Hc; unfold block_ok, u32_ok in Ha, Hb, Hc; cbn [fst snd] in Ha, Hb, Hc;
      cbn [acks_list somes map concat wire_block];
      unfold len at 1; cbn [length]; norm_more; norm_lits;
      unfold wire_block, to_be32; cbn [fst snd app];
      eval_spec; unfold len; cbn [length]; norm_more; norm_lits; cbn [blocks_of];
      unfold take, drop; norm_lits; cbn [firstn skipn];
      rewrite !be_val_4, !be32_to_be32 by tauto; reflexivity.
  - unfold to_be32. cbn [app]. eval_spec. rewrite !be_val_4.
    cbn [element_ok] in Hok. unfold u32_ok in Hok. rewrite !be32_to_be32 by tauto. reflexivity.
Qed.

Lemma next_agrees bs : bytes_ok bs -> agrees (next bs) (spec_next bs).
Proof.
  intros Hok. destruct (next_char bs) as (it & r & E & R). rewrite E.
  destruct R as [Hnil | r0 Hend | e r Hlt Hcan Hw | e Hne Het Hsp]; cbn [agrees].
  - subst bs. split; reflexivity.
  - subst bs. split; reflexivity.
  - destruct (Hw Hok) as [Hbs Heo]. rewrite Hbs at 1. now apply spec_next_wire.
  - split; [assumption|reflexivity].
Qed.

Lemma spec_decode_trace bs tr fin : trace_rel bs tr fin -> bytes_ok bs ->
  forall fuel, (length bs < fuel)%nat -> spec_decode fuel bs = sitems_of tr.
Proof.
  induction 1 as [bs Hs | bs e r tr fin Hn Ht IH | bs e Hn]; intros Hok fuel Hf.
  - destruct fuel; [lia|]. cbn [spec_decode sitems_of].
    destruct Hs as [->|[r ->]]; reflexivity.
  - destruct fuel; [lia|]. cbn [spec_decode sitems_of].
    apply next_rel_ok_inv in Hn. destruct Hn as (Hlt & _ & Hw).
    destruct (Hw Hok) as [Hbs Heo].
    assert (Hokr : bytes_ok r) by (rewrite Hbs in Hok; apply bytes_ok_app in Hok; tauto).
    rewrite Hbs at 1. rewrite spec_next_wire by assumption.
    rewrite IH; [reflexivity | assumption | rewrite !len_length in Hlt; lia].
  - destruct fuel; [lia|]. cbn [spec_decode sitems_of].
    inversion Hn; subst. match goal with H : spec_next _ = _ |- _ => rewrite H end. reflexivity.
Qed.

Lemma c13_reference_decoder :
  (forall bs, bytes_ok bs -> agrees (next bs) (spec_next bs))
  /\ (forall area tr fin, bytes_ok area -> iterate area = Ret (tr, fin) ->
      spec_decode (S (length area)) area = sitems_of tr).
Proof.
  split; [exact next_agrees|].
  intros area tr fin Hok E. apply iterate_rel in E.
  eapply spec_decode_trace; [eassumption | assumption | lia].
Qed.
