(* Checksum/Proofs.v -- the accumulators of checksum.rs compute RFC 1071. *)
From EP Require Import Base.Bytes Checksum.Spec Checksum.Model.
From Coq Require Import ZArith Lia ZifyN ZifyBool.

Ltac dmlia := zify; Z.div_mod_to_equations; lia.

(* ------------------------------------------------------------------ *)
(* congruence modulo 65535                                              *)

Definition eqm (x y : N) : Prop := x mod 65535 = y mod 65535.
Infix "==m" := eqm (at level 70).

Lemma eqm_refl x : x ==m x. Proof. reflexivity. Qed.
Lemma eqm_sym x y : x ==m y -> y ==m x. Proof. unfold eqm; congruence. Qed.
Lemma eqm_trans x y z : x ==m y -> y ==m z -> x ==m z. Proof. unfold eqm; congruence. Qed.

(* x = y + q*65535 gives x == y *)
Lemma eqm_plus_mult x y q : x = y + q * 65535 -> x ==m y.
Proof. intros ->. unfold eqm. apply N.mod_add. lia. Qed.

Lemma eqm_add x x' y y' : x ==m x' -> y ==m y' -> x + y ==m x' + y'.
Proof.
  unfold eqm. intros H1 H2.
  rewrite (N.add_mod x y), (N.add_mod x' y') by lia. now rewrite H1, H2.
Qed.

Lemma eqm_mul_l c x y : x ==m y -> c * x ==m c * y.
Proof.
  unfold eqm. intros H.
  rewrite (N.mul_mod c x), (N.mul_mod c y) by lia. now rewrite H.
Qed.

(* ------------------------------------------------------------------ *)
(* fold16                                                               *)

Lemma fold16_range x : fold16 x <= 65535.
Proof. unfold fold16. destruct (x =? 0) eqn:E; [lia|]. dmlia. Qed.

Lemma fold16_zero x : fold16 x = 0 <-> x = 0.
Proof. unfold fold16. destruct (x =? 0) eqn:E; dmlia. Qed.

Lemma fold16_eqm x : fold16 x ==m x.
Proof.
  unfold fold16. destruct (x =? 0) eqn:E.
  - apply N.eqb_eq in E. subst. reflexivity.
  - apply eqm_sym. apply eqm_plus_mult with (q := (x - 1) / 65535). dmlia.
Qed.

(* a value in 0..65535 that is congruent to x and is zero exactly when x is,
   is the folded value *)
Lemma fold16_unique r x :
  r <= 65535 -> r ==m x -> (r = 0 <-> x = 0) -> r = fold16 x.
Proof.
  intros Hr Hm Hz.
  pose proof (fold16_range x) as Fr.
  pose proof (fold16_eqm x) as Fm.
  pose proof (fold16_zero x) as Fz.
  assert (E : r mod 65535 = fold16 x mod 65535) by (unfold eqm in *; congruence).
  destruct (N.eq_dec x 0) as [X|X].
  - assert (r = 0) by tauto. assert (fold16 x = 0) by tauto. congruence.
  - assert (r <> 0) by tauto. assert (fold16 x <> 0) by tauto. dmlia.
Qed.

(* the RFC's iterative folding agrees with the closed form *)
Lemma fold_carry_step x : 65536 <= x -> x / 65536 + x mod 65536 < x.
Proof. intros. dmlia. Qed.

Lemma fold_carry_eqm x : x / 65536 + x mod 65536 ==m x.
Proof. apply eqm_sym. apply eqm_plus_mult with (q := x / 65536). dmlia. Qed.

Lemma fold_carry_fold16 fuel x :
  (N.to_nat x < fuel)%nat -> fold_carry fuel x = fold16 x.
Proof.
  revert x. induction fuel as [|f IH]; intros x Hf; [lia|].
  cbn [fold_carry]. destruct (x <? 65536) eqn:E.
  - apply fold16_unique; [lia | apply eqm_refl | tauto].
  - assert (Hx : 65536 <= x) by lia.
    pose proof (fold_carry_step x Hx) as Hs.
    rewrite IH by lia.
    apply fold16_unique.
    + apply fold16_range.
    + eapply eqm_trans; [apply fold16_eqm | apply fold_carry_eqm].
    + rewrite fold16_zero. dmlia.
Qed.

(* ------------------------------------------------------------------ *)
(* sums of big-endian words                                             *)

Lemma sum_be16_cons2 a b r : sum_be16 (a :: b :: r) = be16 a b + sum_be16 r.
Proof. reflexivity. Qed.

Definition even_len (bs : bytes) : Prop := Nat.even (length bs) = true.

Lemma sum_be16_app x y :
  even_len x -> sum_be16 (x ++ y) = sum_be16 x + sum_be16 y.
Proof.
  unfold even_len. revert y.
  induction x as [x IH] using list_len_ind.
  intros y He. destruct x as [|a [|b r]].
  - reflexivity.
  - discriminate.
  - cbn [app]. rewrite !sum_be16_cons2. rewrite IH; [lia | cbn; lia | exact He].
Qed.

Lemma sum_be16_zero_app x y :
  even_len x -> (sum_be16 (x ++ y) = 0 <-> sum_be16 x = 0 /\ sum_be16 y = 0).
Proof. intros H. rewrite sum_be16_app by assumption. lia. Qed.

(* ------------------------------------------------------------------ *)
(* native-endian loads vs big-endian words: weight w with w*w == 1      *)

Definition w (e : endian) : N := match e with LE => 256 | BE => 1 end.

Lemma ww_eqm e x : w e * (w e * x) ==m x.
Proof.
  destruct e; cbn [w].
  - apply eqm_plus_mult with (q := x). lia.
  - apply eqm_plus_mult with (q := 0). lia.
Qed.

Lemma ne16_eqm e a b : ne16 e a b ==m w e * be16 a b.
Proof.
  destruct e; cbn [ne16 w]; unfold be16.
  - apply eqm_sym. apply eqm_plus_mult with (q := a). lia.
  - apply eqm_plus_mult with (q := 0). lia.
Qed.

Lemma ne16_zero e a b : ne16 e a b = 0 <-> be16 a b = 0.
Proof. destruct e; cbn [ne16]; unfold be16; lia. Qed.

Lemma ne16_lt e a b : a < 256 -> b < 256 -> ne16 e a b < 65536.
Proof. destruct e; cbn [ne16]; lia. Qed.

Lemma ne32_eqm e a b c d : ne32 e a b c d ==m w e * (be16 a b + be16 c d).
Proof.
  destruct e; cbn [ne32 w]; unfold be16.
  - (* LE: lhs = a + 256 b + 65536 c + 2^24 d ; rhs = 65536 a + 256 b + 65536 c + 256 d *)
    apply eqm_trans with (y := a + 256 * b + c + 256 * d).
    + apply eqm_plus_mult with (q := c + 256 * d). lia.
    + apply eqm_sym. apply eqm_plus_mult with (q := a + c). lia.
  - apply eqm_plus_mult with (q := 256 * a + b). lia.
Qed.

Lemma ne32_zero e a b c d : ne32 e a b c d = 0 <-> be16 a b + be16 c d = 0.
Proof. destruct e; cbn [ne32]; unfold be16; lia. Qed.

Lemma ne32_lt e a b c d :
  a < 256 -> b < 256 -> c < 256 -> d < 256 -> ne32 e a b c d < M32.
Proof. unfold M32. destruct e; cbn [ne32]; lia. Qed.

Lemma M32_eqm x : M32 * x ==m x.
Proof. unfold M32. apply eqm_plus_mult with (q := 65537 * x). lia. Qed.

Lemma ne64_eqm e a b c d f g h i :
  ne64 e a b c d f g h i ==m w e * (be16 a b + be16 c d + (be16 f g + be16 h i)).
Proof.
  rewrite N.mul_add_distr_l.
  destruct e; cbn [ne64].
  - apply eqm_add; [apply ne32_eqm|].
    eapply eqm_trans; [apply M32_eqm | apply ne32_eqm].
  - apply eqm_add; [|apply ne32_eqm].
    eapply eqm_trans; [apply M32_eqm | apply ne32_eqm].
Qed.

Lemma ne64_zero e a b c d f g h i :
  ne64 e a b c d f g h i = 0 <-> be16 a b + be16 c d + (be16 f g + be16 h i) = 0.
Proof.
  pose proof (ne32_zero LE a b c d). pose proof (ne32_zero LE f g h i).
  pose proof (ne32_zero BE a b c d). pose proof (ne32_zero BE f g h i).
  destruct e; cbn [ne64]; unfold M32; lia.
Qed.

Lemma ne64_lt e a b c d f g h i :
  a < 256 -> b < 256 -> c < 256 -> d < 256 ->
  f < 256 -> g < 256 -> h < 256 -> i < 256 -> ne64 e a b c d f g h i < M64.
Proof.
  intros.
  pose proof (ne32_lt LE a b c d). pose proof (ne32_lt LE f g h i).
  pose proof (ne32_lt BE a b c d). pose proof (ne32_lt BE f g h i).
  destruct e; cbn [ne64]; unfold M64, M32 in *; lia.
Qed.

(* ------------------------------------------------------------------ *)
(* end-around-carry addition                                            *)

Lemma oadd_spec m k s v :
  m = 65535 * k + 1 -> s < m -> v < m ->
  oadd m s v < m /\ oadd m s v ==m s + v /\ (oadd m s v = 0 <-> s = 0 /\ v = 0).
Proof.
  intros Hm Hs Hv. unfold oadd.
  destruct (s + v <? m) eqn:E.
  - rewrite N.mod_small by lia. rewrite N.add_0_r.
    split; [lia|]. split; [apply eqm_refl | lia].
  - assert (Hge : m <= s + v) by lia.
    assert (Hmod : (s + v) mod m = s + v - m).
    { symmetry. apply N.mod_unique with (q := 1); lia. }
    rewrite Hmod. split; [lia|]. split; [|lia].
    apply eqm_sym. apply eqm_plus_mult with (q := k). lia.
Qed.

Lemma M32_form : M32 = 65535 * 65537 + 1. Proof. reflexivity. Qed.
Lemma M64_form : M64 = 65535 * 281479271743489 + 1. Proof. reflexivity. Qed.

(* accumulator relation: s is what the accumulator holds after adding the
   (even-aligned) bytes bs to the start value s0 *)
Definition acc (m : N) (e : endian) (s0 s : N) (bs : bytes) : Prop :=
  s < m /\ s ==m s0 + w e * sum_be16 bs /\ (s = 0 <-> s0 = 0 /\ sum_be16 bs = 0).

Lemma acc_start m e s0 : s0 < m -> acc m e s0 s0 [].
Proof.
  intros H. unfold acc. cbn [sum_be16]. rewrite N.mul_0_r, N.add_0_r.
  split; [exact H|]. split; [apply eqm_refl | tauto].
Qed.

(* generic step: adding a native value v that represents the words x *)
Lemma acc_step m k e s0 s bs v x :
  m = 65535 * k + 1 ->
  even_len bs ->
  acc m e s0 s bs ->
  v < m -> v ==m w e * sum_be16 x -> (v = 0 <-> sum_be16 x = 0) ->
  acc m e s0 (oadd m s v) (bs ++ x).
Proof.
  intros Hm He (Hs & Hq & Hz) Hv Hvq Hvz.
  destruct (oadd_spec m k s v Hm Hs Hv) as (R1 & R2 & R3).
  unfold acc. split; [exact R1|]. split.
  - eapply eqm_trans; [exact R2|].
    rewrite sum_be16_app by exact He. rewrite N.mul_add_distr_l, N.add_assoc.
    apply eqm_add; assumption.
  - rewrite R3, Hz, Hvz. rewrite sum_be16_zero_app by exact He. tauto.
Qed.

Lemma sum2 a b : sum_be16 [a; b] = be16 a b.
Proof. cbn [sum_be16]. unfold be16. lia. Qed.
Lemma sum1 a : sum_be16 [a] = be16 a 0.
Proof. cbn [sum_be16]. unfold be16. lia. Qed.
Lemma sum4 a b c d : sum_be16 [a; b; c; d] = be16 a b + be16 c d.
Proof. cbn [sum_be16]. unfold be16. lia. Qed.
Lemma sum8 a b c d f g h i :
  sum_be16 [a; b; c; d; f; g; h; i] = be16 a b + be16 c d + (be16 f g + be16 h i).
Proof. cbn [sum_be16]. unfold be16. lia. Qed.

Lemma M32_lt_M64 : M32 < M64. Proof. reflexivity. Qed.

Section Steps.
  Variables (m k : N) (e : endian).
  Hypothesis Hm : m = 65535 * k + 1.
  Hypothesis Hbig : 65536 <= m.

  Lemma step2 s0 s bs a b :
    even_len bs -> acc m e s0 s bs -> a < 256 -> b < 256 ->
    acc m e s0 (oadd m s (ne16 e a b)) (bs ++ [a; b]).
  Proof.
    intros He Ha Ba Bb. eapply acc_step; eauto.
    - pose proof (ne16_lt e a b Ba Bb). lia.
    - rewrite sum2. apply ne16_eqm.
    - rewrite sum2. apply ne16_zero.
  Qed.

  Lemma step1 s0 s bs a :
    even_len bs -> acc m e s0 s bs -> a < 256 ->
    acc m e s0 (oadd m s (ne16 e a 0)) (bs ++ [a]).
  Proof.
    intros He Ha Ba. eapply acc_step; eauto.
    - pose proof (ne16_lt e a 0 Ba). lia.
    - rewrite sum1. apply ne16_eqm.
    - rewrite sum1. apply ne16_zero.
  Qed.

  Lemma step4 s0 s bs a b c d :
    M32 <= m ->
    even_len bs -> acc m e s0 s bs -> a < 256 -> b < 256 -> c < 256 -> d < 256 ->
    acc m e s0 (oadd m s (ne32 e a b c d)) (bs ++ [a; b; c; d]).
  Proof.
    intros HM He Ha Ba Bb Bc Bd. eapply acc_step; eauto.
    - pose proof (ne32_lt e a b c d Ba Bb Bc Bd). lia.
    - rewrite sum4. apply ne32_eqm.
    - rewrite sum4. apply ne32_zero.
  Qed.

  Lemma step8 s0 s bs a b c d f g h i :
    M64 <= m ->
    even_len bs -> acc m e s0 s bs ->
    a < 256 -> b < 256 -> c < 256 -> d < 256 ->
    f < 256 -> g < 256 -> h < 256 -> i < 256 ->
    acc m e s0 (oadd m s (ne64 e a b c d f g h i)) (bs ++ [a; b; c; d; f; g; h; i]).
  Proof.
    intros HM He Ha Ba Bb Bc Bd Bf Bg Bh Bi. eapply acc_step; eauto.
    - pose proof (ne64_lt e a b c d f g h i Ba Bb Bc Bd Bf Bg Bh Bi). lia.
    - rewrite sum8. apply ne64_eqm.
    - rewrite sum8. apply ne64_zero.
  Qed.
End Steps.

Lemma even_len_app x y : even_len x -> even_len y -> even_len (x ++ y).
Proof.
  unfold even_len. rewrite app_length. rewrite !Nat.even_spec.
  intros [p Hp] [q Hq]. exists (p + q)%nat. lia.
Qed.

Ltac inv_ok :=
  repeat match goal with
  | H : bytes_ok (_ :: _) |- _ => apply bytes_ok_cons in H; destruct H
  | H : byte_ok _ |- _ => unfold byte_ok in H
  end.

Ltac evlen := first [assumption | reflexivity | (apply even_len_app; [assumption|reflexivity])].

(* ------------------------------------------------------------------ *)
(* u64_16bit_word::add_slice                                            *)

Lemma u64_tail_acc e s0 s pre bs :
  (length bs < 8)%nat -> bytes_ok bs -> even_len pre -> acc M64 e s0 s pre ->
  acc M64 e s0 (U64.tail e s bs) (pre ++ bs).
Proof.
  intros Hl Hok He Ha.
  pose proof M64_form as F. assert (B16 : 65536 <= M64) by (unfold M64; lia).
  assert (B32 : M32 <= M64) by (unfold M32, M64; lia).
  destruct bs as [|a [|b [|c [|d [|f [|g [|h [|i r]]]]]]]]; cbn [length] in Hl; try lia;
    inv_ok; cbn [U64.tail]; unfold U64.add_2bytes, U64.add_4bytes.
  - rewrite app_nil_r. exact Ha.
  - eapply step1; eauto.
  - eapply step2; eauto.
  - change [a; b; c] with ([a; b] ++ [c]). rewrite app_assoc.
    eapply step1; eauto; [evlen|]. eapply step2; eauto.
  - eapply step4; eauto.
  - change [a; b; c; d; f] with ([a; b; c; d] ++ [f]). rewrite app_assoc.
    eapply step1; eauto; [evlen|]. eapply step4; eauto.
  - change [a; b; c; d; f; g] with ([a; b; c; d] ++ [f; g]). rewrite app_assoc.
    eapply step2; eauto; [evlen|]. eapply step4; eauto.
  - change [a; b; c; d; f; g; h] with (([a; b; c; d] ++ [f; g]) ++ [h]). rewrite !app_assoc.
    eapply step1; eauto; [do 2 (apply even_len_app; [|reflexivity]); assumption|].
    eapply step2; eauto; [evlen|]. eapply step4; eauto.
Qed.

Lemma u64_add_slice_acc e bs : forall s0 s pre,
  bytes_ok bs -> even_len pre -> acc M64 e s0 s pre ->
  acc M64 e s0 (U64.add_slice e s bs) (pre ++ bs).
Proof.
  induction bs as [bs IH] using list_len_ind.
  intros s0 s pre Hok He Ha.
  destruct bs as [|a [|b [|c [|d [|f [|g [|h [|i r]]]]]]]];
    try (apply u64_tail_acc; [cbn [length]; lia | assumption..]).
  cbn [U64.add_slice].
  change (a :: b :: c :: d :: f :: g :: h :: i :: r) with ([a; b; c; d; f; g; h; i] ++ r).
  rewrite app_assoc.
  assert (Hok' := Hok). inv_ok.
  apply IH.
  - cbn [length]. lia.
  - assumption.
  - evlen.
  - unfold U64.add_8bytes. eapply step8; eauto using M64_form; unfold M64; lia.
Qed.

(* ------------------------------------------------------------------ *)
(* u32_16bit_word::add_slice                                            *)

Lemma u32_tail_acc e s0 s pre bs :
  (length bs < 4)%nat -> bytes_ok bs -> even_len pre -> acc M32 e s0 s pre ->
  acc M32 e s0 (U32.tail e s bs) (pre ++ bs).
Proof.
  intros Hl Hok He Ha.
  pose proof M32_form as F. assert (B16 : 65536 <= M32) by (unfold M32; lia).
  destruct bs as [|a [|b [|c [|d r]]]]; cbn [length] in Hl; try lia;
    inv_ok; cbn [U32.tail]; unfold U32.add_2bytes.
  - rewrite app_nil_r. exact Ha.
  - eapply step1; eauto.
  - eapply step2; eauto.
  - change [a; b; c] with ([a; b] ++ [c]). rewrite app_assoc.
    eapply step1; eauto; [evlen|]. eapply step2; eauto.
Qed.

Lemma u32_add_slice_acc e bs : forall s0 s pre,
  bytes_ok bs -> even_len pre -> acc M32 e s0 s pre ->
  acc M32 e s0 (U32.add_slice e s bs) (pre ++ bs).
Proof.
  induction bs as [bs IH] using list_len_ind.
  intros s0 s pre Hok He Ha.
  destruct bs as [|a [|b [|c [|d r]]]];
    try (apply u32_tail_acc; [cbn [length]; lia | assumption..]).
  cbn [U32.add_slice].
  change (a :: b :: c :: d :: r) with ([a; b; c; d] ++ r).
  rewrite app_assoc.
  assert (Hok' := Hok). inv_ok.
  apply IH.
  - cbn [length]. lia.
  - assumption.
  - evlen.
  - unfold U32.add_4bytes. eapply step4; eauto using M32_form; unfold M32; lia.
Qed.

(* ------------------------------------------------------------------ *)
(* pieces (Sum16BitWords call sequences)                                *)

Definition piece_ok (p : piece) : Prop :=
  bytes_ok (piece_bytes p) /\
  match p with P16 x => length x = 16%nat | _ => True end.

(* every piece except possibly the last one has even length *)
Fixpoint pieces_aligned (ps : list piece) : Prop :=
  match ps with
  | [] => True
  | [p] => True
  | p :: r => even_len (piece_bytes p) /\ pieces_aligned r
  end.


Lemma add_piece64_acc e s0 s pre p :
  piece_ok p -> even_len pre -> acc M64 e s0 s pre ->
  acc M64 e s0 (add_piece64 e s p) (pre ++ piece_bytes p).
Proof.
  intros [Hok Hl] He Ha.
  pose proof M64_form as F. assert (B16 : 65536 <= M64) by (unfold M64; lia).
  assert (B32 : M32 <= M64) by (unfold M32, M64; lia).
  destruct p as [a b|a b c d|a b c d f g h i|x|bs]; cbn [piece_bytes add_piece64] in *.
  - inv_ok. eapply step2; eauto.
  - inv_ok. eapply step4; eauto.
  - inv_ok. eapply step8; eauto. lia.
  - do 17 (destruct x as [|? x]; try discriminate Hl). inv_ok.
    match goal with |- acc _ _ _ _ (pre ++ ?a0 :: ?a1 :: ?a2 :: ?a3 :: ?a4 :: ?a5 :: ?a6 :: ?a7 :: ?t) =>
      change (a0 :: a1 :: a2 :: a3 :: a4 :: a5 :: a6 :: a7 :: t)
        with ([a0; a1; a2; a3; a4; a5; a6; a7] ++ t) end.
    rewrite app_assoc. unfold U64.add_8bytes.
    eapply step8; eauto; [lia | evlen |]. eapply step8; eauto. lia.
  - apply u64_add_slice_acc; assumption.
Qed.

Lemma add_piece32_acc e s0 s pre p :
  piece_ok p -> even_len pre -> acc M32 e s0 s pre ->
  acc M32 e s0 (add_piece32 e s p) (pre ++ piece_bytes p).
Proof.
  intros [Hok Hl] He Ha.
  pose proof M32_form as F. assert (B16 : 65536 <= M32) by (unfold M32; lia).
  assert (B32 : M32 <= M32) by lia.
  destruct p as [a b|a b c d|a b c d f g h i|x|bs]; cbn [piece_bytes add_piece32] in *.
  - inv_ok. eapply step2; eauto.
  - inv_ok. eapply step4; eauto.
  - inv_ok. change [a; b; c; d; f; g; h; i] with ([a; b; c; d] ++ [f; g; h; i]).
    rewrite app_assoc. unfold U32.add_4bytes.
    eapply step4; eauto; [evlen|]. eapply step4; eauto.
  - do 17 (destruct x as [|? x]; try discriminate Hl). inv_ok.
    match goal with |- acc _ _ _ _ (pre ++ [?a0; ?a1; ?a2; ?a3; ?a4; ?a5; ?a6; ?a7; ?b0; ?b1; ?b2; ?b3; ?b4; ?b5; ?b6; ?b7]) =>
      change [a0; a1; a2; a3; a4; a5; a6; a7; b0; b1; b2; b3; b4; b5; b6; b7]
        with ((([a0; a1; a2; a3] ++ [a4; a5; a6; a7]) ++ [b0; b1; b2; b3]) ++ [b4; b5; b6; b7]) end.
    rewrite !app_assoc. unfold U32.add_4bytes.
    eapply step4; eauto; [do 3 (apply even_len_app; [|reflexivity]); assumption|].
    eapply step4; eauto; [do 2 (apply even_len_app; [|reflexivity]); assumption|].
    eapply step4; eauto; [evlen|].
    eapply step4; eauto.
  - apply u32_add_slice_acc; assumption.
Qed.

Lemma sum_pieces64_acc e ps : forall s0 s pre,
  Forall piece_ok ps -> pieces_aligned ps -> even_len pre -> acc M64 e s0 s pre ->
  acc M64 e s0 (sum_pieces64 e s ps) (pre ++ pieces_bytes ps).
Proof.
  induction ps as [|p r IH]; intros s0 s pre Hok Hal He Ha.
  - unfold pieces_bytes. cbn. rewrite app_nil_r. exact Ha.
  - unfold sum_pieces64, pieces_bytes in *. cbn [fold_left map concat].
    rewrite app_assoc. inversion Hok as [|? ? Hp Hr]; subst.
    destruct r as [|q r'].
    + cbn [fold_left map concat]. rewrite app_nil_r.
      apply add_piece64_acc; assumption.
    + destruct Hal as [Hev Hal'].
      apply IH; try assumption.
      * apply even_len_app; assumption.
      * apply add_piece64_acc; assumption.
Qed.

Lemma sum_pieces32_acc e ps : forall s0 s pre,
  Forall piece_ok ps -> pieces_aligned ps -> even_len pre -> acc M32 e s0 s pre ->
  acc M32 e s0 (sum_pieces32 e s ps) (pre ++ pieces_bytes ps).
Proof.
  induction ps as [|p r IH]; intros s0 s pre Hok Hal He Ha.
  - unfold pieces_bytes. cbn. rewrite app_nil_r. exact Ha.
  - unfold sum_pieces32, pieces_bytes in *. cbn [fold_left map concat].
    rewrite app_assoc. inversion Hok as [|? ? Hp Hr]; subst.
    destruct r as [|q r'].
    + cbn [fold_left map concat]. rewrite app_nil_r.
      apply add_piece32_acc; assumption.
    + destruct Hal as [Hev Hal'].
      apply IH; try assumption.
      * apply even_len_app; assumption.
      * apply add_piece32_acc; assumption.
Qed.

(* ------------------------------------------------------------------ *)
(* folding the accumulator to 16 bits                                   *)

Lemma land_ffff x : N.land x 65535 = x mod 65536.
Proof. change 65535 with (N.ones 16). rewrite N.land_ones. reflexivity. Qed.

Lemma shr16 x : N.shiftr x 16 = x / 65536.
Proof. rewrite N.shiftr_div_pow2. reflexivity. Qed.
Lemma shr32 x : N.shiftr x 32 = x / 65536 / 65536.
Proof. rewrite N.shiftr_div_pow2. rewrite N.div_div by lia. reflexivity. Qed.
Lemma shr48 x : N.shiftr x 48 = x / 65536 / 65536 / 65536.
Proof. rewrite N.shiftr_div_pow2. rewrite !N.div_div by lia. reflexivity. Qed.

(* one folding step on a small value *)
Lemma fold_step x :
  let y := (x / 65536) mod 65536 + x mod 65536 in
  x < 65536 * 65536 -> y ==m x /\ (y = 0 <-> x = 0) /\ y <= x /\ y <= 65535 + x / 65536.
Proof.
  intros y Hx. subst y. repeat split; try dmlia.
  apply eqm_sym. apply eqm_plus_mult with (q := x / 65536). dmlia.
Qed.

Definition u16_of_64 (s : N) : N := 65535 - U64.ones_complement s.
Definition u16_of_32 (s : N) : N := 65535 - U32.ones_complement s.

Lemma u32_fold_spec s :
  s < M32 ->
  exists u, U32.ones_complement s = 65535 - u /\ u <= 65535 /\ u ==m s /\ (u = 0 <-> s = 0).
Proof.
  intros Hs. unfold M32 in Hs. unfold U32.ones_complement.
  rewrite !land_ffff, !shr16.
  set (first := (s / 65536) mod 65536 + s mod 65536).
  destruct (fold_step s ltac:(lia)) as (A1 & A2 & A3 & A4). fold first in A1, A2, A3, A4.
  assert (Hf : first < 65536 * 65536) by lia.
  assert (Hf2 : first <= 65535 + 65535) by dmlia.
  set (second := (first / 65536) mod 65536 + first mod 65536).
  destruct (fold_step first Hf) as (B1 & B2 & B3 & B4). fold second in B1, B2, B3, B4.
  assert (Hs2 : second <= 65535) by dmlia.
  exists second. rewrite N.mod_small by lia.
  repeat split; try lia; try tauto.
  eapply eqm_trans; eassumption.
Qed.

Lemma u64_fold_spec s :
  s < M64 ->
  exists u, U64.ones_complement s = 65535 - u /\ u <= 65535 /\ u ==m s /\ (u = 0 <-> s = 0).
Proof.
  intros Hs. unfold M64 in Hs. unfold U64.ones_complement.
  rewrite !land_ffff, shr16, shr32, shr48, !shr16.
  set (t1 := s / 65536). set (t2 := t1 / 65536). set (t3 := t2 / 65536).
  assert (H1 : s = t1 * 65536 + s mod 65536) by (subst t1; dmlia).
  assert (H2 : t1 = t2 * 65536 + t1 mod 65536) by (subst t2; dmlia).
  assert (H3 : t2 = t3 * 65536 + t2 mod 65536) by (subst t3; dmlia).
  assert (L0 : s mod 65536 < 65536) by (apply N.mod_lt; lia).
  assert (L1 : t1 mod 65536 < 65536) by (apply N.mod_lt; lia).
  assert (L2 : t2 mod 65536 < 65536) by (apply N.mod_lt; lia).
  set (l0 := s mod 65536) in *. set (l1 := t1 mod 65536) in *. set (l2 := t2 mod 65536) in *.
  assert (L3 : t3 < 65536) by lia.
  rewrite (N.mod_small t3) by lia.
  set (first := t3 + l2 + l1 + l0).
  assert (F1 : first ==m s).
  { apply eqm_sym. apply eqm_plus_mult with (q := l1 + 65537 * l2 + 4295032833 * t3). lia. }
  assert (F2 : first = 0 <-> s = 0) by lia.
  assert (F3 : first < 65536 * 65536) by lia.
  assert (F4 : first <= 4 * 65535) by lia.
  set (second := (first / 65536) mod 65536 + first mod 65536).
  destruct (fold_step first F3) as (B1 & B2 & B3 & B4). fold second in B1, B2, B3, B4.
  assert (S3 : second < 65536 * 65536) by lia.
  assert (S4 : second <= 65535 + 3) by dmlia.
  set (third := (second / 65536) mod 65536 + second mod 65536).
  destruct (fold_step second S3) as (C1 & C2 & C3 & C4). fold third in C1, C2, C3, C4.
  assert (T : third <= 65535) by dmlia.
  exists third. rewrite N.mod_small by lia.
  repeat split; try lia; try tauto.
  - eapply eqm_trans; [exact C1|]. eapply eqm_trans; eassumption.
Qed.

(* ------------------------------------------------------------------ *)
(* to_be                                                                *)

Lemma to_be_spec e u :
  u <= 65535 ->
  to_be16v e (65535 - u) = 65535 - to_be16v e u /\
  to_be16v e u <= 65535 /\ to_be16v e u ==m w e * u /\ (to_be16v e u = 0 <-> u = 0).
Proof.
  intros Hu. destruct e; cbn [to_be16v w]; unfold swap16.
  - repeat split; try dmlia.
    apply eqm_sym. apply eqm_plus_mult with (q := u / 256). dmlia.
  - repeat split; try lia. apply eqm_plus_mult with (q := 0). lia.
Qed.

(* ------------------------------------------------------------------ *)
(* the helper theorem                                                   *)

Definition acc0 (e : endian) (s : N) (bs : bytes) : Prop :=
  s ==m w e * sum_be16 bs /\ (s = 0 <-> sum_be16 bs = 0).

Lemma finish e s bs u :
  acc0 e s bs -> u <= 65535 -> u ==m s -> (u = 0 <-> s = 0) ->
  to_be16v e (65535 - u) = rfc1071 bs.
Proof.
  intros [Hq Hz] Hu Hus Huz.
  destruct (to_be_spec e u Hu) as (T1 & T2 & T3 & T4).
  rewrite T1. unfold rfc1071. f_equal.
  apply fold16_unique; [exact T2 | | ].
  - eapply eqm_trans; [exact T3|].
    eapply eqm_trans; [apply eqm_mul_l; eapply eqm_trans; [exact Hus | exact Hq]|].
    apply ww_eqm.
  - rewrite T4, Huz, Hz. tauto.
Qed.

Lemma acc_acc0 m e s bs : acc m e 0 s bs -> s < m /\ acc0 e s bs.
Proof.
  intros (H1 & H2 & H3). rewrite N.add_0_l in H2. unfold acc0. intuition.
Qed.

Theorem checksum64_rfc1071 e ps :
  Forall piece_ok ps -> pieces_aligned ps ->
  checksum64 e ps = rfc1071 (pieces_bytes ps).
Proof.
  intros Hok Hal. unfold checksum64.
  pose proof (sum_pieces64_acc e ps 0 0 [] Hok Hal eq_refl
                (acc_start M64 e 0 ltac:(reflexivity))) as Ha.
  cbn [app] in Ha. apply acc_acc0 in Ha. destruct Ha as [Hlt Ha].
  destruct (u64_fold_spec _ Hlt) as (u & E & U1 & U2 & U3).
  rewrite E. eapply finish; eauto.
Qed.

Theorem checksum32_rfc1071 e ps :
  Forall piece_ok ps -> pieces_aligned ps ->
  checksum32 e ps = rfc1071 (pieces_bytes ps).
Proof.
  intros Hok Hal. unfold checksum32.
  pose proof (sum_pieces32_acc e ps 0 0 [] Hok Hal eq_refl
                (acc_start M32 e 0 ltac:(reflexivity))) as Ha.
  cbn [app] in Ha. apply acc_acc0 in Ha. destruct Ha as [Hlt Ha].
  destruct (u32_fold_spec _ Hlt) as (u & E & U1 & U2 & U3).
  rewrite E. eapply finish; eauto.
Qed.

(* the plain helper: one add_slice over the whole input *)
Corollary add_slice64_rfc1071 e bs :
  bytes_ok bs ->
  to_be16v e (U64.ones_complement (U64.add_slice e 0 bs)) = rfc1071 bs.
Proof.
  intros H.
  pose proof (checksum64_rfc1071 e [PSlice bs]) as T.
  unfold checksum64, sum_pieces64, pieces_bytes in T. cbn in T.
  rewrite app_nil_r in T. apply T; [|exact I].
  constructor; [|constructor]. split; [exact H | exact I].
Qed.

Corollary add_slice32_rfc1071 e bs :
  bytes_ok bs ->
  to_be16v e (U32.ones_complement (U32.add_slice e 0 bs)) = rfc1071 bs.
Proof.
  intros H.
  pose proof (checksum32_rfc1071 e [PSlice bs]) as T.
  unfold checksum32, sum_pieces32, pieces_bytes in T. cbn in T.
  rewrite app_nil_r in T. apply T; [|exact I].
  constructor; [|constructor]. split; [exact H | exact I].
Qed.

(* split independence: any aligned sequence of pieces = one pass *)
Corollary split_independent64 e ps :
  Forall piece_ok ps -> pieces_aligned ps ->
  checksum64 e ps = checksum64 e [PSlice (pieces_bytes ps)].
Proof.
  intros Hok Hal. rewrite checksum64_rfc1071 by assumption.
  rewrite checksum64_rfc1071.
  - unfold pieces_bytes. cbn. now rewrite app_nil_r.
  - constructor; [|constructor]. split; [|exact I]. cbn [piece_bytes].
    unfold pieces_bytes. clear Hal. induction Hok as [|p r [Hp _] _ IH]; cbn.
    + constructor.
    + apply bytes_ok_app. split; assumption.
  - exact I.
Qed.

Corollary widths_agree e ps :
  Forall piece_ok ps -> pieces_aligned ps -> checksum64 e ps = checksum32 e ps.
Proof.
  intros. rewrite checksum64_rfc1071, checksum32_rfc1071 by assumption. reflexivity.
Qed.

(* non-zero variant used by UDP: 0 is transmitted as 0xffff *)
Lemma rfc1071_le bs : rfc1071 bs <= 65535.
Proof. unfold rfc1071. lia. Qed.

Lemma to_be_ffff e : to_be16v e 65535 = 65535.
Proof. destruct e; reflexivity. Qed.

Lemma to_be_zero_iff e v : v <= 65535 -> (to_be16v e v = 0 <-> v = 0).
Proof. intros H. destruct (to_be_spec e v H) as (_ & _ & _ & T). exact T. Qed.

Theorem checksum64_no_zero_spec e ps :
  Forall piece_ok ps -> pieces_aligned ps ->
  checksum64_no_zero e ps =
    (if rfc1071 (pieces_bytes ps) =? 0 then 65535 else rfc1071 (pieces_bytes ps)).
Proof.
  intros Hok Hal. pose proof (checksum64_rfc1071 e ps Hok Hal) as T.
  unfold checksum64_no_zero, checksum64, U64.ones_complement_with_no_zero in *.
  set (v := U64.ones_complement (sum_pieces64 e 0 ps)) in *.
  assert (Hv : v <= 65535).
  { subst v. unfold U64.ones_complement. lia. }
  pose proof (to_be_zero_iff e v Hv) as Z.
  destruct (v =? 0) eqn:E1; destruct (rfc1071 (pieces_bytes ps) =? 0) eqn:E2;
    try rewrite to_be_ffff; try lia.
Qed.

Theorem checksum32_no_zero_spec e ps :
  Forall piece_ok ps -> pieces_aligned ps ->
  checksum32_no_zero e ps =
    (if rfc1071 (pieces_bytes ps) =? 0 then 65535 else rfc1071 (pieces_bytes ps)).
Proof.
  intros Hok Hal. pose proof (checksum32_rfc1071 e ps Hok Hal) as T.
  unfold checksum32_no_zero, checksum32, U32.ones_complement_with_no_zero in *.
  set (v := U32.ones_complement (sum_pieces32 e 0 ps)) in *.
  assert (Hv : v <= 65535).
  { subst v. unfold U32.ones_complement. lia. }
  pose proof (to_be_zero_iff e v Hv) as Z.
  destruct (v =? 0) eqn:E1; destruct (rfc1071 (pieces_bytes ps) =? 0) eqn:E2;
    try rewrite to_be_ffff; try lia.
Qed.

(* accumulators started anywhere (all accumulator states incl. near 2^64):
   the end-around carry keeps the congruence and never loses a non-zero sum *)
Theorem add_slice64_any_start e s0 bs :
  s0 < M64 -> bytes_ok bs ->
  let s := U64.add_slice e s0 bs in
  s < M64 /\ s ==m s0 + w e * sum_be16 bs /\ (s = 0 <-> s0 = 0 /\ sum_be16 bs = 0).
Proof.
  intros H0 Hok.
  exact (u64_add_slice_acc e bs s0 s0 [] Hok eq_refl (acc_start M64 e s0 H0)).
Qed.

Theorem add_slice32_any_start e s0 bs :
  s0 < M32 -> bytes_ok bs ->
  let s := U32.add_slice e s0 bs in
  s < M32 /\ s ==m s0 + w e * sum_be16 bs /\ (s = 0 <-> s0 = 0 /\ sum_be16 bs = 0).
Proof.
  intros H0 Hok.
  exact (u32_add_slice_acc e bs s0 s0 [] Hok eq_refl (acc_start M32 e s0 H0)).
Qed.

(* no debug-build overflow in `sum + carry` *)
Theorem oadd_no_overflow m s v : 0 < m -> s < m -> v < m -> oadd m s v < m.
Proof.
  intros Hm Hs Hv. unfold oadd. destruct (s + v <? m) eqn:E.
  - rewrite N.mod_small by lia. lia.
  - assert ((s + v) mod m = s + v - m) by (symmetry; apply N.mod_unique with (q := 1); lia).
    lia.
Qed.
