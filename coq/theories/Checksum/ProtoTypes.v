(* Checksum/ProtoTypes.v -- the INPUT values of the protocol checksum functions:
   header structs of the crate as records of numbers, message type enums,
   their range predicates (what the Rust types guarantee), and the result type.
   Shared vocabulary of ProtoSpec.v (RFC side) and Proto.v (code side); nothing
   here computes a checksum. *)
From EP Require Import Base.Bytes.
Local Open Scope N_scope.

(* Result<u16, ValueTooBigError<usize>>: the two numbers of the error *)
Inductive cres :=
| COk (v : N)
| CErrTooBig (actual max_allowed : N)
| CPanic.     (* index out of range in `slice[..16]` etc.; proved unreachable *)

(* [u8; 4] *)
Definition ip4 : Type := (N * N * N * N)%type.
Definition ip4_bytes (a : ip4) : bytes :=
  let '(a0, a1, a2, a3) := a in [a0; a1; a2; a3].
Definition ip4_ok (a : ip4) : Prop := bytes_ok (ip4_bytes a).
(* [u8; 16]: a byte list of length 16 *)
Definition ip6_ok (a : bytes) : Prop := bytes_ok a /\ length a = 16%nat.

Definition bit (b : bool) : N := if b then 1 else 0.

(* struct Ipv4Header (header_checksum is not read by calc_header_checksum) *)
Record ipv4_hdr := {
  v4_dscp : N; v4_ecn : N; v4_total_len : N; v4_ident : N;
  v4_df : bool; v4_mf : bool; v4_frag_off : N; v4_ttl : N; v4_proto : N;
  v4_src : ip4; v4_dst : ip4; v4_options : bytes }.

(* IpDscp <= 0x3f, IpEcn <= 3, IpFragOffset <= 0x1fff, Ipv4Options: len in
   {0,4,..,40} *)
Definition ipv4_hdr_ok (h : ipv4_hdr) : Prop :=
  v4_dscp h < 64 /\ v4_ecn h < 4 /\ v4_total_len h < 65536 /\ v4_ident h < 65536 /\
  v4_frag_off h < 8192 /\ v4_ttl h < 256 /\ v4_proto h < 256 /\
  ip4_ok (v4_src h) /\ ip4_ok (v4_dst h) /\
  bytes_ok (v4_options h) /\ len (v4_options h) <= 40 /\ (len (v4_options h)) mod 4 = 0.

(* struct UdpHeader (checksum is not read) *)
Record udp_hdr := { u_sport : N; u_dport : N; u_length : N }.
Definition udp_hdr_ok (h : udp_hdr) : Prop :=
  u_sport h < 65536 /\ u_dport h < 65536 /\ u_length h < 65536.

(* struct TcpHeader (checksum is not read); TcpOptions: len in {0,4,..,40} *)
Record tcp_hdr := {
  t_sport : N; t_dport : N; t_seq : N; t_ack_no : N;
  t_ns : bool; t_fin : bool; t_syn : bool; t_rst : bool; t_psh : bool;
  t_ack : bool; t_urg : bool; t_ece : bool; t_cwr : bool;
  t_window : N; t_urgent : N; t_options : bytes }.
Definition tcp_hdr_ok (h : tcp_hdr) : Prop :=
  t_sport h < 65536 /\ t_dport h < 65536 /\ t_seq h < 4294967296 /\ t_ack_no h < 4294967296 /\
  t_window h < 65536 /\ t_urgent h < 65536 /\
  bytes_ok (t_options h) /\ len (t_options h) <= 40 /\ (len (t_options h)) mod 4 = 0.

(* enum Icmpv4Type.  The 15 payload-free arms of DestinationUnreachable differ
   only in the code constant and are one constructor carrying that code (0..15
   without 4); FragmentationNeeded (code 4) is separate.  Redirect / TimeExceeded
   / ParameterProblem carry their code byte (`code as u8`); the range
   predicates only require a byte, which is weaker than what the enums allow. *)
Inductive icmp4_type :=
| I4Unknown (ty code : N) (b5 b6 b7 b8 : N)
| I4EchoReply (id seq : N)
| I4DestUnreach (code : N)
| I4FragNeeded (mtu : N)
| I4Redirect (code : N) (gw : ip4)
| I4EchoRequest (id seq : N)
| I4TimeExceeded (code : N)
| I4ParamPointer (pointer : N)
| I4ParamOther (code : N)          (* MissingRequiredOption = 1, BadLength = 2 *)
| I4TimestampRequest (id seq orig recv trans : N)
| I4TimestampReply (id seq orig recv trans : N).

Definition icmp4_ok (t : icmp4_type) : Prop :=
  match t with
  | I4Unknown ty code b5 b6 b7 b8 =>
      ty < 256 /\ code < 256 /\ b5 < 256 /\ b6 < 256 /\ b7 < 256 /\ b8 < 256
  | I4EchoReply id seq | I4EchoRequest id seq => id < 65536 /\ seq < 65536
  | I4DestUnreach code => code < 256
  | I4FragNeeded mtu => mtu < 65536
  | I4Redirect code gw => code < 256 /\ ip4_ok gw
  | I4TimeExceeded code => code < 256
  | I4ParamPointer p => p < 256
  | I4ParamOther code => code < 256
  | I4TimestampRequest id seq o r t | I4TimestampReply id seq o r t =>
      id < 65536 /\ seq < 65536 /\ o < 4294967296 /\ r < 4294967296 /\ t < 4294967296
  end.

(* enum Icmpv6Type *)
Inductive icmp6_type :=
| I6Unknown (ty code : N) (b5 b6 b7 b8 : N)
| I6DestUnreach (code : N)
| I6PacketTooBig (mtu : N)
| I6TimeExceeded (code : N)
| I6ParamProblem (code pointer : N)
| I6EchoRequest (id seq : N)
| I6EchoReply (id seq : N)
| I6RouterSolicitation
| I6RouterAdvertisement (cur_hop_limit : N) (managed other : bool) (lifetime : N)
| I6NeighborSolicitation
| I6NeighborAdvertisement (router solicited override : bool)
| I6Redirect.

Definition icmp6_ok (t : icmp6_type) : Prop :=
  match t with
  | I6Unknown ty code b5 b6 b7 b8 =>
      ty < 256 /\ code < 256 /\ b5 < 256 /\ b6 < 256 /\ b7 < 256 /\ b8 < 256
  | I6DestUnreach code => code < 256
  | I6PacketTooBig mtu => mtu < 4294967296
  | I6TimeExceeded code => code < 256
  | I6ParamProblem code p => code < 256 /\ p < 4294967296
  | I6EchoRequest id seq | I6EchoReply id seq => id < 65536 /\ seq < 65536
  | I6RouterAdvertisement chl _ _ lt => chl < 256 /\ lt < 65536
  | _ => True
  end.

(* enum IgmpType *)
Inductive igmp_type :=
| GQuery (max_resp_time : N) (group : ip4)
| GQueryWithSources (max_resp_code : N) (group : ip4) (raw_byte_8 qqic num_sources : N)
| GReportV1 (group : ip4)
| GReportV2 (group : ip4)
| GReportV3 (flags0 flags1 num_records : N)
| GLeaveGroup (group : ip4)
| GUnknown (ty raw1 : N) (raw4_7 : ip4).

Definition igmp_ok (t : igmp_type) : Prop :=
  match t with
  | GQuery m g => m < 256 /\ ip4_ok g
  | GQueryWithSources m g r q n => m < 256 /\ ip4_ok g /\ r < 256 /\ q < 256 /\ n < 65536
  | GReportV1 g | GReportV2 g | GLeaveGroup g => ip4_ok g
  | GReportV3 f0 f1 n => f0 < 256 /\ f1 < 256 /\ n < 65536
  | GUnknown ty r1 r => ty < 256 /\ r1 < 256 /\ ip4_ok r
  end.

(* enum TransportHeader and the outcome of update_checksum_ipv4/_ipv6: the
   checksum stored into the header, or the error *)
Inductive transport_hdr :=
| THUdp (h : udp_hdr)
| THTcp (h : tcp_hdr)
| THIcmp4 (t : icmp4_type)
| THIcmp6 (t : icmp6_type).

Inductive upd_res :=
| UpdOk (cksum : N)
| UpdErrPayloadLen (actual max_allowed : N)
| UpdErrIcmpv6InIpv4
| UpdPanic.


Definition transport_ok (th : transport_hdr) : Prop :=
  match th with
  | THUdp h => udp_hdr_ok h
  | THTcp h => tcp_hdr_ok h
  | THIcmp4 t => icmp4_ok t
  | THIcmp6 t => icmp6_ok t
  end.

(* TcpHeaderSlice: from_slice cuts the slice to 4 * data offset bytes *)
Definition tcp_hslice_ok (hdr : bytes) : Prop :=
  bytes_ok hdr /\ 20 <= len hdr /\ len hdr <= 60 /\ len hdr mod 4 = 0.
