(* Checksum/AnyStart.v -- property C09, round 3 ("small closures"): the quantifier "for all
   accumulator states, including carries out of 32/64 bits" for EVERY helper call and for
   the final fold, not only for one `add_slice` from an arbitrary start:
     pieces_any_start64/32  any sequence of add_2bytes / add_4bytes / add_8bytes /
                            add_16bytes / add_slice calls (even split) from ANY accumulator
                            value s0 < 2^64 (2^32): no overflow of the accumulator type, the
                            result is congruent to s0 + the word sum, and is 0 only if
                            nothing but zeros was added to a zero accumulator;
     fold_any64/32          `ones_complement` of ANY accumulator value is the RFC fold
                            (closed form `fold16`), `ones_complement_with_no_zero` likewise;
     checksum_any_start64/32  both together: the final big-endian checksum from any start.
   Only compositions of Checksum/Proofs.v (sum_pieces64_acc, u64_fold_spec, ...); the
   model functions are those of Checksum/Model.v. *)
From Coq Require Import ZArith Lia ZifyN ZifyBool.
From EP Require Import Base.Bytes Checksum.Spec Checksum.Model Checksum.Proofs.
Local Open Scope N_scope.

Lemma pieces_any_start64 e s0 ps :
  s0 < M64 -> Forall piece_ok ps -> pieces_aligned ps ->
  let s := sum_pieces64 e s0 ps in
  s < M64 /\ s ==m s0 + w e * sum_be16 (pieces_bytes ps) /\
  (s = 0 <-> s0 = 0 /\ sum_be16 (pieces_bytes ps) = 0).
Proof.
  intros H0 Hok Hal.
  exact (sum_pieces64_acc e ps s0 s0 [] Hok Hal eq_refl (acc_start M64 e s0 H0)).
Qed.

Lemma pieces_any_start32 e s0 ps :
  s0 < M32 -> Forall piece_ok ps -> pieces_aligned ps ->
  let s := sum_pieces32 e s0 ps in
  s < M32 /\ s ==m s0 + w e * sum_be16 (pieces_bytes ps) /\
  (s = 0 <-> s0 = 0 /\ sum_be16 (pieces_bytes ps) = 0).
Proof.
  intros H0 Hok Hal.
  exact (sum_pieces32_acc e ps s0 s0 [] Hok Hal eq_refl (acc_start M32 e s0 H0)).
Qed.

(* the final fold of an arbitrary accumulator value *)
Lemma fold_any64 s : s < M64 ->
  U64.ones_complement s = 65535 - fold16 s /\
  U64.ones_complement_with_no_zero s = (if fold16 s =? 65535 then 65535 else 65535 - fold16 s) /\
  (exists u, U64.ones_complement s = 65535 - u /\ u <= 65535 /\ u ==m s /\ (u = 0 <-> s = 0)).
Proof.
  intros Hs. destruct (u64_fold_spec s Hs) as (u & E & U1 & U2 & U3).
  assert (Hu : u = fold16 s) by (apply fold16_unique; assumption).
  split; [rewrite E, Hu; reflexivity|]. split.
  - unfold U64.ones_complement_with_no_zero. cbv zeta. rewrite E, <- Hu.
    destruct (u =? 65535) eqn:E1; [apply N.eqb_eq in E1|apply N.eqb_neq in E1].
    + rewrite E1. reflexivity.
    + destruct (65535 - u =? 0) eqn:E2; [apply N.eqb_eq in E2; lia|reflexivity].
  - exists u. repeat split; try assumption; apply U3.
Qed.

Lemma fold_any32 s : s < M32 ->
  U32.ones_complement s = 65535 - fold16 s /\
  U32.ones_complement_with_no_zero s = (if fold16 s =? 65535 then 65535 else 65535 - fold16 s) /\
  (exists u, U32.ones_complement s = 65535 - u /\ u <= 65535 /\ u ==m s /\ (u = 0 <-> s = 0)).
Proof.
  intros Hs. destruct (u32_fold_spec s Hs) as (u & E & U1 & U2 & U3).
  assert (Hu : u = fold16 s) by (apply fold16_unique; assumption).
  split; [rewrite E, Hu; reflexivity|]. split.
  - unfold U32.ones_complement_with_no_zero. cbv zeta. rewrite E, <- Hu.
    destruct (u =? 65535) eqn:E1; [apply N.eqb_eq in E1|apply N.eqb_neq in E1].
    + rewrite E1. reflexivity.
    + destruct (65535 - u =? 0) eqn:E2; [apply N.eqb_eq in E2; lia|reflexivity].
  - exists u. repeat split; try assumption; apply U3.
Qed.

(* both together: the big-endian checksum obtained from ANY start value is the RFC fold of
   (the start value, byte swapped on a little-endian host) + (the big-endian word sum) *)
Lemma finish_any e s0 s bs u :
  s ==m s0 + w e * sum_be16 bs -> (s = 0 <-> s0 = 0 /\ sum_be16 bs = 0) ->
  u <= 65535 -> u ==m s -> (u = 0 <-> s = 0) ->
  to_be16v e (65535 - u) = 65535 - fold16 (w e * s0 + sum_be16 bs).
Proof.
  intros Hq Hz Hu Hus Huz.
  destruct (to_be_spec e u Hu) as (T1 & T2 & T3 & T4).
  rewrite T1. f_equal.
  apply fold16_unique; [exact T2 | | ].
  - eapply eqm_trans; [exact T3|].
    eapply eqm_trans; [apply eqm_mul_l; eapply eqm_trans; [exact Hus | exact Hq]|].
    rewrite N.mul_add_distr_l. apply eqm_add; [apply eqm_refl | apply ww_eqm].
  - rewrite T4, Huz, Hz.
    assert (Hw : 0 < w e) by (destruct e; cbn [w]; lia).
    split; [intros [-> ->]; lia | intros H; split; nia].
Qed.

Lemma checksum_any_start64 e s0 ps :
  s0 < M64 -> Forall piece_ok ps -> pieces_aligned ps ->
  to_be16v e (U64.ones_complement (sum_pieces64 e s0 ps))
    = 65535 - fold16 (w e * s0 + sum_be16 (pieces_bytes ps)).
Proof.
  intros H0 Hok Hal.
  destruct (pieces_any_start64 e s0 ps H0 Hok Hal) as (Hlt & Hq & Hz).
  destruct (u64_fold_spec _ Hlt) as (u & E & U1 & U2 & U3).
  rewrite E. eapply finish_any; eauto.
Qed.

Lemma checksum_any_start32 e s0 ps :
  s0 < M32 -> Forall piece_ok ps -> pieces_aligned ps ->
  to_be16v e (U32.ones_complement (sum_pieces32 e s0 ps))
    = 65535 - fold16 (w e * s0 + sum_be16 (pieces_bytes ps)).
Proof.
  intros H0 Hok Hal.
  destruct (pieces_any_start32 e s0 ps H0 Hok Hal) as (Hlt & Hq & Hz).
  destruct (u32_fold_spec _ Hlt) as (u & E & U1 & U2 & U3).
  rewrite E. eapply finish_any; eauto.
Qed.
