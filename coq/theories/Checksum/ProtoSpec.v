(* Checksum/ProtoSpec.v -- what the RFCs prescribe for each protocol checksum,
   written as BYTE STRINGS from the RFC figures (never as calls of the helper):
     checksum = rfc1071 (pseudo header ++ header with the checksum field 0 ++ data)
   RFC 791 (IPv4 header), RFC 768 (UDP), RFC 9293 3.1 (TCP), RFC 8200 8.1 (IPv6
   pseudo header), RFC 792 / 1191 (ICMPv4), RFC 4443 2.3 / 4861 (ICMPv6),
   RFC 2236 / 3376 (IGMP).  Independent of Proto.v. *)
From EP Require Import Base.Bytes Checksum.Spec Checksum.ProtoTypes.
Local Open Scope N_scope.

(* 16 / 32 bit fields in network byte order *)
Definition w16 (v : N) : bytes := to_be16 v.
Definition w32 (v : N) : bytes := to_be32 v.

(* ---- pseudo headers ------------------------------------------------- *)
(* RFC 768 / RFC 9293 3.1:  source address, destination address, zero,
   protocol, UDP/TCP length (16 bit) *)
Definition pseudo4 (src dst : ip4) (proto ulen : N) : bytes :=
  ip4_bytes src ++ ip4_bytes dst ++ [0; proto] ++ w16 ulen.

(* RFC 8200 8.1: source (16), destination (16), upper-layer packet length (32),
   zero (24), next header (8) *)
Definition pseudo6 (src dst : bytes) (ulen nh : N) : bytes :=
  src ++ dst ++ w32 ulen ++ [0; 0; 0; nh].

(* ---- IPv4 header, RFC 791 3.1 (DS field RFC 2474, ECN RFC 3168) ------ *)
Definition ipv4_ihl (h : ipv4_hdr) : N := 5 + len (v4_options h) / 4.
Definition ipv4_wire (h : ipv4_hdr) (cksum : N) : bytes :=
  [4 * 16 + ipv4_ihl h; v4_dscp h * 4 + v4_ecn h] ++ w16 (v4_total_len h) ++
  w16 (v4_ident h) ++
  (* flags: bit 0 reserved = 0, DF, MF; then 13 bits fragment offset *)
  w16 (bit (v4_df h) * 16384 + bit (v4_mf h) * 8192 + v4_frag_off h) ++
  [v4_ttl h; v4_proto h] ++ w16 cksum ++
  ip4_bytes (v4_src h) ++ ip4_bytes (v4_dst h) ++ v4_options h.
Definition ipv4_header_checksum_spec (h : ipv4_hdr) : N := rfc1071 (ipv4_wire h 0).

(* ---- UDP, RFC 768 ---------------------------------------------------- *)
Definition udp_wire (h : udp_hdr) (cksum : N) : bytes :=
  w16 (u_sport h) ++ w16 (u_dport h) ++ w16 (u_length h) ++ w16 cksum.
(* "If the computed checksum is zero, it is transmitted as all ones" *)
Definition no_zero (v : N) : N := if v =? 0 then 65535 else v.
(* ulen: the "UDP length" of the pseudo header.  For a well-formed datagram it
   is the Length field = 8 + |data|; RFC 8200 8.1 says explicitly that for UDP
   the Length field of the UDP header is the length used in the pseudo header. *)
Definition udp4_spec (src dst : ip4) (h : udp_hdr) (ulen : N) (data : bytes) : N :=
  no_zero (rfc1071 (pseudo4 src dst 17 ulen ++ udp_wire h 0 ++ data)).
Definition udp6_spec (src dst : bytes) (h : udp_hdr) (ulen : N) (data : bytes) : N :=
  no_zero (rfc1071 (pseudo6 src dst ulen 17 ++ udp_wire h 0 ++ data)).

(* ---- TCP, RFC 9293 3.1 ----------------------------------------------- *)
Definition tcp_data_offset (h : tcp_hdr) : N := 5 + len (t_options h) / 4.
Definition tcp_wire (h : tcp_hdr) (cksum : N) : bytes :=
  w16 (t_sport h) ++ w16 (t_dport h) ++ w32 (t_seq h) ++ w32 (t_ack_no h) ++
  (* data offset (4 bits), reserved (3 bits, 0), NS (RFC 3540) *)
  [tcp_data_offset h * 16 + bit (t_ns h);
   (* CWR ECE URG ACK PSH RST SYN FIN *)
   bit (t_cwr h) * 128 + bit (t_ece h) * 64 + bit (t_urg h) * 32 + bit (t_ack h) * 16 +
   bit (t_psh h) * 8 + bit (t_rst h) * 4 + bit (t_syn h) * 2 + bit (t_fin h)] ++
  w16 (t_window h) ++ w16 cksum ++ w16 (t_urgent h) ++ t_options h.
Definition tcp_header_len (h : tcp_hdr) : N := 20 + len (t_options h).
(* TCP length = header length + data length (not transmitted, computed) *)
Definition tcp4_spec (src dst : ip4) (h : tcp_hdr) (data : bytes) : N :=
  rfc1071 (pseudo4 src dst 6 (tcp_header_len h + len data) ++ tcp_wire h 0 ++ data).
Definition tcp6_spec (src dst : bytes) (h : tcp_hdr) (data : bytes) : N :=
  rfc1071 (pseudo6 src dst (tcp_header_len h + len data) 6 ++ tcp_wire h 0 ++ data).

(* from raw header bytes: the checksum field (offset 16, 2 bytes) replaced by 0 *)
Definition zero_at (off : N) (bs : bytes) : bytes := take off bs ++ [0; 0] ++ drop (off + 2) bs.
Definition tcp4_raw_spec (src dst : ip4) (hdr data : bytes) : N :=
  rfc1071 (pseudo4 src dst 6 (len hdr + len data) ++ zero_at 16 hdr ++ data).
Definition tcp6_raw_spec (src dst : bytes) (hdr data : bytes) : N :=
  rfc1071 (pseudo6 src dst (len hdr + len data) 6 ++ zero_at 16 hdr ++ data).

(* ---- ICMPv4, RFC 792 (next-hop MTU: RFC 1191) ------------------------- *)
Definition icmp4_wire (t : icmp4_type) (cksum : N) : bytes :=
  match t with
  | I4Unknown ty code b5 b6 b7 b8 => [ty; code] ++ w16 cksum ++ [b5; b6; b7; b8]
  | I4EchoReply id seq => [0; 0] ++ w16 cksum ++ w16 id ++ w16 seq
  | I4DestUnreach code => [3; code] ++ w16 cksum ++ [0; 0; 0; 0]
  | I4FragNeeded mtu => [3; 4] ++ w16 cksum ++ [0; 0] ++ w16 mtu
  | I4Redirect code gw => [5; code] ++ w16 cksum ++ ip4_bytes gw
  | I4EchoRequest id seq => [8; 0] ++ w16 cksum ++ w16 id ++ w16 seq
  | I4TimeExceeded code => [11; code] ++ w16 cksum ++ [0; 0; 0; 0]
  | I4ParamPointer p => [12; 0] ++ w16 cksum ++ [p; 0; 0; 0]
  | I4ParamOther code => [12; code] ++ w16 cksum ++ [0; 0; 0; 0]
  | I4TimestampRequest id seq o r tr =>
      [13; 0] ++ w16 cksum ++ w16 id ++ w16 seq ++ w32 o ++ w32 r ++ w32 tr
  | I4TimestampReply id seq o r tr =>
      [14; 0] ++ w16 cksum ++ w16 id ++ w16 seq ++ w32 o ++ w32 r ++ w32 tr
  end.
(* "the 16-bit one's complement of the one's complement sum of the ICMP message
   starting with the ICMP Type" *)
Definition icmp4_spec (t : icmp4_type) (data : bytes) : N :=
  rfc1071 (icmp4_wire t 0 ++ data).

(* ---- ICMPv6, RFC 4443 2.1/2.3, NDP RFC 4861 4.1-4.5 ------------------- *)
Definition icmp6_wire (t : icmp6_type) (cksum : N) : bytes :=
  match t with
  | I6Unknown ty code b5 b6 b7 b8 => [ty; code] ++ w16 cksum ++ [b5; b6; b7; b8]
  | I6DestUnreach code => [1; code] ++ w16 cksum ++ [0; 0; 0; 0]
  | I6PacketTooBig mtu => [2; 0] ++ w16 cksum ++ w32 mtu
  | I6TimeExceeded code => [3; code] ++ w16 cksum ++ [0; 0; 0; 0]
  | I6ParamProblem code p => [4; code] ++ w16 cksum ++ w32 p
  | I6EchoRequest id seq => [128; 0] ++ w16 cksum ++ w16 id ++ w16 seq
  | I6EchoReply id seq => [129; 0] ++ w16 cksum ++ w16 id ++ w16 seq
  | I6RouterSolicitation => [133; 0] ++ w16 cksum ++ [0; 0; 0; 0]
  | I6RouterAdvertisement chl m o lt =>
      [134; 0] ++ w16 cksum ++ [chl; bit m * 128 + bit o * 64] ++ w16 lt
  | I6NeighborSolicitation => [135; 0] ++ w16 cksum ++ [0; 0; 0; 0]
  | I6NeighborAdvertisement r s o =>
      [136; 0] ++ w16 cksum ++ [bit r * 128 + bit s * 64 + bit o * 32; 0; 0; 0]
  | I6Redirect => [137; 0] ++ w16 cksum ++ [0; 0; 0; 0]
  end.
(* pseudo header: next header 58, upper-layer length = length of the whole
   ICMPv6 message *)
Definition icmp6_spec (src dst : bytes) (t : icmp6_type) (data : bytes) : N :=
  rfc1071 (pseudo6 src dst (8 + len data) 58 ++ icmp6_wire t 0 ++ data).
(* receiver: the sum over pseudo header and the message AS RECEIVED (checksum
   field included) must fold to 0xffff *)
Definition icmp6_valid_spec (src dst : bytes) (msg : bytes) : bool :=
  folds_to_ffff (pseudo6 src dst (len msg) 58 ++ msg).

(* ---- IGMP, RFC 2236 2 / RFC 3376 4.1, 4.2 ----------------------------- *)
Definition igmp_wire (t : igmp_type) (cksum : N) : bytes :=
  match t with
  | GQuery m g => [17; m] ++ w16 cksum ++ ip4_bytes g
  | GQueryWithSources m g r q n =>
      [17; m] ++ w16 cksum ++ ip4_bytes g ++ [r; q] ++ w16 n
  | GReportV1 g => [18; 0] ++ w16 cksum ++ ip4_bytes g
  | GReportV2 g => [22; 0] ++ w16 cksum ++ ip4_bytes g
  | GReportV3 f0 f1 n => [34; 0] ++ w16 cksum ++ [f0; f1] ++ w16 n
  | GLeaveGroup g => [23; 0] ++ w16 cksum ++ ip4_bytes g
  | GUnknown ty r1 r => [ty; r1] ++ w16 cksum ++ ip4_bytes r
  end.
(* "the 16-bit one's complement of the one's complement sum of the whole IGMP
   message (the entire IP payload)" *)
Definition igmp_spec (t : igmp_type) (data : bytes) : N :=
  rfc1071 (igmp_wire t 0 ++ data).

(* ---- TransportHeader::update_checksum_ipv4/_ipv6 ---------------------- *)
(* the checksum stored is the protocol's RFC checksum; a payload that does not
   fit the 16 bit (IPv4) / 32 bit (IPv6) length of the pseudo header is an
   error; ICMPv6 in IPv4 is an error *)
Definition update4_spec (th : transport_hdr) (src dst : ip4) (data : bytes) : upd_res :=
  match th with
  | THUdp h => if 65527 <? len data then UpdErrPayloadLen (len data) 65527
               else UpdOk (udp4_spec src dst h (u_length h) data)
  | THTcp h => if 65535 - tcp_header_len h <? len data
               then UpdErrPayloadLen (len data) (65535 - tcp_header_len h)
               else UpdOk (tcp4_spec src dst h data)
  | THIcmp4 t => UpdOk (icmp4_spec t data)
  | THIcmp6 _ => UpdErrIcmpv6InIpv4
  end.
Definition update6_spec (th : transport_hdr) (src dst : bytes) (data : bytes) : upd_res :=
  match th with
  | THUdp h => if 4294967287 <? len data then UpdErrPayloadLen (len data) 4294967287
               else UpdOk (udp6_spec src dst h (u_length h) data)
  | THTcp h => if 4294967295 - tcp_header_len h <? len data
               then UpdErrPayloadLen (len data) (4294967295 - tcp_header_len h)
               else UpdOk (tcp6_spec src dst h data)
  | THIcmp4 t => UpdOk (icmp4_spec t data)
  | THIcmp6 t => if 4294967287 <? len data then UpdErrPayloadLen (len data) 4294967287
                 else UpdOk (icmp6_spec src dst t data)
  end.
