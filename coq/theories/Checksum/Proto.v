(* Checksum/Proto.v -- transliteration of every PROTOCOL level checksum
   function of the crate: the exact sequence of Sum16BitWords calls (as a
   `list piece`, in call order), the preceding range checks (ValueTooBigError),
   every narrowing cast (`as u8/u16/u32`) as an explicit mod 2^k, every bit
   operation as N.lor / N.land / N.shiftl.  Partial operations (`slice[..16]`)
   return CPanic.  Proofs are in ProtoProofs.v.

     net/ipv4_header.rs         Ipv4Header::calc_header_checksum
     transport/udp_header.rs    calc_checksum_ipv4(_raw), calc_checksum_ipv6(_raw),
                                with_ipv4_checksum, with_ipv6_checksum
     transport/tcp_header.rs    calc_checksum_ipv4(_raw), calc_checksum_ipv6(_raw)
     transport/tcp_header_slice.rs  the same four on TcpHeaderSlice (+ from_slice)
     transport/tcp_slice.rs     TcpSlice::calc_checksum_ipv4 / _ipv6
     transport/icmpv4_type.rs   Icmpv4Type::calc_checksum
     transport/icmpv4_header.rs with_checksum / update_checksum (= calc_checksum)
     transport/icmpv6_type.rs   Icmpv6Type::calc_checksum
     transport/icmpv6_header.rs with_checksum / update_checksum (= calc_checksum)
     transport/icmpv6_slice.rs  Icmpv6Slice::is_checksum_valid
     transport/igmp_header.rs   IgmpHeader::calc_checksum / with_checksum
     transport/transport_header.rs  update_checksum_ipv4 / update_checksum_ipv6 *)
From EP Require Import Base.Bytes Gen.Consts Checksum.Model Checksum.ProtoTypes.
Local Open Scope N_scope.

Definition U16MAX : N := 65535.
Definition U32MAX : N := 4294967295.
Definition as_u8 (v : N) : N := v mod 256.
Definition as_u16 (v : N) : N := v mod 65536.
Definition as_u32 (v : N) : N := v mod 4294967296.

(* add_2bytes(v.to_be_bytes()) for a u16, add_4bytes(v.to_be_bytes()) for a u32,
   add_4bytes(addr) for a [u8;4] *)
Definition P2w (v : N) : piece := P2 ((v / 256) mod 256) (v mod 256).
Definition P4w (v : N) : piece :=
  P4 ((v / 16777216) mod 256) ((v / 65536) mod 256) ((v / 256) mod 256) (v mod 256).
Definition P4a (a : ip4) : piece := let '(a0, a1, a2, a3) := a in P4 a0 a1 a2 a3.

Definition cres_map (f : N -> N) (r : cres) : cres :=
  match r with COk v => COk (f v) | CErrTooBig a m => CErrTooBig a m | CPanic => CPanic end.

(* ---------------------------------------------------------------------- *)
(* Ipv4Header::calc_header_checksum                                         *)

(* (self.options.len_u8() / 4) + 5 *)
Definition ipv4_ihl_m (h : ipv4_hdr) : N := as_u8 (as_u8 (len (v4_options h)) / 4 + 5).

Definition ipv4_flags_byte (h : ipv4_hdr) : N :=
  let r0 := 0 in
  let r1 := if v4_df h then N.lor r0 64 else r0 in
  let r2 := if v4_mf h then N.lor r1 32 else r1 in
  r2.

Definition ipv4_header_pieces (h : ipv4_hdr) : list piece :=
  [ P2 (N.lor (as_u8 (N.shiftl 4 4)) (ipv4_ihl_m h))
       (N.lor (as_u8 (N.shiftl (v4_dscp h) 2)) (v4_ecn h));
    P2w (v4_total_len h);
    P2w (v4_ident h);
    (* [flags | (frag_off_be[0] & 0x1f), frag_off_be[1]] *)
    P2 (N.lor (ipv4_flags_byte h) (N.land ((v4_frag_off h / 256) mod 256) 31))
       (v4_frag_off h mod 256);
    P2 (v4_ttl h) (v4_proto h);
    P4a (v4_src h);
    P4a (v4_dst h);
    PSlice (v4_options h) ].

Definition ipv4_calc_header_checksum e (h : ipv4_hdr) : N :=
  checksum64 e (ipv4_header_pieces h).

(* ---------------------------------------------------------------------- *)
(* UdpHeader                                                                *)

(* calc_checksum_post_ip: ports, self.length, payload *)
Definition udp_post_ip (h : udp_hdr) (payload : bytes) : list piece :=
  [P2w (u_sport h); P2w (u_dport h); P2w (u_length h); PSlice payload].

(* NOTE: the pseudo header is fed self.length (the header field), not
   8 + payload.len() *)
Definition udp_pseudo4 (h : udp_hdr) (src dst : ip4) : list piece :=
  [P4a src; P4a dst; P2 0 IPN_UDP; P2w (u_length h)].
Definition udp_pseudo6 (h : udp_hdr) (src dst : bytes) : list piece :=
  [P16 src; P16 dst; P2 0 IPN_UDP; P2w (u_length h)].

Definition udp_calc_checksum_ipv4_internal e h src dst payload : N :=
  checksum64_no_zero e (udp_pseudo4 h src dst ++ udp_post_ip h payload).
Definition udp_calc_checksum_ipv6_internal e h src dst payload : N :=
  checksum64_no_zero e (udp_pseudo6 h src dst ++ udp_post_ip h payload).

(* calc_checksum_ipv4 = calc_checksum_ipv4_raw(ip_header.source, .destination) *)
Definition udp_calc_checksum_ipv4_raw e (h : udp_hdr) (src dst : ip4) (payload : bytes) : cres :=
  let max_payload := U16MAX - UDP_LEN in
  if max_payload <? len payload then CErrTooBig (len payload) max_payload
  else COk (udp_calc_checksum_ipv4_internal e h src dst payload).

(* the IPv6 variant only rejects payloads that do not fit 32 bits *)
Definition udp_calc_checksum_ipv6_raw e (h : udp_hdr) (src dst : bytes) (payload : bytes) : cres :=
  let max_payload := U32MAX - UDP_LEN in
  if max_payload <? len payload then CErrTooBig (len payload) max_payload
  else COk (udp_calc_checksum_ipv6_internal e h src dst payload).

(* with_ipv4_checksum / with_ipv6_checksum: returns the header and its checksum *)
Inductive udp_with_res :=
| UWOk (h : udp_hdr) (cksum : N)
| UWErrTooBig (actual max_allowed : N).

Definition udp_with_ipv4_checksum e (sport dport : N) (src dst : ip4) (payload : bytes) : udp_with_res :=
  let max_payload := U16MAX - UDP_LEN in
  if max_payload <? len payload then UWErrTooBig (len payload) max_payload
  else
    let h := {| u_sport := sport; u_dport := dport; u_length := as_u16 (UDP_LEN + len payload) |} in
    UWOk h (udp_calc_checksum_ipv4_internal e h src dst payload).

Definition udp_with_ipv6_checksum e (sport dport : N) (src dst : bytes) (payload : bytes) : udp_with_res :=
  let max_payload := U16MAX - UDP_LEN in
  if max_payload <? len payload then UWErrTooBig (len payload) max_payload
  else
    let h := {| u_sport := sport; u_dport := dport; u_length := as_u16 (UDP_LEN + len payload) |} in
    UWOk h (udp_calc_checksum_ipv6_internal e h src dst payload).

(* ---------------------------------------------------------------------- *)
(* TcpHeader                                                                *)

Definition tcp_header_len_m (h : tcp_hdr) : N := 20 + len (t_options h).      (* usize *)
Definition tcp_header_len_u16 (h : tcp_hdr) : N := as_u16 (20 + as_u8 (len (t_options h))).
(* TcpOptions::data_offset: MIN_DATA_OFFSET + (self.len >> 2), u8 *)
Definition tcp_data_offset_m (h : tcp_hdr) : N :=
  as_u8 (5 + N.shiftr (as_u8 (len (t_options h))) 2).

Definition tcp_byte12 (h : tcp_hdr) : N :=
  let value := N.land (as_u8 (N.shiftl (tcp_data_offset_m h) 4)) 240 in
  if t_ns h then N.lor value 1 else value.

Definition tcp_byte13 (h : tcp_hdr) : N :=
  let v0 := 0 in
  let v1 := if t_fin h then N.lor v0 1 else v0 in
  let v2 := if t_syn h then N.lor v1 2 else v1 in
  let v3 := if t_rst h then N.lor v2 4 else v2 in
  let v4 := if t_psh h then N.lor v3 8 else v3 in
  let v5 := if t_ack h then N.lor v4 16 else v4 in
  let v6 := if t_urg h then N.lor v5 32 else v5 in
  let v7 := if t_ece h then N.lor v6 64 else v6 in
  let v8 := if t_cwr h then N.lor v7 128 else v7 in
  v8.

Definition tcp_post_ip (h : tcp_hdr) (payload : bytes) : list piece :=
  [ P2w (t_sport h); P2w (t_dport h); P4w (t_seq h); P4w (t_ack_no h);
    P2 (tcp_byte12 h) (tcp_byte13 h);
    P2w (t_window h); P2w (t_urgent h);
    PSlice (t_options h); PSlice payload ].

Definition tcp_calc_checksum_ipv4_raw e (h : tcp_hdr) (src dst : ip4) (payload : bytes) : cres :=
  let max_payload := U16MAX - tcp_header_len_m h in
  if max_payload <? len payload then CErrTooBig (len payload) max_payload
  else
    let tcp_len := as_u16 (tcp_header_len_u16 h + as_u16 (len payload)) in
    COk (checksum64 e ([P4a src; P4a dst; P2 0 IPN_TCP; P2w tcp_len] ++ tcp_post_ip h payload)).

Definition tcp_calc_checksum_ipv6_raw e (h : tcp_hdr) (src dst : bytes) (payload : bytes) : cres :=
  let max_payload := U32MAX - tcp_header_len_m h in
  if max_payload <? len payload then CErrTooBig (len payload) max_payload
  else
    let tcp_len := as_u32 (tcp_header_len_u16 h + as_u32 (len payload)) in
    COk (checksum64 e ([P16 src; P16 dst; P4w tcp_len; P2 0 IPN_TCP] ++ tcp_post_ip h payload)).

(* ---------------------------------------------------------------------- *)
(* TcpHeaderSlice                                                           *)

(* from_slice: the header slice is cut to (byte 12 & 0xf0) >> 2 bytes *)
Definition tcp_header_slice_from_slice (bs : bytes) : option bytes :=
  if len bs <? TCP_MIN_LEN then None
  else match rd bs 12 with
       | None => None
       | Some b12 =>
           let header_len := N.shiftr (N.land b12 240) 2 in
           if header_len <? TCP_MIN_LEN then None
           else if len bs <? header_len then None
           else Some (take header_len bs)
       end.

(* calc_checksum_post_ip: &slice[..16], &slice[18..slice.len()], payload *)
Definition tcp_hslice_calc_checksum_ipv4_raw e (hdr : bytes) (src dst : ip4) (payload : bytes) : cres :=
  let header_len := as_u16 (len hdr) in
  let max_payload := U16MAX - header_len in
  if max_payload <? len payload then CErrTooBig (len payload) max_payload
  else
    let tcp_len := as_u16 (header_len + as_u16 (len payload)) in
    if len hdr <? 18 then CPanic       (* slice[..16] / slice[18..] out of range *)
    else COk (checksum64 e ([P4a src; P4a dst; P2 0 IPN_TCP; P2w tcp_len] ++
                            [PSlice (take 16 hdr); PSlice (drop 18 hdr); PSlice payload])).

Definition tcp_hslice_calc_checksum_ipv6_raw e (hdr : bytes) (src dst : bytes) (payload : bytes) : cres :=
  let header_len := as_u32 (len hdr) in
  let max_payload := U32MAX - header_len in
  if max_payload <? len payload then CErrTooBig (len payload) max_payload
  else
    let tcp_len := as_u32 (header_len + as_u32 (len payload)) in
    if len hdr <? 18 then CPanic
    else COk (checksum64 e ([P16 src; P16 dst; P2 0 IPN_TCP; P4w tcp_len] ++
                            [PSlice (take 16 hdr); PSlice (drop 18 hdr); PSlice payload])).

(* ---------------------------------------------------------------------- *)
(* TcpSlice (header and payload in one slice)                               *)

Definition tcp_slice_calc_checksum_ipv4 e (slice : bytes) (src dst : ip4) : cres :=
  if U16MAX <? len slice then CErrTooBig (len slice) U16MAX
  else if len slice <? 18 then CPanic
  else COk (checksum64 e ([P4a src; P4a dst; P2 0 IPN_TCP; P2w (as_u16 (len slice))] ++
                          [PSlice (take 16 slice); PSlice (drop 18 slice)])).

Definition tcp_slice_calc_checksum_ipv6 e (slice : bytes) (src dst : bytes) : cres :=
  if U32MAX <? len slice then CErrTooBig (len slice) U32MAX
  else if len slice <? 18 then CPanic
  else COk (checksum64 e ([P16 src; P16 dst; P2 0 IPN_TCP; P4w (as_u32 (len slice))] ++
                          [PSlice (take 16 slice); PSlice (drop 18 slice)])).

(* ---------------------------------------------------------------------- *)
(* Icmpv4Type::calc_checksum  (icmpv4::TYPE_* / CODE_* constants as literals) *)

Definition icmp4_pieces (t : icmp4_type) : list piece :=
  match t with
  | I4Unknown ty code b5 b6 b7 b8 => [P2 ty code; P4 b5 b6 b7 b8]
  | I4EchoReply id seq => [P2 0 0; P2w id; P2w seq]
  | I4DestUnreach code => [P2 3 code]
  | I4FragNeeded mtu => [P2 3 4; P2w mtu]
  | I4Redirect code gw => [P2 5 code; P4a gw]
  | I4EchoRequest id seq => [P2 8 0; P2w id; P2w seq]
  | I4TimeExceeded code => [P2 11 code]
  | I4ParamPointer p => [P2 12 0; P2 p 0]
  | I4ParamOther code => [P2 12 code]
  | I4TimestampRequest id seq o r tr => [P2 13 0; P2w id; P2w seq; P4w o; P4w r; P4w tr]
  | I4TimestampReply id seq o r tr => [P2 14 0; P2w id; P2w seq; P4w o; P4w r; P4w tr]
  end.

(* also Icmpv4Header::with_checksum(..).checksum and update_checksum *)
Definition icmp4_calc_checksum e (t : icmp4_type) (payload : bytes) : N :=
  checksum64 e (icmp4_pieces t ++ [PSlice payload]).

(* ---------------------------------------------------------------------- *)
(* Icmpv6Type::calc_checksum                                                *)

Definition icmp6_header_len (t : icmp6_type) : N := 8.

Definition ra_flags (m o : bool) : N := N.lor (if m then 128 else 0) (if o then 64 else 0).
Definition na_first_byte (r s o : bool) : N :=
  let b0 := 0 in
  let b1 := if r then N.lor b0 128 else b0 in
  let b2 := if s then N.lor b1 64 else b1 in
  let b3 := if o then N.lor b2 32 else b2 in
  b3.

Definition icmp6_pieces (t : icmp6_type) : list piece :=
  match t with
  | I6Unknown ty code b5 b6 b7 b8 => [P2 ty code; P4 b5 b6 b7 b8]
  | I6DestUnreach code => [P2 1 code]
  | I6PacketTooBig mtu => [P2 2 0; P4w mtu]
  | I6TimeExceeded code => [P2 3 code]
  | I6ParamProblem code p => [P2 4 code; P4w p]
  | I6EchoRequest id seq =>
      [P2 128 0; P4 ((id / 256) mod 256) (id mod 256) ((seq / 256) mod 256) (seq mod 256)]
  | I6EchoReply id seq =>
      [P2 129 0; P4 ((id / 256) mod 256) (id mod 256) ((seq / 256) mod 256) (seq mod 256)]
  | I6RouterSolicitation => [P2 133 0; P4 0 0 0 0]
  | I6RouterAdvertisement chl m o lt =>
      [P2 134 0; P4 chl (ra_flags m o) ((lt / 256) mod 256) (lt mod 256)]
  | I6NeighborSolicitation => [P2 135 0; P4 0 0 0 0]
  | I6NeighborAdvertisement r s o => [P2 136 0; P4 (na_first_byte r s o) 0 0 0]
  | I6Redirect => [P2 137 0; P4 0 0 0 0]
  end.

Definition icmp6_calc_checksum e (t : icmp6_type) (src dst : bytes) (payload : bytes) : cres :=
  let max_payload_len := U32MAX - icmp6_header_len t in
  if max_payload_len <? len payload then CErrTooBig (len payload) max_payload_len
  else
    let msg_len := len payload + icmp6_header_len t in
    COk (checksum64 e ([P16 src; P16 dst; P2 0 IPN_ICMPV6; P4w (as_u32 msg_len)] ++
                       icmp6_pieces t ++ [PSlice payload])).

(* Icmpv6Slice::is_checksum_valid: sums pseudo header and the whole slice
   (checksum field included) and compares ones_complement() with 0.  The
   narrowing `slice.len() as u32` is lossless for every slice accepted by
   Icmpv6Slice::from_slice (8 <= len <= u32::MAX); it is modelled as mod 2^32. *)
Definition icmp6_is_checksum_valid e (slice : bytes) (src dst : bytes) : bool :=
  U64.ones_complement
    (sum_pieces64 e 0 [P16 src; P16 dst; P4w (as_u32 (len slice)); P2 0 IPN_ICMPV6; PSlice slice])
  =? 0.

(* ---------------------------------------------------------------------- *)
(* IgmpHeader::calc_checksum (igmp::IGMP*_TYPE_* constants as literals)     *)

Definition igmp_pieces (t : igmp_type) : list piece :=
  match t with
  | GQuery m g => [P2 17 m; P4a g]
  | GQueryWithSources m g r q n => [P2 17 m; P4a g; P2 r q; P2w n]
  | GReportV1 g => [P2 18 0; P4a g]
  | GReportV2 g => [P2 22 0; P4a g]
  | GReportV3 f0 f1 n => [P2 34 0; P2 f0 f1; P2w n]
  | GLeaveGroup g => [P2 23 0; P4a g]
  | GUnknown ty r1 r => [P2 ty r1; P4a r]
  end.

(* also IgmpHeader::with_checksum(..).checksum *)
Definition igmp_calc_checksum e (t : igmp_type) (payload : bytes) : N :=
  checksum64 e (igmp_pieces t ++ [PSlice payload]).

(* ---------------------------------------------------------------------- *)
(* TransportHeader::update_checksum_ipv4 / _ipv6: the value stored           *)

Definition upd_of (r : cres) : upd_res :=
  match r with
  | COk v => UpdOk v
  | CErrTooBig a m => UpdErrPayloadLen a m
  | CPanic => UpdPanic
  end.

Definition update_checksum_ipv4 e (th : transport_hdr) (src dst : ip4) (payload : bytes) : upd_res :=
  match th with
  | THUdp h => upd_of (udp_calc_checksum_ipv4_raw e h src dst payload)
  | THTcp h => upd_of (tcp_calc_checksum_ipv4_raw e h src dst payload)
  | THIcmp4 t => UpdOk (icmp4_calc_checksum e t payload)
  | THIcmp6 _ => UpdErrIcmpv6InIpv4
  end.

Definition update_checksum_ipv6 e (th : transport_hdr) (src dst : bytes) (payload : bytes) : upd_res :=
  match th with
  | THIcmp4 t => UpdOk (icmp4_calc_checksum e t payload)
  | THIcmp6 t => upd_of (icmp6_calc_checksum e t src dst payload)
  | THUdp h => upd_of (udp_calc_checksum_ipv6_raw e h src dst payload)
  | THTcp h => upd_of (tcp_calc_checksum_ipv6_raw e h src dst payload)
  end.
