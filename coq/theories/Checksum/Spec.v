(* Checksum/Spec.v -- RFC 1071 Internet checksum, written from the RFC text.
   "(1) Adjacent octets to be checksummed are paired to form 16-bit integers,
        and the 1's complement sum of these 16-bit integers is formed.
    (2) ... the 1's complement of this sum is placed in the checksum field."
   Odd length: the last octet is padded on the right with zero. *)
From EP Require Import Base.Bytes.

(* plain (unbounded) sum of the big-endian 16-bit words *)
Fixpoint sum_be16 (bs : bytes) : N :=
  match bs with
  | [] => 0
  | [a] => a * 256
  | a :: b :: r => (a * 256 + b) + sum_be16 r
  end.

(* one's complement folding of an unbounded sum into 16 bits, closed form:
   0 stays 0, every other value is mapped to its representative in 1..65535 *)
Definition fold16 (x : N) : N := if x =? 0 then 0 else (x - 1) mod 65535 + 1.

(* the RFC's procedure: "add the carries back in until the value fits" *)
Fixpoint fold_carry (fuel : nat) (x : N) : N :=
  match fuel with
  | O => x
  | S f => if x <? 65536 then x else fold_carry f (x / 65536 + x mod 65536)
  end.

Definition rfc1071 (bs : bytes) : N := 65535 - fold16 (sum_be16 bs).

(* the sum "folds to 0xffff": what a receiver verifies *)
Definition folds_to_ffff (bs : bytes) : bool := fold16 (sum_be16 bs) =? 65535.
