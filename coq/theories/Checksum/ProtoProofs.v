(* Checksum/ProtoProofs.v -- every protocol checksum function of Proto.v
   computes the value ProtoSpec.v prescribes.  Each theorem is an instance of
   checksum64_rfc1071: the pieces are well formed, only the last piece may have
   odd length, and the big-endian word sum of the bytes fed equals the word sum
   of the RFC byte string (checksum field zero). *)
From EP Require Import Base.Bytes Gen.Consts Checksum.Spec Checksum.Model Checksum.Proofs
  Checksum.ProtoTypes Checksum.ProtoSpec Checksum.Proto.
From Coq Require Import ZArith Lia ZifyN ZifyBool.
Local Open Scope N_scope.

(* ------------------------------------------------------------------ *)
(* generic reduction to word sums                                       *)

Lemma rfc1071_sum_eq a b : sum_be16 a = sum_be16 b -> rfc1071 a = rfc1071 b.
Proof. unfold rfc1071. now intros ->. Qed.

Lemma proto_core e ps wire :
  Forall piece_ok ps -> pieces_aligned ps ->
  sum_be16 (pieces_bytes ps) = sum_be16 wire ->
  checksum64 e ps = rfc1071 wire.
Proof.
  intros H1 H2 H3. rewrite checksum64_rfc1071 by assumption. now apply rfc1071_sum_eq.
Qed.

Lemma proto_core_nz e ps wire :
  Forall piece_ok ps -> pieces_aligned ps ->
  sum_be16 (pieces_bytes ps) = sum_be16 wire ->
  checksum64_no_zero e ps = no_zero (rfc1071 wire).
Proof.
  intros H1 H2 H3. rewrite checksum64_no_zero_spec by assumption.
  rewrite (rfc1071_sum_eq _ _ H3). reflexivity.
Qed.

(* finite sweeps *)
Fixpoint upto (n : nat) : list N :=
  match n with O => [] | S k => N.of_nat k :: upto k end.

Lemma upto_in n x : x < N.of_nat n -> In x (upto n).
Proof.
  induction n as [|k IH]; intros H; [lia|].
  cbn [upto]. destruct (N.eq_dec x (N.of_nat k)) as [->|Hn]; [now left|].
  right. apply IH. lia.
Qed.

Lemma sweep1 n (f : N -> bool) :
  forallb f (upto n) = true -> forall x, x < N.of_nat n -> f x = true.
Proof. intros H x Hx. rewrite forallb_forall in H. apply H. now apply upto_in. Qed.

Lemma sweep2 n m (f : N -> N -> bool) :
  forallb (fun x => forallb (f x) (upto m)) (upto n) = true ->
  forall x y, x < N.of_nat n -> y < N.of_nat m -> f x y = true.
Proof.
  intros H x y Hx Hy. rewrite forallb_forall in H.
  specialize (H x (upto_in _ _ Hx)). now apply (sweep1 m (f x)).
Qed.

(* even lengths *)
Lemma even_len_of_len (bs : bytes) k : len bs = 2 * k -> even_len bs.
Proof.
  unfold len, even_len. intros H. apply Nat.even_spec. exists (N.to_nat k). lia.
Qed.

Lemma even_len_mod4 (bs : bytes) : len bs mod 4 = 0 -> even_len bs.
Proof.
  intros H. apply even_len_of_len with (k := 2 * (len bs / 4)).
  pose proof (N.div_mod (len bs) 4 ltac:(lia)). lia.
Qed.

Lemma even_len_16 (bs : bytes) : length bs = 16%nat -> even_len bs.
Proof. unfold even_len. now intros ->. Qed.

Lemma even_len_take16 (bs : bytes) : 16 <= len bs -> even_len (take 16 bs).
Proof.
  intros H. apply even_len_of_len with (k := 8). rewrite len_take.
  rewrite N.min_l by lia. reflexivity.
Qed.

Lemma even_len_drop18 (bs : bytes) : 18 <= len bs -> len bs mod 4 = 0 -> even_len (drop 18 bs).
Proof.
  intros H H4. apply even_len_of_len with (k := 2 * (len bs / 4) - 9). rewrite len_drop.
  pose proof (N.div_mod (len bs) 4 ltac:(lia)). lia.
Qed.

(* big-endian fields *)
Lemma to_be32_small v : v < 65536 -> to_be32 v = [0; 0; (v / 256) mod 256; v mod 256].
Proof.
  intros H. unfold to_be32.
  rewrite (N.div_small v 16777216), (N.div_small v 65536) by lia. reflexivity.
Qed.

Lemma byte_mod x : x mod 256 < 256.
Proof. apply N.mod_lt. lia. Qed.

#[global] Hint Resolve byte_mod : core.

(* ------------------------------------------------------------------ *)
(* tactics                                                              *)

Ltac evl :=
  first [ assumption | reflexivity
        | apply even_len_16; assumption
        | apply even_len_mod4; assumption
        | apply even_len_take16; lia
        | apply even_len_drop18; [lia | assumption] ].

Ltac byte_goal :=
  unfold byte_ok;
  first [ assumption | apply byte_mod | lia ].

Ltac bytes_goal :=
  first [ assumption
        | repeat (apply Forall_cons; [byte_goal|]); apply Forall_nil ].

Ltac piece_goal :=
  unfold piece_ok; cbn [piece_bytes P2w P4w P4a];
  split; [ first [assumption | apply bytes_ok_take; assumption | apply bytes_ok_drop; assumption | bytes_goal]
         | first [exact I | assumption] ].

Ltac pieces_ok_goal :=
  cbn [app]; repeat (apply Forall_cons; [piece_goal|]); apply Forall_nil.

Ltac aligned_goal :=
  cbn [app pieces_aligned piece_bytes]; repeat split; evl.

Ltac sums :=
  repeat first [ rewrite sum_be16_cons2
               | rewrite sum_be16_app by evl
               | rewrite app_nil_r ];
  cbn [sum_be16].

Ltac open_ip4 a H :=
  let a0 := fresh a "0" in let a1 := fresh a "1" in let a2 := fresh a "2" in let a3 := fresh a "3" in
  destruct a as [[[a0 a1] a2] a3]; unfold ip4_ok in H; cbn [ip4_bytes] in H;
  apply bytes_ok_cons in H; destruct H as [? H];
  apply bytes_ok_cons in H; destruct H as [? H];
  apply bytes_ok_cons in H; destruct H as [? H];
  apply bytes_ok_cons in H; destruct H as [? _];
  unfold byte_ok in *.

(* ------------------------------------------------------------------ *)
(* IPv4 header                                                          *)

Lemma lor64 x : x < 16 -> N.lor 64 x = 64 + x.
Proof.
  intros H. apply N.eqb_eq.
  exact (sweep1 16 (fun x => N.lor 64 x =? 64 + x) ltac:(vm_compute; reflexivity) x H).
Qed.

Lemma dscp_ecn_byte d c : d < 64 -> c < 4 ->
  N.lor (as_u8 (N.shiftl d 2)) c = d * 4 + c.
Proof.
  intros Hd Hc. apply N.eqb_eq.
  exact (sweep2 64 4 (fun d c => N.lor (as_u8 (N.shiftl d 2)) c =? d * 4 + c)
           ltac:(vm_compute; reflexivity) d c Hd Hc).
Qed.

Lemma flags_frag_byte f x : f < 4 -> x < 32 ->
  N.lor (f * 32) (N.land x 31) = f * 32 + x.
Proof.
  intros Hf Hx. apply N.eqb_eq.
  exact (sweep2 4 32 (fun f x => N.lor (f * 32) (N.land x 31) =? f * 32 + x)
           ltac:(vm_compute; reflexivity) f x Hf Hx).
Qed.

Lemma ipv4_flags_byte_val h : ipv4_flags_byte h = (bit (v4_df h) * 2 + bit (v4_mf h)) * 32.
Proof. unfold ipv4_flags_byte. destruct (v4_df h), (v4_mf h); reflexivity. Qed.

Lemma ipv4_ihl_val h : len (v4_options h) <= 40 -> ipv4_ihl_m h = ipv4_ihl h.
Proof.
  intros H. unfold ipv4_ihl_m, ipv4_ihl, as_u8.
  rewrite (N.mod_small (len (v4_options h))) by lia.
  assert (len (v4_options h) / 4 <= 10) by (apply N.div_le_upper_bound; lia).
  rewrite N.mod_small by lia. lia.
Qed.

Ltac dm := zify; Z.div_mod_to_equations; lia.

Theorem ipv4_header_checksum_correct e h :
  ipv4_hdr_ok h -> ipv4_calc_header_checksum e h = ipv4_header_checksum_spec h.
Proof.
  intros (Hd & Hec & Htl & Hid & Hfo & Httl & Hpr & Hs & Hdst & Hopt & Hol & Ho4).
  unfold ipv4_calc_header_checksum, ipv4_header_checksum_spec, ipv4_header_pieces, ipv4_wire.
  destruct h as [dscp ecn tl ident df mf fo ttl proto src dst opts]; cbn [v4_dscp v4_ecn v4_total_len
    v4_ident v4_df v4_mf v4_frag_off v4_ttl v4_proto v4_src v4_dst v4_options] in *.
  open_ip4 src Hs. open_ip4 dst Hdst.
  set (hh := {| v4_dscp := dscp; v4_ecn := ecn; v4_total_len := tl; v4_ident := ident; v4_df := df;
                v4_mf := mf; v4_frag_off := fo; v4_ttl := ttl; v4_proto := proto;
                v4_src := (src0, src1, src2, src3); v4_dst := (dst0, dst1, dst2, dst3);
                v4_options := opts |}).
  assert (Hihl : ipv4_ihl_m hh = ipv4_ihl hh) by (apply ipv4_ihl_val; exact Hol).
  assert (Hihl15 : ipv4_ihl hh < 16).
  { unfold ipv4_ihl, hh; cbn [v4_options].
    assert (len opts / 4 <= 10) by (apply N.div_le_upper_bound; lia). lia. }
  rewrite Hihl. change (as_u8 (N.shiftl 4 4)) with 64.
  rewrite lor64 by exact Hihl15.
  rewrite dscp_ecn_byte by assumption.
  rewrite ipv4_flags_byte_val. subst hh; cbn [v4_df v4_mf].
  assert (Hfh : (fo / 256) mod 256 = fo / 256 /\ fo / 256 < 32) by dm.
  destruct Hfh as [Hfh1 Hfh2]. rewrite Hfh1.
  rewrite flags_frag_byte by (try assumption; destruct df, mf; cbn [bit]; lia).
  assert (Hb6 : (bit df * 2 + bit mf) * 32 + fo / 256 < 256) by (destruct df, mf; cbn [bit]; lia).
  apply proto_core.
  - pieces_ok_goal.
  - aligned_goal.
  - cbn [pieces_bytes concat map piece_bytes app P2w P4w P4a w16 w32 to_be16 to_be32 ip4_bytes].
    sums. unfold be16.
    assert (E1 : ((bit df * 16384 + bit mf * 8192 + fo) / 256) mod 256 =
                 (bit df * 2 + bit mf) * 32 + fo / 256) by (destruct df, mf; cbn [bit]; dm).
    assert (E2 : (bit df * 16384 + bit mf * 8192 + fo) mod 256 = fo mod 256)
      by (destruct df, mf; cbn [bit]; dm).
    rewrite E1, E2. change (4 * 16) with 64. lia.
Qed.

(* ------------------------------------------------------------------ *)
(* UDP                                                                  *)

Ltac ands := repeat match goal with H : _ /\ _ |- _ => destruct H end.
Ltac open_all_ip4 :=
  repeat match goal with H : ip4_ok ?a |- _ => is_var a; open_ip4 a H end.
Ltac expand_bytes :=
  unfold w16, w32, to_be16, to_be32, P2w, P4w;
  cbn [pieces_bytes concat map piece_bytes app P2w P4w P4a w16 w32 to_be16 to_be32 ip4_bytes];
  rewrite <- ?app_assoc; cbn [app].
Ltac zero16 := change (w16 0) with [0; 0] in *.

Lemma udp4_internal_correct e h src dst payload :
  udp_hdr_ok h -> ip4_ok src -> ip4_ok dst -> bytes_ok payload ->
  udp_calc_checksum_ipv4_internal e h src dst payload = udp4_spec src dst h (u_length h) payload.
Proof.
  intros Hh Hs Hd Hp. destruct h as [sp dp l]. unfold udp_hdr_ok in Hh; cbn [u_sport u_dport u_length] in *.
  ands. open_all_ip4.
  unfold udp_calc_checksum_ipv4_internal, udp4_spec, udp_pseudo4, udp_post_ip, pseudo4, udp_wire.
  cbn [u_sport u_dport u_length]. change IPN_UDP with 17. zero16.
  apply proto_core_nz.
  - pieces_ok_goal.
  - aligned_goal.
  - expand_bytes. sums. unfold be16. lia.
Qed.

Lemma udp6_internal_correct e h src dst payload :
  udp_hdr_ok h -> ip6_ok src -> ip6_ok dst -> bytes_ok payload ->
  udp_calc_checksum_ipv6_internal e h src dst payload = udp6_spec src dst h (u_length h) payload.
Proof.
  intros Hh [Hs Hs16] [Hd Hd16] Hp. destruct h as [sp dp l].
  unfold udp_hdr_ok in Hh; cbn [u_sport u_dport u_length] in *. ands.
  unfold udp_calc_checksum_ipv6_internal, udp6_spec, udp_pseudo6, udp_post_ip, pseudo6, udp_wire.
  cbn [u_sport u_dport u_length]. change IPN_UDP with 17. zero16.
  unfold w32. rewrite to_be32_small by assumption.
  apply proto_core_nz.
  - pieces_ok_goal.
  - aligned_goal.
  - expand_bytes. sums. unfold be16. lia.
Qed.

Theorem udp_ipv4_raw_correct e h src dst payload :
  udp_hdr_ok h -> ip4_ok src -> ip4_ok dst -> bytes_ok payload ->
  udp_calc_checksum_ipv4_raw e h src dst payload =
    if 65527 <? len payload then CErrTooBig (len payload) 65527
    else COk (udp4_spec src dst h (u_length h) payload).
Proof.
  intros. unfold udp_calc_checksum_ipv4_raw. change (U16MAX - UDP_LEN) with 65527.
  destruct (65527 <? len payload); [reflexivity|]. f_equal. now apply udp4_internal_correct.
Qed.

Theorem udp_ipv6_raw_correct e h src dst payload :
  udp_hdr_ok h -> ip6_ok src -> ip6_ok dst -> bytes_ok payload ->
  udp_calc_checksum_ipv6_raw e h src dst payload =
    if 4294967287 <? len payload then CErrTooBig (len payload) 4294967287
    else COk (udp6_spec src dst h (u_length h) payload).
Proof.
  intros. unfold udp_calc_checksum_ipv6_raw. change (U32MAX - UDP_LEN) with 4294967287.
  destruct (4294967287 <? len payload); [reflexivity|]. f_equal. now apply udp6_internal_correct.
Qed.

(* the constructors set length := 8 + |payload| themselves: unconditional *)
Definition udp_hdr_for (sport dport : N) (payload : bytes) : udp_hdr :=
  {| u_sport := sport; u_dport := dport; u_length := 8 + len payload |}.

Theorem udp_with_ipv4_correct e sport dport src dst payload :
  sport < 65536 -> dport < 65536 -> ip4_ok src -> ip4_ok dst -> bytes_ok payload ->
  udp_with_ipv4_checksum e sport dport src dst payload =
    if 65527 <? len payload then UWErrTooBig (len payload) 65527
    else let h := udp_hdr_for sport dport payload in
         UWOk h (udp4_spec src dst h (8 + len payload) payload).
Proof.
  intros Hsp Hdp Hs Hd Hp. unfold udp_with_ipv4_checksum. change (U16MAX - UDP_LEN) with 65527.
  destruct (65527 <? len payload) eqn:E; [reflexivity|]. apply N.ltb_ge in E.
  change UDP_LEN with 8. unfold as_u16. rewrite N.mod_small by lia. cbn zeta.
  fold (udp_hdr_for sport dport payload). f_equal.
  rewrite udp4_internal_correct; try assumption; [reflexivity|].
  unfold udp_hdr_ok, udp_hdr_for; cbn [u_sport u_dport u_length]. lia.
Qed.

Theorem udp_with_ipv6_correct e sport dport src dst payload :
  sport < 65536 -> dport < 65536 -> ip6_ok src -> ip6_ok dst -> bytes_ok payload ->
  udp_with_ipv6_checksum e sport dport src dst payload =
    if 65527 <? len payload then UWErrTooBig (len payload) 65527
    else let h := udp_hdr_for sport dport payload in
         UWOk h (udp6_spec src dst h (8 + len payload) payload).
Proof.
  intros Hsp Hdp Hs Hd Hp. unfold udp_with_ipv6_checksum. change (U16MAX - UDP_LEN) with 65527.
  destruct (65527 <? len payload) eqn:E; [reflexivity|]. apply N.ltb_ge in E.
  change UDP_LEN with 8. unfold as_u16. rewrite N.mod_small by lia. cbn zeta.
  fold (udp_hdr_for sport dport payload). f_equal.
  rewrite udp6_internal_correct; try assumption; [reflexivity|].
  unfold udp_hdr_ok, udp_hdr_for; cbn [u_sport u_dport u_length]. lia.
Qed.

(* a computed UDP checksum is never 0 *)
Lemma no_zero_nonzero v : no_zero v <> 0.
Proof. unfold no_zero. destruct (v =? 0) eqn:E; [lia|]. now apply N.eqb_neq in E. Qed.

Theorem udp_nonzero e h sport dport src4 dst4 src6 dst6 payload :
  udp_hdr_ok h -> sport < 65536 -> dport < 65536 ->
  ip4_ok src4 -> ip4_ok dst4 -> ip6_ok src6 -> ip6_ok dst6 -> bytes_ok payload ->
  (forall v, udp_calc_checksum_ipv4_raw e h src4 dst4 payload = COk v -> v <> 0) /\
  (forall v, udp_calc_checksum_ipv6_raw e h src6 dst6 payload = COk v -> v <> 0) /\
  (forall h' v, udp_with_ipv4_checksum e sport dport src4 dst4 payload = UWOk h' v -> v <> 0) /\
  (forall h' v, udp_with_ipv6_checksum e sport dport src6 dst6 payload = UWOk h' v -> v <> 0).
Proof.
  intros. repeat split.
  - intros v. rewrite udp_ipv4_raw_correct by assumption.
    destruct (65527 <? len payload); [discriminate|]. intros [= <-]. apply no_zero_nonzero.
  - intros v. rewrite udp_ipv6_raw_correct by assumption.
    destruct (4294967287 <? len payload); [discriminate|]. intros [= <-]. apply no_zero_nonzero.
  - intros h' v. rewrite udp_with_ipv4_correct by assumption.
    destruct (65527 <? len payload); [discriminate|]. cbn zeta. intros [= _ <-]. apply no_zero_nonzero.
  - intros h' v. rewrite udp_with_ipv6_correct by assumption.
    destruct (65527 <? len payload); [discriminate|]. cbn zeta. intros [= _ <-]. apply no_zero_nonzero.
Qed.

(* ------------------------------------------------------------------ *)
(* TCP (header struct)                                                  *)

Lemma tcp_byte12_sweep :
  forallb (fun l =>
     let doff := as_u8 (5 + N.shiftr (as_u8 l) 2) in
     let value := N.land (as_u8 (N.shiftl doff 4)) 240 in
     (N.lor value 1 =? (5 + l / 4) * 16 + 1) && (value =? (5 + l / 4) * 16)) (upto 41) = true.
Proof. vm_compute. reflexivity. Qed.

Lemma tcp_byte12_val h : len (t_options h) <= 40 ->
  tcp_byte12 h = tcp_data_offset h * 16 + bit (t_ns h).
Proof.
  intros H. pose proof (sweep1 41 _ tcp_byte12_sweep (len (t_options h)) ltac:(lia)) as S.
  cbn zeta in S. apply andb_true_iff in S. destruct S as [S1 S2].
  apply N.eqb_eq in S1. apply N.eqb_eq in S2.
  unfold tcp_byte12, tcp_data_offset_m, tcp_data_offset. destruct (t_ns h); cbn [bit]; lia.
Qed.

Lemma tcp_byte13_val h :
  tcp_byte13 h = bit (t_cwr h) * 128 + bit (t_ece h) * 64 + bit (t_urg h) * 32 + bit (t_ack h) * 16 +
                 bit (t_psh h) * 8 + bit (t_rst h) * 4 + bit (t_syn h) * 2 + bit (t_fin h).
Proof.
  unfold tcp_byte13.
  destruct (t_fin h), (t_syn h), (t_rst h), (t_psh h), (t_ack h), (t_urg h), (t_ece h), (t_cwr h);
    reflexivity.
Qed.

Lemma tcp_byte13_lt h : tcp_byte13 h < 256.
Proof.
  rewrite tcp_byte13_val.
  destruct (t_fin h), (t_syn h), (t_rst h), (t_psh h), (t_ack h), (t_urg h), (t_ece h), (t_cwr h);
    cbn [bit]; lia.
Qed.

Lemma tcp_header_len_u16_val h : len (t_options h) <= 40 -> tcp_header_len_u16 h = tcp_header_len h.
Proof.
  intros H. unfold tcp_header_len_u16, tcp_header_len, as_u16, as_u8.
  rewrite (N.mod_small (len (t_options h))) by lia. rewrite N.mod_small by lia. reflexivity.
Qed.

Section TcpStruct.
  Context (e : endian) (h : tcp_hdr) (payload : bytes).
  Context (Hh : tcp_hdr_ok h) (Hp : bytes_ok payload).

  Lemma tcp_doff_lt : tcp_data_offset h * 16 + bit (t_ns h) < 256.
  Proof.
    destruct Hh as (_ & _ & _ & _ & _ & _ & _ & Hl & _). unfold tcp_data_offset.
    assert (len (t_options h) / 4 <= 10) by (apply N.div_le_upper_bound; lia).
    destruct (t_ns h); cbn [bit]; lia.
  Qed.

  (* the part after the pseudo header *)
  Lemma tcp_post_ip_ok : Forall piece_ok (tcp_post_ip h payload).
  Proof.
    destruct Hh as (H1 & H2 & H3 & H4 & H5 & H6 & H7 & H8 & H9).
    unfold tcp_post_ip. rewrite tcp_byte12_val by assumption.
    pose proof tcp_doff_lt. pose proof (tcp_byte13_lt h).
    pieces_ok_goal.
  Qed.

  Lemma tcp_post_ip_aligned : pieces_aligned (tcp_post_ip h payload).
  Proof.
    destruct Hh as (H1 & H2 & H3 & H4 & H5 & H6 & H7 & H8 & H9).
    unfold tcp_post_ip. aligned_goal.
  Qed.

  Lemma tcp_post_ip_sum :
    sum_be16 (pieces_bytes (tcp_post_ip h payload)) = sum_be16 (tcp_wire h 0 ++ payload).
  Proof.
    destruct Hh as (H1 & H2 & H3 & H4 & H5 & H6 & H7 & H8 & H9).
    unfold tcp_post_ip, tcp_wire. rewrite tcp_byte12_val, tcp_byte13_val by assumption. zero16.
    expand_bytes. sums. unfold be16. lia.
  Qed.
End TcpStruct.

Lemma Forall_app_intro {A} (P : A -> Prop) l1 l2 : Forall P l1 -> Forall P l2 -> Forall P (l1 ++ l2).
Proof. intros. apply Forall_app. now split. Qed.

Lemma pieces_aligned_app ps qs :
  Forall (fun p => even_len (piece_bytes p)) ps -> pieces_aligned qs -> pieces_aligned (ps ++ qs).
Proof.
  induction ps as [|p r IH]; intros Hf Hq; [exact Hq|].
  inversion Hf as [|? ? Hp Hr]; subst. cbn [app].
  specialize (IH Hr Hq). destruct (r ++ qs) eqn:E.
  - exact I.
  - cbn [pieces_aligned]. split; assumption.
Qed.

Lemma pieces_bytes_app ps qs : pieces_bytes (ps ++ qs) = pieces_bytes ps ++ pieces_bytes qs.
Proof. unfold pieces_bytes. now rewrite map_app, concat_app. Qed.

Lemma even_len_pieces ps :
  Forall (fun p => even_len (piece_bytes p)) ps -> even_len (pieces_bytes ps).
Proof.
  induction 1 as [|p r Hp _ IH]; [reflexivity|].
  unfold pieces_bytes. cbn [map concat]. now apply even_len_app.
Qed.

(* pseudo header pieces (even) followed by the rest *)
Lemma proto_core_pre e pre rest wpre wrest :
  Forall piece_ok pre -> Forall (fun p => even_len (piece_bytes p)) pre ->
  Forall piece_ok rest -> pieces_aligned rest ->
  even_len wpre ->
  sum_be16 (pieces_bytes pre) = sum_be16 wpre ->
  sum_be16 (pieces_bytes rest) = sum_be16 wrest ->
  checksum64 e (pre ++ rest) = rfc1071 (wpre ++ wrest).
Proof.
  intros. apply proto_core.
  - now apply Forall_app_intro.
  - now apply pieces_aligned_app.
  - rewrite pieces_bytes_app. rewrite !sum_be16_app; try assumption; [congruence|].
    now apply even_len_pieces.
Qed.

Ltac even_pieces := repeat (apply Forall_cons; [cbn [piece_bytes P2w P4w P4a]; evl|]); apply Forall_nil.

Theorem tcp_ipv4_raw_correct e h src dst payload :
  tcp_hdr_ok h -> ip4_ok src -> ip4_ok dst -> bytes_ok payload ->
  tcp_calc_checksum_ipv4_raw e h src dst payload =
    if 65535 - tcp_header_len h <? len payload
    then CErrTooBig (len payload) (65535 - tcp_header_len h)
    else COk (tcp4_spec src dst h payload).
Proof.
  intros Hh Hs Hd Hp. unfold tcp_calc_checksum_ipv4_raw.
  change (tcp_header_len_m h) with (tcp_header_len h). change U16MAX with 65535.
  destruct (65535 - tcp_header_len h <? len payload) eqn:E; [reflexivity|]. apply N.ltb_ge in E.
  f_equal.
  assert (Hol : len (t_options h) <= 40) by (unfold tcp_hdr_ok in Hh; tauto).
  rewrite tcp_header_len_u16_val by assumption.
  assert (Hl : as_u16 (tcp_header_len h + as_u16 (len payload)) = tcp_header_len h + len payload).
  { unfold as_u16, tcp_header_len in *. rewrite (N.mod_small (len payload)) by lia.
    rewrite N.mod_small by lia. reflexivity. }
  rewrite Hl. unfold tcp4_spec, pseudo4. open_all_ip4. change IPN_TCP with 6.
  set (L := tcp_header_len h + len payload).
  apply proto_core_pre.
  - pieces_ok_goal.
  - even_pieces.
  - now apply tcp_post_ip_ok.
  - now apply tcp_post_ip_aligned.
  - reflexivity.
  - expand_bytes. sums. unfold be16. lia.
  - now apply tcp_post_ip_sum.
Qed.

Theorem tcp_ipv6_raw_correct e h src dst payload :
  tcp_hdr_ok h -> ip6_ok src -> ip6_ok dst -> bytes_ok payload ->
  tcp_calc_checksum_ipv6_raw e h src dst payload =
    if 4294967295 - tcp_header_len h <? len payload
    then CErrTooBig (len payload) (4294967295 - tcp_header_len h)
    else COk (tcp6_spec src dst h payload).
Proof.
  intros Hh [Hs Hs16] [Hd Hd16] Hp. unfold tcp_calc_checksum_ipv6_raw.
  change (tcp_header_len_m h) with (tcp_header_len h). change U32MAX with 4294967295.
  destruct (4294967295 - tcp_header_len h <? len payload) eqn:E; [reflexivity|]. apply N.ltb_ge in E.
  f_equal.
  assert (Hol : len (t_options h) <= 40) by (unfold tcp_hdr_ok in Hh; tauto).
  rewrite tcp_header_len_u16_val by assumption.
  assert (Hl : as_u32 (tcp_header_len h + as_u32 (len payload)) = tcp_header_len h + len payload).
  { unfold as_u32, tcp_header_len in *. rewrite (N.mod_small (len payload)) by lia.
    rewrite N.mod_small by lia. reflexivity. }
  rewrite Hl. unfold tcp6_spec, pseudo6. change IPN_TCP with 6.
  set (L := tcp_header_len h + len payload).
  apply proto_core_pre.
  - pieces_ok_goal.
  - even_pieces.
  - now apply tcp_post_ip_ok.
  - now apply tcp_post_ip_aligned.
  - apply even_len_app; [evl|]. apply even_len_app; [evl|]. reflexivity.
  - expand_bytes. sums. unfold be16. lia.
  - now apply tcp_post_ip_sum.
Qed.

(* ------------------------------------------------------------------ *)
(* TcpHeaderSlice / TcpSlice                                            *)

Lemma tcp_hl_sweep :
  forallb (fun b => let hl := N.shiftr (N.land b 240) 2 in (hl mod 4 =? 0) && (hl <=? 60)) (upto 256) = true.
Proof. vm_compute. reflexivity. Qed.

(* what TcpHeaderSlice::from_slice hands to the checksum functions *)
Theorem tcp_header_slice_from_slice_ok bs hdr :
  bytes_ok bs -> tcp_header_slice_from_slice bs = Some hdr ->
  tcp_hslice_ok hdr /\ hdr = take (len hdr) bs.
Proof.
  intros Hb. unfold tcp_header_slice_from_slice. change TCP_MIN_LEN with 20.
  destruct (len bs <? 20) eqn:E1; [discriminate|].
  destruct (rd bs 12) as [b12|] eqn:R; [|discriminate].
  pose proof (rd_ok _ _ _ Hb R) as Hb12.
  pose proof (sweep1 256 _ tcp_hl_sweep b12 Hb12) as S. cbn zeta in S.
  set (hl := N.shiftr (N.land b12 240) 2) in *.
  apply andb_true_iff in S. destruct S as [S1 S2]. apply N.eqb_eq in S1. apply N.leb_le in S2.
  destruct (hl <? 20) eqn:E2; [discriminate|].
  destruct (len bs <? hl) eqn:E3; [discriminate|].
  intros [= <-]. apply N.ltb_ge in E2, E3.
  assert (L : len (take hl bs) = hl) by (rewrite len_take; apply N.min_l; lia).
  rewrite L. split; [|reflexivity].
  unfold tcp_hslice_ok. rewrite L. repeat split; try assumption. now apply bytes_ok_take.
Qed.

Lemma take_app_le {A} n (a b : list A) : n <= len a -> take n (a ++ b) = take n a.
Proof.
  unfold take, len. intros H. rewrite firstn_app.
  replace (N.to_nat n - length a)%nat with 0%nat by lia. cbn [firstn]. apply app_nil_r.
Qed.

Lemma drop_app_le {A} n (a b : list A) : n <= len a -> drop n (a ++ b) = drop n a ++ b.
Proof.
  unfold drop, len. intros H. rewrite skipn_app.
  replace (N.to_nat n - length a)%nat with 0%nat by lia. reflexivity.
Qed.

(* pieces of calc_checksum_post_ip on raw bytes vs. the bytes with the checksum zeroed *)
Lemma raw_post_sum hdr data :
  16 <= len hdr ->
  sum_be16 (pieces_bytes [PSlice (take 16 hdr); PSlice (drop 18 hdr ++ data)]) =
  sum_be16 (zero_at 16 hdr ++ data).
Proof.
  intros H. unfold zero_at. change (16 + 2) with 18. expand_bytes.
  rewrite ?app_nil_r.
  rewrite !(sum_be16_app (take 16 hdr)) by evl. rewrite sum_be16_cons2. unfold be16. lia.
Qed.

Theorem tcp_slice_ipv4_correct e hdr data src dst :
  bytes_ok hdr -> bytes_ok data -> 20 <= len hdr -> ip4_ok src -> ip4_ok dst ->
  tcp_slice_calc_checksum_ipv4 e (hdr ++ data) src dst =
    if 65535 <? len hdr + len data then CErrTooBig (len hdr + len data) 65535
    else COk (tcp4_raw_spec src dst hdr data).
Proof.
  intros Hh Hd Hl Hs Hds. unfold tcp_slice_calc_checksum_ipv4. rewrite len_app. change U16MAX with 65535.
  destruct (65535 <? len hdr + len data) eqn:E; [reflexivity|]. apply N.ltb_ge in E.
  destruct (len hdr + len data <? 18) eqn:E2; [apply N.ltb_lt in E2; lia|].
  f_equal. unfold as_u16. rewrite N.mod_small by lia.
  rewrite take_app_le, drop_app_le by lia.
  unfold tcp4_raw_spec, pseudo4. open_all_ip4. change IPN_TCP with 6.
  set (L := len hdr + len data).
  apply proto_core_pre.
  - pieces_ok_goal.
  - even_pieces.
  - apply Forall_cons; [piece_goal|]. apply Forall_cons; [|apply Forall_nil].
    unfold piece_ok. cbn [piece_bytes]. split; [|exact I].
    apply bytes_ok_app. split; [now apply bytes_ok_drop | assumption].
  - aligned_goal.
  - reflexivity.
  - expand_bytes. sums. unfold be16. lia.
  - apply raw_post_sum. lia.
Qed.

Theorem tcp_slice_ipv6_correct e hdr data src dst :
  bytes_ok hdr -> bytes_ok data -> 20 <= len hdr -> ip6_ok src -> ip6_ok dst ->
  tcp_slice_calc_checksum_ipv6 e (hdr ++ data) src dst =
    if 4294967295 <? len hdr + len data then CErrTooBig (len hdr + len data) 4294967295
    else COk (tcp6_raw_spec src dst hdr data).
Proof.
  intros Hh Hd Hl [Hs Hs16] [Hds Hd16]. unfold tcp_slice_calc_checksum_ipv6. rewrite len_app.
  change U32MAX with 4294967295.
  destruct (4294967295 <? len hdr + len data) eqn:E; [reflexivity|]. apply N.ltb_ge in E.
  destruct (len hdr + len data <? 18) eqn:E2; [apply N.ltb_lt in E2; lia|].
  f_equal. unfold as_u32. rewrite N.mod_small by lia.
  rewrite take_app_le, drop_app_le by lia.
  unfold tcp6_raw_spec, pseudo6. change IPN_TCP with 6.
  set (L := len hdr + len data).
  apply proto_core_pre.
  - pieces_ok_goal.
  - even_pieces.
  - apply Forall_cons; [piece_goal|]. apply Forall_cons; [|apply Forall_nil].
    unfold piece_ok. cbn [piece_bytes]. split; [|exact I].
    apply bytes_ok_app. split; [now apply bytes_ok_drop | assumption].
  - aligned_goal.
  - apply even_len_app; [evl|]. apply even_len_app; [evl|]. reflexivity.
  - expand_bytes. sums. unfold be16. lia.
  - apply raw_post_sum. lia.
Qed.

Lemma hslice_post_sum hdr payload :
  16 <= len hdr ->
  sum_be16 (pieces_bytes [PSlice (take 16 hdr); PSlice (drop 18 hdr); PSlice payload]) =
  sum_be16 (zero_at 16 hdr ++ payload).
Proof.
  intros H. rewrite <- raw_post_sum by assumption. f_equal.
  unfold pieces_bytes. cbn [map concat piece_bytes]. rewrite ?app_nil_r. reflexivity.
Qed.

Theorem tcp_hslice_ipv4_correct e hdr src dst payload :
  tcp_hslice_ok hdr -> ip4_ok src -> ip4_ok dst -> bytes_ok payload ->
  tcp_hslice_calc_checksum_ipv4_raw e hdr src dst payload =
    if 65535 - len hdr <? len payload then CErrTooBig (len payload) (65535 - len hdr)
    else COk (tcp4_raw_spec src dst hdr payload).
Proof.
  intros (Hh & H20 & H60 & H4) Hs Hd Hp. unfold tcp_hslice_calc_checksum_ipv4_raw.
  change U16MAX with 65535. unfold as_u16. rewrite (N.mod_small (len hdr)) by lia.
  destruct (65535 - len hdr <? len payload) eqn:E; [reflexivity|]. apply N.ltb_ge in E.
  destruct (len hdr <? 18) eqn:E2; [apply N.ltb_lt in E2; lia|].
  f_equal. rewrite (N.mod_small (len payload)) by lia. rewrite N.mod_small by lia.
  unfold tcp4_raw_spec, pseudo4. open_all_ip4. change IPN_TCP with 6.
  set (L := len hdr + len payload).
  apply proto_core_pre.
  - pieces_ok_goal.
  - even_pieces.
  - pieces_ok_goal.
  - aligned_goal.
  - reflexivity.
  - expand_bytes. sums. unfold be16. lia.
  - apply hslice_post_sum. lia.
Qed.

Theorem tcp_hslice_ipv6_correct e hdr src dst payload :
  tcp_hslice_ok hdr -> ip6_ok src -> ip6_ok dst -> bytes_ok payload ->
  tcp_hslice_calc_checksum_ipv6_raw e hdr src dst payload =
    if 4294967295 - len hdr <? len payload then CErrTooBig (len payload) (4294967295 - len hdr)
    else COk (tcp6_raw_spec src dst hdr payload).
Proof.
  intros (Hh & H20 & H60 & H4) [Hs Hs16] [Hd Hd16] Hp. unfold tcp_hslice_calc_checksum_ipv6_raw.
  change U32MAX with 4294967295. unfold as_u32. rewrite (N.mod_small (len hdr)) by lia.
  destruct (4294967295 - len hdr <? len payload) eqn:E; [reflexivity|]. apply N.ltb_ge in E.
  destruct (len hdr <? 18) eqn:E2; [apply N.ltb_lt in E2; lia|].
  f_equal. rewrite (N.mod_small (len payload)) by lia. rewrite N.mod_small by lia.
  unfold tcp6_raw_spec, pseudo6. change IPN_TCP with 6.
  set (L := len hdr + len payload).
  apply proto_core_pre.
  - pieces_ok_goal.
  - even_pieces.
  - pieces_ok_goal.
  - aligned_goal.
  - apply even_len_app; [evl|]. apply even_len_app; [evl|]. reflexivity.
  - expand_bytes. sums. unfold be16. lia.
  - apply hslice_post_sum. lia.
Qed.

(* ------------------------------------------------------------------ *)
(* ICMPv4, IGMP                                                         *)

Theorem icmp4_correct e t payload :
  icmp4_ok t -> bytes_ok payload -> icmp4_calc_checksum e t payload = icmp4_spec t payload.
Proof.
  intros Ht Hp. unfold icmp4_calc_checksum, icmp4_spec.
  destruct t; cbn [icmp4_ok icmp4_pieces icmp4_wire] in *; ands; open_all_ip4; zero16;
    (apply proto_core; [pieces_ok_goal | aligned_goal | expand_bytes; sums; unfold be16; lia]).
Qed.

Theorem igmp_correct e t payload :
  igmp_ok t -> bytes_ok payload -> igmp_calc_checksum e t payload = igmp_spec t payload.
Proof.
  intros Ht Hp. unfold igmp_calc_checksum, igmp_spec.
  destruct t; cbn [igmp_ok igmp_pieces igmp_wire] in *; ands; open_all_ip4; zero16;
    (apply proto_core; [pieces_ok_goal | aligned_goal | expand_bytes; sums; unfold be16; lia]).
Qed.

(* ------------------------------------------------------------------ *)
(* ICMPv6                                                               *)

Lemma ra_flags_val m o : ra_flags m o = bit m * 128 + bit o * 64.
Proof. destruct m, o; reflexivity. Qed.
Lemma na_first_byte_val r s o : na_first_byte r s o = bit r * 128 + bit s * 64 + bit o * 32.
Proof. destruct r, s, o; reflexivity. Qed.
Lemma ra_flags_lt m o : bit m * 128 + bit o * 64 < 256.
Proof. destruct m, o; cbn [bit]; lia. Qed.
Lemma na_first_byte_lt r s o : bit r * 128 + bit s * 64 + bit o * 32 < 256.
Proof. destruct r, s, o; cbn [bit]; lia. Qed.

Lemma icmp6_body_ok t payload :
  icmp6_ok t -> bytes_ok payload -> Forall piece_ok (icmp6_pieces t ++ [PSlice payload]).
Proof.
  intros Ht Hp.
  destruct t; cbn [icmp6_ok icmp6_pieces] in *; ands;
    rewrite ?ra_flags_val, ?na_first_byte_val;
    try pose proof (ra_flags_lt managed other);
    try pose proof (na_first_byte_lt router solicited override);
    pieces_ok_goal.
Qed.

Lemma icmp6_body_aligned t payload : pieces_aligned (icmp6_pieces t ++ [PSlice payload]).
Proof. destruct t; cbn [icmp6_pieces]; aligned_goal. Qed.

Lemma icmp6_body_sum t payload :
  icmp6_ok t ->
  sum_be16 (pieces_bytes (icmp6_pieces t ++ [PSlice payload])) = sum_be16 (icmp6_wire t 0 ++ payload).
Proof.
  intros Ht.
  destruct t; cbn [icmp6_ok icmp6_pieces icmp6_wire] in *; ands;
    rewrite ?ra_flags_val, ?na_first_byte_val; zero16;
    expand_bytes; sums; unfold be16; lia.
Qed.

Theorem icmp6_correct e t src dst payload :
  icmp6_ok t -> ip6_ok src -> ip6_ok dst -> bytes_ok payload ->
  icmp6_calc_checksum e t src dst payload =
    if 4294967287 <? len payload then CErrTooBig (len payload) 4294967287
    else COk (icmp6_spec src dst t payload).
Proof.
  intros Ht [Hs Hs16] [Hd Hd16] Hp. unfold icmp6_calc_checksum, icmp6_header_len.
  change (U32MAX - 8) with 4294967287.
  destruct (4294967287 <? len payload) eqn:E; [reflexivity|]. apply N.ltb_ge in E.
  f_equal. unfold as_u32. rewrite N.mod_small by lia. rewrite (N.add_comm (len payload) 8).
  unfold icmp6_spec, pseudo6. change IPN_ICMPV6 with 58.
  set (L := 8 + len payload).
  apply proto_core_pre.
  - pieces_ok_goal.
  - even_pieces.
  - now apply icmp6_body_ok.
  - apply icmp6_body_aligned.
  - apply even_len_app; [evl|]. apply even_len_app; [evl|]. reflexivity.
  - expand_bytes. sums. unfold be16. lia.
  - now apply icmp6_body_sum.
Qed.

(* Icmpv6Slice::is_checksum_valid accepts exactly the messages whose complete
   sum (pseudo header and message as received) folds to 0xffff *)
Theorem icmp6_valid_iff e slice src dst :
  ip6_ok src -> ip6_ok dst -> bytes_ok slice -> len slice < 4294967296 ->
  icmp6_is_checksum_valid e slice src dst = icmp6_valid_spec src dst slice.
Proof.
  intros [Hs Hs16] [Hd Hd16] Hp Hl. unfold icmp6_is_checksum_valid, icmp6_valid_spec.
  unfold as_u32. rewrite N.mod_small by assumption. change IPN_ICMPV6 with 58.
  set (ps := [P16 src; P16 dst; P4w (len slice); P2 0 58; PSlice slice]).
  assert (C : checksum64 e ps = rfc1071 (pseudo6 src dst (len slice) 58 ++ slice)).
  { unfold pseudo6. subst ps. apply proto_core.
    - pieces_ok_goal.
    - aligned_goal.
    - expand_bytes. sums. unfold be16. lia. }
  unfold checksum64 in C. fold (sum_pieces64 e 0 ps).
  set (v := U64.ones_complement (sum_pieces64 e 0 ps)) in *.
  assert (Hv : v <= 65535) by (subst v; unfold U64.ones_complement; lia).
  pose proof (to_be_zero_iff e v Hv) as Z.
  unfold folds_to_ffff. unfold rfc1071 in C.
  set (B := pseudo6 src dst (len slice) 58 ++ slice) in *.
  pose proof (fold16_range (sum_be16 B)) as R.
  destruct (v =? 0) eqn:E1; destruct (fold16 (sum_be16 B) =? 65535) eqn:E2; try reflexivity.
  - apply N.eqb_eq in E1. apply N.eqb_neq in E2. assert (to_be16v e v = 0) by tauto. lia.
  - apply N.eqb_neq in E1. apply N.eqb_eq in E2. assert (to_be16v e v <> 0) by tauto. lia.
Qed.

(* a message carrying the checksum computed by calc_checksum is accepted:
   generic fact about RFC 1071 (the sum S of everything else, c the stored value) *)
Lemma verify_after_fill S : fold16 (S + (65535 - fold16 S)) = 65535.
Proof.
  pose proof (fold16_range S) as R. pose proof (fold16_eqm S) as M. pose proof (fold16_zero S) as Z.
  symmetry. apply fold16_unique; [lia | | ].
  - apply Proofs.eqm_sym. apply eqm_plus_mult with (q := S / 65535 - fold16 S / 65535).
    assert (fold16 S / 65535 <= S / 65535).
    { apply N.div_le_mono; [lia|]. unfold fold16. destruct (S =? 0) eqn:E; [lia|].
      apply N.eqb_neq in E. pose proof (N.mod_le (S - 1) 65535 ltac:(lia)). lia. }
    pose proof (N.div_mod S 65535 ltac:(lia)). pose proof (N.div_mod (fold16 S) 65535 ltac:(lia)).
    unfold Proofs.eqm in M. lia.
  - split; [lia|]. intros H. assert (S = 0) by lia. subst. cbn in H. lia.
Qed.

Theorem icmp6_filled_is_valid src dst t payload :
  icmp6_ok t -> ip6_ok src -> ip6_ok dst -> len payload <= 4294967287 ->
  icmp6_valid_spec src dst (icmp6_wire t (icmp6_spec src dst t payload) ++ payload) = true.
Proof.
  intros Ht [Hs Hs16] [Hd Hd16] Hl. unfold icmp6_valid_spec, folds_to_ffff. apply N.eqb_eq.
  set (c := icmp6_spec src dst t payload).
  assert (Hc : c <= 65535) by apply rfc1071_le.
  assert (Hlen : len (icmp6_wire t c ++ payload) = 8 + len payload).
  { rewrite len_app. destruct t; reflexivity. }
  rewrite Hlen.
  assert (E : sum_be16 (pseudo6 src dst (8 + len payload) 58 ++ icmp6_wire t c ++ payload) =
              sum_be16 (pseudo6 src dst (8 + len payload) 58 ++ icmp6_wire t 0 ++ payload) + c).
  { unfold pseudo6. set (L := 8 + len payload).
    assert (Hw : sum_be16 (w16 c) = c).
    { unfold w16, to_be16. cbn [sum_be16]. zify; Z.div_mod_to_equations; lia. }
    assert (Hw32 : even_len (w32 L)) by reflexivity.
    assert (Hw16 : even_len (w16 c)) by reflexivity.
    destruct t; cbn [icmp6_wire]; zero16; rewrite <- ?app_assoc; cbn [app];
      repeat first [ rewrite sum_be16_cons2 | rewrite sum_be16_app by evl ]; rewrite Hw; cbn [sum_be16]; unfold be16; lia. }
  rewrite E. subst c. unfold icmp6_spec, rfc1071. apply verify_after_fill.
Qed.

(* ------------------------------------------------------------------ *)
(* TransportHeader::update_checksum_ipv4 / _ipv6                        *)

Theorem update_checksum_ipv4_correct e th src dst payload :
  transport_ok th -> ip4_ok src -> ip4_ok dst -> bytes_ok payload ->
  update_checksum_ipv4 e th src dst payload = update4_spec th src dst payload.
Proof.
  intros Ht Hs Hd Hp. destruct th; cbn [update_checksum_ipv4 update4_spec transport_ok] in *.
  - rewrite udp_ipv4_raw_correct by assumption. destruct (65527 <? len payload); reflexivity.
  - rewrite tcp_ipv4_raw_correct by assumption.
    destruct (65535 - tcp_header_len h <? len payload); reflexivity.
  - f_equal. now apply icmp4_correct.
  - reflexivity.
Qed.

Theorem update_checksum_ipv6_correct e th src dst payload :
  transport_ok th -> ip6_ok src -> ip6_ok dst -> bytes_ok payload ->
  update_checksum_ipv6 e th src dst payload = update6_spec th src dst payload.
Proof.
  intros Ht Hs Hd Hp. destruct th; cbn [update_checksum_ipv6 update6_spec transport_ok] in *.
  - rewrite udp_ipv6_raw_correct by assumption. destruct (4294967287 <? len payload); reflexivity.
  - rewrite tcp_ipv6_raw_correct by assumption.
    destruct (4294967295 - tcp_header_len h <? len payload); reflexivity.
  - f_equal. now apply icmp4_correct.
  - rewrite icmp6_correct by assumption. destruct (4294967287 <? len payload); reflexivity.
Qed.

(* ------------------------------------------------------------------ *)
(* UDP: the length that goes into the pseudo header                     *)

(* when the header's length field is consistent with the payload the two
   readings of "UDP length" coincide *)
Corollary udp_ipv4_raw_consistent e h src dst payload :
  udp_hdr_ok h -> ip4_ok src -> ip4_ok dst -> bytes_ok payload ->
  u_length h = 8 + len payload ->
  udp_calc_checksum_ipv4_raw e h src dst payload = COk (udp4_spec src dst h (8 + len payload) payload).
Proof.
  intros Hh Hs Hd Hp Hl. rewrite udp_ipv4_raw_correct by assumption.
  destruct Hh as (_ & _ & Hlen). destruct (65527 <? len payload) eqn:E.
  - apply N.ltb_lt in E. lia.
  - now rewrite Hl.
Qed.

Corollary udp_ipv6_raw_consistent e h src dst payload :
  udp_hdr_ok h -> ip6_ok src -> ip6_ok dst -> bytes_ok payload ->
  u_length h = 8 + len payload ->
  udp_calc_checksum_ipv6_raw e h src dst payload = COk (udp6_spec src dst h (8 + len payload) payload).
Proof.
  intros Hh Hs Hd Hp Hl. rewrite udp_ipv6_raw_correct by assumption.
  destruct Hh as (_ & _ & Hlen). destruct (4294967287 <? len payload) eqn:E.
  - apply N.ltb_lt in E. lia.
  - now rewrite Hl.
Qed.

(* ... and they differ otherwise: calc_checksum_ipv4_raw accepts a header whose
   length field (8) does not describe the payload (1 byte) and returns a value
   that is NOT the checksum over a pseudo header carrying the actual length 9 *)
Theorem udp_actual_length_reading_refuted :
  exists h src dst payload,
    udp_hdr_ok h /\ ip4_ok src /\ ip4_ok dst /\ bytes_ok payload /\ len payload <= 65527 /\
    exists v, udp_calc_checksum_ipv4_raw LE h src dst payload = COk v /\
              v <> udp4_spec src dst h (8 + len payload) payload.
Proof.
  exists {| u_sport := 0; u_dport := 0; u_length := 8 |}, (0, 0, 0, 0), (0, 0, 0, 0), [1].
  split; [unfold udp_hdr_ok; cbn; lia|].
  split; [repeat constructor|]. split; [repeat constructor|]. split; [repeat constructor|].
  split; [vm_compute; discriminate|].
  eexists. split; [vm_compute; reflexivity|]. vm_compute. discriminate.
Qed.
