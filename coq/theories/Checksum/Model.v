(* Checksum/Model.v -- transliteration of etherparse/src/checksum.rs
   (modules u32_16bit_word, u64_16bit_word, struct Sum16BitWords).
   u32/u64 values are N; every wrap-around the Rust code performs
   (overflowing_add, `as u16`) is written out explicitly.
   Host endianness (from_ne_bytes / to_be) is a parameter. *)
From EP Require Import Base.Bytes.

Inductive endian := LE | BE.

Definition M32 : N := 4294967296.
Definition M64 : N := 18446744073709551616.

(* uNN::from_ne_bytes *)
Definition ne16 (e : endian) (a b : N) : N :=
  match e with LE => a + 256 * b | BE => 256 * a + b end.
Definition ne32 (e : endian) (a b c d : N) : N :=
  match e with
  | LE => a + 256 * b + 65536 * c + 16777216 * d
  | BE => 16777216 * a + 65536 * b + 256 * c + d
  end.
Definition ne64 (e : endian) (a b c d f g h i : N) : N :=
  match e with
  | LE => ne32 LE a b c d + M32 * ne32 LE f g h i
  | BE => M32 * ne32 BE a b c d + ne32 BE f g h i
  end.

(* u16::to_be *)
Definition swap16 (v : N) : N := (v mod 256) * 256 + v / 256.
Definition to_be16v (e : endian) (v : N) : N :=
  match e with LE => swap16 v | BE => v end.

(* let (sum, carry) = start.overflowing_add(v); sum + (carry as uNN) *)
Definition oadd (m s v : N) : N :=
  (s + v) mod m + (if s + v <? m then 0 else 1).

Module U64.
  Definition add_2bytes e (s a b : N) : N := oadd M64 s (ne16 e a b).
  Definition add_4bytes e (s a b c d : N) : N := oadd M64 s (ne32 e a b c d).
  Definition add_8bytes e (s a b c d f g h i : N) : N := oadd M64 s (ne64 e a b c d f g h i).

  (* the part of add_slice behind the 8-byte loop: at most 7 bytes left *)
  Definition tail e (s : N) (bs : bytes) : N :=
    match bs with
    | [] => s
    | [a] => add_2bytes e s a 0
    | [a; b] => add_2bytes e s a b
    | [a; b; c] => add_2bytes e (add_2bytes e s a b) c 0
    | [a; b; c; d] => add_4bytes e s a b c d
    | [a; b; c; d; f] => add_2bytes e (add_4bytes e s a b c d) f 0
    | [a; b; c; d; f; g] => add_2bytes e (add_4bytes e s a b c d) f g
    | [a; b; c; d; f; g; h] =>
        add_2bytes e (add_2bytes e (add_4bytes e s a b c d) f g) h 0
    | _ => s (* unreachable: add_slice only passes < 8 bytes *)
    end.

  Fixpoint add_slice e (s : N) (bs : bytes) : N :=
    match bs with
    | a :: b :: c :: d :: f :: g :: h :: i :: r =>
        add_slice e (add_8bytes e s a b c d f g h i) r
    | _ => tail e s bs
    end.

  Definition ones_complement (s : N) : N :=
    let first := N.land (N.shiftr s 48) 65535 + N.land (N.shiftr s 32) 65535
                 + N.land (N.shiftr s 16) 65535 + N.land s 65535 in
    let second := N.land (N.shiftr first 16) 65535 + N.land first 65535 in
    let u16value := (N.land (N.shiftr second 16) 65535 + N.land second 65535) mod 65536 in
    65535 - u16value.

  Definition ones_complement_with_no_zero (s : N) : N :=
    let v := ones_complement s in if v =? 0 then 65535 else v.
End U64.

Module U32.
  Definition add_2bytes e (s a b : N) : N := oadd M32 s (ne16 e a b).
  Definition add_4bytes e (s a b c d : N) : N := oadd M32 s (ne32 e a b c d).

  Definition tail e (s : N) (bs : bytes) : N :=
    match bs with
    | [] => s
    | [a] => add_2bytes e s a 0
    | [a; b] => add_2bytes e s a b
    | [a; b; c] => add_2bytes e (add_2bytes e s a b) c 0
    | _ => s
    end.

  Fixpoint add_slice e (s : N) (bs : bytes) : N :=
    match bs with
    | a :: b :: c :: d :: r => add_slice e (add_4bytes e s a b c d) r
    | _ => tail e s bs
    end.

  Definition ones_complement (s : N) : N :=
    let first := N.land (N.shiftr s 16) 65535 + N.land s 65535 in
    let u16value := (N.land (N.shiftr first 16) 65535 + N.land first 65535) mod 65536 in
    65535 - u16value.

  Definition ones_complement_with_no_zero (s : N) : N :=
    let v := ones_complement s in if v =? 0 then 65535 else v.
End U32.

(* struct Sum16BitWords on a 64-bit target: thin wrapper over U64
   (add_16bytes = two add_8bytes). Calls are modelled as a list of pieces. *)
Inductive piece :=
| P2 (a b : N)
| P4 (a b c d : N)
| P8 (a b c d f g h i : N)
| P16 (x : bytes) (* exactly 16 bytes *)
| PSlice (bs : bytes).

Definition piece_bytes (p : piece) : bytes :=
  match p with
  | P2 a b => [a; b]
  | P4 a b c d => [a; b; c; d]
  | P8 a b c d f g h i => [a; b; c; d; f; g; h; i]
  | P16 x => x
  | PSlice bs => bs
  end.

(* the bytes a call sequence covers, in order *)
Definition pieces_bytes (ps : list piece) : bytes := concat (map piece_bytes ps).

Definition add_piece64 e (s : N) (p : piece) : N :=
  match p with
  | P2 a b => U64.add_2bytes e s a b
  | P4 a b c d => U64.add_4bytes e s a b c d
  | P8 a b c d f g h i => U64.add_8bytes e s a b c d f g h i
  | P16 [a0;a1;a2;a3;a4;a5;a6;a7;b0;b1;b2;b3;b4;b5;b6;b7] =>
      U64.add_8bytes e (U64.add_8bytes e s a0 a1 a2 a3 a4 a5 a6 a7) b0 b1 b2 b3 b4 b5 b6 b7
  | P16 _ => s
  | PSlice bs => U64.add_slice e s bs
  end.

Definition add_piece32 e (s : N) (p : piece) : N :=
  match p with
  | P2 a b => U32.add_2bytes e s a b
  | P4 a b c d => U32.add_4bytes e s a b c d
  | P8 a b c d f g h i => U32.add_4bytes e (U32.add_4bytes e s a b c d) f g h i
  | P16 [a0;a1;a2;a3;a4;a5;a6;a7;b0;b1;b2;b3;b4;b5;b6;b7] =>
      U32.add_4bytes e (U32.add_4bytes e (U32.add_4bytes e (U32.add_4bytes e s a0 a1 a2 a3) a4 a5 a6 a7) b0 b1 b2 b3) b4 b5 b6 b7
  | P16 _ => s
  | PSlice bs => U32.add_slice e s bs
  end.

Definition sum_pieces64 e (s : N) (ps : list piece) : N := fold_left (add_piece64 e) ps s.
Definition sum_pieces32 e (s : N) (ps : list piece) : N := fold_left (add_piece32 e) ps s.

(* Sum16BitWords::new().add_*(..)...ones_complement().to_be() *)
Definition checksum64 e (ps : list piece) : N :=
  to_be16v e (U64.ones_complement (sum_pieces64 e 0 ps)).
Definition checksum32 e (ps : list piece) : N :=
  to_be16v e (U32.ones_complement (sum_pieces32 e 0 ps)).
Definition checksum64_no_zero e (ps : list piece) : N :=
  to_be16v e (U64.ones_complement_with_no_zero (sum_pieces64 e 0 ps)).
Definition checksum32_no_zero e (ps : list piece) : N :=
  to_be16v e (U32.ones_complement_with_no_zero (sum_pieces32 e 0 ps)).
