(* Limits/Proofs.v -- C14: every length-taking API of the model accepts exactly
   the representable lengths of Limits/Spec.v, reports (actual, true maximum,
   kind) otherwise without touching the header, and stores accepted lengths
   exactly (every `as uK` cast of the model is the identity where reached). *)
From EP Require Import Base.Bytes Limits.Spec Limits.Model.
From Coq Require Import ZArith Lia ZifyN ZifyBool.
Local Open Scope N_scope.

Lemma pow4 : 2 ^ 4 = 16. Proof. reflexivity. Qed.
Lemma pow6 : 2 ^ 6 = 64. Proof. reflexivity. Qed.
Lemma pow8 : 2 ^ 8 = 256. Proof. reflexivity. Qed.
Lemma pow16 : 2 ^ 16 = 65536. Proof. reflexivity. Qed.
Lemma pow32 : 2 ^ 32 = 4294967296. Proof. reflexivity. Qed.
Lemma pow63 : 2 ^ 63 = 9223372036854775808. Proof. reflexivity. Qed.
Lemma pow64 : 2 ^ 64 = 18446744073709551616. Proof. reflexivity. Qed.

Ltac pows := rewrite ?pow4, ?pow6, ?pow8, ?pow16, ?pow32, ?pow63, ?pow64 in *.
Ltac unf := unfold fits, fitsb, field_max, usize_ok, slice_len_ok, greatest, least in *; pows.
(* division / modulo by small constants only (4, 8, 256): see AGENT_GUIDE *)
Ltac dmlia := zify; Z.div_mod_to_equations; lia.

Lemma as_u8_small x : x < 256 -> as_u8 x = x.
Proof. intros; unfold as_u8; now apply N.mod_small. Qed.
Lemma as_u16_small x : x < 65536 -> as_u16 x = x.
Proof. intros; unfold as_u16; now apply N.mod_small. Qed.
Lemma as_u32_small x : x < 4294967296 -> as_u32 x = x.
Proof. intros; unfold as_u32; now apply N.mod_small. Qed.

Lemma wire16_to_be16 x : x < 65536 -> wire16 (to_be16 x) = Some x.
Proof.
  intros Hx. unfold to_be16, wire16, be16. f_equal.
  rewrite (N.mod_small (x / 256)) by (apply N.div_lt_upper_bound; lia).
  rewrite N.mul_comm. symmetry. apply N.div_mod. lia.
Qed.

(* ------------------------------------------------ shapes of Spec.v, intro *)
Lemma c14_set_intro {H} (r : res vtb unit * H) h v (R : N -> Prop) mx k (good : H -> Prop) (b : bool) :
  greatest R mx -> (b = true <-> R v) ->
  (b = true -> fst r = Ok tt /\ good (snd r)) ->
  (b = false -> r = (Err (mk_vtb v mx k), h)) ->
  c14_set r h v R mx k good.
Proof.
  intros Hg Hb Ht Hf. unfold c14_set. split; [exact Hg|]. split; [|split].
  - split.
    + intros Hr. apply Hb. destruct b; [reflexivity|]. rewrite (Hf eq_refl) in Hr. discriminate.
    + intros HR. apply Hb in HR. now apply Ht.
  - intros HR. apply Hb in HR. now apply Ht.
  - intros HR. apply Hf. destruct b; [|reflexivity]. exfalso. apply HR. now apply Hb.
Qed.

Lemma c14_new_intro {A} (r : res vtb A) v (R : N -> Prop) mx k (good : A -> Prop) (b : bool) :
  greatest R mx -> (b = true <-> R v) ->
  (b = true -> exists a, r = Ok a /\ good a) ->
  (b = false -> r = Err (mk_vtb v mx k)) ->
  c14_new r v R mx k good.
Proof.
  intros Hg Hb Ht Hf. unfold c14_new. split; [exact Hg|]. split; [|split].
  - split.
    + intros [a Hr]. apply Hb. destruct b; [reflexivity|]. rewrite (Hf eq_refl) in Hr. discriminate.
    + intros HR. apply Hb in HR. destruct (Ht HR) as [a [Ha _]]. now exists a.
  - intros HR. apply Hb in HR. now apply Ht.
  - intros HR. apply Hf. destruct b; [|reflexivity]. exfalso. apply HR. now apply Hb.
Qed.

Lemma c14_gen_intro {E A} (r : res E A) v (R : N -> Prop) (bad : N -> E) (good : A -> Prop) (b : bool) :
  (b = true <-> R v) ->
  (b = true -> exists a, r = Ok a /\ good a) ->
  (b = false -> r = Err (bad v)) ->
  c14_gen r v R bad good.
Proof.
  intros Hb Ht Hf. unfold c14_gen. split; [|split].
  - split.
    + intros [a Hr]. apply Hb. destruct b; [reflexivity|]. rewrite (Hf eq_refl) in Hr. discriminate.
    + intros HR. apply Hb in HR. destruct (Ht HR) as [a [Ha _]]. now exists a.
  - intros HR. apply Hb in HR. now apply Ht.
  - intros HR. apply Hf. destruct b; [|reflexivity]. exfalso. apply HR. now apply Hb.
Qed.

Lemma c14_gen_set_intro {E H} (r : res E unit * H) h v (R : N -> Prop) (bad : N -> E)
      (good : H -> Prop) (b : bool) :
  (b = true <-> R v) ->
  (b = true -> fst r = Ok tt /\ good (snd r)) ->
  (b = false -> r = (Err (bad v), h)) ->
  c14_gen_set r h v R bad good.
Proof.
  intros Hb Ht Hf. unfold c14_gen_set. split; [|split].
  - split.
    + intros Hr. apply Hb. destruct b; [reflexivity|]. rewrite (Hf eq_refl) in Hr. discriminate.
    + intros HR. apply Hb in HR. now apply Ht.
  - intros HR. apply Hb in HR. now apply Ht.
  - intros HR. apply Hf. destruct b; [|reflexivity]. exfalso. apply HR. now apply Hb.
Qed.

Lemma err_eq2 {H} (h : H) v m m' k : m = m' ->
  (Err (A:=unit) (mk_vtb v m k), h) = (Err (mk_vtb v m' k), h).
Proof. now intros ->. Qed.
Lemma err_eq1 {A} v m m' k : m = m' -> Err (A:=A) (mk_vtb v m k) = Err (mk_vtb v m' k).
Proof. now intros ->. Qed.

(* b = (v <=? m) style reflection: negb (m <? v) *)
Lemma nlt_true m v : negb (m <? v) = true <-> v <= m.
Proof. destruct (N.ltb_spec m v); cbn [negb]; split; intros; try lia; try discriminate; reflexivity. Qed.
Lemma nlt_false m v : negb (m <? v) = false <-> m < v.
Proof. destruct (N.ltb_spec m v); cbn [negb]; split; intros; try lia; try discriminate; reflexivity. Qed.

(* ------------------------------------------- deciders of Spec.v are exact *)
Lemma fitsb_spec bits x : fitsb bits x = true <-> fits bits x.
Proof. unfold fitsb, fits. apply N.ltb_lt. Qed.

(* ======================================================================= *)
(* IPv4                                                                    *)
(* ======================================================================= *)
(* invariant of Ipv4Options (established by ipv4_options_try_from below) *)
Definition ipv4_wf (h : ipv4h) : Prop := v4_opt_len h <= 40.

Lemma ipv4_opts_greatest : greatest ipv4_opts_repr ipv4_opts_max.
Proof.
  unfold ipv4_opts_repr, ipv4_opts_max, ipv4_hdr_len, ipv4_fixed. unf. change (5 * 4) with 20.
  change ((16 - 1) * 4 - 20) with 40. split.
  - split; reflexivity.
  - intros v [Hm Hf]. dmlia.
Qed.

Lemma ipv4_opts_repr_iff n : ipv4_opts_repr n <-> n <= 40 /\ n mod 4 = 0.
Proof.
  unfold ipv4_opts_repr, ipv4_hdr_len, ipv4_fixed. unf. change (5 * 4) with 20. split.
  - intros [Hm Hf]. split; [dmlia | exact Hm].
  - intros [Hl Hm]. split; [exact Hm | dmlia].
Qed.

Lemma ipv4_opts_reprb_spec n : ipv4_opts_reprb n = true <-> ipv4_opts_repr n.
Proof.
  unfold ipv4_opts_reprb, ipv4_opts_repr. rewrite andb_true_iff, fitsb_spec, N.eqb_eq. tauto.
Qed.

Lemma ipv4_options_try_from_c14 n :
  c14_gen (ipv4_options_try_from n) n ipv4_opts_repr (fun bad_len => bad_len)
    (fun l => l = n /\ ipv4_opts_dec (l / 4 + 5) = n /\ fits 4 (l / 4 + 5) /\ l <= 40).
Proof.
  apply (c14_gen_intro _ n _ _ _ ((n <=? 40) && (n mod 4 =? 0))).
  - rewrite ipv4_opts_repr_iff, andb_true_iff, N.leb_le, N.eqb_eq. tauto.
  - rewrite andb_true_iff, N.leb_le, N.eqb_eq. intros [Hl Hm].
    unfold ipv4_options_try_from.
    destruct (N.leb_spec n 40); [|lia]. destruct (N.eqb_spec (n mod 4) 0); [|lia]. cbn [andb].
    exists (as_u8 n). rewrite as_u8_small by lia. split; [reflexivity|].
    unfold ipv4_opts_dec, ipv4_fixed. unf. change (5 * 4) with 20.
    repeat split; try lia; dmlia.
  - intros Hb. unfold ipv4_options_try_from. rewrite Hb. reflexivity.
Qed.

Lemma ipv4_set_options_c14 h n :
  c14_gen_set (ipv4_set_options h n) h n ipv4_opts_repr (fun bad_len => bad_len)
    (fun h' => v4_opt_len h' = n /\ ipv4_wf h' /\
               (exists ihl, ipv4_ihl (E:=unit) h' = Ok ihl /\ fits 4 ihl /\ ipv4_opts_dec ihl = n) /\
               ipv4_header_len h' = ipv4_hdr_len n /\
               v4_total_len h' = v4_total_len h /\ v4_rest h' = v4_rest h).
Proof.
  destruct (ipv4_options_try_from_c14 n) as [Hiff [Hok Hbad]].
  apply (c14_gen_set_intro _ h n _ _ _ (ipv4_opts_reprb n)).
  - apply ipv4_opts_reprb_spec.
  - intros Hb. apply ipv4_opts_reprb_spec in Hb. destruct (Hok Hb) as [l [Hl [-> [Hdec [Hfit Hle]]]]].
    unfold ipv4_set_options. rewrite Hl. cbn [sbind fst snd].
    unfold v4_set_opts, ipv4_wf, ipv4_ihl, ipv4_header_len, ipv4_hdr_len, ipv4_fixed, add_chk, U8.
    cbn [v4_opt_len v4_total_len v4_rest]. change (5 * 4) with 20.
    repeat split; try lia.
    exists (n / 4 + 5). split; [|split; assumption].
    destruct (N.ltb_spec (n / 4 + 5) 256); [reflexivity | dmlia].
  - intros Hb. assert (Hn : ~ ipv4_opts_repr n).
    { intros HR. apply ipv4_opts_reprb_spec in HR. congruence. }
    unfold ipv4_set_options. rewrite (Hbad Hn). reflexivity.
Qed.

Lemma ipv4_greatest o : o <= 40 -> greatest (ipv4_repr o) (ipv4_max o).
Proof.
  intros Ho. unfold ipv4_repr, ipv4_max, ipv4_hdr_len, ipv4_fixed. unf. change (5 * 4) with 20.
  split; [lia | intros; lia].
Qed.

Lemma ipv4_reprb_spec o v : ipv4_reprb o v = true <-> ipv4_repr o v.
Proof. apply fitsb_spec. Qed.

Lemma ipv4_set_payload_len_eq h v : ipv4_wf h ->
  ipv4_set_payload_len h v =
  if 65515 - v4_opt_len h <? v
  then (Err (mk_vtb v (65515 - v4_opt_len h) Ipv4PayloadLength), h)
  else (Ok tt, v4_set_total h (20 + v4_opt_len h + v)).
Proof.
  unfold ipv4_wf. intros Hwf.
  unfold ipv4_set_payload_len, ipv4_max_payload_len, sbind, bind, sub_chk, add_chk, ipv4_header_len, USIZE.
  change (as_u16 20) with 20.
  destruct (N.leb_spec (v4_opt_len h) 65535); [|lia].
  destruct (N.leb_spec 20 (65535 - v4_opt_len h)); [|lia].
  replace (65535 - v4_opt_len h - 20) with (65515 - v4_opt_len h) by lia.
  destruct (N.ltb_spec (65515 - v4_opt_len h) v); [reflexivity|].
  destruct (N.ltb_spec (20 + v4_opt_len h + v) 18446744073709551616); [|lia].
  rewrite as_u16_small by lia. reflexivity.
Qed.

(* what an accepted IPv4 length looks like afterwards *)
Definition ipv4_good (h : ipv4h) (extra v : N) (h' : ipv4h) : Prop :=
  v4_total_len h' = ipv4_hdr_len (v4_opt_len h) + extra + v /\
  wire16 (to_be16 (v4_total_len h')) = Some (ipv4_hdr_len (v4_opt_len h) + extra + v) /\
  ipv4_dec (v4_opt_len h) (v4_total_len h') = extra + v /\
  ipv4_payload_len h' = Some (extra + v) /\
  v4_opt_len h' = v4_opt_len h /\ v4_rest h' = v4_rest h.

Lemma ipv4_good_intro h extra v : ipv4_wf h -> extra + v <= 65515 - v4_opt_len h ->
  ipv4_good h extra v (v4_set_total h (20 + v4_opt_len h + (extra + v))).
Proof.
  unfold ipv4_wf. intros Hwf Hle.
  unfold ipv4_good, v4_set_total, ipv4_payload_len, ipv4_header_len, ipv4_dec, ipv4_hdr_len, ipv4_fixed.
  cbn [v4_total_len v4_opt_len v4_rest]. change (5 * 4) with 20.
  rewrite as_u16_small by lia.
  destruct (N.leb_spec (20 + v4_opt_len h) (20 + v4_opt_len h + (extra + v))); [|lia].
  repeat split; try lia.
  - replace (20 + v4_opt_len h + extra + v) with (20 + v4_opt_len h + (extra + v)) by lia.
    apply wire16_to_be16. lia.
  - f_equal; lia.
Qed.

Lemma ipv4_set_payload_len_c14 h v : ipv4_wf h ->
  c14_set (ipv4_set_payload_len h v) h v (ipv4_repr (v4_opt_len h)) (ipv4_max (v4_opt_len h))
    Ipv4PayloadLength (ipv4_good h 0 v).
Proof.
  intros Hwf. rewrite (ipv4_set_payload_len_eq h v Hwf).
  apply (c14_set_intro _ h v _ _ _ _ (negb (65515 - v4_opt_len h <? v))).
  - apply ipv4_greatest. exact Hwf.
  - rewrite nlt_true. unfold ipv4_wf in Hwf. unfold ipv4_repr, ipv4_hdr_len, ipv4_fixed. unf.
    change (5 * 4) with 20. lia.
  - rewrite nlt_true. intros Hle. destruct (N.ltb_spec (65515 - v4_opt_len h) v); [lia|].
    cbn [fst snd]. split; [reflexivity|].
    replace (20 + v4_opt_len h + v) with (20 + v4_opt_len h + (0 + v)) by lia.
    apply ipv4_good_intro; [exact Hwf | lia].
  - rewrite nlt_false. intros Hlt. destruct (N.ltb_spec (65515 - v4_opt_len h) v); [|lia].
    apply err_eq2. unfold ipv4_wf in Hwf. unfold ipv4_max, ipv4_hdr_len, ipv4_fixed. unf.
    change (5 * 4) with 20. lia.
Qed.

Lemma ipv4_new_c14 v rest :
  c14_new (ipv4_new v rest) v (ipv4_repr 0) (ipv4_max 0) Ipv4PayloadLength
    (fun h => v4_total_len h = ipv4_hdr_len 0 + v /\
              wire16 (to_be16 (v4_total_len h)) = Some (ipv4_hdr_len 0 + v) /\
              ipv4_payload_len h = Some v /\ v4_opt_len h = 0 /\ v4_rest h = rest).
Proof.
  apply (c14_new_intro _ v _ _ _ _ (negb (65515 <? v))).
  - apply ipv4_greatest. lia.
  - rewrite nlt_true. unfold ipv4_repr, ipv4_hdr_len, ipv4_fixed. unf. change (5 * 4) with 20. lia.
  - rewrite nlt_true. intros Hle. unfold ipv4_new, bind, add_chk, U16. change (as_u16 20) with 20.
    change (65535 - 20) with 65515.
    destruct (N.ltb_spec 65515 v); [lia|]. destruct (N.ltb_spec (v + 20) 65536); [|lia].
    eexists. split; [reflexivity|].
    unfold ipv4_payload_len, ipv4_header_len, ipv4_hdr_len, ipv4_fixed. cbn [v4_total_len v4_opt_len v4_rest].
    change (5 * 4) with 20. change (as_u16 (20 + 0)) with 20.
    destruct (N.leb_spec 20 (v + 20)); [|lia].
    repeat split; try lia.
    + replace (20 + 0 + v) with (v + 20) by lia. apply wire16_to_be16. lia.
    + f_equal. lia.
  - rewrite nlt_false. intros Hlt. unfold ipv4_new. change (as_u16 20) with 20.
    change (65535 - 20) with 65515. destruct (N.ltb_spec 65515 v); [|lia].
    apply err_eq1. reflexivity.
Qed.

(* ======================================================================= *)
(* IPv6                                                                    *)
(* ======================================================================= *)
Lemma ipv6_greatest : greatest ipv6_repr ipv6_max.
Proof. unfold ipv6_repr, ipv6_max. unf. split; [lia | intros; lia]. Qed.
Lemma ipv6_reprb_spec v : ipv6_reprb v = true <-> ipv6_repr v.
Proof. apply fitsb_spec. Qed.

Definition ipv6_good (h : ipv6h) (total : N) (h' : ipv6h) : Prop :=
  v6_payload_length h' = total /\ wire16 (to_be16 (v6_payload_length h')) = Some total /\
  v6_rest h' = v6_rest h.

Lemma ipv6_set_payload_length_eq h v :
  ipv6_set_payload_length h v =
  if 65535 <? v then (Err (mk_vtb v 65535 Ipv6PayloadLength), h)
  else (Ok tt, {| v6_payload_length := v; v6_rest := v6_rest h |}).
Proof.
  unfold ipv6_set_payload_length. destruct (N.ltb_spec 65535 v); [reflexivity|].
  rewrite as_u16_small by lia. reflexivity.
Qed.

Lemma ipv6_set_payload_length_c14 h v :
  c14_set (ipv6_set_payload_length h v) h v ipv6_repr ipv6_max Ipv6PayloadLength (ipv6_good h v).
Proof.
  rewrite ipv6_set_payload_length_eq.
  apply (c14_set_intro _ h v _ _ _ _ (negb (65535 <? v))).
  - apply ipv6_greatest.
  - rewrite nlt_true. unfold ipv6_repr. unf. lia.
  - rewrite nlt_true. intros Hle. destruct (N.ltb_spec 65535 v); [lia|]. cbn [fst snd].
    split; [reflexivity|]. unfold ipv6_good. cbn [v6_payload_length v6_rest].
    repeat split. apply wire16_to_be16. lia.
  - rewrite nlt_false. intros Hlt. destruct (N.ltb_spec 65535 v); [|lia]. reflexivity.
Qed.

(* ======================================================================= *)
(* extension header lengths: the model's header_len() is the RFC length    *)
(* ======================================================================= *)
Lemma ah_header_len_spec l : ah_header_len l = ah_total_len (l + 1).
Proof. unfold ah_header_len, ah_total_len. lia. Qed.
Lemma rawext_header_len_spec l : rawext_header_len l = ext_total_len l.
Proof. unfold rawext_header_len, ext_total_len. lia. Qed.
Lemma v4exts_header_len_spec x : v4exts_header_len x = v4x_len x.
Proof. destruct x; [apply ah_header_len_spec | reflexivity]. Qed.
Lemma v6exts_header_len_spec x : v6exts_header_len x = v6x_len x.
Proof.
  destruct x as [hop dst route frag auth]. unfold v6exts_header_len, v6x_len, olen, frag_total_len.
  cbn [x_hop x_dst x_route x_frag x_auth].
  destruct hop, dst, route as [[r [f|]]|], frag, auth;
    rewrite ?rawext_header_len_spec, ?ah_header_len_spec; lia.
Qed.

Lemma v4x_len_bound x : v4exts_wf x -> v4x_len x <= 1032.
Proof. destruct x; cbn; unfold ah_total_len; intros; lia. Qed.
Lemma v6x_len_bound x : v6exts_wf x -> v6x_len x <= 9232.
Proof.
  destruct x as [hop dst route frag auth]. unfold v6exts_wf, v6x_len, olen, o8, frag_total_len, ext_total_len, ah_total_len.
  cbn [x_hop x_dst x_route x_frag x_auth]. intros [H1 [H2 [H3 H4]]].
  destruct hop, dst, route as [[r [f|]]|], frag, auth; lia.
Qed.

(* ======================================================================= *)
(* IpHeaders::set_payload_len                                              *)
(* ======================================================================= *)
Lemma iph4_greatest o e : o <= 40 -> e <= 1032 -> greatest (iph4_repr o e) (iph4_max o e).
Proof.
  intros Ho He. unfold iph4_repr, iph4_max, ipv4_hdr_len, ipv4_fixed. unf. change (5 * 4) with 20.
  split; [lia | intros; lia].
Qed.
Lemma iph6_greatest e : e <= 9232 -> greatest (iph6_repr e) (iph6_max e).
Proof. intros He. unfold iph6_repr, iph6_max. unf. split; [lia | intros; lia]. Qed.
Lemma iph4_reprb_spec o e v : iph4_reprb o e v = true <-> iph4_repr o e v.
Proof. apply fitsb_spec. Qed.
Lemma iph6_reprb_spec e v : iph6_reprb e v = true <-> iph6_repr e v.
Proof. apply fitsb_spec. Qed.

Lemma iph4_set_payload_len_c14 h x v : ipv4_wf h -> v4exts_wf x ->
  c14_set (iph_set_payload_len (IpV4 h x) v) (IpV4 h x) v
    (iph4_repr (v4_opt_len h) (v4x_len x)) (iph4_max (v4_opt_len h) (v4x_len x)) Ipv4PayloadLength
    (fun s' => exists h', s' = IpV4 h' x /\ ipv4_good h (v4x_len x) v h' /\
                          iph4_dec (v4_opt_len h) (v4x_len x) (v4_total_len h') = v).
Proof.
  intros Hwf Hx. pose proof (v4x_len_bound x Hx) as He. unfold ipv4_wf in Hwf.
  set (e := v4x_len x) in *. set (o := v4_opt_len h) in *.
  apply (c14_set_intro _ _ v _ _ _ _ (negb (65515 - o - e <? v))).
  - apply iph4_greatest; assumption.
  - rewrite nlt_true. unfold iph4_repr, ipv4_hdr_len, ipv4_fixed. unf. change (5 * 4) with 20. lia.
  - rewrite nlt_true. intros Hle.
    unfold iph_set_payload_len, checked_add_usize, USIZE. rewrite v4exts_header_len_spec. fold e.
    destruct (N.ltb_spec (v + e) 18446744073709551616); [|lia].
    rewrite (ipv4_set_payload_len_eq h (v + e) Hwf). fold o.
    destruct (N.ltb_spec (65515 - o) (v + e)); [lia|]. cbn [map_vtb fst snd].
    split; [reflexivity|].
    eexists. split; [reflexivity|]. split.
    + replace (20 + o + (v + e)) with (20 + o + (e + v)) by lia.
      apply ipv4_good_intro; [exact Hwf | fold o; lia].
    + unfold iph4_dec, v4_set_total, ipv4_hdr_len, ipv4_fixed. cbn [v4_total_len]. fold o.
      change (5 * 4) with 20. lia.
  - rewrite nlt_false. intros Hlt.
    unfold iph_set_payload_len, checked_add_usize, USIZE. rewrite v4exts_header_len_spec. fold e.
    destruct (N.ltb_spec (v + e) 18446744073709551616).
    + rewrite (ipv4_set_payload_len_eq h (v + e) Hwf). fold o.
      destruct (N.ltb_spec (65515 - o) (v + e)); [|lia]. cbn [map_vtb max_allowed vtype].
      unfold saturating_sub. destruct (N.leb_spec e (65515 - o)); [|lia].
      apply err_eq2. unfold iph4_max, ipv4_hdr_len, ipv4_fixed. unf. change (5 * 4) with 20. lia.
    + unfold bind, sub_chk, ipv4_header_len. fold o.
      destruct (N.leb_spec (20 + o) 65535); [|lia].
      destruct (N.leb_spec e (65535 - (20 + o))); [|lia].
      apply err_eq2. unfold iph4_max, ipv4_hdr_len, ipv4_fixed. unf. change (5 * 4) with 20. lia.
Qed.

Lemma iph6_set_payload_len_c14 h x v : v6exts_wf x ->
  c14_set (iph_set_payload_len (IpV6 h x) v) (IpV6 h x) v
    (iph6_repr (v6x_len x)) (iph6_max (v6x_len x)) Ipv6PayloadLength
    (fun s' => exists h', s' = IpV6 h' x /\ ipv6_good h (v6x_len x + v) h' /\
                          iph6_dec (v6x_len x) (v6_payload_length h') = v).
Proof.
  intros Hx. pose proof (v6x_len_bound x Hx) as He. set (e := v6x_len x) in *.
  apply (c14_set_intro _ _ v _ _ _ _ (negb (65535 - e <? v))).
  - apply iph6_greatest; assumption.
  - rewrite nlt_true. unfold iph6_repr. unf. lia.
  - rewrite nlt_true. intros Hle.
    unfold iph_set_payload_len, checked_add_usize, USIZE. rewrite v6exts_header_len_spec. fold e.
    destruct (N.ltb_spec (v + e) 18446744073709551616); [|lia].
    rewrite ipv6_set_payload_length_eq.
    destruct (N.ltb_spec 65535 (v + e)); [lia|]. cbn [map_vtb fst snd].
    split; [reflexivity|].
    eexists. split; [reflexivity|]. unfold ipv6_good, iph6_dec. cbn [v6_payload_length v6_rest].
    repeat split; try lia. replace (e + v) with (v + e) by lia. apply wire16_to_be16. lia.
  - rewrite nlt_false. intros Hlt.
    unfold iph_set_payload_len, checked_add_usize, USIZE. rewrite v6exts_header_len_spec. fold e.
    destruct (N.ltb_spec (v + e) 18446744073709551616).
    + rewrite ipv6_set_payload_length_eq.
      destruct (N.ltb_spec 65535 (v + e)); [|lia]. cbn [map_vtb max_allowed vtype].
      unfold saturating_sub. destruct (N.leb_spec e 65535); [|lia].
      apply err_eq2. unfold iph6_max. unf. lia.
    + unfold bind, sub_chk. destruct (N.leb_spec e 65535); [|lia].
      apply err_eq2. unfold iph6_max. unf. lia.
Qed.

(* ======================================================================= *)
(* UDP                                                                     *)
(* ======================================================================= *)
Lemma udp_greatest : greatest udp_repr udp_max.
Proof. unfold udp_repr, udp_max, udp_hdr. unf. split; [lia | intros; lia]. Qed.
Lemma udp6_pseudo_greatest : greatest udp6_pseudo_repr udp6_pseudo_max.
Proof. unfold udp6_pseudo_repr, udp6_pseudo_max, udp_hdr. unf. split; [lia | intros; lia]. Qed.
Lemma udp_reprb_spec v : udp_reprb v = true <-> udp_repr v.
Proof. apply fitsb_spec. Qed.
Lemma udp6_pseudo_reprb_spec v : udp6_pseudo_reprb v = true <-> udp6_pseudo_repr v.
Proof. apply fitsb_spec. Qed.

(* accepted UDP constructor result: the length field (and, when a checksum is
   computed, the length entering the pseudo header) is 8 + v *)
Definition udp_good (rest v : N) (with_ck : bool) (h : udph) : Prop :=
  u_length h = udp_hdr + v /\ wire16 (to_be16 (u_length h)) = Some (udp_hdr + v) /\
  udp_dec (u_length h) = v /\
  u_ck h = (if with_ck then Some (udp_hdr + v) else None) /\ u_rest h = rest.

Lemma udp_ctor_c14 (f : N -> N -> res vtb udph) k (with_ck : bool) (site : N) :
  (forall rest v, f rest v =
     if 65527 <? v then Err (mk_vtb v 65527 k)
     else bind (add_chk (E:=vtb) site USIZE UDP_LEN v)
            (fun s => Ok {| u_length := as_u16 s;
                            u_ck := if with_ck then Some (as_u16 s) else None; u_rest := rest |})) ->
  forall rest v, c14_new (f rest v) v udp_repr udp_max k (udp_good rest v with_ck).
Proof.
  intros Hf rest v. rewrite Hf.
  apply (c14_new_intro _ v _ _ _ _ (negb (65527 <? v))).
  - apply udp_greatest.
  - rewrite nlt_true. unfold udp_repr, udp_hdr. unf. lia.
  - rewrite nlt_true. intros Hle. destruct (N.ltb_spec 65527 v); [lia|].
    unfold bind, add_chk, USIZE, UDP_LEN.
    destruct (N.ltb_spec (8 + v) 18446744073709551616); [|lia].
    rewrite as_u16_small by lia. eexists. split; [reflexivity|].
    unfold udp_good, udp_dec, udp_hdr. cbn [u_length u_ck u_rest].
    repeat split; try lia. apply wire16_to_be16. lia.
  - rewrite nlt_false. intros Hlt. destruct (N.ltb_spec 65527 v); [|lia].
    apply err_eq1. unfold udp_max, udp_hdr. unf. reflexivity.
Qed.

Lemma udp_without_ipv4_checksum_c14 rest v :
  c14_new (udp_without_ipv4_checksum rest v) v udp_repr udp_max UdpPayloadLengthIpv4
    (udp_good rest v false).
Proof.
  apply (udp_ctor_c14 udp_without_ipv4_checksum UdpPayloadLengthIpv4 false 120).
  intros r n. unfold udp_without_ipv4_checksum, UDP_LEN. change (65535 - 8) with 65527.
  destruct (65527 <? n); [reflexivity|]. unfold bind, add_chk. destruct (8 + n <? USIZE); reflexivity.
Qed.
Lemma udp_with_ipv4_checksum_c14 rest v :
  c14_new (udp_with_ipv4_checksum rest v) v udp_repr udp_max UdpPayloadLengthIpv4
    (udp_good rest v true).
Proof.
  apply (udp_ctor_c14 udp_with_ipv4_checksum UdpPayloadLengthIpv4 true 121).
  intros r n. unfold udp_with_ipv4_checksum, UDP_LEN. change (65535 - 8) with 65527.
  destruct (65527 <? n); [reflexivity|]. unfold bind, add_chk. destruct (8 + n <? USIZE); reflexivity.
Qed.
Lemma udp_with_ipv6_checksum_c14 rest v :
  c14_new (udp_with_ipv6_checksum rest v) v udp_repr udp_max UdpPayloadLengthIpv6
    (udp_good rest v true).
Proof.
  apply (udp_ctor_c14 udp_with_ipv6_checksum UdpPayloadLengthIpv6 true 122).
  intros r n. unfold udp_with_ipv6_checksum, UDP_LEN. change (65535 - 8) with 65527.
  destruct (65527 <? n); [reflexivity|]. unfold bind, add_chk. destruct (8 + n <? USIZE); reflexivity.
Qed.

(* calc_checksum_*: only the check; the pseudo header gets self.length *)
Lemma udp_calc_checksum_ipv4_c14 h v :
  c14_new (udp_calc_checksum_ipv4 h v) v udp_repr udp_max UdpPayloadLengthIpv4
    (fun l => l = u_length h).
Proof.
  apply (c14_new_intro _ v _ _ _ _ (negb (65527 <? v))).
  - apply udp_greatest.
  - rewrite nlt_true. unfold udp_repr, udp_hdr. unf. lia.
  - rewrite nlt_true. intros Hle. unfold udp_calc_checksum_ipv4, UDP_LEN. change (65535 - 8) with 65527.
    destruct (N.ltb_spec 65527 v); [lia|]. eexists; split; reflexivity.
  - rewrite nlt_false. intros Hlt. unfold udp_calc_checksum_ipv4, UDP_LEN. change (65535 - 8) with 65527.
    destruct (N.ltb_spec 65527 v); [|lia]. apply err_eq1. unfold udp_max, udp_hdr. unf. reflexivity.
Qed.
Lemma udp_calc_checksum_ipv6_c14 h v :
  c14_new (udp_calc_checksum_ipv6 h v) v udp6_pseudo_repr udp6_pseudo_max UdpPayloadLengthIpv6
    (fun l => l = u_length h).
Proof.
  apply (c14_new_intro _ v _ _ _ _ (negb (4294967287 <? v))).
  - apply udp6_pseudo_greatest.
  - rewrite nlt_true. unfold udp6_pseudo_repr, udp_hdr. unf. lia.
  - rewrite nlt_true. intros Hle. unfold udp_calc_checksum_ipv6, UDP_LEN.
    change (4294967295 - 8) with 4294967287.
    destruct (N.ltb_spec 4294967287 v); [lia|]. eexists; split; reflexivity.
  - rewrite nlt_false. intros Hlt. unfold udp_calc_checksum_ipv6, UDP_LEN.
    change (4294967295 - 8) with 4294967287.
    destruct (N.ltb_spec 4294967287 v); [|lia]. apply err_eq1. unfold udp6_pseudo_max, udp_hdr. unf. reflexivity.
Qed.

(* ======================================================================= *)
(* TCP / ICMPv6 checksums: the length put into the pseudo header           *)
(* ======================================================================= *)
Definition tcp_wf (h : tcph) : Prop := t_opt_len h <= 40.

Lemma tcp4_greatest hl : hl <= 60 -> greatest (tcp4_repr hl) (tcp4_max hl).
Proof. intros. unfold tcp4_repr, tcp4_max. unf. split; [lia | intros; lia]. Qed.
Lemma tcp6_greatest hl : hl <= 60 -> greatest (tcp6_repr hl) (tcp6_max hl).
Proof. intros. unfold tcp6_repr, tcp6_max. unf. split; [lia | intros; lia]. Qed.
Lemma tcp4_reprb_spec hl v : tcp4_reprb hl v = true <-> tcp4_repr hl v.
Proof. apply fitsb_spec. Qed.
Lemma tcp6_reprb_spec hl v : tcp6_reprb hl v = true <-> tcp6_repr hl v.
Proof. apply fitsb_spec. Qed.
Lemma tcp_header_len_spec h : tcp_header_len h = tcp_hdr_len (t_opt_len h).
Proof. unfold tcp_header_len, tcp_hdr_len, tcp_fixed. lia. Qed.

Lemma tcp_calc_checksum_ipv4_c14 h v : tcp_wf h ->
  c14_new (tcp_calc_checksum_ipv4 h v) v (tcp4_repr (tcp_hdr_len (t_opt_len h)))
    (tcp4_max (tcp_hdr_len (t_opt_len h))) TcpPayloadLengthIpv4
    (fun l => l = tcp_hdr_len (t_opt_len h) + v /\ wire16 (to_be16 l) = Some (tcp_hdr_len (t_opt_len h) + v)).
Proof.
  unfold tcp_wf. intros Hwf. set (o := t_opt_len h) in *.
  unfold tcp_hdr_len, tcp_fixed. change (5 * 4) with 20.
  apply (c14_new_intro _ v _ _ _ _ (negb (65515 - o <? v))).
  - apply tcp4_greatest. lia.
  - rewrite nlt_true. unfold tcp4_repr. unf. lia.
  - rewrite nlt_true. intros Hle.
    unfold tcp_calc_checksum_ipv4, tcp_header_len_u16, tcp_header_len, bind, sub_chk, add_chk, U16. fold o.
    destruct (N.leb_spec (20 + o) 65535); [|lia].
    destruct (N.ltb_spec (65535 - (20 + o)) v); [lia|].
    destruct (N.ltb_spec (20 + o) 65536); [|lia].
    rewrite as_u16_small by lia.
    destruct (N.ltb_spec (20 + o + v) 65536); [|lia].
    eexists. split; [reflexivity|]. split; [reflexivity|]. apply wire16_to_be16. lia.
  - rewrite nlt_false. intros Hlt.
    unfold tcp_calc_checksum_ipv4, tcp_header_len, bind, sub_chk. fold o.
    destruct (N.leb_spec (20 + o) 65535); [|lia].
    destruct (N.ltb_spec (65535 - (20 + o)) v); [|lia].
    apply err_eq1. unfold tcp4_max. unf. lia.
Qed.

Lemma tcp_calc_checksum_ipv6_c14 h v : tcp_wf h ->
  c14_new (tcp_calc_checksum_ipv6 h v) v (tcp6_repr (tcp_hdr_len (t_opt_len h)))
    (tcp6_max (tcp_hdr_len (t_opt_len h))) TcpPayloadLengthIpv6
    (fun l => l = tcp_hdr_len (t_opt_len h) + v /\ l < 2 ^ 32).
Proof.
  unfold tcp_wf. intros Hwf. set (o := t_opt_len h) in *.
  unfold tcp_hdr_len, tcp_fixed. change (5 * 4) with 20.
  apply (c14_new_intro _ v _ _ _ _ (negb (4294967275 - o <? v))).
  - apply tcp6_greatest. lia.
  - rewrite nlt_true. unfold tcp6_repr. unf. lia.
  - rewrite nlt_true. intros Hle.
    unfold tcp_calc_checksum_ipv6, tcp_header_len_u16, tcp_header_len, bind, sub_chk, add_chk, U16, U32. fold o.
    destruct (N.leb_spec (20 + o) 4294967295); [|lia].
    destruct (N.ltb_spec (4294967295 - (20 + o)) v); [lia|].
    destruct (N.ltb_spec (20 + o) 65536); [|lia].
    rewrite as_u32_small by lia.
    destruct (N.ltb_spec (20 + o + v) 4294967296); [|lia].
    eexists. split; [reflexivity|]. split; [reflexivity|]. unf. lia.
  - rewrite nlt_false. intros Hlt.
    unfold tcp_calc_checksum_ipv6, tcp_header_len, bind, sub_chk. fold o.
    destruct (N.leb_spec (20 + o) 4294967295); [|lia].
    destruct (N.ltb_spec (4294967295 - (20 + o)) v); [|lia].
    apply err_eq1. unfold tcp6_max. unf. lia.
Qed.

(* TcpHeaderSlice: sl = length of the header slice, 20..60 *)
Lemma tcphs_calc_checksum_ipv4_c14 sl v : sl <= 60 ->
  c14_new (tcphs_calc_checksum_ipv4 sl v) v (tcp4_repr sl) (tcp4_max sl) TcpPayloadLengthIpv4
    (fun l => l = sl + v /\ wire16 (to_be16 l) = Some (sl + v)).
Proof.
  intros Hsl.
  apply (c14_new_intro _ v _ _ _ _ (negb (65535 - sl <? v))).
  - apply tcp4_greatest. lia.
  - rewrite nlt_true. unfold tcp4_repr. unf. lia.
  - rewrite nlt_true. intros Hle.
    unfold tcphs_calc_checksum_ipv4, bind, sub_chk, add_chk, U16.
    rewrite (as_u16_small sl) by lia.
    destruct (N.leb_spec sl 65535); [|lia].
    destruct (N.ltb_spec (65535 - sl) v); [lia|].
    rewrite as_u16_small by lia.
    destruct (N.ltb_spec (sl + v) 65536); [|lia].
    eexists. split; [reflexivity|]. split; [reflexivity|]. apply wire16_to_be16. lia.
  - rewrite nlt_false. intros Hlt.
    unfold tcphs_calc_checksum_ipv4, bind, sub_chk. rewrite (as_u16_small sl) by lia.
    destruct (N.leb_spec sl 65535); [|lia].
    destruct (N.ltb_spec (65535 - sl) v); [|lia].
    apply err_eq1. unfold tcp4_max. unf. lia.
Qed.

Lemma tcphs_calc_checksum_ipv6_c14 sl v : sl <= 60 ->
  c14_new (tcphs_calc_checksum_ipv6 sl v) v (tcp6_repr sl) (tcp6_max sl) TcpPayloadLengthIpv6
    (fun l => l = sl + v /\ l < 2 ^ 32).
Proof.
  intros Hsl.
  apply (c14_new_intro _ v _ _ _ _ (negb (4294967295 - sl <? v))).
  - apply tcp6_greatest. lia.
  - rewrite nlt_true. unfold tcp6_repr. unf. lia.
  - rewrite nlt_true. intros Hle.
    unfold tcphs_calc_checksum_ipv6, bind, sub_chk, add_chk, U32.
    rewrite (as_u32_small sl) by lia.
    destruct (N.leb_spec sl 4294967295); [|lia].
    destruct (N.ltb_spec (4294967295 - sl) v); [lia|].
    rewrite as_u32_small by lia.
    destruct (N.ltb_spec (sl + v) 4294967296); [|lia].
    eexists. split; [reflexivity|]. split; [reflexivity|]. unf. lia.
  - rewrite nlt_false. intros Hlt.
    unfold tcphs_calc_checksum_ipv6, bind, sub_chk. rewrite (as_u32_small sl) by lia.
    destruct (N.leb_spec sl 4294967295); [|lia].
    destruct (N.ltb_spec (4294967295 - sl) v); [|lia].
    apply err_eq1. unfold tcp6_max. unf. lia.
Qed.

(* TcpSlice: the whole segment length is the value *)
Lemma tcpslice_calc_checksum_ipv4_c14 sl :
  c14_new (tcpslice_calc_checksum_ipv4 sl) sl (tcp4_repr 0) (tcp4_max 0) TcpPayloadLengthIpv4
    (fun l => l = sl /\ wire16 (to_be16 l) = Some sl).
Proof.
  apply (c14_new_intro _ sl _ _ _ _ (negb (65535 <? sl))).
  - apply tcp4_greatest. lia.
  - rewrite nlt_true. unfold tcp4_repr. unf. lia.
  - rewrite nlt_true. intros Hle. unfold tcpslice_calc_checksum_ipv4.
    destruct (N.ltb_spec 65535 sl); [lia|]. rewrite as_u16_small by lia.
    eexists. split; [reflexivity|]. split; [reflexivity|]. apply wire16_to_be16. lia.
  - rewrite nlt_false. intros Hlt. unfold tcpslice_calc_checksum_ipv4.
    destruct (N.ltb_spec 65535 sl); [|lia]. apply err_eq1. unfold tcp4_max. unf. reflexivity.
Qed.
Lemma tcpslice_calc_checksum_ipv6_c14 sl :
  c14_new (tcpslice_calc_checksum_ipv6 sl) sl (tcp6_repr 0) (tcp6_max 0) TcpPayloadLengthIpv6
    (fun l => l = sl /\ l < 2 ^ 32).
Proof.
  apply (c14_new_intro _ sl _ _ _ _ (negb (4294967295 <? sl))).
  - apply tcp6_greatest. lia.
  - rewrite nlt_true. unfold tcp6_repr. unf. lia.
  - rewrite nlt_true. intros Hle. unfold tcpslice_calc_checksum_ipv6.
    destruct (N.ltb_spec 4294967295 sl); [lia|]. rewrite as_u32_small by lia.
    eexists. split; [reflexivity|]. split; [reflexivity|]. unf. lia.
  - rewrite nlt_false. intros Hlt. unfold tcpslice_calc_checksum_ipv6.
    destruct (N.ltb_spec 4294967295 sl); [|lia]. apply err_eq1. unfold tcp6_max. unf. reflexivity.
Qed.

Lemma icmp6_greatest : greatest icmp6_repr icmp6_max.
Proof. unfold icmp6_repr, icmp6_max, icmp6_hdr. unf. split; [lia | intros; lia]. Qed.
Lemma icmp6_reprb_spec v : icmp6_reprb v = true <-> icmp6_repr v.
Proof. apply fitsb_spec. Qed.

Lemma icmpv6_calc_checksum_c14 v :
  c14_new (icmpv6_calc_checksum v) v icmp6_repr icmp6_max Icmpv6PayloadLength
    (fun l => l = icmp6_hdr + v /\ l < 2 ^ 32).
Proof.
  apply (c14_new_intro _ v _ _ _ _ (negb (4294967287 <? v))).
  - apply icmp6_greatest.
  - rewrite nlt_true. unfold icmp6_repr, icmp6_hdr. unf. lia.
  - rewrite nlt_true. intros Hle. unfold icmpv6_calc_checksum, bind, sub_chk, add_chk, USIZE.
    change (8 <=? 4294967295) with true. cbv iota. change (4294967295 - 8) with 4294967287.
    destruct (N.ltb_spec 4294967287 v); [lia|].
    destruct (N.ltb_spec (v + 8) 18446744073709551616); [|lia].
    rewrite as_u32_small by lia. eexists. split; [reflexivity|]. unfold icmp6_hdr. unf. split; lia.
  - rewrite nlt_false. intros Hlt. unfold icmpv6_calc_checksum, bind, sub_chk.
    change (8 <=? 4294967295) with true. cbv iota. change (4294967295 - 8) with 4294967287.
    destruct (N.ltb_spec 4294967287 v); [|lia]. apply err_eq1. unfold icmp6_max, icmp6_hdr. unf. reflexivity.
Qed.

(* ======================================================================= *)
(* MACsec short length                                                     *)
(* ======================================================================= *)
Lemma macsec_greatest u : greatest (macsec_repr u) (macsec_max u).
Proof.
  unfold macsec_repr, macsec_max, macsec_sl. unf. destruct u; split; try lia; intros; lia.
Qed.
Lemma macsec_reprb_spec u v : macsec_reprb u v = true <-> macsec_repr u v.
Proof. apply fitsb_spec. Qed.
Lemma land63 x : x < 64 -> N.land x 63 = x.
Proof. intros Hx. change 63 with (N.ones 6). rewrite N.land_ones. apply N.mod_small. exact Hx. Qed.

Lemma macsec_set_payload_len_c14 h v :
  c14_macsec (macsec_set_payload_len h v) (m_unmodified h) v
    m_short_len macsec_sl_byte macsec_expected_payload_len
    (fun h' => m_unmodified h' = m_unmodified h /\ m_rest h' = m_rest h).
Proof.
  unfold c14_macsec. split; [apply macsec_greatest|].
  destruct h as [u sl0 rest]. cbn [m_unmodified m_rest].
  unfold macsec_set_payload_len, macsec_repr, macsec_sl, macsec_unknown, MACSEC_MAX_USIZE,
    macsec_from_u8_unchecked, sbind, add_chk, U8, m_set_sl, macsec_sl_byte, macsec_expected_payload_len,
    macsec_dec, macsec_unknown. unf.
  cbn [m_unmodified m_short_len m_rest]. change (63 - 2) with 61.
  destruct u.
  - destruct (N.ltb_spec 61 v).
    + cbn [fst snd m_short_len m_unmodified m_rest]. change (N.land 0 63) with 0.
      repeat split; intros; try lia; reflexivity.
    + rewrite as_u8_small by lia.
      destruct (N.ltb_spec (v + 2) 256); [|lia]. destruct (N.leb_spec (v + 2) 63); [|lia].
      cbn [fst snd m_short_len m_unmodified m_rest]. rewrite land63 by lia.
      destruct (N.ltb_spec 0 (v + 2)); [|lia]. destruct (N.eqb_spec (v + 2) 0); [lia|].
      destruct (N.ltb_spec (v + 2) 2); [lia|].
      repeat split; intros; try lia; try reflexivity; f_equal; lia.
  - destruct (N.ltb_spec 63 v).
    + cbn [fst snd m_short_len m_unmodified m_rest]. change (N.land 0 63) with 0.
      repeat split; intros; try lia; reflexivity.
    + rewrite as_u8_small by lia. destruct (N.leb_spec v 63); [|lia].
      cbn [fst snd m_short_len m_unmodified m_rest]. rewrite land63 by lia.
      destruct (N.ltb_spec 0 v); destruct (N.eqb_spec v 0); try lia;
        repeat split; intros; try lia; try reflexivity; f_equal; lia.
Qed.

Lemma macsec_short_len_from_len_c14 v :
  (macsec_repr false v -> macsec_short_len_from_len v = v) /\
  (~ macsec_repr false v -> macsec_short_len_from_len v = macsec_unknown).
Proof.
  unfold macsec_short_len_from_len, macsec_repr, macsec_sl, macsec_unknown. unf.
  destruct (N.ltb_spec 63 v); split; intros; try lia; try reflexivity.
  apply as_u8_small. lia.
Qed.

Lemma macsec_short_len_try_from_u8_c14 v :
  c14_new (macsec_short_len_try_from_u8 v) v (fits 6) (field_max 6) MacsecShortLen (fun s => s = v).
Proof.
  apply (c14_new_intro _ v _ _ _ _ (v <=? 63)).
  - unf. split; [lia | intros; lia].
  - rewrite N.leb_le. unf. lia.
  - rewrite N.leb_le. intros Hle. unfold macsec_short_len_try_from_u8.
    destruct (N.leb_spec v 63); [|lia]. eexists; split; reflexivity.
  - intros Hb. unfold macsec_short_len_try_from_u8. rewrite Hb. apply err_eq1. reflexivity.
Qed.

(* ======================================================================= *)
(* AH ICV                                                                  *)
(* ======================================================================= *)
Lemma ah_max_val : ah_max = 1016. Proof. reflexivity. Qed.
Lemma ah_repr_iff n : ah_repr n <-> n <= 1016 /\ n mod 4 = 0.
Proof.
  unfold ah_repr, ah_fixed. unf. split.
  - intros [Hm Hf]. split; [dmlia | exact Hm].
  - intros [Hl Hm]. split; [exact Hm | dmlia].
Qed.
Lemma ah_greatest : greatest ah_repr ah_max.
Proof.
  rewrite ah_max_val. split.
  - apply ah_repr_iff. split; [lia | reflexivity].
  - intros v Hv. apply ah_repr_iff in Hv. lia.
Qed.
Lemma ah_reprb_spec n : ah_reprb n = true <-> ah_repr n.
Proof. unfold ah_reprb, ah_repr. rewrite andb_true_iff, fitsb_spec, N.eqb_eq. tauto. Qed.

(* accepted ICV of n bytes: stored length field, encoded Payload Len byte,
   what raw_icv().len() and header_len() give back *)
Definition ah_good (rest n : N) (h : ahh) : Prop :=
  (exists f, ah_len_byte (E:=unit) h = Ok f /\ fits 8 f /\ ah_dec f = n /\ ah_total_len f = ah_fixed + n) /\
  ah_raw_icv_len_bytes h = n /\ ah_header_len (a_raw_icv_len h) = ah_fixed + n /\
  a_raw_icv_len h < 256 /\ a_rest h = rest.

Lemma ah_good_intro rest n : n <= 1016 -> n mod 4 = 0 ->
  ah_good rest n {| a_raw_icv_len := as_u8 (n / 4); a_rest := rest |}.
Proof.
  intros Hl Hm. assert (Hq : n / 4 <= 254) by dmlia. rewrite as_u8_small by lia.
  unfold ah_good, ah_len_byte, ah_raw_icv_len_bytes, ah_header_len, add_chk, U8, ah_dec, ah_total_len, ah_fixed.
  cbn [a_raw_icv_len a_rest]. destruct (N.ltb_spec (n / 4 + 1) 256); [|lia].
  repeat split; try lia; try dmlia.
  exists (n / 4 + 1). unf. repeat split; try lia; dmlia.
Qed.

Lemma ah_new_c14 rest n : c14_gen (ah_new rest n) n ah_repr ah_bad (ah_good rest n).
Proof.
  apply (c14_gen_intro _ n _ _ _ (negb (1016 <? n) && (n mod 4 =? 0))).
  - rewrite ah_repr_iff, andb_true_iff, nlt_true, N.eqb_eq. tauto.
  - rewrite andb_true_iff, nlt_true, N.eqb_eq. intros [Hl Hm].
    unfold ah_new, AH_MAX_ICV_LEN, bind, slice_to. change (254 * 4) with 1016.
    destruct (N.ltb_spec 1016 n); [lia|]. rewrite Hm. cbn [N.eqb negb].
    change (0 =? 0) with true. cbn [negb]. destruct (N.leb_spec n 1016); [|lia].
    eexists. split; [reflexivity|]. apply ah_good_intro; assumption.
  - intros Hb. unfold ah_new, ah_bad, AH_MAX_ICV_LEN. rewrite ah_max_val. change (254 * 4) with 1016.
    destruct (N.ltb_spec 1016 n); [reflexivity|]. cbn [negb andb] in Hb.
    rewrite (N.eqb_sym 0 (n mod 4)), Hb. reflexivity.
Qed.

Lemma ah_set_raw_icv_c14 h n :
  c14_gen_set (ah_set_raw_icv h n) h n ah_repr ah_bad (ah_good (a_rest h) n).
Proof.
  apply (c14_gen_set_intro _ h n _ _ _ (negb (1016 <? n) && (n mod 4 =? 0))).
  - rewrite ah_repr_iff, andb_true_iff, nlt_true, N.eqb_eq. tauto.
  - rewrite andb_true_iff, nlt_true, N.eqb_eq. intros [Hl Hm].
    unfold ah_set_raw_icv, AH_MAX_ICV_LEN, sbind, slice_to. change (254 * 4) with 1016.
    destruct (N.ltb_spec 1016 n); [lia|]. rewrite Hm. change (0 =? 0) with true. cbn [negb].
    destruct (N.leb_spec n 1016); [|lia]. cbn [fst snd]. split; [reflexivity|].
    apply ah_good_intro; assumption.
  - intros Hb. unfold ah_set_raw_icv, ah_bad, AH_MAX_ICV_LEN. rewrite ah_max_val. change (254 * 4) with 1016.
    destruct (N.ltb_spec 1016 n); [reflexivity|]. cbn [negb andb] in Hb.
    rewrite (N.eqb_sym 0 (n mod 4)), Hb. reflexivity.
Qed.

(* ======================================================================= *)
(* IPv6 generic extension header payload                                   *)
(* ======================================================================= *)
Lemma ext_min_val : ext_min = 6. Proof. reflexivity. Qed.
Lemma ext_max_val : ext_max = 2046. Proof. reflexivity. Qed.
Lemma ext_repr_iff n : ext_repr n <-> 6 <= n /\ n <= 2046 /\ (n + 2) mod 8 = 0.
Proof.
  unfold ext_repr. unf. replace (2 + n) with (n + 2) by lia. split.
  - intros [Hm [Hl Hf]]. repeat split; [lia | dmlia | exact Hm].
  - intros [Hl [Hu Hm]]. repeat split; [exact Hm | lia | dmlia].
Qed.
Lemma ext_greatest : greatest ext_repr ext_max /\ least ext_repr ext_min.
Proof.
  rewrite ext_max_val, ext_min_val. split; split.
  - apply ext_repr_iff. repeat split; try lia.
  - intros v Hv. apply ext_repr_iff in Hv. lia.
  - apply ext_repr_iff. repeat split; try lia.
  - intros v Hv. apply ext_repr_iff in Hv. lia.
Qed.
Lemma ext_reprb_spec n : ext_reprb n = true <-> ext_repr n.
Proof.
  unfold ext_reprb, ext_repr. rewrite !andb_true_iff, fitsb_spec, N.eqb_eq, N.leb_le. tauto.
Qed.

Definition ext_good (rest n : N) (h : exth) : Prop :=
  fits 8 (e_header_length h) /\ ext_dec (e_header_length h) = n /\
  ext_total_len (e_header_length h) = 2 + n /\
  rawext_payload_len h = n /\ rawext_header_len (e_header_length h) = 2 + n /\ e_rest h = rest.

Lemma ext_good_intro rest n : 6 <= n -> n <= 2046 -> (n + 2) mod 8 = 0 ->
  ext_good rest n {| e_header_length := as_u8 ((n - 6) / 8); e_rest := rest |}.
Proof.
  intros Hl Hu Hm. assert (Hq : (n - 6) / 8 <= 255) by dmlia. rewrite as_u8_small by lia.
  unfold ext_good, ext_dec, ext_total_len, rawext_payload_len, rawext_header_len.
  cbn [e_header_length e_rest]. unf.
  repeat split; try lia; dmlia.
Qed.

Lemma ext_cond n : 6 <= n -> n <= 2046 ->
  negb (0 =? (n + 2) mod 8) = negb ((n + 2) mod 8 =? 0).
Proof. intros. rewrite N.eqb_sym. reflexivity. Qed.

Lemma rawext_new_raw_c14 rest n : c14_gen (rawext_new_raw rest n) n ext_repr ext_bad (ext_good rest n).
Proof.
  apply (c14_gen_intro _ n _ _ _ (negb (n <? 6) && negb (2046 <? n) && ((n + 2) mod 8 =? 0))).
  - rewrite ext_repr_iff, !andb_true_iff, !nlt_true, N.eqb_eq. tauto.
  - rewrite !andb_true_iff, !nlt_true, N.eqb_eq. intros [[Hl Hu] Hm].
    unfold rawext_new_raw, EXT_MIN_PAYLOAD_LEN, EXT_MAX_PAYLOAD_LEN, bind, add_chk, sub_chk, slice_to, USIZE.
    change (255 * 8 + 6) with 2046.
    destruct (N.ltb_spec n 6); [lia|]. destruct (N.ltb_spec 2046 n); [lia|].
    destruct (N.ltb_spec (n + 2) 18446744073709551616); [|lia].
    rewrite Hm. change (0 =? 0) with true. cbn [negb].
    destruct (N.leb_spec 6 n); [|lia]. destruct (N.leb_spec n 2046); [|lia].
    eexists. split; [reflexivity|]. apply ext_good_intro; assumption.
  - intros Hb. unfold rawext_new_raw, ext_bad, EXT_MIN_PAYLOAD_LEN, EXT_MAX_PAYLOAD_LEN, bind, add_chk, USIZE.
    rewrite ext_min_val, ext_max_val. change (255 * 8 + 6) with 2046.
    destruct (N.ltb_spec n 6); [reflexivity|]. destruct (N.ltb_spec 2046 n); [reflexivity|].
    cbn [negb andb] in Hb.
    destruct (N.ltb_spec (n + 2) 18446744073709551616); [|lia].
    rewrite (N.eqb_sym 0 ((n + 2) mod 8)), Hb. reflexivity.
Qed.

Lemma rawext_set_payload_c14 h n :
  c14_gen_set (rawext_set_payload h n) h n ext_repr ext_bad (ext_good (e_rest h) n).
Proof.
  apply (c14_gen_set_intro _ h n _ _ _ (negb (n <? 6) && negb (2046 <? n) && ((n + 2) mod 8 =? 0))).
  - rewrite ext_repr_iff, !andb_true_iff, !nlt_true, N.eqb_eq. tauto.
  - rewrite !andb_true_iff, !nlt_true, N.eqb_eq. intros [[Hl Hu] Hm].
    unfold rawext_set_payload, EXT_MIN_PAYLOAD_LEN, EXT_MAX_PAYLOAD_LEN, sbind, add_chk, sub_chk, slice_to, USIZE.
    change (255 * 8 + 6) with 2046.
    destruct (N.ltb_spec n 6); [lia|]. destruct (N.ltb_spec 2046 n); [lia|].
    destruct (N.ltb_spec (n + 2) 18446744073709551616); [|lia].
    rewrite Hm. change (0 =? 0) with true. cbn [negb].
    destruct (N.leb_spec n 2046); [|lia]. destruct (N.leb_spec 6 n); [|lia].
    cbn [fst snd]. split; [reflexivity|]. apply ext_good_intro; assumption.
  - intros Hb. unfold rawext_set_payload, ext_bad, EXT_MIN_PAYLOAD_LEN, EXT_MAX_PAYLOAD_LEN, sbind, add_chk, USIZE.
    rewrite ext_min_val, ext_max_val. change (255 * 8 + 6) with 2046.
    destruct (N.ltb_spec n 6); [reflexivity|]. destruct (N.ltb_spec 2046 n); [reflexivity|].
    cbn [negb andb] in Hb.
    destruct (N.ltb_spec (n + 2) 18446744073709551616); [|lia].
    rewrite (N.eqb_sym 0 ((n + 2) mod 8)), Hb. reflexivity.
Qed.

(* ======================================================================= *)
(* TCP options                                                             *)
(* ======================================================================= *)
Lemma tcp_opts_max_val : tcp_opts_max = 40. Proof. reflexivity. Qed.
Lemma tcp_opts_repr_iff n : tcp_opts_repr n <-> n <= 40.
Proof.
  unfold tcp_opts_repr, tcp_hdr_len, tcp_fixed, pad4. unf. change (5 * 4) with 20. split; intros; dmlia.
Qed.
Lemma tcp_opts_greatest : greatest tcp_opts_repr tcp_opts_max.
Proof.
  rewrite tcp_opts_max_val. split; [apply tcp_opts_repr_iff; lia|].
  intros v Hv. now apply tcp_opts_repr_iff in Hv.
Qed.
Lemma tcp_opts_reprb_spec n : tcp_opts_reprb n = true <-> tcp_opts_repr n.
Proof. apply fitsb_spec. Qed.

(* the finite part (option areas of 0..40 bytes) is swept by computation *)
Definition range41 : list N := map N.of_nat (seq 0 41).
Lemma in_range41 n : n <= 40 -> In n range41.
Proof.
  intros Hn. unfold range41. apply in_map_iff. exists (N.to_nat n). split; [lia|].
  apply in_seq. lia.
Qed.

(* stored length l of an accepted option area of n bytes *)
Definition tcp_opts_goodb (n l : N) : bool :=
  (l =? pad4 n) && (l <=? 40) &&
  match tcp_data_offset (E:=unit) l with
  | Ok d => (d <? 16) && (tcp_opts_dec d =? pad4 n) && (tcp_hdr_len l =? d * 4)
  | _ => false
  end.
Definition tcp_opts_good (n l : N) : Prop :=
  l = pad4 n /\ l <= 40 /\
  exists d, tcp_data_offset (E:=unit) l = Ok d /\ fits 4 d /\ tcp_opts_dec d = pad4 n /\ tcp_hdr_len l = d * 4.
Lemma tcp_opts_goodb_good n l : tcp_opts_goodb n l = true -> tcp_opts_good n l.
Proof.
  unfold tcp_opts_goodb, tcp_opts_good. rewrite !andb_true_iff, N.eqb_eq, N.leb_le.
  intros [[H1 H2] H3]. split; [exact H1|]. split; [exact H2|].
  destruct (tcp_data_offset l) as [d| |]; try discriminate. exists d.
  rewrite !andb_true_iff, N.ltb_lt, !N.eqb_eq in H3. unf. intuition.
Qed.

Definition tcp_slice_sweep (n : N) : bool :=
  match tcp_options_try_from_slice n with Ok l => tcp_opts_goodb n l | _ => false end.
Lemma tcp_slice_sweep_ok : forallb tcp_slice_sweep range41 = true.
Proof. vm_compute. reflexivity. Qed.

Lemma tcp_options_try_from_slice_c14 n :
  c14_gen (tcp_options_try_from_slice n) n tcp_opts_repr (fun not_enough_space => not_enough_space)
    (tcp_opts_good n).
Proof.
  apply (c14_gen_intro _ n _ _ _ (negb (40 <? n))).
  - rewrite nlt_true, tcp_opts_repr_iff. tauto.
  - rewrite nlt_true. intros Hle.
    pose proof (proj1 (forallb_forall _ _) tcp_slice_sweep_ok n (in_range41 n Hle)) as Hs.
    unfold tcp_slice_sweep in Hs. destruct (tcp_options_try_from_slice n) as [l| |]; try discriminate.
    exists l. split; [reflexivity|]. now apply tcp_opts_goodb_good.
  - rewrite nlt_false. intros Hlt. unfold tcp_options_try_from_slice.
    destruct (N.ltb_spec 40 n); [reflexivity | lia].
Qed.

Lemma fold_left_add l a : fold_left (fun acc x => acc + x) l a = a + nsum l.
Proof.
  unfold nsum. revert a. induction l as [|x l IH]; intros a; cbn [fold_left fold_right]; [lia|].
  rewrite IH. lia.
Qed.

Definition tcp_pad_len (len : N) : N :=
  as_u8 (if (0 <? len) && negb (N.land len 3 =? 0) then N.ldiff len 3 + 4 else len).
Lemma tcp_options_try_from_elements_eq sizes :
  tcp_options_try_from_elements sizes =
  if 40 <? nsum sizes then Err (nsum sizes) else Ok (tcp_pad_len (nsum sizes)).
Proof.
  unfold tcp_options_try_from_elements, tcp_pad_len. rewrite !fold_left_add. reflexivity.
Qed.
Lemma tcp_elements_sweep_ok : forallb (fun s => tcp_opts_goodb s (tcp_pad_len s)) range41 = true.
Proof. vm_compute. reflexivity. Qed.

Lemma tcp_options_try_from_elements_c14 sizes :
  c14_gen (tcp_options_try_from_elements sizes) (nsum sizes) tcp_opts_repr
    (fun not_enough_space => not_enough_space) (tcp_opts_good (nsum sizes)).
Proof.
  rewrite tcp_options_try_from_elements_eq. set (n := nsum sizes).
  apply (c14_gen_intro _ n _ _ _ (negb (40 <? n))).
  - rewrite nlt_true, tcp_opts_repr_iff. tauto.
  - rewrite nlt_true. intros Hle. destruct (N.ltb_spec 40 n); [lia|].
    eexists. split; [reflexivity|]. apply tcp_opts_goodb_good.
    exact (proj1 (forallb_forall _ _) tcp_elements_sweep_ok n (in_range41 n Hle)).
  - rewrite nlt_false. intros Hlt. destruct (N.ltb_spec 40 n); [reflexivity | lia].
Qed.

Definition tcp_set_good (h : tcph) (n : N) (h' : tcph) : Prop :=
  tcp_opts_good n (t_opt_len h') /\ tcp_wf h' /\ t_rest h' = t_rest h.

Lemma tcp_set_options_raw_c14 h n :
  c14_gen_set (tcp_set_options_raw h n) h n tcp_opts_repr (fun nes => nes) (tcp_set_good h n).
Proof.
  destruct (tcp_options_try_from_slice_c14 n) as [Hiff [Hok Hbad]].
  apply (c14_gen_set_intro _ h n _ _ _ (tcp_opts_reprb n)).
  - apply tcp_opts_reprb_spec.
  - intros Hb. apply tcp_opts_reprb_spec in Hb. destruct (Hok Hb) as [l [Hl Hg]].
    unfold tcp_set_options_raw. rewrite Hl. cbn [sbind fst snd]. split; [reflexivity|].
    unfold tcp_set_good, tcp_wf. cbn [t_opt_len t_rest]. split; [exact Hg|]. split; [|reflexivity].
    destruct Hg as [_ [Hle _]]. exact Hle.
  - intros Hb. assert (Hn : ~ tcp_opts_repr n).
    { intros HR. apply tcp_opts_reprb_spec in HR. congruence. }
    unfold tcp_set_options_raw. rewrite (Hbad Hn). reflexivity.
Qed.

Lemma tcp_set_options_c14 h sizes :
  c14_gen_set (tcp_set_options h sizes) h (nsum sizes) tcp_opts_repr (fun nes => nes)
    (tcp_set_good h (nsum sizes)).
Proof.
  destruct (tcp_options_try_from_elements_c14 sizes) as [Hiff [Hok Hbad]]. set (n := nsum sizes) in *.
  apply (c14_gen_set_intro _ h n _ _ _ (tcp_opts_reprb n)).
  - apply tcp_opts_reprb_spec.
  - intros Hb. apply tcp_opts_reprb_spec in Hb. destruct (Hok Hb) as [l [Hl Hg]].
    unfold tcp_set_options. rewrite Hl. cbn [sbind fst snd]. split; [reflexivity|].
    unfold tcp_set_good, tcp_wf. cbn [t_opt_len t_rest]. split; [exact Hg|]. split; [|reflexivity].
    destruct Hg as [_ [Hle _]]. exact Hle.
  - intros Hb. assert (Hn : ~ tcp_opts_repr n).
    { intros HR. apply tcp_opts_reprb_spec in HR. congruence. }
    unfold tcp_set_options. rewrite (Hbad Hn). reflexivity.
Qed.

(* ======================================================================= *)
(* ARP                                                                     *)
(* ======================================================================= *)
Lemma arp_greatest : greatest arp_repr arp_max.
Proof. unfold arp_repr, arp_max. unf. split; [lia | intros; lia]. Qed.
Lemma arp_reprb_spec n : arp_reprb n = true <-> arp_repr n.
Proof. apply fitsb_spec. Qed.
Lemma arp_repr_iff n : arp_repr n <-> n <= 255.
Proof. unfold arp_repr. unf. lia. Qed.

(* ArpPacket::new with matching address lengths: both lengths have to fit *)
Lemma arp_new_c14 rest hw pr :
  (arp_repr hw -> arp_repr pr ->
     arp_new rest hw pr hw pr = Ok {| ar_hw_size := hw; ar_proto_size := pr; ar_rest := rest |}) /\
  (~ arp_repr hw -> arp_new rest hw pr hw pr = Err (ArpHwTooBig hw)) /\
  (arp_repr hw -> ~ arp_repr pr -> arp_new rest hw pr hw pr = Err (ArpProtoTooBig pr)) /\
  ((exists a, arp_new rest hw pr hw pr = Ok a) <-> arp_repr hw /\ arp_repr pr).
Proof.
  rewrite !arp_repr_iff. unfold arp_new, arp_copy, bind. rewrite !N.eqb_refl. cbn [negb].
  destruct (N.ltb_spec 255 hw); [|destruct (N.ltb_spec 255 pr)].
  - repeat split; intros; try lia; try reflexivity;
      match goal with Hx : exists _, Err _ = Ok _ |- _ => destruct Hx; discriminate end.
  - repeat split; intros; try lia; try reflexivity;
      match goal with Hx : exists _, Err _ = Ok _ |- _ => destruct Hx; discriminate end.
  - destruct (N.leb_spec hw 255); [|lia]. destruct (N.leb_spec pr 255); [|lia].
    rewrite !as_u8_small by lia.
    repeat split; intros; try lia; try reflexivity. eexists; reflexivity.
Qed.

Lemma arp_new_non_matching rest shw sp thw tp :
  (shw <> thw -> arp_new rest shw sp thw tp = Err (ArpHwNonMatching shw thw)) /\
  (shw = thw -> sp <> tp -> arp_new rest shw sp thw tp = Err (ArpProtoNonMatching sp tp)).
Proof.
  unfold arp_new. split.
  - intros Hn. destruct (N.eqb_spec shw thw); [contradiction | reflexivity].
  - intros -> Hn. rewrite N.eqb_refl. cbn [negb]. destruct (N.eqb_spec sp tp); [contradiction | reflexivity].
Qed.

Lemma arp_set_hw_addrs_c14 h n :
  c14_gen_set (arp_set_hw_addrs h n n) h n arp_repr ArpHwTooBig
    (fun h' => ar_hw_size h' = n /\ ar_proto_size h' = ar_proto_size h /\ ar_rest h' = ar_rest h).
Proof.
  apply (c14_gen_set_intro _ h n _ _ _ (negb (255 <? n))).
  - rewrite nlt_true, arp_repr_iff. tauto.
  - rewrite nlt_true. intros Hle. unfold arp_set_hw_addrs, arp_copy, sbind. rewrite N.eqb_refl. cbn [negb].
    destruct (N.ltb_spec 255 n); [lia|]. destruct (N.leb_spec n 255); [|lia].
    cbn [fst snd ar_hw_size ar_proto_size ar_rest]. rewrite as_u8_small by lia. repeat split.
  - rewrite nlt_false. intros Hlt. unfold arp_set_hw_addrs. rewrite N.eqb_refl. cbn [negb].
    destruct (N.ltb_spec 255 n); [reflexivity | lia].
Qed.

Lemma arp_set_protocol_addrs_c14 h n :
  c14_gen_set (arp_set_protocol_addrs h n n) h n arp_repr ArpProtoTooBig
    (fun h' => ar_proto_size h' = n /\ ar_hw_size h' = ar_hw_size h /\ ar_rest h' = ar_rest h).
Proof.
  apply (c14_gen_set_intro _ h n _ _ _ (negb (255 <? n))).
  - rewrite nlt_true, arp_repr_iff. tauto.
  - rewrite nlt_true. intros Hle. unfold arp_set_protocol_addrs, arp_copy, sbind. rewrite N.eqb_refl. cbn [negb].
    destruct (N.ltb_spec 255 n); [lia|]. destruct (N.leb_spec n 255); [|lia].
    cbn [fst snd ar_hw_size ar_proto_size ar_rest]. rewrite as_u8_small by lia. repeat split.
  - rewrite nlt_false. intros Hlt. unfold arp_set_protocol_addrs. rewrite N.eqb_refl. cbn [negb].
    destruct (N.ltb_spec 255 n); [reflexivity | lia].
Qed.

Lemma arp_set_non_matching h s t : s <> t ->
  arp_set_hw_addrs h s t = (Err (ArpHwNonMatching s t), h) /\
  arp_set_protocol_addrs h s t = (Err (ArpProtoNonMatching s t), h).
Proof.
  intros Hn. unfold arp_set_hw_addrs, arp_set_protocol_addrs.
  destruct (N.eqb_spec s t); [contradiction|]. split; reflexivity.
Qed.

(* ======================================================================= *)
(* PacketBuilder                                                           *)
(* ======================================================================= *)
Definition transport_wf (t : transport) : Prop :=
  match t with TTcp h => tcp_wf h | TIcmpv4 l => l <= 20 | _ => True end.
Lemma transport_len_bound t : transport_wf t -> transport_header_len t <= 60.
Proof. destruct t; cbn; unfold tcp_wf, tcp_header_len, UDP_LEN; intros; lia. Qed.

Lemma build_ip_payload_eq e t v : e + transport_header_len t + v < 2 ^ 64 ->
  build_ip_payload e t v = Ok (e + transport_header_len t + v).
Proof.
  unf. intros Hlt. unfold build_ip_payload, bind, add_chk, USIZE.
  destruct (N.ltb_spec (e + transport_header_len t) 18446744073709551616); [|lia].
  destruct (N.ltb_spec (e + transport_header_len t + v) 18446744073709551616); [reflexivity | lia].
Qed.
Lemma build_udp_len_eq t v : slice_len_ok v ->
  build_udp_len t v = Ok (match t with TUdp => Some (as_u16 (8 + v)) | _ => None end).
Proof.
  unf. intros Hv. destruct t; try reflexivity. unfold build_udp_len, bind, add_chk, USIZE, UDP_LEN.
  destruct (N.ltb_spec (8 + v) 18446744073709551616); [reflexivity | lia].
Qed.

Lemma build4_greatest o e tl : o <= 40 -> e <= 1032 -> tl <= 60 ->
  greatest (build4_repr o e tl) (build4_max o e tl).
Proof.
  intros. unfold build4_repr, build4_max, ipv4_hdr_len, ipv4_fixed. unf. change (5 * 4) with 20.
  split; [lia | intros; lia].
Qed.
Lemma build6_greatest e tl : e <= 9232 -> tl <= 60 -> greatest (build6_repr e tl) (build6_max e tl).
Proof. intros. unfold build6_repr, build6_max. unf. split; [lia | intros; lia]. Qed.
Lemma build4_reprb_spec o e tl v : build4_reprb o e tl v = true <-> build4_repr o e tl v.
Proof. apply fitsb_spec. Qed.
Lemma build6_reprb_spec e tl v : build6_reprb e tl v = true <-> build6_repr e tl v.
Proof. apply fitsb_spec. Qed.

(* what the builder wrote for an accepted payload of v bytes *)
Definition built_good (ip_len : N) (t : transport) (v : N) (b : built) : Prop :=
  b_ip_len b = ip_len /\ wire16 (to_be16 (b_ip_len b)) = Some ip_len /\
  (t = TUdp -> b_udp_len b = Some (udp_hdr + v) /\ b_pseudo_len b = Some (udp_hdr + v)) /\
  (forall h, t = TTcp h -> b_pseudo_len b = Some (tcp_hdr_len (t_opt_len h) + v)) /\
  (t <> TUdp -> b_udp_len b = None).

Lemma build_ipv4_c14 ip x t v : ipv4_wf ip -> v4exts_wf x -> transport_wf t -> slice_len_ok v ->
  let o := v4_opt_len ip in
  let e := v4x_len x in
  let tl := transport_header_len t in
  greatest (build4_repr o e tl) (build4_max o e tl) /\
  (t <> TIcmpv6 -> ((exists b, build_ipv4 ip x t v = Ok b) <-> build4_repr o e tl v)) /\
  (build4_repr o e tl v -> t <> TIcmpv6 ->
     exists b, build_ipv4 ip x t v = Ok b /\ built_good (ipv4_hdr_len o + e + tl + v) t v b) /\
  (build4_repr o e tl v -> t = TIcmpv6 -> build_ipv4 ip x t v = Err BIcmpv6InIpv4) /\
  (~ build4_repr o e tl v ->
     build_ipv4 ip x t v = Err (BPayloadLen (mk_vtb (e + tl + v) (ipv4_max o) Ipv4PayloadLength)) /\
     ipv4_max o = build4_max o e tl + (e + tl)).
Proof.
  intros Hwf Hx Ht Hv o e tl.
  pose proof (v4x_len_bound x Hx) as He. fold e in He.
  pose proof (transport_len_bound t Ht) as Htl. fold tl in Htl.
  assert (Ho : o <= 40) by exact Hwf.
  assert (Hv' : v < 9223372036854775808) by (revert Hv; unf; trivial).
  assert (Hrepr : build4_repr o e tl v <-> e + tl + v <= 65515 - o).
  { unfold build4_repr, ipv4_hdr_len, ipv4_fixed. unf. change (5 * 4) with 20. lia. }
  assert (Heq : build_ipv4 ip x t v =
    if 65515 - o <? e + tl + v
    then Err (BPayloadLen (mk_vtb (e + tl + v) (65515 - o) Ipv4PayloadLength))
    else match t with
         | TIcmpv6 => Err BIcmpv6InIpv4
         | _ => Ok {| b_ip_len := 20 + o + (e + tl + v);
                      b_udp_len := match t with TUdp => Some (8 + v) | _ => None end;
                      b_pseudo_len := match t with
                                      | TUdp => Some (8 + v)
                                      | TTcp h => Some (20 + t_opt_len h + v)
                                      | _ => None end |}
         end).
  { unfold build_ipv4. rewrite (build_udp_len_eq t v Hv). rewrite v4exts_header_len_spec. fold e.
    rewrite build_ip_payload_eq by (fold tl; unf; lia). fold tl. cbn [bind].
    rewrite (ipv4_set_payload_len_eq ip _ Hwf). fold o.
    destruct (N.ltb_spec (65515 - o) (e + tl + v)); [reflexivity|].
    unfold v4_set_total. cbn [v4_total_len].
    destruct t as [| |th|l|]; cbn [bind lift_vtb]; try reflexivity.
    - (* UDP *) cbn [transport_header_len] in *. unfold UDP_LEN in *. subst tl.
      unfold udp_calc_checksum_ipv4, UDP_LEN. cbn [u_length]. change (65535 - 8) with 65527.
      destruct (N.ltb_spec 65527 v); [lia|]. cbn [lift_vtb bind]. rewrite as_u16_small by lia. reflexivity.
    - (* TCP *) cbn [transport_header_len transport_wf] in *. subst tl.
      destruct (tcp_calc_checksum_ipv4_c14 th v Ht) as [_ [_ [Hok _]]].
      destruct Hok as [l [Hl [-> _]]].
      { unfold tcp4_repr, tcp_hdr_len, tcp_fixed, tcp_header_len in *. unf. change (5 * 4) with 20. lia. }
      rewrite Hl. cbn [lift_vtb bind]. unfold tcp_hdr_len, tcp_fixed. change (5 * 4) with 20. reflexivity. }
  split; [apply build4_greatest; assumption|].
  rewrite Heq. clear Heq. rewrite Hrepr.
  destruct (N.ltb_spec (65515 - o) (e + tl + v)).
  - repeat split; intros; try lia.
    + destruct H1 as [b Hb]. discriminate.
    + replace (ipv4_max o) with (65515 - o); [reflexivity|].
      unfold ipv4_max, ipv4_hdr_len, ipv4_fixed. unf. change (5 * 4) with 20. lia.
    + unfold ipv4_max, build4_max, ipv4_hdr_len, ipv4_fixed. unf. change (5 * 4) with 20. lia.
  - split; [|split; [|split; [|intros; lia]]].
    + intros Hn. split; [intros _; assumption|]. intros _. destruct t; try contradiction; eexists; reflexivity.
    + intros _ Hn.
      assert (Hg : forall ul pl,
        (t = TUdp -> ul = Some (udp_hdr + v) /\ pl = Some (udp_hdr + v)) ->
        (forall h, t = TTcp h -> pl = Some (tcp_hdr_len (t_opt_len h) + v)) ->
        (t <> TUdp -> ul = None) ->
        built_good (ipv4_hdr_len o + e + tl + v) t v
          {| b_ip_len := 20 + o + (e + tl + v); b_udp_len := ul; b_pseudo_len := pl |}).
      { intros ul pl H1 H2 H3. unfold built_good, ipv4_hdr_len, ipv4_fixed. cbn [b_ip_len b_udp_len b_pseudo_len].
        change (5 * 4) with 20. repeat split; try lia; try (apply H1; assumption); try (apply H2; assumption);
          try (apply H3; assumption).
        replace (20 + o + e + tl + v) with (20 + o + (e + tl + v)) by lia. apply wire16_to_be16. lia. }
      unfold udp_hdr, tcp_hdr_len, tcp_fixed in Hg. change (5 * 4) with 20 in Hg.
      destruct t as [| |th|l|]; try contradiction; eexists; (split; [reflexivity|]); apply Hg;
        try (intros; discriminate); try (intros; congruence); try (intros; split; reflexivity).
    + intros _ ->. reflexivity.
Qed.

Lemma build_ipv6_c14 ip x t v : v6exts_wf x -> transport_wf t -> slice_len_ok v ->
  let e := v6x_len x in
  let tl := transport_header_len t in
  greatest (build6_repr e tl) (build6_max e tl) /\
  ((exists b, build_ipv6 ip x t v = Ok b) <-> build6_repr e tl v) /\
  (build6_repr e tl v ->
     exists b, build_ipv6 ip x t v = Ok b /\ built_good (e + tl + v) t v b /\
               (t = TIcmpv6 -> b_pseudo_len b = Some (icmp6_hdr + v))) /\
  (~ build6_repr e tl v ->
     build_ipv6 ip x t v = Err (BPayloadLen (mk_vtb (e + tl + v) ipv6_max Ipv6PayloadLength)) /\
     ipv6_max = build6_max e tl + (e + tl)).
Proof.
  intros Hx Ht Hv e tl.
  pose proof (v6x_len_bound x Hx) as He. fold e in He.
  pose proof (transport_len_bound t Ht) as Htl. fold tl in Htl.
  assert (Hv' : v < 9223372036854775808) by (revert Hv; unf; trivial).
  assert (Hrepr : build6_repr e tl v <-> e + tl + v <= 65535).
  { unfold build6_repr. unf. lia. }
  assert (Heq : build_ipv6 ip x t v =
    if 65535 <? e + tl + v
    then Err (BPayloadLen (mk_vtb (e + tl + v) 65535 Ipv6PayloadLength))
    else Ok {| b_ip_len := e + tl + v;
               b_udp_len := match t with TUdp => Some (8 + v) | _ => None end;
               b_pseudo_len := match t with
                               | TUdp => Some (8 + v)
                               | TTcp h => Some (20 + t_opt_len h + v)
                               | TIcmpv6 => Some (8 + v)
                               | _ => None end |}).
  { unfold build_ipv6. rewrite (build_udp_len_eq t v Hv). rewrite v6exts_header_len_spec. fold e.
    rewrite build_ip_payload_eq by (fold tl; unf; lia). fold tl. cbn [bind].
    rewrite ipv6_set_payload_length_eq.
    destruct (N.ltb_spec 65535 (e + tl + v)); [reflexivity|].
    cbn [v6_payload_length].
    destruct t as [| |th|l|]; cbn [bind lift_vtb]; try reflexivity.
    - (* UDP *) cbn [transport_header_len] in *. unfold UDP_LEN in *. subst tl.
      unfold udp_calc_checksum_ipv6, UDP_LEN. cbn [u_length]. change (4294967295 - 8) with 4294967287.
      destruct (N.ltb_spec 4294967287 v); [lia|]. cbn [lift_vtb bind]. rewrite as_u16_small by lia. reflexivity.
    - (* TCP *) cbn [transport_header_len transport_wf] in *. subst tl.
      destruct (tcp_calc_checksum_ipv6_c14 th v Ht) as [_ [_ [Hok _]]].
      destruct Hok as [l [Hl [-> _]]].
      { unfold tcp6_repr, tcp_hdr_len, tcp_fixed, tcp_header_len in *. unf. change (5 * 4) with 20. lia. }
      rewrite Hl. cbn [lift_vtb bind]. unfold tcp_hdr_len, tcp_fixed. change (5 * 4) with 20. reflexivity.
    - (* ICMPv6 *) cbn [transport_header_len] in *. subst tl.
      destruct (icmpv6_calc_checksum_c14 v) as [_ [_ [Hok _]]].
      destruct Hok as [l [Hl [-> _]]].
      { unfold icmp6_repr, icmp6_hdr. unf. lia. }
      rewrite Hl. cbn [lift_vtb bind]. unfold icmp6_hdr. reflexivity. }
  split; [apply build6_greatest; assumption|].
  rewrite Heq. clear Heq. rewrite Hrepr.
  destruct (N.ltb_spec 65535 (e + tl + v)).
  - repeat split; intros; try lia.
    + destruct H0 as [b Hb]. discriminate.
    + unfold ipv6_max, build6_max. unf. lia.
  - split; [|split; [|intros; lia]].
    + split; [intros _; assumption|]. intros _. eexists; reflexivity.
    + intros _. eexists. split; [reflexivity|]. split.
      * unfold built_good, udp_hdr, tcp_hdr_len, tcp_fixed. cbn [b_ip_len b_udp_len b_pseudo_len].
        change (5 * 4) with 20.
        split; [reflexivity|]. split; [apply wire16_to_be16; lia|].
        split; [intros ->; split; reflexivity|].
        split; [intros h ->; reflexivity|].
        intros Hn. destruct t; try reflexivity. contradiction.
      * intros ->. reflexivity.
Qed.

Lemma build_size_eq lv net t v : lv + net + transport_header_len t + v < 2 ^ 64 ->
  build_size lv net t v = Ok (lv + net + transport_header_len t + v).
Proof.
  unf. intros Hlt. unfold build_size, bind, add_chk, USIZE.
  destruct (N.ltb_spec (lv + net) 18446744073709551616); [|lia].
  destruct (N.ltb_spec (lv + net + transport_header_len t) 18446744073709551616); [|lia].
  destruct (N.ltb_spec (lv + net + transport_header_len t + v) 18446744073709551616); [reflexivity | lia].
Qed.
