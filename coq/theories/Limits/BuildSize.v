(* Limits/BuildSize.v -- property C14, round 3 ("small closures"): PacketBuilder `size()`
   (`final_size`: link + vlan + net + transport + payload_size on usize, 64 bit) without the
   hypothesis "the sum fits usize" of C14_build_size:
     build_size_exact    for ALL arguments: Ok s exactly when s is the mathematical sum and
                         the sum is below 2^64; otherwise a debug overflow panic (one of the
                         three additions); never an Err;
     build_size_bounds   under the bounds the Rust types give (header lengths far below 2^32,
                         TCP options <= 40 / ICMPv4 header <= 20, a slice length < 2^63) the
                         sum always fits: the result is Ok;
     build_size_ipv4/6   the same with `net` spelled out as the IP header + extension
                         header lengths of well-formed header values.
   Only Limits/Model.v `build_size`; no new model. *)
From Coq Require Import ZArith Lia ZifyN ZifyBool.
From EP Require Import Base.Bytes Limits.Spec Limits.Model Limits.Proofs.
Local Open Scope N_scope.

Lemma build_size_exact lv net t v :
  let sum := lv + net + transport_header_len t + v in
  (forall s, build_size lv net t v = Ok s <-> s = sum /\ sum < 2 ^ 64) /\
  (2 ^ 64 <= sum <->
     exists site, build_size lv net t v = Panic site /\ (site = 193 \/ site = 194 \/ site = 195)) /\
  (forall e, build_size lv net t v <> Err e).
Proof.
  cbv zeta. rewrite pow64. unfold build_size, bind, add_chk, USIZE.
  destruct (N.ltb_spec (lv + net) 18446744073709551616) as [H1|H1].
  2:{ split; [|split].
      - intros s. split; [discriminate|intros [_ H]; lia].
      - split; [intros _; exists 193; split; [reflexivity|tauto]|intros _; lia].
      - discriminate. }
  destruct (N.ltb_spec (lv + net + transport_header_len t) 18446744073709551616) as [H2|H2].
  2:{ split; [|split].
      - intros s. split; [discriminate|intros [_ H]; lia].
      - split; [intros _; exists 194; split; [reflexivity|tauto]|intros _; lia].
      - discriminate. }
  destruct (N.ltb_spec (lv + net + transport_header_len t + v) 18446744073709551616) as [H3|H3].
  - split; [|split].
    + intros s. split; [intros [= <-]; split; [reflexivity|exact H3]|intros [-> _]; reflexivity].
    + split; [intros H; lia|intros [site [H _]]; discriminate].
    + discriminate.
  - split; [|split].
    + intros s. split; [discriminate|intros [_ H]; lia].
    + split; [intros _; exists 195; split; [reflexivity|tauto]|intros _; exact H3].
    + discriminate.
Qed.

Lemma build_size_bounds lv net t v :
  lv < 2 ^ 32 -> net < 2 ^ 32 -> transport_wf t -> slice_len_ok v ->
  build_size lv net t v = Ok (lv + net + transport_header_len t + v).
Proof.
  intros Hlv Hnet Ht Hv. apply build_size_eq.
  pose proof (transport_len_bound t Ht) as Htl.
  unfold slice_len_ok in Hv. rewrite pow32 in *. rewrite pow63 in Hv. rewrite pow64. lia.
Qed.

(* link header (Ethernet II 14 / Linux SLL 16) + VLAN (0 / 4 / 8): lv <= 24 *)
Lemma build_size_ipv4 lv ip x t v :
  lv <= 24 -> ipv4_wf ip -> v4exts_wf x -> transport_wf t -> slice_len_ok v ->
  build_size lv (ipv4_header_len ip + v4exts_header_len x) t v =
    Ok (lv + (ipv4_header_len ip + v4exts_header_len x) + transport_header_len t + v).
Proof.
  intros Hlv Hip Hx Ht Hv. apply build_size_bounds; try assumption; rewrite pow32.
  - lia.
  - rewrite v4exts_header_len_spec. pose proof (v4x_len_bound x Hx).
    unfold ipv4_header_len. unfold ipv4_wf in Hip. lia.
Qed.

Lemma build_size_ipv6 lv x t v :
  lv <= 24 -> v6exts_wf x -> transport_wf t -> slice_len_ok v ->
  build_size lv (40 + v6exts_header_len x) t v =
    Ok (lv + (40 + v6exts_header_len x) + transport_header_len t + v).
Proof.
  intros Hlv Hx Ht Hv. apply build_size_bounds; try assumption; rewrite pow32.
  - lia.
  - rewrite v6exts_header_len_spec. pose proof (v6x_len_bound x Hx). lia.
Qed.
