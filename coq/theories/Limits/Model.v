(* Limits/Model.v -- transliteration of the length-taking constructors and
   setters of etherparse (the code as it is in /repo, after the fix: commits).

   Conventions
   * usize / u8 / u16 / u32 values are N.  Every narrowing cast `as uK` is
     written `as_uK x = x mod 2^K`.  Every `+`/`-` the Rust code performs in a
     fixed-width type is `add_chk site 2^K a b` / `sub_chk site a b`: it
     returns `Panic site` when the mathematical result does not fit (debug
     build: overflow panic; release build: wrap-around -- the theorems show
     these sites unreachable, so both builds agree).  `checked_add`,
     `saturating_sub` are written out.  Sums of a few values that come from
     u8 fields (header_len() of headers and extension headers) cannot overflow
     a 64-bit usize and are plain `+`.
   * `const X: T = expr` items are evaluated by rustc at compile time (an
     overflow there is a compile error); they are written as N expressions.
   * Indexing `buf[..n]` of a fixed buffer, `copy_nonoverlapping` into one and
     `from_u8_unchecked` are partial: `Panic site` (site >= 900: undefined
     behaviour instead of a panic).
   * A header is a record of the fields the function reads or writes plus one
     component `*_rest` standing for all remaining fields of the Rust struct.
     Setters return the outcome AND the header afterwards (`&mut self`).
   * checksum functions return the length value they put into the pseudo
     header (the sum itself is C09/C10). *)
From EP Require Import Base.Bytes Limits.Spec.
Local Open Scope N_scope.

Definition U8 : N := 256.
Definition U16 : N := 65536.
Definition U32 : N := 4294967296.
Definition USIZE : N := 18446744073709551616.
Definition as_u8 (x : N) : N := x mod 256.
Definition as_u16 (x : N) : N := x mod 65536.
Definition as_u32 (x : N) : N := x mod 4294967296.

Definition add_chk {E} (site m a b : N) : res E N :=
  if a + b <? m then Ok (a + b) else Panic site.
Definition sub_chk {E} (site a b : N) : res E N :=
  if b <=? a then Ok (a - b) else Panic site.
Definition checked_add_usize (a b : N) : option N :=
  if a + b <? USIZE then Some (a + b) else None.
Definition saturating_sub (a b : N) : N := if b <=? a then a - b else 0.
(* `&mut buf[..n]` of a buffer of `size` bytes *)
Definition slice_to {E} (site size n : N) : res E unit :=
  if n <=? size then Ok tt else Panic site.

Definition bind {E A B} (r : res E A) (f : A -> res E B) : res E B :=
  match r with Ok a => f a | Err e => Err e | Panic s => Panic s end.
Notation "'let!' x ':=' r 'in' k" := (bind r (fun x => k))
  (at level 200, x pattern, r at level 100, k at level 200).

(* outcome of a `&mut self` function that did not touch the header *)
Definition untouched {E H} (r : res E unit) (h : H) : res E unit * H := (r, h).
(* propagate a failing sub-computation of a setter, header not (yet) modified *)
Definition sbind {E A H} (r : res E A) (h : H) (f : A -> res E unit * H) : res E unit * H :=
  match r with Ok a => f a | Err e => (Err e, h) | Panic s => (Panic s, h) end.

(* ======================================================================= *)
(* net/ipv4_options.rs, net/ipv4_header.rs                                 *)
(* ======================================================================= *)

(* impl TryFrom<&[u8]> for Ipv4Options; n = value.len();
   Ok: the `len: u8` field.  Err: BadOptionsLen { bad_len } *)
Definition ipv4_options_try_from (n : N) : res N N :=
  if (n <=? 40) && (n mod 4 =? 0) then
    (* copy_nonoverlapping(value, result.buf (40 bytes), n) *)
    if n <=? 40 then Ok (as_u8 n) else Panic 901
  else Err n.

Record ipv4h := { v4_total_len : N; v4_opt_len : N; v4_rest : N }.
Definition v4_set_total (h : ipv4h) (t : N) : ipv4h :=
  {| v4_total_len := t; v4_opt_len := v4_opt_len h; v4_rest := v4_rest h |}.
Definition v4_set_opts (h : ipv4h) (o : N) : ipv4h :=
  {| v4_total_len := v4_total_len h; v4_opt_len := o; v4_rest := v4_rest h |}.

(* Ipv4Header::set_options: self.options = data.try_into()?; *)
Definition ipv4_set_options (h : ipv4h) (n : N) : res N unit * ipv4h :=
  sbind (ipv4_options_try_from n) h (fun o => (Ok tt, v4_set_opts h o)).

(* Ipv4Header::ihl: (self.options.len_u8() / 4) + 5   (u8) *)
Definition ipv4_ihl {E} (h : ipv4h) : res E N := add_chk 100 U8 (v4_opt_len h / 4) 5.
(* Ipv4Header::header_len: MIN_LEN + self.options.len()  (usize, <= 20+255) *)
Definition ipv4_header_len (h : ipv4h) : N := 20 + v4_opt_len h.

(* Ipv4Header::new(payload_len: u16, ..) *)
Definition ipv4_new (payload_len rest : N) : res vtb ipv4h :=
  let MAX_PAYLOAD := 65535 - as_u16 20 in            (* const *)
  if MAX_PAYLOAD <? payload_len then
    Err (mk_vtb payload_len MAX_PAYLOAD Ipv4PayloadLength)
  else
    let! tl := add_chk 101 U16 payload_len (as_u16 20) in
    Ok {| v4_total_len := tl; v4_opt_len := 0; v4_rest := rest |}.

(* Ipv4Header::max_payload_len: u16::MAX - u16::from(len_u8) - (MIN_LEN as u16) *)
Definition ipv4_max_payload_len {E} (h : ipv4h) : res E N :=
  let! a := sub_chk 102 65535 (v4_opt_len h) in
  sub_chk 103 a (as_u16 20).

(* Ipv4Header::set_payload_len(&mut self, value: usize) *)
Definition ipv4_set_payload_len (h : ipv4h) (value : N) : res vtb unit * ipv4h :=
  sbind (ipv4_max_payload_len h) h (fun max_allowed =>
    if max_allowed <? value then
      (Err (mk_vtb value max_allowed Ipv4PayloadLength), h)
    else
      sbind (add_chk 104 USIZE (ipv4_header_len h) value) h (fun s =>
        (Ok tt, v4_set_total h (as_u16 s)))).

(* Ipv4Header::payload_len (the decoder of the crate) : None = Err(LenError) *)
Definition ipv4_payload_len (h : ipv4h) : option N :=
  let header_len := as_u16 (ipv4_header_len h) in
  if header_len <=? v4_total_len h then Some (v4_total_len h - header_len) else None.

(* ======================================================================= *)
(* net/ipv6_header.rs                                                      *)
(* ======================================================================= *)
Record ipv6h := { v6_payload_length : N; v6_rest : N }.

(* Ipv6Header::set_payload_length(&mut self, size: usize) *)
Definition ipv6_set_payload_length (h : ipv6h) (size : N) : res vtb unit * ipv6h :=
  let MAX_PAYLOAD_LENGTH := 65535 in                 (* u16::MAX as usize *)
  if MAX_PAYLOAD_LENGTH <? size then
    (Err (mk_vtb size MAX_PAYLOAD_LENGTH Ipv6PayloadLength), h)
  else
    (Ok tt, {| v6_payload_length := as_u16 size; v6_rest := v6_rest h |}).

(* ======================================================================= *)
(* extension headers: header_len()                                         *)
(* ======================================================================= *)
(* IpAuthHeader::header_len: 12 + usize::from(self.raw_icv_len) * 4 *)
Definition ah_header_len (raw_icv_len : N) : N := 12 + raw_icv_len * 4.
(* Ipv6RawExtHeader::header_len: 2 + (6 + usize::from(self.header_length) * 8) *)
Definition rawext_header_len (header_length : N) : N := 2 + (6 + header_length * 8).

(* Ipv4Extensions { auth: Option<IpAuthHeader> } / Ipv6Extensions: the u8 length
   fields of the headers that are present (records v4exts / v6exts of Spec.v) *)
Definition v4exts_header_len (x : v4exts) : N :=
  match x with Some l => ah_header_len l | None => 0 end.

Definition v6exts_header_len (x : v6exts) : N :=
  let result := 0 in
  let result := match x_hop x with Some l => result + rawext_header_len l | None => result end in
  let result := match x_dst x with Some l => result + rawext_header_len l | None => result end in
  let result := match x_route x with
                | Some (l, fin) =>
                    let result := result + rawext_header_len l in
                    match fin with Some l2 => result + rawext_header_len l2 | None => result end
                | None => result end in
  let result := if x_frag x then result + 8 else result in
  let result := match x_auth x with Some l => result + ah_header_len l | None => result end in
  result.

(* ======================================================================= *)
(* net/ip_headers.rs: IpHeaders::set_payload_len                           *)
(* ======================================================================= *)
Inductive iphdrs := IpV4 (h : ipv4h) (x : v4exts) | IpV6 (h : ipv6h) (x : v6exts).

Definition map_vtb (r : res vtb unit) (f : vtb -> vtb) : res vtb unit :=
  match r with Err e => Err (f e) | o => o end.

Definition iph_set_payload_len (s : iphdrs) (len : N) : res vtb unit * iphdrs :=
  match s with
  | IpV4 ipv4_hdr exts =>
      match checked_add_usize len (v4exts_header_len exts) with
      | Some complete_len =>
          let exts_len := v4exts_header_len exts in
          let (r, h') := ipv4_set_payload_len ipv4_hdr complete_len in
          (map_vtb r (fun err => mk_vtb len (saturating_sub (max_allowed err) exts_len) (vtype err)),
           IpV4 h' exts)
      | None =>
          (let! a := sub_chk 110 65535 (ipv4_header_len ipv4_hdr) in
           let! m := sub_chk 111 a (v4exts_header_len exts) in
           Err (mk_vtb len m Ipv4PayloadLength), s)
      end
  | IpV6 ipv6_hdr exts =>
      match checked_add_usize len (v6exts_header_len exts) with
      | Some complete_len =>
          let exts_len := v6exts_header_len exts in
          let (r, h') := ipv6_set_payload_length ipv6_hdr complete_len in
          (map_vtb r (fun err => mk_vtb len (saturating_sub (max_allowed err) exts_len) (vtype err)),
           IpV6 h' exts)
      | None =>
          (let! m := sub_chk 112 65535 (v6exts_header_len exts) in
           Err (mk_vtb len m Ipv6PayloadLength), s)
      end
  end.

(* ======================================================================= *)
(* transport/udp_header.rs                                                 *)
(* ======================================================================= *)
(* u_ck: None = the literal 0; Some l = checksum computed with length l in
   the pseudo header (and the header's own length field) *)
Record udph := { u_length : N; u_ck : option N; u_rest : N }.
Definition UDP_LEN : N := 8.

(* UdpHeader::without_ipv4_checksum(_, _, payload_length: usize) *)
Definition udp_without_ipv4_checksum (rest payload_length : N) : res vtb udph :=
  let MAX_PAYLOAD_LENGTH := 65535 - UDP_LEN in       (* const *)
  if MAX_PAYLOAD_LENGTH <? payload_length then
    Err (mk_vtb payload_length MAX_PAYLOAD_LENGTH UdpPayloadLengthIpv4)
  else
    let! s := add_chk 120 USIZE UDP_LEN payload_length in
    Ok {| u_length := as_u16 s; u_ck := None; u_rest := rest |}.

(* UdpHeader::with_ipv4_checksum(_, _, ip_header, payload); n = payload.len() *)
Definition udp_with_ipv4_checksum (rest n : N) : res vtb udph :=
  let MAX_PAYLOAD_LENGTH := 65535 - UDP_LEN in
  if MAX_PAYLOAD_LENGTH <? n then
    Err (mk_vtb n MAX_PAYLOAD_LENGTH UdpPayloadLengthIpv4)
  else
    let! s := add_chk 121 USIZE UDP_LEN n in
    let length := as_u16 s in
    (* calc_checksum_ipv4_internal: .add_2bytes(self.length.to_be_bytes()) *)
    Ok {| u_length := length; u_ck := Some length; u_rest := rest |}.

(* UdpHeader::with_ipv6_checksum *)
Definition udp_with_ipv6_checksum (rest n : N) : res vtb udph :=
  let MAX_PAYLOAD_LENGTH := 65535 - UDP_LEN in
  if MAX_PAYLOAD_LENGTH <? n then
    Err (mk_vtb n MAX_PAYLOAD_LENGTH UdpPayloadLengthIpv6)
  else
    let! s := add_chk 122 USIZE UDP_LEN n in
    let length := as_u16 s in
    Ok {| u_length := length; u_ck := Some length; u_rest := rest |}.

(* UdpHeader::calc_checksum_ipv4(_raw)(&self, .., payload): the value that
   enters the pseudo header is self.length *)
Definition udp_calc_checksum_ipv4 (h : udph) (n : N) : res vtb N :=
  let MAX_PAYLOAD_LENGTH := 65535 - UDP_LEN in
  if MAX_PAYLOAD_LENGTH <? n then
    Err (mk_vtb n MAX_PAYLOAD_LENGTH UdpPayloadLengthIpv4)
  else Ok (u_length h).

(* UdpHeader::calc_checksum_ipv6(_raw) *)
Definition udp_calc_checksum_ipv6 (h : udph) (n : N) : res vtb N :=
  let MAX_PAYLOAD_LENGTH := 4294967295 - UDP_LEN in  (* (u32::MAX as usize) - LEN *)
  if MAX_PAYLOAD_LENGTH <? n then
    Err (mk_vtb n MAX_PAYLOAD_LENGTH UdpPayloadLengthIpv6)
  else Ok (u_length h).

(* ======================================================================= *)
(* transport/tcp_options.rs, tcp_header.rs, tcp_header_slice.rs, tcp_slice *)
(* ======================================================================= *)
(* TcpOptions::try_from_slice; n = slice.len(); Ok: the `len: u8` field;
   Err: TcpOptionWriteError::NotEnoughSpace(n) *)
Definition tcp_options_try_from_slice (n : N) : res N N :=
  if 40 <? n then Err n
  else
    let len := as_u8 n in
    let base := as_u8 (N.shiftl (N.shiftr len 2) 2) in      (* (len >> 2) << 2 *)
    let! l := add_chk 130 U8 base (if negb (N.land len 3 =? 0) then 4 else 0) in
    let! _ := slice_to 131 40 n in                          (* buf[..slice.len()] *)
    Ok l.

(* TcpOptions::try_from_elements; sizes = encoded size of each element *)
Definition tcp_options_try_from_elements (sizes : list N) : res N N :=
  let required_len := fold_left (fun acc x => acc + x) sizes 0 in
  if 40 <? required_len then Err required_len
  else
    let len := fold_left (fun len x => len + x) sizes 0 in  (* the write loop *)
    let len := if (0 <? len) && negb (N.land len 3 =? 0)
               then N.ldiff len 3 + 4 else len in           (* (len & !0b11) + 4 *)
    Ok (as_u8 len).

(* TcpOptions::data_offset: MIN_DATA_OFFSET + (self.len >> 2)   (u8) *)
Definition tcp_data_offset {E} (opt_len : N) : res E N := add_chk 132 U8 5 (N.shiftr opt_len 2).

Record tcph := { t_opt_len : N; t_rest : N }.
Definition tcp_header_len (h : tcph) : N := 20 + t_opt_len h.
(* header_len_u16: 20 + u16::from(self.options.len_u8()) *)
Definition tcp_header_len_u16 {E} (h : tcph) : res E N := add_chk 133 U16 20 (t_opt_len h).

(* TcpHeader::set_options_raw *)
Definition tcp_set_options_raw (h : tcph) (n : N) : res N unit * tcph :=
  sbind (tcp_options_try_from_slice n) h (fun l => (Ok tt, {| t_opt_len := l; t_rest := t_rest h |})).
(* TcpHeader::set_options *)
Definition tcp_set_options (h : tcph) (sizes : list N) : res N unit * tcph :=
  sbind (tcp_options_try_from_elements sizes) h
        (fun l => (Ok tt, {| t_opt_len := l; t_rest := t_rest h |})).

(* TcpHeader::calc_checksum_ipv4(_raw): Ok = tcp_len of the pseudo header *)
Definition tcp_calc_checksum_ipv4 (h : tcph) (n : N) : res vtb N :=
  let! max_payload := sub_chk 134 65535 (tcp_header_len h) in
  if max_payload <? n then Err (mk_vtb n max_payload TcpPayloadLengthIpv4)
  else
    let! hl := tcp_header_len_u16 h in
    add_chk 135 U16 hl (as_u16 n).

(* TcpHeader::calc_checksum_ipv6(_raw) *)
Definition tcp_calc_checksum_ipv6 (h : tcph) (n : N) : res vtb N :=
  let! max_payload := sub_chk 136 4294967295 (tcp_header_len h) in
  if max_payload <? n then Err (mk_vtb n max_payload TcpPayloadLengthIpv6)
  else
    let! hl := tcp_header_len_u16 h in
    add_chk 137 U32 hl (as_u32 n).              (* u32::from(hl) + (n as u32) *)

(* TcpHeaderSlice::calc_checksum_ipv4_raw; sl = self.slice.len() *)
Definition tcphs_calc_checksum_ipv4 (sl n : N) : res vtb N :=
  let header_len := as_u16 sl in
  let! max_payload := sub_chk 138 65535 header_len in
  if max_payload <? n then Err (mk_vtb n max_payload TcpPayloadLengthIpv4)
  else add_chk 139 U16 header_len (as_u16 n).

(* TcpHeaderSlice::calc_checksum_ipv6_raw *)
Definition tcphs_calc_checksum_ipv6 (sl n : N) : res vtb N :=
  let header_len := as_u32 sl in
  let! max_payload := sub_chk 140 4294967295 header_len in
  if max_payload <? n then Err (mk_vtb n max_payload TcpPayloadLengthIpv6)
  else add_chk 141 U32 header_len (as_u32 n).

(* TcpSlice::calc_checksum_ipv4 / ipv6; sl = self.slice.len() (whole segment) *)
Definition tcpslice_calc_checksum_ipv4 (sl : N) : res vtb N :=
  if 65535 <? sl then Err (mk_vtb sl 65535 TcpPayloadLengthIpv4) else Ok (as_u16 sl).
Definition tcpslice_calc_checksum_ipv6 (sl : N) : res vtb N :=
  if 4294967295 <? sl then Err (mk_vtb sl 4294967295 TcpPayloadLengthIpv6) else Ok (as_u32 sl).

(* ======================================================================= *)
(* transport/icmpv6_type.rs: Icmpv6Type::calc_checksum (header_len() = 8)  *)
(* ======================================================================= *)
Definition icmpv6_calc_checksum (n : N) : res vtb N :=
  let header_len := 8 in
  let! max_payload_len := sub_chk 150 4294967295 header_len in
  if max_payload_len <? n then Err (mk_vtb n max_payload_len Icmpv6PayloadLength)
  else
    let! msg_len := add_chk 151 USIZE n header_len in
    Ok (as_u32 msg_len).

(* ======================================================================= *)
(* link/macsec_short_len.rs, link/macsec_header.rs                         *)
(* ======================================================================= *)
Definition MACSEC_MAX_USIZE : N := 63.                 (* 0b0011_1111 *)

(* MacsecShortLen::try_from_u8(value: u8) *)
Definition macsec_short_len_try_from_u8 (value : N) : res vtb N :=
  if value <=? 63 then Ok value else Err (mk_vtb value 63 MacsecShortLen).
(* MacsecShortLen::from_u8_unchecked: debug_assert!(value <= MAX_U8) *)
Definition macsec_from_u8_unchecked {E} (value : N) : res E N :=
  if value <=? 63 then Ok value else Panic 910.
(* MacsecShortLen::from_len(len: usize) *)
Definition macsec_short_len_from_len (len : N) : N :=
  if 63 <? len then 0 else as_u8 len.

Record macsech := { m_unmodified : bool; m_short_len : N; m_rest : N }.
Definition m_set_sl (h : macsech) (sl : N) : macsech :=
  {| m_unmodified := m_unmodified h; m_short_len := sl; m_rest := m_rest h |}.

(* MacsecHeader::set_payload_len(&mut self, payload_len: usize) -- no Result *)
Definition macsec_set_payload_len (h : macsech) (payload_len : N) : res vtb unit * macsech :=
  if m_unmodified h then
    if MACSEC_MAX_USIZE - 2 <? payload_len then (Ok tt, m_set_sl h 0)
    else
      sbind (add_chk 160 U8 (as_u8 payload_len) 2) h (fun v =>
      sbind (macsec_from_u8_unchecked v) h (fun sl => (Ok tt, m_set_sl h sl)))
  else if MACSEC_MAX_USIZE <? payload_len then (Ok tt, m_set_sl h 0)
  else
    sbind (macsec_from_u8_unchecked (as_u8 payload_len)) h (fun sl => (Ok tt, m_set_sl h sl)).

(* MacsecHeader::to_bytes()[1]: self.short_len.value() & 0b0011_1111 *)
Definition macsec_sl_byte (h : macsech) : N := N.land (m_short_len h) 63.
(* MacsecHeader::expected_payload_len *)
Definition macsec_expected_payload_len (h : macsech) : option N :=
  let sl := m_short_len h in
  if 0 <? sl then
    if m_unmodified h then (if sl <? 2 then None else Some (sl - 2)) else Some sl
  else None.

(* ======================================================================= *)
(* net/ip_auth_header.rs                                                   *)
(* ======================================================================= *)
Definition AH_MAX_ICV_LEN : N := 254 * 4.              (* 0xfe * 4, also the buffer size *)
Record ahh := { a_raw_icv_len : N; a_rest : N }.

(* IpAuthHeader::new(.., raw_icv); n = raw_icv.len() *)
Definition ah_new (rest n : N) : res icv_err ahh :=
  if AH_MAX_ICV_LEN <? n then Err (IcvTooBig n)
  else if negb (0 =? n mod 4) then Err (IcvUnaligned n)
  else
    let l := as_u8 (n / 4) in
    let! _ := slice_to 170 AH_MAX_ICV_LEN n in    (* raw_icv_buffer[..n].copy_from_slice *)
    Ok {| a_raw_icv_len := l; a_rest := rest |}.

(* IpAuthHeader::set_raw_icv *)
Definition ah_set_raw_icv (h : ahh) (n : N) : res icv_err unit * ahh :=
  if AH_MAX_ICV_LEN <? n then (Err (IcvTooBig n), h)
  else if negb (0 =? n mod 4) then (Err (IcvUnaligned n), h)
  else
    sbind (slice_to 171 AH_MAX_ICV_LEN n) h (fun _ =>
      (Ok tt, {| a_raw_icv_len := as_u8 (n / 4); a_rest := a_rest h |})).

(* IpAuthHeader::to_bytes()[1]: self.raw_icv_len + 1   (u8) *)
Definition ah_len_byte {E} (h : ahh) : res E N := add_chk 172 U8 (a_raw_icv_len h) 1.
(* IpAuthHeader::raw_icv().len() *)
Definition ah_raw_icv_len_bytes (h : ahh) : N := a_raw_icv_len h * 4.

(* ======================================================================= *)
(* net/ipv6_raw_ext_header.rs                                              *)
(* ======================================================================= *)
Definition EXT_MIN_PAYLOAD_LEN : N := 6.
Definition EXT_MAX_PAYLOAD_LEN : N := 255 * 8 + 6.     (* 0xff * 8 + 6, also the buffer size *)
Record exth := { e_header_length : N; e_rest : N }.

(* Ipv6RawExtHeader::new_raw(next_header, payload); n = payload.len() *)
Definition rawext_new_raw (rest n : N) : res ext_err exth :=
  if n <? EXT_MIN_PAYLOAD_LEN then Err (ExtTooSmall n)
  else if EXT_MAX_PAYLOAD_LEN <? n then Err (ExtTooBig n)
  else
    let! s := add_chk 180 USIZE n 2 in
    if negb (0 =? s mod 8) then Err (ExtUnaligned n)
    else
      let! d := sub_chk 181 n 6 in
      let! _ := slice_to 182 EXT_MAX_PAYLOAD_LEN n in
      Ok {| e_header_length := as_u8 (d / 8); e_rest := rest |}.

(* Ipv6RawExtHeader::set_payload *)
Definition rawext_set_payload (h : exth) (n : N) : res ext_err unit * exth :=
  if n <? EXT_MIN_PAYLOAD_LEN then (Err (ExtTooSmall n), h)
  else if EXT_MAX_PAYLOAD_LEN <? n then (Err (ExtTooBig n), h)
  else
    sbind (add_chk 183 USIZE n 2) h (fun s =>
    if negb (0 =? s mod 8) then (Err (ExtUnaligned n), h)
    else
      sbind (slice_to 184 EXT_MAX_PAYLOAD_LEN n) h (fun _ =>
      sbind (sub_chk 185 n 6) h (fun d =>
        (Ok tt, {| e_header_length := as_u8 (d / 8); e_rest := e_rest h |})))).

(* Ipv6RawExtHeader::payload().len(): 6 + usize::from(self.header_length) * 8 *)
Definition rawext_payload_len (h : exth) : N := 6 + e_header_length h * 8.

(* ======================================================================= *)
(* net/arp_packet.rs                                                       *)
(* ======================================================================= *)
Inductive arp_err :=
| ArpHwNonMatching (a b : N) | ArpProtoNonMatching (a b : N)
| ArpHwTooBig (a : N) | ArpProtoTooBig (a : N).
Record arph := { ar_hw_size : N; ar_proto_size : N; ar_rest : N }.

(* copy_nonoverlapping(addr, buf (255 bytes), n) *)
Definition arp_copy {E} (site n : N) : res E unit := if n <=? 255 then Ok tt else Panic site.

(* ArpPacket::new(.., sender_hw, sender_proto, target_hw, target_proto) (lengths) *)
Definition arp_new (rest shw sproto thw tproto : N) : res arp_err arph :=
  if negb (shw =? thw) then Err (ArpHwNonMatching shw thw)
  else if negb (sproto =? tproto) then Err (ArpProtoNonMatching sproto tproto)
  else if 255 <? shw then Err (ArpHwTooBig shw)
  else if 255 <? sproto then Err (ArpProtoTooBig sproto)
  else
    let! _ := arp_copy 920 shw in
    let! _ := arp_copy 921 sproto in
    let! _ := arp_copy 922 thw in
    let! _ := arp_copy 923 tproto in
    Ok {| ar_hw_size := as_u8 shw; ar_proto_size := as_u8 sproto; ar_rest := rest |}.

(* ArpPacket::set_hw_addrs(&mut self, sender, target) *)
Definition arp_set_hw_addrs (h : arph) (s t : N) : res arp_err unit * arph :=
  if negb (s =? t) then (Err (ArpHwNonMatching s t), h)
  else if 255 <? s then (Err (ArpHwTooBig s), h)
  else
    sbind (arp_copy 924 s) h (fun _ =>
    sbind (arp_copy 925 t) h (fun _ =>
      (Ok tt, {| ar_hw_size := as_u8 s; ar_proto_size := ar_proto_size h; ar_rest := ar_rest h |}))).

(* ArpPacket::set_protocol_addrs *)
Definition arp_set_protocol_addrs (h : arph) (s t : N) : res arp_err unit * arph :=
  if negb (s =? t) then (Err (ArpProtoNonMatching s t), h)
  else if 255 <? s then (Err (ArpProtoTooBig s), h)
  else
    sbind (arp_copy 926 s) h (fun _ =>
    sbind (arp_copy 927 t) h (fun _ =>
      (Ok tt, {| ar_hw_size := ar_hw_size h; ar_proto_size := as_u8 s; ar_rest := ar_rest h |}))).

(* ======================================================================= *)
(* packet_builder.rs: final_write_with_net / final_size                    *)
(* ======================================================================= *)
Inductive transport :=
| TNone | TUdp | TTcp (h : tcph) | TIcmpv4 (header_len : N) | TIcmpv6.
(* TransportHeader::header_len *)
Definition transport_header_len (t : transport) : N :=
  match t with
  | TNone => 0 | TUdp => UDP_LEN | TTcp h => tcp_header_len h
  | TIcmpv4 l => l | TIcmpv6 => 8
  end.

Inductive build_err := BPayloadLen (e : vtb) | BIcmpv6InIpv4.
(* what ends up on the wire: ip length field, udp length field, the length
   used in the transport pseudo header *)
Record built := { b_ip_len : N; b_udp_len : option N; b_pseudo_len : option N }.

Definition lift_vtb {A} (r : res vtb A) : res build_err A :=
  match r with Ok a => Ok a | Err e => Err (BPayloadLen e) | Panic s => Panic s end.

(* udp.length = (UdpHeader::LEN + payload.len()) as u16 *)
Definition build_udp_len (t : transport) (n : N) : res build_err (option N) :=
  match t with
  | TUdp => let! s := add_chk 190 USIZE UDP_LEN n in Ok (Some (as_u16 s))
  | _ => Ok None
  end.

(* ip_exts.header_len() + transport.header_len() + payload.len() *)
Definition build_ip_payload (exts_len : N) (t : transport) (n : N) : res build_err N :=
  let! a := add_chk 191 USIZE exts_len (transport_header_len t) in
  add_chk 192 USIZE a n.

Definition build_ipv4 (ip : ipv4h) (exts : v4exts) (t : transport) (n : N) : res build_err built :=
  let! udp_len := build_udp_len t n in
  let! ipl := build_ip_payload (v4exts_header_len exts) t n in
  match ipv4_set_payload_len ip ipl with
  | (Ok _, ip') =>
      (* TransportHeader::update_checksum_ipv4 *)
      let! pseudo :=
        match t with
        | TNone => Ok None
        | TUdp => let! l := lift_vtb (udp_calc_checksum_ipv4
                       {| u_length := match udp_len with Some l => l | None => 0 end;
                          u_ck := None; u_rest := 0 |} n) in Ok (Some l)
        | TTcp h => let! l := lift_vtb (tcp_calc_checksum_ipv4 h n) in Ok (Some l)
        | TIcmpv4 _ => Ok None
        | TIcmpv6 => Err BIcmpv6InIpv4
        end in
      Ok {| b_ip_len := v4_total_len ip'; b_udp_len := udp_len; b_pseudo_len := pseudo |}
  | (Err e, _) => Err (BPayloadLen e)
  | (Panic s, _) => Panic s
  end.

Definition build_ipv6 (ip : ipv6h) (exts : v6exts) (t : transport) (n : N) : res build_err built :=
  let! udp_len := build_udp_len t n in
  let! ipl := build_ip_payload (v6exts_header_len exts) t n in
  match ipv6_set_payload_length ip ipl with
  | (Ok _, ip') =>
      (* TransportHeader::update_checksum_ipv6 *)
      let! pseudo :=
        match t with
        | TNone => Ok None
        | TUdp => let! l := lift_vtb (udp_calc_checksum_ipv6
                       {| u_length := match udp_len with Some l => l | None => 0 end;
                          u_ck := None; u_rest := 0 |} n) in Ok (Some l)
        | TTcp h => let! l := lift_vtb (tcp_calc_checksum_ipv6 h n) in Ok (Some l)
        | TIcmpv4 _ => Ok None
        | TIcmpv6 => let! l := lift_vtb (icmpv6_calc_checksum n) in Ok (Some l)
        end in
      Ok {| b_ip_len := v6_payload_length ip'; b_udp_len := udp_len; b_pseudo_len := pseudo |}
  | (Err e, _) => Err (BPayloadLen e)
  | (Panic s, _) => Panic s
  end.

(* final_size: link + vlan + net + transport + payload_size  (usize) *)
Definition build_size (link_vlan net_len : N) (t : transport) (payload_size : N) : res build_err N :=
  let! a := add_chk 193 USIZE link_vlan net_len in
  let! b := add_chk 194 USIZE a (transport_header_len t) in
  add_chk 195 USIZE b payload_size.
