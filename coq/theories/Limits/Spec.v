(* Limits/Spec.v -- property C14: what "a length is representable" means for
   every length-taking API, written from the wire formats (RFC 791, 8200, 768,
   9293, 4443, 4302, 826, IEEE 802.1AE), never from the constants of the code.

   A wire field of `bits` bits holds exactly the values x < 2^bits.  For each
   API this file gives
     * the predicate  R v  "length v can be written into the field(s)",
     * the closed form of the greatest such v (computed from the field width
       and the header size; shown to be the greatest element in Proofs.v),
     * the decoder that recovers the length from the field value,
     * the kind of value an error has to name,
   and the shape of statement every API has to satisfy (c14_new / c14_set /
   c14_gen). *)
From EP Require Import Base.Bytes.
Local Open Scope N_scope.

(* ---------------------------------------------------------------- fields *)
Definition fits (bits x : N) : Prop := x < 2 ^ bits.
Definition field_max (bits : N) : N := 2 ^ bits - 1.

(* m is the greatest value satisfying P *)
Definition greatest (P : N -> Prop) (m : N) : Prop := P m /\ forall v, P v -> v <= m.
Definition least (P : N -> Prop) (m : N) : Prop := P m /\ forall v, P v -> m <= v.

(* the machine word the lengths arrive in (64-bit target, see DESIGN 2.1) *)
Definition usize_ok (v : N) : Prop := v < 2 ^ 64.
(* the length of a Rust slice never exceeds isize::MAX *)
Definition slice_len_ok (v : N) : Prop := v < 2 ^ 63.

(* ------------------------------------------------------------ error data *)
Inductive vkind :=
| Ipv4PayloadLength | Ipv6PayloadLength
| UdpPayloadLengthIpv4 | UdpPayloadLengthIpv6
| TcpPayloadLengthIpv4 | TcpPayloadLengthIpv6
| Icmpv6PayloadLength | MacsecShortLen.

Record vtb := mk_vtb { actual : N; max_allowed : N; vtype : vkind }.

(* outcome of a call: Panic also stands for undefined behaviour (site >= 900) *)
Inductive res (E A : Type) :=
| Ok (a : A) | Err (e : E) | Panic (site : N).
Arguments Ok {E A} a.
Arguments Err {E A} e.
Arguments Panic {E A} site.

(* ---- C14 for a constructor / pure function: outcome r for length v ----
   R representable, mx stated maximum, k value kind, good: what an accepted
   result has to satisfy (the stored field decodes to v). *)
Definition c14_new {A} (r : res vtb A) (v : N) (R : N -> Prop) (mx : N) (k : vkind)
           (good : A -> Prop) : Prop :=
  greatest R mx /\
  ((exists a, r = Ok a) <-> R v) /\
  (R v -> exists a, r = Ok a /\ good a) /\
  (~ R v -> r = Err (mk_vtb v mx k)).

(* ---- C14 for a setter on header h: outcome and header afterwards ---- *)
Definition c14_set {H} (r : res vtb unit * H) (h : H) (v : N) (R : N -> Prop) (mx : N)
           (k : vkind) (good : H -> Prop) : Prop :=
  greatest R mx /\
  (fst r = Ok tt <-> R v) /\
  (R v -> fst r = Ok tt /\ good (snd r)) /\
  (~ R v -> r = (Err (mk_vtb v mx k), h)).

(* ---- the same with an API specific error type; `bad v` is the error the
   documentation of the API promises for a non representable v ---- *)
Definition c14_gen {E A} (r : res E A) (v : N) (R : N -> Prop) (bad : N -> E)
           (good : A -> Prop) : Prop :=
  ((exists a, r = Ok a) <-> R v) /\
  (R v -> exists a, r = Ok a /\ good a) /\
  (~ R v -> r = Err (bad v)).
Definition c14_gen_set {E H} (r : res E unit * H) (h : H) (v : N) (R : N -> Prop)
           (bad : N -> E) (good : H -> Prop) : Prop :=
  (fst r = Ok tt <-> R v) /\
  (R v -> fst r = Ok tt /\ good (snd r)) /\
  (~ R v -> r = (Err (bad v), h)).

(* ------------------------------------------------------------------ IPv4 *)
(* RFC 791: IHL (4 bit) = header length in 32-bit words, 5 words are fixed;
   Total Length (16 bit) = header + data in octets. *)
Definition ipv4_fixed : N := 5 * 4.
Definition ipv4_hdr_len (opts : N) : N := ipv4_fixed + opts.
Definition ipv4_opts_repr (o : N) : Prop := o mod 4 = 0 /\ fits 4 (ipv4_hdr_len o / 4).
Definition ipv4_opts_max : N := field_max 4 * 4 - ipv4_fixed.
Definition ipv4_opts_dec (ihl : N) : N := ihl * 4 - ipv4_fixed.

Definition ipv4_repr (opts v : N) : Prop := fits 16 (ipv4_hdr_len opts + v).
Definition ipv4_max (opts : N) : N := field_max 16 - ipv4_hdr_len opts.
Definition ipv4_dec (opts total_len : N) : N := total_len - ipv4_hdr_len opts.

(* IpHeaders: the extension headers (AH) count as IPv4 payload *)
Definition iph4_repr (opts exts v : N) : Prop := fits 16 (ipv4_hdr_len opts + exts + v).
Definition iph4_max (opts exts : N) : N := field_max 16 - ipv4_hdr_len opts - exts.
Definition iph4_dec (opts exts total_len : N) : N := total_len - ipv4_hdr_len opts - exts.

(* ------------------------------------------------------------------ IPv6 *)
(* RFC 8200: Payload Length (16 bit) = everything after the fixed header,
   extension headers included. *)
Definition ipv6_repr (v : N) : Prop := fits 16 v.
Definition ipv6_max : N := field_max 16.
Definition iph6_repr (exts v : N) : Prop := fits 16 (exts + v).
Definition iph6_max (exts : N) : N := field_max 16 - exts.
Definition iph6_dec (exts payload_length : N) : N := payload_length - exts.

(* ------------------------------------------------------------------- UDP *)
(* RFC 768: Length (16 bit) = header (8 octets) + data.  RFC 8200 8.1: the
   pseudo header carries a 32-bit upper-layer packet length. *)
Definition udp_hdr : N := 8.
Definition udp_repr (v : N) : Prop := fits 16 (udp_hdr + v).
Definition udp_max : N := field_max 16 - udp_hdr.
Definition udp_dec (length : N) : N := length - udp_hdr.
Definition udp6_pseudo_repr (v : N) : Prop := fits 32 (udp_hdr + v).
Definition udp6_pseudo_max : N := field_max 32 - udp_hdr.

(* ------------------------------------------------------------------- TCP *)
(* RFC 9293: data offset (4 bit) in 32-bit words, 5 words fixed; the TCP
   length of the pseudo header: 16 bit over IPv4, 32 bit over IPv6. *)
Definition tcp_fixed : N := 5 * 4.
Definition tcp_hdr_len (opts : N) : N := tcp_fixed + opts.
Definition pad4 (n : N) : N := (n + 3) / 4 * 4.
Definition tcp_opts_repr (n : N) : Prop := fits 4 (tcp_hdr_len (pad4 n) / 4).
Definition tcp_opts_max : N := field_max 4 * 4 - tcp_fixed.
Definition tcp_opts_dec (data_offset : N) : N := data_offset * 4 - tcp_fixed.
Definition tcp4_repr (hdr v : N) : Prop := fits 16 (hdr + v).
Definition tcp4_max (hdr : N) : N := field_max 16 - hdr.
Definition tcp6_repr (hdr v : N) : Prop := fits 32 (hdr + v).
Definition tcp6_max (hdr : N) : N := field_max 32 - hdr.

(* total encoded size of a list of option elements *)
Definition nsum (l : list N) : N := fold_right N.add 0 l.

(* ---------------------------------------------------------------- ICMPv6 *)
(* RFC 4443 2.3 / RFC 8200 8.1: 32-bit upper-layer packet length = 8 octets
   of ICMPv6 header + data *)
Definition icmp6_hdr : N := 8.
Definition icmp6_repr (v : N) : Prop := fits 32 (icmp6_hdr + v).
Definition icmp6_max : N := field_max 32 - icmp6_hdr.

(* ---------------------------------------------------------------- MACsec *)
(* SecTAG short length: 6 bit.  It counts the octets after the SecTAG; when
   the payload is unmodified these start with the 2 octets of the ether type.
   The crate documents the value 0 as "unknown": it is what has to be stored
   when the length is not representable. *)
Definition macsec_sl (unmodified : bool) (v : N) : N := v + (if unmodified then 2 else 0).
Definition macsec_repr (unmodified : bool) (v : N) : Prop := fits 6 (macsec_sl unmodified v).
Definition macsec_max (unmodified : bool) : N := field_max 6 - (if unmodified then 2 else 0).
Definition macsec_unknown : N := 0.
(* decoder: None = unknown *)
Definition macsec_dec (unmodified : bool) (field : N) : option N :=
  if field =? macsec_unknown then None
  else if unmodified then (if field <? 2 then None else Some (field - 2))
  else Some field.

(* MACsec's set_payload_len has no error: C14 for it reads "the field holds the
   length when representable, the documented unknown value otherwise, nothing
   else changes, and the field decodes back to the length" *)
Definition c14_macsec {H} (r : res vtb unit * H) (u : bool) (v : N)
           (field wire : H -> N) (decoded : H -> option N) (others_same : H -> Prop) : Prop :=
  greatest (macsec_repr u) (macsec_max u) /\
  fst r = Ok tt /\ others_same (snd r) /\
  (macsec_repr u v -> field (snd r) = macsec_sl u v) /\
  (~ macsec_repr u v -> field (snd r) = macsec_unknown) /\
  wire (snd r) = field (snd r) /\
  decoded (snd r) = macsec_dec u (wire (snd r)) /\
  (macsec_repr u v -> macsec_sl u v <> macsec_unknown -> decoded (snd r) = Some v).

(* -------------------------------------------------------------------- AH *)
(* RFC 4302: Payload Len (8 bit) = length of the AH in 32-bit words minus 2;
   12 octets are fixed, the ICV follows. *)
Definition ah_fixed : N := 12.
Definition ah_repr (icv : N) : Prop := icv mod 4 = 0 /\ fits 8 ((ah_fixed + icv) / 4 - 2).
Definition ah_max : N := (field_max 8 + 2) * 4 - ah_fixed.
Definition ah_dec (payload_len : N) : N := (payload_len + 2) * 4 - ah_fixed.
Inductive icv_err := IcvTooBig (n : N) | IcvUnaligned (n : N).
Definition ah_bad (n : N) : icv_err := if ah_max <? n then IcvTooBig n else IcvUnaligned n.

(* ---------------------------------------------- IPv6 extension (generic) *)
(* RFC 8200 4.3: Hdr Ext Len (8 bit) = length of the header in 8-octet units
   not counting the first 8; 2 octets (next header, length) precede the data. *)
Definition ext_repr (p : N) : Prop :=
  (2 + p) mod 8 = 0 /\ 8 <= 2 + p /\ fits 8 ((2 + p) / 8 - 1).
Definition ext_min : N := 8 - 2.
Definition ext_max : N := (field_max 8 + 1) * 8 - 2.
Definition ext_dec (hdr_ext_len : N) : N := (hdr_ext_len + 1) * 8 - 2.
Inductive ext_err := ExtTooSmall (n : N) | ExtTooBig (n : N) | ExtUnaligned (n : N).
Definition ext_bad (n : N) : ext_err :=
  if n <? ext_min then ExtTooSmall n else if ext_max <? n then ExtTooBig n else ExtUnaligned n.

(* ------------------------------------- lengths of extension header chains *)
(* length of an AH from its Payload Len field, of a generic extension header
   from its Hdr Ext Len field; the fragment header has 8 octets (RFC 8200 4.5) *)
Definition ah_total_len (payload_len : N) : N := (payload_len + 2) * 4.
Definition ext_total_len (hdr_ext_len : N) : N := (hdr_ext_len + 1) * 8.
Definition frag_total_len : N := 8.

(* which extension headers a header set carries.  The crate stores for an AH
   `raw_icv_len` = Payload Len - 1 and for a generic header Hdr Ext Len (u8). *)
Definition v4exts := option N.                         (* auth: raw_icv_len *)
Record v6exts := {
  x_hop : option N; x_dst : option N;
  x_route : option (N * option N);       (* routing, final destination options *)
  x_frag : bool; x_auth : option N }.
Definition olen (f : N -> N) (o : option N) : N := match o with Some l => f l | None => 0 end.
Definition v4x_len (x : v4exts) : N := olen (fun l => ah_total_len (l + 1)) x.
Definition v6x_len (x : v6exts) : N :=
  olen ext_total_len (x_hop x) + olen ext_total_len (x_dst x)
  + match x_route x with Some (r, f) => ext_total_len r + olen ext_total_len f | None => 0 end
  + (if x_frag x then frag_total_len else 0)
  + olen (fun l => ah_total_len (l + 1)) (x_auth x).
(* the length fields are bytes *)
Definition o8 (o : option N) : Prop := match o with Some l => l < 256 | None => True end.
Definition v4exts_wf (x : v4exts) : Prop := o8 x.
Definition v6exts_wf (x : v6exts) : Prop :=
  o8 (x_hop x) /\ o8 (x_dst x) /\
  (match x_route x with Some (r, f) => r < 256 /\ o8 f | None => True end) /\ o8 (x_auth x).

(* ------------------------------------------------------------------- ARP *)
(* RFC 826: hardware / protocol address length, 8 bit each; sender and
   target address have that same length *)
Definition arp_repr (n : N) : Prop := fits 8 n.
Definition arp_max : N := field_max 8.

(* ---------------------------------------------------------------- builder *)
(* PacketBuilder: ip header + extensions + transport header + payload *)
Definition build4_repr (opts exts transport v : N) : Prop :=
  fits 16 (ipv4_hdr_len opts + exts + transport + v).
Definition build4_max (opts exts transport : N) : N :=
  field_max 16 - ipv4_hdr_len opts - exts - transport.
Definition build6_repr (exts transport v : N) : Prop := fits 16 (exts + transport + v).
Definition build6_max (exts transport : N) : N := field_max 16 - exts - transport.

(* ------------------------------------------------------- wire encoding *)
(* a 16 / 32 bit big-endian field as it stands in the serialised header *)
Definition wire16 (bs : bytes) : option N :=
  match bs with [a; b] => Some (be16 a b) | _ => None end.
Definition wire32 (bs : bytes) : option N :=
  match bs with [a; b; c; d] => Some (be32 a b c d) | _ => None end.

(* ------------------------------------------------- executable deciders *)
(* used by the runner to evaluate the specification on every case; each is
   shown equivalent to its predicate in Proofs.v (…_reprb_spec) *)
Definition fitsb (bits x : N) : bool := x <? 2 ^ bits.
Definition ipv4_opts_reprb (o : N) : bool := (o mod 4 =? 0) && fitsb 4 (ipv4_hdr_len o / 4).
Definition ipv4_reprb (opts v : N) : bool := fitsb 16 (ipv4_hdr_len opts + v).
Definition iph4_reprb (opts exts v : N) : bool := fitsb 16 (ipv4_hdr_len opts + exts + v).
Definition ipv6_reprb (v : N) : bool := fitsb 16 v.
Definition iph6_reprb (exts v : N) : bool := fitsb 16 (exts + v).
Definition udp_reprb (v : N) : bool := fitsb 16 (udp_hdr + v).
Definition udp6_pseudo_reprb (v : N) : bool := fitsb 32 (udp_hdr + v).
Definition tcp_opts_reprb (n : N) : bool := fitsb 4 (tcp_hdr_len (pad4 n) / 4).
Definition tcp4_reprb (hdr v : N) : bool := fitsb 16 (hdr + v).
Definition tcp6_reprb (hdr v : N) : bool := fitsb 32 (hdr + v).
Definition icmp6_reprb (v : N) : bool := fitsb 32 (icmp6_hdr + v).
Definition macsec_reprb (u : bool) (v : N) : bool := fitsb 6 (macsec_sl u v).
Definition ah_reprb (icv : N) : bool := (icv mod 4 =? 0) && fitsb 8 ((ah_fixed + icv) / 4 - 2).
Definition ext_reprb (p : N) : bool :=
  ((2 + p) mod 8 =? 0) && (8 <=? 2 + p) && fitsb 8 ((2 + p) / 8 - 1).
Definition arp_reprb (n : N) : bool := fitsb 8 n.
Definition build4_reprb (opts exts transport v : N) : bool :=
  fitsb 16 (ipv4_hdr_len opts + exts + transport + v).
Definition build6_reprb (exts transport v : N) : bool := fitsb 16 (exts + transport + v).
