(* Props/C15.v -- property C15: bit-field types hold only in-range values and
   never bleed into neighbours.  Only statements; every proof is `exact <lemma>`.
   Vocabulary: BitFields/Spec.v (RFC layouts, `field`, `agree_outside`),
   BitFields/Model.v (the Rust functions), BitFields/Fields.v (ok / get / set). *)
From EP Require Parse.GenAccessOk.   (* the field accessors, re-translated from the Rust source on every run (Gen/Accessors.v), equal the hand models the theorems below are about *)
From EP Require Parse.ConstsAllOk.   (* every numeric `pub const` of the crate, regenerated from the source on every run, has its RFC / IANA value *)
From EP Require Import Base.Bytes BitFields.Spec BitFields.Model BitFields.Fields
  BitFields.BitLemmas BitFields.Proofs BitFields.Proofs2 BitFields.Proofs3.
Local Open Scope N_scope.

(* ---- 1. checked constructors: Ok exactly for the values that fit ------- *)
(* checked_ctor max w try_new try_from new_unchecked :=
     max = 2^w - 1 /\ (forall v, try_new v = TOk v <-> v <= max) /\
     (forall v, max < v -> try_new v = TErr v max) /\ (forall v, try_from v = try_new v) /\
     (forall v, new_unchecked v = Val v <-> v <= max) /\ (forall v, max < v -> new_unchecked v = UB)
   for ALL v (unbounded N), not only those of the argument type *)

Theorem C15_VlanId : checked_ctor VlanId_MAX_U16 12 VlanId_try_new VlanId_try_from VlanId_new_unchecked.
Proof. exact VlanId_ctor. Qed.
Print Assumptions C15_VlanId.

Theorem C15_VlanPcp : checked_ctor VlanPcp_MAX_U8 3 VlanPcp_try_new VlanPcp_try_from VlanPcp_new_unchecked.
Proof. exact VlanPcp_ctor. Qed.
Print Assumptions C15_VlanPcp.

Theorem C15_IpDscp : checked_ctor IpDscp_MAX_U8 6 IpDscp_try_new IpDscp_try_from IpDscp_new_unchecked.
Proof. exact IpDscp_ctor. Qed.
Print Assumptions C15_IpDscp.

Theorem C15_IpEcn :
  IpEcn_MAX_U8 = 2 ^ N.of_nat 2 - 1 /\
  (forall v, IpEcn_try_new v = Val (TOk v) <-> v <= IpEcn_MAX_U8) /\
  (forall v, IpEcn_MAX_U8 < v -> IpEcn_try_new v = Val (TErr v IpEcn_MAX_U8)) /\
  (forall v, IpEcn_try_from v = IpEcn_try_new v) /\
  (forall v, IpEcn_new_unchecked v = Val v <-> v <= IpEcn_MAX_U8) /\
  (forall v, IpEcn_MAX_U8 < v -> IpEcn_new_unchecked v = Fail UBRange).
Proof. exact IpEcn_ctor. Qed.
Print Assumptions C15_IpEcn.

Theorem C15_IpFragOffset :
  checked_ctor IpFragOffset_MAX_U16 13 IpFragOffset_try_new IpFragOffset_try_from IpFragOffset_new_unchecked.
Proof. exact IpFragOffset_ctor. Qed.
Print Assumptions C15_IpFragOffset.

Theorem C15_Ipv6FlowLabel :
  checked_ctor Ipv6FlowLabel_MAX_U32 20 Ipv6FlowLabel_try_new Ipv6FlowLabel_try_from Ipv6FlowLabel_new_unchecked.
Proof. exact Ipv6FlowLabel_ctor. Qed.
Print Assumptions C15_Ipv6FlowLabel.

Theorem C15_MacsecAn : checked_ctor MacsecAn_MAX_U8 2 MacsecAn_try_new MacsecAn_try_from MacsecAn_new_unchecked.
Proof. exact MacsecAn_ctor. Qed.
Print Assumptions C15_MacsecAn.

Theorem C15_MacsecShortLen :
  checked_ctor MacsecShortLen_MAX_U8 6 MacsecShortLen_try_from_u8 MacsecShortLen_try_from
    MacsecShortLen_from_u8_unchecked.
Proof. exact MacsecShortLen_ctor. Qed.
Print Assumptions C15_MacsecShortLen.

Theorem C15_Qrv : checked_ctor Qrv_MAX_U8 3 Qrv_try_new Qrv_try_from Qrv_new_unchecked.
Proof. exact Qrv_ctor. Qed.
Print Assumptions C15_Qrv.

(* the two unchecked-but-total constructors of MacsecShortLen, for every usize *)
Theorem C15_MacsecShortLen_from_len : forall l,
  MacsecShortLen_from_len l <= MacsecShortLen_MAX_U8 /\
  MacsecShortLen_from_len l = (if l <=? 63 then l else 0).
Proof. exact MacsecShortLen_from_len_spec. Qed.
Print Assumptions C15_MacsecShortLen_from_len.

Theorem C15_Macsec_set_payload_len : forall p n,
  exists sl, MacsecHeader_set_payload_len p n = Val sl /\ sl <= MacsecShortLen_MAX_U8 /\
    sl = (if is_unmodified p then (if n <=? 61 then n + 2 else 0) else (if n <=? 63 then n else 0)).
Proof. exact MacsecHeader_set_payload_len_spec. Qed.
Print Assumptions C15_Macsec_set_payload_len.

(* ---- 2. decoders: on every slice, only in-range values, never UB -------- *)
(* acc_in_range acc max := forall s, bytes_ok s ->
     acc s <> Fail UBRange /\ forall v, acc s = Val v -> v <= max *)

Theorem C15_dec_vlan :
  acc_in_range VHS_priority_code_point VlanPcp_MAX_U8 /\ acc_in_range VHS_vlan_identifier VlanId_MAX_U16 /\
  acc_in_range VS_priority_code_point VlanPcp_MAX_U8 /\ acc_in_range VS_vlan_identifier VlanId_MAX_U16.
Proof. exact (conj VHS_pcp_in_range (conj VHS_vid_in_range (conj VS_pcp_in_range VS_vid_in_range))). Qed.
Print Assumptions C15_dec_vlan.

Theorem C15_dec_ipv4 :
  acc_in_range V4S_dcp IpDscp_MAX_U8 /\ acc_in_range V4S_ecn IpEcn_MAX_U8 /\
  acc_in_range V4S_fragments_offset IpFragOffset_MAX_U16.
Proof. exact (conj V4S_dcp_in_range (conj V4S_ecn_in_range V4S_fo_in_range)). Qed.
Print Assumptions C15_dec_ipv4.

Theorem C15_dec_ipv6 :
  acc_in_range V6S_dscp IpDscp_MAX_U8 /\ acc_in_range V6S_ecn IpEcn_MAX_U8 /\
  acc_in_range V6S_flow_label Ipv6FlowLabel_MAX_U32 /\
  acc_in_range FRS_fragment_offset IpFragOffset_MAX_U16.
Proof. exact (conj V6S_dscp_in_range (conj V6S_ecn_in_range (conj V6S_flow_in_range FRS_fo_in_range))). Qed.
Print Assumptions C15_dec_ipv6.

Theorem C15_dec_macsec :
  acc_in_range MS_an MacsecAn_MAX_U8 /\ acc_in_range MS_short_len MacsecShortLen_MAX_U8.
Proof. exact (conj MS_an_in_range MS_sl_in_range). Qed.
Print Assumptions C15_dec_macsec.

Theorem C15_dec_igmp : forall raw, raw < 256 ->
  Query_flags raw = raw / 16 /\ b2n (Query_s_flag raw) = (raw / 8) mod 2 /\
  Query_qrv raw = Val (raw mod 8) /\ raw mod 8 <= Qrv_MAX_U8 /\
  nbits 8 raw = layout_bits (igmp_byte8_layout (raw / 16) ((raw / 8) mod 2) (raw mod 8)).
Proof. exact query_getters. Qed.
Print Assumptions C15_dec_igmp.

(* Ipv6Header::dscp()/ecn() on the traffic class value *)
Theorem C15_dec_ipv6_tc : forall tc, tc < 256 ->
  Ipv6Header_dscp tc = Val (tc / 4) /\ Ipv6Header_ecn tc = Val (tc mod 4) /\
  tc / 4 <= IpDscp_MAX_U8 /\ tc mod 4 <= IpEcn_MAX_U8.
Proof. exact ipv6_tc_accessors. Qed.
Print Assumptions C15_dec_ipv6_tc.

(* the std::io read paths and from_bytes: same guarantee for every input *)
Theorem C15_dec_read_ipv4 : forall reader, bytes_ok reader -> no_ub (Ipv4Header_read reader) v4_in_range.
Proof. exact Ipv4Header_read_in_range. Qed.
Print Assumptions C15_dec_read_ipv4.

Theorem C15_dec_read_ipv6 : forall reader, bytes_ok reader -> no_ub (Ipv6Header_read reader) v6_in_range.
Proof. exact Ipv6Header_read_in_range. Qed.
Print Assumptions C15_dec_read_ipv6.

Theorem C15_dec_from_bytes_vlan : forall a b c d, a < 256 -> b < 256 ->
  no_ub (SingleVlanHeader_from_bytes a b c d) vlan_in_range.
Proof. exact SingleVlanHeader_from_bytes_in_range. Qed.
Print Assumptions C15_dec_from_bytes_vlan.

(* the raw expressions of the decoders read exactly the RFC's bit ranges
   (complete sweeps over the one or two bytes they look at) *)
Theorem C15_dec_bits_tci : forall a b, a < 256 -> b < 256 ->
  N.land (N.shiftr a 5) 7 = field (bits_of [a; b]) 0 3 /\
  b2n (nonzero (N.land a 16)) = field (bits_of [a; b]) 3 1 /\
  be16 (N.land a 15) b = field (bits_of [a; b]) 4 12.
Proof. exact raw_fields_tci. Qed.
Print Assumptions C15_dec_bits_tci.

Theorem C15_dec_bits_ipv4 : forall a b, a < 256 -> b < 256 ->
  (N.shiftr b 2 = field (bits_of [b]) 0 6 /\ N.land b 3 = field (bits_of [b]) 6 2) /\
  (b2n (nonzero (N.land a 64)) = field (bits_of [a; b]) 1 1 /\
   b2n (nonzero (N.land a 32)) = field (bits_of [a; b]) 2 1 /\
   be16 (N.land a 31) b = field (bits_of [a; b]) 3 13).
Proof. exact (fun a b Ha Hb => conj (raw_fields_ipv4_1 b Hb) (raw_fields_ipv4_67 a b Ha Hb)). Qed.
Print Assumptions C15_dec_bits_ipv4.

Theorem C15_dec_bits_ipv6 : forall a b, a < 256 -> b < 256 ->
  (let tc := N.lor (shl8 a 4) (N.shiftr b 4) in
   tc = field (bits_of [a; b]) 4 8 /\ N.land (N.shiftr tc 2) 63 = field (bits_of [a; b]) 4 6 /\
   N.land tc 3 = field (bits_of [a; b]) 10 2 /\ N.land b 15 = field (bits_of [b]) 4 4) /\
  (N.shiftr (be16 a b) 3 = field (bits_of [a; b]) 0 13 /\
   b2n (nonzero (N.land b 1)) = field (bits_of [a; b]) 15 1).
Proof. exact (fun a b Ha Hb => conj (raw_fields_ipv6_01 a b Ha Hb) (raw_fields_frag a b Ha Hb)). Qed.
Print Assumptions C15_dec_bits_ipv6.

Theorem C15_dec_bits_macsec : forall t s, t < 256 -> s < 256 ->
  b2n (nonzero (N.land t 128)) = field (bits_of [t]) 0 1 /\
  b2n (nonzero (N.land t 64)) = field (bits_of [t]) 1 1 /\
  b2n (nonzero (N.land t 32)) = field (bits_of [t]) 2 1 /\
  b2n (nonzero (N.land t 16)) = field (bits_of [t]) 3 1 /\
  b2n (nonzero (N.land t 8)) = field (bits_of [t]) 4 1 /\
  b2n (nonzero (N.land t 4)) = field (bits_of [t]) 5 1 /\
  N.land t 3 = field (bits_of [t]) 6 2 /\
  N.land s 63 = field (bits_of [s]) 2 6.
Proof. exact raw_fields_macsec. Qed.
Print Assumptions C15_dec_bits_macsec.

(* ---- 3. encoders: exactly the RFC layout; one field changes only its bits ---- *)

(* 802.1Q *)
Theorem C15_vlan_layout : forall h, vlan_ok h ->
  bits_of (SingleVlanHeader_to_bytes h) = layout_bits (vlan_spec_layout h).
Proof. exact vlan_enc_layout. Qed.
Print Assumptions C15_vlan_layout.

Theorem C15_vlan_no_bleed : forall f h v, vlan_ok h -> wfits (vlan_range f) v ->
  agree_outside (fst (vlan_range f)) (snd (vlan_range f))
    (bits_of (SingleVlanHeader_to_bytes (vlan_set f h v))) (bits_of (SingleVlanHeader_to_bytes h)).
Proof. exact vlan_no_bleed. Qed.
Print Assumptions C15_vlan_no_bleed.

(* all three decoders (from_bytes, SingleVlanHeaderSlice, SingleVlanSlice) give back the header *)
Theorem C15_vlan_roundtrip : forall h, vlan_ok h ->
  match SingleVlanHeader_to_bytes h with
  | [b0; b1; b2; b3] =>
      SingleVlanHeader_from_bytes b0 b1 b2 b3 = Val h /\
      SingleVlanHeader_from_slice [b0; b1; b2; b3] = Val h /\
      SingleVlanSlice_decode [b0; b1; b2; b3] = Val h
  | _ => False
  end.
Proof. exact vlan_roundtrip_all. Qed.
Print Assumptions C15_vlan_roundtrip.

(* IPv4 *)
Theorem C15_ipv4_layout : forall h, ipv4_ok h ->
  bits_of (Ipv4Header_to_bytes h) = layout_bits (ipv4_spec_layout h) /\
  Ipv4Header_write_raw h = Ipv4Header_to_bytes h.
Proof. exact (fun h H => conj (ipv4_enc_layout h H) eq_refl). Qed.
Print Assumptions C15_ipv4_layout.

Theorem C15_ipv4_no_bleed : forall f h v, ipv4_ok h -> wfits (ipv4_range f) v ->
  agree_outside (fst (ipv4_range f)) (snd (ipv4_range f))
    (bits_of (Ipv4Header_to_bytes (ipv4_set f h v))) (bits_of (Ipv4Header_to_bytes h)).
Proof. exact ipv4_no_bleed. Qed.
Print Assumptions C15_ipv4_no_bleed.

Theorem C15_ipv4_roundtrip : forall h, ipv4_ok h ->
  Ipv4Header_from_slice (Ipv4Header_to_bytes h) = Val h.
Proof. exact ipv4_roundtrip. Qed.
Print Assumptions C15_ipv4_roundtrip.

(* IPv6, DSCP and ECN written through Ipv6Header::set_dscp / set_ecn *)
Theorem C15_ipv6_layout : forall h, ipv6_ok h ->
  bits_of (Ipv6Header_to_bytes h) = layout_bits (ipv6_spec_layout h) /\
  bits_of (Ipv6Header_to_bytes h) = layout_bits (ipv6_spec_layout_ds h).
Proof. exact (fun h H => conj (ipv6_enc_layout h H) (ipv6_enc_layout_ds h H)). Qed.
Print Assumptions C15_ipv6_layout.

Theorem C15_ipv6_no_bleed : forall f h v, ipv6_ok h -> wfits (ipv6_range f) v ->
  agree_outside (fst (ipv6_range f)) (snd (ipv6_range f))
    (bits_of (Ipv6Header_to_bytes (ipv6_set f h v))) (bits_of (Ipv6Header_to_bytes h)).
Proof. exact ipv6_no_bleed. Qed.
Print Assumptions C15_ipv6_no_bleed.

Theorem C15_ipv6_roundtrip : forall h, ipv6_ok h ->
  Ipv6Header_from_slice (Ipv6Header_to_bytes h) = Val h.
Proof. exact ipv6_roundtrip. Qed.
Print Assumptions C15_ipv6_roundtrip.

Theorem C15_ipv6_setters : forall tc, tc < 256 ->
  (forall d, d <= IpDscp_MAX_U8 ->
     let t := Ipv6Header_set_dscp tc d in
     t < 256 /\ t / 4 = d /\ t mod 4 = tc mod 4 /\
     Ipv6Header_dscp t = Val d /\ Ipv6Header_ecn t = Val (tc mod 4)) /\
  (forall e, e <= IpEcn_MAX_U8 ->
     let t := Ipv6Header_set_ecn tc e in
     t < 256 /\ t / 4 = tc / 4 /\ t mod 4 = e /\
     Ipv6Header_dscp t = Val (tc / 4) /\ Ipv6Header_ecn t = Val e).
Proof. exact (fun tc H => conj (fun d => ipv6_set_dscp_spec tc d H) (fun e => ipv6_set_ecn_spec tc e H)). Qed.
Print Assumptions C15_ipv6_setters.

(* IPv6 fragment header *)
Theorem C15_frag_layout : forall h, frag_ok h ->
  bits_of (Ipv6FragmentHeader_to_bytes h) = layout_bits (frag_spec_layout h).
Proof. exact frag_enc_layout. Qed.
Print Assumptions C15_frag_layout.

Theorem C15_frag_no_bleed : forall f h v, frag_ok h -> wfits (frag_range f) v ->
  agree_outside (fst (frag_range f)) (snd (frag_range f))
    (bits_of (Ipv6FragmentHeader_to_bytes (frag_set f h v))) (bits_of (Ipv6FragmentHeader_to_bytes h)).
Proof. exact frag_no_bleed. Qed.
Print Assumptions C15_frag_no_bleed.

Theorem C15_frag_roundtrip : forall h, frag_ok h ->
  Ipv6FragmentHeader_from_slice (Ipv6FragmentHeader_to_bytes h) = Val h /\
  Ipv6FragmentHeader_read (Ipv6FragmentHeader_to_bytes h) = Val h.
Proof. exact frag_roundtrip. Qed.
Print Assumptions C15_frag_roundtrip.

(* MACsec *)
Theorem C15_macsec_layout : forall h, macsec_ok h ->
  bits_of (MacsecHeader_to_bytes h) = layout_bits (macsec_spec_layout h).
Proof. exact macsec_enc_layout. Qed.
Print Assumptions C15_macsec_layout.

Theorem C15_macsec_no_bleed : forall f h v, macsec_settable f = true -> macsec_ok h ->
  wfits (macsec_range f) v ->
  agree_outside (fst (macsec_range f)) (snd (macsec_range f))
    (bits_of (MacsecHeader_to_bytes (macsec_set f h v))) (bits_of (MacsecHeader_to_bytes h)).
Proof. exact macsec_no_bleed. Qed.
Print Assumptions C15_macsec_no_bleed.

Theorem C15_macsec_ptype_no_bleed : forall h p, macsec_ok h ->
  is_unmodified (ms_ptype h) = false -> is_unmodified p = false ->
  agree_outside 4 2
    (bits_of (MacsecHeader_to_bytes (macsec_set_ptype h p))) (bits_of (MacsecHeader_to_bytes h)).
Proof. exact macsec_ptype_no_bleed. Qed.
Print Assumptions C15_macsec_ptype_no_bleed.

(* the decoder gives the header back, except for the one combination it rejects *)
Theorem C15_macsec_roundtrip : forall h, macsec_ok h ->
  MacsecHeader_from_slice (MacsecHeader_to_bytes h)
  = (if macsec_decodable h then Val h else Fail ErrContent).
Proof. exact macsec_roundtrip. Qed.
Print Assumptions C15_macsec_roundtrip.

(* IGMPv3 query: Resv / S / QRV written through set_flags / set_s_flag / set_qrv *)
Theorem C15_igmp_layout : forall t ck, query_ok t ck ->
  bits_of (IgmpQuery_to_bytes t ck) = layout_bits (query_spec_layout t ck).
Proof. exact query_enc_layout. Qed.
Print Assumptions C15_igmp_layout.

Theorem C15_igmp_no_bleed : forall f t ck v, query_ok t ck -> wfits (igmp_range f) v ->
  agree_outside (fst (igmp_range f)) (snd (igmp_range f))
    (bits_of (IgmpQuery_to_bytes (query_set f t v) ck)) (bits_of (IgmpQuery_to_bytes t ck))
  /\ query_get f (query_set f t v) = v
  /\ forall g, g <> f -> query_get g (query_set f t v) = query_get g t.
Proof. exact query_no_bleed. Qed.
Print Assumptions C15_igmp_no_bleed.

(* the setters on every raw byte and every u8 argument (out-of-range arguments are truncated) *)
Theorem C15_igmp_setters : forall raw v, raw < 256 -> v < 256 ->
  (let r := Query_set_flags raw v in
   r < 256 /\ r / 16 = v mod 16 /\ (r / 8) mod 2 = (raw / 8) mod 2 /\ r mod 8 = raw mod 8) /\
  (forall b, let r := Query_set_s_flag raw b in
   r < 256 /\ r / 16 = raw / 16 /\ (r / 8) mod 2 = b2n b /\ r mod 8 = raw mod 8) /\
  (let r := Query_set_qrv raw v in
   r < 256 /\ r / 16 = raw / 16 /\ (r / 8) mod 2 = (raw / 8) mod 2 /\ r mod 8 = v mod 8).
Proof. exact query_setters. Qed.
Print Assumptions C15_igmp_setters.

Theorem C15_igmp_roundtrip : forall t ck, query_ok t ck ->
  IgmpQuery_from_slice (IgmpQuery_to_bytes t ck) = Val (t, ck).
Proof. exact query_roundtrip. Qed.
Print Assumptions C15_igmp_roundtrip.

(* ---- 4. decoding after a field change: the new value, the others unchanged ---- *)
(* (consequence of the round trips; stated in the form the property is phrased) *)

Theorem C15_vlan_set_get : forall f h v, vlan_ok h -> wfits (vlan_range f) v ->
  exists d, SingleVlanHeader_from_slice (SingleVlanHeader_to_bytes (vlan_set f h v)) = Val d /\
    vlan_get f d = v /\ forall g, g <> f -> vlan_get g d = vlan_get g h.
Proof. exact vlan_set_get. Qed.
Print Assumptions C15_vlan_set_get.

Theorem C15_ipv4_set_get : forall f h v, ipv4_ok h -> wfits (ipv4_range f) v ->
  exists d, Ipv4Header_from_slice (Ipv4Header_to_bytes (ipv4_set f h v)) = Val d /\
    ipv4_get f d = v /\ forall g, g <> f -> ipv4_get g d = ipv4_get g h.
Proof. exact ipv4_set_get. Qed.
Print Assumptions C15_ipv4_set_get.

Theorem C15_ipv6_set_get : forall f h v, ipv6_ok h -> wfits (ipv6_range f) v ->
  exists d, Ipv6Header_from_slice (Ipv6Header_to_bytes (ipv6_set f h v)) = Val d /\
    ipv6_get f d = v /\ forall g, g <> f -> ipv6_get g d = ipv6_get g h.
Proof. exact ipv6_set_get. Qed.
Print Assumptions C15_ipv6_set_get.

Theorem C15_frag_set_get : forall f h v, frag_ok h -> wfits (frag_range f) v ->
  exists d, Ipv6FragmentHeader_from_slice (Ipv6FragmentHeader_to_bytes (frag_set f h v)) = Val d /\
    frag_get f d = v /\ forall g, g <> f -> frag_get g d = frag_get g h.
Proof. exact frag_set_get. Qed.
Print Assumptions C15_frag_set_get.

Theorem C15_macsec_set_get : forall f h v, macsec_settable f = true -> macsec_ok h ->
  wfits (macsec_range f) v -> macsec_decodable (macsec_set f h v) = true ->
  exists d, MacsecHeader_from_slice (MacsecHeader_to_bytes (macsec_set f h v)) = Val d /\
    macsec_get f d = v /\ forall g, g <> f -> macsec_get g d = macsec_get g h.
Proof. exact macsec_set_get. Qed.
Print Assumptions C15_macsec_set_get.

(* ---- non-vacuity ------------------------------------------------------- *)

Ltac ok_tac :=
  repeat split;
  try (vm_compute; first [reflexivity | discriminate]);
  try (repeat constructor; vm_compute; reflexivity).

Example C15_ex_vlan :
  let h := mkVlan 5 true 2748 34525 in
  vlan_ok h /\ SingleVlanHeader_to_bytes h = [186; 188; 134; 221] /\
  wfits (vlan_range VlanVID) 4095 /\
  SingleVlanHeader_to_bytes (vlan_set VlanVID h 4095) = [191; 255; 134; 221].
Proof. cbv zeta. split; [ok_tac|]. split; [vm_compute; reflexivity|].
  split; [vm_compute; reflexivity | vm_compute; reflexivity]. Qed.

Example C15_ex_ipv4 :
  let h := mkIpv4 46 3 1500 4660 true false 8191 64 6 0 [10; 0; 0; 1] [10; 0; 0; 2] [1; 1; 1; 0] in
  ipv4_ok h /\ firstn 8 (Ipv4Header_to_bytes h) = [70; 187; 5; 220; 18; 52; 95; 255].
Proof. cbv zeta. split; [ok_tac|vm_compute; reflexivity]. Qed.

Example C15_ex_ipv6 :
  let h := mkIpv6 255 1048575 0 0 0 (repeat 0 16) (repeat 0 16) in
  ipv6_ok h /\ firstn 4 (Ipv6Header_to_bytes h) = [111; 255; 255; 255] /\
  firstn 4 (Ipv6Header_to_bytes (ipv6_set V6FlowLabel h 0)) = [111; 240; 0; 0] /\
  firstn 4 (Ipv6Header_to_bytes (ipv6_set V6Dscp h 0)) = [96; 63; 255; 255].
Proof. cbv zeta. split; [ok_tac|repeat split; vm_compute; reflexivity]. Qed.

Example C15_ex_frag :
  let h := mkFrag 17 8191 true 305419896 in
  frag_ok h /\ Ipv6FragmentHeader_to_bytes h = [17; 0; 255; 249; 18; 52; 86; 120].
Proof. cbv zeta. split; [ok_tac | vm_compute; reflexivity]. Qed.

Example C15_ex_macsec :
  let h := mkMacsec (Unmodified 2048) true true 3 63 1 (Some 72623859790382856) in
  macsec_ok h /\ macsec_decodable h = true /\
  MacsecHeader_to_bytes h = [115; 63; 0; 0; 0; 1; 1; 2; 3; 4; 5; 6; 7; 8; 8; 0] /\
  (* the rejected combination exists *)
  macsec_decodable (macsec_set MsSL h 1) = false.
Proof. cbv zeta. split; [ok_tac|]. repeat split; vm_compute; reflexivity. Qed.

Example C15_ex_igmp :
  Query_set_qrv 255 0 = 248 /\ Query_set_s_flag 255 false = 247 /\ Query_set_flags 255 0 = 15 /\
  Query_set_flags 0 255 = 240.
Proof. repeat split; vm_compute; reflexivity. Qed.

Example C15_ex_types :
  VlanId_try_new 4095 = TOk 4095 /\ VlanId_try_new 4096 = TErr 4096 4095 /\
  Ipv6FlowLabel_try_new 1048576 = TErr 1048576 1048575 /\ IpEcn_try_new 4 = Val (TErr 4 3) /\
  IpEcn_new_unchecked 4 = Fail UBRange.
Proof. repeat split; vm_compute; reflexivity. Qed.

(* ==== round3 smalls begin ==== *)
(* Round 3 (audit clause b, "struct decoders"): `X::from_slice` (= `XSlice::from_slice(s)?.to_header()`)
   on ARBITRARY bytes never hands an out-of-range value to a `new_unchecked` and every bounded
   field of a returned header is in range.  So far stated for the single slice accessors,
   Ipv4Header::read, Ipv6Header::read and SingleVlanHeader::from_bytes only.  `no_ub r P` :=
   r <> Fail UBRange /\ forall a, r = Val a -> P a  (rejections ErrLen / ErrContent and the
   out-of-slice marker OOB -- whose absence is C01's clause -- make it hold trivially; the
   examples below are accepted inputs with every bounded field at its maximum).
   Lemmas: BitFields/FromSliceRange.v (composition of the accessor lemmas along to_header). *)
From EP Require Import BitFields.FromSliceRange.

Theorem C15_dec_from_slice_vlan : forall s, bytes_ok s ->
  no_ub (SingleVlanHeader_from_slice s) vlan_in_range /\ no_ub (SingleVlanSlice_decode s) vlan_in_range.
Proof. exact vlan_struct_decoders_in_range. Qed.
Print Assumptions C15_dec_from_slice_vlan.

Theorem C15_dec_from_slice_ipv4 : forall s, bytes_ok s -> no_ub (Ipv4Header_from_slice s) v4_in_range.
Proof. exact Ipv4Header_from_slice_in_range. Qed.
Print Assumptions C15_dec_from_slice_ipv4.

Theorem C15_dec_from_slice_ipv6 : forall s, bytes_ok s -> no_ub (Ipv6Header_from_slice s) v6_in_range.
Proof. exact Ipv6Header_from_slice_in_range. Qed.
Print Assumptions C15_dec_from_slice_ipv6.

(* frag_in_range h := fr_fragment_offset h <= IpFragOffset_MAX_U16 *)
Theorem C15_dec_from_slice_frag : forall s, bytes_ok s -> no_ub (Ipv6FragmentHeader_from_slice s) frag_in_range.
Proof. exact Ipv6FragmentHeader_from_slice_in_range. Qed.
Print Assumptions C15_dec_from_slice_frag.

Theorem C15_dec_read_frag : forall reader, bytes_ok reader -> no_ub (Ipv6FragmentHeader_read reader) frag_in_range.
Proof. exact Ipv6FragmentHeader_read_in_range. Qed.
Print Assumptions C15_dec_read_frag.

(* macsec_in_range h := ms_an h <= MacsecAn_MAX_U8 /\ ms_short_len h <= MacsecShortLen_MAX_U8 *)
Theorem C15_dec_from_slice_macsec : forall s, bytes_ok s -> no_ub (MacsecHeader_from_slice s) macsec_in_range.
Proof. exact MacsecHeader_from_slice_in_range. Qed.
Print Assumptions C15_dec_from_slice_macsec.

(* IgmpHeader::from_slice, IGMPv3 query arm: the header stores octet 8 raw; the stored octet is an
   octet and the QRV getter on it is in range.
   query_in_range (h, checksum) := q_raw_byte_8 h < 256 /\ no_ub (Query_qrv (q_raw_byte_8 h)) (fun v => v <= Qrv_MAX_U8) *)
Theorem C15_dec_from_slice_igmp : forall s, bytes_ok s -> no_ub (IgmpQuery_from_slice s) query_in_range.
Proof. exact IgmpQuery_from_slice_in_range. Qed.
Print Assumptions C15_dec_from_slice_igmp.

Check (eq_refl : frag_in_range = fun h => fr_fragment_offset h <= IpFragOffset_MAX_U16).
Check (eq_refl : macsec_in_range = fun h => ms_an h <= MacsecAn_MAX_U8 /\ ms_short_len h <= MacsecShortLen_MAX_U8).
Check (eq_refl : query_in_range = fun r => q_raw_byte_8 (fst r) < 256 /\
                   no_ub (Query_qrv (q_raw_byte_8 (fst r))) (fun v => v <= Qrv_MAX_U8)).

(* non-vacuity: ACCEPTED inputs whose bit fields are all ones: every bounded field at its maximum *)
Example C15_ex_from_slice_accept :
  SingleVlanHeader_from_slice [255; 255; 8; 0; 9] = Val (mkVlan 7 true 4095 2048) /\
  (exists h, Ipv4Header_from_slice ([70; 255; 0; 24; 0; 1; 255; 255; 64; 6; 0; 0; 10; 0; 0; 1; 10; 0; 0; 2; 1; 1; 1; 0; 9]) = Val h /\
     v4_dscp h = 63 /\ v4_ecn h = 3 /\ v4_fragment_offset h = 8191 /\ v4_options h = [1; 1; 1; 0]) /\
  (exists h, Ipv6Header_from_slice (111 :: 255 :: 255 :: 255 :: repeat 0 36) = Val h /\
     v6_traffic_class h = 255 /\ v6_flow_label h = 1048575) /\
  Ipv6FragmentHeader_from_slice [17; 0; 255; 249; 18; 52; 86; 120; 9] = Val (mkFrag 17 8191 true 305419896) /\
  Ipv6FragmentHeader_read [17; 0; 255; 249; 18; 52; 86; 120; 9] = Val (mkFrag 17 8191 true 305419896) /\
  MacsecHeader_from_slice [115; 63; 0; 0; 0; 1; 1; 2; 3; 4; 5; 6; 7; 8; 8; 0; 9]
    = Val (mkMacsec (Unmodified 2048) true true 3 63 1 (Some 72623859790382856)) /\
  IgmpQuery_from_slice [17; 100; 0; 0; 224; 0; 0; 1; 255; 125; 0; 1; 10; 0; 0; 1]
    = Val (mkQuery 100 [224; 0; 0; 1] 255 125 1, 0) /\
  Query_qrv 255 = Val 7.
Proof. repeat split; try (eexists; repeat split); vm_compute; reflexivity. Qed.
(* ==== round3 smalls end ==== *)
