(* Props/C13.v -- property C13: TCP options encode and decode faithfully;
   iteration is bounded.  Only statements; every proof is `exact <lemma>`.
   Vocabulary:
     Spec.v   opt, wire, wire_list, pad4, padding, err_true      (RFC 9293 / 7323 / 2018)
     Model.v  next, iterate, next_n, try_from_elements, try_from_slice, as_slice,
              elements_iterate, required_len  (transliterated Rust); to_opt, compact,
              canonical, element_ok; traces = list of (yielded item, rest() afterwards).
   All statements quantify over element lists / byte areas of ANY length. *)
From EP Require Import Base.Bytes TcpOpt.Spec TcpOpt.Model TcpOpt.Proofs.
Local Open Scope N_scope.

(* every element list that fits: accepted, length rounded up to a multiple of 4,
   bytes = RFC encodings + END padding, iterating them yields the compacted
   elements in order and leaves exactly the END padding *)
Theorem C13_enc_dec : forall els, Forall element_ok els -> required_len els <= 40 ->
  exists o tr,
    try_from_elements els = Ret (Ok o)
    /\ options_len o = pad4 (required_len els)
    /\ data_offset o = 5 + pad4 (required_len els) / 4
    /\ required_len els = len (wire_list (map to_opt els))
    /\ as_slice o = Ret (wire_list (map to_opt els) ++ padding (required_len els))
    /\ elements_iterate o = Ret (tr, [])
    /\ map fst tr = map (fun e => Ok (compact e)) els
    /\ last_rest (wire_list (map to_opt els) ++ padding (required_len els)) tr
       = padding (required_len els).
Proof. exact c13_enc_dec. Qed.
Print Assumptions C13_enc_dec.

(* compact = drop the holes of a SACK element; identity on elements without holes *)
Theorem C13_compact :
  (forall e, canonical e -> compact e = e)
  /\ (forall e, canonical (compact e))
  /\ (forall e, to_opt (compact e) = to_opt e)
  /\ (forall e, element_ok e -> element_ok (compact e)).
Proof. exact c13_compact. Qed.
Print Assumptions C13_compact.

Theorem C13_reject : forall els, 40 < required_len els ->
  try_from_elements els = Ret (Err (NotEnoughSpace (required_len els))).
Proof. exact c13_reject. Qed.
Print Assumptions C13_reject.

(* raw bytes as options (TcpHeader::set_options_raw): zero padded to a multiple of 4 *)
Theorem C13_from_slice : forall s,
  (len s <= 40 -> exists o, try_from_slice s = Ret (Ok o) /\ options_len o = pad4 (len s)
     /\ as_slice o = Ret (s ++ padding (len s)))
  /\ (40 < len s -> try_from_slice s = Ret (Err (NotEnoughSpace (len s)))).
Proof. exact c13_from_slice. Qed.
Print Assumptions C13_from_slice.

(* the unchecked reads (get_unchecked_be_u16/u32, from_raw_parts) and the index /
   range checks of next() never fail, for any bytes; the iteration ends within
   len+1 calls (Ret excludes OOB, Panic and OutOfFuel) *)
Theorem C13_in_bounds :
  (forall opts, exists it r, next opts = Ret (it, r))
  /\ (forall area, exists tr fin, iterate area = Ret (tr, fin)).
Proof. exact c13_in_bounds. Qed.
Print Assumptions C13_in_bounds.

(* after any number of successfully yielded elements: area = their RFC
   encodings, concatenated, followed by rest() *)
Theorem C13_tiles : forall area tr fin, bytes_ok area -> iterate area = Ret (tr, fin) ->
  forall pre post, tr = pre ++ post -> all_ok pre ->
    area = wire_list (map to_opt (elems_of pre)) ++ last_rest area pre
    /\ Forall element_ok (elems_of pre) /\ Forall canonical (elems_of pre).
Proof. exact c13_tiles. Qed.
Print Assumptions C13_tiles.

(* an error is the last item, empties the iterator, and describes the bytes at
   the position where the preceding elements ended *)
Theorem C13_error_truth : forall area tr fin, iterate area = Ret (tr, fin) ->
  forall pre e r post, tr = pre ++ (Err e, r) :: post ->
    all_ok pre /\ post = [] /\ r = [] /\ last_rest area pre <> []
    /\ err_true (last_rest area pre) e.
Proof. exact c13_error_truth. Qed.
Print Assumptions C13_error_truth.

Theorem C13_bounded : forall area, exists tr fin, iterate area = Ret (tr, fin)
  /\ (length tr <= length area)%nat
  /\ (forall pre e r post, tr = pre ++ (Ok e, r) :: post -> len r < len (last_rest area pre)).
Proof. exact c13_bounded. Qed.
Print Assumptions C13_bounded.

(* after END / an error / the end of the area: rest() is empty, every further
   next() is None; and the iteration stops for no other reason *)
Theorem C13_exhausted :
  (forall opts it o', next opts = Ret (it, o') ->
     (it = None \/ exists e, it = Some (Err e)) ->
     o' = [] /\ forall n, next_n n o' = Ret (repeat None n, []))
  /\ (forall area tr fin, iterate area = Ret (tr, fin) ->
     fin = [] /\ (forall n, next_n n fin = Ret (repeat None n, []))
     /\ (last_rest area tr = [] \/ exists r, last_rest area tr = 0 :: r)).
Proof. exact c13_exhausted. Qed.
Print Assumptions C13_exhausted.

(* the table-driven reference decoder of Spec.v (run as oracle against the
   crate on every case) answers like the model: per call and for whole areas *)
Theorem C13_reference_decoder :
  (forall bs, bytes_ok bs -> agrees (next bs) (spec_next bs))
  /\ (forall area tr fin, bytes_ok area -> iterate area = Ret (tr, fin) ->
      spec_decode (S (length area)) area = sitems_of tr).
Proof. exact c13_reference_decoder. Qed.
Print Assumptions C13_reference_decoder.

(* ---- non-vacuity ---------------------------------------------------------- *)
Definition ex_els : list element :=
  [ MaximumSegmentSize 1460; SelectiveAcknowledgementPermitted; Timestamp 4294967295 7;
    Noop; WindowScale 7;
    SelectiveAcknowledgement (1, 2) (None, Some (3, 4), None) ].
(* 4+2+10+1+3+18 = 38 bytes, padded to 40; the SACK hole is compacted *)
Example C13_ex_enc_hyp : Forall element_ok ex_els /\ required_len ex_els = 38.
Proof.
  split; [|reflexivity].
  repeat constructor; cbn; unfold block_ok, u32_ok, u16_ok, u8_ok; cbn; try lia; repeat split; lia.
Qed.
Example C13_ex_enc :
  (exists o, try_from_elements ex_els = Ret (Ok o) /\ options_len o = 40 /\ data_offset o = 15
     /\ elements_iterate o =
        Ret ([ (Ok (MaximumSegmentSize 1460), drop 4 (o_buf o));
               (Ok SelectiveAcknowledgementPermitted, drop 6 (o_buf o));
               (Ok (Timestamp 4294967295 7), drop 16 (o_buf o));
               (Ok Noop, drop 17 (o_buf o));
               (Ok (WindowScale 7), drop 20 (o_buf o));
               (Ok (SelectiveAcknowledgement (1, 2) (Some (3, 4), None, None)), [0; 0]) ], [])).
Proof. eexists. vm_compute. repeat split; reflexivity. Qed.
Example C13_ex_reject :
  try_from_elements [Timestamp 1 2; Timestamp 3 4; Timestamp 5 6; Timestamp 7 8; Noop]
  = Ret (Err (NotEnoughSpace 41)).
Proof. vm_compute. reflexivity. Qed.
(* a raw area: NOP, MSS, then a timestamp option cut short *)
Example C13_ex_raw :
  iterate [1; 2; 4; 5; 180; 8; 10; 0; 0] =
  Ret ([ (Ok Noop, [2; 4; 5; 180; 8; 10; 0; 0]);
         (Ok (MaximumSegmentSize 1460), [8; 10; 0; 0]);
         (Err (UnexpectedEndOfSlice 8 10 4), []) ], []).
Proof. vm_compute. reflexivity. Qed.
Example C13_ex_err_true : err_true [8; 10; 0; 0] (UnexpectedEndOfSlice 8 10 4)
  /\ err_true [5; 11; 0] (UnexpectedSize 5 11) /\ err_true [9; 1] (UnknownId 9).
Proof.
  split; [|split].
  - apply (ET_short [8; 10; 0; 0] 8 10 [10]); [reflexivity|reflexivity|cbn; lia|now left].
  - apply (ET_size [5; 11; 0] 5 11 [10; 18; 26; 34]); reflexivity.
  - apply ET_unknown; [reflexivity|lia|lia|reflexivity].
Qed.
Example C13_ex_end : iterate [1; 0; 2; 4] = Ret ([(Ok Noop, [0; 2; 4])], []).
Proof. vm_compute. reflexivity. Qed.
Example C13_ex_reference :
  spec_decode 10 [1; 2; 4; 5; 180; 8; 10; 0; 0] =
  [SOk ONop [2; 4; 5; 180; 8; 10; 0; 0]; SOk (OMss 1460) [8; 10; 0; 0];
   SErr (UnexpectedEndOfSlice 8 10 4)].
Proof. vm_compute. reflexivity. Qed.
