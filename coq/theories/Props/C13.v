(* Props/C13.v -- property C13: TCP options encode and decode faithfully;
   iteration is bounded.  Only statements; every proof is `exact <lemma>`.
   Vocabulary:
     Spec.v   opt, wire, wire_list, pad4, padding, err_true      (RFC 9293 / 7323 / 2018)
     Model.v  next, iterate, next_n, try_from_elements, try_from_slice, as_slice,
              elements_iterate, required_len  (transliterated Rust); to_opt, compact,
              canonical, element_ok; traces = list of (yielded item, rest() afterwards).
   All statements quantify over element lists / byte areas of ANY length. *)
From EP Require Parse.ConstsAllOk.   (* every numeric `pub const` of the crate, regenerated from the source on every run, has its RFC / IANA value *)
From EP Require Import Base.Bytes TcpOpt.Spec TcpOpt.Model TcpOpt.Proofs.
Local Open Scope N_scope.

(* every element list that fits: accepted, length rounded up to a multiple of 4,
   bytes = RFC encodings + END padding, iterating them yields the compacted
   elements in order and leaves exactly the END padding *)
Theorem C13_enc_dec : forall els, Forall element_ok els -> required_len els <= 40 ->
  exists o tr,
    try_from_elements els = Ret (Ok o)
    /\ options_len o = pad4 (required_len els)
    /\ data_offset o = 5 + pad4 (required_len els) / 4
    /\ required_len els = len (wire_list (map to_opt els))
    /\ as_slice o = Ret (wire_list (map to_opt els) ++ padding (required_len els))
    /\ elements_iterate o = Ret (tr, [])
    /\ map fst tr = map (fun e => Ok (compact e)) els
    /\ last_rest (wire_list (map to_opt els) ++ padding (required_len els)) tr
       = padding (required_len els).
Proof. exact c13_enc_dec. Qed.
Print Assumptions C13_enc_dec.

(* compact = drop the holes of a SACK element; identity on elements without holes *)
Theorem C13_compact :
  (forall e, canonical e -> compact e = e)
  /\ (forall e, canonical (compact e))
  /\ (forall e, to_opt (compact e) = to_opt e)
  /\ (forall e, element_ok e -> element_ok (compact e)).
Proof. exact c13_compact. Qed.
Print Assumptions C13_compact.

Theorem C13_reject : forall els, 40 < required_len els ->
  try_from_elements els = Ret (Err (NotEnoughSpace (required_len els))).
Proof. exact c13_reject. Qed.
Print Assumptions C13_reject.

(* raw bytes as options (TcpHeader::set_options_raw): zero padded to a multiple of 4 *)
Theorem C13_from_slice : forall s,
  (len s <= 40 -> exists o, try_from_slice s = Ret (Ok o) /\ options_len o = pad4 (len s)
     /\ as_slice o = Ret (s ++ padding (len s)))
  /\ (40 < len s -> try_from_slice s = Ret (Err (NotEnoughSpace (len s)))).
Proof. exact c13_from_slice. Qed.
Print Assumptions C13_from_slice.

(* the unchecked reads (get_unchecked_be_u16/u32, from_raw_parts) and the index /
   range checks of next() never fail, for any bytes; the iteration ends within
   len+1 calls (Ret excludes OOB, Panic and OutOfFuel) *)
Theorem C13_in_bounds :
  (forall opts, exists it r, next opts = Ret (it, r))
  /\ (forall area, exists tr fin, iterate area = Ret (tr, fin)).
Proof. exact c13_in_bounds. Qed.
Print Assumptions C13_in_bounds.

(* after any number of successfully yielded elements: area = their RFC
   encodings, concatenated, followed by rest() *)
Theorem C13_tiles : forall area tr fin, bytes_ok area -> iterate area = Ret (tr, fin) ->
  forall pre post, tr = pre ++ post -> all_ok pre ->
    area = wire_list (map to_opt (elems_of pre)) ++ last_rest area pre
    /\ Forall element_ok (elems_of pre) /\ Forall canonical (elems_of pre).
Proof. exact c13_tiles. Qed.
Print Assumptions C13_tiles.

(* an error is the last item, empties the iterator, and describes the bytes at
   the position where the preceding elements ended *)
Theorem C13_error_truth : forall area tr fin, iterate area = Ret (tr, fin) ->
  forall pre e r post, tr = pre ++ (Err e, r) :: post ->
    all_ok pre /\ post = [] /\ r = [] /\ last_rest area pre <> []
    /\ err_true (last_rest area pre) e.
Proof. exact c13_error_truth. Qed.
Print Assumptions C13_error_truth.

Theorem C13_bounded : forall area, exists tr fin, iterate area = Ret (tr, fin)
  /\ (length tr <= length area)%nat
  /\ (forall pre e r post, tr = pre ++ (Ok e, r) :: post -> len r < len (last_rest area pre)).
Proof. exact c13_bounded. Qed.
Print Assumptions C13_bounded.

(* after END / an error / the end of the area: rest() is empty, every further
   next() is None; and the iteration stops for no other reason *)
Theorem C13_exhausted :
  (forall opts it o', next opts = Ret (it, o') ->
     (it = None \/ exists e, it = Some (Err e)) ->
     o' = [] /\ forall n, next_n n o' = Ret (repeat None n, []))
  /\ (forall area tr fin, iterate area = Ret (tr, fin) ->
     fin = [] /\ (forall n, next_n n fin = Ret (repeat None n, []))
     /\ (last_rest area tr = [] \/ exists r, last_rest area tr = 0 :: r)).
Proof. exact c13_exhausted. Qed.
Print Assumptions C13_exhausted.

(* the table-driven reference decoder of Spec.v (run as oracle against the
   crate on every case) answers like the model: per call and for whole areas *)
Theorem C13_reference_decoder :
  (forall bs, bytes_ok bs -> agrees (next bs) (spec_next bs))
  /\ (forall area tr fin, bytes_ok area -> iterate area = Ret (tr, fin) ->
      spec_decode (S (length area)) area = sitems_of tr).
Proof. exact c13_reference_decoder. Qed.
Print Assumptions C13_reference_decoder.

(* ---- non-vacuity ---------------------------------------------------------- *)
Definition ex_els : list element :=
  [ MaximumSegmentSize 1460; SelectiveAcknowledgementPermitted; Timestamp 4294967295 7;
    Noop; WindowScale 7;
    SelectiveAcknowledgement (1, 2) (None, Some (3, 4), None) ].
(* 4+2+10+1+3+18 = 38 bytes, padded to 40; the SACK hole is compacted *)
Example C13_ex_enc_hyp : Forall element_ok ex_els /\ required_len ex_els = 38.
Proof.
  split; [|reflexivity].
  repeat constructor; cbn; unfold block_ok, u32_ok, u16_ok, u8_ok; cbn; try lia; repeat split; lia.
Qed.
Example C13_ex_enc :
  (exists o, try_from_elements ex_els = Ret (Ok o) /\ options_len o = 40 /\ data_offset o = 15
     /\ elements_iterate o =
        Ret ([ (Ok (MaximumSegmentSize 1460), drop 4 (o_buf o));
               (Ok SelectiveAcknowledgementPermitted, drop 6 (o_buf o));
               (Ok (Timestamp 4294967295 7), drop 16 (o_buf o));
               (Ok Noop, drop 17 (o_buf o));
               (Ok (WindowScale 7), drop 20 (o_buf o));
               (Ok (SelectiveAcknowledgement (1, 2) (Some (3, 4), None, None)), [0; 0]) ], [])).
Proof. eexists. vm_compute. repeat split; reflexivity. Qed.
Example C13_ex_reject :
  try_from_elements [Timestamp 1 2; Timestamp 3 4; Timestamp 5 6; Timestamp 7 8; Noop]
  = Ret (Err (NotEnoughSpace 41)).
Proof. vm_compute. reflexivity. Qed.
(* a raw area: NOP, MSS, then a timestamp option cut short *)
Example C13_ex_raw :
  iterate [1; 2; 4; 5; 180; 8; 10; 0; 0] =
  Ret ([ (Ok Noop, [2; 4; 5; 180; 8; 10; 0; 0]);
         (Ok (MaximumSegmentSize 1460), [8; 10; 0; 0]);
         (Err (UnexpectedEndOfSlice 8 10 4), []) ], []).
Proof. vm_compute. reflexivity. Qed.
Example C13_ex_err_true : err_true [8; 10; 0; 0] (UnexpectedEndOfSlice 8 10 4)
  /\ err_true [5; 11; 0] (UnexpectedSize 5 11) /\ err_true [9; 1] (UnknownId 9).
Proof.
  split; [|split].
  - apply (ET_short [8; 10; 0; 0] 8 10 [10]); [reflexivity|reflexivity|cbn; lia|now left].
  - apply (ET_size [5; 11; 0] 5 11 [10; 18; 26; 34]); reflexivity.
  - apply ET_unknown; [reflexivity|lia|lia|reflexivity].
Qed.
Example C13_ex_end : iterate [1; 0; 2; 4] = Ret ([(Ok Noop, [0; 2; 4])], []).
Proof. vm_compute. reflexivity. Qed.
Example C13_ex_reference :
  spec_decode 10 [1; 2; 4; 5; 180; 8; 10; 0; 0] =
  [SOk ONop [2; 4; 5; 180; 8; 10; 0; 0]; SOk (OMss 1460) [8; 10; 0; 0];
   SErr (UnexpectedEndOfSlice 8 10 4)].
Proof. vm_compute. reflexivity. Qed.

(* ========================================================================== *)
(* Header level (TcpOpt/Header.v on top of the C08 model Roundtrip/Tcp.v):
   TcpHeader::set_options / set_options_raw / options_iterator / header_len /
   data_offset / to_bytes / from_slice / read, TcpHeaderSlice::from_slice /
   options / options_iterator, TcpSlice::from_slice / options / options_iterator /
   payload.  [h] is ANY header value: its previous option buffer may be longer
   and hold arbitrary (stale) bytes. *)
From EP Require Import TcpOpt.Header TcpOpt.HeaderProofs.
From EP Require Roundtrip.Common Roundtrip.Tcp.

(* set_options: Ok <-> the elements need <= 40 bytes; then data offset = 5 + padded/4,
   header_len = 20 + padded, to_bytes = the 20 fixed bytes (data offset nibble and NS
   bit in byte 12) followed by exactly the RFC encodings + END padding; otherwise
   NotEnoughSpace(required) and the header is unchanged *)
Theorem C13_header_set_options : forall h els,
  (required_len els <= 40 ->
     exists h' bs,
       set_options h els = Ret (Ok tt, h')
       /\ same_fixed_fields h h'
       /\ hdr_data_offset h' = 5 + pad4 (required_len els) / 4
       /\ hdr_header_len h' = 20 + pad4 (required_len els)
       /\ Tcp.to_bytes h' = Some bs
       /\ len bs = hdr_header_len h'
       /\ take 20 bs = Tcp.fixed_bytes h'
       /\ rd bs 12 = Some (16 * hdr_data_offset h' + (if Tcp.ns h then 1 else 0))
       /\ options_area_of bs = wire_list (map to_opt els) ++ padding (required_len els))
  /\ (40 < required_len els ->
       set_options h els = Ret (Err (NotEnoughSpace (required_len els)), h))
  /\ (forall r h', set_options h els = Ret (r, h') -> (r = Ok tt <-> required_len els <= 40)).
Proof. exact c13_header_set_options. Qed.
Print Assumptions C13_header_set_options.

(* set_options_raw: Ok <-> <= 40 bytes; the area on the wire and seen by every view
   is the data + zero padding to a multiple of four; otherwise unchanged *)
Theorem C13_header_set_options_raw : forall h data,
  (len data <= 40 ->
     exists h' bs,
       set_options_raw h data = Ret (Ok tt, h')
       /\ same_fixed_fields h h'
       /\ hdr_data_offset h' = 5 + pad4 (len data) / 4
       /\ hdr_header_len h' = 20 + pad4 (len data)
       /\ Tcp.to_bytes h' = Some bs
       /\ len bs = hdr_header_len h'
       /\ take 20 bs = Tcp.fixed_bytes h'
       /\ options_area_of bs = data ++ padding (len data)
       /\ hdr_options_area h' = Ret (data ++ padding (len data))
       /\ (forall payload,
             Tcp.slice_from_slice (bs ++ payload) = Common.Ok bs
             /\ hs_options bs = Ret (data ++ padding (len data))
             /\ ts_from_slice (bs ++ payload) = Common.Ok (hdr_header_len h', bs ++ payload)
             /\ ts_options (hdr_header_len h', bs ++ payload) = Ret (data ++ padding (len data))
             /\ (Tcp.wf_tcp h = true -> bytes_ok data ->
                 Tcp.from_slice (bs ++ payload) = Common.Ok (h', payload))))
  /\ (40 < len data ->
       set_options_raw h data = Ret (Err (NotEnoughSpace (len data)), h)).
Proof. exact c13_header_set_options_raw. Qed.
Print Assumptions C13_header_set_options_raw.

(* the element list survives the WIRE: set_options on any header (field values in
   the range of their Rust types), to_bytes, any payload behind; TcpHeaderSlice,
   TcpSlice and TcpHeader::from_slice / read see the header again and all three
   option iterators yield exactly the compacted elements and leave exactly the END
   padding (C13_enc_dec composed with C08's tcp_dec_enc) *)
Theorem C13_header_wire_roundtrip : forall h els payload,
  Tcp.wf_tcp h = true -> Forall element_ok els -> required_len els <= 40 ->
  exists h' bs tr,
    set_options h els = Ret (Ok tt, h')
    /\ Tcp.to_bytes h' = Some bs
    /\ Tcp.slice_from_slice (bs ++ payload) = Common.Ok bs
    /\ hs_options bs = Ret (wire_list (map to_opt els) ++ padding (required_len els))
    /\ hs_options_iterate bs = Ret (tr, [])
    /\ ts_from_slice (bs ++ payload) = Common.Ok (hdr_header_len h', bs ++ payload)
    /\ ts_payload (hdr_header_len h', bs ++ payload) = Ret payload
    /\ ts_options_iterate (hdr_header_len h', bs ++ payload) = Ret (tr, [])
    /\ Tcp.from_slice (bs ++ payload) = Common.Ok (h', payload)
    /\ Tcp.read (bs ++ payload) = Common.Ok (h', payload)
    /\ hdr_options_iterate h' = Ret (tr, [])
    /\ map fst tr = map (fun e => Ok (compact e)) els
    /\ last_rest (wire_list (map to_opt els) ++ padding (required_len els)) tr
       = padding (required_len els).
Proof. exact c13_header_wire_roundtrip. Qed.
Print Assumptions C13_header_wire_roundtrip.

(* any byte string: TcpHeaderSlice::from_slice, TcpSlice::from_slice and
   TcpHeader::from_slice fail alike or succeed alike, and then options() of both
   slices and the decoded header's options are the same window
   [20, header length) of the input and the three iterators yield the same items
   (none of the unchecked reads / slice indexings of the three paths faults) *)
Theorem C13_header_iterators_agree : forall s, bytes_ok s ->
  (forall e, Tcp.slice_from_slice s = Common.Err e ->
     ts_from_slice s = Common.Err e /\ Tcp.from_slice s = Common.Err e)
  /\ (forall hs, Tcp.slice_from_slice s = Common.Ok hs ->
       exists h area tr,
         Tcp.from_slice s = Common.Ok (h, drop (len hs) s)
         /\ ts_from_slice s = Common.Ok (len hs, s)
         /\ ts_header_slice (len hs, s) = Ret hs
         /\ ts_payload (len hs, s) = Ret (drop (len hs) s)
         /\ area = take (len hs - 20) (drop 20 s)
         /\ hs_options hs = Ret area
         /\ ts_options (len hs, s) = Ret area
         /\ hdr_options_area h = Ret area
         /\ iterate area = Ret (tr, [])
         /\ hs_options_iterate hs = Ret (tr, [])
         /\ ts_options_iterate (len hs, s) = Ret (tr, [])
         /\ hdr_options_iterate h = Ret (tr, [])).
Proof. exact c13_header_iterators_agree. Qed.
Print Assumptions C13_header_iterators_agree.

(* the two transliterations of struct TcpOptions (TcpOpt/Model.v, Roundtrip/Tcp.v)
   coincide through the adapter to_c08 / of_c08 *)
Theorem C13_header_adapter :
  (forall o, of_c08 (to_c08 o) = o) /\ (forall o, to_c08 (of_c08 o) = o)
  /\ (forall o, as_slice o = match Tcp.opt_as_slice (to_c08 o) with Some s => Ret s | None => OOB end)
  /\ (forall o, Tcp.opt_data_offset (to_c08 o) = data_offset o)
  /\ (forall h, Tcp.header_len h = hdr_header_len h)
  /\ (forall h, Tcp.data_offset h = hdr_data_offset h)
  /\ (forall s, try_from_slice s = match Tcp.opt_try_from_slice s with
                                   | Some o => Ret (Ok (of_c08 o))
                                   | None => Ret (Err (NotEnoughSpace (len s)))
                                   end).
Proof. exact c13_header_adapter. Qed.
Print Assumptions C13_header_adapter.

(* ---- non-vacuity ---------------------------------------------------------- *)
(* a header whose option buffer is completely filled with 40 stale bytes 0xff *)
Definition ex_hdr : Tcp.TcpHeader :=
  {| Tcp.source_port := 1234; Tcp.destination_port := 80;
     Tcp.sequence_number := 287454020; Tcp.acknowledgment_number := 4294967295;
     Tcp.ns := true; Tcp.fin := false; Tcp.syn := true; Tcp.rst := false; Tcp.psh := false;
     Tcp.ack := true; Tcp.urg := false; Tcp.ece := false; Tcp.cwr := true;
     Tcp.window_size := 4321; Tcp.checksum := 65535; Tcp.urgent_pointer := 0;
     Tcp.options := {| Tcp.o_len := 40; Tcp.o_buf := repeat 255 40 |} |}.
Example C13_ex_hdr_wf : Tcp.wf_tcp ex_hdr = true /\ Tcp.header_len ex_hdr = 60.
Proof. split; reflexivity. Qed.
(* shrinking 40 -> 8 option bytes: nothing of the old area shows up *)
Example C13_ex_hdr_shrink :
  exists h', set_options ex_hdr [MaximumSegmentSize 1460; WindowScale 7] = Ret (Ok tt, h')
    /\ hdr_header_len h' = 28 /\ hdr_data_offset h' = 7
    /\ Tcp.to_bytes h' = Some [4; 210; 0; 80; 17; 34; 51; 68; 255; 255; 255; 255; 113; 146;
                               16; 225; 255; 255; 0; 0;   2; 4; 5; 180; 3; 3; 7; 0]
    /\ hs_options_iterate [4; 210; 0; 80; 17; 34; 51; 68; 255; 255; 255; 255; 113; 146;
                           16; 225; 255; 255; 0; 0;   2; 4; 5; 180; 3; 3; 7; 0]
       = Ret ([(Ok (MaximumSegmentSize 1460), [3; 3; 7; 0]); (Ok (WindowScale 7), [0])], []).
Proof. eexists. vm_compute. repeat split; reflexivity. Qed.
Example C13_ex_hdr_reject :
  set_options ex_hdr [Timestamp 1 2; Timestamp 3 4; Timestamp 5 6; Timestamp 7 8; Noop]
  = Ret (Err (NotEnoughSpace 41), ex_hdr)
  /\ set_options_raw ex_hdr (repeat 1 41) = Ret (Err (NotEnoughSpace 41), ex_hdr).
Proof. split; vm_compute; reflexivity. Qed.
(* data offset 15, a timestamp, an unknown option; 3 payload bytes behind *)
Definition ex_wire : bytes :=
  [0; 1; 0; 2; 0; 0; 0; 3; 0; 0; 0; 4; 240; 2; 0; 5; 0; 6; 0; 7]
  ++ [8; 10; 0; 0; 0; 1; 0; 0; 0; 2; 1; 1; 9; 4; 0; 0] ++ repeat 0 24 ++ [170; 187; 204].
Example C13_ex_views :
  bytes_ok ex_wire
  /\ Tcp.slice_from_slice ex_wire = Common.Ok (take 60 ex_wire)
  /\ ts_from_slice ex_wire = Common.Ok (60, ex_wire)
  /\ ts_payload (60, ex_wire) = Ret [170; 187; 204]
  /\ ts_options_iterate (60, ex_wire) = hs_options_iterate (take 60 ex_wire)
  /\ hs_options_iterate (take 60 ex_wire)
     = Ret ([(Ok (Timestamp 1 2), drop 30 (take 60 ex_wire));
             (Ok Noop, drop 31 (take 60 ex_wire)); (Ok Noop, drop 32 (take 60 ex_wire));
             (Err (UnknownId 9), [])], []).
Proof.
  split; [apply bytes_okb_spec; reflexivity|].
  vm_compute. repeat split; reflexivity.
Qed.

(* ==== round3 smalls begin ==== *)
(* Round 3 (audit clauses a and c).  Lemmas: TcpOpt/Round3.v (compositions only, no new model). *)
From EP Require Import TcpOpt.Round3.

(* the property text read literally ("yields the same elements"): for an element list that fits,
   iterating its encoding yields exactly the SAME elements iff no SACK element has a hole (an
   absent optional block before a present one); for every accepted value o and every trace *)
Theorem C13_same_elements_iff_canonical : forall els o tr fin,
  Forall element_ok els -> required_len els <= 40 ->
  try_from_elements els = Ret (Ok o) -> elements_iterate o = Ret (tr, fin) ->
  fin = [] /\ (map fst tr = map Ok els <-> Forall canonical els).
Proof. exact same_elements_iff_canonical. Qed.
Print Assumptions C13_same_elements_iff_canonical.

(* ... and the literal reading is REFUTED for a SACK element with a hole: the element list below is
   in range, fits, is accepted, and is read back as a different list (the hole is compacted away:
   the wire format, RFC 2018, has no way to express an absent block before a present one).
   Documented behaviour of the crate (the real crate gives the same answer: case line
   `els S:1-2,-,3-4,-` -> 20 bytes, read back as `S:1-2,3-4,-,-`; the differential run has all
   eight Some/None masks on every run), not a defect of the decoder; a deviation from the
   property's wording. *)
Theorem C13_sack_hole_refuted :
  exists els o tr, Forall element_ok els /\ required_len els <= 40 /\
    try_from_elements els = Ret (Ok o) /\ elements_iterate o = Ret (tr, []) /\
    map fst tr <> map Ok els /\
    els = [SelectiveAcknowledgement (1, 2) (None, Some (3, 4), None)] /\
    map fst tr = [Ok (SelectiveAcknowledgement (1, 2) (Some (3, 4), None, None))].
Proof. exact sack_hole_refuted. Qed.
Print Assumptions C13_sack_hole_refuted.

(* acceptance in RFC vocabulary, for EVERY element list (no range hypothesis): the required size
   the code computes is the length of the RFC encodings; the list is accepted exactly when that
   length is at most 40 (with the value below: encodings, zero filled, length rounded up to a
   multiple of 4) and rejected with exactly that length otherwise *)
Theorem C13_accept_iff : forall els,
  let n := len (wire_list (map to_opt els)) in
  required_len els = n /\
  (n <= 40 -> try_from_elements els =
     Ret (Ok {| o_len := pad4 n; o_buf := wire_list (map to_opt els) ++ zeros (40 - n) |})) /\
  (40 < n -> try_from_elements els = Ret (Err (NotEnoughSpace n))) /\
  ((exists o, try_from_elements els = Ret (Ok o)) <-> n <= 40) /\
  (forall r, try_from_elements els = Ret (Err (NotEnoughSpace r)) <-> 40 < n /\ r = n).
Proof. exact accept_iff. Qed.
Print Assumptions C13_accept_iff.

(* non-vacuity: a list with a hole-free SACK element is read back unchanged; hypotheses of the
   iff theorem on it; a rejected list with its RFC length (4 timestamps + NOP = 41) *)
Example C13_ex_same_elements :
  let els := [MaximumSegmentSize 1460; SelectiveAcknowledgement (1, 2) (Some (3, 4), None, None)] in
  Forall element_ok els /\ required_len els = 22 /\ Forall canonical els /\
  (exists o tr, try_from_elements els = Ret (Ok o) /\ elements_iterate o = Ret (tr, []) /\
     map fst tr = map Ok els).
Proof.
  cbv zeta. split; [|split; [reflexivity|split]].
  - repeat constructor; cbn; unfold block_ok, u32_ok, u16_ok; cbn; lia.
  - repeat constructor.
  - eexists. eexists. split; [vm_compute; reflexivity|]. split; vm_compute; reflexivity.
Qed.
Example C13_ex_accept_iff :
  len (wire_list (map to_opt [Timestamp 1 2; Timestamp 3 4; Timestamp 5 6; Timestamp 7 8; Noop])) = 41
  /\ len (wire_list (map to_opt ex_els)) = 38.
Proof. split; vm_compute; reflexivity. Qed.
(* ==== round3 smalls end ==== *)
