(* Props/C01.v -- property C01: decoding never touches memory outside the slice.
   In the model every unchecked primitive of the crate (get_unchecked, *ptr.add,
   from_raw_parts, unwrap_unchecked, pointer subtraction) is PARTIAL: it returns
   `Bug site` when its precondition fails (Parse/Types.v).  C01 for the model is
   the statement that no decoder or accessor ever returns `Bug`, and that every
   window handed back lies inside the input.  Statements only. *)
From EP Require Parse.ConstsOk.
From EP Require Import Base.Bytes Parse.Types Parse.Slices Parse.Cursor Parse.View
  Parse.WireSpec Parse.StrictProofs.

(* strict whole-packet slicing: no unchecked primitive fails, for every input *)
Theorem C01_strict_no_oob : forall bs et b, bytes_ok bs ->
  SlicedPacket.from_ethernet bs <> Bug b /\ SlicedPacket.from_linux_sll bs <> Bug b /\
  SlicedPacket.from_ether_type et bs <> Bug b /\ SlicedPacket.from_ip bs <> Bug b.
Proof. exact strict_never_bug. Qed.
Print Assumptions C01_strict_no_oob.
