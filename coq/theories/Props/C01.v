(* Props/C01.v -- property C01: decoding never touches memory outside the slice.
   In the model every unchecked primitive of the crate (get_unchecked, *ptr.add,
   from_raw_parts, unwrap_unchecked, pointer subtraction) is PARTIAL: it returns
   `Bug site` when its precondition fails (Parse/Types.v).  C01 for the model is
   the statement that no decoder or accessor ever returns `Bug`, and that every
   window handed back lies inside the input.  Statements only. *)
From EP Require Parse.GenAccessOk.   (* the field accessors, re-translated from the Rust source on every run (Gen/Accessors.v), equal the hand models the theorems below are about *)
From EP Require Parse.ConstsOk.
From EP Require Import Base.Bytes Parse.Types Parse.Slices Parse.Cursor Parse.View
  Parse.WireSpec Parse.StrictProofs.

(* strict whole-packet slicing: no unchecked primitive fails, for every input *)
Theorem C01_strict_no_oob : forall bs et b, bytes_ok bs ->
  SlicedPacket.from_ethernet bs <> Bug b /\ SlicedPacket.from_linux_sll bs <> Bug b /\
  SlicedPacket.from_ether_type et bs <> Bug b /\ SlicedPacket.from_ip bs <> Bug b.
Proof. exact strict_never_bug. Qed.
Print Assumptions C01_strict_no_oob.

(* ======================================================================== *)
(* Accessors, conversions and iterators reachable from the strict slice types
   (Parse/Access.v, proofs in Parse/AccessProofs.v).  In the model an accessor
   is a function of the stored slice value only; its unchecked reads /
   from_raw_parts / unwrap(_unchecked) are partial.  `nobug r` = r is not `Bug`. *)
From EP Require Import Parse.Repr Parse.Access Parse.AccessProofs.

(* every component stored in the result of a strict whole-packet entry point was
   produced by the corresponding from_slice on a window of the input ... *)
Theorem C01_sliced_wf : forall bs et p, entry bs et p -> sliced_wf bs p.
Proof. exact sliced_wf_entry. Qed.
Print Assumptions C01_sliced_wf.

(* ... hence no accessor / to_header / to_packet / extension iterator (and no
   accessor of a yielded extension header) of any component performs an
   out-of-bounds unchecked read or from_raw_parts, or a failing unwrap_unchecked:
   `SlicedPacketA.accessors p` lists one run of EVERY accessor of EVERY component *)
Theorem C01_accessors_no_oob : forall bs et p, bytes_ok bs -> entry bs et p ->
  sliced_wf bs p /\ forall r, In r (SlicedPacketA.accessors p) -> forall b, r <> Bug b.
Proof. exact packet_accessors_no_bug. Qed.
Print Assumptions C01_accessors_no_oob.

(* every sub-slice stored in the result or handed back by an accessor (header /
   payload / options / ICV / address / extension-header windows) lies inside the
   input, and its contents are the bytes of the input at that position *)
Theorem C01_windows_inside : forall bs et p, bytes_ok bs -> entry bs et p ->
  forall r, In r (SlicedPacketA.windows p) ->
    exists w, r = Ok w /\ s_off w + s_len w <= len bs /\
              snd w = take (s_len w) (drop (s_off w) bs).
Proof. exact packet_windows_inside. Qed.
Print Assumptions C01_windows_inside.

(* single layers: for EVERY slice s (no buffer, no byte-range assumption) and every
   value the constructor returns for it, all accessors are Bug-free and all returned
   windows are sub-slices of s; the three conversions that rely on "a byte is < 256"
   (ArpPacket::new_unchecked, IpAuthHeader::new().unwrap(), Ipv6RawExtHeader::new_raw()
   .unwrap()) need bytes_ok.  The statement is the conjunction over all types. *)
Theorem C01_single_layer_accessors :
  (forall s e, Ethernet2A.from_slice_without_fcs s = Ok e \/ Ethernet2A.from_slice_with_crc32_fcs s = Ok e ->
     Forall nobug (Ethernet2A.accessors e) /\ Forall (win_ok s) (Ethernet2A.windows e)) /\
  (forall s v, SingleVlanSlice.from_slice s = Ok v ->
     Forall nobug (SingleVlanA.accessors v) /\ Forall (win_ok s) (SingleVlanA.windows v)) /\
  (forall s h, LinuxSll.header_from_slice s = Ok h ->
     Forall nobug (LinuxSllHeaderA.accessors h) /\ Forall (win_ok s) (LinuxSllHeaderA.windows h)) /\
  (forall s x, LinuxSll.from_slice s = Ok x ->
     Forall nobug (LinuxSllA.accessors x) /\ Forall (win_ok s) (LinuxSllA.windows x)) /\
  (forall s h, Macsec.header_from_slice s = Ok h -> Forall nobug (MacsecHeaderA.accessors h)) /\
  (forall s m, Macsec.from_slice s = Ok m -> Forall nobug (MacsecA.accessors m)) /\
  (forall s a, ArpPacketSlice.from_slice s = Ok a ->
     Forall nobug (ArpPacketA.accessors a) /\ Forall (win_ok s) (ArpPacketA.windows a) /\
     (bytes_ok (snd s) -> Forall nobug (ArpPacketA.conversions a))) /\
  (forall s h, Ipv4HeaderSlice.from_slice s = Ok h ->
     Forall nobug (Ipv4HeaderA.accessors h) /\ Forall (win_ok s) (Ipv4HeaderA.windows h)) /\
  (forall s h, IpAuthHeaderSlice.from_slice s = Ok h ->
     Forall nobug (IpAuthHeaderA.accessors h) /\ Forall (win_ok s) (IpAuthHeaderA.windows h) /\
     (bytes_ok (snd s) -> Forall nobug (IpAuthHeaderA.conversions h))) /\
  (forall s h, Ipv6HeaderSlice.from_slice s = Ok h -> Forall nobug (Ipv6HeaderA.accessors h)) /\
  (forall s h, Ipv6RawExtHeaderSlice.from_slice s = Ok h ->
     Forall nobug (Ipv6RawExtHeaderA.accessors h) /\ Forall (win_ok s) (Ipv6RawExtHeaderA.windows h) /\
     (bytes_ok (snd s) -> Forall nobug (Ipv6RawExtHeaderA.conversions h))) /\
  (forall s h, Ipv6FragmentHeaderSlice.from_slice s = Ok h -> Forall nobug (Ipv6FragmentHeaderA.accessors h)) /\
  (forall s v, Ipv4Slice.from_slice s = Ok v \/ IpSlice.from_slice s = Ok (IpV4 v) ->
     bytes_ok (snd s) -> Forall nobug (Ipv4SliceA.accessors v)) /\
  (forall s v, Ipv6Slice.from_slice s = Ok v \/ IpSlice.from_slice s = Ok (IpV6 v) ->
     bytes_ok (snd s) ->
     Forall nobug (Ipv6SliceA.accessors v) /\ Forall (win_ok s) (Ipv6SliceA.windows v)) /\
  (forall s h, UdpSlice.header_from_slice s = Ok h -> Forall nobug (UdpA.header_accessors h)) /\
  (forall s u, UdpSlice.from_slice s = Ok u \/ UdpSlice.from_slice_lax s = Ok u ->
     Forall nobug (UdpA.accessors u) /\ Forall (win_ok s) (UdpA.windows u)) /\
  (forall s x, TcpSlice.from_slice s = Ok x ->
     Forall nobug (TcpSliceA.accessors x) /\ Forall (win_ok s) (TcpSliceA.windows x)) /\
  (forall s h, TcpHeaderSliceA.from_slice s = Ok h ->
     Forall nobug (TcpHeaderSliceA.accessors h) /\ Forall (win_ok s) (TcpHeaderSliceA.windows h)) /\
  (forall s v, Icmpv4Slice.from_slice s = Ok v ->
     Forall nobug (Icmpv4A.accessors v) /\ Forall (win_ok s) (Icmpv4A.windows v)) /\
  (forall s v, Icmpv6Slice.from_slice s = Ok v ->
     Forall nobug (Icmpv6A.accessors v) /\ Forall (win_ok s) (Icmpv6A.windows v)).
Proof. exact single_layer_ok. Qed.
Print Assumptions C01_single_layer_accessors.

(* `win_ok s r` is more than arithmetic: r = Ok w with w = from_raw_parts inside s *)
Theorem C01_window_arith : forall s r, win_ok s r ->
  exists w, r = Ok w /\ s_off s <= s_off w /\ s_off w + s_len w <= s_off s + s_len s.
Proof. exact win_ok_arith. Qed.
Print Assumptions C01_window_arith.

(* the extension iterator yields exactly headers that from_slice validated: each
   yielded slice satisfies the invariant of its type and lies inside the exts slice *)
Theorem C01_exts_iter_items : forall nh s x nx rest,
  Ipv6ExtensionsSlice.from_slice nh s = Ok (x, nx, rest) ->
  exists l, Ipv6ExtIterA.items x = Ok l /\
            8 * len l <= s_len (x6_slice x) /\
            tiles (s_off (x6_slice x)) (map item_win l) (s_off (x6_slice x) + s_len (x6_slice x)) /\
            Forall item_wf l /\
            Forall (fun i => sub_of (ext_item_slice i) (x6_slice x)) l.
Proof. exact exts_iter_bounded. Qed.
Print Assumptions C01_exts_iter_items.

(* ---- non-vacuity ---------------------------------------------------------- *)
(* the Ethernet / VLAN / IPv4 / UDP packet `ex_pkt` of Props/C03.v *)
Definition ex_pkt_acc : bytes :=
  [1;2;3;4;5;6; 7;8;9;10;11;12; 129;0;  0;5; 8;0;
   69;0;0;32; 0;0;0;0; 64;17;0;0; 1;2;3;4; 5;6;7;8;
   0;1;0;2;0;12;0;0; 170;187;204;221].
(* IPv6 / hop-by-hop / destination options / fragment (offset 0, last) / UDP *)
Definition ex6_pkt_acc : bytes :=
  [96;0;0;0; 0;32; 0; 64] ++ repeat 1 16 ++ repeat 2 16 ++
  [60;0;0;0;0;0;0;0] ++ [44;0;1;4;0;0;0;0] ++ [17;0;0;0;0;0;0;1] ++ [0;1;0;2;0;8;0;0].

Definition isok {A} (r : res A) : bool := match r with Ok _ => true | _ => false end.
Definition wins (l : list (res slice)) : list (option window) :=
  map (fun r => match r with Ok w => Some (win_of w) | _ => None end) l.

Example C01_accessors_ex :
  bytes_ok ex_pkt_acc /\
  match SlicedPacket.from_ethernet ex_pkt_acc with
  | Ok p => (length (SlicedPacketA.accessors p), forallb isok (SlicedPacketA.accessors p),
             wins (SlicedPacketA.windows p))
  | _ => (0%nat, false, [])
  end =
  (45%nat, true,
   [Some (0, 50); Some (0, 14); Some (14, 36);           (* Ethernet II: slice, header, payload *)
    Some (14, 36); Some (14, 4); Some (18, 32);          (* VLAN: slice, header, payload *)
    Some (18, 20); Some (38, 12); Some (38, 0);          (* IPv4: header, payload, options *)
    Some (38, 12); Some (38, 8); Some (46, 4)]) /\       (* UDP: slice, header, payload *)
  (Ethernet2A.to_header (mkEth2 0 (mk_slice ex_pkt_acc)),
   SingleVlanA.to_header (14, skipn 14 ex_pkt_acc),
   UdpA.to_header (38, skipn 38 ex_pkt_acc)) =
  (Ok ([7; 8; 9; 10; 11; 12], [1; 2; 3; 4; 5; 6], 33024), Ok (0, false, 5, 2048), Ok (1, 2, 12, 0)).
Proof. split; [apply bytes_okb_spec; vm_compute; reflexivity|split; vm_compute; reflexivity]. Qed.

Example C01_exts_iter_ex :
  bytes_ok ex6_pkt_acc /\
  match SlicedPacket.from_ip ex6_pkt_acc with
  | Ok (mkSliced _ _ (Some (NtIpv6 v)) (Some (TrUdp _)) as p) =>
      (length (SlicedPacketA.accessors p), forallb isok (SlicedPacketA.accessors p),
       match Ipv6ExtIterA.items (v6_exts v) with
       | Ok l => Some (map item_win l, map (fun x => forallb isok (Ipv6ExtIterA.item_accessors x)) l)
       | _ => None
       end)
  | _ => (0%nat, false, None)
  end = (32%nat, true, Some ([(40, 8); (48, 8); (56, 8)], [true; true; true])).
Proof. split; [apply bytes_okb_spec; vm_compute; reflexivity|vm_compute; reflexivity]. Qed.

(* the accessors are genuinely partial: on values that no constructor returns they DO hit Bug *)
Example C01_accessors_partial_ex :
  Ethernet2A.ether_type (mkEth2 0 (mk_slice [1;2;3])) = Bug SITE_RD /\
  Ipv4HeaderA.options (mk_slice [69;0;0;0]) = Bug SITE_SUBTRACT /\
  Ipv6ExtIterA.collect 5 (mkExtIter 60 (mk_slice [43;1;0;0;0;0;0;0])) = Bug SITE_SUB /\
  LinuxSllHeaderA.packet_type (mk_slice [0;9;0;1;0;0;0;0;0;0;0;0;0;0;8;0]) = Bug SITE_UNWRAP /\
  IpAuthHeaderA.to_header (mk_slice [17;0;0;0;0;0;0;0;0;0;0;0;0;0]) = Bug SITE_UNWRAP.
Proof. vm_compute. repeat split. Qed.

(* ---- the other decoder families --------------------------------------------
   The same statement ("no partial primitive of the model fails, for every byte
   string") for the decoders whose models live with other properties, restated
   here so that C01 lists every family it rests on:
     lax slicing (C05), struct decoding (C04; LaxPacketHeaders::{from_ethernet, from_ether_type,
     from_ip}: C04_lax_headers_never_bug in Props/C04.v); the TCP option iterator
     (C13_in_bounds),
     the ICMP/NDP/IGMP/ARP views (C17_*: the specifications contain no UB value),
     defragmentation (C11_no_panic), extension chains (C12_write_iff_walk) and the
     readers (C16_readers_total) are stated in their own Props files. *)
From EP Require Import Parse.Repr Parse.LaxSlices Parse.LaxCursor Parse.LaxWire Parse.LaxWireProofs
  Parse.HdrModel Parse.HdrProofs3.

Theorem C01_lax_no_oob : forall bs et b, bytes_ok bs ->
  LaxSlicedPacket.from_ethernet bs <> Bug b /\
  LaxSlicedPacket.from_ether_type et bs <> Bug b /\
  LaxSlicedPacket.from_ip bs <> Bug b.
Proof. exact lax_never_bug. Qed.
Print Assumptions C01_lax_no_oob.

Theorem C01_lax_single_no_oob : forall bs s pos lim nh, bytes_ok bs -> repr bs s pos lim ->
  no_bug (LaxIpSlice.from_slice s) /\ no_bug (LaxIpv4Slice.from_slice s) /\
  no_bug (LaxIpv6Slice.from_slice s) /\ no_bug (LaxMacsecSlice.from_slice s) /\
  no_bug (UdpSlice.from_slice_lax s) /\ no_bug (LaxIpv6Exts.from_slice_lax nh s) /\
  no_bug (LaxIpv4Exts.from_slice_lax nh s).
Proof. exact lax_single_never_bug. Qed.
Print Assumptions C01_lax_single_no_oob.

Theorem C01_headers_no_oob : forall bs et b, bytes_ok bs ->
  PacketHeaders.from_ethernet_slice bs <> Bug b /\
  PacketHeaders.from_ether_type et bs <> Bug b /\
  PacketHeaders.from_ip_slice bs <> Bug b.
Proof. exact hdr_never_bug_raw. Qed.
Print Assumptions C01_headers_no_oob.

(* ---- extend-c01b ---- *)
(* ======================================================================== *)
(* Accessors, conversions and iterators reachable from the LAX results
   (LaxSlicedPacket::from_ethernet / from_ether_type / from_ip): the components
   of a lax result are the strict slice types, built by the lax constructors;
   models in Parse/LaxAccess.v (reusing Parse/Access.v), proofs in
   Parse/LaxAccessProofs.v + LaxAccessPacket.v.  No hypothesis about the stop error:
   the statements hold for results that stopped anywhere. *)
From EP Require Import Parse.LaxAccess Parse.LaxAccessProofs Parse.LaxAccessPacket.

(* every component stored in a lax whole-packet result was produced by the corresponding
   constructor on a window of the input (lax_sliced_wf: link, VLAN / LaxMacsecSlice link
   extensions, LaxIpSlice::from_slice for the net layer, UdpSlice::from_slice_lax /
   TcpSlice / Icmpv4Slice / Icmpv6Slice::from_slice for the transport layer, at most 3
   link extensions) and satisfies the per-type invariant of Parse/AccessProofs.v
   (lax_sliced_inv: wf_eth2, wf_vlan, wf_macsech, wf_ipv4h, wf_ah, wf_ipv6h, exts_good,
   wf_arp, wf_udp, wf_tcp, wf_icmp4, wf_icmp6, every window inside the input) *)
Theorem C01_lax_sliced_wf : forall bs et p, lax_entry bs et p ->
  lax_sliced_wf bs p /\ lax_sliced_inv bs p.
Proof. exact lax_packet_wf. Qed.
Print Assumptions C01_lax_sliced_wf.

(* no accessor / to_header / to_packet / extension-iterator run (and no accessor of a
   yielded extension header), no LaxLinkExtSlice::{header_len,to_header,payload}, no
   LaxIpSlice accessor and none of LaxSlicedPacket::{vlan, vlan_ids (push_unchecked),
   ether_payload, ip_payload} on any lax result returns Bug *)
Theorem C01_lax_accessors_no_oob : forall bs et p, bytes_ok bs -> lax_entry bs et p ->
  forall r, In r (LaxSlicedPacketA.accessors p) -> forall b, r <> Bug b.
Proof. exact lax_packet_accessors_no_bug. Qed.
Print Assumptions C01_lax_accessors_no_oob.

(* every window stored in / returned from a lax result lies inside the input and holds
   the input's bytes *)
Theorem C01_lax_windows_inside : forall bs et p, bytes_ok bs -> lax_entry bs et p ->
  forall r, In r (LaxSlicedPacketA.windows p) ->
    exists w, r = Ok w /\ s_off w + s_len w <= len bs /\
              snd w = take (s_len w) (drop (s_off w) bs).
Proof. exact lax_packet_windows_inside. Qed.
Print Assumptions C01_lax_windows_inside.

(* the extension iterator on the Ipv6ExtensionsSlice of EVERY from_slice_lax result (any
   start number, any slice, ANY stop error -- including a chain that was cut: the
   next_header of the last complete header names an extension header, the slice is
   exhausted): it terminates without Bug, yields only complete headers satisfying their
   invariant, at most len/8 of them, and they tile the stored slice exactly.  This is what
   the repaired `next()` (None on an empty rest, fix d1e93b9) provides. *)
Theorem C01_lax_exts_iter_items : forall nh s x nx rest err,
  LaxIpv6Exts.from_slice_lax nh s = Ok (x, nx, rest, err) ->
  exists l, Ipv6ExtIterA.items x = Ok l /\
            8 * len l <= s_len (x6_slice x) /\
            tiles (s_off (x6_slice x)) (map item_win l) (s_off (x6_slice x) + s_len (x6_slice x)) /\
            Forall item_wf l /\
            Forall (fun i => sub_of (ext_item_slice i) (x6_slice x)) l.
Proof. exact lax_exts_iter_items. Qed.
Print Assumptions C01_lax_exts_iter_items.

(* the same for the IPv6 slice stored in a lax whole-packet result *)
Theorem C01_lax_packet_exts_iter : forall bs et p v,
  lax_entry bs et p -> lsp_net p = Some (LNtIpv6 v) ->
  exists l, Ipv6ExtIterA.items (lv6_exts v) = Ok l /\
            8 * len l <= s_len (x6_slice (lv6_exts v)) /\
            tiles (s_off (x6_slice (lv6_exts v))) (map item_win l)
                  (s_off (x6_slice (lv6_exts v)) + s_len (x6_slice (lv6_exts v))) /\
            Forall item_wf l /\
            Forall (fun i => sub_of (ext_item_slice i) (x6_slice (lv6_exts v))) l.
Proof. exact lax_packet_exts_iter. Qed.
Print Assumptions C01_lax_packet_exts_iter.

(* lax single layers, for EVERY slice s (no buffer) *)
Theorem C01_lax_single_layer_accessors :
  (forall s m, LaxMacsecSlice.from_slice s = Ok m ->
     Forall nobug (LaxMacsecA.accessors m) /\ Forall (win_ok s) (LaxMacsecA.windows m)) /\
  (forall s v, (exists stop, LaxIpv4Slice.from_slice s = Ok (v, stop)) \/
               (exists stop, LaxIpSlice.from_slice s = Ok (LIpV4 v, stop)) ->
     bytes_ok (snd s) ->
     Forall nobug (LaxIpSliceA.accessors (LIpV4 v)) /\ Forall (win_ok s) (LaxIpSliceA.windows (LIpV4 v))) /\
  (forall s v, (exists stop, LaxIpv6Slice.from_slice s = Ok (v, stop)) \/
               (exists stop, LaxIpSlice.from_slice s = Ok (LIpV6 v, stop)) ->
     bytes_ok (snd s) ->
     Forall nobug (LaxIpSliceA.accessors (LIpV6 v)) /\ Forall (win_ok s) (LaxIpSliceA.windows (LIpV6 v)) /\
     win_ok s (Ok (x6_slice (lv6_exts v)))).
Proof. exact lax_single_layer_ok. Qed.
Print Assumptions C01_lax_single_layer_accessors.

(* ---- non-vacuity ---------------------------------------------------------- *)
(* F2 witness: IPv6, payload length 8, a destination-options header whose next_header
   announces a routing header that is not there.  Strict slicing rejects it; lax slicing
   stops with a length error at offset 48 and stores the 8-byte chain; the iterator yields
   exactly that one header although its next_header (43) names an extension header. *)
Definition ex_cut_chain : bytes := [96;0;0;0; 0;8; 60; 64] ++ repeat 0 32 ++ [43;0;0;0;0;0;0;0].

Example C01_lax_cut_chain_ex :
  bytes_ok ex_cut_chain /\
  (exists e, SlicedPacket.from_ip ex_cut_chain = Err e) /\
  match LaxSlicedPacket.from_ip ex_cut_chain with
  | Ok p =>
      (match lsp_stop_err p with Some (ELen e, ly) => Some (le_off e, le_required e, le_len e, ly) | _ => None end,
       length (LaxSlicedPacketA.accessors p), forallb isok (LaxSlicedPacketA.accessors p),
       wins (LaxSlicedPacketA.windows p),
       match lsp_net p with
       | Some (LNtIpv6 v) =>
           (x6_first (lv6_exts v),
            match Ipv6ExtIterA.items (lv6_exts v) with Ok l => Some (map item_win l) | _ => None end,
            lipp_number (lv6_payload v))
       | _ => (None, None, 0)
       end)
  | _ => (None, 0%nat, false, [], (None, None, 0))
  end =
  (Some (48, 8, 0, LyIpv6RouteHeader), 22%nat, true,
   [Some (0, 40); Some (40, 8); Some (48, 0);     (* IPv6 header, extension slice, payload *)
    Some (40, 8); Some (42, 6)],                  (* yielded header, its payload() *)
   (Some 60, Some [(40, 8)], 43)) /\
  (* without the empty-rest check the next call would read out of bounds *)
  Ipv6ExtIterA.arm (mkExtIter 43 (48, [])) Ipv6RawExtHeaderA.from_slice_unchecked
    Ipv6RawExtHeaderA.next_header XRouting = Bug SITE_RD /\
  Ipv6ExtIterA.next (mkExtIter 43 (48, [])) = Ok None.
Proof.
  split; [apply bytes_okb_spec; vm_compute; reflexivity|].
  split; [eexists; vm_compute; reflexivity|]. split; [vm_compute; reflexivity|].
  split; vm_compute; reflexivity.
Qed.

(* the Ethernet / VLAN / IPv4 / UDP packet of C01_accessors_ex cut to 47 bytes: strict
   slicing rejects it (IPv4 total length), lax slicing keeps every layer (IPv4 payload
   marked incomplete, UDP slice = what is left); 55 accessor runs Ok, 13 windows inside *)
Example C01_lax_accessors_ex :
  bytes_ok (firstn 47 ex_pkt_acc) /\
  (exists e, SlicedPacket.from_ethernet (firstn 47 ex_pkt_acc) = Err e) /\
  match LaxSlicedPacket.from_ethernet (firstn 47 ex_pkt_acc) with
  | Ok p => (lsp_stop_err p, length (LaxSlicedPacketA.accessors p),
             forallb isok (LaxSlicedPacketA.accessors p), wins (LaxSlicedPacketA.windows p),
             LaxSlicedPacketA.vlan_ids p,
             match lsp_net p with Some (LNtIpv4 v) => Some (lipp_incomplete (lv4_payload v)) | _ => None end)
  | _ => (None, 0%nat, false, [], Bug 0, None)
  end =
  (None, 55%nat, true,
   [Some (0, 47); Some (0, 14); Some (14, 33);           (* Ethernet II: slice, header, payload *)
    Some (14, 33); Some (14, 4); Some (18, 29);          (* VLAN: slice, header, payload *)
    Some (18, 20); Some (38, 9); Some (38, 0);           (* IPv4: header, payload, options *)
    Some (38, 9); Some (38, 8); Some (46, 1);            (* UDP (lax): slice, header, payload *)
    Some (18, 29)],                                      (* LaxSlicedPacket::ether_payload() *)
   Ok [5], Some true).
Proof.
  split; [apply bytes_okb_spec; vm_compute; reflexivity|].
  split; [eexists; vm_compute; reflexivity|vm_compute; reflexivity].
Qed.

(* MACsec (unmodified, short length 40 announces 38 payload bytes, 4 are present): the lax
   MACsec slice hands out the 4 bytes that exist, flagged incomplete *)
Example C01_lax_macsec_ex :
  match LaxSlicedPacket.from_ethernet
          [1;2;3;4;5;6; 7;8;9;10;11;12; 136;229;  0;40; 0;0;0;1; 8;0;  69;0;0;32] with
  | Ok p => (forallb isok (LaxSlicedPacketA.accessors p), wins (LaxSlicedPacketA.windows p),
             map (fun x => match x with
                           | LLeMacsec m => match lms_payload m with
                                            | LMpUnmodified e => Some (lep_incomplete e, lep_src e)
                                            | _ => None end
                           | _ => None end) (lsp_exts p))
  | _ => (false, [], [])
  end =
  (true, [Some (0, 26); Some (0, 14); Some (14, 12); Some (14, 8); Some (22, 4); Some (22, 4)],
   [Some (true, LsSlice)]).
Proof. vm_compute. reflexivity. Qed.
(* ---- end extend-c01b ---- *)

(* ---- audit follow-up (round 1) ---- *)
(* ======================================================================== *)
(* The strict single-layer CONSTRUCTORS themselves, on an arbitrary standalone slice
   (any pointer offset, any contents -- no byte-range hypothesis --, any length, accepted
   or rejected): the run never returns Bug, i.e. no unchecked read / from_raw_parts /
   checked index / usize subtraction / unwrap fails and the fuel of the extension walk
   (length + 1) is never exhausted.  One conjunct per public constructor (the 20 types of
   C01_single_layer_accessors; Ipv6ExtensionsSlice::from_slice for every start number;
   UdpSlice::from_slice_lax repeated here without the buffer hypothesis of
   C01_lax_single_no_oob).  Proofs: Parse/CtorsTotal.v. *)
From EP Require Import Parse.CtorsTotal.

Theorem C01_single_layer_ctor_no_oob : forall s,
  nobug (Ethernet2A.from_slice_without_fcs s) /\ nobug (Ethernet2A.from_slice_with_crc32_fcs s) /\
  nobug (LinuxSll.header_from_slice s) /\ nobug (LinuxSll.from_slice s) /\
  nobug (SingleVlanSlice.from_slice s) /\
  nobug (Macsec.header_from_slice s) /\ nobug (Macsec.from_slice s) /\
  nobug (ArpPacketSlice.from_slice s) /\
  nobug (Ipv4HeaderSlice.from_slice s) /\ nobug (Ipv4Slice.from_slice s) /\
  nobug (Ipv6HeaderSlice.from_slice s) /\ nobug (Ipv6Slice.from_slice s) /\
  nobug (IpSlice.from_slice s) /\
  nobug (IpAuthHeaderSlice.from_slice s) /\ nobug (Ipv6RawExtHeaderSlice.from_slice s) /\
  nobug (Ipv6FragmentHeaderSlice.from_slice s) /\
  (forall nh, nobug (Ipv6ExtensionsSlice.from_slice nh s)) /\
  nobug (UdpSlice.header_from_slice s) /\ nobug (UdpSlice.from_slice s) /\
  nobug (UdpSlice.from_slice_lax s) /\
  nobug (TcpHeaderSliceA.from_slice s) /\ nobug (TcpSlice.from_slice s) /\
  nobug (Icmpv4Slice.from_slice s) /\ nobug (Icmpv6Slice.from_slice s).
Proof. exact single_layer_ctor_no_bug. Qed.
Print Assumptions C01_single_layer_ctor_no_oob.

(* every slice STORED in the value a strict single-layer constructor returns is a
   from_raw_parts-window of the input slice: `sub_of w s` = exists k n, subU s k n = Ok w,
   i.e. k + n <= len s, the pointer of w is the pointer of s + k and its contents are the n
   bytes of s behind k (C01_window_arith gives the arithmetic reading).  This surfaces, for
   all 20 types, what C01_single_layer_accessors states through `win_ok` only for the windows
   handed back by accessors: in particular header / auth / payload of Ipv4Slice (and the
   windows its header and auth accessors return), header / extension window / payload of
   Ipv6Slice, header / payload of MacsecSlice, and the header slices of MACsec, IPv6, the
   fragment header and UDP *)
Theorem C01_single_layer_windows :
  (forall s e, Ethernet2A.from_slice_without_fcs s = Ok e \/ Ethernet2A.from_slice_with_crc32_fcs s = Ok e ->
     e2_slice e = s) /\
  (forall s h, LinuxSll.header_from_slice s = Ok h -> sub_of h s) /\
  (forall s x, LinuxSll.from_slice s = Ok x -> sub_of (fst x) s /\ snd x = s) /\
  (forall s v, SingleVlanSlice.from_slice s = Ok v -> v = s) /\
  (forall s h, Macsec.header_from_slice s = Ok h -> sub_of h s) /\
  (forall s m, Macsec.from_slice s = Ok m ->
     sub_of (ms_header m) s /\ sub_of (macsec_payload_slice m) s) /\
  (forall s a, ArpPacketSlice.from_slice s = Ok a -> sub_of a s) /\
  (forall s h, Ipv4HeaderSlice.from_slice s = Ok h -> sub_of h s) /\
  (forall s v, Ipv4Slice.from_slice s = Ok v \/ IpSlice.from_slice s = Ok (IpV4 v) ->
     sub_of (v4_header v) s /\ (forall a, v4_auth v = Some a -> sub_of a s) /\
     sub_of (ipp_slice (v4_payload v)) s /\ Forall (win_ok s) (Ipv4SliceA.windows v)) /\
  (forall s h, Ipv6HeaderSlice.from_slice s = Ok h -> sub_of h s) /\
  (forall s v, Ipv6Slice.from_slice s = Ok v \/ IpSlice.from_slice s = Ok (IpV6 v) ->
     sub_of (v6_header v) s /\ sub_of (x6_slice (v6_exts v)) s /\ sub_of (ipp_slice (v6_payload v)) s) /\
  (forall s h, IpAuthHeaderSlice.from_slice s = Ok h -> sub_of h s) /\
  (forall s h, Ipv6RawExtHeaderSlice.from_slice s = Ok h -> sub_of h s) /\
  (forall s h, Ipv6FragmentHeaderSlice.from_slice s = Ok h -> sub_of h s) /\
  (forall nh s x nx rest, Ipv6ExtensionsSlice.from_slice nh s = Ok (x, nx, rest) ->
     sub_of (x6_slice x) s /\ sub_of rest s) /\
  (forall s h, UdpSlice.header_from_slice s = Ok h -> sub_of h s) /\
  (forall s u, UdpSlice.from_slice s = Ok u \/ UdpSlice.from_slice_lax s = Ok u -> sub_of u s) /\
  (forall s h, TcpHeaderSliceA.from_slice s = Ok h -> sub_of h s) /\
  (forall s x, TcpSlice.from_slice s = Ok x -> snd x = s) /\
  (forall s v, Icmpv4Slice.from_slice s = Ok v -> v = s) /\
  (forall s v, Icmpv6Slice.from_slice s = Ok v -> v = s).
Proof. exact single_layer_stored_windows. Qed.
Print Assumptions C01_single_layer_windows.

(* ---- "the result depends only on the bytes of the slice, not on where it is located or
   on the bytes around it" (Parse/ShiftInv.v).  `from_X_at s` is the body of
   SlicedPacket::from_X with the input slice as a parameter (from_X_at (mk_slice bs) =
   SlicedPacket.from_X bs by definition); `sh k s` is s with its pointer moved by k
   (Equiv/ShiftProofs.v), `sh_pkt k` moves every slice stored in a result and leaves every
   number alone, `rmap f` maps Ok values and leaves Err and Bug values EQUAL. *)
From EP Require Import Equiv.Model Equiv.ShiftProofs Parse.ShiftInv.

Theorem C01_entry_at_mk_slice : forall bs et,
  from_ethernet_at (mk_slice bs) = SlicedPacket.from_ethernet bs /\
  from_linux_sll_at (mk_slice bs) = SlicedPacket.from_linux_sll bs /\
  from_ether_type_at et (mk_slice bs) = SlicedPacket.from_ether_type et bs /\
  from_ip_at (mk_slice bs) = SlicedPacket.from_ip bs.
Proof. exact at_mk_slice. Qed.
Print Assumptions C01_entry_at_mk_slice.

(* an input located k bytes into its allocation: the answer for (0, bs) with every stored
   pointer + k; errors (incl. layer_start_offset, which counts from the start of the
   slice) equal *)
Theorem C01_location_independent : forall k bs et,
  from_ethernet_at (k, bs) = rmap (sh_pkt k) (SlicedPacket.from_ethernet bs) /\
  from_linux_sll_at (k, bs) = rmap (sh_pkt k) (SlicedPacket.from_linux_sll bs) /\
  from_ether_type_at et (k, bs) = rmap (sh_pkt k) (SlicedPacket.from_ether_type et bs) /\
  from_ip_at (k, bs) = rmap (sh_pkt k) (SlicedPacket.from_ip bs).
Proof. exact strict_entry_located. Qed.
Print Assumptions C01_location_independent.

(* a window [pos, lim) of a larger buffer: the answer is that of a standalone copy of the
   window's bytes (moved by pos) -- no byte of bs outside the window has any influence *)
Theorem C01_surroundings_independent : forall bs s pos lim et,
  repr bs s pos lim ->
  let w := take (lim - pos) (drop pos bs) in
  from_ethernet_at s = rmap (sh_pkt pos) (SlicedPacket.from_ethernet w) /\
  from_linux_sll_at s = rmap (sh_pkt pos) (SlicedPacket.from_linux_sll w) /\
  from_ether_type_at et s = rmap (sh_pkt pos) (SlicedPacket.from_ether_type et w) /\
  from_ip_at s = rmap (sh_pkt pos) (SlicedPacket.from_ip w).
Proof. exact strict_entry_window. Qed.
Print Assumptions C01_surroundings_independent.

(* the same for every strict single-layer constructor and every slice *)
Theorem C01_single_layer_location_independent : forall k s,
  Ethernet2A.from_slice_without_fcs (sh k s) = rmap (sh_eth2 k) (Ethernet2A.from_slice_without_fcs s) /\
  Ethernet2A.from_slice_with_crc32_fcs (sh k s) = rmap (sh_eth2 k) (Ethernet2A.from_slice_with_crc32_fcs s) /\
  LinuxSll.header_from_slice (sh k s) = rmap (sh k) (LinuxSll.header_from_slice s) /\
  LinuxSll.from_slice (sh k s) = rmap (sh_pair k) (LinuxSll.from_slice s) /\
  SingleVlanSlice.from_slice (sh k s) = rmap (sh k) (SingleVlanSlice.from_slice s) /\
  Macsec.header_from_slice (sh k s) = rmap (sh k) (Macsec.header_from_slice s) /\
  Macsec.from_slice (sh k s) = rmap (sh_ms k) (Macsec.from_slice s) /\
  ArpPacketSlice.from_slice (sh k s) = rmap (sh k) (ArpPacketSlice.from_slice s) /\
  Ipv4HeaderSlice.from_slice (sh k s) = rmap (sh k) (Ipv4HeaderSlice.from_slice s) /\
  Ipv4Slice.from_slice (sh k s) = rmap (sh_v4 k) (Ipv4Slice.from_slice s) /\
  Ipv6HeaderSlice.from_slice (sh k s) = rmap (sh k) (Ipv6HeaderSlice.from_slice s) /\
  Ipv6Slice.from_slice (sh k s) = rmap (sh_v6 k) (Ipv6Slice.from_slice s) /\
  IpSlice.from_slice (sh k s) = rmap (sh_ip k) (IpSlice.from_slice s) /\
  IpAuthHeaderSlice.from_slice (sh k s) = rmap (sh k) (IpAuthHeaderSlice.from_slice s) /\
  Ipv6RawExtHeaderSlice.from_slice (sh k s) = rmap (sh k) (Ipv6RawExtHeaderSlice.from_slice s) /\
  Ipv6FragmentHeaderSlice.from_slice (sh k s) = rmap (sh k) (Ipv6FragmentHeaderSlice.from_slice s) /\
  (forall nh, Ipv6ExtensionsSlice.from_slice nh (sh k s) = rmap (sh_x6r k) (Ipv6ExtensionsSlice.from_slice nh s)) /\
  UdpSlice.header_from_slice (sh k s) = rmap (sh k) (UdpSlice.header_from_slice s) /\
  UdpSlice.from_slice (sh k s) = rmap (sh k) (UdpSlice.from_slice s) /\
  UdpSlice.from_slice_lax (sh k s) = rmap (sh k) (UdpSlice.from_slice_lax s) /\
  TcpHeaderSliceA.from_slice (sh k s) = rmap (sh k) (TcpHeaderSliceA.from_slice s) /\
  TcpSlice.from_slice (sh k s) = rmap (sh_tcp k) (TcpSlice.from_slice s) /\
  Icmpv4Slice.from_slice (sh k s) = rmap (sh k) (Icmpv4Slice.from_slice s) /\
  Icmpv6Slice.from_slice (sh k s) = rmap (sh k) (Icmpv6Slice.from_slice s).
Proof. exact single_layer_shift_invariant. Qed.
Print Assumptions C01_single_layer_location_independent.

(* ---- non-vacuity ---------------------------------------------------------- *)
(* rejected and accepted inputs of the constructors: truncated headers, a bad IHL, an IPv6
   chain whose last header is cut, an empty slice -- every run is Err (never Bug); and the
   unchecked primitives behind them DO fail when used without the length test *)
Definition ctor_outcome {A} (r : res A) : N :=
  match r with Ok _ => 0 | Err (ELen _) => 1 | Err (EContent _) => 2 | Bug _ => 3 end.

Example C01_ctor_ex :
  (ctor_outcome (Ipv4HeaderSlice.from_slice (mk_slice [69;0;0])),
   ctor_outcome (Ipv4HeaderSlice.from_slice (mk_slice (68 :: repeat 0 22))),
   ctor_outcome (Ipv4Slice.from_slice (mk_slice ([69;0;0;20; 0;0;0;0; 64;51;0;0; 1;2;3;4; 5;6;7;8] ++ [17;9;0;0]))),
   ctor_outcome (IpSlice.from_slice (mk_slice [])),
   ctor_outcome (IpSlice.from_slice (mk_slice [66])),
   ctor_outcome (Ipv6ExtensionsSlice.from_slice 0 (mk_slice [43;0;0;0;0;0;0;0; 59;1;0;0])),
   ctor_outcome (Ipv6ExtensionsSlice.from_slice 60 (mk_slice ([0;0] ++ repeat 0 6))),
   ctor_outcome (Macsec.from_slice (mk_slice [0;40;0;0;0;1;8;0])),
   ctor_outcome (TcpHeaderSliceA.from_slice (mk_slice (repeat 0 12 ++ [240] ++ repeat 0 7))),
   ctor_outcome (ArpPacketSlice.from_slice (7, [0;1;8;0;6;4;0;1]))) =
  (1, 2, 1, 1, 2, 1, 2, 1, 1, 1) /\
  subU (mk_slice [69;0;0]) 0 20 = Bug SITE_SUB /\ rdU (mk_slice []) 0 = Bug SITE_RD /\
  Ipv6ExtensionsSlice.walk 1 8 (mk_slice [43;0;0;0;0;0;0;0]) 60 false = Bug SITE_FUEL.
Proof. vm_compute. repeat split. Qed.

(* the Ethernet / VLAN / IPv4 / UDP packet of C01_accessors_ex located 1000 bytes into its
   allocation: same layers, every window 1000 later; cut to 47 bytes: the same error *)
Example C01_location_ex :
  match from_ethernet_at (1000, ex_pkt_acc) with
  | Ok p => wins (SlicedPacketA.windows p)
  | _ => []
  end =
  [Some (1000, 50); Some (1000, 14); Some (1014, 36);
   Some (1014, 36); Some (1014, 4); Some (1018, 32);
   Some (1018, 20); Some (1038, 12); Some (1038, 0);
   Some (1038, 12); Some (1038, 8); Some (1046, 4)] /\
  from_ethernet_at (1000, firstn 47 ex_pkt_acc) =
  Err (ELen (mkLenError 32 29 LsSlice LyIpv4Packet 18)) /\
  SlicedPacket.from_ethernet (firstn 47 ex_pkt_acc) =
  Err (ELen (mkLenError 32 29 LsSlice LyIpv4Packet 18)).
Proof. vm_compute. repeat split. Qed.
(* ---- end audit follow-up ---- *)

(* ---- audit follow-up (round 2) ---- *)
(* ======================================================================== *)
(* The public slice constructors that C01_single_layer_ctor_no_oob does not list, on an
   ARBITRARY slice / byte string (any pointer offset, contents, length; accepted or rejected):
     Ethernet2HeaderSlice::from_slice, SingleVlanHeaderSlice::from_slice (length test +
       from_raw_parts(ptr, 14 | 4); transliterated in Parse/CtorsTotal2.v, they are the first
       step of HdrModel's Ethernet2Header / SingleVlanHeader ::from_slice),
     Ipv4ExtensionsSlice::from_slice for every start number (model: LaxSlices.Ipv4Exts),
     the 11 typed ICMPv6 payload slices (`payload_ctor k`: XxxPayloadSlice::from_slice by kind;
       model: CtlMsg/Model.v, Icmpv6PayloadSlice) and the two enum constructors
       Icmpv6PayloadSlice::from_slice / from_type_u8, which only ever run one of them.
   No run reaches a failing from_raw_parts / checked index / unwrap (Bug, resp. UB in the
   vocabulary of CtlMsg); what an accepted value stores is a from_raw_parts window of the
   input (the payload slices: the input itself; the authentication header of an
   Ipv4ExtensionsSlice is the value IpAuthHeaderSlice::from_slice returns for the same slice,
   so C01_single_layer_accessors covers its accessors), and no accessor of an accepted payload slice
   (first_chunk().unwrap(), &slice[FIXED_PART_LEN..]) reaches its panic site.
   Proofs: Parse/CtorsTotal2.v. *)
From EP Require Import Parse.LaxSlices Parse.CtorsTotal2.

Theorem C01_remaining_ctors_no_oob :
  (forall s, nobug (Ethernet2HeaderSliceM.from_slice s)) /\
  (forall s, nobug (SingleVlanHeaderSliceM.from_slice s)) /\
  (forall nh s, nobug (Ipv4Exts.from_slice nh s)) /\
  (forall k s n, payload_ctor k s <> CtlMsg.Spec.UB n) /\
  (forall ty s n, P6.from_slice ty s <> CtlMsg.Spec.UB n) /\
  (forall t c s n, P6.from_type_u8 t c s <> CtlMsg.Spec.UB n) /\
  (forall s h, Ethernet2HeaderSliceM.from_slice s = Ok h -> s_len h = 14 /\ sub_of h s) /\
  (forall s h, SingleVlanHeaderSliceM.from_slice s = Ok h -> s_len h = 4 /\ sub_of h s) /\
  (forall nh s a nx rest, Ipv4Exts.from_slice nh s = Ok (a, nx, rest) ->
     sub_of rest s /\
     (forall h, a = Some h -> IpAuthHeaderSlice.from_slice s = Ok h /\ sub_of h s)) /\
  (forall k s p, payload_ctor k s = CtlMsg.Spec.Ok p ->
     p = (k, s) /\ forall n, P6.accessors p <> CtlMsg.Spec.UB n).
Proof. exact remaining_ctors_no_bug. Qed.
Print Assumptions C01_remaining_ctors_no_oob.

(* the transliterations are what the struct decoders of Parse/HdrModel.v run first, and the
   enum constructors run nothing but `payload_ctor` *)
Theorem C01_remaining_ctors_are_used :
  (forall s, EP.Parse.HdrModel.Ethernet2Header.from_slice s =
             (let* h := Ethernet2HeaderSliceM.from_slice s in
              let* rest := EP.Parse.HdrModel.idx_from s 14 in Ok (h, rest))) /\
  (forall s, EP.Parse.HdrModel.SingleVlanHeader.from_slice s =
             (let* h := SingleVlanHeaderSliceM.from_slice s in
              let* rest := EP.Parse.HdrModel.idx_from s 4 in Ok (h, rest))) /\
  (forall ty s, P6.from_slice ty s = payload_ctor (CtlMsg.Spec.payload_kind_of ty) s) /\
  (forall t c s, exists k, P6.from_type_u8 t c s = payload_ctor k s).
Proof. exact remaining_ctors_used. Qed.
Print Assumptions C01_remaining_ctors_are_used.

(* ---- non-vacuity ---------------------------------------------------------- *)
(* short inputs are rejected (Err / ErrLen), sufficient ones accepted with the stated window;
   the primitives behind the tests DO fail when run without them: from_raw_parts(ptr, 14) on
   13 bytes, the accessors of a Redirect payload slice built around the length test *)
Example C01_remaining_ctors_ex :
  (ctor_outcome (Ethernet2HeaderSliceM.from_slice (mk_slice (repeat 0 13))),
   match Ethernet2HeaderSliceM.from_slice (5, repeat 0 20) with Ok h => Some (win_of h) | _ => None end,
   ctor_outcome (SingleVlanHeaderSliceM.from_slice (mk_slice [1;2;3])),
   match SingleVlanHeaderSliceM.from_slice (mk_slice [1;2;3;4;5]) with Ok h => Some (win_of h) | _ => None end,
   ctor_outcome (Ipv4Exts.from_slice 51 (mk_slice [17;1;0;0; 0;0;0;1; 0;0;0;2])),
   ctor_outcome (Ipv4Exts.from_slice 51 (mk_slice [17;0;0;0; 0;0;0;1; 0;0;0;2])),
   match Ipv4Exts.from_slice 51 (mk_slice ([17;1;0;0; 0;0;0;1; 0;0;0;2] ++ [9;9])) with
   | Ok (Some h, nx, rest) => Some (win_of h, nx, win_of rest) | _ => None end) =
  (1, Some (5, 14), 1, Some (0, 4), 0, 2, Some ((0, 12), 17, (12, 2))) /\
  subU (mk_slice (repeat 0 13)) 0 14 = Bug SITE_SUB /\
  payload_ctor CtlMsg.Spec.PkRedirect (repeat 0 31) =
    CtlMsg.Spec.ErrLen (CtlMsg.Spec.mkLenError 32 31 CtlMsg.Spec.LsSlice CtlMsg.Spec.LIcmpv6 0) /\
  payload_ctor CtlMsg.Spec.PkRedirect (repeat 0 32) = CtlMsg.Spec.Ok (CtlMsg.Spec.PkRedirect, repeat 0 32) /\
  P6.accessors (CtlMsg.Spec.PkRedirect, repeat 0 31) = CtlMsg.Spec.UB 33 /\
  P6.from_type_u8 136 0 (repeat 0 15) =
    CtlMsg.Spec.ErrLen (CtlMsg.Spec.mkLenError 16 15 CtlMsg.Spec.LsSlice CtlMsg.Spec.LIcmpv6 0).
Proof. vm_compute. repeat split. Qed.
(* ---- end audit follow-up (round 2) ---- *)

(* ==== round3 c0102 begin ==== *)
(* ---- round 3 (audit top-12 item 4): packet-level accessors of a STRICT result, stored slice ->
   iterator compositions, LaxPacketHeaders::from_linux_sll ------------------------------------------

   (a) Parse/PacketAccess.v transliterates SlicedPacket::{payload_ether_type, ether_payload,
   ip_payload, is_ip_payload_fragmented, vlan, vlan_ids} (sliced_packet.rs 266-403); vlan_ids is the
   model of Defrag/PacketStep.v (`push_unchecked` on a full ArrayVec<VlanId, 3> = Bug SITE_PUSH).
   For every result of the four strict entry points: at most 3 link extensions, no packet-level
   accessor reaches Bug, vlan_ids yields at most as many ids as there are link extensions, and
   every sub-slice handed back lies inside the input with the input's bytes.  No `bytes_ok` needed.
   The accessor values / windows of this model are compared with the crate on every case
   (c01acc lines `peth`, `psll`, `pip`, `pet:<n>`).  LaxSlicedPacket::{vlan, vlan_ids,
   ether_payload, ip_payload} (the lax type has no other packet-level accessor) are covered by
   C01_lax_accessors_no_oob / C01_lax_windows_inside above.  Proofs: Parse/PacketAccessProofs.v. *)
From EP Require Import Parse.PacketAccess Parse.PacketAccessProofs.

Theorem C01_strict_packet_accessors_no_oob : forall bs et p, entry bs et p ->
  len (sp_exts p) <= LINK_EXTS_CAP /\
  (forall r, In r (SlicedPacketPA.packet_accessors p) -> forall b, r <> Bug b) /\
  (exists l, SlicedPacketPA.vlan_ids p = Ok l /\ len l <= len (sp_exts p) /\ len l <= LINK_EXTS_CAP).
Proof. exact strict_packet_accessors_no_bug. Qed.
Print Assumptions C01_strict_packet_accessors_no_oob.

Theorem C01_strict_packet_windows_inside : forall bs et p, entry bs et p ->
  forall r, In r (SlicedPacketPA.packet_windows p) ->
    exists w, r = Ok w /\ s_off w + s_len w <= len bs /\
              snd w = take (s_len w) (drop (s_off w) bs).
Proof. exact strict_packet_windows_inside. Qed.
Print Assumptions C01_strict_packet_windows_inside.

(* the whole strict result: SlicedPacketPA.accessors = SlicedPacketA.accessors ++ packet_accessors,
   SlicedPacketPA.windows = SlicedPacketA.windows ++ packet_windows *)
Theorem C01_strict_all_accessors_no_oob : forall bs et p, bytes_ok bs -> entry bs et p ->
  forall r, In r (SlicedPacketPA.accessors p) -> forall b, r <> Bug b.
Proof. exact strict_all_accessors_no_bug. Qed.
Print Assumptions C01_strict_all_accessors_no_oob.

Theorem C01_strict_all_windows_inside : forall bs et p, bytes_ok bs -> entry bs et p ->
  forall r, In r (SlicedPacketPA.windows p) ->
    exists w, r = Ok w /\ s_off w + s_len w <= len bs /\
              snd w = take (s_len w) (drop (s_off w) bs).
Proof. exact strict_all_windows_inside. Qed.
Print Assumptions C01_strict_all_windows_inside.

(* (b) stored slice -> iterator (Parse/StoredIter.v).  TcpSlice / TcpHeaderSlice::options_iterator =
   TcpOptionsIterator::from_slice(self.options()), iterator model TcpOpt/Model.v; Icmpv6Slice::
   payload_slice = Icmpv6PayloadSlice::from_type_u8(type_u8(), code_u8(), payload()), models of the
   enum constructor, the typed payload accessors and NdpOptionsIterator: CtlMsg/Model.v.
     tcp_iter_ok o      iterate (contents of o) returns (no OOB / Panic / fuel), at most one item per
                        byte, final state empty and exhausted, every Ok item shrinks the state, and
                        (bytes_ok) every iterator state is the from_raw_parts window o[k..]
     payload_slice_ok pw r   r is not UB; an accepted typed payload slice stores the contents of pw, its
                        accessors return, its options() area is a window pw[k..] and ndp_iter_ok
     ndp_iter_ok opts   NdpOptionsIterator over opts ends within length+1 calls, yields no UB item,
                        accessors of every accepted option return, at most len/8 accepted options,
                        which tile a prefix of opts
   single layers: EVERY slice value s, every value the constructor returns *)
From EP Require Import Parse.StoredIter.

Theorem C01_stored_iter_single_layer :
  (forall s x, TcpSlice.from_slice s = Ok x ->
     exists o, TcpSliceA.options x = Ok o /\ sub_of o s /\ s_len o = fst x - 20 /\ s_len o <= 40 /\
               tcp_iter_ok o) /\
  (forall s h, TcpHeaderSliceA.from_slice s = Ok h ->
     exists o, TcpHeaderSliceA.options h = Ok o /\ sub_of o s /\ s_len o = s_len h - 20 /\ s_len o <= 40 /\
               tcp_iter_ok o) /\
  (forall s v, Icmpv6Slice.from_slice s = Ok v ->
     exists t c pw,
       icmpv6_payload_slice v = Ok (pw, P6.from_type_u8 t c (snd pw)) /\
       sub_of pw s /\ s_len pw = s_len s - 8 /\
       payload_slice_ok pw (P6.from_type_u8 t c (snd pw))).
Proof. exact stored_iter_single_layer. Qed.
Print Assumptions C01_stored_iter_single_layer.

(* whole packets: `stored_transport bs t` = t is the transport slice of a result of one of the four
   strict or the three lax whole-packet entry points on bs.  The options window, the payload window,
   the NDP options area and every iterator state lie inside the input (`in_window bs w`: off + len <=
   len bs and the contents are the input's bytes there) *)
Theorem C01_packet_tcp_options_iter : forall bs hl s,
  bytes_ok bs -> stored_transport bs (TrTcp hl s) ->
  exists o, TcpSliceA.options (hl, s) = Ok o /\ sub_of o s /\ in_window bs o /\
            s_len o = hl - 20 /\ s_len o <= 40 /\ tcp_iter_in bs o.
Proof. exact packet_tcp_options_iter. Qed.
Print Assumptions C01_packet_tcp_options_iter.

Theorem C01_packet_icmp6_payload_slice : forall bs s,
  stored_transport bs (TrIcmpv6 s) ->
  exists t c pw,
    icmpv6_payload_slice s = Ok (pw, P6.from_type_u8 t c (snd pw)) /\
    sub_of pw s /\ in_window bs pw /\ s_len pw = s_len s - 8 /\
    payload_slice_in bs pw (P6.from_type_u8 t c (snd pw)).
Proof. exact packet_icmp6_payload_slice. Qed.
Print Assumptions C01_packet_icmp6_payload_slice.

(* pin the meaning of the predicates *)
Check (eq_refl : in_window = fun bs w =>
  s_off w + s_len w <= len bs /\ snd w = take (s_len w) (drop (s_off w) bs)).
Check (eq_refl : tail_window = fun o r =>
  exists k, k <= s_len o /\ subU o k (s_len o - k) = Ok (s_off o + k, r)).
Check (eq_refl : tcp_iter_in = fun bs o =>
  exists tr fin,
    TO.iterate (snd o) = TO.Ret (tr, fin) /\
    (length tr <= length (snd o))%nat /\
    fin = [] /\ (forall n, TO.next_n n fin = TO.Ret (repeat None n, [])) /\
    (forall pre e r post, tr = pre ++ (TO.Ok e, r) :: post -> len r < len (TO.last_rest (snd o) pre)) /\
    Forall (fun ir => exists k, k <= s_len o /\ in_window bs (s_off o + k, snd ir)) tr).
Check (eq_refl : stored_transport = fun bs t =>
  (exists et p, entry bs et p /\ sp_transport p = Some t) \/
  (exists et p, lax_entry bs et p /\ lsp_transport p = Some t)).

(* (c) LaxPacketHeaders::from_linux_sll never reaches Bug: corollary of C06_sll_start_laxheaders
   (Err | literal Ok | lh_behind 16 of from_ether_type behind the header) and
   C04_lax_headers_never_bug.  Parse/LaxHdrSll.v. *)
From EP Require Import Parse.LaxHdrSll.

Theorem C01_lax_headers_from_linux_sll_no_oob : forall bs b, bytes_ok bs ->
  EP.Parse.HdrLaxModel.LaxPacketHeaders.from_linux_sll bs <> Bug b.
Proof. exact lax_headers_from_linux_sll_never_bug. Qed.
Print Assumptions C01_lax_headers_from_linux_sll_no_oob.

(* ---- non-vacuity ---------------------------------------------------------- *)
(* the Ethernet / VLAN / IPv4 / UDP packet of C01_accessors_ex: the six packet-level accessor runs
   are Ok; ether_payload = payload of the VLAN slice (18+32, ether type 0x0800, LenSource::Slice),
   ip_payload 38+12, vlan = Single(14+36); vlan_ids = [5]; payload_ether_type = None (net is set).
   The accessor DOES reach its Bug site on a value no entry point returns: 4 VLAN entries *)
Example C01_strict_packet_accessors_ex :
  match SlicedPacket.from_ethernet ex_pkt_acc with
  | Ok p => Some (SlicedPacketPA.packet_accessors p, wins (SlicedPacketPA.packet_windows p),
                  SlicedPacketPA.vlan_ids p, SlicedPacketPA.payload_ether_type p,
                  SlicedPacketPA.is_ip_payload_fragmented p,
                  match SlicedPacketPA.ether_payload p with
                  | Ok (Some e) => Some (ep_ether_type e, ep_src e, win_of (ep_slice e))
                  | _ => None
                  end)
  | _ => None
  end =
  Some ([Ok tt; Ok tt; Ok tt; Ok tt; Ok tt; Ok tt],
        [Some (18, 32); Some (38, 12); Some (14, 36)],
        Ok [5], Ok None, Ok false, Some (2048, LsSlice, (18, 32))) /\
  EP.Defrag.PacketStep.vlan_ids_loop (repeat (LeVlan (0, [0;5;8;0])) 4) [] = Bug SITE_PUSH /\
  EP.Defrag.PacketStep.vlan_ids_loop (repeat (LeVlan (0, [0;5;8;0])) 3) [] = Ok [5; 5; 5].
Proof. split; [vm_compute; reflexivity|split; vm_compute; reflexivity]. Qed.

(* IPv4 / TCP with data offset 7: options MSS 1460, NOP, window scale 7 at 40+8; the iterator yields
   the three options, the states are the tails 44.., 45.., 48.. of the window.
   IPv6 / ICMPv6 router solicitation with a source link-layer option: payload window 48+8, typed
   payload slice RouterSolicitation, options area = the payload, one NDP option *)
Definition ex_tcp_opts : bytes :=
  [69;0;0;52; 0;0;0;0; 64;6;0;0; 1;2;3;4; 5;6;7;8] ++
  [0;80; 1;187; 0;0;0;1; 0;0;0;2; 112;16; 16;0; 0;0; 0;0] ++ [2;4;5;180; 1; 3;3;7] ++ [9;9;9;9].
Definition ex_router_sol : bytes :=
  [96;0;0;0; 0;16; 58; 255] ++ repeat 1 16 ++ repeat 2 16 ++
  [133;0;0;0; 0;0;0;0] ++ [1;1; 10;11;12;13;14;15].

Example C01_stored_iter_ex :
  bytes_ok ex_tcp_opts /\ bytes_ok ex_router_sol /\
  (exists p hl s, SlicedPacket.from_ip ex_tcp_opts = Ok p /\ sp_transport p = Some (TrTcp hl s) /\
     stored_transport ex_tcp_opts (TrTcp hl s)) /\
  match SlicedPacket.from_ip ex_tcp_opts with
  | Ok (mkSliced _ _ _ (Some (TrTcp hl s))) =>
      match TcpSliceA.options (hl, s) with
      | Ok o => Some (win_of o, TO.iterate (snd o))
      | _ => None
      end
  | _ => None
  end =
  Some ((40, 8),
        TO.Ret ([(TO.Ok (TO.MaximumSegmentSize 1460), [1; 3; 3; 7]);
                 (TO.Ok TO.Noop, [3; 3; 7]); (TO.Ok (TO.WindowScale 7), [])], [])) /\
  match SlicedPacket.from_ip ex_router_sol with
  | Ok (mkSliced _ _ _ (Some (TrIcmpv6 s))) =>
      match icmpv6_payload_slice s with
      | Ok (pw, CtlMsg.Spec.Ok ps) =>
          Some (win_of pw, fst ps,
                match P6.accessors ps with
                | CtlMsg.Spec.Ok v =>
                    match pview_options v with
                    | Some o => Some (o, CtlMsg.Model.Ndp.collect (S (length o)) o)
                    | None => None
                    end
                | _ => None
                end)
      | _ => None
      end
  | _ => None
  end =
  Some ((48, 8), CtlMsg.Spec.PkRouterSolicitation,
        Some ([1; 1; 10; 11; 12; 13; 14; 15],
              Some [CtlMsg.Spec.IOk CtlMsg.Spec.KSrcLL [1; 1; 10; 11; 12; 13; 14; 15]])).
Proof.
  split; [apply bytes_okb_spec; vm_compute; reflexivity|].
  split; [apply bytes_okb_spec; vm_compute; reflexivity|].
  split.
  { destruct (SlicedPacket.from_ip ex_tcp_opts) as [p| |] eqn:E; [|vm_compute in E; discriminate E..].
    destruct (sp_transport p) as [[u|hl s|i|i]|] eqn:T;
      try (vm_compute in E; injection E as <-; discriminate T).
    exists p, hl, s. split; [reflexivity|]. split; [exact T|]. left. exists 0, p. split; [|exact T].
    right. right. right. exact E. }
  split; vm_compute; reflexivity.
Qed.

(* SLL / IPv4 / UDP: accepted; cut inside the IPv4 header: still Ok (lax); cut inside the SLL header: Err *)
Definition ex_sll_acc : bytes := [0;0; 0;1; 0;6; 1;2;3;4;5;6;0;0; 8;0] ++ skipn 18 ex_pkt_acc.
Example C01_lax_headers_from_linux_sll_ex :
  bytes_ok ex_sll_acc /\
  (match EP.Parse.HdrLaxModel.LaxPacketHeaders.from_linux_sll ex_sll_acc with Ok _ => 1 | Err _ => 2 | Bug _ => 3 end,
   match EP.Parse.HdrLaxModel.LaxPacketHeaders.from_linux_sll (firstn 30 ex_sll_acc) with Ok _ => 1 | Err _ => 2 | Bug _ => 3 end,
   match EP.Parse.HdrLaxModel.LaxPacketHeaders.from_linux_sll (firstn 10 ex_sll_acc) with Ok _ => 1 | Err _ => 2 | Bug _ => 3 end)
  = (1, 1, 2).
Proof. split; [apply bytes_okb_spec; vm_compute; reflexivity|vm_compute; reflexivity]. Qed.
(* ==== round3 c0102 end ==== *)
