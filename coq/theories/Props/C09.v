(* Props/C09.v -- property C09: checksums equal the RFC 1071 Internet checksum.
   Only statements; every proof is `exact <lemma>`.  The `Check` lines pin the
   statements so that a weakened statement no longer compiles. *)
From EP Require Import Base.Bytes Checksum.Spec Checksum.Model Checksum.Proofs.

(* the helper modules, both widths, both host endiannesses, every length *)
Theorem C09_helper64 : forall e bs, bytes_ok bs ->
  to_be16v e (U64.ones_complement (U64.add_slice e 0 bs)) = rfc1071 bs.
Proof. exact add_slice64_rfc1071. Qed.
Print Assumptions C09_helper64.

Theorem C09_helper32 : forall e bs, bytes_ok bs ->
  to_be16v e (U32.ones_complement (U32.add_slice e 0 bs)) = rfc1071 bs.
Proof. exact add_slice32_rfc1071. Qed.
Print Assumptions C09_helper32.

(* any call sequence add_2bytes/add_4bytes/add_8bytes/add_16bytes/add_slice whose
   pieces (all but the last) have even length equals RFC 1071 of the concatenation *)
Theorem C09_pieces64 : forall e ps, Forall piece_ok ps -> pieces_aligned ps ->
  checksum64 e ps = rfc1071 (pieces_bytes ps).
Proof. exact checksum64_rfc1071. Qed.
Print Assumptions C09_pieces64.

Theorem C09_pieces32 : forall e ps, Forall piece_ok ps -> pieces_aligned ps ->
  checksum32 e ps = rfc1071 (pieces_bytes ps).
Proof. exact checksum32_rfc1071. Qed.
Print Assumptions C09_pieces32.

Theorem C09_split : forall e ps, Forall piece_ok ps -> pieces_aligned ps ->
  checksum64 e ps = checksum64 e [PSlice (pieces_bytes ps)].
Proof. exact split_independent64. Qed.
Print Assumptions C09_split.

Theorem C09_widths_agree : forall e ps, Forall piece_ok ps -> pieces_aligned ps ->
  checksum64 e ps = checksum32 e ps.
Proof. exact widths_agree. Qed.
Print Assumptions C09_widths_agree.

(* to_ones_complement_with_no_zero: never 0, otherwise the RFC value *)
Theorem C09_no_zero64 : forall e ps, Forall piece_ok ps -> pieces_aligned ps ->
  checksum64_no_zero e ps =
    (if rfc1071 (pieces_bytes ps) =? 0 then 65535 else rfc1071 (pieces_bytes ps)).
Proof. exact checksum64_no_zero_spec. Qed.
Print Assumptions C09_no_zero64.

Theorem C09_no_zero32 : forall e ps, Forall piece_ok ps -> pieces_aligned ps ->
  checksum32_no_zero e ps =
    (if rfc1071 (pieces_bytes ps) =? 0 then 65535 else rfc1071 (pieces_bytes ps)).
Proof. exact checksum32_no_zero_spec. Qed.
Print Assumptions C09_no_zero32.

(* every accumulator state, including carries out of 32/64 bits *)
Theorem C09_any_start64 : forall e s0 bs, s0 < M64 -> bytes_ok bs ->
  let s := U64.add_slice e s0 bs in
  s < M64 /\ s ==m s0 + w e * sum_be16 bs /\ (s = 0 <-> s0 = 0 /\ sum_be16 bs = 0).
Proof. exact add_slice64_any_start. Qed.
Print Assumptions C09_any_start64.

Theorem C09_any_start32 : forall e s0 bs, s0 < M32 -> bytes_ok bs ->
  let s := U32.add_slice e s0 bs in
  s < M32 /\ s ==m s0 + w e * sum_be16 bs /\ (s = 0 <-> s0 = 0 /\ sum_be16 bs = 0).
Proof. exact add_slice32_any_start. Qed.
Print Assumptions C09_any_start32.

(* the RFC's "add the carries until it fits" is the closed form used in the spec *)
Theorem C09_fold_is_rfc : forall fuel x, (N.to_nat x < fuel)%nat -> fold_carry fuel x = fold16 x.
Proof. exact fold_carry_fold16. Qed.
Print Assumptions C09_fold_is_rfc.

(* non-vacuity: the RFC 1071 section 3 example, an odd length, a carry out of 64 bits *)
Example C09_ex_rfc : checksum64 LE [P2 0 1; P4 242 3 244 245; PSlice [246; 247]] = 8717
  /\ rfc1071 [0; 1; 242; 3; 244; 245; 246; 247] = 8717.
Proof. split; vm_compute; reflexivity. Qed.
Example C09_ex_hyp : Forall piece_ok [P2 0 1; P4 242 3 244 245; PSlice [246; 247; 9]]
  /\ pieces_aligned [P2 0 1; P4 242 3 244 245; PSlice [246; 247; 9]].
Proof.
  split.
  - repeat (constructor; try (unfold byte_ok; lia)).
  - cbn. repeat split; reflexivity.
Qed.
Example C09_ex_carry : U64.add_slice LE 18446744073709551615 [255; 255; 1] = 65536.
Proof. vm_compute; reflexivity. Qed.
