(* Props/C09.v -- property C09: checksums equal the RFC 1071 Internet checksum.
   Only statements; every proof is `exact <lemma>`.  The `Check` lines pin the
   statements so that a weakened statement no longer compiles. *)
From EP Require Import Base.Bytes Checksum.Spec Checksum.Model Checksum.Proofs.
From EP Require Import Checksum.ProtoTypes Checksum.ProtoSpec Checksum.Proto Checksum.ProtoProofs.

(* the helper modules, both widths, both host endiannesses, every length *)
Theorem C09_helper64 : forall e bs, bytes_ok bs ->
  to_be16v e (U64.ones_complement (U64.add_slice e 0 bs)) = rfc1071 bs.
Proof. exact add_slice64_rfc1071. Qed.
Print Assumptions C09_helper64.

Theorem C09_helper32 : forall e bs, bytes_ok bs ->
  to_be16v e (U32.ones_complement (U32.add_slice e 0 bs)) = rfc1071 bs.
Proof. exact add_slice32_rfc1071. Qed.
Print Assumptions C09_helper32.

(* any call sequence add_2bytes/add_4bytes/add_8bytes/add_16bytes/add_slice whose
   pieces (all but the last) have even length equals RFC 1071 of the concatenation *)
Theorem C09_pieces64 : forall e ps, Forall piece_ok ps -> pieces_aligned ps ->
  checksum64 e ps = rfc1071 (pieces_bytes ps).
Proof. exact checksum64_rfc1071. Qed.
Print Assumptions C09_pieces64.

Theorem C09_pieces32 : forall e ps, Forall piece_ok ps -> pieces_aligned ps ->
  checksum32 e ps = rfc1071 (pieces_bytes ps).
Proof. exact checksum32_rfc1071. Qed.
Print Assumptions C09_pieces32.

Theorem C09_split : forall e ps, Forall piece_ok ps -> pieces_aligned ps ->
  checksum64 e ps = checksum64 e [PSlice (pieces_bytes ps)].
Proof. exact split_independent64. Qed.
Print Assumptions C09_split.

Theorem C09_widths_agree : forall e ps, Forall piece_ok ps -> pieces_aligned ps ->
  checksum64 e ps = checksum32 e ps.
Proof. exact widths_agree. Qed.
Print Assumptions C09_widths_agree.

(* to_ones_complement_with_no_zero: never 0, otherwise the RFC value *)
Theorem C09_no_zero64 : forall e ps, Forall piece_ok ps -> pieces_aligned ps ->
  checksum64_no_zero e ps =
    (if rfc1071 (pieces_bytes ps) =? 0 then 65535 else rfc1071 (pieces_bytes ps)).
Proof. exact checksum64_no_zero_spec. Qed.
Print Assumptions C09_no_zero64.

Theorem C09_no_zero32 : forall e ps, Forall piece_ok ps -> pieces_aligned ps ->
  checksum32_no_zero e ps =
    (if rfc1071 (pieces_bytes ps) =? 0 then 65535 else rfc1071 (pieces_bytes ps)).
Proof. exact checksum32_no_zero_spec. Qed.
Print Assumptions C09_no_zero32.

(* every accumulator state, including carries out of 32/64 bits *)
Theorem C09_any_start64 : forall e s0 bs, s0 < M64 -> bytes_ok bs ->
  let s := U64.add_slice e s0 bs in
  s < M64 /\ s ==m s0 + w e * sum_be16 bs /\ (s = 0 <-> s0 = 0 /\ sum_be16 bs = 0).
Proof. exact add_slice64_any_start. Qed.
Print Assumptions C09_any_start64.

Theorem C09_any_start32 : forall e s0 bs, s0 < M32 -> bytes_ok bs ->
  let s := U32.add_slice e s0 bs in
  s < M32 /\ s ==m s0 + w e * sum_be16 bs /\ (s = 0 <-> s0 = 0 /\ sum_be16 bs = 0).
Proof. exact add_slice32_any_start. Qed.
Print Assumptions C09_any_start32.

(* the RFC's "add the carries until it fits" is the closed form used in the spec *)
Theorem C09_fold_is_rfc : forall fuel x, (N.to_nat x < fuel)%nat -> fold_carry fuel x = fold16 x.
Proof. exact fold_carry_fold16. Qed.
Print Assumptions C09_fold_is_rfc.

(* non-vacuity: the RFC 1071 section 3 example, an odd length, a carry out of 64 bits *)
Example C09_ex_rfc : checksum64 LE [P2 0 1; P4 242 3 244 245; PSlice [246; 247]] = 8717
  /\ rfc1071 [0; 1; 242; 3; 244; 245; 246; 247] = 8717.
Proof. split; vm_compute; reflexivity. Qed.
Example C09_ex_hyp : Forall piece_ok [P2 0 1; P4 242 3 244 245; PSlice [246; 247; 9]]
  /\ pieces_aligned [P2 0 1; P4 242 3 244 245; PSlice [246; 247; 9]].
Proof.
  split.
  - repeat (constructor; try (unfold byte_ok; lia)).
  - cbn. repeat split; reflexivity.
Qed.
Example C09_ex_carry : U64.add_slice LE 18446744073709551615 [255; 255; 1] = 65536.
Proof. vm_compute; reflexivity. Qed.

(* ====================================================================== *)
(* PROTOCOL LEVEL: every checksum the crate computes, fills in or validates
   equals the RFC's definition  rfc1071 (pseudo header ++ header with zero
   checksum field ++ payload)  -- Checksum/ProtoSpec.v, written from RFC 791,
   768, 9293, 8200 8.1, 792, 4443, 2236/3376 -- for ALL field values,
   addresses and payloads of any length; the crate's range checks
   (ValueTooBigError) appear on the right-hand sides.                      *)

(* Ipv4Header::calc_header_checksum (options included, checksum field skipped) *)
Theorem C09_ipv4_header : forall e h, ipv4_hdr_ok h ->
  ipv4_calc_header_checksum e h = ipv4_header_checksum_spec h.
Proof. exact ipv4_header_checksum_correct. Qed.
Print Assumptions C09_ipv4_header.

(* UdpHeader::calc_checksum_ipv4(_raw): the pseudo header carries the header's
   Length FIELD (see C09_udp_length_field_note below) *)
Theorem C09_udp_ipv4 : forall e h src dst payload,
  udp_hdr_ok h -> ip4_ok src -> ip4_ok dst -> bytes_ok payload ->
  udp_calc_checksum_ipv4_raw e h src dst payload =
    if 65527 <? len payload then CErrTooBig (len payload) 65527
    else COk (udp4_spec src dst h (u_length h) payload).
Proof. exact udp_ipv4_raw_correct. Qed.
Print Assumptions C09_udp_ipv4.

(* UdpHeader::calc_checksum_ipv6(_raw) *)
Theorem C09_udp_ipv6 : forall e h src dst payload,
  udp_hdr_ok h -> ip6_ok src -> ip6_ok dst -> bytes_ok payload ->
  udp_calc_checksum_ipv6_raw e h src dst payload =
    if 4294967287 <? len payload then CErrTooBig (len payload) 4294967287
    else COk (udp6_spec src dst h (u_length h) payload).
Proof. exact udp_ipv6_raw_correct. Qed.
Print Assumptions C09_udp_ipv6.

(* UdpHeader::with_ipv4_checksum / with_ipv6_checksum: length := 8 + |payload| *)
Theorem C09_udp_with_ipv4 : forall e sport dport src dst payload,
  sport < 65536 -> dport < 65536 -> ip4_ok src -> ip4_ok dst -> bytes_ok payload ->
  udp_with_ipv4_checksum e sport dport src dst payload =
    if 65527 <? len payload then UWErrTooBig (len payload) 65527
    else let h := udp_hdr_for sport dport payload in
         UWOk h (udp4_spec src dst h (8 + len payload) payload).
Proof. exact udp_with_ipv4_correct. Qed.
Print Assumptions C09_udp_with_ipv4.

Theorem C09_udp_with_ipv6 : forall e sport dport src dst payload,
  sport < 65536 -> dport < 65536 -> ip6_ok src -> ip6_ok dst -> bytes_ok payload ->
  udp_with_ipv6_checksum e sport dport src dst payload =
    if 65527 <? len payload then UWErrTooBig (len payload) 65527
    else let h := udp_hdr_for sport dport payload in
         UWOk h (udp6_spec src dst h (8 + len payload) payload).
Proof. exact udp_with_ipv6_correct. Qed.
Print Assumptions C09_udp_with_ipv6.

(* with a length field that describes the payload the pseudo header carries the
   actual datagram length *)
Theorem C09_udp_ipv4_consistent : forall e h src dst payload,
  udp_hdr_ok h -> ip4_ok src -> ip4_ok dst -> bytes_ok payload ->
  u_length h = 8 + len payload ->
  udp_calc_checksum_ipv4_raw e h src dst payload = COk (udp4_spec src dst h (8 + len payload) payload).
Proof. exact udp_ipv4_raw_consistent. Qed.
Print Assumptions C09_udp_ipv4_consistent.

Theorem C09_udp_ipv6_consistent : forall e h src dst payload,
  udp_hdr_ok h -> ip6_ok src -> ip6_ok dst -> bytes_ok payload ->
  u_length h = 8 + len payload ->
  udp_calc_checksum_ipv6_raw e h src dst payload = COk (udp6_spec src dst h (8 + len payload) payload).
Proof. exact udp_ipv6_raw_consistent. Qed.
Print Assumptions C09_udp_ipv6_consistent.

(* OBSERVATION (not hidden): calc_checksum_ipv4/6(_raw) range-check payload.len()
   but put self.length into the pseudo header.  For a header whose length field
   does not describe the payload the result is not the checksum over a pseudo
   header with the actual length 8 + |payload|: witness length = 8, payload = [1] *)
Theorem C09_udp_actual_length_reading_refuted :
  exists h src dst payload,
    udp_hdr_ok h /\ ip4_ok src /\ ip4_ok dst /\ bytes_ok payload /\ len payload <= 65527 /\
    exists v, udp_calc_checksum_ipv4_raw LE h src dst payload = COk v /\
              v <> udp4_spec src dst h (8 + len payload) payload.
Proof. exact udp_actual_length_reading_refuted. Qed.
Print Assumptions C09_udp_actual_length_reading_refuted.

(* a computed UDP checksum is never 0 (0 is replaced by 0xffff: no_zero in the spec) *)
Theorem C09_udp_nonzero : forall e h sport dport src4 dst4 src6 dst6 payload,
  udp_hdr_ok h -> sport < 65536 -> dport < 65536 ->
  ip4_ok src4 -> ip4_ok dst4 -> ip6_ok src6 -> ip6_ok dst6 -> bytes_ok payload ->
  (forall v, udp_calc_checksum_ipv4_raw e h src4 dst4 payload = COk v -> v <> 0) /\
  (forall v, udp_calc_checksum_ipv6_raw e h src6 dst6 payload = COk v -> v <> 0) /\
  (forall h' v, udp_with_ipv4_checksum e sport dport src4 dst4 payload = UWOk h' v -> v <> 0) /\
  (forall h' v, udp_with_ipv6_checksum e sport dport src6 dst6 payload = UWOk h' v -> v <> 0).
Proof. exact udp_nonzero. Qed.
Print Assumptions C09_udp_nonzero.

(* TcpHeader::calc_checksum_ipv4(_raw) / _ipv6(_raw): options included,
   TCP length = header_len + |payload| *)
Theorem C09_tcp_ipv4 : forall e h src dst payload,
  tcp_hdr_ok h -> ip4_ok src -> ip4_ok dst -> bytes_ok payload ->
  tcp_calc_checksum_ipv4_raw e h src dst payload =
    if 65535 - tcp_header_len h <? len payload
    then CErrTooBig (len payload) (65535 - tcp_header_len h)
    else COk (tcp4_spec src dst h payload).
Proof. exact tcp_ipv4_raw_correct. Qed.
Print Assumptions C09_tcp_ipv4.

Theorem C09_tcp_ipv6 : forall e h src dst payload,
  tcp_hdr_ok h -> ip6_ok src -> ip6_ok dst -> bytes_ok payload ->
  tcp_calc_checksum_ipv6_raw e h src dst payload =
    if 4294967295 - tcp_header_len h <? len payload
    then CErrTooBig (len payload) (4294967295 - tcp_header_len h)
    else COk (tcp6_spec src dst h payload).
Proof. exact tcp_ipv6_raw_correct. Qed.
Print Assumptions C09_tcp_ipv6.

(* TcpHeaderSlice::calc_checksum_ipv4(_raw) / _ipv6(_raw): raw header bytes,
   bytes 16..18 skipped; never panics on a slice produced by from_slice *)
Theorem C09_tcp_ipv4_header_slice : forall e hdr src dst payload,
  tcp_hslice_ok hdr -> ip4_ok src -> ip4_ok dst -> bytes_ok payload ->
  tcp_hslice_calc_checksum_ipv4_raw e hdr src dst payload =
    if 65535 - len hdr <? len payload then CErrTooBig (len payload) (65535 - len hdr)
    else COk (tcp4_raw_spec src dst hdr payload).
Proof. exact tcp_hslice_ipv4_correct. Qed.
Print Assumptions C09_tcp_ipv4_header_slice.

Theorem C09_tcp_ipv6_header_slice : forall e hdr src dst payload,
  tcp_hslice_ok hdr -> ip6_ok src -> ip6_ok dst -> bytes_ok payload ->
  tcp_hslice_calc_checksum_ipv6_raw e hdr src dst payload =
    if 4294967295 - len hdr <? len payload then CErrTooBig (len payload) (4294967295 - len hdr)
    else COk (tcp6_raw_spec src dst hdr payload).
Proof. exact tcp_hslice_ipv6_correct. Qed.
Print Assumptions C09_tcp_ipv6_header_slice.

(* the hypothesis tcp_hslice_ok is what TcpHeaderSlice::from_slice establishes *)
Theorem C09_tcp_header_slice_inv : forall bs hdr,
  bytes_ok bs -> tcp_header_slice_from_slice bs = Some hdr ->
  tcp_hslice_ok hdr /\ hdr = take (len hdr) bs.
Proof. exact tcp_header_slice_from_slice_ok. Qed.
Print Assumptions C09_tcp_header_slice_inv.

(* TcpSlice::calc_checksum_ipv4 / _ipv6: header ++ payload in one slice; an
   odd-length payload is the tail of the LAST piece *)
Theorem C09_tcp_ipv4_slice : forall e hdr data src dst,
  bytes_ok hdr -> bytes_ok data -> 20 <= len hdr -> ip4_ok src -> ip4_ok dst ->
  tcp_slice_calc_checksum_ipv4 e (hdr ++ data) src dst =
    if 65535 <? len hdr + len data then CErrTooBig (len hdr + len data) 65535
    else COk (tcp4_raw_spec src dst hdr data).
Proof. exact tcp_slice_ipv4_correct. Qed.
Print Assumptions C09_tcp_ipv4_slice.

Theorem C09_tcp_ipv6_slice : forall e hdr data src dst,
  bytes_ok hdr -> bytes_ok data -> 20 <= len hdr -> ip6_ok src -> ip6_ok dst ->
  tcp_slice_calc_checksum_ipv6 e (hdr ++ data) src dst =
    if 4294967295 <? len hdr + len data then CErrTooBig (len hdr + len data) 4294967295
    else COk (tcp6_raw_spec src dst hdr data).
Proof. exact tcp_slice_ipv6_correct. Qed.
Print Assumptions C09_tcp_ipv6_slice.

(* Icmpv4Type::calc_checksum = Icmpv4Header::with_checksum / update_checksum *)
Theorem C09_icmpv4 : forall e t payload,
  icmp4_ok t -> bytes_ok payload -> icmp4_calc_checksum e t payload = icmp4_spec t payload.
Proof. exact icmp4_correct. Qed.
Print Assumptions C09_icmpv4.

(* Icmpv6Type::calc_checksum = Icmpv6Header::with_checksum / update_checksum:
   pseudo header with the 32 bit message length and next header 58 *)
Theorem C09_icmpv6 : forall e t src dst payload,
  icmp6_ok t -> ip6_ok src -> ip6_ok dst -> bytes_ok payload ->
  icmp6_calc_checksum e t src dst payload =
    if 4294967287 <? len payload then CErrTooBig (len payload) 4294967287
    else COk (icmp6_spec src dst t payload).
Proof. exact icmp6_correct. Qed.
Print Assumptions C09_icmpv6.

(* IgmpHeader::calc_checksum = with_checksum *)
Theorem C09_igmp : forall e t payload,
  igmp_ok t -> bytes_ok payload -> igmp_calc_checksum e t payload = igmp_spec t payload.
Proof. exact igmp_correct. Qed.
Print Assumptions C09_igmp.

(* TransportHeader::update_checksum_ipv4 / _ipv6 store the RFC value *)
Theorem C09_update_checksum_ipv4 : forall e th src dst payload,
  transport_ok th -> ip4_ok src -> ip4_ok dst -> bytes_ok payload ->
  update_checksum_ipv4 e th src dst payload = update4_spec th src dst payload.
Proof. exact update_checksum_ipv4_correct. Qed.
Print Assumptions C09_update_checksum_ipv4.

Theorem C09_update_checksum_ipv6 : forall e th src dst payload,
  transport_ok th -> ip6_ok src -> ip6_ok dst -> bytes_ok payload ->
  update_checksum_ipv6 e th src dst payload = update6_spec th src dst payload.
Proof. exact update_checksum_ipv6_correct. Qed.
Print Assumptions C09_update_checksum_ipv6.

(* Icmpv6Slice::is_checksum_valid does NOT recompute-and-compare: it sums the
   pseudo header and the message as received (stored checksum included) and
   tests ones_complement() == 0.  That is exactly "the complete sum folds to
   0xffff", also in the 0x0000 / 0xffff corner (C09_ex_valid_corner).  The
   bound is the 32 bit length field of the pseudo header; Icmpv6Slice::from_slice
   rejects longer slices, so `slice.len() as u32` never truncates. *)
Theorem C09_valid_iff : forall e slice src dst,
  ip6_ok src -> ip6_ok dst -> bytes_ok slice -> len slice < 4294967296 ->
  icmp6_is_checksum_valid e slice src dst = icmp6_valid_spec src dst slice.
Proof. exact icmp6_valid_iff. Qed.
Print Assumptions C09_valid_iff.

(* what calc_checksum fills in is accepted by the validation *)
Theorem C09_filled_is_valid : forall src dst t payload,
  icmp6_ok t -> ip6_ok src -> ip6_ok dst -> len payload <= 4294967287 ->
  icmp6_valid_spec src dst (icmp6_wire t (icmp6_spec src dst t payload) ++ payload) = true.
Proof. exact icmp6_filled_is_valid. Qed.
Print Assumptions C09_filled_is_valid.

(* ---- non-vacuity: concrete headers satisfy the hypotheses, concrete values -- *)
Definition ex_a4 : ip4 := (192, 168, 1, 42).
Definition ex_b4 : ip4 := (10, 0, 0, 1).
Definition ex_a6 : bytes := [32;1;13;184;0;0;0;0;0;0;0;0;0;0;0;1].
Definition ex_b6 : bytes := [254;128;0;0;0;0;0;0;2;0;0;255;254;0;0;9].
Definition ex_ip : ipv4_hdr := {| v4_dscp := 10; v4_ecn := 1; v4_total_len := 1234; v4_ident := 4660;
  v4_df := true; v4_mf := false; v4_frag_off := 291; v4_ttl := 64; v4_proto := 17;
  v4_src := ex_a4; v4_dst := ex_b4; v4_options := [1;2;3;4] |}.
Definition ex_udp : udp_hdr := {| u_sport := 1234; u_dport := 53; u_length := 11 |}.
Definition ex_tcp : tcp_hdr := {| t_sport := 80; t_dport := 40000; t_seq := 305419896;
  t_ack_no := 2271560481; t_ns := true; t_fin := false; t_syn := true; t_rst := false; t_psh := true;
  t_ack := true; t_urg := false; t_ece := true; t_cwr := false; t_window := 65535; t_urgent := 7;
  t_options := [2;4;5;180] |}.
Definition ex_tcp_raw : bytes :=
  [0;80;156;64;18;52;86;120;135;101;67;33;97;90;255;255;171;205;0;7;2;4;5;180].

Ltac ex_ok := repeat first [ split | apply Forall_cons | apply Forall_nil | exact I | reflexivity
                           | (unfold byte_ok; lia) | lia
                           | (vm_compute; reflexivity) | (vm_compute; discriminate) ].

Example C09_ex_hyps :
  ipv4_hdr_ok ex_ip /\ udp_hdr_ok ex_udp /\ tcp_hdr_ok ex_tcp /\ tcp_hslice_ok ex_tcp_raw /\
  ip4_ok ex_a4 /\ ip4_ok ex_b4 /\ ip6_ok ex_a6 /\ ip6_ok ex_b6 /\
  icmp4_ok (I4TimestampRequest 1 2 305419896 2271560481 4294967295) /\
  icmp6_ok (I6RouterAdvertisement 64 true false 1800) /\
  igmp_ok (GQueryWithSources 100 (224, 0, 0, 1) 10 125 1) /\
  transport_ok (THTcp ex_tcp) /\ u_length ex_udp = 8 + len [1; 2; 3].
Proof.
  unfold ipv4_hdr_ok, udp_hdr_ok, tcp_hdr_ok, tcp_hslice_ok, ip4_ok, ip6_ok, bytes_ok, ex_ip, ex_udp,
    ex_tcp, ex_tcp_raw, ex_a4, ex_b4, ex_a6, ex_b6; cbn.
  ex_ok.
Qed.

Example C09_ex_values :
  ipv4_calc_header_checksum LE ex_ip = 20930 /\
  udp_calc_checksum_ipv4_raw LE ex_udp ex_a4 ex_b4 [1; 2; 3] = COk 11004 /\
  udp_calc_checksum_ipv6_raw LE ex_udp ex_a6 ex_b6 [1; 2; 3] = COk 51595 /\
  udp_with_ipv4_checksum LE 1234 53 ex_a4 ex_b4 [1; 2; 3] = UWOk ex_udp 11004 /\
  tcp_calc_checksum_ipv4_raw LE ex_tcp ex_a4 ex_b4 [1; 2; 3] = COk 63275 /\
  tcp_calc_checksum_ipv6_raw LE ex_tcp ex_a6 ex_b6 [1; 2; 3] = COk 38331 /\
  tcp_header_slice_from_slice (ex_tcp_raw ++ [1; 2; 3]) = Some ex_tcp_raw /\
  tcp_hslice_calc_checksum_ipv4_raw LE ex_tcp_raw ex_a4 ex_b4 [1; 2; 3] = COk 63275 /\
  tcp_hslice_calc_checksum_ipv6_raw LE ex_tcp_raw ex_a6 ex_b6 [1; 2; 3] = COk 38331 /\
  tcp_slice_calc_checksum_ipv4 LE (ex_tcp_raw ++ [1; 2; 3]) ex_a4 ex_b4 = COk 63275 /\
  tcp_slice_calc_checksum_ipv6 LE (ex_tcp_raw ++ [1; 2; 3]) ex_a6 ex_b6 = COk 38331 /\
  icmp4_calc_checksum LE (I4TimestampRequest 1 2 305419896 2271560481 4294967295) [] = 49097 /\
  icmp4_calc_checksum LE (I4EchoRequest 4660 1) [104; 105; 33] = 23649 /\
  icmp6_calc_checksum LE (I6EchoRequest 4660 1) ex_a6 ex_b6 [104; 105; 33] = COk 46807 /\
  icmp6_calc_checksum LE (I6RouterAdvertisement 64 true false 1800) ex_a6 ex_b6 [1;1;0;1;2;3;4;5] = COk 64990 /\
  igmp_calc_checksum LE (GQueryWithSources 100 (224, 0, 0, 1) 10 125 1) [10; 0; 0; 7] = 64020 /\
  update_checksum_ipv4 LE (THTcp ex_tcp) ex_a4 ex_b4 [1; 2; 3] = UpdOk 63275 /\
  update_checksum_ipv4 LE (THIcmp6 I6Redirect) ex_a4 ex_b4 [] = UpdErrIcmpv6InIpv4.
Proof. vm_compute. repeat split; reflexivity. Qed.

(* the error side of the range checks is reachable with small headers only
   through the length: shown on the model with an abstract payload length is
   not computable, so the examples use the slice variant with 65536 bytes *)
Example C09_ex_too_big :
  tcp_slice_calc_checksum_ipv4 LE (ex_tcp_raw ++ repeat 0 65512) ex_a4 ex_b4 = CErrTooBig 65536 65535.
Proof. vm_compute. reflexivity. Qed.

(* validation: the echo request carrying the computed checksum 46807 = 0xb6d7
   is accepted, a corrupted one is rejected *)
Example C09_ex_valid :
  icmp6_is_checksum_valid LE [128;0;182;215;18;52;0;1;104;105;33] ex_a6 ex_b6 = true /\
  icmp6_is_checksum_valid LE [128;0;182;214;18;52;0;1;104;105;33] ex_a6 ex_b6 = false.
Proof. vm_compute. split; reflexivity. Qed.

(* the 0x0000 / 0xffff corner: with all-zero addresses the message
   [0xff 0xbd 0 0 0 0 0 0] (sum of everything else = 0xffff) has the computed
   checksum 0x0000; it is accepted with the field 0x0000 AND with 0xffff (both
   complete sums fold to 0xffff: +0 / -0 of one's complement arithmetic) *)
Example C09_ex_valid_corner :
  let z := repeat 0 16 in
  icmp6_calc_checksum LE (I6Unknown 255 189 0 0 0 0) z z [] = COk 0 /\
  icmp6_is_checksum_valid LE [255;189;0;0;0;0;0;0] z z = true /\
  icmp6_is_checksum_valid LE [255;189;255;255;0;0;0;0] z z = true /\
  icmp6_valid_spec z z [255;189;255;255;0;0;0;0] = true.
Proof. vm_compute. repeat split; reflexivity. Qed.

(* ==== round3 smalls begin ==== *)
(* Round 3 (audit clause d): "for all accumulator states, including carries out of 32/64 bits" for
   EVERY helper call and for the final fold -- C09_any_start64/32 above is about one add_slice
   call only.  Lemmas: Checksum/AnyStart.v (compositions of Checksum/Proofs.v; no new model). *)
From EP Require Import Checksum.AnyStart.

(* any sequence of add_2bytes / add_4bytes / add_8bytes / add_16bytes / add_slice calls (all pieces
   but the last of even length) from ANY accumulator value: the accumulator type is not
   overflowed (the end-around carry of `sum + carry` included), the result is congruent mod 65535
   to start + word sum, and it is 0 only for a zero start and all-zero words *)
Theorem C09_pieces_any_start64 : forall e s0 ps,
  s0 < M64 -> Forall piece_ok ps -> pieces_aligned ps ->
  let s := sum_pieces64 e s0 ps in
  s < M64 /\ s ==m s0 + w e * sum_be16 (pieces_bytes ps) /\
  (s = 0 <-> s0 = 0 /\ sum_be16 (pieces_bytes ps) = 0).
Proof. exact pieces_any_start64. Qed.
Print Assumptions C09_pieces_any_start64.

Theorem C09_pieces_any_start32 : forall e s0 ps,
  s0 < M32 -> Forall piece_ok ps -> pieces_aligned ps ->
  let s := sum_pieces32 e s0 ps in
  s < M32 /\ s ==m s0 + w e * sum_be16 (pieces_bytes ps) /\
  (s = 0 <-> s0 = 0 /\ sum_be16 (pieces_bytes ps) = 0).
Proof. exact pieces_any_start32. Qed.
Print Assumptions C09_pieces_any_start32.

(* ones_complement / ones_complement_with_no_zero of ANY accumulator value: the complement of the
   RFC fold (closed form fold16: 0 stays 0, everything else goes to its representative in
   1..65535); the third conjunct is the same fact in the vocabulary of C09_any_start *)
Theorem C09_fold_any64 : forall s, s < M64 ->
  U64.ones_complement s = 65535 - fold16 s /\
  U64.ones_complement_with_no_zero s = (if fold16 s =? 65535 then 65535 else 65535 - fold16 s) /\
  (exists u, U64.ones_complement s = 65535 - u /\ u <= 65535 /\ u ==m s /\ (u = 0 <-> s = 0)).
Proof. exact fold_any64. Qed.
Print Assumptions C09_fold_any64.

Theorem C09_fold_any32 : forall s, s < M32 ->
  U32.ones_complement s = 65535 - fold16 s /\
  U32.ones_complement_with_no_zero s = (if fold16 s =? 65535 then 65535 else 65535 - fold16 s) /\
  (exists u, U32.ones_complement s = 65535 - u /\ u <= 65535 /\ u ==m s /\ (u = 0 <-> s = 0)).
Proof. exact fold_any32. Qed.
Print Assumptions C09_fold_any32.

(* both together, as an equation: the big-endian checksum obtained from ANY start value s0 is the
   RFC complement-of-fold of (s0, byte swapped on a little-endian host: w LE = 256, w BE = 1)
   + (big-endian word sum of the bytes); s0 = 0 is C09_pieces64/32 *)
Theorem C09_checksum_any_start64 : forall e s0 ps,
  s0 < M64 -> Forall piece_ok ps -> pieces_aligned ps ->
  to_be16v e (U64.ones_complement (sum_pieces64 e s0 ps))
    = 65535 - fold16 (w e * s0 + sum_be16 (pieces_bytes ps)).
Proof. exact checksum_any_start64. Qed.
Print Assumptions C09_checksum_any_start64.

Theorem C09_checksum_any_start32 : forall e s0 ps,
  s0 < M32 -> Forall piece_ok ps -> pieces_aligned ps ->
  to_be16v e (U32.ones_complement (sum_pieces32 e s0 ps))
    = 65535 - fold16 (w e * s0 + sum_be16 (pieces_bytes ps)).
Proof. exact checksum_any_start32. Qed.
Print Assumptions C09_checksum_any_start32.

(* non-vacuity: start values at the top of the accumulator range, so that the first add carries
   out of 64 / 32 bits; mixed pieces (hypotheses: C09_ex_hyp above) *)
Example C09_ex_pieces_any_start :
  18446744073709551615 < M64 /\ 4294967295 < M32 /\
  sum_pieces64 LE 18446744073709551615 [P2 0 1; P4 242 3 244 245; PSlice [246; 247; 9]] = 4126473457 /\
  sum_pieces32 LE 4294967295 [P2 0 1; P4 242 3 244 245; PSlice [246; 247; 9]] = 4126473457 /\
  to_be16v LE (U64.ones_complement (sum_pieces64 LE 18446744073709551615 [P2 0 1; P4 242 3 244 245; PSlice [246; 247; 9]]))
    = 65535 - fold16 (256 * 18446744073709551615 + sum_be16 [0; 1; 242; 3; 244; 245; 246; 247; 9]) /\
  65535 - fold16 (256 * 18446744073709551615 + sum_be16 [0; 1; 242; 3; 244; 245; 246; 247; 9]) = 6413 /\
  U64.ones_complement 18446744073709551615 = 0 /\ U64.ones_complement_with_no_zero 18446744073709551615 = 65535 /\
  U32.ones_complement 4294901761 = 65534.
Proof. repeat split; vm_compute; reflexivity. Qed.
(* ==== round3 smalls end ==== *)
