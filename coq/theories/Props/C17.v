(* Props/C17.v -- property C17: typed control-message views (ICMPv4, ICMPv6,
   NDP payloads and options, IGMP, ARP Ethernet/IPv4) follow their formats.
   Only statements; every proof is `exact <lemma>`.  Left sides: the model of
   the Rust code (CtlMsg/Model.v); right sides: the RFC tables (CtlMsg/Spec.v).
   All statements hold for every list of numbers (not only octets) unless a
   hypothesis says otherwise; the specifications never contain `UB`, so every
   equation also says that no unchecked read / unwrap / index of the modelled
   code is reachable out of bounds. *)
From EP Require Parse.ConstsAllOk.   (* every numeric `pub const` of the crate, regenerated from the source on every run, has its RFC / IANA value *)
From EP Require Import Base.Bytes CtlMsg.Spec CtlMsg.Model CtlMsg.Proofs.
Local Open Scope N_scope.

(* ---- ICMPv4: Icmpv4Slice::from_slice + icmp_type() + header_len() + payload() ---- *)
Theorem C17_icmp4 : forall bs, Icmpv4Slice.view bs = icmp4 bs.
Proof. exact icmp4_eq. Qed.
Print Assumptions C17_icmp4.

Theorem C17_icmp4_short : forall bs, len bs < 8 ->
  Icmpv4Slice.view bs = ErrLen (mkLenError 8 (len bs) LsSlice LIcmpv4 0).
Proof. exact icmp4_short. Qed.
Print Assumptions C17_icmp4_short.

(* every (type, code) outside the tables: raw form with type, code, octets 4..8 *)
Theorem C17_icmp4_unassigned : forall bs, 8 <= len bs ->
  lookup (byte_at bs 0) (byte_at bs 1) icmp4_fixed_table = None ->
  lookup (byte_at bs 0) (byte_at bs 1) icmp4_table = None ->
  Icmpv4Slice.view bs =
    Ok (V4Unknown (byte_at bs 0) (byte_at bs 1) (byte_at bs 4) (byte_at bs 5) (byte_at bs 6) (byte_at bs 7),
        8, drop 8 bs).
Proof. exact icmp4_unassigned. Qed.
Print Assumptions C17_icmp4_unassigned.

(* timestamp / timestamp reply: accepted iff exactly 20 octets *)
Theorem C17_icmp4_timestamp_exact : forall bs, 8 <= len bs ->
  (byte_at bs 0 = 13 \/ byte_at bs 0 = 14) -> byte_at bs 1 = 0 ->
  ((exists v, Icmpv4Slice.view bs = Ok v) <-> len bs = 20).
Proof. exact icmp4_timestamp_exact. Qed.
Print Assumptions C17_icmp4_timestamp_exact.

(* RFC-assigned types without a typed view in the crate (4, 6, 9, 10, 15, 16, 17, 18) are not in the
   typed tables.  This is a statement about the SPECIFICATION tables only (no model term): together
   with C17_icmp4_unassigned it gives the statement about the model, which is stated on its own as
   C17_icmp4_untyped_raw_model at the end of this file. *)
Theorem C17_icmp4_untyped_raw : forall t c, In t icmp4_untyped_assigned ->
  lookup t c icmp4_table = None /\ lookup t c icmp4_fixed_table = None.
Proof. exact icmp4_untyped_raw. Qed.
Print Assumptions C17_icmp4_untyped_raw.

(* ---- ICMPv6: Icmpv6Slice::from_slice + icmp_type() + payload() ---- *)
Theorem C17_icmp6 : forall bs, Icmpv6Slice.view bs = icmp6 bs.
Proof. exact icmp6_eq. Qed.
Print Assumptions C17_icmp6.

Theorem C17_icmp6_short : forall bs, len bs < 8 ->
  Icmpv6Slice.view bs = ErrLen (mkLenError 8 (len bs) LsSlice LIcmpv6 0).
Proof. exact icmp6_short. Qed.
Print Assumptions C17_icmp6_short.

Theorem C17_icmp6_unassigned : forall bs, 8 <= len bs -> len bs <= MAX_ICMPV6_BYTE_LEN ->
  lookup (byte_at bs 0) (byte_at bs 1) icmp6_table = None ->
  Icmpv6Slice.view bs =
    Ok (V6Unknown (byte_at bs 0) (byte_at bs 1) (byte_at bs 4) (byte_at bs 5) (byte_at bs 6) (byte_at bs 7),
        drop 8 bs).
Proof. exact icmp6_unassigned. Qed.
Print Assumptions C17_icmp6_unassigned.

(* ---- NDP payloads: Icmpv6Slice::payload_slice() and every accessor ---- *)
Theorem C17_ndp_payload : forall bs, Icmpv6PayloadSlice.payload_slice_view bs = icmp6_payload bs.
Proof. exact payload_eq. Qed.
Print Assumptions C17_ndp_payload.

(* the second route, Icmpv6PayloadSlice::from_slice(&icmp_type, payload), agrees *)
Theorem C17_ndp_payload_by_type : forall bs,
  Icmpv6PayloadSlice.payload_slice_view_by_type bs = icmp6_payload bs.
Proof. exact payload_by_type_eq. Qed.
Print Assumptions C17_ndp_payload_by_type.

(* fixed / variable split: fixed part 0/8/16/16/32 octets after the 8-octet header *)
Theorem C17_ndp_payload_split : forall bs ty p, icmp6 bs = Ok (ty, p) ->
  p = drop 8 bs /\
  (ndp_fixed_len (payload_kind_of ty) <= len p ->
   Icmpv6PayloadSlice.payload_slice_view bs = Ok (ndp_payload_view (payload_kind_of ty) p)) /\
  (len p < ndp_fixed_len (payload_kind_of ty) ->
   Icmpv6PayloadSlice.payload_slice_view bs =
     ErrLen (mkLenError (ndp_fixed_len (payload_kind_of ty)) (len p) LsSlice LIcmpv6 0)).
Proof. exact ndp_payload_split. Qed.
Print Assumptions C17_ndp_payload_split.

(* ---- NDP options iterator ---- *)
(* running the iterator to exhaustion never runs out of fuel, yields exactly the
   declarative item sequence; the accepted options tile the area (their
   concatenation followed by the rejected rest is the area), the rest is empty
   or rejected with the documented error as last item; every accepted option
   has the RFC shape and its accessors return the fields at the RFC offsets;
   at most len/8 options *)
Theorem C17_ndp_options : forall area,
  exists items,
    Ndp.collect (S (length area)) area = Some items /\
    items = parse_opts (length area) area /\
    opts_tile area items /\
    (exists rest, area = ok_bytes items ++ rest /\
       ((rest = [] /\ Forall is_ok items) \/
        (rest <> [] /\ opt_reject rest = true /\
         exists oks, items = oks ++ [IErr (opt_error rest)] /\ Forall is_ok oks))) /\
    Forall (fun i => match i with IOk k s => opt_shape_ok k s /\ Ndp.opt_accessors k s = Ok (opt_view k s)
                     | IErr _ => True | IUB _ => False end) items /\
    ok_count items <= len area / 8.
Proof. exact ndp_options_full. Qed.
Print Assumptions C17_ndp_options.

(* accept/reject is decided exactly by opts_tile: any sequence satisfying the
   relation is the one the iterator yields *)
Theorem C17_ndp_options_unique : forall area items,
  opts_tile area items -> Ndp.collect (S (length area)) area = Some items.
Proof. exact ndp_options_unique. Qed.
Print Assumptions C17_ndp_options_unique.

(* reject <-> fewer than 2 octets, zero length units, length*8 beyond the rest,
   or a size different from the type's fixed size *)
Theorem C17_ndp_reject_iff : forall r, r <> [] ->
  (opt_reject r = true <->
   len r < 2 \/ byte_at r 1 = 0 \/ len r < byte_at r 1 * 8 \/
   exists u, opt_fixed_units (byte_at r 0) = Some u /\ byte_at r 1 <> u).
Proof. exact opt_reject_iff. Qed.
Print Assumptions C17_ndp_reject_iff.

(* one step: an accepted option is a prefix of the state, the new state is the
   rest; after an error the iterator is exhausted *)
Theorem C17_ndp_next_ok : forall r k s r', Ndp.next r = Some (IOk k s, r') -> r = s ++ r' /\ 8 <= len s.
Proof. exact next_ok_prefix. Qed.
Print Assumptions C17_ndp_next_ok.

Theorem C17_ndp_next_err_exhausted : forall r e r',
  Ndp.next r = Some (IErr e, r') -> r' = [] /\ Ndp.next r' = None.
Proof. exact next_err_exhausted. Qed.
Print Assumptions C17_ndp_next_err_exhausted.

Theorem C17_ndp_option_fields : forall k s, opt_shape_ok k s ->
  Ndp.opt_accessors k s = Ok (opt_view k s).
Proof. exact opt_accessors_spec. Qed.
Print Assumptions C17_ndp_option_fields.

(* ---- IGMP ---- *)
Theorem C17_igmp : forall bs, Igmp.view bs = igmp bs.
Proof. exact igmp_eq. Qed.
Print Assumptions C17_igmp.

Theorem C17_igmp_group_record : forall bs, Igmp.group_record_from_slice bs = group_record bs.
Proof. exact group_record_eq. Qed.
Print Assumptions C17_igmp_group_record.

(* derived octet fields: max resp code / QQIC floating point, Resv / S / QRV (all 256 values) *)
Theorem C17_igmp_byte_fields : forall c, c < 256 ->
  Igmp.as_10th_secs c = max_resp_time c /\ Igmp.flags c = query_flags c /\
  Igmp.s_flag c = query_s_flag c /\ Igmp.qrv c = query_qrv c.
Proof. exact igmp_byte_fields. Qed.
Print Assumptions C17_igmp_byte_fields.

(* ---- ARP ---- *)
Theorem C17_arp_view : forall bs, Arp.slice_view bs = arp_view bs.
Proof. exact arp_view_eq. Qed.
Print Assumptions C17_arp_view.

Theorem C17_arp_eth_ipv4 : forall bs, bytes_ok bs -> Arp.eth_ipv4_view bs = arp_eth_ipv4 bs.
Proof. exact arp_eth_ipv4_eq. Qed.
Print Assumptions C17_arp_eth_ipv4.

(* ---- non-vacuity ---- *)
(* ICMPv4: fragmentation needed with next-hop MTU 1500; code 16 is unassigned; a
   timestamp of 20 octets and one of 21 octets; source quench stays raw *)
Example C17_ex_icmp4_frag :
  icmp4 [3; 4; 0; 0; 0; 0; 5; 220; 69; 0] = Ok (V4DestinationUnreachable (DuFragmentationNeeded 1500), 8, [69; 0])
  /\ Icmpv4Slice.view [3; 4; 0; 0; 0; 0; 5; 220; 69; 0] = icmp4 [3; 4; 0; 0; 0; 0; 5; 220; 69; 0].
Proof. split; vm_compute; reflexivity. Qed.
Example C17_ex_icmp4_unassigned_code :
  icmp4 [3; 16; 0; 0; 1; 2; 3; 4] = Ok (V4Unknown 3 16 1 2 3 4, 8, []).
Proof. vm_compute; reflexivity. Qed.
Example C17_ex_icmp4_timestamp :
  icmp4 [13; 0; 0; 0; 0; 1; 0; 2; 0; 0; 0; 3; 0; 0; 0; 4; 0; 0; 1; 0]
    = Ok (V4TimestampRequest (mkTimestamp 1 2 3 4 256), 20, [])
  /\ icmp4 [13; 0; 0; 0; 0; 1; 0; 2; 0; 0; 0; 3; 0; 0; 0; 4; 0; 0; 1; 0; 9]
    = ErrLen (mkLenError 20 21 LsSlice LIcmpv4Timestamp 0)
  /\ icmp4 [4; 0; 0; 0; 0; 0; 0; 0] = Ok (V4Unknown 4 0 0 0 0 0, 8, []).
Proof. repeat split; vm_compute; reflexivity. Qed.
Example C17_ex_icmp4_hyp : 8 <= len [3; 16; 0; 0; 1; 2; 3; 4]
  /\ lookup 3 16 icmp4_fixed_table = None /\ lookup 3 16 icmp4_table = None
  /\ In 4 icmp4_untyped_assigned.
Proof.
  split; [vm_compute; discriminate|].
  split; [reflexivity|]. split; [reflexivity|]. cbn. tauto.
Qed.
(* ICMPv6: router advertisement with M set, O clear; destination unreachable code 7 is raw *)
Example C17_ex_icmp6 :
  icmp6 [134; 0; 0; 0; 64; 128; 7; 8] = Ok (V6RouterAdvertisement 64 true false 1800, [])
  /\ icmp6 [1; 7; 0; 0; 1; 2; 3; 4; 5] = Ok (V6Unknown 1 7 1 2 3 4, [5])
  /\ Icmpv6Slice.view [136; 0; 0; 0; 96; 0; 0; 0] = Ok (V6NeighborAdvertisement false true true, []).
Proof. repeat split; vm_compute; reflexivity. Qed.
(* NDP payload: a neighbour solicitation with 16 target octets and an 8-octet option; a short one *)
Example C17_ex_ndp_payload :
  icmp6_payload ([135; 0; 0; 0; 0; 0; 0; 0] ++ [254; 128; 0; 0; 0; 0; 0; 0; 0; 0; 0; 0; 0; 0; 0; 1] ++ [1; 1; 2; 3; 4; 5; 6; 7])
    = Ok (PvNeighborSolicitation [254; 128; 0; 0; 0; 0; 0; 0; 0; 0; 0; 0; 0; 0; 0; 1] [1; 1; 2; 3; 4; 5; 6; 7])
  /\ icmp6_payload [135; 0; 0; 0; 0; 0; 0; 0; 1; 2; 3] = ErrLen (mkLenError 16 3 LsSlice LIcmpv6 0).
Proof. split; vm_compute; reflexivity. Qed.
(* NDP options: SLLA (8) + MTU (8) + a prefix option with length 3 (rejected: fixed size 4) *)
Example C17_ex_ndp_options :
  Ndp.collect 41 ([1; 1; 2; 3; 4; 5; 6; 7] ++ [5; 1; 0; 0; 0; 0; 5; 220] ++ [3; 3; 0; 0; 0; 0; 0; 0; 0; 0; 0; 0; 0; 0; 0; 0; 0; 0; 0; 0; 0; 0; 0; 0])
    = Some [IOk KSrcLL [1; 1; 2; 3; 4; 5; 6; 7]; IOk KMtu [5; 1; 0; 0; 0; 0; 5; 220];
            IErr (UnexpectedSize 3 32 24)]
  /\ Ndp.opt_accessors KMtu [5; 1; 0; 0; 0; 0; 5; 220] = Ok (OvMtu 1500)
  /\ Ndp.collect 9 [7; 0; 0; 0; 0; 0; 0; 0] = Some [IErr (ZeroLength 7)]
  /\ Ndp.collect 9 [7; 2; 0; 0; 0; 0; 0; 0] = Some [IErr (UnexpectedEndOfSlice 7 16 8)].
Proof. repeat split; vm_compute; reflexivity. Qed.
Example C17_ex_ndp_shape : opt_shape_ok KMtu [5; 1; 0; 0; 0; 0; 5; 220].
Proof.
  exists 5, 1, [0; 0; 0; 0; 5; 220]. repeat split; try reflexivity; try discriminate.
  intros u H. inversion H. reflexivity.
Qed.
(* IGMP: v2 query (8 octets), 10 octets rejected, v3 query (12 octets), v3 report *)
Example C17_ex_igmp :
  igmp [17; 100; 0; 0; 224; 0; 0; 1] = Ok (IgMembershipQuery 100 224 0 0 1, 0, 8, [])
  /\ igmp [17; 100; 0; 0; 224; 0; 0; 1; 0; 0] = ErrLen (mkLenError 12 10 LsSlice LIgmp 0)
  /\ igmp [17; 100; 0; 0; 224; 0; 0; 1; 2; 125; 0; 1; 10; 0; 0; 1]
       = Ok (IgMembershipQueryWithSources 100 224 0 0 1 2 125 1, 0, 12, [10; 0; 0; 1])
  /\ igmp [34; 0; 0; 0; 0; 0; 0; 2] = Ok (IgMembershipReportV3 0 0 2, 0, 8, [])
  /\ igmp [33; 9; 0; 0; 1; 2; 3; 4] = Ok (IgUnknown 33 9 1 2 3 4, 0, 8, [])
  /\ max_resp_time 200 = 3072.
Proof. repeat split; vm_compute; reflexivity. Qed.
(* ARP: an Ethernet/IPv4 request; the same with hardware address size 5 *)
Example C17_ex_arp :
  arp_eth_ipv4 [0; 1; 8; 0; 6; 4; 0; 1; 1; 2; 3; 4; 5; 6; 10; 0; 0; 1; 0; 0; 0; 0; 0; 0; 10; 0; 0; 2]
    = ArpOk (mkArpEthIpv4 1 [1; 2; 3; 4; 5; 6] [10; 0; 0; 1] [0; 0; 0; 0; 0; 0] [10; 0; 0; 2])
  /\ arp_eth_ipv4 [0; 1; 8; 0; 5; 4; 0; 1; 1; 2; 3; 4; 5; 10; 0; 0; 1; 0; 0; 0; 0; 0; 10; 0; 0; 2]
    = ArpFromErr (NonMatchingHwAddrSize 5)
  /\ bytes_ok [0; 1; 8; 0; 6; 4; 0; 1; 1; 2; 3; 4; 5; 6; 10; 0; 0; 1; 0; 0; 0; 0; 0; 0; 10; 0; 0; 2].
Proof.
  repeat split; try (vm_compute; reflexivity).
  apply bytes_okb_spec. vm_compute. reflexivity.
Qed.

(* ---- audit1-c17 ---- *)
(* Audit round 1 follow-up.
   (1) The typed NDP option slices constructed DIRECTLY from arbitrary bytes (not through the
   iterator, where option id and length always fit): SourceLinkLayerAddressOptionSlice /
   TargetLinkLayerAddressOptionSlice / PrefixInformationOptionSlice (= length check +
   PrefixInformation::from_bytes, the checks of the owned PrefixInformation::from_slice) /
   RedirectedHeaderOptionSlice / MtuOptionSlice / UnknownNdpOptionSlice ::from_slice.  For every
   byte string each constructor equals the closed form below: which check fails first, the exact
   `UnexpectedSize` / `UnexpectedHeader` / `ZeroLength` record (fields at the RFC 4861 4.6 offsets:
   Type = octet 0, Length = octet 1 in units of 8 octets; the error records are crate API), accept
   iff the option has the RFC shape; never an out-of-range unwrap / index (no NUB).
   (2) C17_icmp4_untyped_raw above is a statement about the specification tables only;
   C17_icmp4_untyped_raw_model is the statement about the model. *)
From EP Require Import CtlMsg.NdpOptCtors.

(* Source (expected = 1) / Target (expected = 2) link-layer address option *)
Theorem C17_ndp_ctor_link_layer : forall expected s,
  Ndp.link_layer_from_slice expected s =
    if len s <? 2 then Ndp.NErr (UnexpectedSize (byte_at s 0) 2 (len s))
    else if negb (byte_at s 0 =? expected) then
      Ndp.NErr (UnexpectedHeader expected (byte_at s 0) (byte_at s 1) (byte_at s 1))
    else if byte_at s 1 =? 0 then Ndp.NErr (ZeroLength (byte_at s 0))
    else if negb (byte_at s 1 * 8 =? len s) then
      Ndp.NErr (UnexpectedSize (byte_at s 0) (byte_at s 1 * 8) (len s))
    else Ndp.NOk s.
Proof. exact link_layer_ctor_eq. Qed.
Print Assumptions C17_ndp_ctor_link_layer.

(* Prefix information: exactly 32 octets, then Type 3 and Length 4 *)
Theorem C17_ndp_ctor_prefix : forall s,
  Ndp.prefix_information_from_slice s =
    if negb (len s =? 32) then Ndp.NErr (UnexpectedSize 3 32 (len s))
    else if (byte_at s 0 =? 3) && (byte_at s 1 =? 4) then Ndp.NOk s
    else Ndp.NErr (UnexpectedHeader 3 (byte_at s 0) 4 (byte_at s 1)).
Proof. exact prefix_ctor_eq. Qed.
Print Assumptions C17_ndp_ctor_prefix.

(* Redirected header: at least the 8 fixed octets, Type 4, Length <> 0, Length * 8 = size *)
Theorem C17_ndp_ctor_redirected : forall s,
  Ndp.redirected_header_from_slice s =
    if len s <? 8 then Ndp.NErr (UnexpectedSize 4 8 (len s))
    else if negb (byte_at s 0 =? 4) then
      Ndp.NErr (UnexpectedHeader 4 (byte_at s 0) (byte_at s 1) (byte_at s 1))
    else if byte_at s 1 =? 0 then Ndp.NErr (ZeroLength (byte_at s 0))
    else if negb (byte_at s 1 * 8 =? len s) then
      Ndp.NErr (UnexpectedSize (byte_at s 0) (byte_at s 1 * 8) (len s))
    else Ndp.NOk s.
Proof. exact redirected_ctor_eq. Qed.
Print Assumptions C17_ndp_ctor_redirected.

(* MTU: exactly 8 octets, then Type 5 and Length 1 *)
Theorem C17_ndp_ctor_mtu : forall s,
  Ndp.mtu_from_slice s =
    if negb (len s =? 8) then Ndp.NErr (UnexpectedSize 5 8 (len s))
    else if (byte_at s 0 =? 5) && (byte_at s 1 =? 1) then Ndp.NOk s
    else Ndp.NErr (UnexpectedHeader 5 (byte_at s 0) 1 (byte_at s 1)).
Proof. exact mtu_ctor_eq. Qed.
Print Assumptions C17_ndp_ctor_mtu.

(* Unknown option slice: the generic rule only, the type octet is not looked at *)
Theorem C17_ndp_ctor_unknown : forall s,
  Ndp.unknown_from_slice s =
    if len s <? 2 then Ndp.NErr (UnexpectedSize (byte_at s 0) 2 (len s))
    else if byte_at s 1 =? 0 then Ndp.NErr (ZeroLength (byte_at s 0))
    else if negb (byte_at s 1 * 8 =? len s) then
      Ndp.NErr (UnexpectedSize (byte_at s 0) (byte_at s 1 * 8) (len s))
    else Ndp.NOk s.
Proof. exact unknown_ctor_eq. Qed.
Print Assumptions C17_ndp_ctor_unknown.

(* acceptance, all six constructors (typed_ctor k = the constructor of kind k): exactly the
   options with at least Type and Length, the constructor's Type, Length <> 0, size Length * 8
   and -- for the typed kinds -- the fixed Length of the type (3: 4, 5: 1) *)
Theorem C17_ndp_ctor_accept_iff : forall k s,
  (exists r, typed_ctor k s = Ndp.NOk r) <->
  exists ty lu tl, s = ty :: lu :: tl /\ kind_type_ok k ty /\ lu <> 0 /\ len s = lu * 8 /\
    (k <> KUnknownOpt -> forall u, opt_fixed_units ty = Some u -> lu = u).
Proof. exact typed_ctor_accept_iff. Qed.
Print Assumptions C17_ndp_ctor_accept_iff.
Check (eq_refl : typed_ctor =
  fun k s => match k with
             | KSrcLL => Ndp.link_layer_from_slice 1 s
             | KTgtLL => Ndp.link_layer_from_slice 2 s
             | KPrefix => Ndp.prefix_information_from_slice s
             | KRedir => Ndp.redirected_header_from_slice s
             | KMtu => Ndp.mtu_from_slice s
             | KUnknownOpt => Ndp.unknown_from_slice s
             end).
Check (eq_refl : kind_type_ok =
  fun k ty => match k with
              | KSrcLL => ty = 1 | KTgtLL => ty = 2 | KPrefix => ty = 3 | KRedir => ty = 4
              | KMtu => ty = 5 | KUnknownOpt => True
              end).

(* an accepted slice is the input; for the five typed kinds it has the option shape of the
   specification and its accessors return the RFC fields *)
Theorem C17_ndp_ctor_ok : forall k s r, typed_ctor k s = Ndp.NOk r ->
  r = s /\ (k <> KUnknownOpt -> opt_shape_ok k s /\ Ndp.opt_accessors k s = Ok (opt_view k s)).
Proof. exact typed_ctor_ok. Qed.
Print Assumptions C17_ndp_ctor_ok.

Theorem C17_ndp_ctor_no_ub : forall k s n, typed_ctor k s <> Ndp.NUB n.
Proof. exact typed_ctor_no_ub. Qed.
Print Assumptions C17_ndp_ctor_no_ub.

(* the model hands every message of an RFC-assigned type without a typed view (4, 6, 9, 10, 15,
   16, 17, 18), with any code, out in the raw form with header length 8 *)
Theorem C17_icmp4_untyped_raw_model : forall bs, 8 <= len bs ->
  In (byte_at bs 0) icmp4_untyped_assigned ->
  Icmpv4Slice.view bs =
    Ok (V4Unknown (byte_at bs 0) (byte_at bs 1) (byte_at bs 4) (byte_at bs 5) (byte_at bs 6) (byte_at bs 7),
        8, drop 8 bs).
Proof. exact icmp4_untyped_raw_model. Qed.
Print Assumptions C17_icmp4_untyped_raw_model.
Check (eq_refl : icmp4_untyped_assigned = [4; 6; 9; 10; 15; 16; 17; 18]).

(* non-vacuity: a prefix option read as MTU / with a wrong Length / one octet short; an MTU option
   with Type 3; a link-layer option of the other kind; redirected header shorter than 8 *)
Example C17_ex_ndp_ctors :
  let pfx := [3; 4; 64; 192; 0; 0; 0; 1; 0; 0; 0; 2; 0; 0; 0; 0;
              254; 128; 0; 0; 0; 0; 0; 0; 0; 0; 0; 0; 0; 0; 0; 1] in
  Ndp.prefix_information_from_slice pfx = Ndp.NOk pfx /\
  Ndp.opt_accessors KPrefix pfx =
    Ok (OvPrefix 64 true true 1 2 [254; 128; 0; 0; 0; 0; 0; 0; 0; 0; 0; 0; 0; 0; 0; 1]) /\
  Ndp.prefix_information_from_slice (5 :: tl pfx) = Ndp.NErr (UnexpectedHeader 3 5 4 4) /\
  Ndp.prefix_information_from_slice (3 :: 5 :: tl (tl pfx)) = Ndp.NErr (UnexpectedHeader 3 3 4 5) /\
  Ndp.prefix_information_from_slice (tl pfx) = Ndp.NErr (UnexpectedSize 3 32 31) /\
  Ndp.mtu_from_slice [3; 1; 0; 0; 0; 0; 5; 220] = Ndp.NErr (UnexpectedHeader 5 3 1 1) /\
  Ndp.mtu_from_slice [5; 1; 0; 0; 0; 0; 5; 220] = Ndp.NOk [5; 1; 0; 0; 0; 0; 5; 220] /\
  Ndp.link_layer_from_slice 1 [2; 1; 1; 2; 3; 4; 5; 6] = Ndp.NErr (UnexpectedHeader 1 2 1 1) /\
  Ndp.link_layer_from_slice 2 [2; 1; 1; 2; 3; 4; 5; 6] = Ndp.NOk [2; 1; 1; 2; 3; 4; 5; 6] /\
  Ndp.link_layer_from_slice 1 [1] = Ndp.NErr (UnexpectedSize 1 2 1) /\
  Ndp.redirected_header_from_slice [4; 1; 0; 0] = Ndp.NErr (UnexpectedSize 4 8 4) /\
  Ndp.redirected_header_from_slice [4; 2; 0; 0; 0; 0; 0; 0] = Ndp.NErr (UnexpectedSize 4 16 8) /\
  Ndp.unknown_from_slice [3; 1; 0; 0; 0; 0; 0; 0] = Ndp.NOk [3; 1; 0; 0; 0; 0; 0; 0].
Proof. cbv zeta. repeat split; vm_compute; reflexivity. Qed.
Example C17_ex_icmp4_untyped_model : 8 <= len [6; 9; 0; 0; 1; 2; 3; 4; 5] /\
  In (byte_at [6; 9; 0; 0; 1; 2; 3; 4; 5] 0) icmp4_untyped_assigned /\
  Icmpv4Slice.view [6; 9; 0; 0; 1; 2; 3; 4; 5] = Ok (V4Unknown 6 9 1 2 3 4, 8, [5]).
Proof. split; [vm_compute; discriminate|]. split; [cbn; tauto|vm_compute; reflexivity]. Qed.
(* ---- end audit1-c17 ---- *)

(* ==== round3 smalls begin ==== *)
(* Round 3 (audit clause h): "reject exactly the inputs that are too short or whose length units
   are ... inconsistent" as NAMED iff statements for ICMPv4, ICMPv6, IGMP and ARP (so far exact
   only implicitly, through the equalities with the specification functions above).  Each
   theorem: a LenError is returned exactly for the named inputs, a value exactly for all others,
   never the out-of-bounds marker; the `_record` theorems give the error record of each class.
   Lemmas: CtlMsg/RejectIff.v (compositions of the equalities above; no new model). *)
From EP Require Import CtlMsg.RejectIff.

(* Icmpv4Slice::from_slice: fewer than 8 octets, or a timestamp / timestamp reply (13 / 14, code 0)
   that is not exactly 20 octets long *)
Theorem C17_icmp4_reject_iff : forall bs,
  let R := len bs < 8 \/ ((byte_at bs 0 = 13 \/ byte_at bs 0 = 14) /\ byte_at bs 1 = 0 /\ len bs <> 20) in
  ((exists e, Icmpv4Slice.view bs = ErrLen e) <-> R) /\
  ((exists v, Icmpv4Slice.view bs = Ok v) <-> ~ R) /\
  (forall n, Icmpv4Slice.view bs <> UB n).
Proof. exact icmp4_reject_iff. Qed.
Print Assumptions C17_icmp4_reject_iff.

Theorem C17_icmp4_reject_record : forall bs e, Icmpv4Slice.view bs = ErrLen e ->
  (len bs < 8 /\ e = mkLenError 8 (len bs) LsSlice LIcmpv4 0) \/
  (8 <= len bs /\ byte_at bs 0 = 13 /\ byte_at bs 1 = 0 /\ len bs <> 20 /\
   e = mkLenError 20 (len bs) LsSlice LIcmpv4Timestamp 0) \/
  (8 <= len bs /\ byte_at bs 0 = 14 /\ byte_at bs 1 = 0 /\ len bs <> 20 /\
   e = mkLenError 20 (len bs) LsSlice LIcmpv4TimestampReply 0).
Proof. exact icmp4_reject_record. Qed.
Print Assumptions C17_icmp4_reject_record.

(* Icmpv6Slice::from_slice: fewer than 8 octets, or more than 2^32-1 (the crate's own bound; no
   IPv6 payload, not even a jumbogram, can be longer) *)
Theorem C17_icmp6_reject_iff : forall bs,
  let R := len bs < 8 \/ 4294967295 < len bs in
  ((exists e, Icmpv6Slice.view bs = ErrLen e) <-> R) /\
  ((exists v, Icmpv6Slice.view bs = Ok v) <-> ~ R) /\
  (forall n, Icmpv6Slice.view bs <> UB n).
Proof. exact icmp6_reject_iff. Qed.
Print Assumptions C17_icmp6_reject_iff.

Theorem C17_icmp6_reject_record : forall bs e, Icmpv6Slice.view bs = ErrLen e ->
  (len bs < 8 /\ e = mkLenError 8 (len bs) LsSlice LIcmpv6 0) \/
  (4294967295 < len bs /\ e = mkLenError 4294967295 (len bs) LsSlice LIcmpv6 0).
Proof. exact icmp6_reject_record. Qed.
Print Assumptions C17_icmp6_reject_record.

(* IgmpHeader::from_slice: fewer than 8 octets, or a membership query (0x11) of 9, 10 or 11 octets
   (neither the 8-octet v1/v2 query nor a v3 query of at least 12 octets) *)
Theorem C17_igmp_reject_iff : forall bs,
  let R := len bs < 8 \/ (byte_at bs 0 = 17 /\ 8 < len bs /\ len bs < 12) in
  ((exists e, Igmp.view bs = ErrLen e) <-> R) /\
  ((exists v, Igmp.view bs = Ok v) <-> ~ R) /\
  (forall n, Igmp.view bs <> UB n).
Proof. exact igmp_reject_iff. Qed.
Print Assumptions C17_igmp_reject_iff.

Theorem C17_igmp_reject_record : forall bs e, Igmp.view bs = ErrLen e ->
  (len bs < 8 /\ e = mkLenError 8 (len bs) LsSlice LIgmp 0) \/
  (byte_at bs 0 = 17 /\ 8 < len bs /\ len bs < 12 /\ e = mkLenError 12 (len bs) LsSlice LIgmp 0).
Proof. exact igmp_reject_record. Qed.
Print Assumptions C17_igmp_reject_record.

(* ReportGroupRecordV3Header::from_slice: fewer than the 8 octets of the record header *)
Theorem C17_igmp_group_record_reject_iff : forall bs,
  ((exists e, Igmp.group_record_from_slice bs = ErrLen e) <-> len bs < 8) /\
  ((exists v, Igmp.group_record_from_slice bs = Ok v) <-> ~ len bs < 8) /\
  (forall n, Igmp.group_record_from_slice bs <> UB n).
Proof. exact group_record_reject_iff. Qed.
Print Assumptions C17_igmp_group_record_reject_iff.

(* ArpPacketSlice::from_slice: fewer than the 8 fixed octets, or fewer than the fixed octets plus
   the four addresses announced by the two length octets (hardware 4, protocol 5) *)
Theorem C17_arp_reject_iff : forall bs,
  let R := len bs < 8 \/ len bs < 8 + 2 * byte_at bs 4 + 2 * byte_at bs 5 in
  ((exists e, Arp.slice_view bs = ErrLen e) <-> R) /\
  ((exists v, Arp.slice_view bs = Ok v) <-> ~ R) /\
  (forall n, Arp.slice_view bs <> UB n).
Proof. exact arp_view_reject_iff. Qed.
Print Assumptions C17_arp_reject_iff.

Theorem C17_arp_reject_record : forall bs e, Arp.slice_view bs = ErrLen e ->
  (len bs < 8 /\ e = mkLenError 8 (len bs) LsSlice LArp 0) \/
  (8 <= len bs /\ len bs < 8 + 2 * byte_at bs 4 + 2 * byte_at bs 5 /\
   e = mkLenError (8 + 2 * byte_at bs 4 + 2 * byte_at bs 5) (len bs) LsArpAddrLengths LArp 0).
Proof. exact arp_view_reject_record. Qed.
Print Assumptions C17_arp_reject_record.

(* ArpPacket::from_slice(..)?.try_eth_ipv4(): LenError exactly as above; otherwise the first
   failing check in the order hardware type (1), protocol type (0x0800), hardware address size
   (6), protocol address size (4) with the offending value; a packet exactly when all four hold *)
Theorem C17_arp_eth_ipv4_outcomes : forall bs, bytes_ok bs ->
  let r := Arp.eth_ipv4_view bs in
  let hs := byte_at bs 4 in let ps := byte_at bs 5 in
  let R := len bs < 8 \/ len bs < 8 + 2 * byte_at bs 4 + 2 * byte_at bs 5 in
  ((exists e, r = ArpLenErr e) <-> R) /\
  (forall e, r = ArpFromErr e <->
     ~ R /\
     (   (u16_at bs 0 <> 1 /\ e = NonMatchingHwType (u16_at bs 0))
      \/ (u16_at bs 0 = 1 /\ u16_at bs 2 <> 2048 /\ e = NonMatchingProtocolType (u16_at bs 2))
      \/ (u16_at bs 0 = 1 /\ u16_at bs 2 = 2048 /\ hs <> 6 /\ e = NonMatchingHwAddrSize hs)
      \/ (u16_at bs 0 = 1 /\ u16_at bs 2 = 2048 /\ hs = 6 /\ ps <> 4 /\ e = NonMatchingProtoAddrSize ps))) /\
  ((exists p, r = ArpOk p) <->
     ~ R /\ u16_at bs 0 = 1 /\ u16_at bs 2 = 2048 /\ hs = 6 /\ ps = 4) /\
  (forall n, r <> ArpUB n).
Proof. exact arp_eth_ipv4_outcomes. Qed.
Print Assumptions C17_arp_eth_ipv4_outcomes.

(* non-vacuity: one input of every rejection class and an accepted neighbour of each *)
Example C17_ex_reject_classes :
  Icmpv4Slice.view [8; 0; 0; 0; 0; 1; 0] = ErrLen (mkLenError 8 7 LsSlice LIcmpv4 0) /\
  Icmpv4Slice.view [14; 0; 0; 0; 0; 1; 0; 2; 9] = ErrLen (mkLenError 20 9 LsSlice LIcmpv4TimestampReply 0) /\
  Icmpv4Slice.view [14; 1; 0; 0; 0; 1; 0; 2; 9] = Ok (V4Unknown 14 1 0 1 0 2, 8, [9]) /\
  Icmpv6Slice.view [128; 0; 0; 0; 0; 1; 0] = ErrLen (mkLenError 8 7 LsSlice LIcmpv6 0) /\
  Igmp.view [17; 100; 0; 0; 224; 0; 0; 1; 0; 0; 0] = ErrLen (mkLenError 12 11 LsSlice LIgmp 0) /\
  Igmp.view [22; 100; 0; 0; 224; 0; 0; 1; 0; 0; 0] = Ok (IgMembershipReportV2 224 0 0 1, 0, 8, [0; 0; 0]) /\
  Igmp.group_record_from_slice [1; 0; 0; 0; 224; 0; 0] = ErrLen (mkLenError 8 7 LsSlice LIgmp 0) /\
  Arp.slice_view [0; 1; 8; 0; 2; 1; 0; 1; 1; 2; 3; 4; 5] = ErrLen (mkLenError 14 13 LsArpAddrLengths LArp 0) /\
  (exists v, Arp.slice_view [0; 1; 8; 0; 2; 1; 0; 1; 1; 2; 3; 4; 5; 6] = Ok v) /\
  Arp.eth_ipv4_view [0; 6; 8; 0; 1; 1; 0; 1; 1; 2; 3; 4] = ArpFromErr (NonMatchingHwType 6) /\
  Arp.eth_ipv4_view [0; 1; 8; 6; 1; 1; 0; 1; 1; 2; 3; 4] = ArpFromErr (NonMatchingProtocolType 2054) /\
  Arp.eth_ipv4_view [0; 1; 8; 0; 1; 1; 0; 1; 1; 2; 3; 4] = ArpFromErr (NonMatchingHwAddrSize 1) /\
  Arp.eth_ipv4_view [0; 1; 8; 0; 6; 1; 0; 1; 1; 2; 3; 4; 5; 6; 7; 1; 2; 3; 4; 5; 6; 7]
    = ArpFromErr (NonMatchingProtoAddrSize 1).
Proof. repeat split; try (eexists; vm_compute; reflexivity); vm_compute; reflexivity. Qed.
(* ==== round3 smalls end ==== *)
