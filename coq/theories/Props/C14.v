(* Props/C14.v -- property C14: out-of-range lengths and values are rejected,
   never truncated.  Only statements; every proof is `exact <lemma>`.

   Reading guide (definitions in Limits/Spec.v):
     c14_new r v R mx k good  : greatest R mx  /\  (r is Ok <-> R v)  /\
                                (R v -> r = Ok a with good a)  /\
                                (~R v -> r = Err {actual := v; max_allowed := mx; value_type := k})
     c14_set r h v R mx k good: the same for `&mut self` setters; r = (outcome, header
                                afterwards); on rejection the header afterwards is h itself
     c14_gen / c14_gen_set    : the same with the API's own error type (`bad v`)
   R / mx are the representability predicates and maxima of Spec.v, derived from
   the field widths; `good` says that the stored field, its wire bytes and the
   crate's own decoder give back the length (all `as uK` casts are identities).
   All statements hold for every N (no bound on the length), the builder ones
   for every slice length (< 2^63). *)
From EP Require Parse.ConstsAllOk.   (* every numeric `pub const` of the crate, regenerated from the source on every run, has its RFC / IANA value *)
From EP Require Import Base.Bytes Limits.Spec Limits.Model Limits.Proofs.
Local Open Scope N_scope.

(* ------------------------------------------------------------------ IPv4 *)
Theorem C14_ipv4_new : forall v rest,
  c14_new (ipv4_new v rest) v (ipv4_repr 0) (ipv4_max 0) Ipv4PayloadLength
    (fun h => v4_total_len h = ipv4_hdr_len 0 + v /\
              wire16 (to_be16 (v4_total_len h)) = Some (ipv4_hdr_len 0 + v) /\
              ipv4_payload_len h = Some v /\ v4_opt_len h = 0 /\ v4_rest h = rest).
Proof. exact ipv4_new_c14. Qed.
Print Assumptions C14_ipv4_new.

Theorem C14_ipv4_set_payload_len : forall h v, ipv4_wf h ->
  c14_set (ipv4_set_payload_len h v) h v (ipv4_repr (v4_opt_len h)) (ipv4_max (v4_opt_len h))
    Ipv4PayloadLength (ipv4_good h 0 v).
Proof. exact ipv4_set_payload_len_c14. Qed.
Print Assumptions C14_ipv4_set_payload_len.

Theorem C14_ipv4_options : forall n,
  c14_gen (ipv4_options_try_from n) n ipv4_opts_repr (fun bad_len => bad_len)
    (fun l => l = n /\ ipv4_opts_dec (l / 4 + 5) = n /\ fits 4 (l / 4 + 5) /\ l <= 40).
Proof. exact ipv4_options_try_from_c14. Qed.
Print Assumptions C14_ipv4_options.

Theorem C14_ipv4_set_options : forall h n,
  c14_gen_set (ipv4_set_options h n) h n ipv4_opts_repr (fun bad_len => bad_len)
    (fun h' => v4_opt_len h' = n /\ ipv4_wf h' /\
               (exists ihl, ipv4_ihl (E:=unit) h' = Ok ihl /\ fits 4 ihl /\ ipv4_opts_dec ihl = n) /\
               ipv4_header_len h' = ipv4_hdr_len n /\
               v4_total_len h' = v4_total_len h /\ v4_rest h' = v4_rest h).
Proof. exact ipv4_set_options_c14. Qed.
Print Assumptions C14_ipv4_set_options.

Theorem C14_ipv4_options_max : greatest ipv4_opts_repr ipv4_opts_max.
Proof. exact ipv4_opts_greatest. Qed.
Print Assumptions C14_ipv4_options_max.

(* ------------------------------------------------------------------ IPv6 *)
Theorem C14_ipv6_set_payload_length : forall h v,
  c14_set (ipv6_set_payload_length h v) h v ipv6_repr ipv6_max Ipv6PayloadLength (ipv6_good h v).
Proof. exact ipv6_set_payload_length_c14. Qed.
Print Assumptions C14_ipv6_set_payload_length.

(* ------------------------------------------- IpHeaders::set_payload_len *)
(* incl. the usize overflow path: holds for every v, also v + exts >= 2^64 *)
Theorem C14_ipheaders_v4 : forall h x v, ipv4_wf h -> v4exts_wf x ->
  c14_set (iph_set_payload_len (IpV4 h x) v) (IpV4 h x) v
    (iph4_repr (v4_opt_len h) (v4x_len x)) (iph4_max (v4_opt_len h) (v4x_len x)) Ipv4PayloadLength
    (fun s' => exists h', s' = IpV4 h' x /\ ipv4_good h (v4x_len x) v h' /\
                          iph4_dec (v4_opt_len h) (v4x_len x) (v4_total_len h') = v).
Proof. exact iph4_set_payload_len_c14. Qed.
Print Assumptions C14_ipheaders_v4.

Theorem C14_ipheaders_v6 : forall h x v, v6exts_wf x ->
  c14_set (iph_set_payload_len (IpV6 h x) v) (IpV6 h x) v
    (iph6_repr (v6x_len x)) (iph6_max (v6x_len x)) Ipv6PayloadLength
    (fun s' => exists h', s' = IpV6 h' x /\ ipv6_good h (v6x_len x + v) h' /\
                          iph6_dec (v6x_len x) (v6_payload_length h') = v).
Proof. exact iph6_set_payload_len_c14. Qed.
Print Assumptions C14_ipheaders_v6.

(* the model's header_len() of extension headers is the RFC length *)
Theorem C14_ext_lengths : forall x4 x6,
  v4exts_header_len x4 = v4x_len x4 /\ v6exts_header_len x6 = v6x_len x6.
Proof. exact (fun x4 x6 => conj (v4exts_header_len_spec x4) (v6exts_header_len_spec x6)). Qed.
Print Assumptions C14_ext_lengths.

(* ------------------------------------------------------------------- UDP *)
Theorem C14_udp_without_ipv4_checksum : forall rest v,
  c14_new (udp_without_ipv4_checksum rest v) v udp_repr udp_max UdpPayloadLengthIpv4
    (udp_good rest v false).
Proof. exact udp_without_ipv4_checksum_c14. Qed.
Print Assumptions C14_udp_without_ipv4_checksum.

Theorem C14_udp_with_ipv4_checksum : forall rest v,
  c14_new (udp_with_ipv4_checksum rest v) v udp_repr udp_max UdpPayloadLengthIpv4
    (udp_good rest v true).
Proof. exact udp_with_ipv4_checksum_c14. Qed.
Print Assumptions C14_udp_with_ipv4_checksum.

Theorem C14_udp_with_ipv6_checksum : forall rest v,
  c14_new (udp_with_ipv6_checksum rest v) v udp_repr udp_max UdpPayloadLengthIpv6
    (udp_good rest v true).
Proof. exact udp_with_ipv6_checksum_c14. Qed.
Print Assumptions C14_udp_with_ipv6_checksum.

(* calc_checksum_*: the check only; the pseudo header carries self.length *)
Theorem C14_udp_calc_checksum_ipv4 : forall h v,
  c14_new (udp_calc_checksum_ipv4 h v) v udp_repr udp_max UdpPayloadLengthIpv4
    (fun l => l = u_length h).
Proof. exact udp_calc_checksum_ipv4_c14. Qed.
Print Assumptions C14_udp_calc_checksum_ipv4.

Theorem C14_udp_calc_checksum_ipv6 : forall h v,
  c14_new (udp_calc_checksum_ipv6 h v) v udp6_pseudo_repr udp6_pseudo_max UdpPayloadLengthIpv6
    (fun l => l = u_length h).
Proof. exact udp_calc_checksum_ipv6_c14. Qed.
Print Assumptions C14_udp_calc_checksum_ipv6.

(* ------------------------------------------------------------------- TCP *)
Theorem C14_tcp_calc_checksum_ipv4 : forall h v, tcp_wf h ->
  c14_new (tcp_calc_checksum_ipv4 h v) v (tcp4_repr (tcp_hdr_len (t_opt_len h)))
    (tcp4_max (tcp_hdr_len (t_opt_len h))) TcpPayloadLengthIpv4
    (fun l => l = tcp_hdr_len (t_opt_len h) + v /\
              wire16 (to_be16 l) = Some (tcp_hdr_len (t_opt_len h) + v)).
Proof. exact tcp_calc_checksum_ipv4_c14. Qed.
Print Assumptions C14_tcp_calc_checksum_ipv4.

Theorem C14_tcp_calc_checksum_ipv6 : forall h v, tcp_wf h ->
  c14_new (tcp_calc_checksum_ipv6 h v) v (tcp6_repr (tcp_hdr_len (t_opt_len h)))
    (tcp6_max (tcp_hdr_len (t_opt_len h))) TcpPayloadLengthIpv6
    (fun l => l = tcp_hdr_len (t_opt_len h) + v /\ l < 2 ^ 32).
Proof. exact tcp_calc_checksum_ipv6_c14. Qed.
Print Assumptions C14_tcp_calc_checksum_ipv6.

Theorem C14_tcp_header_slice_ipv4 : forall sl v, sl <= 60 ->
  c14_new (tcphs_calc_checksum_ipv4 sl v) v (tcp4_repr sl) (tcp4_max sl) TcpPayloadLengthIpv4
    (fun l => l = sl + v /\ wire16 (to_be16 l) = Some (sl + v)).
Proof. exact tcphs_calc_checksum_ipv4_c14. Qed.
Print Assumptions C14_tcp_header_slice_ipv4.

Theorem C14_tcp_header_slice_ipv6 : forall sl v, sl <= 60 ->
  c14_new (tcphs_calc_checksum_ipv6 sl v) v (tcp6_repr sl) (tcp6_max sl) TcpPayloadLengthIpv6
    (fun l => l = sl + v /\ l < 2 ^ 32).
Proof. exact tcphs_calc_checksum_ipv6_c14. Qed.
Print Assumptions C14_tcp_header_slice_ipv6.

Theorem C14_tcp_slice_ipv4 : forall sl,
  c14_new (tcpslice_calc_checksum_ipv4 sl) sl (tcp4_repr 0) (tcp4_max 0) TcpPayloadLengthIpv4
    (fun l => l = sl /\ wire16 (to_be16 l) = Some sl).
Proof. exact tcpslice_calc_checksum_ipv4_c14. Qed.
Print Assumptions C14_tcp_slice_ipv4.

Theorem C14_tcp_slice_ipv6 : forall sl,
  c14_new (tcpslice_calc_checksum_ipv6 sl) sl (tcp6_repr 0) (tcp6_max 0) TcpPayloadLengthIpv6
    (fun l => l = sl /\ l < 2 ^ 32).
Proof. exact tcpslice_calc_checksum_ipv6_c14. Qed.
Print Assumptions C14_tcp_slice_ipv6.

(* ---------------------------------------------------------------- ICMPv6 *)
Theorem C14_icmpv6_calc_checksum : forall v,
  c14_new (icmpv6_calc_checksum v) v icmp6_repr icmp6_max Icmpv6PayloadLength
    (fun l => l = icmp6_hdr + v /\ l < 2 ^ 32).
Proof. exact icmpv6_calc_checksum_c14. Qed.
Print Assumptions C14_icmpv6_calc_checksum.

(* ---------------------------------------------------------------- MACsec *)
Theorem C14_macsec_set_payload_len : forall h v,
  c14_macsec (macsec_set_payload_len h v) (m_unmodified h) v
    m_short_len macsec_sl_byte macsec_expected_payload_len
    (fun h' => m_unmodified h' = m_unmodified h /\ m_rest h' = m_rest h).
Proof. exact macsec_set_payload_len_c14. Qed.
Print Assumptions C14_macsec_set_payload_len.

Theorem C14_macsec_short_len_from_len : forall v,
  (macsec_repr false v -> macsec_short_len_from_len v = v) /\
  (~ macsec_repr false v -> macsec_short_len_from_len v = macsec_unknown).
Proof. exact macsec_short_len_from_len_c14. Qed.
Print Assumptions C14_macsec_short_len_from_len.

Theorem C14_macsec_short_len_try_from_u8 : forall v,
  c14_new (macsec_short_len_try_from_u8 v) v (fits 6) (field_max 6) MacsecShortLen (fun s => s = v).
Proof. exact macsec_short_len_try_from_u8_c14. Qed.
Print Assumptions C14_macsec_short_len_try_from_u8.

(* -------------------------------------------------------------------- AH *)
Theorem C14_ah_new : forall rest n, c14_gen (ah_new rest n) n ah_repr ah_bad (ah_good rest n).
Proof. exact ah_new_c14. Qed.
Print Assumptions C14_ah_new.

Theorem C14_ah_set_raw_icv : forall h n,
  c14_gen_set (ah_set_raw_icv h n) h n ah_repr ah_bad (ah_good (a_rest h) n).
Proof. exact ah_set_raw_icv_c14. Qed.
Print Assumptions C14_ah_set_raw_icv.

Theorem C14_ah_max : greatest ah_repr ah_max.
Proof. exact ah_greatest. Qed.
Print Assumptions C14_ah_max.

(* ------------------------------------------------ IPv6 extension headers *)
Theorem C14_ext_new_raw : forall rest n,
  c14_gen (rawext_new_raw rest n) n ext_repr ext_bad (ext_good rest n).
Proof. exact rawext_new_raw_c14. Qed.
Print Assumptions C14_ext_new_raw.

Theorem C14_ext_set_payload : forall h n,
  c14_gen_set (rawext_set_payload h n) h n ext_repr ext_bad (ext_good (e_rest h) n).
Proof. exact rawext_set_payload_c14. Qed.
Print Assumptions C14_ext_set_payload.

Theorem C14_ext_max_min : greatest ext_repr ext_max /\ least ext_repr ext_min.
Proof. exact ext_greatest. Qed.
Print Assumptions C14_ext_max_min.

(* ----------------------------------------------------------- TCP options *)
Theorem C14_tcp_options_from_slice : forall n,
  c14_gen (tcp_options_try_from_slice n) n tcp_opts_repr (fun not_enough_space => not_enough_space)
    (tcp_opts_good n).
Proof. exact tcp_options_try_from_slice_c14. Qed.
Print Assumptions C14_tcp_options_from_slice.

Theorem C14_tcp_options_from_elements : forall sizes,
  c14_gen (tcp_options_try_from_elements sizes) (nsum sizes) tcp_opts_repr
    (fun not_enough_space => not_enough_space) (tcp_opts_good (nsum sizes)).
Proof. exact tcp_options_try_from_elements_c14. Qed.
Print Assumptions C14_tcp_options_from_elements.

Theorem C14_tcp_set_options_raw : forall h n,
  c14_gen_set (tcp_set_options_raw h n) h n tcp_opts_repr (fun nes => nes) (tcp_set_good h n).
Proof. exact tcp_set_options_raw_c14. Qed.
Print Assumptions C14_tcp_set_options_raw.

Theorem C14_tcp_set_options : forall h sizes,
  c14_gen_set (tcp_set_options h sizes) h (nsum sizes) tcp_opts_repr (fun nes => nes)
    (tcp_set_good h (nsum sizes)).
Proof. exact tcp_set_options_c14. Qed.
Print Assumptions C14_tcp_set_options.

Theorem C14_tcp_options_max : greatest tcp_opts_repr tcp_opts_max.
Proof. exact tcp_opts_greatest. Qed.
Print Assumptions C14_tcp_options_max.

(* ------------------------------------------------------------------- ARP *)
Theorem C14_arp_new : forall rest hw pr,
  (arp_repr hw -> arp_repr pr ->
     arp_new rest hw pr hw pr = Ok {| ar_hw_size := hw; ar_proto_size := pr; ar_rest := rest |}) /\
  (~ arp_repr hw -> arp_new rest hw pr hw pr = Err (ArpHwTooBig hw)) /\
  (arp_repr hw -> ~ arp_repr pr -> arp_new rest hw pr hw pr = Err (ArpProtoTooBig pr)) /\
  ((exists a, arp_new rest hw pr hw pr = Ok a) <-> arp_repr hw /\ arp_repr pr).
Proof. exact arp_new_c14. Qed.
Print Assumptions C14_arp_new.

Theorem C14_arp_new_non_matching : forall rest shw sp thw tp,
  (shw <> thw -> arp_new rest shw sp thw tp = Err (ArpHwNonMatching shw thw)) /\
  (shw = thw -> sp <> tp -> arp_new rest shw sp thw tp = Err (ArpProtoNonMatching sp tp)).
Proof. exact arp_new_non_matching. Qed.
Print Assumptions C14_arp_new_non_matching.

Theorem C14_arp_set_hw_addrs : forall h n,
  c14_gen_set (arp_set_hw_addrs h n n) h n arp_repr ArpHwTooBig
    (fun h' => ar_hw_size h' = n /\ ar_proto_size h' = ar_proto_size h /\ ar_rest h' = ar_rest h).
Proof. exact arp_set_hw_addrs_c14. Qed.
Print Assumptions C14_arp_set_hw_addrs.

Theorem C14_arp_set_protocol_addrs : forall h n,
  c14_gen_set (arp_set_protocol_addrs h n n) h n arp_repr ArpProtoTooBig
    (fun h' => ar_proto_size h' = n /\ ar_hw_size h' = ar_hw_size h /\ ar_rest h' = ar_rest h).
Proof. exact arp_set_protocol_addrs_c14. Qed.
Print Assumptions C14_arp_set_protocol_addrs.

Theorem C14_arp_set_non_matching : forall h s t, s <> t ->
  arp_set_hw_addrs h s t = (Err (ArpHwNonMatching s t), h) /\
  arp_set_protocol_addrs h s t = (Err (ArpProtoNonMatching s t), h).
Proof. exact arp_set_non_matching. Qed.
Print Assumptions C14_arp_set_non_matching.

Theorem C14_arp_max : greatest arp_repr arp_max.
Proof. exact arp_greatest. Qed.
Print Assumptions C14_arp_max.

(* --------------------------------------------------------- PacketBuilder *)
(* the error names the IP payload length (extensions + transport header +
   payload) and its maximum; the last clause relates that maximum to the
   greatest acceptable payload *)
Theorem C14_build_ipv4 : forall ip x t v,
  ipv4_wf ip -> v4exts_wf x -> transport_wf t -> slice_len_ok v ->
  let o := v4_opt_len ip in
  let e := v4x_len x in
  let tl := transport_header_len t in
  greatest (build4_repr o e tl) (build4_max o e tl) /\
  (t <> TIcmpv6 -> ((exists b, build_ipv4 ip x t v = Ok b) <-> build4_repr o e tl v)) /\
  (build4_repr o e tl v -> t <> TIcmpv6 ->
     exists b, build_ipv4 ip x t v = Ok b /\ built_good (ipv4_hdr_len o + e + tl + v) t v b) /\
  (build4_repr o e tl v -> t = TIcmpv6 -> build_ipv4 ip x t v = Err BIcmpv6InIpv4) /\
  (~ build4_repr o e tl v ->
     build_ipv4 ip x t v = Err (BPayloadLen (mk_vtb (e + tl + v) (ipv4_max o) Ipv4PayloadLength)) /\
     ipv4_max o = build4_max o e tl + (e + tl)).
Proof. exact build_ipv4_c14. Qed.
Print Assumptions C14_build_ipv4.

Theorem C14_build_ipv6 : forall ip x t v,
  v6exts_wf x -> transport_wf t -> slice_len_ok v ->
  let e := v6x_len x in
  let tl := transport_header_len t in
  greatest (build6_repr e tl) (build6_max e tl) /\
  ((exists b, build_ipv6 ip x t v = Ok b) <-> build6_repr e tl v) /\
  (build6_repr e tl v ->
     exists b, build_ipv6 ip x t v = Ok b /\ built_good (e + tl + v) t v b /\
               (t = TIcmpv6 -> b_pseudo_len b = Some (icmp6_hdr + v))) /\
  (~ build6_repr e tl v ->
     build_ipv6 ip x t v = Err (BPayloadLen (mk_vtb (e + tl + v) ipv6_max Ipv6PayloadLength)) /\
     ipv6_max = build6_max e tl + (e + tl)).
Proof. exact build_ipv6_c14. Qed.
Print Assumptions C14_build_ipv6.

Theorem C14_build_size : forall lv net t v, lv + net + transport_header_len t + v < 2 ^ 64 ->
  build_size lv net t v = Ok (lv + net + transport_header_len t + v).
Proof. exact build_size_eq. Qed.
Print Assumptions C14_build_size.

(* the boolean deciders the runner uses for the specification column are exact *)
Theorem C14_deciders : forall a b c d,
  (ipv4_reprb a b = true <-> ipv4_repr a b) /\ (iph4_reprb a b c = true <-> iph4_repr a b c) /\
  (ipv6_reprb a = true <-> ipv6_repr a) /\ (iph6_reprb a b = true <-> iph6_repr a b) /\
  (udp_reprb a = true <-> udp_repr a) /\ (udp6_pseudo_reprb a = true <-> udp6_pseudo_repr a) /\
  (tcp4_reprb a b = true <-> tcp4_repr a b) /\ (tcp6_reprb a b = true <-> tcp6_repr a b) /\
  (icmp6_reprb a = true <-> icmp6_repr a) /\ (ipv4_opts_reprb a = true <-> ipv4_opts_repr a) /\
  (tcp_opts_reprb a = true <-> tcp_opts_repr a) /\ (ah_reprb a = true <-> ah_repr a) /\
  (ext_reprb a = true <-> ext_repr a) /\ (arp_reprb a = true <-> arp_repr a) /\
  (build4_reprb a b c d = true <-> build4_repr a b c d) /\
  (build6_reprb a b c = true <-> build6_repr a b c) /\
  (forall u, macsec_reprb u a = true <-> macsec_repr u a).
Proof.
  exact (fun a b c d =>
    conj (ipv4_reprb_spec a b) (conj (iph4_reprb_spec a b c) (conj (ipv6_reprb_spec a)
    (conj (iph6_reprb_spec a b) (conj (udp_reprb_spec a) (conj (udp6_pseudo_reprb_spec a)
    (conj (tcp4_reprb_spec a b) (conj (tcp6_reprb_spec a b) (conj (icmp6_reprb_spec a)
    (conj (ipv4_opts_reprb_spec a) (conj (tcp_opts_reprb_spec a) (conj (ah_reprb_spec a)
    (conj (ext_reprb_spec a) (conj (arp_reprb_spec a) (conj (build4_reprb_spec a b c d)
    (conj (build6_reprb_spec a b c) (fun u => macsec_reprb_spec u a))))))))))))))))).
Qed.
Print Assumptions C14_deciders.

(* ------------------------------------------------------------ non-vacuity *)
(* hypotheses are satisfiable, both outcomes occur, the limits are the ones of
   the wire formats (values by computation) *)
Example C14_ex_limits :
  ipv4_max 0 = 65515 /\ ipv4_max 40 = 65475 /\ ipv6_max = 65535 /\ udp_max = 65527 /\
  udp6_pseudo_max = 4294967287 /\ tcp4_max 60 = 65475 /\ tcp6_max 20 = 4294967275 /\
  icmp6_max = 4294967287 /\ macsec_max true = 61 /\ macsec_max false = 63 /\ ah_max = 1016 /\
  ext_min = 6 /\ ext_max = 2046 /\ ipv4_opts_max = 40 /\ tcp_opts_max = 40 /\ arp_max = 255.
Proof. repeat split; vm_compute; reflexivity. Qed.

Example C14_ex_v4set :
  let h := {| v4_total_len := 7; v4_opt_len := 8; v4_rest := 1 |} in
  ipv4_wf h /\
  ipv4_set_payload_len h 65507 = (Ok tt, {| v4_total_len := 65535; v4_opt_len := 8; v4_rest := 1 |}) /\
  ipv4_set_payload_len h 65508 = (Err (mk_vtb 65508 65507 Ipv4PayloadLength), h) /\
  ipv4_set_payload_len h (65508 + 65536) = (Err (mk_vtb 131044 65507 Ipv4PayloadLength), h).
Proof. cbv zeta. split; [unfold ipv4_wf; cbn; lia|]. repeat split; vm_compute; reflexivity. Qed.

Example C14_ex_ipheaders :
  let h := {| v4_total_len := 50; v4_opt_len := 4; v4_rest := 1 |} in
  ipv4_wf h /\ v4exts_wf (Some 3) /\ v4x_len (Some 3) = 24 /\
  fst (iph_set_payload_len (IpV4 h (Some 3)) 65487) = Ok tt /\
  fst (iph_set_payload_len (IpV4 h (Some 3)) 65488) = Err (mk_vtb 65488 65487 Ipv4PayloadLength) /\
  fst (iph_set_payload_len (IpV4 h (Some 3)) 18446744073709551615)
    = Err (mk_vtb 18446744073709551615 65487 Ipv4PayloadLength) /\
  v6exts_wf {| x_hop := Some 0; x_dst := None; x_route := Some (1, Some 2); x_frag := true; x_auth := Some 3 |}.
Proof.
  cbv zeta. split; [unfold ipv4_wf; cbn; lia|]. split; [cbn; lia|].
  repeat split; try (vm_compute; reflexivity); cbn; lia.
Qed.

Example C14_ex_macsec :
  let h := {| m_unmodified := true; m_short_len := 5; m_rest := 9 |} in
  snd (macsec_set_payload_len h 61) = {| m_unmodified := true; m_short_len := 63; m_rest := 9 |} /\
  snd (macsec_set_payload_len h 62) = {| m_unmodified := true; m_short_len := 0; m_rest := 9 |} /\
  snd (macsec_set_payload_len h (61 + 256)) = {| m_unmodified := true; m_short_len := 0; m_rest := 9 |} /\
  macsec_expected_payload_len (snd (macsec_set_payload_len h 61)) = Some 61.
Proof. repeat split; vm_compute; reflexivity. Qed.

Example C14_ex_alignment :
  ah_new 0 1016 = Ok {| a_raw_icv_len := 254; a_rest := 0 |} /\ ah_new 0 1020 = Err (IcvTooBig 1020) /\
  ah_new 0 1014 = Err (IcvUnaligned 1014) /\
  rawext_new_raw 0 2046 = Ok {| e_header_length := 255; e_rest := 0 |} /\
  rawext_new_raw 0 2054 = Err (ExtTooBig 2054) /\ rawext_new_raw 0 5 = Err (ExtTooSmall 5) /\
  rawext_new_raw 0 15 = Err (ExtUnaligned 15) /\
  tcp_options_try_from_slice 37 = Ok 40 /\ tcp_options_try_from_slice 41 = Err 41 /\
  tcp_options_try_from_elements [34; 3] = Ok 40 /\ tcp_options_try_from_elements [34; 3; 4] = Err 41.
Proof. repeat split; vm_compute; reflexivity. Qed.

Example C14_ex_builder :
  let ip := {| v4_total_len := 0; v4_opt_len := 8; v4_rest := 1 |} in
  ipv4_wf ip /\ transport_wf (TTcp {| t_opt_len := 40; t_rest := 0 |}) /\ slice_len_ok 65476 /\
  build_ipv4 ip (Some 3) TUdp 65475
    = Ok {| b_ip_len := 65535; b_udp_len := Some 65483; b_pseudo_len := Some 65483 |} /\
  build_ipv4 ip (Some 3) TUdp 65476 = Err (BPayloadLen (mk_vtb 65508 65507 Ipv4PayloadLength)).
Proof.
  cbv zeta. split; [unfold ipv4_wf; cbn; lia|]. split; [cbn; unfold tcp_wf; cbn; lia|].
  split; [unfold slice_len_ok; rewrite pow63; lia|]. split; vm_compute; reflexivity.
Qed.

(* ==== round3 smalls begin ==== *)
(* Round 3: PacketBuilder size() (final_size) without the hypothesis "the sum fits usize" of
   C14_build_size.  Lemmas: Limits/BuildSize.v (about the existing model `build_size`). *)
From EP Require Import Limits.BuildSize.

(* for ALL arguments: Ok s exactly when s is the mathematical sum and the sum is below 2^64
   (usize of a 64-bit target); otherwise -- and only then -- a debug overflow panic of one of the
   three additions (sites 193..195 of Limits/Model.v); never an Err *)
Theorem C14_build_size_exact : forall lv net t v,
  let sum := lv + net + transport_header_len t + v in
  (forall s, build_size lv net t v = Ok s <-> s = sum /\ sum < 2 ^ 64) /\
  (2 ^ 64 <= sum <->
     exists site, build_size lv net t v = Panic site /\ (site = 193 \/ site = 194 \/ site = 195)) /\
  (forall e, build_size lv net t v <> Err e).
Proof. exact build_size_exact. Qed.
Print Assumptions C14_build_size_exact.

(* under the bounds the Rust types give -- link + vlan and network header lengths are sums of a few
   u8-derived sizes (far below 2^32), TCP options <= 40 / ICMPv4 header <= 20 (transport_wf), a
   slice length is below 2^63 (slice_len_ok) -- the sum always fits: size() never overflows *)
Theorem C14_build_size_total : forall lv net t v,
  lv < 2 ^ 32 -> net < 2 ^ 32 -> transport_wf t -> slice_len_ok v ->
  build_size lv net t v = Ok (lv + net + transport_header_len t + v).
Proof. exact build_size_bounds. Qed.
Print Assumptions C14_build_size_total.

(* the same with the network part spelled out as in final_size: IPv4 header_len() + extensions
   header_len(), resp. Ipv6Header::LEN + extensions header_len(), of well-formed header values;
   link header (Ethernet II 14 / Linux SLL 16) + VLAN (0 / 4 / 8) is at most 24 *)
Theorem C14_build_size_ipv4 : forall lv ip x t v,
  lv <= 24 -> ipv4_wf ip -> v4exts_wf x -> transport_wf t -> slice_len_ok v ->
  build_size lv (ipv4_header_len ip + v4exts_header_len x) t v =
    Ok (lv + (ipv4_header_len ip + v4exts_header_len x) + transport_header_len t + v).
Proof. exact build_size_ipv4. Qed.
Print Assumptions C14_build_size_ipv4.

Theorem C14_build_size_ipv6 : forall lv x t v,
  lv <= 24 -> v6exts_wf x -> transport_wf t -> slice_len_ok v ->
  build_size lv (40 + v6exts_header_len x) t v =
    Ok (lv + (40 + v6exts_header_len x) + transport_header_len t + v).
Proof. exact build_size_ipv6. Qed.
Print Assumptions C14_build_size_ipv6.

(* non-vacuity: the largest slice length with full-size headers fits; the open case (only
   reachable with a payload_size argument that is no slice length) panics *)
Example C14_ex_build_size :
  let ip := {| v4_total_len := 0; v4_opt_len := 40; v4_rest := 1 |} in
  let t := TTcp {| t_opt_len := 40; t_rest := 0 |} in
  ipv4_wf ip /\ v4exts_wf (Some 254) /\ transport_wf t /\ slice_len_ok 9223372036854775807 /\
  build_size 22 (ipv4_header_len ip + v4exts_header_len (Some 254)) t 9223372036854775807
    = Ok 9223372036854776977 /\
  build_size 14 20 TUdp 18446744073709551615 = Panic 195 /\
  build_size 14 20 TUdp 18446744073709551573 = Ok 18446744073709551615.
Proof.
  cbv zeta. split; [unfold ipv4_wf; cbn; lia|]. split; [cbn; unfold o8; cbn; lia|].
  split; [cbn; unfold tcp_wf; cbn; lia|].
  split; [unfold slice_len_ok; rewrite pow63; lia|]. repeat split; vm_compute; reflexivity.
Qed.
(* ==== round3 smalls end ==== *)
