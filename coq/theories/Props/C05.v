(* Props/C05.v -- property C05: lax parsing extends strict parsing and flags
   truncation honestly.  Statements only; proofs are `exact`.

   Models : Parse/LaxSlices.v + Parse/LaxCursor.v (transliteration of the lax slicers and of
            LaxSlicedPacketCursor) and the strict models Parse/Slices.v + Parse/Cursor.v.
   Views  : Parse/LaxView.v (`lview`: windows, ip numbers, incomplete flags, length sources,
            stop error; `strictify` forgets the lax-only fields; `all_complete`).
   All theorems hold for every byte string / every slice value, no length bound.

   Known finding F10 (class F10_lax_ignores_ether_type_version): the lax whole-packet cursor
   dispatches on the IP version nibble and ignores whether the ether type said IPv4 or IPv6.
   (a), (c), (d) hold without exclusion (a strictly accepted packet has the matching nibble);
   the whole-packet form of (b) is refuted inside the class, see C05_F10_refuted.

   Second half of the file: the lax model refines a lax reference decoder over absolute
   positions (Parse/LaxWire.v); corollaries: the lax model never returns Bug, whole-packet
   (d) (C05_incomplete_iff_packet) and whole-packet (b) (C05_lax_prefix; for faults inside the
   network layer -- authentication header, IPv6 extension chain, IP length fallbacks --
   C05_lax_prefix_net at the end of the file: network layer decoded in front of the fault, exact
   layer tag). *)
From EP Require Import Base.Bytes Parse.Types Parse.Slices Parse.Cursor Parse.View Parse.WireSpec
  Parse.LaxSlices Parse.LaxCursor Parse.LaxView Parse.LaxProofs Parse.LaxFacts.

(* ---- (a) strict accepts -> lax returns the same layers / windows / payload, no stop
   error, nothing incomplete: the three lax whole-packet entry points -------------------- *)
Theorem C05_lax_extends_strict : forall bs et,
  extends (SlicedPacket.from_ethernet bs) (LaxSlicedPacket.from_ethernet bs) /\
  extends (SlicedPacket.from_ether_type et bs) (LaxSlicedPacket.from_ether_type et bs) /\
  extends (SlicedPacket.from_ip bs) (LaxSlicedPacket.from_ip bs).
Proof. exact lax_extends_strict. Qed.
Print Assumptions C05_lax_extends_strict.

(* pin the meaning of `extends` *)
Check (eq_refl : extends =
  fun strict lax => forall r, strict = Ok r ->
    exists r', lax = Ok r' /\ strictify (lview r') = view r /\ lsp_stop_err r' = None /\
               all_complete (lview r') = true).

(* (a) for LaxIpSlice, LaxIpv4Slice, LaxIpv6Slice, LaxMacsecSlice, UdpSlice::from_slice_lax,
   Ipv6ExtensionsSlice::from_slice_lax, Ipv4ExtensionsSlice::from_slice_lax: the lax result is
   the strict result embedded (incomplete = false) and the stop error is None *)
Theorem C05_lax_extends_strict_single : forall s nh,
  (forall i, IpSlice.from_slice s = Ok i -> LaxIpSlice.from_slice s = Ok (lax_of_ip i, None)) /\
  (forall v, Ipv4Slice.from_slice s = Ok v -> LaxIpv4Slice.from_slice s = Ok (lax_of_v4 v, None)) /\
  (forall v, Ipv6Slice.from_slice s = Ok v -> LaxIpv6Slice.from_slice s = Ok (lax_of_v6 v, None)) /\
  (forall m, Macsec.from_slice s = Ok m -> LaxMacsecSlice.from_slice s = Ok (lax_of_macsec m)) /\
  (forall u, UdpSlice.from_slice s = Ok u -> UdpSlice.from_slice_lax s = Ok u) /\
  (forall w, Ipv6ExtensionsSlice.from_slice nh s = Ok w -> LaxIpv6Exts.from_slice_lax nh s = Ok (w, None)) /\
  (forall w, Ipv4Exts.from_slice nh s = Ok w -> LaxIpv4Exts.from_slice_lax nh s = Ok (w, None)).
Proof. exact lax_extends_strict_single. Qed.
Print Assumptions C05_lax_extends_strict_single.

(* ---- (c) lax returns Err exactly when the very first header is undecodable ------------ *)
Theorem C05_err_only_first : forall bs et e,
  (LaxSlicedPacket.from_ethernet bs = Err e <->
     (len bs < 14 /\ e = ELen (mkLenError 14 (len bs) LsSlice LyEthernet2Header 0))) /\
  LaxSlicedPacket.from_ether_type et bs <> Err e /\
  (LaxSlicedPacket.from_ip bs = Err e <-> ip_header_fault bs = Some e) /\
  (LaxIpSlice.from_slice (mk_slice bs) = Err e <-> ip_header_fault bs = Some e).
Proof.
  exact (fun bs et e => conj (lax_from_ethernet_err_iff bs e)
           (conj (lax_from_ether_type_never_err et bs e)
              (conj (lax_from_ip_err_iff bs e) (lax_ip_slice_err_iff bs e)))).
Qed.
Print Assumptions C05_err_only_first.

(* single-layer slicers: Err exactly when the (strict) header slicer of that layer fails;
   the two extension collectors never fail *)
Theorem C05_err_only_first_single : forall s nh e,
  (LaxIpv4Slice.from_slice s = Err e <-> Ipv4HeaderSlice.from_slice s = Err e) /\
  (LaxIpv6Slice.from_slice s = Err e <-> Ipv6HeaderSlice.from_slice s = Err e) /\
  (LaxMacsecSlice.from_slice s = Err e <-> Macsec.header_from_slice s = Err e) /\
  (UdpSlice.from_slice_lax s = Err e <-> UdpSlice.header_from_slice s = Err e) /\
  (LaxIpv6Exts.from_slice_lax nh s = Err e -> False) /\
  LaxIpv4Exts.from_slice_lax nh s <> Err e.
Proof.
  exact (fun s nh e => conj (lax_ipv4_err_iff s e) (conj (lax_ipv6_err_iff s e)
           (conj (lax_macsec_err_iff s e) (conj (lax_udp_err_iff s e)
              (conj (lax_exts_not_err nh s e) (lax_ipv4_exts_never_err nh s e)))))).
Qed.
Print Assumptions C05_err_only_first_single.

(* ---- (d) incomplete <-> the length field promised more than the slice holds; then the
   payload ends at the slice end and the slice is the length source ------------------------ *)
Theorem C05_incomplete_iff : forall s,
  (forall v st, LaxIpv4Slice.from_slice s = Ok (v, st) ->
     exists h tlen,
       Ipv4HeaderSlice.from_slice s = Ok h /\ Ipv4HeaderSlice.total_len h = Ok tlen /\
       lipp_incomplete (lv4_payload v) = (s_len s <? tlen) /\
       (lipp_incomplete (lv4_payload v) = true ->
        lipp_src (lv4_payload v) = LsSlice /\ s_end (lipp_slice (lv4_payload v)) = s_end s)) /\
  (forall v st, LaxIpv6Slice.from_slice s = Ok (v, st) ->
     exists h pl,
       Ipv6HeaderSlice.from_slice s = Ok h /\ Ipv6HeaderSlice.payload_length h = Ok pl /\
       lipp_incomplete (lv6_payload v) = (s_len s <? 40 + pl) /\
       (lipp_incomplete (lv6_payload v) = true ->
        lipp_src (lv6_payload v) = LsSlice /\ s_end (lipp_slice (lv6_payload v)) = s_end s)) /\
  (forall m, LaxMacsecSlice.from_slice s = Ok m ->
     exists h epl,
       Macsec.header_from_slice s = Ok h /\ Macsec.expected_payload_len h = Ok epl /\
       lms_incomplete m =
         (match epl with Some req => s_len s <? s_len h + req | None => false end) /\
       (lms_incomplete m = true -> lms_src_ok m /\ s_end (lms_pslice m) = s_end s)).
Proof.
  exact (fun s => conj (lax_ipv4_incomplete s) (conj (lax_ipv6_incomplete s) (lax_macsec_incomplete s))).
Qed.
Print Assumptions C05_incomplete_iff.

(* ---- (b), per layer: the single-layer lax decoders against their strict counterparts -----
   (IPv4 incl. authentication header, IPv6 incl. the extension chain, both extension collectors,
   UDP, and the transport step of the cursor).  The statements carry `Bug _ => True` on the lax
   side; that the lax decoders never return Bug is C05_lax_never_bug / C05_lax_never_bug_single
   below.  The `_partial` in the names is historical: the whole-packet statement (link-extension
   loop, ARP, IP dispatch, the layers in front of the fault against the instrumented strict
   reference decoder) is C05_lax_prefix, and for faults inside the network layer (IP header,
   extension headers in front of the fault, payload descriptor, exact layer tag)
   C05_lax_prefix_net, both further down in this file. *)
Theorem C05_lax_prefix_partial : forall s nh,
  (forall e, Ipv4Slice.from_slice s = Err e ->
     match LaxIpv4Slice.from_slice s with
     | Ok (_, st) => v4_len_fallback e \/ (st = Some e /\ auth_fault e)
     | Err e' => e' = e /\ Ipv4HeaderSlice.from_slice s = Err e
     | Bug _ => True
     end) /\
  (forall e, Ipv6Slice.from_slice s = Err e ->
     match LaxIpv6Slice.from_slice s with
     | Ok (_, st) => v6_len_fallback e \/ stop_is st e
     | Err e' => e' = e /\ Ipv6HeaderSlice.from_slice s = Err e
     | Bug _ => True
     end) /\
  (forall e, Ipv6ExtensionsSlice.from_slice nh s = Err e ->
     match LaxIpv6Exts.from_slice_lax nh s with
     | Ok (_, st) => stop_is st e
     | Err _ => False
     | Bug _ => True
     end) /\
  (forall e, Ipv4Exts.from_slice nh s = Err e ->
     LaxIpv4Exts.from_slice_lax nh s = Ok (None, nh, s, Some e)) /\
  (forall e, UdpSlice.from_slice s = Err e ->
     exists l, e = ELen l /\
     ((UdpSlice.header_from_slice s = Err e /\ UdpSlice.from_slice_lax s = Err e) \/
      (udp_fallback l /\ UdpSlice.from_slice_lax s = Ok s))).
Proof. exact lax_records_fault_single. Qed.
Print Assumptions C05_lax_prefix_partial.

Theorem C05_lax_prefix_transport_partial : forall c lc p,
  lc_offset lc = c_offset c -> c_src c = ipp_src p -> lsp_stop_err (lc_result lc) = None ->
  lc_result lc = lax_of_packet (c_result c) ->
  forall e, SlicedPacketCursor.transport_dispatch c p = Err e ->
  exists r', LaxSlicedPacketCursor.slice_transport lc (lax_of_ipp p) = Ok r' /\
             ((exists l, e = ELen l /\ udp_fallback l) \/ recorded (lc_result lc) r' e).
Proof. exact lax_records_fault_transport. Qed.
Print Assumptions C05_lax_prefix_transport_partial.

(* ---- known finding F10: witness --------------------------------------------------------- *)
(* ether type 0x0800 in front of a complete IPv6/UDP packet (48 bytes) *)
Definition f10_pkt : bytes :=
  [96;0;0;0; 0;8; 17;64] ++ repeat 0 32 ++ [0;1;0;2;0;8;0;0].

(* the class: the strict verdict is "IPv4 header, unexpected version 6" (or the mirror case) *)
Definition KnownClass_F10 (strict : res sliced_packet) : bool :=
  match strict with
  | Err (EContent (CeIpv4Version 6)) | Err (EContent (CeIpv6Version 4)) => true
  | _ => false
  end.

Theorem C05_F10_refuted :
  exists bs et,
    KnownClass_F10 (SlicedPacket.from_ether_type et bs) = true /\
    SlicedPacket.from_ether_type et bs = Err (EContent (CeIpv4Version 6)) /\
    exists r', LaxSlicedPacket.from_ether_type et bs = Ok r' /\ lsp_stop_err r' = None /\
               lv_net (lview r') =
                 Some (LVIpv6 (0, 40) None false (40, 0) (mkLVIp false 17 false LsIpv6HeaderPayloadLen (40, 8))).
Proof.
  exists f10_pkt, 2048. split; [vm_compute; reflexivity|]. split; [vm_compute; reflexivity|].
  eexists. split; [vm_compute; reflexivity|]. split; reflexivity.
Qed.
Print Assumptions C05_F10_refuted.

(* ---- non-vacuity ------------------------------------------------------------------------ *)
(* Ethernet / VLAN / IPv4 / UDP: accepted by strict; lax gives the same view *)
Definition ex_pkt : bytes :=
  [1;2;3;4;5;6; 7;8;9;10;11;12; 129;0;  0;5; 8;0;
   69;0;0;32; 0;0;0;0; 64;17;0;0; 1;2;3;4; 5;6;7;8;
   0;1;0;2;0;12;0;0; 170;187;204;221].
Example C05_ex_extends :
  exists r r', SlicedPacket.from_ethernet ex_pkt = Ok r /\
               LaxSlicedPacket.from_ethernet ex_pkt = Ok r' /\
               strictify (lview r') = view r /\ v_transport (view r) = Some (VUdp (38, 12)).
Proof. eexists _, _. repeat split; vm_compute; reflexivity. Qed.

(* the same packet cut inside the UDP header: IPv4 total length 32 > 23 bytes present ->
   incomplete, slice as length source, payload ends at the slice end, stop error UdpHeader *)
Example C05_ex_cut :
  exists r', LaxSlicedPacket.from_ethernet (firstn 41 ex_pkt) = Ok r' /\
    lv_net (lview r') = Some (LVIpv4 (18, 20) None (mkLVIp true 17 false LsSlice (38, 3))) /\
    lsp_stop_err r' = Some (ELen (mkLenError 8 3 LsSlice LyUdpHeader 38), LyUdpHeader) /\
    SlicedPacket.from_ethernet (firstn 41 ex_pkt) = Err (ELen (mkLenError 32 23 LsSlice LyIpv4Packet 18)).
Proof. eexists. repeat split; vm_compute; reflexivity. Qed.

(* first header undecodable: 5 bytes of an Ethernet frame; IP version nibble 7 *)
Example C05_ex_err :
  LaxSlicedPacket.from_ethernet [1;2;3;4;5] = Err (ELen (mkLenError 14 5 LsSlice LyEthernet2Header 0)) /\
  ip_header_fault [112; 0] = Some (EContent (CeIpUnsupportedVersion 7)) /\
  LaxSlicedPacket.from_ip [112; 0] = Err (EContent (CeIpUnsupportedVersion 7)).
Proof. repeat split; vm_compute; reflexivity. Qed.

(* (d): IPv4 header announcing 40 bytes in a 28 byte slice *)
Example C05_ex_incomplete :
  exists v st, LaxIpv4Slice.from_slice (mk_slice (firstn 28 (skipn 18 ex_pkt) )) = Ok (v, st) /\
    lipp_incomplete (lv4_payload v) = true /\ lipp_src (lv4_payload v) = LsSlice /\
    s_end (lipp_slice (lv4_payload v)) = 28.
Proof. eexists _, _. repeat split; vm_compute; reflexivity. Qed.

(* (b) partial: IPv6 with a destination options header cut short -> recorded as stop error *)
Example C05_ex_ext_fault :
  exists e, Ipv6ExtensionsSlice.from_slice 60 (mk_slice [17;1;0;0]) = Err e /\
    exists w, LaxIpv6Exts.from_slice_lax 60 (mk_slice [17;1;0;0]) = Ok (w, Some (e, LyIpv6DestOptionsHeader)).
Proof. eexists. split; [vm_compute; reflexivity|]. eexists. vm_compute. reflexivity. Qed.

(* ========================================================================================
   Whole-packet theorems through the lax REFERENCE decoder (Parse/LaxWire.v).

   `lwire_*` decodes a packet laxly over absolute positions of the buffer (bytes `B bs i`,
   16 bit words `W bs i` of WireSpec.v; no slices, no pointers, no unchecked reads).  The lax
   MODEL is proved to compute exactly that decoding (C05_lax_refines_reference) by threading the
   representation invariant `repr` (every slice handed down is a window of the buffer) through
   LaxIpSlice / the extension walk / the link-extension loop, like StrictProofs.v does for the
   strict stack.  Everything below is a corollary of that refinement plus facts about the
   reference functions. *)
From EP Require Import Parse.Repr Parse.StrictProofs Parse.LaxWire Parse.LaxWireProofs
  Parse.LaxWireFacts Parse.LaxPrefix.

Theorem C05_lax_refines_reference : forall bs et, bytes_ok bs ->
  lvres_of (LaxSlicedPacket.from_ethernet bs) = lwire_ethernet bs /\
  lvres_of (LaxSlicedPacket.from_ether_type et bs) = lwire_ether_type bs et /\
  lvres_of (LaxSlicedPacket.from_ip bs) = lwire_from_ip bs.
Proof.
  exact (fun bs et H => conj (lax_from_ethernet_eq bs H)
           (conj (lax_from_ether_type_eq bs et H) (lax_from_ip_eq bs H))).
Qed.
Print Assumptions C05_lax_refines_reference.

(* ---- the lax model never returns Bug: no failing unchecked read / from_raw_parts / usize
   subtraction / unwrap / push_unchecked / loop bound, for every byte string ---------------- *)
Theorem C05_lax_never_bug : forall bs et b, bytes_ok bs ->
  LaxSlicedPacket.from_ethernet bs <> Bug b /\
  LaxSlicedPacket.from_ether_type et bs <> Bug b /\
  LaxSlicedPacket.from_ip bs <> Bug b.
Proof. exact lax_never_bug. Qed.
Print Assumptions C05_lax_never_bug.

(* the single-layer lax decoders, on every window [pos, lim) of every buffer (`repr bs s pos lim`;
   the whole buffer is `repr_whole : repr bs (mk_slice bs) 0 (len bs)`), for every start number nh *)
Theorem C05_lax_never_bug_single : forall bs s pos lim nh, bytes_ok bs -> repr bs s pos lim ->
  no_bug (LaxIpSlice.from_slice s) /\ no_bug (LaxIpv4Slice.from_slice s) /\
  no_bug (LaxIpv6Slice.from_slice s) /\ no_bug (LaxMacsecSlice.from_slice s) /\
  no_bug (UdpSlice.from_slice_lax s) /\ no_bug (LaxIpv6Exts.from_slice_lax nh s) /\
  no_bug (LaxIpv4Exts.from_slice_lax nh s).
Proof. exact lax_single_never_bug. Qed.
Print Assumptions C05_lax_never_bug_single.
Check (eq_refl : @no_bug = fun A (r : res A) => forall b, r <> Bug b).

(* ---- (d) whole packet: a link / network payload is marked incomplete exactly when its length
   field (MACsec short length, IPv4 total length, IPv6 payload length, read from the buffer at
   the absolute position of the layer) promises more bytes than the slice the layer was decoded
   from holds; then the payload window ends at that slice's end and len_source = Slice.
   `packet_flags_ok bs enc0 v` walks the link extensions of the view v from the slice enc0 behind
   the link header (each extension's payload window is the next layer's slice) and states that
   for every MACsec extension and for the IPv4 / IPv6 layer (definitions in Parse/LaxWire.v) *)
Theorem C05_incomplete_iff_packet : forall bs et r', bytes_ok bs ->
  (LaxSlicedPacket.from_ethernet bs = Ok r' -> packet_flags_ok bs (14, len bs - 14) (lview r')) /\
  (LaxSlicedPacket.from_ether_type et bs = Ok r' -> packet_flags_ok bs (0, len bs) (lview r')) /\
  (LaxSlicedPacket.from_ip bs = Ok r' -> packet_flags_ok bs (0, len bs) (lview r')).
Proof. exact lax_incomplete_iff_packet. Qed.
Print Assumptions C05_incomplete_iff_packet.

(* pin the meaning *)
Check (eq_refl : ip_flag_ok =
  fun (enc : window) (promised : N) (p : lvip_payload) =>
    lvip_incomplete p = (snd enc <? promised) /\
    (lvip_incomplete p = true -> lvip_src p = LsSlice /\ win_end (lvip_win p) = win_end enc)).
Check (eq_refl : net_flag_ok =
  fun bs (enc : window) (n : lvnet) =>
    match n with
    | LVIpv4 (hp, _) _ p => hp = fst enc /\ ip_flag_ok enc (W bs (fst enc + 2)) p
    | LVIpv6 (hp, _) _ _ _ p => hp = fst enc /\ ip_flag_ok enc (40 + W bs (fst enc + 4)) p
    | LVArp _ => True
    end).

(* ---- (b) whole packet ------------------------------------------------------------------------
   `pwire_*` (Parse/LaxWire.v) is the strict reference decoder of WireSpec.v instrumented to
   hand back the packet decoded so far when it rejects; forgetting that packet gives WireSpec
   back: *)
Theorem C05_partial_reference_sound : forall bs et,
  forget (pwire_ethernet bs) = wire_ethernet bs /\
  forget (pwire_ether_type bs et) = wire_ether_type bs et /\
  forget (pwire_from_ip bs) = wire_from_ip bs.
Proof. exact pwire_sound. Qed.
Print Assumptions C05_partial_reference_sound.

(* strict model = Err e behind the first header (Ethernet II header present / no link header /
   IP header decodable)  ==>  the reference decoder rejects with (q, e_ref): q = every layer in
   front of the fault, e_ref = the fault the strict model reports (C03/C07 relation res_rel);
   the lax model returns Ok r' and, outside the known class F10,
     - every layer of q is a layer of r', unchanged (vprefix on the observer views), and
     - e_ref was a documented length fallback (IPv4 total length, IPv6 payload length, MACsec
       short length, UDP length), or stop_err r' = (e', tag) with e' the same error record and a
       fitting layer tag, or (F11) e_ref is a fault of the IP header itself and stop_err r' is an
       IP-header fault with tag IpHeader at the same offset.
   Covers the rejecting cases of the link-extension loop (VLAN, MACsec header, MACsec short
   length), ARP, the IP dispatch, both IP families incl. authentication header and extension
   chain, and the transport step.
   q has LAYER granularity: for a fault inside the network layer (authentication header, extension
   chain, IPv4 total length / IPv6 payload length) `v_net q = None`, i.e. this theorem then says
   nothing about the network layer of r'; that case is C05_lax_prefix_net below. *)
Theorem C05_lax_prefix : forall bs et, bytes_ok bs ->
  (14 <= len bs ->
   prefix_ok bs (SlicedPacket.from_ethernet bs) (pwire_ethernet bs) (LaxSlicedPacket.from_ethernet bs)) /\
  prefix_ok bs (SlicedPacket.from_ether_type et bs) (pwire_ether_type bs et)
    (LaxSlicedPacket.from_ether_type et bs) /\
  (ip_header_fault bs = None ->
   prefix_ok bs (SlicedPacket.from_ip bs) (pwire_from_ip bs) (LaxSlicedPacket.from_ip bs)).
Proof. exact lax_prefix_packet. Qed.
Print Assumptions C05_lax_prefix.

(* pin the meaning *)
Check (eq_refl : prefix_ok =
  fun bs strict pw lax => forall e, strict = Err e ->
    exists q e_ref r',
      pw = PRej q e_ref /\ res_rel (VErr e) (VErr e_ref) /\ lax = Ok r' /\
      (~ F10_class bs e_ref ->
       vprefix q (strictify (lview r')) /\ lax_outcome e_ref (lview r'))).
Check (eq_refl : lax_outcome =
  fun e q =>
    fallback e \/
    (exists e' ly, lv_stop q = Some (e', ly) /\ lax_same e e' /\ tag_ok e' ly) \/
    (ip_hdr_class e /\
     exists e', lv_stop q = Some (e', LyIpHeader) /\ ip_hdr_class e' /\
                (forall o o', err_off e = Some o -> err_off e' = Some o' -> o = o'))).
Check (eq_refl : vprefix =
  fun p q => v_link p = v_link q /\ (exists rest, v_exts q = v_exts p ++ rest) /\
             (v_net p = None \/ v_net p = v_net q) /\
             (v_transport p = None \/ v_transport p = v_transport q)).
Check (eq_refl : F10_class =
  fun bs e => e = EContent (CeIpv4Version 6) \/ e = EContent (CeIpv6Version 4) \/
              (exists l, e = ELen l /\ le_layer l = LyIpv6Header /\ B bs (le_off l) / 16 = 4)).

(* ---- non-vacuity of the whole-packet theorems ------------------------------------------------- *)
Example C05_ex_bytes_ok : bytes_ok ex_pkt /\ repr ex_pkt (mk_slice ex_pkt) 0 (len ex_pkt).
Proof. split; [apply bytes_okb_spec; vm_compute; reflexivity|apply repr_whole]. Qed.

(* (d): the cut packet of C05_ex_cut: IPv4 at 18, total length W 20 = 32 > 23 bytes in the slice *)
Example C05_ex_incomplete_packet :
  exists r', LaxSlicedPacket.from_ethernet (firstn 41 ex_pkt) = Ok r' /\
    enc_after (14, 27) (lv_exts (lview r')) = (18, 23) /\ W (firstn 41 ex_pkt) 20 = 32 /\
    exists h a p, lv_net (lview r') = Some (LVIpv4 h a p) /\ lvip_incomplete p = true.
Proof. eexists. split; [vm_compute; reflexivity|]. repeat split. eexists _, _, _. split; reflexivity. Qed.

(* (b): the same packet: strict rejects at the IPv4 layer (total length fallback); the layers in
   front of the fault are the Ethernet II header and the VLAN tag *)
Example C05_ex_prefix_fallback :
  14 <= len (firstn 41 ex_pkt) /\
  pwire_ethernet (firstn 41 ex_pkt) =
    PRej (mkVPacket (Some (VEthernet2 (0, 41))) [VVlan (14, 27)] None None)
         (ELen (mkLenError 32 23 LsSlice LyIpv4Packet 18)) /\
  fallback (ELen (mkLenError 32 23 LsSlice LyIpv4Packet 18)).
Proof. split; [vm_compute; discriminate|]. split; [vm_compute; reflexivity|]. cbn. auto. Qed.

(* (b): Ethernet / IPv4 / TCP with 4 of 20 TCP header bytes: strict rejects in the transport
   layer, no fallback; lax records exactly that error on layer TcpHeader; the layers in front of
   the fault include the IPv4 layer *)
Definition ex_tcp_cut : bytes :=
  [1;2;3;4;5;6; 7;8;9;10;11;12; 8;0;
   69;0;0;24; 0;0;0;0; 64;6;0;0; 1;2;3;4; 5;6;7;8;
   0;1;0;2].
Example C05_ex_prefix_stop :
  bytes_ok ex_tcp_cut /\ 14 <= len ex_tcp_cut /\
  SlicedPacket.from_ethernet ex_tcp_cut = Err (ELen (mkLenError 20 4 LsIpv4HeaderTotalLen LyTcpHeader 34)) /\
  ~ F10_class ex_tcp_cut (ELen (mkLenError 20 4 LsIpv4HeaderTotalLen LyTcpHeader 34)) /\
  exists q r',
    pwire_ethernet ex_tcp_cut = PRej q (ELen (mkLenError 20 4 LsIpv4HeaderTotalLen LyTcpHeader 34)) /\
    v_net q = Some (VIpv4 (14, 20) None (mkVIp 6 false LsIpv4HeaderTotalLen (34, 4))) /\
    LaxSlicedPacket.from_ethernet ex_tcp_cut = Ok r' /\
    lsp_stop_err r' = Some (ELen (mkLenError 20 4 LsIpv4HeaderTotalLen LyTcpHeader 34), LyTcpHeader).
Proof.
  split; [apply bytes_okb_spec; vm_compute; reflexivity|].
  split; [vm_compute; discriminate|]. split; [vm_compute; reflexivity|].
  split.
  { intros [H|[H|(l & H & Hl & _)]]; try discriminate. injection H as <-. discriminate. }
  eexists _, _. split; [vm_compute; reflexivity|]. split; [reflexivity|].
  split; [vm_compute; reflexivity|reflexivity].
Qed.

(* ---- (c) for the lax header-struct family (LaxPacketHeaders; model Parse/HdrLaxModel.v of the
   C04 check): Err exactly when the very first header is undecodable.  `hdr_ip_header_fault` is the
   condition over the bytes as IpHeaders::from_slice_lax reports it (finding F11: a cut-short IPv4
   header is `required_len 20` here, `ihl*4` in LaxIpSlice / ip_header_fault) ------------------ *)
From EP Require Import Parse.HdrModel Parse.HdrLaxModel Parse.LaxHdrFacts.

Theorem C05_headers_err_only_first : forall bs et e,
  (LaxPacketHeaders.from_ethernet bs = Err e <->
     (len bs < 14 /\ e = ELen (mkLenError 14 (len bs) LsSlice LyEthernet2Header 0))) /\
  LaxPacketHeaders.from_ether_type et bs <> Err e /\
  (LaxPacketHeaders.from_ip bs = Err e <-> hdr_ip_header_fault bs = Some e).
Proof. exact hdr_lax_err_only_first. Qed.
Print Assumptions C05_headers_err_only_first.

Example C05_ex_headers_err :
  hdr_ip_header_fault [69; 0; 0] = Some (ELen (mkLenError 20 3 LsSlice LyIpv4Header 0)) /\
  LaxPacketHeaders.from_ip [69; 0; 0] = Err (ELen (mkLenError 20 3 LsSlice LyIpv4Header 0)) /\
  exists r, LaxPacketHeaders.from_ether_type 2048 [69; 0; 0] = Ok r /\
            lh_stop r = Some (ELen (mkLenError 20 3 LsSlice LyIpv4Header 0), LyIpHeader).
Proof.
  split; [vm_compute; reflexivity|]. split; [vm_compute; reflexivity|].
  eexists. split; vm_compute; reflexivity.
Qed.

(* ---- extend-c04lax ---- *)
(* (a) and (b) for the lax header-struct family LaxPacketHeaders (model Parse/HdrLaxModel.v),
   derived in Parse/HdrLaxC05.v by composition of
     C04_headers_eq_slices            PacketHeaders = strict slicing cut at a refilled extension header
     C05_lax_extends_strict / C05_lax_prefix   strict slicing -> lax slicing
     C04_lax_headers_eq_slices        lax slicing cut at a refilled extension header = LaxPacketHeaders
   Both compositions pass through the UNCUT slicing results; they are therefore stated outside the
   documented struct-decoding exception: `stopped_at_ext (Cut.from_* true bs) = false` (strict) and
   `lax_stopped_at_ext (LaxCut.from_* true bs) = false` (lax): no IPv6 extension header of a kind whose
   struct slot is already filled.  Inside that class the two struct decoders are still compared with
   each other on every generated case on the implementation side. *)
From EP Require Import Parse.HdrView Parse.HdrCut Parse.HdrProofs3 Parse.HdrLaxView Parse.HdrLaxCut
  Parse.HdrLaxC05.

(* (a): whenever strict PacketHeaders accepts (Ok hp), LaxPacketHeaders returns Ok with the same link /
   link extension / network / transport header windows, the same payload (kind, ether type or IP
   number + fragmentation flag + length source, window; for an ether payload the length source is
   left out: observation (D) of notes/C04.md), no stop error and the payload not marked incomplete *)
Theorem C05_headers_lax_extends_strict : forall bs et, bytes_ok bs ->
  (forall hp, PacketHeaders.from_ethernet_slice bs = Ok hp ->
     stopped_at_ext (Cut.from_ethernet true bs) = false ->
     lax_stopped_at_ext (LaxCut.from_ethernet true bs) = false ->
     hdr_same hp (LaxPacketHeaders.from_ethernet bs)) /\
  (forall hp, PacketHeaders.from_ether_type et bs = Ok hp ->
     stopped_at_ext (Cut.from_ether_type true et bs) = false ->
     lax_stopped_at_ext (LaxCut.from_ether_type true et bs) = false ->
     hdr_same hp (LaxPacketHeaders.from_ether_type et bs)) /\
  (forall hp, PacketHeaders.from_ip_slice bs = Ok hp ->
     stopped_at_ext (Cut.from_ip true bs) = false ->
     lax_stopped_at_ext (LaxCut.from_ip true bs) = false ->
     hdr_same hp (LaxPacketHeaders.from_ip bs)).
Proof. exact hdr_lax_extends_strict. Qed.
Print Assumptions C05_headers_lax_extends_strict.

Check (eq_refl : hdr_same =
  fun hp lh =>
    exists p v v0, lh = Ok p /\ lhview_of p = Ok v /\ hview_of hp = Ok v0 /\
      option_map hvlink_win (lhv_link v) = hv_link v0 /\ lhv_exts v = hv_exts v0 /\
      lhv_net v = hv_net v0 /\ lhv_tr v = hv_tr v0 /\
      same_payload (strip_inc (lhv_payload v)) (hv_payload v0) /\
      payload_inc (lhv_payload v) = false /\ lhv_stop v = None).
Check (eq_refl : same_payload =
  fun a b => a = b \/ exists e e', a = HvpEther e /\ b = HvpEther e' /\
                                   vep_type e = vep_type e' /\ vep_win e = vep_win e').

(* (b): strict slicing rejects with e behind the first header  ==>  the instrumented reference decoder
   rejects with (q, e_ref) (q = the layers in front of the fault -- it never contains a transport layer --,
   e_ref = the fault, C03/C07 relation to e), LaxPacketHeaders returns Ok p, and outside F10: the link
   extensions and the network header of q are layers of p with their header windows, and e_ref is a
   documented length fallback, or the stop error of p is the same record (length source: the true one,
   Slice, or F7) with a fitting layer tag, or (F11 group) e_ref is a fault of the IP header itself and the
   stop error of p is a fault of the IP header with tag IpHeader (at the same offset unless p is in the
   F11-like class `f11_stop`).
   Audit round 1: `hdr_prefix` of Parse/HdrLaxC05.v had a third conjunct `v_transport q = None \/
   lhv_tr v <> None` that is vacuous (the prefix of a rejection never has a transport layer:
   pwire_rej_no_transport, Parse/LaxHdrPrefix2.v); it is replaced by the fact `v_transport q = None`.
   As for C05_lax_prefix, q has layer granularity: for a fault inside the network layer `v_net q = None`;
   that case is C05_headers_lax_prefix_net (last block of this file). *)
From EP Require Import Parse.LaxHdrPrefix2.
Theorem C05_headers_lax_prefix : forall bs et, bytes_ok bs ->
  (14 <= len bs ->
   hdr_prefix_ok2 bs (SlicedPacket.from_ethernet bs) (pwire_ethernet bs)
     (LaxCut.from_ethernet true bs) (LaxPacketHeaders.from_ethernet bs)) /\
  hdr_prefix_ok2 bs (SlicedPacket.from_ether_type et bs) (pwire_ether_type bs et)
    (LaxCut.from_ether_type true et bs) (LaxPacketHeaders.from_ether_type et bs) /\
  (ip_header_fault bs = None ->
   hdr_prefix_ok2 bs (SlicedPacket.from_ip bs) (pwire_from_ip bs)
     (LaxCut.from_ip true bs) (LaxPacketHeaders.from_ip bs)).
Proof. exact hdr_lax_prefix2. Qed.
Print Assumptions C05_headers_lax_prefix.

Check (eq_refl : hdr_prefix_ok2 =
  fun bs strict pw laxcut lh => forall e, strict = Err e -> lax_stopped_at_ext laxcut = false ->
    exists q e_ref p v,
      pw = PRej q e_ref /\ v_transport q = None /\ res_rel (VErr e) (VErr e_ref) /\ lh = Ok p /\
      lhview_of p = Ok v /\
      (~ F10_class bs e_ref -> hdr_prefix2 q v /\ hdr_outcome e_ref v)).
Check (eq_refl : hdr_prefix2 =
  fun q v =>
    (exists rest, lhv_exts v = map ext_hdr (v_exts q) ++ rest) /\
    (v_net q = None \/ option_map net_hdr (v_net q) = lhv_net v)).
Check (eq_refl : hdr_outcome =
  fun e v =>
    fallback e \/
    (exists e' ly, lhv_stop v = Some (e', ly) /\ lax_same e e' /\ tag_ok e' ly) \/
    (ip_hdr_class e /\
     exists e', lhv_stop v = Some (e', LyIpHeader) /\ ip_hdr_class e' /\
       (f11_stop (lhv_stop v) = false ->
        forall o o', err_off e = Some o -> err_off e' = Some o' -> o = o'))).

(* non-vacuity.  (a): the packet of C05_ex_extends; (b): the packet of C05_ex_prefix_stop (TCP header
   cut short: recorded on layer TcpHeader, IPv4 layer in front of the fault) *)
Example C05_ex_headers_extends :
  bytes_ok ex_pkt /\
  (exists hp, PacketHeaders.from_ethernet_slice ex_pkt = Ok hp) /\
  stopped_at_ext (Cut.from_ethernet true ex_pkt) = false /\
  lax_stopped_at_ext (LaxCut.from_ethernet true ex_pkt) = false /\
  lhvres_of_h (LaxPacketHeaders.from_ethernet ex_pkt) =
    LHOk (mkLHv (Some (HvlEthernet2 (0, 14))) [HvVlan (14, 4)] (Some (HvIpv4 (18, 20) None))
                (Some (HvUdp (38, 8))) (LHvpUdp false (46, 4)) None).
Proof.
  split; [apply bytes_okb_spec; vm_compute; reflexivity|].
  split; [eexists; vm_compute; reflexivity|]. repeat split; vm_compute; reflexivity.
Qed.

Example C05_ex_headers_prefix :
  bytes_ok ex_tcp_cut /\ 14 <= len ex_tcp_cut /\
  SlicedPacket.from_ethernet ex_tcp_cut = Err (ELen (mkLenError 20 4 LsIpv4HeaderTotalLen LyTcpHeader 34)) /\
  lax_stopped_at_ext (LaxCut.from_ethernet true ex_tcp_cut) = false /\
  lhvres_of_h (LaxPacketHeaders.from_ethernet ex_tcp_cut) =
    LHOk (mkLHv (Some (HvlEthernet2 (0, 14))) [] (Some (HvIpv4 (14, 20) None)) None
                (LHvpIp (mkLVIp false 6 false LsIpv4HeaderTotalLen (34, 4)))
                (Some (ELen (mkLenError 20 4 LsIpv4HeaderTotalLen LyTcpHeader 34), LyTcpHeader))).
Proof.
  split; [apply bytes_okb_spec; vm_compute; reflexivity|].
  split; [vm_compute; discriminate|]. repeat split; vm_compute; reflexivity.
Qed.
(* ---- end extend-c04lax ---- *)

(* ---- audit round 1 (C05): faults INSIDE the network layer ------------------------------------------
   `pwire_*` above has layer granularity: for a fault inside the network layer (IPv4 authentication
   header, IPv6 extension header chain, IPv4 total length / IPv6 payload length larger than the data) its
   rejection prefix q has `v_net q = None`, so C05_lax_prefix says nothing about the IP header, the good
   extension headers in front of the faulty one, or the IP payload descriptor of the lax result.
   `pwire2_*` (Parse/LaxWire2.v) is the same strict reference decoder instrumented more finely:
     P2RejNet q n tag e   fault e at an authentication / extension header of kind `tag` behind a good IP
                          header; n = the network layer as far as it decodes (IP header window; IPv6: first
                          next-header, fragmentation flag so far, window of the extension headers completely
                          decoded in front of the faulty one; payload descriptor = from the faulty header to
                          the end of what the IP length field allows, ip number = the one that announced
                          the faulty header)
     P2Fb q e inc resumed e = the IPv4 total length / IPv6 payload length check (documented fallback);
                          resumed = the same strict decoder continued with the data that is there (limit =
                          end of the enclosing data, length source Slice), inc = the field promised more
                          than is there
     P2Rej q e            any other rejection, as pwire.
   Forgetting the extra information gives pwire back, hence WireSpec: pwire2 accepts / rejects exactly like
   the wire format specification, with the same error record. *)
From EP Require Import Parse.LaxWire2 Parse.LaxPrefixNet.

Theorem C05_partial_reference2_sound : forall bs et,
  (to_pres (pwire2_ethernet bs) = pwire_ethernet bs /\
   to_pres (pwire2_ether_type bs et) = pwire_ether_type bs et /\
   to_pres (pwire2_from_ip bs) = pwire_from_ip bs) /\
  (forget (to_pres (pwire2_ethernet bs)) = wire_ethernet bs /\
   forget (to_pres (pwire2_ether_type bs et)) = wire_ether_type bs et /\
   forget (to_pres (pwire2_from_ip bs)) = wire_from_ip bs).
Proof. exact (fun bs et => conj (pwire2_is_pwire bs et) (pwire2_sound bs et)). Qed.
Print Assumptions C05_partial_reference2_sound.

Check (eq_refl : to_pres =
  fun r => match r with
           | P2Acc p => PAcc p
           | P2Rej p e | P2RejNet p _ _ e | P2Fb p e _ _ => PRej p e
           | P2Bug s => PBug s
           end).

(* strict model = Err e behind the first header  ==>  pwire2 rejects with e_ref = the fault the strict model
   reports (C03/C07 relation res_rel); it answers P2RejNet / P2Fb EXACTLY when e names a place inside the
   network layer (in_net_layer e: layer IpAuthHeader / Ipv6ExtHeader / Ipv6FragHeader / Ipv4Packet /
   Ipv6Packet, or content error zero authentication payload length / hop-by-hop not at start); the lax model
   returns Ok r' and
     - P2RejNet _ n tag e_ref : the network layer of r' is exactly n, the stop error is exactly (e_ref, tag)
       -- the same record incl. length source, on the tag of the faulty header (Ipv6HopByHopHeader /
       Ipv6DestOptionsHeader / Ipv6RouteHeader / Ipv6FragHeader / IpAuthHeader) -- and no transport layer;
     - P2Fb _ e_ref inc resumed : the network layer n of r' has incomplete = inc and len_source = Slice
       (clause (d)), and it is the network layer of the resumed strict decoding: if that fails inside the
       network layer (P2RejNet), n is exactly its network layer and the stop error exactly its (error, tag);
       if it accepts or fails behind the network layer, its network layer is n without the incomplete flag,
       and a fault e' behind it is again a documented fallback or recorded (lax_outcome e').
   No F10 exclusion is needed: in the F10 class pwire2 answers P2Rej.  Holds for all byte strings. *)
Theorem C05_lax_prefix_net : forall bs et, bytes_ok bs ->
  (14 <= len bs ->
   prefix_net_ok (SlicedPacket.from_ethernet bs) (pwire2_ethernet bs) (LaxSlicedPacket.from_ethernet bs)) /\
  prefix_net_ok (SlicedPacket.from_ether_type et bs) (pwire2_ether_type bs et)
    (LaxSlicedPacket.from_ether_type et bs) /\
  (ip_header_fault bs = None ->
   prefix_net_ok (SlicedPacket.from_ip bs) (pwire2_from_ip bs) (LaxSlicedPacket.from_ip bs)).
Proof. exact lax_prefix_net_packet. Qed.
Print Assumptions C05_lax_prefix_net.

(* pin the meaning *)
Check (eq_refl : prefix_net_ok =
  fun strict pw lax => forall e, strict = Err e ->
    exists e_ref r',
      rej2 pw = Some e_ref /\ res_rel (VErr e) (VErr e_ref) /\
      is_net_rej pw = in_net_layer e /\
      lax = Ok r' /\ net_outcome lax_outcome pw (lview r')).
Check (eq_refl : rej2 =
  fun r => match r with P2Rej _ e | P2RejNet _ _ _ e | P2Fb _ e _ _ => Some e | _ => None end).
Check (eq_refl : is_net_rej =
  fun r => match r with P2RejNet _ _ _ _ | P2Fb _ _ _ _ => true | _ => false end).
Check (eq_refl : in_net_layer =
  fun e => match e with
           | ELen l => match le_layer l with
                       | LyIpAuthHeader | LyIpv6ExtHeader | LyIpv6FragHeader | LyIpv4Packet | LyIpv6Packet => true
                       | _ => false
                       end
           | EContent c => match c with
                           | CeAuthZeroPayloadLen | CeIpv6AuthZeroPayloadLen | CeHopByHopNotAtStart => true
                           | _ => false
                           end
           end).
Check (eq_refl : stopped_in_net =
  fun q n tag e => lv_net q = Some n /\ lv_stop q = Some (e, tag) /\ lv_transport q = None).
Check (eq_refl : net_outcome =
  fun behind pw q =>
    match pw with
    | P2RejNet _ n tag e => stopped_in_net q n tag e
    | P2Fb _ _ inc resumed =>
        exists n, lv_net q = Some n /\ net_flags n = Some (inc, LsSlice) /\
          match resumed with
          | P2RejNet _ n' tag e' => n' = n /\ stopped_in_net q n tag e'
          | P2Acc q' => v_net q' = Some (strictify_net n)
          | P2Rej q' e' => v_net q' = Some (strictify_net n) /\ behind e' q
          | _ => False
          end
    | _ => True
    end).
Check (eq_refl : net_flags =
  fun n => match n with
           | LVIpv4 _ _ p | LVIpv6 _ _ _ _ p => Some (lvip_incomplete p, lvip_src p)
           | LVArp _ => None
           end).

(* ---- (d), single layer, for LaxIpSlice::from_slice (C05_incomplete_iff lists LaxIpv4Slice / LaxIpv6Slice /
   LaxMacsecSlice): on every window [pos, lim) of every buffer the payload of the returned IPv4 / IPv6 slice
   is marked incomplete exactly when the total length (40 + payload length) read at the window's start
   exceeds the window; then len_source = Slice and the payload ends at the window's end
   (net_flag_ok / ip_flag_ok pinned above; the whole buffer is `repr_whole`) *)
Theorem C05_incomplete_iff_ipslice : forall bs s pos lim ip st,
  bytes_ok bs -> repr bs s pos lim ->
  LaxIpSlice.from_slice s = Ok (ip, st) ->
  net_flag_ok bs (pos, lim - pos) (lview_net (LaxSlicedPacketCursor.net_of_ip ip)).
Proof. exact lax_ipslice_incomplete. Qed.
Print Assumptions C05_incomplete_iff_ipslice.

(* ---- non-vacuity ----------------------------------------------------------------------------------------- *)
(* the auditor's packet: Ethernet II / IPv6 (payload length 20) / destination options (8 bytes, complete,
   next = routing) / routing header announcing 16 bytes with 12 present.  pwire hands back no network layer;
   pwire2 hands back the IPv6 header, first next-header 60, the extension window [54, 62) and the payload
   descriptor (number 43, [62, 74)); lax has exactly that network layer and the stop error on Ipv6RouteHeader *)
Definition ex_v6_route_cut : bytes :=
  [1;2;3;4;5;6; 7;8;9;10;11;12; 134;221;
   96;0;0;0; 0;20; 60;64] ++ repeat 0 32 ++ [43;0;0;0;0;0;0;0] ++ [17;1;0;0;0;0;0;0;0;0;0;0].
Definition ex_v6_route_err : slice_error :=
  ELen (mkLenError 16 12 LsIpv6HeaderPayloadLen LyIpv6ExtHeader 62).
Definition ex_v6_route_net : lvnet :=
  LVIpv6 (14, 40) (Some 60) false (54, 8) (mkLVIp false 43 false LsIpv6HeaderPayloadLen (62, 12)).
Example C05_ex_prefix_net_v6 :
  bytes_ok ex_v6_route_cut /\ 14 <= len ex_v6_route_cut /\
  SlicedPacket.from_ethernet ex_v6_route_cut = Err ex_v6_route_err /\
  in_net_layer ex_v6_route_err = true /\
  pwire_ethernet ex_v6_route_cut =
    PRej (mkVPacket (Some (VEthernet2 (0, 74))) [] None None) ex_v6_route_err /\
  pwire2_ethernet ex_v6_route_cut =
    P2RejNet (mkVPacket (Some (VEthernet2 (0, 74))) [] None None) ex_v6_route_net
      LyIpv6RouteHeader ex_v6_route_err /\
  exists r', LaxSlicedPacket.from_ethernet ex_v6_route_cut = Ok r' /\
    lv_net (lview r') = Some ex_v6_route_net /\
    lsp_stop_err r' = Some (ex_v6_route_err, LyIpv6RouteHeader).
Proof.
  split; [apply bytes_okb_spec; vm_compute; reflexivity|].
  split; [vm_compute; discriminate|].
  split; [vm_compute; reflexivity|]. split; [reflexivity|].
  split; [vm_compute; reflexivity|]. split; [vm_compute; reflexivity|].
  eexists. split; [vm_compute; reflexivity|]. split; reflexivity.
Qed.

(* bare IPv4 (total length 32) / authentication header with payload length 0: content error; the network
   layer handed back = IPv4 header, no authentication header, payload (number 51) = the 12 bytes behind *)
Definition ex_v4_ah_zero : bytes :=
  [69;0;0;32; 0;0;0;0; 64;51;0;0; 1;2;3;4; 5;6;7;8] ++ [17;0;0;0;0;0;0;0;0;0;0;0].
Example C05_ex_prefix_net_v4 :
  bytes_ok ex_v4_ah_zero /\ ip_header_fault ex_v4_ah_zero = None /\
  SlicedPacket.from_ip ex_v4_ah_zero = Err (EContent CeAuthZeroPayloadLen) /\
  pwire2_from_ip ex_v4_ah_zero =
    P2RejNet empty_packet (LVIpv4 (0, 20) None (mkLVIp false 51 false LsIpv4HeaderTotalLen (20, 12)))
      LyIpAuthHeader (EContent CeAuthZeroPayloadLen) /\
  exists r', LaxSlicedPacket.from_ip ex_v4_ah_zero = Ok r' /\
    lv_net (lview r') = Some (LVIpv4 (0, 20) None (mkLVIp false 51 false LsIpv4HeaderTotalLen (20, 12))) /\
    lsp_stop_err r' = Some (EContent CeAuthZeroPayloadLen, LyIpAuthHeader).
Proof.
  split; [apply bytes_okb_spec; vm_compute; reflexivity|].
  split; [vm_compute; reflexivity|]. split; [vm_compute; reflexivity|].
  split; [vm_compute; reflexivity|].
  eexists. split; [vm_compute; reflexivity|]. split; reflexivity.
Qed.

(* length fallback: bare IPv4 announcing 100 bytes with 24 present, protocol 51, 4 bytes of an
   authentication header: strict rejects at the total length; the resumed decoding fails at the
   authentication header; lax: payload incomplete, length source Slice, ends at the slice end, stop error
   = the resumed decoder's on IpAuthHeader.  Also an instance of C05_incomplete_iff_ipslice *)
Definition ex_v4_fb_ah : bytes :=
  [69;0;0;100; 0;0;0;0; 64;51;0;0; 1;2;3;4; 5;6;7;8] ++ [17;4;0;0].
Example C05_ex_prefix_net_fallback :
  bytes_ok ex_v4_fb_ah /\ ip_header_fault ex_v4_fb_ah = None /\
  SlicedPacket.from_ip ex_v4_fb_ah = Err (ELen (mkLenError 100 24 LsSlice LyIpv4Packet 0)) /\
  pwire2_from_ip ex_v4_fb_ah =
    P2Fb empty_packet (ELen (mkLenError 100 24 LsSlice LyIpv4Packet 0)) true
      (P2RejNet empty_packet (LVIpv4 (0, 20) None (mkLVIp true 51 false LsSlice (20, 4)))
         LyIpAuthHeader (ELen (mkLenError 12 4 LsSlice LyIpAuthHeader 20))) /\
  (exists r', LaxSlicedPacket.from_ip ex_v4_fb_ah = Ok r' /\
    lv_net (lview r') = Some (LVIpv4 (0, 20) None (mkLVIp true 51 false LsSlice (20, 4))) /\
    lsp_stop_err r' = Some (ELen (mkLenError 12 4 LsSlice LyIpAuthHeader 20), LyIpAuthHeader)) /\
  exists ip st, LaxIpSlice.from_slice (mk_slice ex_v4_fb_ah) = Ok (ip, st) /\
    lview_net (LaxSlicedPacketCursor.net_of_ip ip) =
      LVIpv4 (0, 20) None (mkLVIp true 51 false LsSlice (20, 4)).
Proof.
  split; [apply bytes_okb_spec; vm_compute; reflexivity|].
  split; [vm_compute; reflexivity|]. split; [vm_compute; reflexivity|].
  split; [vm_compute; reflexivity|]. split.
  - eexists. split; [vm_compute; reflexivity|]. split; reflexivity.
  - eexists _, _. split; vm_compute; reflexivity.
Qed.
(* ---- end audit round 1 ---- *)

(* ---- audit round 2 (C05): LaxPacketHeaders, faults INSIDE the network layer ---------------------------------
   C05_headers_lax_prefix above inherits pwire's layer granularity: for a fault inside the network layer it
   speaks about the link extensions and the stop error only.  Here the finer reference decoder pwire2 of
   C05_lax_prefix_net is carried over to LaxPacketHeaders, by composition (Parse/LaxHdrPrefixNet.v) of
   C05_lax_prefix_net with C04's lax whole-packet theorem (C04_lax_headers_eq_slices: `lhagree` between
   LaxPacketHeaders and the lax slicing result cut at a refilled extension header), C04_lax_cut_is_slicing_*
   and C04_lax_ipv6_slots_in_order.  No new model.

   strict slicing = Err e behind the first header, outside the documented struct-decoding exception
   (`lax_stopped_at_ext (LaxCut.from_* true bs) = false`)  ==>  everything C05_lax_prefix_net says about
   pwire2 and the LaxSlicedPacket result r', and LaxPacketHeaders returns Ok p with view v such that
     - pwire2 = P2RejNet _ n tag e_ref (fault at an authentication / extension header behind a good IP header):
       the network header windows of v are exactly those of n (IP header window; IPv4: no authentication
       header; IPv6: first next-header, fragmentation flag so far, window of the extension headers
       completely decoded in front of the faulty one), v has no transport header, the payload of v is the IP
       payload descriptor of n (incomplete flag, the ip number that announced the faulty header,
       fragmentation flag, length source, window from the faulty header to the end of what the IP length
       field allows), and the stop error of v is (e', tag) with the EXACT layer tag and e' = e_ref, or e' =
       e_ref with the length source replaced by Slice (`stop_same`: C04's disclosed relaxation, observation
       (C) of notes/C04.md).  The relaxation is needed inside the network layer:
       C05_headers_stop_src_refuted below is the witness (MACsec short length in front of an IPv6 payload
       length fallback: the reference decoder and LaxSlicedPacket name MacsecShortLength in the record,
       LaxPacketHeaders names Slice);
     - pwire2 = P2Fb _ _ inc resumed (IPv4 total length / IPv6 payload length fallback): the network header
       windows of v are those of the network layer n of the resumed strict decoding, net_flags n = (inc,
       Slice), the payload of v is flagged incomplete exactly when inc; resumed = P2RejNet: the previous
       item for it; resumed accepts / fails behind the network layer: n is its network layer and a fault
       behind it satisfies hdr_outcome (as in C05_headers_lax_prefix);
     - IPv6: the struct's slots hold exactly the extension headers the (uncut) LaxSlicedPacket result r'
       iterates to -- the headers decoded in front of the fault, whose window is the extension window of n
       (`lax_slots_in_order`, pinned at C04_lax_ipv6_slots_in_order).
   The F11 clause of C04's stop error relation cannot fire: every P2RejNet of pwire2, nested ones included,
   carries an error with in_net_layer = true (C05_partial_reference2_nested_class). *)
From EP Require Import Parse.HdrLaxSlots2 Parse.LaxHdrPrefixNet.

Theorem C05_partial_reference2_nested_class : forall bs et,
  nested_class (pwire2_ethernet bs) /\ nested_class (pwire2_ether_type bs et) /\
  nested_class (pwire2_from_ip bs).
Proof. exact pwire2_nested_class. Qed.
Print Assumptions C05_partial_reference2_nested_class.

Theorem C05_headers_lax_prefix_net : forall bs et, bytes_ok bs ->
  (14 <= len bs ->
   hdr_prefix_net_ok (SlicedPacket.from_ethernet bs) (pwire2_ethernet bs)
     (LaxCut.from_ethernet true bs) (LaxSlicedPacket.from_ethernet bs) (LaxPacketHeaders.from_ethernet bs)) /\
  hdr_prefix_net_ok (SlicedPacket.from_ether_type et bs) (pwire2_ether_type bs et)
    (LaxCut.from_ether_type true et bs) (LaxSlicedPacket.from_ether_type et bs)
    (LaxPacketHeaders.from_ether_type et bs) /\
  (ip_header_fault bs = None ->
   hdr_prefix_net_ok (SlicedPacket.from_ip bs) (pwire2_from_ip bs)
     (LaxCut.from_ip true bs) (LaxSlicedPacket.from_ip bs) (LaxPacketHeaders.from_ip bs)).
Proof. exact hdr_lax_prefix_net. Qed.
Print Assumptions C05_headers_lax_prefix_net.

(* pin the meaning *)
Check (eq_refl : hdr_prefix_net_ok =
  fun strict pw laxcut lax lh => forall e, strict = Err e -> lax_stopped_at_ext laxcut = false ->
    exists e_ref r' p v,
      rej2 pw = Some e_ref /\ res_rel (VErr e) (VErr e_ref) /\ is_net_rej pw = in_net_layer e /\
      lax = Ok r' /\ net_outcome lax_outcome pw (lview r') /\
      lh = Ok p /\ lhview_of p = Ok v /\ hdr_net_outcome pw v /\
      lax_slots_in_order (Ok p) (Ok r')).
Check (eq_refl : hdr_net_outcome =
  fun pw v =>
    match pw with
    | P2RejNet _ n tag e => hdr_stopped_in_net v n tag e
    | P2Fb _ _ inc resumed =>
        exists n, lhv_net v = Some (lnet_hdr n) /\ net_flags n = Some (inc, LsSlice) /\
          payload_inc (lhv_payload v) = inc /\
          match resumed with
          | P2RejNet _ n' tag e' => n' = n /\ hdr_stopped_in_net v n tag e'
          | P2Acc q' => v_net q' = Some (strictify_net n)
          | P2Rej q' e' => v_net q' = Some (strictify_net n) /\ hdr_outcome e' v
          | _ => False
          end
    | _ => True
    end).
Check (eq_refl : hdr_stopped_in_net =
  fun v n tag e =>
    lhv_net v = Some (lnet_hdr n) /\ lhv_tr v = None /\ lhv_payload v = lnet_payload n /\
    exists e', lhv_stop v = Some (e', tag) /\ stop_same e' e).
Check (eq_refl : lnet_hdr =
  fun n => match strictify_net n with
           | VIpv4 h a _ => HvIpv4 h a
           | VIpv6 h f fr x _ => HvIpv6 h f fr x
           | VArp w => HvArp w
           end).
Check (eq_refl : lnet_payload =
  fun n => match n with LVIpv4 _ _ p | LVIpv6 _ _ _ _ p => LHvpIp p | LVArp _ => LHvpEmpty end).
Check (eq_refl : stop_same =
  fun eh es =>
    match eh, es with
    | ELen lh, ELen ls => lh = ls \/ lh = le_set_src ls LsSlice
    | EContent c, EContent c' => c = c'
    | _, _ => False
    end).
Check (eq_refl : nested_class =
  fix nc (pw : pres2) : Prop :=
    match pw with
    | P2RejNet _ _ _ e => in_net_layer e = true
    | P2Fb _ _ _ r => nc r
    | _ => True
    end).

(* `stop_same` cannot be strengthened to equality, also for faults inside the network layer: on this packet
   (Ethernet II / MACsec with short length / IPv6 whose payload length exceeds the data / destination options
   / routing header cut short) pwire2 answers P2Fb .. (P2RejNet .. (ELen l)) with le_src l =
   MacsecShortLength, LaxSlicedPacket records exactly that, LaxPacketHeaders records l with source Slice;
   the network header windows, the payload descriptor and the layer tag agree *)
Theorem C05_headers_stop_src_refuted :
  exists bs q q' e n l,
    bytes_ok bs /\ 14 <= len bs /\ lax_stopped_at_ext (LaxCut.from_ethernet true bs) = false /\
    pwire2_ethernet bs = P2Fb q e true (P2RejNet q' n LyIpv6RouteHeader (ELen l)) /\
    le_src l = LsMacsecShortLength /\
    (exists r', LaxSlicedPacket.from_ethernet bs = Ok r' /\
                lsp_stop_err r' = Some (ELen l, LyIpv6RouteHeader)) /\
    exists p v, LaxPacketHeaders.from_ethernet bs = Ok p /\ lhview_of p = Ok v /\
                lhv_net v = Some (lnet_hdr n) /\ lhv_payload v = lnet_payload n /\
                lhv_stop v = Some (ELen (le_set_src l LsSlice), LyIpv6RouteHeader) /\
                ELen (le_set_src l LsSlice) <> ELen l.
Proof. exact lax_hdr_stop_src_refuted. Qed.
Print Assumptions C05_headers_stop_src_refuted.

(* non-vacuity: the packet of C05_ex_prefix_net_v6 (routing header cut short behind a complete destination
   options header): hypotheses hold, pwire2 = P2RejNet, the struct view has the IPv6 header window, first
   next-header 60, the extension window [54, 62), the payload descriptor (number 43, [62, 74)), the stop error
   = the reference decoder's record on Ipv6RouteHeader; the destination options slot holds [54, 62), the
   routing slot is empty *)
Example C05_ex_headers_prefix_net_v6 :
  bytes_ok ex_v6_route_cut /\ 14 <= len ex_v6_route_cut /\
  SlicedPacket.from_ethernet ex_v6_route_cut = Err ex_v6_route_err /\
  lax_stopped_at_ext (LaxCut.from_ethernet true ex_v6_route_cut) = false /\
  pwire2_ethernet ex_v6_route_cut =
    P2RejNet (mkVPacket (Some (VEthernet2 (0, 74))) [] None None) ex_v6_route_net
      LyIpv6RouteHeader ex_v6_route_err /\
  lhvres_of_h (LaxPacketHeaders.from_ethernet ex_v6_route_cut) =
    LHOk (mkLHv (Some (HvlEthernet2 (0, 14))) [] (Some (HvIpv6 (14, 40) (Some 60) false (54, 8))) None
                (LHvpIp (mkLVIp false 43 false LsIpv6HeaderPayloadLen (62, 12)))
                (Some (ex_v6_route_err, LyIpv6RouteHeader))) /\
  lnet_hdr ex_v6_route_net = HvIpv6 (14, 40) (Some 60) false (54, 8) /\
  exists p hd x, LaxPacketHeaders.from_ethernet ex_v6_route_cut = Ok p /\
    lh_net p = Some (HnIp (IhV6 hd x)) /\
    map (fun k => option_map win_of (HdrSlots.slot_get x k))
        [HdrSlots.SHbh; HdrSlots.SDest; HdrSlots.SRoute; HdrSlots.SFdest; HdrSlots.SFrag; HdrSlots.SAuth] =
      [None; Some (54, 8); None; None; None; None].
Proof.
  split; [apply bytes_okb_spec; vm_compute; reflexivity|].
  split; [vm_compute; discriminate|]. split; [vm_compute; reflexivity|].
  split; [vm_compute; reflexivity|]. split; [vm_compute; reflexivity|].
  split; [vm_compute; reflexivity|]. split; [reflexivity|].
  do 3 eexists. split; [vm_compute; reflexivity|]. split; [reflexivity|]. vm_compute; reflexivity.
Qed.

(* the fallback case: the packet of C05_ex_prefix_net_fallback (IPv4 announcing 100 bytes with 24 present,
   4 bytes of an authentication header) *)
Example C05_ex_headers_prefix_net_fallback :
  bytes_ok ex_v4_fb_ah /\ ip_header_fault ex_v4_fb_ah = None /\
  lax_stopped_at_ext (LaxCut.from_ip true ex_v4_fb_ah) = false /\
  lhvres_of_h (LaxPacketHeaders.from_ip ex_v4_fb_ah) =
    LHOk (mkLHv None [] (Some (HvIpv4 (0, 20) None)) None
                (LHvpIp (mkLVIp true 51 false LsSlice (20, 4)))
                (Some (ELen (mkLenError 12 4 LsSlice LyIpAuthHeader 20), LyIpAuthHeader))).
Proof.
  split; [apply bytes_okb_spec; vm_compute; reflexivity|]. repeat split; vm_compute; reflexivity.
Qed.
(* ---- end audit round 2 ---- *)

(* ==== round3 c05d begin ==== *)
(* ---- round 3 (audit top-12 item 7, first half): clause (d) for LaxPacketHeaders -----------------------------
   Composition (Parse/LaxHdrIncomplete.v) of C04_lax_headers_eq_slices (LaxPacketHeaders = cut lax slicing),
   C04_lax_cut_is_slicing_* (cut = uncut outside the refilled-extension class), lconv_payload_inc / the text
   of `lconv` and `carry_src`, and C05_incomplete_iff_packet.  No new model.

   LaxPacketHeaders.from_X bs = Ok p (X = ethernet / ether_type et / ip), outside the refilled-extension
   class  ==>  LaxSlicedPacket.from_X bs = Ok r' with packet_flags_ok (C05_incomplete_iff_packet: every
   MACsec extension and the IP layer of r' is flagged exactly when its length field, read from the buffer at
   the layer's absolute position, promises more than the enclosing slice holds), the link-extension and
   network header windows of p are those of r', and the one payload p hands out is
     - behind an IPv4 / IPv6 header at the start of the enclosing slice enc = enc_after enc0 (exts of r'):
       flagged incomplete exactly when  snd enc < total length  /  snd enc < 40 + payload length  (words of the
       buffer at fst enc + 2 / fst enc + 4); when p has no transport header the payload is an IP payload
       descriptor with ip_flag_ok: flagged => length source Slice, window ends at the end of enc;
     - behind ARP (no transport header): Empty;
     - no network and no transport header, last link extension MACsec (hp, hl) decoded from the slice enc =
       (pos, a): hp = pos, flagged exactly when (0 < sl) && (a < hl + body) (sl = B(pos+1) mod 64, body = sl
       or sl - 2), flagged => the window is (pos + hl, a - hl) and ends at the end of enc, and for an
       unmodified payload the length source is `lvexts_src ys Slice`: the last length source other than
       Slice of the MACsec extensions in FRONT (= Slice when none of them had a short length);
     - no network and no transport header, last link extension a VLAN tag / no link extension: not flagged.
   Clause (d3) "the slice reported as length source" is thereby proved for IP payloads and for the ether
   payload behind a single MACsec header; behind two MACsec headers it is REFUTED for LaxPacketHeaders
   (C05_headers_incomplete_src_refuted: real crate behaviour, observation (D) of notes/C04.md reaching (d3)).
   The transport payloads (Udp / Tcp / Icmpv4 / Icmpv6 { incomplete }) carry the IP payload's flag and no
   length source.  from_ip needs no F11 hypothesis (inside F11 LaxPacketHeaders::from_ip returns Err). *)
From EP Require Import Parse.LaxHdrIncomplete.

Theorem C05_headers_incomplete_iff : forall bs et, bytes_ok bs ->
  hdr_flags_ok bs (14, len bs - 14) (LaxCut.from_ethernet true bs) (LaxSlicedPacket.from_ethernet bs)
    (LaxPacketHeaders.from_ethernet bs) /\
  hdr_flags_ok bs (0, len bs) (LaxCut.from_ether_type true et bs) (LaxSlicedPacket.from_ether_type et bs)
    (LaxPacketHeaders.from_ether_type et bs) /\
  hdr_flags_ok bs (0, len bs) (LaxCut.from_ip true bs) (LaxSlicedPacket.from_ip bs)
    (LaxPacketHeaders.from_ip bs).
Proof. exact hdr_lax_incomplete_iff. Qed.
Print Assumptions C05_headers_incomplete_iff.

(* pin the meaning *)
Check (eq_refl : hdr_flags_ok =
  fun bs enc0 laxcut lax lh => forall p, lh = Ok p -> lax_stopped_at_ext laxcut = false ->
    exists r' v,
      lax = Ok r' /\ lhview_of p = Ok v /\
      packet_flags_ok bs enc0 (lview r') /\
      lhv_exts v = map (fun x => ext_hdr (strictify_ext x)) (lv_exts (lview r')) /\
      lhv_net v = option_map lnet_hdr (lv_net (lview r')) /\
      hdr_payload_flag_ok bs enc0 (lview r') v).
Check (eq_refl : hdr_payload_flag_ok =
  fun bs enc0 q v =>
    let pl := lhv_payload v in
    let enc := enc_after enc0 (lv_exts q) in
    match lv_net q with
    | Some (LVIpv4 _ _ _) => ip_payload_ok enc (W bs (fst enc + 2)) (lhv_tr v) pl
    | Some (LVIpv6 _ _ _ _ _) => ip_payload_ok enc (40 + W bs (fst enc + 4)) (lhv_tr v) pl
    | Some (LVArp _) => lhv_tr v = None -> pl = LHvpEmpty
    | None =>
        lhv_tr v = None ->
        (forall ys hdr mp, lv_exts q = ys ++ [LVMacsec hdr mp] ->
           macsec_payload_ok bs (enc_after enc0 ys) (lvexts_src ys LsSlice) hdr pl) /\
        (forall ys w, lv_exts q = ys ++ [LVVlan w] -> payload_inc pl = false) /\
        (lv_exts q = [] -> payload_inc pl = false)
    end).
Check (eq_refl : ip_payload_ok =
  fun enc promised tr pl =>
    payload_inc pl = (snd enc <? promised) /\
    (tr = None -> exists p, pl = LHvpIp p /\ ip_flag_ok enc promised p)).
Check (eq_refl : macsec_payload_ok =
  fun bs enc carried hdr pl =>
    let pos := fst enc in
    let a := snd enc in
    let sl := B bs (pos + 1) mod 64 in
    let unmod := (B bs pos / 4) mod 4 =? 0 in
    let body := if unmod then sl - 2 else sl in
    let hl := snd hdr in
    fst hdr = pos /\
    payload_inc pl = ((0 <? sl) && (a <? hl + body)) /\
    (payload_inc pl = true ->
     match pl with
     | LHvpEther e =>
         lvep_win e = (pos + hl, a - hl) /\ win_end (lvep_win e) = win_end enc /\ lvep_src e = carried
     | LHvpMacsecMod _ w => w = (pos + hl, a - hl) /\ win_end w = win_end enc
     | _ => False
     end)).
Check (eq_refl : lvexts_src =
  fix f (l : list lvlink_ext) (acc : len_source) : len_source :=
    match l with
    | [] => acc
    | LVMacsec _ (LVMpUnmodified e) :: r => f r (match lvep_src e with LsSlice => acc | s => s end)
    | _ :: r => f r acc
    end).

(* (d3) does not hold for the ether payload of LaxPacketHeaders behind two MACsec headers: Ethernet II /
   MACsec unmodified, short length 20 (met: 18 bytes follow the SecTAG) / MACsec unmodified, short length 40
   (NOT met: 10 bytes follow) / 10 bytes of an IPv4 header.  LaxSlicedPacket: second MACsec payload
   incomplete, length source Slice, window [30, 40).  LaxPacketHeaders: payload Ether { incomplete: true,
   len_source: MacsecShortLength, the same window }.  Checked on the real crate (harness c04, `eth
   0102030405060708090a0b0c88e500140000000188e5002800000002080045000014000000004011`:
   H pl=ether(2048,macsecsl,1,30+10)  S pl=ether(2048,slice,1,30+10)). *)
Theorem C05_headers_incomplete_src_refuted :
  exists bs w,
    bytes_ok bs /\ lax_stopped_at_ext (LaxCut.from_ethernet true bs) = false /\
    (exists r' h1 p1 h2 e2, LaxSlicedPacket.from_ethernet bs = Ok r' /\
       lv_exts (lview r') = [LVMacsec h1 p1; LVMacsec h2 (LVMpUnmodified e2)] /\
       lvep_incomplete e2 = true /\ lvep_src e2 = LsSlice /\ lvep_win e2 = w) /\
    exists p v e, LaxPacketHeaders.from_ethernet bs = Ok p /\ lhview_of p = Ok v /\
      lhv_net v = None /\ lhv_payload v = LHvpEther e /\
      lvep_incomplete e = true /\ lvep_win e = w /\ win_end w = len bs /\
      lvep_src e = LsMacsecShortLength.
Proof. exact lax_hdr_incomplete_src_refuted. Qed.
Print Assumptions C05_headers_incomplete_src_refuted.

(* non-vacuity: the cut packet of C05_ex_cut (Ethernet II / VLAN / IPv4 announcing 32 bytes with 23 present /
   3 bytes of a UDP header): hypotheses hold; the struct has no transport header and hands out the IP payload
   descriptor flagged incomplete, length source Slice, window [38, 41) ending at the slice end; the enclosing
   slice of the IPv4 layer is (18, 23) and W 20 = 32 > 23.  Second: a single MACsec header whose short length
   is not met: ether payload flagged, Slice *)
Definition ex_macsec_inc : bytes :=
  [1;2;3;4;5;6; 7;8;9;10;11;12; 136;229;  0;40; 0;0;0;2; 8;0;  69;0;0;20; 0;0;0;0; 64;17].
Example C05_ex_headers_incomplete :
  bytes_ok (firstn 41 ex_pkt) /\
  lax_stopped_at_ext (LaxCut.from_ethernet true (firstn 41 ex_pkt)) = false /\
  lhvres_of_h (LaxPacketHeaders.from_ethernet (firstn 41 ex_pkt)) =
    LHOk (mkLHv (Some (HvlEthernet2 (0, 14))) [HvVlan (14, 4)] (Some (HvIpv4 (18, 20) None)) None
                (LHvpIp (mkLVIp true 17 false LsSlice (38, 3)))
                (Some (ELen (mkLenError 8 3 LsSlice LyUdpHeader 38), LyUdpHeader))) /\
  W (firstn 41 ex_pkt) 20 = 32 /\
  bytes_ok ex_macsec_inc /\
  lax_stopped_at_ext (LaxCut.from_ethernet true ex_macsec_inc) = false /\
  lhvres_of_h (LaxPacketHeaders.from_ethernet ex_macsec_inc) =
    LHOk (mkLHv (Some (HvlEthernet2 (0, 14))) [HvMacsec (14, 8)] None None
                (LHvpEther (mkLVEp true 2048 LsSlice (22, 10)))
                (Some (ELen (mkLenError 20 10 LsSlice LyIpv4Header 22), LyIpHeader))).
Proof.
  split; [apply bytes_okb_spec; vm_compute; reflexivity|].
  split; [vm_compute; reflexivity|]. split; [vm_compute; reflexivity|]. split; [vm_compute; reflexivity|].
  split; [apply bytes_okb_spec; vm_compute; reflexivity|].
  split; vm_compute; reflexivity.
Qed.

(* ---- round 3 (audit top-12 item 7, second half): the MACsec short-length FALLBACK with resumed decoding, and
   the WHOLE resumed packet (transport layer included) behind every length fallback ---------------------------
   pwire2_ether answers `P2Rej p e` when a MACsec short length promises more octets than the enclosing data
   holds (C05_lax_prefix / C05_lax_prefix_net: layers in front + `fallback e`, nothing about what lax decodes
   behind that SecTAG).  `pwire3_*` (Parse/LaxWire3.v) is pwire2 with that check instrumented like the two IP
   length checks: `P2Fb p e true resumed`, resumed = the same strict decoder continued on the data that is there
   (MACsec payload up to the end of the enclosing data, length source Slice; unmodified: decoded further with
   its ether type; modified: the packet ends).  The network layer is pwire2_net itself, so IP-length P2Fb's may
   sit inside MACsec ones.  Forgetting the extra information gives pwire / pwire2 / WireSpec back
   (C05_partial_reference3_sound).

   C05_lax_prefix_resumed: strict model = Err e behind the first header  ==>  pwire3 rejects with e_ref (C03/C07
   relation res_rel), the lax model returns Ok r', and `resumed_ok bs pw (lview r')`, by recursion through the
   fallbacks:
     P2Fb q' e' inc resumed : e' is a documented fallback, q' (the layers in front) is a prefix of the lax
                              result, the layer behind q' is flagged -- MACsec: the link extension at index
                              |exts q'| is a MACsec header whose payload has incomplete = inc (= true) and, if
                              unmodified, length source Slice; IP: the network layer has (incomplete,
                              len_source) = (inc, Slice) -- and resumed_ok for `resumed`;
     P2Acc q'               : the resumed strict decoding accepts: strictify (lview r') = q' -- link, all link
                              extensions, network AND TRANSPORT layer of the lax result are exactly those of
                              the resumed strict decoding (windows, numbers, length sources; only the
                              incomplete flags are forgotten) -- and there is no stop error;
     P2RejNet q' n tag e'   : q' prefix, network layer exactly n, stop error exactly (e', tag), no transport;
     P2Rej q' e'            : outside F10: q' prefix (behind a fallback it contains what the resumed decoding
                              decoded, up to and incl. the network layer for a transport fault) and
                              lax_outcome e' (UDP length fallback, or recorded with the same record and a
                              fitting tag, or the F11 group).
   This closes audit item "MACsec short-length fallback = P2Rej" and the `P2Acc q'` arm of net_outcome
   (transport layer after an IP-length fallback).  All byte strings, three entry points (from_ip has no link
   extension: pwire2_from_ip).  Proof: lockstep induction on the link-extension capacity against the lax
   reference decoder lwire (Parse/LaxPrefixResumed.v), transferred to the models by C05_lax_refines_reference /
   C03. *)
From EP Require Import Parse.LaxWire3 Parse.LaxPrefixResumed.

Theorem C05_partial_reference3_sound : forall bs et,
  (to_pres (pwire3_ethernet bs) = pwire_ethernet bs /\
   to_pres (pwire3_ether_type bs et) = pwire_ether_type bs et) /\
  (forget (to_pres (pwire3_ethernet bs)) = wire_ethernet bs /\
   forget (to_pres (pwire3_ether_type bs et)) = wire_ether_type bs et) /\
  (demacsec (pwire3_ethernet bs) = pwire2_ethernet bs /\
   demacsec (pwire3_ether_type bs et) = pwire2_ether_type bs et).
Proof.
  exact (fun bs et => conj (pwire3_is_pwire bs et) (conj (pwire3_sound bs et) (pwire3_is_pwire2 bs et))).
Qed.
Print Assumptions C05_partial_reference3_sound.

Check (eq_refl : demacsec =
  fun pw => match pw with
            | P2Fb p (ELen l) inc r =>
                match le_layer l with LyMacsecPacket => P2Rej p (ELen l) | _ => pw end
            | _ => pw
            end).

Theorem C05_lax_prefix_resumed : forall bs et, bytes_ok bs ->
  (14 <= len bs ->
   prefix_resumed_ok bs (SlicedPacket.from_ethernet bs) (pwire3_ethernet bs)
     (LaxSlicedPacket.from_ethernet bs)) /\
  prefix_resumed_ok bs (SlicedPacket.from_ether_type et bs) (pwire3_ether_type bs et)
    (LaxSlicedPacket.from_ether_type et bs) /\
  (ip_header_fault bs = None ->
   prefix_resumed_ok bs (SlicedPacket.from_ip bs) (pwire2_from_ip bs) (LaxSlicedPacket.from_ip bs)).
Proof. exact lax_prefix_resumed_packet. Qed.
Print Assumptions C05_lax_prefix_resumed.

(* pin the meaning *)
Check (eq_refl : prefix_resumed_ok =
  fun bs strict pw lax => forall e, strict = Err e ->
    exists e_ref r',
      rej2 pw = Some e_ref /\ res_rel (VErr e) (VErr e_ref) /\ lax = Ok r' /\ resumed_ok bs pw (lview r')).
Check (eq_refl : resumed_ok =
  fix f (bs : bytes) (pw : pres2) (q : lvpacket) : Prop :=
    match pw with
    | P2Acc q' => strictify q = q' /\ lv_stop q = None
    | P2Rej q' e' => ~ F10_class bs e' -> vprefix q' (strictify q) /\ lax_outcome e' q
    | P2RejNet q' n tag e' => vprefix q' (strictify q) /\ stopped_in_net q n tag e'
    | P2Fb q' e' inc resumed =>
        fallback e' /\ vprefix q' (strictify q) /\ fb_flagged q' e' inc q /\ f bs resumed q
    | P2Bug _ => False
    end).
Check (eq_refl : fb_flagged =
  fun q' e' inc q =>
    match e' with
    | ELen l =>
        match le_layer l with
        | LyMacsecPacket =>
            exists h mp, nth_error (lv_exts q) (length (v_exts q')) = Some (LVMacsec h mp) /\
              fst (macsec_flags mp) = inc /\
              (snd (macsec_flags mp) = Some LsSlice \/ snd (macsec_flags mp) = None)
        | _ => exists n, lv_net q = Some n /\ net_flags n = Some (inc, LsSlice)
        end
    | EContent _ => False
    end).
Check (eq_refl : macsec_flags =
  fun mp => match mp with
            | LVMpUnmodified e => (lvep_incomplete e, Some (lvep_src e))
            | LVMpModified i _ => (i, None)
            end).

(* non-vacuity 1: Ethernet II / MACsec unmodified, short length 60 (promises 58 octets behind the 8 byte SecTAG,
   28 are there) / complete IPv4 + UDP.  Strict rejects at the short length; pwire2 hands back the Ethernet
   header only; pwire3: fallback, and the resumed decoding ACCEPTS with MACsec (payload [22, 50), Slice), IPv4
   and UDP [42, 50); the lax result, strictified, is exactly that packet; no stop error *)
Definition ex_macsec_fb_udp : bytes :=
  [1;2;3;4;5;6; 7;8;9;10;11;12; 136;229;  0;60; 0;0;0;1; 8;0;
   69;0;0;28; 0;0;0;0; 64;17;0;0; 1;2;3;4; 5;6;7;8;  0;1;0;2;0;8;0;0].
Definition ex_macsec_fb_udp_q : vpacket :=
  mkVPacket (Some (VEthernet2 (0, 50)))
    [VMacsec (14, 8) (VMpUnmodified (mkVEp 2048 LsSlice (22, 28)))]
    (Some (VIpv4 (22, 20) None (mkVIp 17 false LsIpv4HeaderTotalLen (42, 8))))
    (Some (VUdp (42, 8))).
Example C05_ex_resumed_macsec :
  bytes_ok ex_macsec_fb_udp /\ 14 <= len ex_macsec_fb_udp /\
  SlicedPacket.from_ethernet ex_macsec_fb_udp =
    Err (ELen (mkLenError 66 36 LsMacsecShortLength LyMacsecPacket 14)) /\
  pwire2_ethernet ex_macsec_fb_udp =
    P2Rej (mkVPacket (Some (VEthernet2 (0, 50))) [] None None)
          (ELen (mkLenError 66 36 LsSlice LyMacsecPacket 14)) /\
  pwire3_ethernet ex_macsec_fb_udp =
    P2Fb (mkVPacket (Some (VEthernet2 (0, 50))) [] None None)
         (ELen (mkLenError 66 36 LsSlice LyMacsecPacket 14)) true (P2Acc ex_macsec_fb_udp_q) /\
  exists r', LaxSlicedPacket.from_ethernet ex_macsec_fb_udp = Ok r' /\
    strictify (lview r') = ex_macsec_fb_udp_q /\ lsp_stop_err r' = None /\
    lv_exts (lview r') = [LVMacsec (14, 8) (LVMpUnmodified (mkLVEp true 2048 LsSlice (22, 28)))].
Proof.
  split; [apply bytes_okb_spec; vm_compute; reflexivity|].
  split; [vm_compute; discriminate|]. split; [vm_compute; reflexivity|].
  split; [vm_compute; reflexivity|]. split; [vm_compute; reflexivity|].
  eexists. split; [vm_compute; reflexivity|]. split; [reflexivity|]. split; reflexivity.
Qed.

(* non-vacuity 2, nested: MACsec short length not met / IPv4 announcing 100 bytes with 24 present / 4 bytes of
   a TCP header: two fallbacks, then the resumed decoding rejects in the transport layer with the MACsec and
   the IPv4 layer in its prefix; lax: both flagged, stop error = that record on TcpHeader *)
Definition ex_macsec_fb_v4_fb : bytes :=
  [1;2;3;4;5;6; 7;8;9;10;11;12; 136;229;  0;60; 0;0;0;1; 8;0;
   69;0;0;100; 0;0;0;0; 64;6;0;0; 1;2;3;4; 5;6;7;8;  0;1;0;2].
Example C05_ex_resumed_nested :
  bytes_ok ex_macsec_fb_v4_fb /\ 14 <= len ex_macsec_fb_v4_fb /\
  (exists e, SlicedPacket.from_ethernet ex_macsec_fb_v4_fb = Err e) /\
  (exists q0 e0 q1 q2,
     pwire3_ethernet ex_macsec_fb_v4_fb =
       P2Fb q0 e0 true
         (P2Fb q1 (ELen (mkLenError 100 24 LsSlice LyIpv4Packet 22)) true
            (P2Rej q2 (ELen (mkLenError 20 4 LsSlice LyTcpHeader 42)))) /\
     v_exts q1 = [VMacsec (14, 8) (VMpUnmodified (mkVEp 2048 LsSlice (22, 24)))] /\
     v_net q2 = Some (VIpv4 (22, 20) None (mkVIp 6 false LsSlice (42, 4)))) /\
  exists r', LaxSlicedPacket.from_ethernet ex_macsec_fb_v4_fb = Ok r' /\
    lv_exts (lview r') = [LVMacsec (14, 8) (LVMpUnmodified (mkLVEp true 2048 LsSlice (22, 24)))] /\
    lv_net (lview r') = Some (LVIpv4 (22, 20) None (mkLVIp true 6 false LsSlice (42, 4))) /\
    lsp_stop_err r' = Some (ELen (mkLenError 20 4 LsSlice LyTcpHeader 42), LyTcpHeader).
Proof.
  split; [apply bytes_okb_spec; vm_compute; reflexivity|].
  split; [vm_compute; discriminate|]. split; [eexists; vm_compute; reflexivity|].
  split.
  { do 4 eexists. split; [vm_compute; reflexivity|]. split; reflexivity. }
  eexists. split; [vm_compute; reflexivity|]. split; [reflexivity|]. split; reflexivity.
Qed.
(* ==== round3 c05d end ==== *)
