(* Props/C05.v -- property C05: lax parsing extends strict parsing and flags
   truncation honestly.  Statements only; proofs are `exact`.

   Models : Parse/LaxSlices.v + Parse/LaxCursor.v (transliteration of the lax slicers and of
            LaxSlicedPacketCursor) and the strict models Parse/Slices.v + Parse/Cursor.v.
   Views  : Parse/LaxView.v (`lview`: windows, ip numbers, incomplete flags, length sources,
            stop error; `strictify` forgets the lax-only fields; `all_complete`).
   All theorems hold for every byte string / every slice value, no length bound.

   Known finding F10 (class F10_lax_ignores_ether_type_version): the lax whole-packet cursor
   dispatches on the IP version nibble and ignores whether the ether type said IPv4 or IPv6.
   (a), (c), (d) hold without exclusion (a strictly accepted packet has the matching nibble);
   the whole-packet form of (b) is refuted inside the class, see C05_F10_refuted. *)
From EP Require Import Base.Bytes Parse.Types Parse.Slices Parse.Cursor Parse.View Parse.WireSpec
  Parse.LaxSlices Parse.LaxCursor Parse.LaxView Parse.LaxProofs Parse.LaxFacts.

(* ---- (a) strict accepts -> lax returns the same layers / windows / payload, no stop
   error, nothing incomplete: the three lax whole-packet entry points -------------------- *)
Theorem C05_lax_extends_strict : forall bs et,
  extends (SlicedPacket.from_ethernet bs) (LaxSlicedPacket.from_ethernet bs) /\
  extends (SlicedPacket.from_ether_type et bs) (LaxSlicedPacket.from_ether_type et bs) /\
  extends (SlicedPacket.from_ip bs) (LaxSlicedPacket.from_ip bs).
Proof. exact lax_extends_strict. Qed.
Print Assumptions C05_lax_extends_strict.

(* pin the meaning of `extends` *)
Check (eq_refl : extends =
  fun strict lax => forall r, strict = Ok r ->
    exists r', lax = Ok r' /\ strictify (lview r') = view r /\ lsp_stop_err r' = None /\
               all_complete (lview r') = true).

(* (a) for LaxIpSlice, LaxIpv4Slice, LaxIpv6Slice, LaxMacsecSlice, UdpSlice::from_slice_lax,
   Ipv6ExtensionsSlice::from_slice_lax, Ipv4ExtensionsSlice::from_slice_lax: the lax result is
   the strict result embedded (incomplete = false) and the stop error is None *)
Theorem C05_lax_extends_strict_single : forall s nh,
  (forall i, IpSlice.from_slice s = Ok i -> LaxIpSlice.from_slice s = Ok (lax_of_ip i, None)) /\
  (forall v, Ipv4Slice.from_slice s = Ok v -> LaxIpv4Slice.from_slice s = Ok (lax_of_v4 v, None)) /\
  (forall v, Ipv6Slice.from_slice s = Ok v -> LaxIpv6Slice.from_slice s = Ok (lax_of_v6 v, None)) /\
  (forall m, Macsec.from_slice s = Ok m -> LaxMacsecSlice.from_slice s = Ok (lax_of_macsec m)) /\
  (forall u, UdpSlice.from_slice s = Ok u -> UdpSlice.from_slice_lax s = Ok u) /\
  (forall w, Ipv6ExtensionsSlice.from_slice nh s = Ok w -> LaxIpv6Exts.from_slice_lax nh s = Ok (w, None)) /\
  (forall w, Ipv4Exts.from_slice nh s = Ok w -> LaxIpv4Exts.from_slice_lax nh s = Ok (w, None)).
Proof. exact lax_extends_strict_single. Qed.
Print Assumptions C05_lax_extends_strict_single.

(* ---- (c) lax returns Err exactly when the very first header is undecodable ------------ *)
Theorem C05_err_only_first : forall bs et e,
  (LaxSlicedPacket.from_ethernet bs = Err e <->
     (len bs < 14 /\ e = ELen (mkLenError 14 (len bs) LsSlice LyEthernet2Header 0))) /\
  LaxSlicedPacket.from_ether_type et bs <> Err e /\
  (LaxSlicedPacket.from_ip bs = Err e <-> ip_header_fault bs = Some e) /\
  (LaxIpSlice.from_slice (mk_slice bs) = Err e <-> ip_header_fault bs = Some e).
Proof.
  exact (fun bs et e => conj (lax_from_ethernet_err_iff bs e)
           (conj (lax_from_ether_type_never_err et bs e)
              (conj (lax_from_ip_err_iff bs e) (lax_ip_slice_err_iff bs e)))).
Qed.
Print Assumptions C05_err_only_first.

(* single-layer slicers: Err exactly when the (strict) header slicer of that layer fails;
   the two extension collectors never fail *)
Theorem C05_err_only_first_single : forall s nh e,
  (LaxIpv4Slice.from_slice s = Err e <-> Ipv4HeaderSlice.from_slice s = Err e) /\
  (LaxIpv6Slice.from_slice s = Err e <-> Ipv6HeaderSlice.from_slice s = Err e) /\
  (LaxMacsecSlice.from_slice s = Err e <-> Macsec.header_from_slice s = Err e) /\
  (UdpSlice.from_slice_lax s = Err e <-> UdpSlice.header_from_slice s = Err e) /\
  (LaxIpv6Exts.from_slice_lax nh s = Err e -> False) /\
  LaxIpv4Exts.from_slice_lax nh s <> Err e.
Proof.
  exact (fun s nh e => conj (lax_ipv4_err_iff s e) (conj (lax_ipv6_err_iff s e)
           (conj (lax_macsec_err_iff s e) (conj (lax_udp_err_iff s e)
              (conj (lax_exts_not_err nh s e) (lax_ipv4_exts_never_err nh s e)))))).
Qed.
Print Assumptions C05_err_only_first_single.

(* ---- (d) incomplete <-> the length field promised more than the slice holds; then the
   payload ends at the slice end and the slice is the length source ------------------------ *)
Theorem C05_incomplete_iff : forall s,
  (forall v st, LaxIpv4Slice.from_slice s = Ok (v, st) ->
     exists h tlen,
       Ipv4HeaderSlice.from_slice s = Ok h /\ Ipv4HeaderSlice.total_len h = Ok tlen /\
       lipp_incomplete (lv4_payload v) = (s_len s <? tlen) /\
       (lipp_incomplete (lv4_payload v) = true ->
        lipp_src (lv4_payload v) = LsSlice /\ s_end (lipp_slice (lv4_payload v)) = s_end s)) /\
  (forall v st, LaxIpv6Slice.from_slice s = Ok (v, st) ->
     exists h pl,
       Ipv6HeaderSlice.from_slice s = Ok h /\ Ipv6HeaderSlice.payload_length h = Ok pl /\
       lipp_incomplete (lv6_payload v) = (s_len s <? 40 + pl) /\
       (lipp_incomplete (lv6_payload v) = true ->
        lipp_src (lv6_payload v) = LsSlice /\ s_end (lipp_slice (lv6_payload v)) = s_end s)) /\
  (forall m, LaxMacsecSlice.from_slice s = Ok m ->
     exists h epl,
       Macsec.header_from_slice s = Ok h /\ Macsec.expected_payload_len h = Ok epl /\
       lms_incomplete m =
         (match epl with Some req => s_len s <? s_len h + req | None => false end) /\
       (lms_incomplete m = true -> lms_src_ok m /\ s_end (lms_pslice m) = s_end s)).
Proof.
  exact (fun s => conj (lax_ipv4_incomplete s) (conj (lax_ipv6_incomplete s) (lax_macsec_incomplete s))).
Qed.
Print Assumptions C05_incomplete_iff.

(* ---- (b), proved part ------------------------------------------------------------------
   Full statement (NOT proved for the whole-packet entry points):
     forall bs, ~ KnownClass_F10 bs ->
       SlicedPacket.from_X bs = Err e at a layer behind the first header ->
       exists r', LaxSlicedPacket.from_X bs = Ok r' /\
         (every layer of r' in front of the fault is the reference decoder's) /\
         (e is one of the three length fallbacks (IP total/payload length, MACsec short length,
          UDP length) \/ exists e' L, lsp_stop_err r' = Some (e', L) /\ same_fault e e' /\ tag_ok e' L).
   Proved: the same statement layer by layer (IPv4 incl. authentication header, IPv6 incl.
   the extension chain, both extension collectors, UDP, and the transport step of the cursor),
   with `Bug _ => True` on the lax side (that the lax model never returns Bug is not proved
   here).  Missing: the link-extension loop / ARP / IP dispatch of the whole-packet cursor in
   the rejecting case, the reference decoding of the layers in front of the fault, no-Bug. *)
Theorem C05_lax_prefix_partial : forall s nh,
  (forall e, Ipv4Slice.from_slice s = Err e ->
     match LaxIpv4Slice.from_slice s with
     | Ok (_, st) => v4_len_fallback e \/ (st = Some e /\ auth_fault e)
     | Err e' => e' = e /\ Ipv4HeaderSlice.from_slice s = Err e
     | Bug _ => True
     end) /\
  (forall e, Ipv6Slice.from_slice s = Err e ->
     match LaxIpv6Slice.from_slice s with
     | Ok (_, st) => v6_len_fallback e \/ stop_is st e
     | Err e' => e' = e /\ Ipv6HeaderSlice.from_slice s = Err e
     | Bug _ => True
     end) /\
  (forall e, Ipv6ExtensionsSlice.from_slice nh s = Err e ->
     match LaxIpv6Exts.from_slice_lax nh s with
     | Ok (_, st) => stop_is st e
     | Err _ => False
     | Bug _ => True
     end) /\
  (forall e, Ipv4Exts.from_slice nh s = Err e ->
     LaxIpv4Exts.from_slice_lax nh s = Ok (None, nh, s, Some e)) /\
  (forall e, UdpSlice.from_slice s = Err e ->
     exists l, e = ELen l /\
     ((UdpSlice.header_from_slice s = Err e /\ UdpSlice.from_slice_lax s = Err e) \/
      (udp_fallback l /\ UdpSlice.from_slice_lax s = Ok s))).
Proof. exact lax_records_fault_single. Qed.
Print Assumptions C05_lax_prefix_partial.

Theorem C05_lax_prefix_transport_partial : forall c lc p,
  lc_offset lc = c_offset c -> c_src c = ipp_src p -> lsp_stop_err (lc_result lc) = None ->
  lc_result lc = lax_of_packet (c_result c) ->
  forall e, SlicedPacketCursor.transport_dispatch c p = Err e ->
  exists r', LaxSlicedPacketCursor.slice_transport lc (lax_of_ipp p) = Ok r' /\
             ((exists l, e = ELen l /\ udp_fallback l) \/ recorded (lc_result lc) r' e).
Proof. exact lax_records_fault_transport. Qed.
Print Assumptions C05_lax_prefix_transport_partial.

(* ---- known finding F10: witness --------------------------------------------------------- *)
(* ether type 0x0800 in front of a complete IPv6/UDP packet (48 bytes) *)
Definition f10_pkt : bytes :=
  [96;0;0;0; 0;8; 17;64] ++ repeat 0 32 ++ [0;1;0;2;0;8;0;0].

(* the class: the strict verdict is "IPv4 header, unexpected version 6" (or the mirror case) *)
Definition KnownClass_F10 (strict : res sliced_packet) : bool :=
  match strict with
  | Err (EContent (CeIpv4Version 6)) | Err (EContent (CeIpv6Version 4)) => true
  | _ => false
  end.

Theorem C05_F10_refuted :
  exists bs et,
    KnownClass_F10 (SlicedPacket.from_ether_type et bs) = true /\
    SlicedPacket.from_ether_type et bs = Err (EContent (CeIpv4Version 6)) /\
    exists r', LaxSlicedPacket.from_ether_type et bs = Ok r' /\ lsp_stop_err r' = None /\
               lv_net (lview r') =
                 Some (LVIpv6 (0, 40) None false (40, 0) (mkLVIp false 17 false LsIpv6HeaderPayloadLen (40, 8))).
Proof.
  exists f10_pkt, 2048. split; [vm_compute; reflexivity|]. split; [vm_compute; reflexivity|].
  eexists. split; [vm_compute; reflexivity|]. split; reflexivity.
Qed.
Print Assumptions C05_F10_refuted.

(* ---- non-vacuity ------------------------------------------------------------------------ *)
(* Ethernet / VLAN / IPv4 / UDP: accepted by strict; lax gives the same view *)
Definition ex_pkt : bytes :=
  [1;2;3;4;5;6; 7;8;9;10;11;12; 129;0;  0;5; 8;0;
   69;0;0;32; 0;0;0;0; 64;17;0;0; 1;2;3;4; 5;6;7;8;
   0;1;0;2;0;12;0;0; 170;187;204;221].
Example C05_ex_extends :
  exists r r', SlicedPacket.from_ethernet ex_pkt = Ok r /\
               LaxSlicedPacket.from_ethernet ex_pkt = Ok r' /\
               strictify (lview r') = view r /\ v_transport (view r) = Some (VUdp (38, 12)).
Proof. eexists _, _. repeat split; vm_compute; reflexivity. Qed.

(* the same packet cut inside the UDP header: IPv4 total length 32 > 23 bytes present ->
   incomplete, slice as length source, payload ends at the slice end, stop error UdpHeader *)
Example C05_ex_cut :
  exists r', LaxSlicedPacket.from_ethernet (firstn 41 ex_pkt) = Ok r' /\
    lv_net (lview r') = Some (LVIpv4 (18, 20) None (mkLVIp true 17 false LsSlice (38, 3))) /\
    lsp_stop_err r' = Some (ELen (mkLenError 8 3 LsSlice LyUdpHeader 38), LyUdpHeader) /\
    SlicedPacket.from_ethernet (firstn 41 ex_pkt) = Err (ELen (mkLenError 32 23 LsSlice LyIpv4Packet 18)).
Proof. eexists. repeat split; vm_compute; reflexivity. Qed.

(* first header undecodable: 5 bytes of an Ethernet frame; IP version nibble 7 *)
Example C05_ex_err :
  LaxSlicedPacket.from_ethernet [1;2;3;4;5] = Err (ELen (mkLenError 14 5 LsSlice LyEthernet2Header 0)) /\
  ip_header_fault [112; 0] = Some (EContent (CeIpUnsupportedVersion 7)) /\
  LaxSlicedPacket.from_ip [112; 0] = Err (EContent (CeIpUnsupportedVersion 7)).
Proof. repeat split; vm_compute; reflexivity. Qed.

(* (d): IPv4 header announcing 40 bytes in a 28 byte slice *)
Example C05_ex_incomplete :
  exists v st, LaxIpv4Slice.from_slice (mk_slice (firstn 28 (skipn 18 ex_pkt) )) = Ok (v, st) /\
    lipp_incomplete (lv4_payload v) = true /\ lipp_src (lv4_payload v) = LsSlice /\
    s_end (lipp_slice (lv4_payload v)) = 28.
Proof. eexists _, _. repeat split; vm_compute; reflexivity. Qed.

(* (b) partial: IPv6 with a destination options header cut short -> recorded as stop error *)
Example C05_ex_ext_fault :
  exists e, Ipv6ExtensionsSlice.from_slice 60 (mk_slice [17;1;0;0]) = Err e /\
    exists w, LaxIpv6Exts.from_slice_lax 60 (mk_slice [17;1;0;0]) = Ok (w, Some (e, LyIpv6DestOptionsHeader)).
Proof. eexists. split; [vm_compute; reflexivity|]. eexists. vm_compute. reflexivity. Qed.
