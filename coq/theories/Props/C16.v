(* Props/C16.v -- property C16: I/O faults and short buffers surface as errors
   without partial garbage.  Only statements; every proof is `exact <lemma>`.
   Real OS error kinds are NOT modelled (only Other / WriteZero / UnexpectedEof,
   the kinds the instrumented devices of the harness produce): the property is
   labelled partial for that. *)
From EP Require Import Base.Bytes IoFault.Spec IoFault.Model IoFault.Proofs.
Local Open Scope N_scope.

(* std::io::Write::write_all over the instrumented writer (any budget, any chunk
   size >= 1, error or zero-count when exhausted): delivers min(budget, len)
   bytes, Err iff budget < len, never Panic, never out of fuel. *)
Theorem C16_write_all : forall s buf, 1 <= fs_chunk s ->
  io_write_all s buf =
    (match fst (spec_write_all s buf) with None => ROk | Some k => RIo k end,
     snd (spec_write_all s buf)).
Proof. exact write_all_closed_form. Qed.
Print Assumptions C16_write_all.

(* THE write-fault theorem, for every sequence of write_all calls with any final
   value (every `write` of the crate is one, see Model.v): a sink failing at
   byte k < total length gives Err(Io) - not Ok, not Panic, not the content
   verdict - and what was received is exactly the first k bytes of the complete
   encoding; k >= total gives the function's own result and the whole encoding. *)
Theorem C16_write_fault : forall p k chunk zero, 1 <= chunk ->
  let enc := wprog_bytes p in
  let r := run_w io_write_all p (fresh_sink k chunk zero) in
  (k < len enc ->
     fst r = RIo (if zero then KWriteZero else KOther) /\ fs_got (snd r) = take k enc
     /\ is_prefix (fs_got (snd r)) enc) /\
  (len enc <= k -> fst r = ret_of (wprog_verdict p) /\ fs_got (snd r) = enc) /\
  (fst (spec_fault_write enc k) = true <-> len enc <= k) /\
  fs_got (snd r) = snd (spec_fault_write enc k).
Proof. exact write_fault_any. Qed.
Print Assumptions C16_write_fault.

(* the separately coded two-part writers (Ipv4Header::write/write_raw,
   IpAuthHeader::write, Ipv6RawExtHeader::write, TcpHeader::write) and the
   single-call writers have the complete encoding fixed ++ variable part *)
Theorem C16_header_writers : forall h,
  (wprog_bytes (ipv4_header_write h) = two_bytes h /\ wprog_verdict (ipv4_header_write h) = VOk) /\
  (wprog_bytes (ip_auth_header_write h) = two_bytes h /\ wprog_verdict (ip_auth_header_write h) = VOk) /\
  (wprog_bytes (ipv6_raw_ext_header_write h) = two_bytes h /\ wprog_verdict (ipv6_raw_ext_header_write h) = VOk) /\
  (wprog_bytes (tcp_header_write h) = two_bytes h /\ wprog_verdict (tcp_header_write h) = VOk) /\
  (forall b, wprog_bytes (single_write b) = b /\ wprog_verdict (single_write b) = VOk).
Proof. exact two_part_writers. Qed.
Print Assumptions C16_header_writers.

(* extension walks, IpHeaders::write and the builder never hit an unwrap() on an
   absent header and never exhaust the loop fuel, for every extension struct,
   every next_header assignment and every first header number *)
Theorem C16_walks_total :
  (forall x first, verdict_ok (wprog_verdict (x6_write_internal x first))) /\
  (forall x start, verdict_ok (wprog_verdict (x4_write_internal x start))) /\
  (forall h proto x, verdict_ok (wprog_verdict (ip_headers_write_v4 h proto x))) /\
  (forall h nh x, verdict_ok (wprog_verdict (ip_headers_write_v6 h nh x))) /\
  (forall c payload, verdict_ok (wprog_verdict (final_write_with_net c payload))).
Proof. exact walks_total. Qed.
Print Assumptions C16_walks_total.

(* ... and write every extension header at most once: header_len() bounds the
   bytes written and is exact when the walk succeeds *)
Theorem C16_walks_sized :
  (forall x first, exts6_wf x ->
     len (wprog_bytes (x6_write_internal x first)) <= x6_header_len x /\
     (wprog_verdict (x6_write_internal x first) = VOk ->
        len (wprog_bytes (x6_write_internal x first)) = x6_header_len x)) /\
  (forall x start, exts4_wf x ->
     len (wprog_bytes (x4_write_internal x start)) <= x4_header_len x /\
     (wprog_verdict (x4_write_internal x start) = VOk ->
        len (wprog_bytes (x4_write_internal x start)) = x4_header_len x)).
Proof. exact walks_sized. Qed.
Print Assumptions C16_walks_sized.

(* Ethernet2Header / LinuxSllHeader ::write_to_slice, every slice length:
   Ok iff LEN <= n; the error says required_len = LEN (the true length), len = n,
   offset 0; the slice is untouched on error; on success the encoding followed
   by the untouched rest, and the returned rest is [LEN, n) *)
Theorem C16_slice_space : forall LEN layer enc slice, len enc = LEN ->
  (len slice < LEN ->
     header_write_to_slice LEN layer enc slice = (SErr (mk_slice_err LEN (len slice) layer 0), slice)) /\
  (LEN <= len slice ->
     header_write_to_slice LEN layer enc slice = (SOk LEN (len slice - LEN), enc ++ drop LEN slice)) /\
  snd (header_write_to_slice LEN layer enc slice) = snd (spec_slice_write enc slice) /\
  (fst (spec_slice_write enc slice) = None <-> LEN <= len slice).
Proof. exact header_write_to_slice_spec. Qed.
Print Assumptions C16_slice_space.

(* SliceCoreWrite: a part that does not fit leaves buffer and position untouched
   and reports (pos + part length, buffer length); a program that fits writes
   exactly its bytes at [pos, pos + total) and nothing else *)
Theorem C16_slice_writer :
  (forall s b, len (sw_buf s) < sw_pos s + len b ->
     sw_write_all s b = (RIo (mk_space (sw_pos s + len b) (len (sw_buf s))), s)) /\
  (forall p w, sw_pos w + len (wprog_bytes p) <= len (sw_buf w) ->
     run_w sw_write_all p w =
       (ret_of (wprog_verdict p),
        mk_slicew (take (sw_pos w) (sw_buf w) ++ wprog_bytes p
                   ++ drop (sw_pos w + len (wprog_bytes p)) (sw_buf w))
                  (sw_pos w + len (wprog_bytes p)))).
Proof. exact slice_writer_parts. Qed.
Print Assumptions C16_slice_writer.

(* builder, write_to_slice: size() is reserved up front.  Too short => Space(size)
   and the buffer is untouched; long enough => the inner SliceCoreWrite can not
   fail (no second, different `required` value is ever reported), the result is
   the walk's own verdict, on Ok exactly `size` bytes = the complete encoding are
   written and everything from `size` on is untouched.
   bcfg_wf: header_len()/LEN of every part equals the length of its to_bytes()
   (checked on the real crate for every case of the correspondence run). *)
Theorem C16_builder_space : forall c buffer payload, bcfg_wf c ->
  let required := final_size c (len payload) in
  let p := final_write_with_net c payload in
  (len buffer < required -> final_write_to_slice c buffer payload = (BSpace required, buffer)) /\
  (required <= len buffer ->
     final_write_to_slice c buffer payload =
       (bres_of required (wprog_verdict p), wprog_bytes p ++ drop (len (wprog_bytes p)) buffer)) /\
  (wprog_verdict p = VOk -> len (wprog_bytes p) = required) /\
  len (wprog_bytes p) <= required /\
  verdict_ok (wprog_verdict p).
Proof. exact final_write_to_slice_spec. Qed.
Print Assumptions C16_builder_space.

(* builder, write(io::Write): instance of C16_write_fault *)
Theorem C16_builder_write_fault : forall c payload k chunk zero, 1 <= chunk ->
  let enc := wprog_bytes (final_write_with_net c payload) in
  let r := builder_write c payload (fresh_sink k chunk zero) in
  (k < len enc ->
     fst r = RIo (if zero then KWriteZero else KOther) /\ fs_got (snd r) = take k enc
     /\ is_prefix (fs_got (snd r)) enc) /\
  (len enc <= k -> fst r = ret_of (wprog_verdict (final_write_with_net c payload)) /\ fs_got (snd r) = enc) /\
  (fst (spec_fault_write enc k) = true <-> len enc <= k) /\
  fs_got (snd r) = snd (spec_fault_write enc k).
Proof. exact builder_write_fault. Qed.
Print Assumptions C16_builder_write_fault.

(* std::io::Read::read_exact over the instrumented reader *)
Theorem C16_read_exact : forall s n, 1 <= src_chunk s ->
  io_read_exact s n =
    (match fst (spec_read_exact s n) with inl bs => XOk bs | inr k => XIo k end,
     snd (spec_read_exact s n)).
Proof. exact read_exact_closed_form. Qed.
Print Assumptions C16_read_exact.

(* LimitedReader, for EVERY read program (any data-dependent sequence of
   read_exact / start_layer calls) started with read_len <= max_len: the usize
   subtractions never underflow, read_len <= max_len still holds at the end, and
   the inner reader has delivered at most max_len - read_len further bytes *)
Theorem C16_limited_reader : forall p s r, 1 <= src_chunk s -> lr_read r <= lr_max r ->
  let st' := snd (run_r p (mk_rstate s (Some r))) in
  fst (run_r p (mk_rstate s (Some r))) <> QUnderflow /\
  (exists r', rs_lim st' = Some r' /\ lr_read r' <= lr_max r') /\
  src_pulled s <= src_pulled (rs_src st') /\
  src_pulled (rs_src st') - src_pulled s <= lr_max r - lr_read r.
Proof. exact limited_pull_bound. Qed.
Print Assumptions C16_limited_reader.

(* a request beyond the budget: the Len error with the fields the code computes,
   reader state and inner reader untouched *)
Theorem C16_limited_len_error : forall r s n, lr_read r <= lr_max r -> lr_max r - lr_read r < n ->
  lr_read_exact r s n =
    (QLen (mk_lenerr (lr_read r + n) (lr_max r) (lr_source r) (lr_layer r) (lr_off r)), r, s).
Proof. exact lr_read_exact_len. Qed.
Print Assumptions C16_limited_len_error.

(* a request within the budget is exactly the inner read_exact *)
Theorem C16_limited_within : forall r s n, 1 <= src_chunk s -> lr_read r <= lr_max r ->
  n <= lr_max r - lr_read r ->
  lr_read_exact r s n =
    if n <=? len (src_data s)
    then (QOk (take n (src_data s)),
          mk_limrd (lr_max r) (lr_source r) (lr_layer r) (lr_off r) (lr_read r + n),
          mk_fsource (drop n (src_data s)) (src_chunk s) (src_err s) (src_pulled s + n))
    else (QIo (src_kind s), r,
          mk_fsource [] (src_chunk s) (src_err s) (src_pulled s + len (src_data s))).
Proof. exact lr_read_exact_within. Qed.
Print Assumptions C16_limited_within.

(* LimitedReader::new inside a plain read (IpHeaders::read): after it at most
   max_len bytes are pulled, whatever the rest of the function does *)
Theorem C16_limited_new : forall m ls off layer k s, 1 <= src_chunk s ->
  let st' := snd (run_r (PLimit m ls off layer k) (mk_rstate s None)) in
  fst (run_r (PLimit m ls off layer k) (mk_rstate s None)) <> QUnderflow /\
  src_pulled (rs_src st') - src_pulled s <= m.
Proof. exact limit_pull_bound. Qed.
Print Assumptions C16_limited_new.

(* no read program, from no consistent state, underflows *)
Theorem C16_no_underflow : forall p st, st_inv st ->
  fst (run_r p st) <> QUnderflow /\ st_inv (snd (run_r p st)).
Proof. exact no_underflow. Qed.
Print Assumptions C16_no_underflow.

(* the crate's readers: for every input and every failure position the result is
   Ok / Io / Len / Content - never an impossible index, fuel exhaustion or underflow *)
Theorem C16_readers_total : forall p s, In p plain_readers -> 1 <= src_chunk s ->
  good (fst (run_r p (mk_rstate s None))).
Proof. exact plain_readers_good. Qed.
Print Assumptions C16_readers_total.

Theorem C16_ext_readers_total : forall (lim : bool) start s r, 1 <= src_chunk s -> lr_read r <= lr_max r ->
  let st := mk_rstate s (if lim then Some r else None) in
  good (fst (run_r (x6_read lim start) st)) /\ good (fst (run_r (x4_read lim start) st)).
Proof. exact ext_readers_good. Qed.
Print Assumptions C16_ext_readers_total.

(* ---- non-vacuity *)
Definition ex_hop := mk_ext 60 8 [60; 0; 1; 2; 3; 4; 5; 6].
Definition ex_dest := mk_ext 43 8 [43; 0; 7; 7; 7; 7; 7; 7].
Definition ex_route := mk_ext 60 8 [60; 0; 9; 9; 9; 9; 9; 9].
Definition ex_final := mk_ext 17 8 [17; 0; 8; 8; 8; 8; 8; 8].
Definition ex_x6 := mk_exts6 (Some ex_hop) (Some ex_dest) (Some (ex_route, Some ex_final)) None None.

(* a 4-header chain into a sink that fails at byte 19 (inside the third header) *)
Example C16_ex_write_fault :
  run_w io_write_all (x6_write_internal ex_x6 0) (fresh_sink 19 3 false)
  = (RIo KOther, mk_fsink 0 3 false
       [60; 0; 1; 2; 3; 4; 5; 6; 43; 0; 7; 7; 7; 7; 7; 7; 60; 0; 9])
  /\ len (wprog_bytes (x6_write_internal ex_x6 0)) = 32
  /\ wprog_verdict (x6_write_internal ex_x6 0) = VOk.
Proof. repeat split; vm_compute; reflexivity. Qed.

(* a chain whose routing header is not referenced: content error after 16 bytes *)
Example C16_ex_not_referenced :
  wprog_verdict (x6_write_internal
     (mk_exts6 (Some ex_hop) (Some (mk_ext 17 8 (e_enc ex_dest))) (Some (ex_route, None)) None None) 0)
  = VContent (CNotReferenced 43).
Proof. vm_compute; reflexivity. Qed.

Definition ex_cfg := mk_bcfg (Some (mk_part 14 [1;2;3;4;5;6;7;8;9;10;11;12;134;221]))
  [mk_part 4 [0;1;134;221]]
  (BIpv6 (mk_part 40 (repeat 6 40)) 0 ex_x6) None None (Some (mk_part 8 [0;1;0;2;0;10;0;0])).

Example C16_ex_builder_wf : bcfg_wf ex_cfg /\ final_size ex_cfg 2 = 100.
Proof.
  split; [|vm_compute; reflexivity].
  unfold bcfg_wf, ex_cfg. cbn. repeat split; try reflexivity. repeat constructor.
Qed.

Example C16_ex_builder_short :
  fst (final_write_to_slice ex_cfg (repeat 255 99) [7; 7]) = BSpace 100
  /\ fst (final_write_to_slice ex_cfg (repeat 255 101) [7; 7]) = BOk 100
  /\ drop 100 (snd (final_write_to_slice ex_cfg (repeat 255 101) [7; 7])) = [255].
Proof. repeat split; vm_compute; reflexivity. Qed.

Example C16_ex_slice : header_write_to_slice 14 L_ETH (repeat 1 14) (repeat 255 13)
  = (SErr (mk_slice_err 14 13 L_ETH 0), repeat 255 13).
Proof. vm_compute; reflexivity. Qed.

(* IPv6 header with payload length 8 followed by a hop-by-hop header of 16 bytes:
   the LimitedReader refuses the second read_exact with required_len 16, len 8,
   offset 40 and has pulled 42 bytes, 2 of them beyond the IPv6 header *)
Definition ex_v6 : bytes :=
  [96;0;0;0; 0;8; 0; 64] ++ repeat 1 16 ++ repeat 2 16 ++ [17; 1] ++ repeat 0 14.
Example C16_ex_limited :
  let r := run_r ip_headers_read (mk_rstate (mk_fsource ex_v6 5 false 0) None) in
  fst r = QLen (mk_lenerr 16 8 LS_IPV6_PAYLOAD L_IPV6EXT 40) /\ src_pulled (rs_src (snd r)) = 42.
Proof. split; vm_compute; reflexivity. Qed.

Example C16_ex_reader_in : In ip_headers_read plain_readers.
Proof. cbn. tauto. Qed.
