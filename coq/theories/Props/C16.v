(* Props/C16.v -- property C16: I/O faults and short buffers surface as errors
   without partial garbage.  Only statements; every proof is `exact <lemma>`.
   Real OS error kinds are NOT modelled (only Other / WriteZero / UnexpectedEof,
   the kinds the instrumented devices of the harness produce): the property is
   labelled partial for that.

   Audit round 1 additions (see notes/C16.md, "audit follow-up"):
     - reader half: C16_read_fault / C16_read_fault_ok (every read program),
       C16_readers_fault (the crate's readers)
     - error propagation is part of the interpreters run_w / run_r.  The language
       of IoFault/Propagate.v makes swallowing an error expressible:
       C16_embed, C16_propagating_run, C16_propagating_fault,
       C16_fault_iff_handles, C16_propagating_handles,
       C16_swallowing_writer_refuted, C16_crate_writers_propagate; readers:
       C16_read_embed, C16_read_propagating_run, C16_read_propagating_fault,
       C16_swallowing_reader_refuted.  That a crate function IS the propagating
       program given there is checked by the fault-injection run only.
     - C16_slice_frame: the slice as a window of a larger memory, nothing outside
       it changes on any outcome
     - C16_header_writers_bytes replaces C16_header_writers (parts = C08 models)
     - C16_limited_new has the monotonicity conjunct
     - C16_slice_space: `len enc = LEN` is a hypothesis (LEN and layer are
       parameters; that each function uses its own 14 / 16 is checked by the run)
     - C16_builder_write_fault is an instance of C16_write_fault. *)
From EP Require Import Base.Bytes IoFault.Spec IoFault.Model IoFault.Proofs
  IoFault.ReadFault IoFault.Propagate IoFault.SliceFrame IoFault.WriterBytes.
Local Open Scope N_scope.

(* std::io::Write::write_all over the instrumented writer (any budget, any chunk
   size >= 1, error or zero-count when exhausted): delivers min(budget, len)
   bytes, Err iff budget < len, never Panic, never out of fuel. *)
Theorem C16_write_all : forall s buf, 1 <= fs_chunk s ->
  io_write_all s buf =
    (match fst (spec_write_all s buf) with None => ROk | Some k => RIo k end,
     snd (spec_write_all s buf)).
Proof. exact write_all_closed_form. Qed.
Print Assumptions C16_write_all.

(* THE write-fault theorem, for every sequence of `write_all(..)?` calls with any
   final value (the form every `write` of the crate is transliterated to, see
   Model.v; propagation of each error is part of `run_w` - that the crate's
   writers really propagate is C16_crate_writers_propagate below plus the
   fault-injection run): a sink failing at
   byte k < total length gives Err(Io) - not Ok, not Panic, not the content
   verdict - and what was received is exactly the first k bytes of the complete
   encoding; k >= total gives the function's own result and the whole encoding. *)
Theorem C16_write_fault : forall p k chunk zero, 1 <= chunk ->
  let enc := wprog_bytes p in
  let r := run_w io_write_all p (fresh_sink k chunk zero) in
  (k < len enc ->
     fst r = RIo (if zero then KWriteZero else KOther) /\ fs_got (snd r) = take k enc
     /\ is_prefix (fs_got (snd r)) enc) /\
  (len enc <= k -> fst r = ret_of (wprog_verdict p) /\ fs_got (snd r) = enc) /\
  (fst (spec_fault_write enc k) = true <-> len enc <= k) /\
  fs_got (snd r) = snd (spec_fault_write enc k).
Proof. exact write_fault_any. Qed.
Print Assumptions C16_write_fault.

(* the separately coded two-part writers with their parts taken from the
   byte-level model of C08 (Roundtrip/*.v): for every well-formed header value the
   concatenation of the program's write_all calls is the C08 `to_bytes` of that
   header (and C08's `write` appends exactly that).  Replaces the former
   C16_header_writers, which only unfolded the definitions (audit round 1). *)
Theorem C16_header_writers_bytes :
  (forall h, I4.wf_ip4 h = true ->
     exists f o e,
       I4.ip4_fixed h (I4.i4_header_checksum h) = Some f /\
       I4.i4o_as_slice (I4.i4_options h) = Some o /\ I4.ip4_to_bytes h = Some e /\
       len f = 20 /\
       wprog_bytes (ipv4_header_write (mk_two f o)) = e /\
       (forall out, I4.ip4_write_raw out h = Some (out ++ e))) /\
  (forall h, AH.wf_ah h = true ->
     exists f icv e,
       AH.ah_fixed h = Some f /\ AH.ah_raw_icv h = Some icv /\ AH.ah_to_bytes h = Some e /\
       len f = 12 /\
       wprog_bytes (ip_auth_header_write (mk_two f icv)) = e /\
       (forall out, AH.ah_write out h = Some (out ++ e))) /\
  (forall h, RX.wf_rx h = true ->
     exists p e,
       RX.rx_payload h = Some p /\ RX.rx_to_bytes h = Some e /\
       wprog_bytes (ipv6_raw_ext_header_write (mk_two [RX.rx_next_header h; RX.rx_header_length h] p)) = e /\
       (forall out, RX.rx_write out h = Some (out ++ e))) /\
  (forall h, T.wf_tcp h = true ->
     exists o e,
       T.opt_as_slice (T.options h) = Some o /\ T.to_bytes h = Some e /\
       len (T.fixed_bytes h) = 20 /\
       wprog_bytes (tcp_header_write (mk_two (T.fixed_bytes h) o)) = e /\
       wprog_verdict (tcp_header_write (mk_two (T.fixed_bytes h) o)) = VOk /\
       (forall out, T.write out h = Some (out ++ e))).
Proof. exact header_writers_bytes. Qed.
Print Assumptions C16_header_writers_bytes.

(* extension walks, IpHeaders::write and the builder never hit an unwrap() on an
   absent header and never exhaust the loop fuel, for every extension struct,
   every next_header assignment and every first header number *)
Theorem C16_walks_total :
  (forall x first, verdict_ok (wprog_verdict (x6_write_internal x first))) /\
  (forall x start, verdict_ok (wprog_verdict (x4_write_internal x start))) /\
  (forall h proto x, verdict_ok (wprog_verdict (ip_headers_write_v4 h proto x))) /\
  (forall h nh x, verdict_ok (wprog_verdict (ip_headers_write_v6 h nh x))) /\
  (forall c payload, verdict_ok (wprog_verdict (final_write_with_net c payload))).
Proof. exact walks_total. Qed.
Print Assumptions C16_walks_total.

(* ... and write every extension header at most once: header_len() bounds the
   bytes written and is exact when the walk succeeds *)
Theorem C16_walks_sized :
  (forall x first, exts6_wf x ->
     len (wprog_bytes (x6_write_internal x first)) <= x6_header_len x /\
     (wprog_verdict (x6_write_internal x first) = VOk ->
        len (wprog_bytes (x6_write_internal x first)) = x6_header_len x)) /\
  (forall x start, exts4_wf x ->
     len (wprog_bytes (x4_write_internal x start)) <= x4_header_len x /\
     (wprog_verdict (x4_write_internal x start) = VOk ->
        len (wprog_bytes (x4_write_internal x start)) = x4_header_len x)).
Proof. exact walks_sized. Qed.
Print Assumptions C16_walks_sized.

(* Ethernet2Header / LinuxSllHeader ::write_to_slice, every slice length:
   Ok iff LEN <= n; the error says required_len = LEN (the true length), len = n,
   offset 0; the slice is untouched on error; on success the encoding followed
   by the untouched rest, and the returned rest is [LEN, n) *)
Theorem C16_slice_space : forall LEN layer enc slice, len enc = LEN ->
  (len slice < LEN ->
     header_write_to_slice LEN layer enc slice = (SErr (mk_slice_err LEN (len slice) layer 0), slice)) /\
  (LEN <= len slice ->
     header_write_to_slice LEN layer enc slice = (SOk LEN (len slice - LEN), enc ++ drop LEN slice)) /\
  snd (header_write_to_slice LEN layer enc slice) = snd (spec_slice_write enc slice) /\
  (fst (spec_slice_write enc slice) = None <-> LEN <= len slice).
Proof. exact header_write_to_slice_spec. Qed.
Print Assumptions C16_slice_space.

(* SliceCoreWrite: a part that does not fit leaves buffer and position untouched
   and reports (pos + part length, buffer length); a program that fits writes
   exactly its bytes at [pos, pos + total) and nothing else *)
Theorem C16_slice_writer :
  (forall s b, len (sw_buf s) < sw_pos s + len b ->
     sw_write_all s b = (RIo (mk_space (sw_pos s + len b) (len (sw_buf s))), s)) /\
  (forall p w, sw_pos w + len (wprog_bytes p) <= len (sw_buf w) ->
     run_w sw_write_all p w =
       (ret_of (wprog_verdict p),
        mk_slicew (take (sw_pos w) (sw_buf w) ++ wprog_bytes p
                   ++ drop (sw_pos w + len (wprog_bytes p)) (sw_buf w))
                  (sw_pos w + len (wprog_bytes p)))).
Proof. exact slice_writer_parts. Qed.
Print Assumptions C16_slice_writer.

(* builder, write_to_slice: size() is reserved up front.  Too short => Space(size)
   and the buffer is untouched; long enough => the inner SliceCoreWrite can not
   fail (no second, different `required` value is ever reported), the result is
   the walk's own verdict, on Ok exactly `size` bytes = the complete encoding are
   written and everything from `size` on is untouched.
   bcfg_wf: header_len()/LEN of every part equals the length of its to_bytes()
   (checked on the real crate for every case of the correspondence run). *)
Theorem C16_builder_space : forall c buffer payload, bcfg_wf c ->
  let required := final_size c (len payload) in
  let p := final_write_with_net c payload in
  (len buffer < required -> final_write_to_slice c buffer payload = (BSpace required, buffer)) /\
  (required <= len buffer ->
     final_write_to_slice c buffer payload =
       (bres_of required (wprog_verdict p), wprog_bytes p ++ drop (len (wprog_bytes p)) buffer)) /\
  (wprog_verdict p = VOk -> len (wprog_bytes p) = required) /\
  len (wprog_bytes p) <= required /\
  verdict_ok (wprog_verdict p).
Proof. exact final_write_to_slice_spec. Qed.
Print Assumptions C16_builder_space.

(* builder, write(io::Write): instance of C16_write_fault *)
Theorem C16_builder_write_fault : forall c payload k chunk zero, 1 <= chunk ->
  let enc := wprog_bytes (final_write_with_net c payload) in
  let r := builder_write c payload (fresh_sink k chunk zero) in
  (k < len enc ->
     fst r = RIo (if zero then KWriteZero else KOther) /\ fs_got (snd r) = take k enc
     /\ is_prefix (fs_got (snd r)) enc) /\
  (len enc <= k -> fst r = ret_of (wprog_verdict (final_write_with_net c payload)) /\ fs_got (snd r) = enc) /\
  (fst (spec_fault_write enc k) = true <-> len enc <= k) /\
  fs_got (snd r) = snd (spec_fault_write enc k).
Proof. exact builder_write_fault. Qed.
Print Assumptions C16_builder_write_fault.

(* std::io::Read::read_exact over the instrumented reader *)
Theorem C16_read_exact : forall s n, 1 <= src_chunk s ->
  io_read_exact s n =
    (match fst (spec_read_exact s n) with inl bs => XOk bs | inr k => XIo k end,
     snd (spec_read_exact s n)).
Proof. exact read_exact_closed_form. Qed.
Print Assumptions C16_read_exact.

(* LimitedReader, for EVERY read program (any data-dependent sequence of
   read_exact / start_layer calls) started with read_len <= max_len: the usize
   subtractions never underflow, read_len <= max_len still holds at the end, and
   the inner reader has delivered at most max_len - read_len further bytes *)
Theorem C16_limited_reader : forall p s r, 1 <= src_chunk s -> lr_read r <= lr_max r ->
  let st' := snd (run_r p (mk_rstate s (Some r))) in
  fst (run_r p (mk_rstate s (Some r))) <> QUnderflow /\
  (exists r', rs_lim st' = Some r' /\ lr_read r' <= lr_max r') /\
  src_pulled s <= src_pulled (rs_src st') /\
  src_pulled (rs_src st') - src_pulled s <= lr_max r - lr_read r.
Proof. exact limited_pull_bound. Qed.
Print Assumptions C16_limited_reader.

(* a request beyond the budget: the Len error with the fields the code computes,
   reader state and inner reader untouched *)
Theorem C16_limited_len_error : forall r s n, lr_read r <= lr_max r -> lr_max r - lr_read r < n ->
  lr_read_exact r s n =
    (QLen (mk_lenerr (lr_read r + n) (lr_max r) (lr_source r) (lr_layer r) (lr_off r)), r, s).
Proof. exact lr_read_exact_len. Qed.
Print Assumptions C16_limited_len_error.

(* a request within the budget is exactly the inner read_exact *)
Theorem C16_limited_within : forall r s n, 1 <= src_chunk s -> lr_read r <= lr_max r ->
  n <= lr_max r - lr_read r ->
  lr_read_exact r s n =
    if n <=? len (src_data s)
    then (QOk (take n (src_data s)),
          mk_limrd (lr_max r) (lr_source r) (lr_layer r) (lr_off r) (lr_read r + n),
          mk_fsource (drop n (src_data s)) (src_chunk s) (src_err s) (src_pulled s + n))
    else (QIo (src_kind s), r,
          mk_fsource [] (src_chunk s) (src_err s) (src_pulled s + len (src_data s))).
Proof. exact lr_read_exact_within. Qed.
Print Assumptions C16_limited_within.

(* LimitedReader::new inside a plain read (IpHeaders::read): after it at most
   max_len bytes are pulled, whatever the rest of the function does (the count of
   pulled bytes only grows, so the truncated subtraction hides nothing) *)
Theorem C16_limited_new : forall m ls off layer k s, 1 <= src_chunk s ->
  let st' := snd (run_r (PLimit m ls off layer k) (mk_rstate s None)) in
  fst (run_r (PLimit m ls off layer k) (mk_rstate s None)) <> QUnderflow /\
  src_pulled s <= src_pulled (rs_src st') /\
  src_pulled (rs_src st') - src_pulled s <= m.
Proof. exact limit_pull_bound_mono. Qed.
Print Assumptions C16_limited_new.

(* no read program, from no consistent state, underflows *)
Theorem C16_no_underflow : forall p st, st_inv st ->
  fst (run_r p st) <> QUnderflow /\ st_inv (snd (run_r p st)).
Proof. exact no_underflow. Qed.
Print Assumptions C16_no_underflow.

(* the crate's readers: for every input and every failure position the result is
   Ok / Io / Len / Content - never an impossible index, fuel exhaustion or underflow *)
Theorem C16_readers_total : forall p s, In p plain_readers -> 1 <= src_chunk s ->
  good (fst (run_r p (mk_rstate s None))).
Proof. exact plain_readers_good. Qed.
Print Assumptions C16_readers_total.

Theorem C16_ext_readers_total : forall (lim : bool) start s r, 1 <= src_chunk s -> lr_read r <= lr_max r ->
  let st := mk_rstate s (if lim then Some r else None) in
  good (fst (run_r (x6_read lim start) st)) /\ good (fst (run_r (x4_read lim start) st)).
Proof. exact ext_readers_good. Qed.
Print Assumptions C16_ext_readers_total.

(* ---- audit round 1: the reader half of the property's first sentence ---- *)

(* THE read-fault theorem, for EVERY read program (any data-dependent sequence of
   `read_exact(..)?` / start_layer / LimitedReader::new), every data d, chunk size
   >= 1, both end-of-data behaviours, plain or inside any LimitedReader state:
   let the run on d consume k bytes with outcome q.  On every source that ends at
   j < k the run answers Err(Io) with the source's error kind - not Ok, not
   Len/Content, no impossible index / fuel / underflow - having consumed exactly
   the j bytes; on every source that ends at j >= k the outcome, the bytes
   consumed and the LimitedReader state are the same (the outcome depends on the
   consumed bytes only). *)
Theorem C16_read_fault : forall p d c e lim, 1 <= c ->
  let r := run_r p (start_st d c e lim) in
  let k := src_pulled (rs_src (snd r)) in
  k <= len d /\ src_data (rs_src (snd r)) = drop k d /\
  (forall j, j < k ->
     let rj := run_r p (start_st (take j d) c e lim) in
     fst rj = QIo (io_kind e) /\ src_pulled (rs_src (snd rj)) = j /\ src_data (rs_src (snd rj)) = []) /\
  (forall j, k <= j ->
     let rj := run_r p (start_st (take j d) c e lim) in
     fst rj = fst r /\ src_pulled (rs_src (snd rj)) = k /\ rs_lim (snd rj) = rs_lim (snd r)
     /\ src_data (rs_src (snd rj)) = drop k (take j d)).
Proof. exact read_fault_any. Qed.
Print Assumptions C16_read_fault.

(* the same in the form of C16_write_fault: a run that succeeds having pulled k
   bytes fails with the reader's error at every earlier end, and still succeeds
   with the same value on exactly those k bytes *)
Theorem C16_read_fault_ok : forall p d c e lim a st', 1 <= c ->
  run_r p (start_st d c e lim) = (QOk a, st') ->
  let k := src_pulled (rs_src st') in
  k <= len d /\ src_data (rs_src st') = drop k d /\
  (forall j, j < k ->
     let rj := run_r p (start_st (take j d) c e lim) in
     fst rj = QIo (io_kind e) /\ src_pulled (rs_src (snd rj)) = j) /\
  (exists st'', run_r p (start_st (take k d) c e lim) = (QOk a, st'')
                /\ src_pulled (rs_src st'') = k /\ src_data (rs_src st'') = [] /\ rs_lim st'' = rs_lim st').
Proof. exact read_fault_ok. Qed.
Print Assumptions C16_read_fault_ok.

(* instantiated for every reader of the crate that is modelled: the 14 plain
   readers (header readers, IpHeaders::read with its LimitedReader inside) and
   Ipv6Extensions / Ipv4Extensions ::read (lim = false) / ::read_limited (lim =
   true, any LimitedReader with read_len <= max_len): for every data and every
   end position j the answer is the reader's I/O error (j inside what the
   fault-free run consumes) or the fault-free answer, which is Ok/Io/Len/Content *)
Theorem C16_readers_fault :
  (forall p d c e j, In p plain_readers -> 1 <= c ->
     let r := run_r p (start_st d c e None) in
     let rj := run_r p (start_st (take j d) c e None) in
     good (fst r) /\
     (j < src_pulled (rs_src (snd r)) -> fst rj = QIo (io_kind e) /\ src_pulled (rs_src (snd rj)) = j) /\
     (src_pulled (rs_src (snd r)) <= j -> fst rj = fst r /\ src_pulled (rs_src (snd rj)) = src_pulled (rs_src (snd r)))) /\
  (forall (lim : bool) start lr d c e j, 1 <= c -> lr_read lr <= lr_max lr ->
     let l := if lim then Some lr else None in
     (let r := run_r (x6_read lim start) (start_st d c e l) in
      let rj := run_r (x6_read lim start) (start_st (take j d) c e l) in
      good (fst r) /\
      (j < src_pulled (rs_src (snd r)) -> fst rj = QIo (io_kind e) /\ src_pulled (rs_src (snd rj)) = j) /\
      (src_pulled (rs_src (snd r)) <= j -> fst rj = fst r /\ src_pulled (rs_src (snd rj)) = src_pulled (rs_src (snd r)))) /\
     (let r := run_r (x4_read lim start) (start_st d c e l) in
      let rj := run_r (x4_read lim start) (start_st (take j d) c e l) in
      good (fst r) /\
      (j < src_pulled (rs_src (snd r)) -> fst rj = QIo (io_kind e) /\ src_pulled (rs_src (snd rj)) = j) /\
      (src_pulled (rs_src (snd r)) <= j -> fst rj = fst r /\ src_pulled (rs_src (snd rj)) = src_pulled (rs_src (snd r))))).
Proof. exact crate_readers_fault. Qed.
Print Assumptions C16_readers_fault.

(* ---- audit round 1: error propagation made expressible (IoFault/Propagate.v) ---- *)

(* the language with an explicit result-handling node `XWriteThen buf k` (k sees
   the Result of write_all) contains the old one: WWrite = `write_all(..)?`, and
   the interpreters agree on every device *)
Theorem C16_embed : forall (W E : Type) (wall : W -> bytes -> wres E * W) p w,
  run_x wall (embed p) w = run_w wall p w.
Proof. exact (@run_x_embed). Qed.
Print Assumptions C16_embed.

(* the propagating fragment (every write_all result is matched with
   `Err(e) => return Err(e)`) runs, on every device, like the write program of
   its success path: every theorem about write programs holds for it *)
Theorem C16_propagating_run : forall (W E : Type) (wall : W -> bytes -> wres E * W) (p : xprog E),
  propagating p -> forall w, run_x wall p w = run_w wall (strip p) w.
Proof. exact (@run_x_strip). Qed.
Print Assumptions C16_propagating_run.

(* ... in particular the fault theorem *)
Theorem C16_propagating_fault : forall (p : xprog iokind) k chunk zero, propagating p -> 1 <= chunk ->
  let enc := wprog_bytes (strip p) in
  let r := run_x io_write_all p (fresh_sink k chunk zero) in
  (k < len enc ->
     fst r = RIo (if zero then KWriteZero else KOther) /\ fs_got (snd r) = take k enc
     /\ is_prefix (fs_got (snd r)) enc) /\
  (len enc <= k -> fst r = ret_of (wprog_verdict (strip p)) /\ fs_got (snd r) = enc) /\
  (fst (spec_fault_write enc k) = true <-> len enc <= k) /\
  fs_got (snd r) = snd (spec_fault_write enc k).
Proof. exact propagating_fault. Qed.
Print Assumptions C16_propagating_fault.

(* exactly which programs have the fault property on the fail-stop sink: those in
   which, after every write that can fail, the error branch ends in
   Err(Io(that kind)) (`handles`); the propagating ones are among them *)
Theorem C16_fault_iff_handles : forall p : xprog iokind, fault_ok p <-> handles p.
Proof. exact fault_iff_handles. Qed.
Print Assumptions C16_fault_iff_handles.

Theorem C16_propagating_handles : forall p : xprog iokind, propagating p -> handles p.
Proof. exact propagating_handles. Qed.
Print Assumptions C16_propagating_handles.

(* NOT a defect of the crate: a program that swallows an error (mutant 1 of
   notes/C16.md, TcpHeader::write with `let _ = writer.write_all(options);`) is
   expressible and violates the fault property - Ok although the sink failed at
   byte 21 of 24 *)
Theorem C16_swallowing_writer_refuted :
  ~ fault_ok (swallowing_tcp_write ex_tcp) /\
  run_x io_write_all (swallowing_tcp_write ex_tcp) (fresh_sink 21 3 false)
    = (ROk, mk_fsink 0 3 false (repeat 1 20 ++ [2])) /\
  len (xprog_bytes (swallowing_tcp_write ex_tcp)) = 24.
Proof. exact swallow_refuted. Qed.
Print Assumptions C16_swallowing_writer_refuted.

(* the crate's writers as written in the Rust source (`writer.write_all(..)?`,
   `.map_err(WriteError::Io)?`, `.map_err(E::from)?`, a returned Result), for
   every error type of the writer: each is in the propagating fragment and its
   success path is the Model.v transliteration the other theorems are about *)
Theorem C16_crate_writers_propagate : forall E : Type,
  (forall b, @agrees E (x_single_write b) (single_write b)) /\
  (forall h, @agrees E (x_ipv4_header_write h) (ipv4_header_write h) /\
             @agrees E (x_ip_auth_header_write h) (ip_auth_header_write h) /\
             @agrees E (x_ipv6_raw_ext_header_write h) (ipv6_raw_ext_header_write h) /\
             @agrees E (x_tcp_header_write h) (tcp_header_write h)) /\
  (forall x start, @agrees E (x_x4_write_internal x start) (x4_write_internal x start)) /\
  (forall x first, @agrees E (x_x6_write_internal x first) (x6_write_internal x first)) /\
  (forall h proto x, @agrees E (x_ip_headers_write_v4 h proto x) (ip_headers_write_v4 h proto x)) /\
  (forall h nh x, @agrees E (x_ip_headers_write_v6 h nh x) (ip_headers_write_v6 h nh x)) /\
  (forall c payload, @agrees E (x_final_write_with_net c payload) (final_write_with_net c payload)).
Proof. exact crate_writers_propagate. Qed.
Print Assumptions C16_crate_writers_propagate.

(* readers: YReadThen n k (k sees Ok(bytes) / Err(Io) / Err(Len)); PRead =
   `read_exact(..)?`; interpreters agree; the propagating fragment runs like its
   success path and so has the read-fault property *)
Theorem C16_read_embed : forall p st, run_y (embed_r p) st = run_r p st.
Proof. exact run_y_embed. Qed.
Print Assumptions C16_read_embed.

Theorem C16_read_propagating_run : forall p, propagating_r p -> forall st, run_y p st = run_r (strip_r p) st.
Proof. exact run_y_strip. Qed.
Print Assumptions C16_read_propagating_run.

Theorem C16_read_propagating_fault : forall p d c e lim, propagating_r p -> 1 <= c ->
  let r := run_y p (start_st d c e lim) in
  let k := src_pulled (rs_src (snd r)) in
  k <= len d /\
  (forall j, j < k ->
     let rj := run_y p (start_st (take j d) c e lim) in
     fst rj = QIo (io_kind e) /\ src_pulled (rs_src (snd rj)) = j) /\
  (forall j, k <= j ->
     let rj := run_y p (start_st (take j d) c e lim) in
     fst rj = fst r /\ src_pulled (rs_src (snd rj)) = k).
Proof. exact propagating_read_fault. Qed.
Print Assumptions C16_read_propagating_fault.

(* NOT a defect of the crate: seeded defect C16_3 (IpHeaders::read drops the error
   of its second read_exact) is expressible, is outside the fragment and reports
   success on a source that ended after 5 of 20 bytes *)
Theorem C16_swallowing_reader_refuted :
  ~ propagating_r swallowing_ip_headers_read /\
  (let r := run_y swallowing_ip_headers_read (start_st (repeat 69 20) 3 false None) in
   fst r = QOk [20] /\ src_pulled (rs_src (snd r)) = 20) /\
  (let r := run_y swallowing_ip_headers_read (start_st (take 5 (repeat 69 20)) 3 false None) in
   fst r = QOk [20] /\ src_pulled (rs_src (snd r)) = 5).
Proof. exact swallow_read_refuted. Qed.
Print Assumptions C16_swallowing_reader_refuted.

(* ---- audit round 1: "never writes outside the given slice" (IoFault/SliceFrame.v) ---- *)

(* the slice is the window [off, off+n) of a flat memory; what a function returns
   as new slice contents is laid down from `off` on.  For write_to_slice of the
   two headers, for every write program and every explicit program (also one that
   swallows errors) over SliceCoreWrite, and for the builder's write_to_slice:
   on EVERY outcome (Ok, space error, content error, modelled panic) the memory
   keeps its length, everything before `off` and everything from off+n on is
   unchanged; on a space error of the header functions / of the builder's up-front
   check the whole memory is unchanged.  No hypothesis on LEN, encodings or cfg. *)
Theorem C16_slice_frame : forall mem off n, off + n <= len mem ->
  let win := window mem off n in
  (forall LEN layer enc,
     let r := header_write_to_slice LEN layer enc win in
     untouched_outside mem (place mem off (snd r)) off n /\
     window (place mem off (snd r)) off n = snd r /\
     (match fst r with SOk _ _ => True | _ => place mem off (snd r) = mem end)) /\
  (forall p pos,
     let r := run_w sw_write_all p (mk_slicew win pos) in
     untouched_outside mem (place mem off (sw_buf (snd r))) off n) /\
  (forall (p : xprog space_req) pos,
     let r := run_x sw_write_all p (mk_slicew win pos) in
     untouched_outside mem (place mem off (sw_buf (snd r))) off n) /\
  (forall c payload,
     let r := final_write_to_slice c win payload in
     untouched_outside mem (place mem off (snd r)) off n /\
     window (place mem off (snd r)) off n = snd r /\
     (n < final_size c (len payload) -> fst r = BSpace (final_size c (len payload)) /\ place mem off (snd r) = mem)).
Proof. exact slice_frame. Qed.
Print Assumptions C16_slice_frame.

(* ---- non-vacuity *)
Definition ex_hop := mk_ext 60 8 [60; 0; 1; 2; 3; 4; 5; 6].
Definition ex_dest := mk_ext 43 8 [43; 0; 7; 7; 7; 7; 7; 7].
Definition ex_route := mk_ext 60 8 [60; 0; 9; 9; 9; 9; 9; 9].
Definition ex_final := mk_ext 17 8 [17; 0; 8; 8; 8; 8; 8; 8].
Definition ex_x6 := mk_exts6 (Some ex_hop) (Some ex_dest) (Some (ex_route, Some ex_final)) None None.

(* a 4-header chain into a sink that fails at byte 19 (inside the third header) *)
Example C16_ex_write_fault :
  run_w io_write_all (x6_write_internal ex_x6 0) (fresh_sink 19 3 false)
  = (RIo KOther, mk_fsink 0 3 false
       [60; 0; 1; 2; 3; 4; 5; 6; 43; 0; 7; 7; 7; 7; 7; 7; 60; 0; 9])
  /\ len (wprog_bytes (x6_write_internal ex_x6 0)) = 32
  /\ wprog_verdict (x6_write_internal ex_x6 0) = VOk.
Proof. repeat split; vm_compute; reflexivity. Qed.

(* a chain whose routing header is not referenced: content error after 16 bytes *)
Example C16_ex_not_referenced :
  wprog_verdict (x6_write_internal
     (mk_exts6 (Some ex_hop) (Some (mk_ext 17 8 (e_enc ex_dest))) (Some (ex_route, None)) None None) 0)
  = VContent (CNotReferenced 43).
Proof. vm_compute; reflexivity. Qed.

Definition ex_cfg := mk_bcfg (Some (mk_part 14 [1;2;3;4;5;6;7;8;9;10;11;12;134;221]))
  [mk_part 4 [0;1;134;221]]
  (BIpv6 (mk_part 40 (repeat 6 40)) 0 ex_x6) None None (Some (mk_part 8 [0;1;0;2;0;10;0;0])).

Example C16_ex_builder_wf : bcfg_wf ex_cfg /\ final_size ex_cfg 2 = 100.
Proof.
  split; [|vm_compute; reflexivity].
  unfold bcfg_wf, ex_cfg. cbn. repeat split; try reflexivity. repeat constructor.
Qed.

Example C16_ex_builder_short :
  fst (final_write_to_slice ex_cfg (repeat 255 99) [7; 7]) = BSpace 100
  /\ fst (final_write_to_slice ex_cfg (repeat 255 101) [7; 7]) = BOk 100
  /\ drop 100 (snd (final_write_to_slice ex_cfg (repeat 255 101) [7; 7])) = [255].
Proof. repeat split; vm_compute; reflexivity. Qed.

Example C16_ex_slice : header_write_to_slice 14 L_ETH (repeat 1 14) (repeat 255 13)
  = (SErr (mk_slice_err 14 13 L_ETH 0), repeat 255 13).
Proof. vm_compute; reflexivity. Qed.

(* IPv6 header with payload length 8 followed by a hop-by-hop header of 16 bytes:
   the LimitedReader refuses the second read_exact with required_len 16, len 8,
   offset 40 and has pulled 42 bytes, 2 of them beyond the IPv6 header *)
Definition ex_v6 : bytes :=
  [96;0;0;0; 0;8; 0; 64] ++ repeat 1 16 ++ repeat 2 16 ++ [17; 1] ++ repeat 0 14.
Example C16_ex_limited :
  let r := run_r ip_headers_read (mk_rstate (mk_fsource ex_v6 5 false 0) None) in
  fst r = QLen (mk_lenerr 16 8 LS_IPV6_PAYLOAD L_IPV6EXT 40) /\ src_pulled (rs_src (snd r)) = 42.
Proof. split; vm_compute; reflexivity. Qed.

Example C16_ex_reader_in : In ip_headers_read plain_readers.
Proof. cbn. tauto. Qed.

(* ---- audit round 1 examples *)

(* Ipv4Header::read, ihl = 6 (24 bytes): succeeds having pulled 24; a source that
   ends after 21 bytes (inside the options) gives UnexpectedEof having pulled 21 *)
Definition ex_v4h : bytes := [70; 0; 0; 24; 0; 0; 0; 0; 64; 17; 0; 0] ++ repeat 10 8 ++ [1; 1; 1; 0; 9; 9].
Example C16_ex_read_fault :
  (let r := run_r ipv4_header_read (start_st ex_v4h 5 false None) in
   fst r = QOk [24] /\ src_pulled (rs_src (snd r)) = 24 /\ src_data (rs_src (snd r)) = [9; 9]) /\
  (let r := run_r ipv4_header_read (start_st (take 21 ex_v4h) 5 false None) in
   fst r = QIo KEof /\ src_pulled (rs_src (snd r)) = 21) /\
  (let r := run_r ipv4_header_read (start_st (take 21 ex_v4h) 5 true None) in
   fst r = QIo KOther /\ src_pulled (rs_src (snd r)) = 21).
Proof. repeat split; vm_compute; reflexivity. Qed.

(* IpHeaders::read over IPv6 + hop-by-hop (8) + fragment (8), payload length 16:
   56 bytes pulled; cut inside the fragment header (52): UnexpectedEof *)
Definition ex_v6chain : bytes :=
  [96;0;0;0; 0;16; 0; 64] ++ repeat 1 16 ++ repeat 2 16 ++ [44; 0; 1; 2; 3; 4; 5; 6] ++ [17; 0; 0; 0; 0; 0; 0; 1] ++ [7; 7; 7].
Example C16_ex_read_fault_ip :
  In ip_headers_read plain_readers /\
  (let r := run_r ip_headers_read (start_st ex_v6chain 7 false None) in
   fst r = QOk [17; 17] /\ src_pulled (rs_src (snd r)) = 56) /\
  (let r := run_r ip_headers_read (start_st (take 52 ex_v6chain) 7 false None) in
   fst r = QIo KEof /\ src_pulled (rs_src (snd r)) = 52) /\
  (let r := run_r ip_headers_read (start_st (take 56 ex_v6chain) 7 false None) in
   fst r = QOk [17; 17] /\ src_pulled (rs_src (snd r)) = 56).
Proof. split; [cbn; tauto|]. repeat split; vm_compute; reflexivity. Qed.

(* the propagating TcpHeader::write on the input of the refuting witness: Err *)
Example C16_ex_propagating_tcp :
  propagating (@x_tcp_header_write iokind ex_tcp) /\
  strip (@x_tcp_header_write iokind ex_tcp) = tcp_header_write ex_tcp /\
  run_x io_write_all (x_tcp_header_write ex_tcp) (fresh_sink 21 3 false)
    = (RIo KOther, mk_fsink 0 3 false (repeat 1 20 ++ [2])).
Proof.
  split; [|split; [reflexivity | vm_compute; reflexivity]].
  apply (C16_crate_writers_propagate iokind).
Qed.

(* a well-formed TCP header with 4 option bytes: the C08 encoding has 24 bytes and
   is what the two write_all calls of the C16 program deliver *)
Definition ex_tcp_hdr : T.TcpHeader :=
  T.Build_TcpHeader 80 443 1 2 false false true false false true false false false 1024 0 0
    (T.Build_TcpOptions 4 ([2; 4; 5; 180] ++ repeat 0 36)).
Example C16_ex_tcp_bytes :
  T.wf_tcp ex_tcp_hdr = true /\
  T.opt_as_slice (T.options ex_tcp_hdr) = Some [2; 4; 5; 180] /\
  T.to_bytes ex_tcp_hdr
    = Some (wprog_bytes (tcp_header_write (mk_two (T.fixed_bytes ex_tcp_hdr) [2; 4; 5; 180]))) /\
  len (wprog_bytes (tcp_header_write (mk_two (T.fixed_bytes ex_tcp_hdr) [2; 4; 5; 180]))) = 24.
Proof. repeat split; vm_compute; reflexivity. Qed.

(* an Ethernet header written into the window [2,17) of a 20-byte memory (one byte
   of slack inside the window): the 2 bytes before, the slack byte and the 3
   bytes behind keep their values; a 13-byte window: nothing changes at all *)
Example C16_ex_slice_frame :
  let mem := [8; 8] ++ repeat 255 15 ++ [9; 9; 9] in
  place mem 2 (snd (header_write_to_slice 14 L_ETH (repeat 1 14) (window mem 2 15)))
    = [8; 8] ++ repeat 1 14 ++ [255] ++ [9; 9; 9] /\
  place mem 2 (snd (header_write_to_slice 14 L_ETH (repeat 1 14) (window mem 2 13))) = mem.
Proof. split; vm_compute; reflexivity. Qed.

(* what would be a violation is expressible: contents one byte longer than the
   window overwrite the byte behind it *)
Example C16_ex_overrun_visible :
  let mem := [9; 9; 1; 2; 3; 7; 7] in
  window mem 2 3 = [1; 2; 3] /\
  place mem 2 [4; 5; 6] = [9; 9; 4; 5; 6; 7; 7] /\
  place mem 2 [4; 5; 6; 0] = [9; 9; 4; 5; 6; 0; 7] /\
  ~ untouched_outside mem (place mem 2 [4; 5; 6; 0]) 2 3.
Proof. exact place_overrun_visible. Qed.

(* ==== round3 c16rp begin ==== *)
(* ---- audit round 3, top-12 item 10: the crate's READERS in the explicit
   error-propagation language (IoFault/ReadPropagate.v), and the two hypotheses
   of the "length really required" clause discharged (IoFault/SpaceLen.v) ---- *)
From EP Require Import IoFault.ReadPropagate IoFault.SpaceLen.

(* read programs contain functions (`PRead n k`); `req` is their pointwise
   equality (no functional extensionality is assumed anywhere): an equivalence
   that run_r respects on every state *)
Theorem C16_req_run :
  (forall p, req p p) /\ (forall p q, req p q -> req q p) /\
  (forall p q r, req p q -> req q r -> req p r) /\
  (forall p q, req p q -> forall st, run_r p st = run_r q st).
Proof. exact req_equiv_run. Qed.
Print Assumptions C16_req_run.

(* agrees_r y p = y is in the propagating fragment and its success path is
   (pointwise) p: then the explicit interpreter run_y, which hands every Result
   of read_exact to the program, runs y like run_r runs p - plain source or any
   LimitedReader state *)
Theorem C16_agrees_r_run : forall y p, agrees_r y p -> forall st, run_y y st = run_r p st.
Proof. exact agrees_r_run. Qed.
Print Assumptions C16_agrees_r_run.

(* a call `Callee::read(reader).map_err(f)?; k` (ycall: the caller sees the
   callee's Result - Ok(value) / Err(Io) / Err(Len) / Err(Content)): if the callee
   propagates, the closure f keeps every error what it is and the continuation
   propagates, the whole does, and its success path is the callee's with k at
   the Ok leaves *)
Theorem C16_call_propagates : forall a f k, propagating_r a -> m_ok f ->
  (forall v, propagating_r (k v)) ->
  propagating_r (ycall a (yq_call f k)) /\
  req (strip_r (ycall a (yq_call f k))) (rcall (strip_r a) (fun v => strip_r (k v))).
Proof. exact call_propagates. Qed.
Print Assumptions C16_call_propagates.

(* THE reader analogue of C16_crate_writers_propagate: every `read` /
   `read_limited` of the crate written as the Rust source writes it - each
   `reader.read_exact(..)?` / `.map_err(Io)?` / `.map_err(map_err)?` a YReadThen
   whose continuation matches on the Result with the map_err closure as program
   text, each call of another reader a `ycall` with its own match - is in the
   propagating fragment and its success path is the Model.v transliteration the
   other theorems are about: the 14 plain readers (in the order of
   plain_readers), IpAuthHeader / Ipv6RawExtHeader / Ipv6FragmentHeader ::read
   (lim = false) and ::read_limited (lim = true), Ipv6Extensions /
   Ipv4Extensions ::read and ::read_limited *)
Theorem C16_crate_readers_propagate :
  Forall2 agrees_r y_plain_readers plain_readers /\
  (forall lim,
     agrees_r (y_ip_auth_read lim) (ip_auth_read lim (fun nh => PRet [nh])) /\
     agrees_r (y_ipv6_raw_ext_read lim) (ipv6_raw_ext_read lim (fun nh => PRet [nh])) /\
     agrees_r (y_ipv6_frag_read lim) (ipv6_frag_read lim (fun nh => PRet [nh]))) /\
  (forall lim start,
     agrees_r (y_x6_read lim start) (x6_read lim start) /\
     agrees_r (y_x4_read lim start) (x4_read lim start)).
Proof. exact crate_readers_propagate. Qed.
Print Assumptions C16_crate_readers_propagate.

(* hence "the operation returns that I/O error", as a theorem about the explicit
   programs under run_y (C16_readers_fault was about run_r, where `?` is built
   in): for every data, chunk size, end behaviour and end position j the
   explicit reader answers the reader's I/O error after exactly j bytes (j inside
   what the fault-free run consumes) or the fault-free answer, which is never an
   impossible index / fuel / underflow *)
Theorem C16_crate_readers_explicit_fault :
  (forall y d c e j, In y y_plain_readers -> 1 <= c ->
     let r := run_y y (start_st d c e None) in
     let rj := run_y y (start_st (take j d) c e None) in
     good (fst r) /\
     (j < src_pulled (rs_src (snd r)) -> fst rj = QIo (io_kind e) /\ src_pulled (rs_src (snd rj)) = j) /\
     (src_pulled (rs_src (snd r)) <= j -> fst rj = fst r /\ src_pulled (rs_src (snd rj)) = src_pulled (rs_src (snd r)))) /\
  (forall (lim : bool) start lr d c e j, 1 <= c -> lr_read lr <= lr_max lr ->
     let l := if lim then Some lr else None in
     (let r := run_y (y_x6_read lim start) (start_st d c e l) in
      let rj := run_y (y_x6_read lim start) (start_st (take j d) c e l) in
      good (fst r) /\
      (j < src_pulled (rs_src (snd r)) -> fst rj = QIo (io_kind e) /\ src_pulled (rs_src (snd rj)) = j) /\
      (src_pulled (rs_src (snd r)) <= j -> fst rj = fst r /\ src_pulled (rs_src (snd rj)) = src_pulled (rs_src (snd r)))) /\
     (let r := run_y (y_x4_read lim start) (start_st d c e l) in
      let rj := run_y (y_x4_read lim start) (start_st (take j d) c e l) in
      good (fst r) /\
      (j < src_pulled (rs_src (snd r)) -> fst rj = QIo (io_kind e) /\ src_pulled (rs_src (snd rj)) = j) /\
      (src_pulled (rs_src (snd r)) <= j -> fst rj = fst r /\ src_pulled (rs_src (snd rj)) = src_pulled (rs_src (snd r))))).
Proof. exact crate_readers_explicit_fault. Qed.
Print Assumptions C16_crate_readers_explicit_fault.

(* NOT a defect of the crate: a CALLER that swallows its callee's error
   (Ipv4Extensions::read with `Err(_) => Ok((Default::default(), start_ip_number))`
   around IpAuthHeader::read, whose own read_exact calls all propagate) is
   expressible, is outside the fragment and answers Ok on a source that ended
   after 14 of the 16 bytes; the crate's form answers UnexpectedEof *)
Theorem C16_swallowing_call_refuted :
  ~ propagating_r (swallowing_x4_read AUTH) /\
  propagating_r (y_x4_read false AUTH) /\
  (let r := run_y (swallowing_x4_read AUTH) (start_st ex_auth 3 false None) in
   fst r = QOk [6; 1] /\ src_pulled (rs_src (snd r)) = 16) /\
  (let r := run_y (swallowing_x4_read AUTH) (start_st (take 14 ex_auth) 3 false None) in
   fst r = QOk [AUTH; 0] /\ src_pulled (rs_src (snd r)) = 14) /\
  (let r := run_y (y_x4_read false AUTH) (start_st (take 14 ex_auth) 3 false None) in
   fst r = QIo KEof /\ src_pulled (rs_src (snd r)) = 14).
Proof. exact swallow_call_refuted. Qed.
Print Assumptions C16_swallowing_call_refuted.

(* C16_slice_space without its hypothesis `len enc = LEN`:
   Ethernet2Header::write_to_slice (LEN = 14) and LinuxSllHeader::write_to_slice
   (LEN = 16) with the C08 encoders, for every header value whose address arrays
   have their type's length ([u8;6] x2 / [u8;8]; implied by wf_eth / wf_sll): the
   encoding has exactly LEN bytes, so Ok iff the slice has LEN bytes, the error
   names LEN = the length really required and leaves the slice untouched; the C08
   model of the same Rust function agrees *)
Theorem C16_eth_write_to_slice : forall h slice, eth_arrays h ->
  let enc := ETH.eth_to_bytes h in
  len enc = 14 /\
  (len slice < 14 ->
     header_write_to_slice 14 L_ETH enc slice = (SErr (mk_slice_err 14 (len slice) L_ETH 0), slice)) /\
  (14 <= len slice ->
     header_write_to_slice 14 L_ETH enc slice = (SOk 14 (len slice - 14), enc ++ drop 14 slice)) /\
  snd (header_write_to_slice 14 L_ETH enc slice) = snd (spec_slice_write enc slice) /\
  (fst (spec_slice_write enc slice) = None <-> 14 <= len slice) /\
  (len slice < 14 -> ETH.eth_write_to_slice slice h = RC.Err RC.ELen) /\
  (14 <= len slice ->
     ETH.eth_write_to_slice slice h = RC.Ok (snd (header_write_to_slice 14 L_ETH enc slice), drop 14 slice)).
Proof. exact eth_write_to_slice_space. Qed.
Print Assumptions C16_eth_write_to_slice.

Theorem C16_sll_write_to_slice : forall h slice, sll_arrays h ->
  let enc := SLL.sll_to_bytes h in
  len enc = 16 /\
  (len slice < 16 ->
     header_write_to_slice 16 L_SLL enc slice = (SErr (mk_slice_err 16 (len slice) L_SLL 0), slice)) /\
  (16 <= len slice ->
     header_write_to_slice 16 L_SLL enc slice = (SOk 16 (len slice - 16), enc ++ drop 16 slice)) /\
  snd (header_write_to_slice 16 L_SLL enc slice) = snd (spec_slice_write enc slice) /\
  (fst (spec_slice_write enc slice) = None <-> 16 <= len slice) /\
  (len slice < 16 -> SLL.sll_write_to_slice slice h = RC.Err RC.ELen) /\
  (16 <= len slice ->
     SLL.sll_write_to_slice slice h = RC.Ok (snd (header_write_to_slice 16 L_SLL enc slice), drop 16 slice)).
Proof. exact sll_write_to_slice_space. Qed.
Print Assumptions C16_sll_write_to_slice.

Theorem C16_wf_implies_arrays :
  (forall h, ETH.wf_eth h = true -> eth_arrays h) /\ (forall h, SLL.wf_sll h = true -> sll_arrays h).
Proof. exact (conj wf_eth_arrays wf_sll_arrays). Qed.
Print Assumptions C16_wf_implies_arrays.

(* C16_builder_space without its hypothesis `bcfg_wf`: for EVERY builder
   configuration c (Builder/Model.v), host endianness, payload and buffer, the
   C16 configuration `bcfg_of e c payload` (parts = the encoders of C08 / C12 /
   C15) satisfies bcfg_wf (re-export of Builder/ProofsSinks.v bcfg_of_wf), hence:
   too short => Space(size), buffer untouched; long enough => the walk's own
   verdict, on Ok exactly `size` bytes.  For a well-formed configuration (cfg_wf
   = the type invariants of the crate's structs) `size` is the builder model's
   final_size and the bytes / verdict are those of build_run. *)
Theorem C16_builder_space_cfg : forall (e : EP.Checksum.Model.endian) (c : BM.cfg) (payload buffer : bytes),
  let b := BK.bcfg_of e c payload in
  let required := final_size b (len payload) in
  let p := final_write_with_net b payload in
  bcfg_wf b /\
  (len buffer < required -> final_write_to_slice b buffer payload = (BSpace required, buffer)) /\
  (required <= len buffer ->
     final_write_to_slice b buffer payload =
       (bres_of required (wprog_verdict p), wprog_bytes p ++ drop (len (wprog_bytes p)) buffer)) /\
  (wprog_verdict p = VOk -> len (wprog_bytes p) = required) /\
  len (wprog_bytes p) <= required /\
  verdict_ok (wprog_verdict p) /\
  (BSP.cfg_wf c = true ->
     required = BM.final_size c (len payload) /\
     wprog_bytes p = snd (BM.build_run e c payload) /\
     wprog_verdict p = BK.verdict_of (fst (BM.build_run e c payload))).
Proof. exact builder_space_cfg. Qed.
Print Assumptions C16_builder_space_cfg.

(* ---- round 3 examples *)

(* the explicit IpHeaders::read (a YReadThen per read_exact, two ycall nodes:
   Ipv6Header::read_without_version and Ipv6Extensions::read_limited, inside it
   the calls of Ipv6RawExtHeader / Ipv6FragmentHeader ::read_limited) on the IPv6
   chain of C16_ex_read_fault_ip: Ok after 56 bytes; a source that ends after 52
   bytes gives UnexpectedEof / the reader's error after exactly 52 bytes *)
Example C16_ex_explicit_ip_headers :
  In y_ip_headers_read y_plain_readers /\
  (let r := run_y y_ip_headers_read (start_st ex_v6chain 7 false None) in
   fst r = QOk [17; 17] /\ src_pulled (rs_src (snd r)) = 56) /\
  (let r := run_y y_ip_headers_read (start_st (take 52 ex_v6chain) 7 false None) in
   fst r = QIo KEof /\ src_pulled (rs_src (snd r)) = 52) /\
  (let r := run_y y_ip_headers_read (start_st (take 52 ex_v6chain) 7 true None) in
   fst r = QIo KOther /\ src_pulled (rs_src (snd r)) = 52).
Proof. split; [cbn; tauto|]. repeat split; vm_compute; reflexivity. Qed.

(* the Len error of the LimitedReader reaches the caller of the explicit program
   as the Len error (C16_ex_limited through run_y) *)
Example C16_ex_explicit_limited :
  let r := run_y y_ip_headers_read (mk_rstate (mk_fsource ex_v6 5 false 0) None) in
  fst r = QLen (mk_lenerr 16 8 LS_IPV6_PAYLOAD L_IPV6EXT 40) /\ src_pulled (rs_src (snd r)) = 42.
Proof. split; vm_compute; reflexivity. Qed.

Definition ex_eth_hdr : ETH.Ethernet2Header :=
  ETH.Build_Ethernet2Header [1; 2; 3; 4; 5; 6] [7; 8; 9; 10; 11; 12] 2048.
Example C16_ex_eth_slice :
  ETH.wf_eth ex_eth_hdr = true /\ eth_arrays ex_eth_hdr /\
  header_write_to_slice 14 L_ETH (ETH.eth_to_bytes ex_eth_hdr) (repeat 255 13)
    = (SErr (mk_slice_err 14 13 L_ETH 0), repeat 255 13) /\
  header_write_to_slice 14 L_ETH (ETH.eth_to_bytes ex_eth_hdr) (repeat 255 15)
    = (SOk 14 1, [7; 8; 9; 10; 11; 12; 1; 2; 3; 4; 5; 6; 8; 0; 255]).
Proof. repeat split; vm_compute; reflexivity. Qed.

Definition ex_sll_hdr : SLL.LinuxSllHeader :=
  SLL.Build_LinuxSllHeader 4 1 6 [1; 2; 3; 4; 5; 6; 0; 0] (SLL.SllEtherType 2048).
Example C16_ex_sll_slice :
  SLL.wf_sll ex_sll_hdr = true /\ sll_arrays ex_sll_hdr /\
  header_write_to_slice 16 L_SLL (SLL.sll_to_bytes ex_sll_hdr) (repeat 255 15)
    = (SErr (mk_slice_err 16 15 L_SLL 0), repeat 255 15) /\
  fst (header_write_to_slice 16 L_SLL (SLL.sll_to_bytes ex_sll_hdr) (repeat 255 16)) = SOk 16 0.
Proof. repeat split; vm_compute; reflexivity. Qed.

(* the hypothesis of C16_slice_space was needed in the parametric model: an
   encoding of another length is the copy_from_slice panic, not a space error *)
Example C16_ex_slice_len_needed :
  header_write_to_slice 14 L_ETH (repeat 1 13) (repeat 255 20) = (SPanic, repeat 255 20).
Proof. exact slice_len_hyp_needed. Qed.

(* the crate's documentation example (ethernet2 / ipv4 / udp, 8 byte payload):
   well-formed, size() = 50; 49 bytes => Space(50) and nothing written *)
Example C16_ex_builder_cfg :
  BSP.cfg_wf ex_b_cfg = true /\
  final_size (BK.bcfg_of EP.Checksum.Model.LE ex_b_cfg ex_b_payload) 8 = 50 /\
  final_write_to_slice (BK.bcfg_of EP.Checksum.Model.LE ex_b_cfg ex_b_payload) (repeat 255 49) ex_b_payload
    = (BSpace 50, repeat 255 49) /\
  fst (final_write_to_slice (BK.bcfg_of EP.Checksum.Model.LE ex_b_cfg ex_b_payload) (repeat 255 51) ex_b_payload)
    = BOk 50.
Proof. repeat split; vm_compute; reflexivity. Qed.
(* ==== round3 c16rp end ==== *)
