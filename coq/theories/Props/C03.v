(* Props/C03.v -- property C03: strict packet slicing matches the wire formats
   for every byte string.  Statements only; proofs are `exact`.

   Model : Parse/Slices.v + Parse/Cursor.v (transliteration of the crate's slicers
           and of SlicedPacketCursor; sub-slices are (pointer offset, contents))
   Spec  : Parse/WireSpec.v (reference decoder over absolute positions, written
           from the formats)
   `vres_of` maps a model result to what an observer sees (windows, protocol
   numbers, fragmentation flags, length sources); `c03_rel` demands equal accepted
   packets and the same rejection cause (layer / required / available, or the
   same content error with the same offending value). *)
From EP Require Parse.GenAccessOk.   (* the field accessors, re-translated from the Rust source on every run (Gen/Accessors.v), equal the hand models the theorems below are about *)
From EP Require Parse.ConstsAllOk.   (* every numeric `pub const` of the crate, regenerated from the source on every run, has its RFC / IANA value *)
From EP Require Parse.ConstsOk.
From EP Require Import Base.Bytes Parse.Types Parse.Slices Parse.Cursor Parse.View
  Parse.WireSpec Parse.StrictProofs.

Theorem C03_from_ethernet : forall bs, bytes_ok bs ->
  c03_rel (vres_of (SlicedPacket.from_ethernet bs)) (wire_ethernet bs).
Proof. exact (fun bs H => res_rel_c03 _ _ (from_ethernet_rel bs H)). Qed.
Print Assumptions C03_from_ethernet.

Theorem C03_from_linux_sll : forall bs, bytes_ok bs ->
  c03_rel (vres_of (SlicedPacket.from_linux_sll bs)) (wire_linux_sll bs).
Proof. exact (fun bs H => res_rel_c03 _ _ (from_linux_sll_rel bs H)). Qed.
Print Assumptions C03_from_linux_sll.

Theorem C03_from_ether_type : forall bs et, bytes_ok bs ->
  c03_rel (vres_of (SlicedPacket.from_ether_type et bs)) (wire_ether_type bs et).
Proof. exact (fun bs et H => res_rel_c03 _ _ (from_ether_type_rel bs et H)). Qed.
Print Assumptions C03_from_ether_type.

Theorem C03_from_ip : forall bs, bytes_ok bs ->
  c03_rel (vres_of (SlicedPacket.from_ip bs)) (wire_from_ip bs).
Proof. exact (fun bs H => res_rel_c03 _ _ (from_ip_rel bs H)). Qed.
Print Assumptions C03_from_ip.

(* by-product (feeds C01/C02 for the strict slicing path): no unchecked read,
   from_raw_parts, unwrap, subtraction or loop bound of the model fails *)
Theorem C03_strict_never_bug : forall bs et b, bytes_ok bs ->
  SlicedPacket.from_ethernet bs <> Bug b /\ SlicedPacket.from_linux_sll bs <> Bug b /\
  SlicedPacket.from_ether_type et bs <> Bug b /\ SlicedPacket.from_ip bs <> Bug b.
Proof. exact strict_never_bug. Qed.
Print Assumptions C03_strict_never_bug.

(* non-vacuity: Ethernet / VLAN / IPv4 / UDP is accepted with the expected layout;
   the same packet cut inside the UDP header is rejected at offset 38 *)
Definition ex_pkt : bytes :=
  [1;2;3;4;5;6; 7;8;9;10;11;12; 129;0;  0;5; 8;0;
   69;0;0;32; 0;0;0;0; 64;17;0;0; 1;2;3;4; 5;6;7;8;
   0;1;0;2;0;12;0;0; 170;187;204;221].
Example C03_ex_ok :
  bytes_ok ex_pkt /\
  wire_ethernet ex_pkt =
    VOk (mkVPacket (Some (VEthernet2 (0, 50))) [VVlan (14, 36)]
           (Some (VIpv4 (18, 20) None (mkVIp 17 false LsIpv4HeaderTotalLen (38, 12))))
           (Some (VUdp (38, 12)))) /\
  vres_of (SlicedPacket.from_ethernet ex_pkt) = wire_ethernet ex_pkt.
Proof. split; [apply bytes_okb_spec; vm_compute; reflexivity|split; vm_compute; reflexivity]. Qed.
Example C03_ex_cut :
  vres_of (SlicedPacket.from_ethernet (firstn 41 ex_pkt)) =
    VErr (ELen (mkLenError 32 23 LsSlice LyIpv4Packet 18)).
Proof. vm_compute; reflexivity. Qed.

(* ==== header FIELD VALUES (extension of C03) ==========================================
   Spec  : Parse/Fields.v `spec_fields bs v` -- per layer of the view the list of
           (field tag, value) the formats prescribe for the bytes at the layer's ABSOLUTE
           position (B/W readers of Parse/WireSpec.v; sub-octet fields as bit ranges in the
           RFC numbering, BitFields/Spec.v): Ethernet II, Linux SLL, 802.1Q, MACsec SecTAG,
           ARP, IPv4 (+options), AH, IPv6, every extension header of the chain (raw /
           fragment / AH), UDP, TCP (+9 flags, options), ICMPv4, ICMPv6.
   Model : Parse/Fields.v `fields_of_packet p` -- the same list through the ACCESSOR models
           of Parse/Access.v (C01) applied to the slices stored in the strict result.
   For every byte string: when the strict slicer accepts, (1) the reference decoder accepts
   with exactly the layers / windows of the result (C03 above) and (2) every RAW HEADER-FIELD
   accessor of every layer (the accessors to_header() reads; list: notes/C03.md section 3)
   returns the field of the format at that layer's absolute position.  All layer kinds are
   covered (nothing `_partial`).  Three fields have no slice accessor and are derived: MACsec V
   (bit 0x80 of tci_an_raw()), AH payload length and the extension length octet (to_header()).
   Derived / typed accessors (MacsecHeaderSlice::ptype / next_ether_type / header_len /
   expected_payload_len / is_unmodified, Ipv4HeaderSlice::payload_len / is_fragmenting_payload,
   Ipv6HeaderSlice::dscp / ecn, Ipv6FragmentHeaderSlice::is_fragmenting_payload,
   LinuxSllHeaderSlice::sender_address, Ethernet2Slice::fcs, payload_slice() / header_slice() /
   payload() windows, UdpSlice::payload_len_source, header_len(), the IP payload descriptors)
   are not in THIS theorem family; they are the `C03_fields2_from_X` family at the end of this
   file.  icmp_type() / header() (typed ICMP messages) and TCP option elements are C17 / C13. *)
From EP Require Import Parse.Access Parse.Fields Parse.FieldsProofs.

Theorem C03_fields_from_ethernet : forall bs p, bytes_ok bs ->
  SlicedPacket.from_ethernet bs = Ok p ->
  wire_ethernet bs = VOk (view p) /\ fields_of_packet p = Ok (spec_fields bs (view p)).
Proof. exact fields_wire_from_ethernet. Qed.
Print Assumptions C03_fields_from_ethernet.

Theorem C03_fields_from_linux_sll : forall bs p, bytes_ok bs ->
  SlicedPacket.from_linux_sll bs = Ok p ->
  wire_linux_sll bs = VOk (view p) /\ fields_of_packet p = Ok (spec_fields bs (view p)).
Proof. exact fields_wire_from_linux_sll. Qed.
Print Assumptions C03_fields_from_linux_sll.

Theorem C03_fields_from_ether_type : forall bs et p, bytes_ok bs ->
  SlicedPacket.from_ether_type et bs = Ok p ->
  wire_ether_type bs et = VOk (view p) /\ fields_of_packet p = Ok (spec_fields bs (view p)).
Proof. exact fields_wire_from_ether_type. Qed.
Print Assumptions C03_fields_from_ether_type.

Theorem C03_fields_from_ip : forall bs p, bytes_ok bs ->
  SlicedPacket.from_ip bs = Ok p ->
  wire_from_ip bs = VOk (view p) /\ fields_of_packet p = Ok (spec_fields bs (view p)).
Proof. exact fields_wire_from_ip. Qed.
Print Assumptions C03_fields_from_ip.

(* non-vacuity: the Ethernet / VLAN / IPv4 / UDP packet above, and IPv6 (traffic class 0xab,
   flow label 0xcdef1) / hop-by-hop / fragment (offset 0, M 0) / TCP with NS, ACK, SYN set *)
Example C03_fields_ex :
  exists p, SlicedPacket.from_ethernet ex_pkt = Ok p /\
    fields_of_packet p =
      Ok [(LEth, [(Fdst, FvN 1108152157446); (Fsrc, FvN 7731092785932); (Fether_type, FvN 33024)]);
          (LVlan, [(Fpcp, FvN 0); (Fdei, FvB false); (Fvid, FvN 5); (Fether_type, FvN 2048)]);
          (LIpv4, [(Fversion, FvN 4); (Fihl, FvN 5); (Fdscp, FvN 0); (Fecn, FvN 0); (Ftotal_len, FvN 32);
                   (Fident, FvN 0); (Fdf, FvB false); (Fmf, FvB false); (Ffrag_off, FvN 0); (Fttl, FvN 64);
                   (Fprotocol, FvN 17); (Fchecksum, FvN 0); (Fsrc, FvN 16909060); (Fdst, FvN 84281096);
                   (Foptions, FvBytes [])]);
          (LUdp, [(Fsrc_port, FvN 1); (Fdst_port, FvN 2); (Flength, FvN 12); (Fchecksum, FvN 0)])] /\
    spec_fields ex_pkt (view p) =
      match fields_of_packet p with Ok l => l | _ => [] end.
Proof. eexists. split; [vm_compute; reflexivity|split; vm_compute; reflexivity]. Qed.

Definition ex6_pkt : bytes :=
  [106;188;222;241; 0;36; 0; 64] ++ repeat 17 16 ++ repeat 34 16 ++
  [44;0;1;2;3;4;5;6] ++ [6;0;0;0; 0;0;0;9] ++
  [0;80; 1;187; 0;0;0;1; 0;0;0;2; 81;18; 16;0; 171;205; 0;7].
Example C03_fields_ex6 :
  bytes_ok ex6_pkt /\
  exists p, SlicedPacket.from_ip ex6_pkt = Ok p /\
    fields_of_packet p =
      Ok [(LIpv6, [(Fversion, FvN 6); (Ftraffic_class, FvN 171); (Fflow_label, FvN 843505);
                   (Fpayload_len, FvN 36); (Fnext_header, FvN 0); (Fhop_limit, FvN 64);
                   (Fsrc, FvBytes (repeat 17 16)); (Fdst, FvBytes (repeat 34 16))]);
          (LHopByHop, [(Fnext_header, FvN 44); (Flen_byte, FvN 0); (Fpayload, FvBytes [1; 2; 3; 4; 5; 6])]);
          (LFragment, [(Fnext_header, FvN 6); (Ffrag_off, FvN 0); (Fmf, FvB false); (Fident, FvN 9)]);
          (LTcp, [(Fsrc_port, FvN 80); (Fdst_port, FvN 443); (Fseq, FvN 1); (Fack_nr, FvN 2);
                  (Fdata_offset, FvN 5); (Fns, FvB true); (Fcwr, FvB false); (Fece, FvB false);
                  (Furg, FvB false); (Fack, FvB true); (Fpsh, FvB false); (Frst, FvB false);
                  (Fsyn, FvB true); (Ffin, FvB false); (Fwindow, FvN 4096); (Fchecksum, FvN 43981);
                  (Furgent, FvN 7); (Foptions, FvBytes [])])].
Proof. split; [apply bytes_okb_spec; vm_compute; reflexivity|]. eexists. split; vm_compute; reflexivity. Qed.

(* Linux SLL / IPv4 / UDP, and ether type 0x8100: VLAN / MACsec (SC, unmodified) / ARP *)
Definition ex_sll : bytes := [0;4; 0;1; 0;6; 1;2;3;4;5;6;0;0; 8;0] ++ skipn 18 ex_pkt.
Example C03_fields_ex_sll :
  exists p, SlicedPacket.from_linux_sll ex_sll = Ok p /\
    fields_of_packet p = Ok (spec_fields ex_sll (view p)) /\
    hd_error (spec_fields ex_sll (view p)) =
      Some (LSll, [(Fpacket_type, FvN 4); (Fhw_type, FvN 1); (Faddr_len, FvN 6);
                   (Faddr, FvBytes [1; 2; 3; 4; 5; 6; 0; 0]); (Fprotocol, FvN 2048)]) /\
    map fst (spec_fields ex_sll (view p)) = [LSll; LIpv4; LUdp].
Proof. eexists. split; [vm_compute; reflexivity|repeat split; vm_compute; reflexivity]. Qed.

Definition ex_et : bytes :=
  [164;210; 136;229; 32;0; 0;0;0;9; 1;2;3;4;5;6;7;8; 8;6; 0;1; 8;0; 6;4; 0;2] ++
  [1;2;3;4;5;6; 10;0;0;1; 7;8;9;10;11;12; 10;0;0;2].
Example C03_fields_ex_et :
  exists p, SlicedPacket.from_ether_type 33024 ex_et = Ok p /\
    fields_of_packet p =
      Ok [(LVlan, [(Fpcp, FvN 5); (Fdei, FvB false); (Fvid, FvN 1234); (Fether_type, FvN 35045)]);
          (LMacsec, [(Fv, FvB false); (Fes, FvB false); (Fsc, FvB true); (Fscb, FvB false); (Fe, FvB false);
                     (Fc, FvB false); (Fan, FvN 0); (Fsl, FvN 0); (Fpn, FvN 9);
                     (Fsci, FvN 72623859790382856)]);
          (LArp, [(Fhw_type, FvN 1); (Fproto_type, FvN 2048); (Fhw_size, FvN 6); (Fproto_size, FvN 4);
                  (Foperation, FvN 2); (Fsender_hw, FvBytes [1; 2; 3; 4; 5; 6]);
                  (Fsender_proto, FvBytes [10; 0; 0; 1]); (Ftarget_hw, FvBytes [7; 8; 9; 10; 11; 12]);
                  (Ftarget_proto, FvBytes [10; 0; 0; 2])])] /\
    fields_of_packet p = Ok (spec_fields ex_et (view p)).
Proof. eexists. split; [vm_compute; reflexivity|split; vm_compute; reflexivity]. Qed.

(* ==== audit round 1 follow-up: two clauses that were true "by inspection of the trusted
   reference decoder" only, now theorems ABOUT it (Parse/WireNested.v, Parse/WireSpecFacts.v)
   and, through the refinement above, about the model of SlicedPacket =====================

   (1) "Payloads are cut to the innermost applicable length field ... and never extend past
   it": `nested bs v` walks the view from the outside in; `cur` is the window of the data
   available to the next layer (already cut by every outer length field).  Each layer starts
   at the start of `cur`, ends inside it, and hands a payload window to the next layer that
   ends where its own length field says (MACsec short length, IPv4 total length, IPv6 payload
   length, UDP length; 0 = the end of `cur`).  The clauses per layer kind are pinned below
   (`C03_nested_pin_X`, by `eq_refl`).  `nested_inside`: every window of a nested view lies
   inside [0, len bs).

   (2) "Slicing fails exactly when a header is cut short, a length field claims more bytes
   than are present or fewer than its own header, or a documented content rule is violated":
   `classify bs err` decides, from the error and the bytes at the failing layer's offset, which
   of these causes the rejection has; it is total on the rejections of the reference decoder.
   Two causes of the reference decoder are NOT in the property's list and have their own
   classes: EcIcmpv4TimestampSize (an ICMPv4 timestamp / timestamp reply message that is not
   exactly 20 bytes long -- crate rule) and EcIcmpv6TooLong (ICMPv6 longer than 2^32-1). *)
From EP Require Import Parse.WireSpecFacts Parse.WireNested Parse.StrictFacts.

(* ---- (1) nesting ---- *)
Theorem C03_wire_nested : forall bs et v,
  (wire_ethernet bs = VOk v -> nested bs v) /\
  (wire_linux_sll bs = VOk v -> nested bs v) /\
  (wire_ether_type bs et = VOk v -> nested bs v) /\
  (wire_from_ip bs = VOk v -> nested bs v).
Proof. exact wire_nested. Qed.
Print Assumptions C03_wire_nested.

Theorem C03_nested_inside : forall bs v,
  nested bs v -> Forall (fun w => fst w + snd w <= len bs) (vwindows v).
Proof. exact nested_inside. Qed.
Print Assumptions C03_nested_inside.

Theorem C03_nested_from_ethernet : forall bs p, bytes_ok bs ->
  SlicedPacket.from_ethernet bs = Ok p ->
  wire_ethernet bs = VOk (view p) /\ nested bs (view p) /\ Forall (inside bs) (vwindows (view p)).
Proof. exact (fun bs p H => strict_nested_from_ethernet bs H p). Qed.
Print Assumptions C03_nested_from_ethernet.

Theorem C03_nested_from_linux_sll : forall bs p, bytes_ok bs ->
  SlicedPacket.from_linux_sll bs = Ok p ->
  wire_linux_sll bs = VOk (view p) /\ nested bs (view p) /\ Forall (inside bs) (vwindows (view p)).
Proof. exact (fun bs p H => strict_nested_from_linux_sll bs H p). Qed.
Print Assumptions C03_nested_from_linux_sll.

Theorem C03_nested_from_ether_type : forall bs et p, bytes_ok bs ->
  SlicedPacket.from_ether_type et bs = Ok p ->
  wire_ether_type bs et = VOk (view p) /\ nested bs (view p) /\ Forall (inside bs) (vwindows (view p)).
Proof. exact (fun bs et p H => strict_nested_from_ether_type bs et H p). Qed.
Print Assumptions C03_nested_from_ether_type.

Theorem C03_nested_from_ip : forall bs p, bytes_ok bs ->
  SlicedPacket.from_ip bs = Ok p ->
  wire_from_ip bs = VOk (view p) /\ nested bs (view p) /\ Forall (inside bs) (vwindows (view p)).
Proof. exact (fun bs p H => strict_nested_from_ip bs H p). Qed.
Print Assumptions C03_nested_from_ip.

(* what `nested` says, layer kind by layer kind (definitional unfoldings) *)
Example C03_nested_pin : forall bs v,
  nested bs v =
  (link_ok bs (v_link v) /\
   exts_nested bs (link_payload bs (v_link v)) (v_exts v) /\
   match v_net v with
   | None => True
   | Some nn => net_ok bs (exts_final (link_payload bs (v_link v)) (v_exts v)) nn
   end /\
   tr_nested bs (v_net v) (v_transport v)).
Proof. reflexivity. Qed.
Example C03_nested_pin_exts : forall bs cur x r,
  exts_nested bs cur (x :: r) = (ext_ok bs cur x /\ exts_nested bs (ext_payload x) r) /\
  exts_final cur (x :: r) = exts_final (ext_payload x) r /\ exts_final cur [] = cur.
Proof. repeat split. Qed.
Example C03_nested_pin_link : forall bs w h e,
  link_ok bs (Some (VEthernet2 w)) = (w = (0, len bs) /\ 14 <= len bs) /\
  link_payload bs (Some (VEthernet2 w)) = (fst w + 14, snd w - 14) /\
  link_ok bs (Some (VLinuxSll h w)) = (h = (0, 16) /\ w = (0, len bs) /\ 16 <= len bs) /\
  link_payload bs (Some (VLinuxSll h w)) = (fst w + snd h, snd w - snd h) /\
  link_ok bs (Some (VEtherPayload e)) = (vep_win e = (0, len bs) /\ vep_src e = LsSlice) /\
  link_payload bs (Some (VEtherPayload e)) = vep_win e /\
  link_payload bs None = (0, len bs).
Proof. repeat split. Qed.
Example C03_nested_pin_vlan : forall bs cur w,
  ext_ok bs cur (VVlan w) = (w = cur /\ 4 <= snd w) /\
  ext_payload (VVlan w) = (fst w + 4, snd w - 4).
Proof. repeat split. Qed.
Example C03_nested_pin_macsec : forall bs cur h p,
  ext_ok bs cur (VMacsec h p) =
  (let tci := B bs (fst h) in
   let sl := B bs (fst h + 1) mod 64 in
   let pw := match p with VMpUnmodified e => vep_win e | VMpModified w => w end in
   fst h = fst cur /\
   snd h = 6 + (if (tci / 4) mod 4 =? 0 then 2 else 0) + (if negb ((tci / 32) mod 2 =? 0) then 8 else 0) /\
   fst pw = fst h + snd h /\ fst pw + snd pw <= fst cur + snd cur /\
   (sl = 0 -> fst pw + snd pw = fst cur + snd cur) /\
   (0 < sl -> fst pw + snd pw = fst h + snd h + (if (tci / 4) mod 4 =? 0 then sl - 2 else sl)) /\
   match p with
   | VMpUnmodified e =>
       (tci / 4) mod 4 = 0 /\ vep_type e = W bs (fst h + snd h - 2) /\
       vep_src e = (if sl =? 0 then LsSlice else LsMacsecShortLength)
   | VMpModified _ => (tci / 4) mod 4 <> 0
   end) /\
  ext_payload (VMacsec h p) = match p with VMpUnmodified e => vep_win e | VMpModified w => w end.
Proof. repeat split. Qed.
Example C03_nested_pin_ipv4 : forall bs cur h auth p,
  net_ok bs cur (VIpv4 h auth p) =
  (let pos := fst h in
   let tl := W bs (pos + 2) in
   fst h = fst cur /\ snd h = (B bs pos mod 16) * 4 /\ 20 <= snd h /\
   pos + tl <= fst cur + snd cur /\
   match auth with
   | None => fst (vip_win p) = fst h + snd h
   | Some a => fst a = fst h + snd h /\ snd a = (B bs (fst a + 1) + 2) * 4 /\
               fst (vip_win p) = fst a + snd a
   end /\
   fst (vip_win p) + snd (vip_win p) = pos + tl /\ vip_src p = LsIpv4HeaderTotalLen).
Proof. reflexivity. Qed.
Example C03_nested_pin_ipv6 : forall bs cur h first frag x p,
  net_ok bs cur (VIpv6 h first frag x p) =
  (let pos := fst h in
   let pl := W bs (pos + 4) in
   fst h = fst cur /\ snd h = 40 /\ fst x = fst h + snd h /\ fst (vip_win p) = fst x + snd x /\
   fst (vip_win p) + snd (vip_win p) <= fst cur + snd cur /\
   (pl = 0 -> fst (vip_win p) + snd (vip_win p) = fst cur + snd cur) /\
   (0 < pl -> fst (vip_win p) + snd (vip_win p) = pos + 40 + pl /\
              vip_src p = LsIpv6HeaderPayloadLen)).
Proof. reflexivity. Qed.
Example C03_nested_pin_arp : forall bs cur w,
  net_ok bs cur (VArp w) =
  (fst w = fst cur /\ snd w = 8 + B bs (fst w + 4) * 2 + B bs (fst w + 5) * 2 /\
   fst w + snd w <= fst cur + snd cur).
Proof. reflexivity. Qed.
Example C03_nested_pin_transport : forall bs nn t ipw w hl,
  tr_nested bs nn (Some t) =
    match net_payload nn with
    | Some p => vip_frag p = false /\ tr_ok bs (vip_win p) t
    | None => False
    end /\
  tr_ok bs ipw (VUdp w) =
    (let l := W bs (fst w + 4) in
     fst w = fst ipw /\ 8 <= snd w /\ snd w <= snd ipw /\
     (l = 0 -> snd w = snd ipw) /\ (0 < l -> snd w = l)) /\
  tr_ok bs ipw (VTcp hl w) =
    (w = ipw /\ hl = (B bs (fst w + 12) / 16) * 4 /\ 20 <= hl /\ hl <= snd w) /\
  tr_ok bs ipw (VIcmpv4 w) = (w = ipw /\ 8 <= snd w) /\
  tr_ok bs ipw (VIcmpv6 w) = (w = ipw /\ 8 <= snd w /\ snd w <= 4294967295).
Proof. repeat split. Qed.

(* non-vacuity: the packet of C03_ex_ok followed by 3 bytes the IPv4 total length does not
   cover -- the VLAN window grows to the end of the input, the IP payload and UDP do not *)
Example C03_nested_ex :
  wire_ethernet (ex_pkt ++ [9; 9; 9]) =
    VOk (mkVPacket (Some (VEthernet2 (0, 53))) [VVlan (14, 39)]
           (Some (VIpv4 (18, 20) None (mkVIp 17 false LsIpv4HeaderTotalLen (38, 12))))
           (Some (VUdp (38, 12)))) /\
  vres_of (SlicedPacket.from_ethernet (ex_pkt ++ [9; 9; 9])) = wire_ethernet (ex_pkt ++ [9; 9; 9]).
Proof. split; vm_compute; reflexivity. Qed.

(* ---- (2) classes of rejections ---- *)
Theorem C03_wire_err_classes : forall bs et err,
  (wire_ethernet bs = VErr err -> exists c, classify bs err = Some c) /\
  (wire_linux_sll bs = VErr err -> exists c, classify bs err = Some c) /\
  (wire_ether_type bs et = VErr err -> exists c, classify bs err = Some c) /\
  (wire_from_ip bs = VErr err -> exists c, classify bs err = Some c).
Proof. exact wire_err_classes. Qed.
Print Assumptions C03_wire_err_classes.

(* the classes of length errors have the inequality their name says *)
Theorem C03_class_len_direction : forall bs e c,
  classify bs (ELen e) = Some c ->
  len_direction e /\
  (c = EcHeaderCut \/ c = EcLenFieldBeyond \/ c = EcLenFieldBelowHeader -> le_len e < le_required e) /\
  (c = EcIcmpv4TimestampSize -> le_required e = 20 /\ le_len e <> 20) /\
  (c = EcIcmpv6TooLong -> le_required e = 4294967295 /\ 4294967295 < le_len e) /\
  c <> EcContentRule.
Proof. exact class_len_direction. Qed.
Print Assumptions C03_class_len_direction.

(* the model: its rejection has the cause (c03_rel: layer / required / available, or the same
   content error) of a rejection of the reference decoder, which is in one of the classes *)
Theorem C03_err_classes_from_ethernet : forall bs err, bytes_ok bs ->
  SlicedPacket.from_ethernet bs = Err err ->
  exists serr c, wire_ethernet bs = VErr serr /\ same_cause err serr /\ classify bs serr = Some c.
Proof. exact (fun bs err H => strict_err_classes_from_ethernet bs 0 H err). Qed.
Print Assumptions C03_err_classes_from_ethernet.

Theorem C03_err_classes_from_linux_sll : forall bs err, bytes_ok bs ->
  SlicedPacket.from_linux_sll bs = Err err ->
  exists serr c, wire_linux_sll bs = VErr serr /\ same_cause err serr /\ classify bs serr = Some c.
Proof. exact (fun bs err H => strict_err_classes_from_linux_sll bs 0 H err). Qed.
Print Assumptions C03_err_classes_from_linux_sll.

Theorem C03_err_classes_from_ether_type : forall bs et err, bytes_ok bs ->
  SlicedPacket.from_ether_type et bs = Err err ->
  exists serr c, wire_ether_type bs et = VErr serr /\ same_cause err serr /\ classify bs serr = Some c.
Proof. exact (fun bs et err H => strict_err_classes_from_ether_type bs et H err). Qed.
Print Assumptions C03_err_classes_from_ether_type.

Theorem C03_err_classes_from_ip : forall bs err, bytes_ok bs ->
  SlicedPacket.from_ip bs = Err err ->
  exists serr c, wire_from_ip bs = VErr serr /\ same_cause err serr /\ classify bs serr = Some c.
Proof. exact (fun bs err H => strict_err_classes_from_ip bs 0 H err). Qed.
Print Assumptions C03_err_classes_from_ip.

(* what `classify` and `same_cause` say for some representative layers (definitional) *)
Example C03_classify_pin : forall bs r l s o v,
  classify bs (ELen (mkLenError r l s LyIpv4Packet o)) =
    (if (r =? (B bs o mod 16) * 4) && (l =? W bs (o + 2)) && (l <? r) then Some EcLenFieldBelowHeader
     else if (r =? W bs (o + 2)) && (l <? r) then Some EcLenFieldBeyond else None) /\
  classify bs (ELen (mkLenError r l s LyIpv6Packet o)) =
    (if (r =? 40 + W bs (o + 4)) && (l <? r) then Some EcLenFieldBeyond else None) /\
  classify bs (ELen (mkLenError r l s LyIpv4Header o)) =
    (if ((r =? 20) || (r =? (B bs o mod 16) * 4)) && (l <? r) then Some EcHeaderCut else None) /\
  classify bs (ELen (mkLenError r l LsUdpHeaderLen LyUdpHeader o)) =
    (if (r =? 8) && (l =? W bs (o + 4)) && (0 <? l) && (l <? r) then Some EcLenFieldBelowHeader else None) /\
  classify bs (ELen (mkLenError r l LsIpv4HeaderTotalLen LyUdpHeader o)) =
    (if (r =? 8) && (l <? r) then Some EcHeaderCut else None) /\
  classify bs (ELen (mkLenError r l s LyUdpPayload o)) =
    (if (r =? W bs (o + 4)) && (l <? r) then Some EcLenFieldBeyond else None) /\
  classify bs (ELen (mkLenError r l s LyIcmpv4Timestamp o)) =
    (if (B bs o =? 13) && (B bs (o + 1) =? 0) && (r =? 20) && (8 <=? l) && negb (l =? 20)
     then Some EcIcmpv4TimestampSize else None) /\
  classify bs (ELen (mkLenError r l s LyIcmpv6 o)) =
    (if (r =? 8) && (l <? r) then Some EcHeaderCut
     else if (r =? 4294967295) && (r <? l) then Some EcIcmpv6TooLong else None) /\
  classify bs (EContent (CeIpv4Ihl v)) = (if v <? 5 then Some EcContentRule else None) /\
  classify bs (EContent CeHopByHopNotAtStart) = Some EcContentRule.
Proof. repeat split. Qed.
Example C03_same_cause_pin : forall a b c d,
  same_cause (ELen a) (ELen b) =
    (le_layer a = le_layer b /\ le_required a = le_required b /\ le_len a = le_len b) /\
  same_cause (EContent c) (EContent d) = (c = d) /\
  same_cause (ELen a) (EContent d) = False /\ same_cause (EContent c) (ELen b) = False.
Proof. repeat split. Qed.

(* non-vacuity: the rejection of C03_ex_cut (IPv4 total length 32, 23 bytes present) is
   "a length field claims more than is present"; a UDP length field of 5 is "smaller than
   its own header" *)
Example C03_classes_ex :
  classify (firstn 41 ex_pkt) (ELen (mkLenError 32 23 LsSlice LyIpv4Packet 18)) = Some EcLenFieldBeyond /\
  wire_ethernet (firstn 41 ex_pkt) = VErr (ELen (mkLenError 32 23 LsSlice LyIpv4Packet 18)) /\
  (let bs := firstn 42 ex_pkt ++ [0; 5] ++ skipn 44 ex_pkt in
   wire_ethernet bs = VErr (ELen (mkLenError 8 5 LsUdpHeaderLen LyUdpHeader 38)) /\
   vres_of (SlicedPacket.from_ethernet bs) = wire_ethernet bs /\
   classify bs (ELen (mkLenError 8 5 LsUdpHeaderLen LyUdpHeader 38)) = Some EcLenFieldBelowHeader).
Proof. repeat split; vm_compute; reflexivity. Qed.

(* ==== audit rounds 1 + 2 follow-up: DERIVED and TYPED accessor values =====================
   Spec  : Parse/Fields2.v `spec_fields2 bs v` -- per layer of the view the values the formats
           prescribe for accessors that combine several raw fields or return a sub-window,
           defined from the RFC / IEEE fields at the layer's ABSOLUTE position (pinned below,
           `C03_fields2_pin_X`): MACsec payload type / next ether type / header length /
           expected payload length / unmodified flag from the E, C, SC bits and SL; IPv4 payload
           length = total length - IHL*4 and "fragmenting" = MF or offset <> 0; IPv6 DSCP / ECN
           = upper 6 / lower 2 bits of the traffic class; "fragmenting" of every fragment
           header the iterator yields; the SLL sender address window (min(length field, 8)
           octets); FCS absent, header and payload windows of Ethernet II / SLL / VLAN / UDP /
           TCP / ICMPv4 / ICMPv6 (the window behind the header, ending where `nested` says);
           the four ARP address windows; UDP length source; TCP header length = data offset * 4;
           ICMPv4 header length 20 for timestamp messages, else 8; the IP payload descriptor
           (protocol number, fragmentation flag, length source, window) of IPv4 (+AH) and IPv6
           (+extension chain).
   Model : Parse/Fields2.v `fields2_of_packet p` -- the accessor models of Parse/Access.v
           (is_unmodified, ptype, next_ether_type, header_len, expected_payload_len, payload_len,
           is_fragmenting_payload, dscp, ecn, sender_address, fcs, header_slice, payload_slice,
           payload, payload_len_source, the ARP address accessors) applied to the stored slices,
           a window = (pointer offset, length) of the returned sub-slice; the stored
           IpPayloadSlice fields; TcpSlice::header_len() / Icmpv6Slice::header_len() (stored
           field / constant, defined in Fields2.v).
   `C03_wire_desc` is a statement ABOUT the reference decoder (Parse/WireDesc.v): the payload
   descriptor of every accepted view is the one the octets prescribe (`net_desc`, pinned
   below); it is what ties the stored IP payload descriptor to the bytes. *)
From EP Require Import Parse.WireDesc Parse.Fields2 Parse.Fields2Proofs.

Theorem C03_wire_desc : forall bs et v,
  (wire_ethernet bs = VOk v -> desc bs v) /\
  (wire_linux_sll bs = VOk v -> desc bs v) /\
  (wire_ether_type bs et = VOk v -> desc bs v) /\
  (wire_from_ip bs = VOk v -> desc bs v).
Proof. exact wire_desc. Qed.
Print Assumptions C03_wire_desc.

Theorem C03_fields2_from_ethernet : forall bs p, bytes_ok bs ->
  SlicedPacket.from_ethernet bs = Ok p ->
  wire_ethernet bs = VOk (view p) /\ fields2_of_packet p = Ok (spec_fields2 bs (view p)).
Proof. exact fields2_wire_from_ethernet. Qed.
Print Assumptions C03_fields2_from_ethernet.

Theorem C03_fields2_from_linux_sll : forall bs p, bytes_ok bs ->
  SlicedPacket.from_linux_sll bs = Ok p ->
  wire_linux_sll bs = VOk (view p) /\ fields2_of_packet p = Ok (spec_fields2 bs (view p)).
Proof. exact fields2_wire_from_linux_sll. Qed.
Print Assumptions C03_fields2_from_linux_sll.

Theorem C03_fields2_from_ether_type : forall bs et p, bytes_ok bs ->
  SlicedPacket.from_ether_type et bs = Ok p ->
  wire_ether_type bs et = VOk (view p) /\ fields2_of_packet p = Ok (spec_fields2 bs (view p)).
Proof. exact fields2_wire_from_ether_type. Qed.
Print Assumptions C03_fields2_from_ether_type.

Theorem C03_fields2_from_ip : forall bs p, bytes_ok bs ->
  SlicedPacket.from_ip bs = Ok p ->
  wire_from_ip bs = VOk (view p) /\ fields2_of_packet p = Ok (spec_fields2 bs (view p)).
Proof. exact fields2_wire_from_ip. Qed.
Print Assumptions C03_fields2_from_ip.

(* what the specification says, layer kind by layer kind (definitional unfoldings) *)
Example C03_desc_pin : forall bs h auth p first frag x,
  desc bs = (fun v => match v_net v with None => True | Some nn => net_desc bs nn end) /\
  net_desc bs (VIpv4 h auth p) =
    (vip_number p = match auth with Some a => B bs (fst a) | None => B bs (fst h + 9) end /\
     vip_frag p = (negb ((B bs (fst h + 6) / 32) mod 2 =? 0) || negb (W bs (fst h + 6) mod 8192 =? 0))) /\
  net_desc bs (VIpv6 h first frag x p) =
    (chain_end bs (S (N.to_nat (snd x))) (B bs (fst h + 6)) (fst x) (fst x + snd x) false
       = (vip_number p, vip_frag p) /\
     frag = vip_frag p /\
     vip_src p = (if (W bs (fst h + 4) =? 0) && (0 <? snd x + snd (vip_win p))
                  then LsSlice else LsIpv6HeaderPayloadLen)).
Proof. repeat split. Qed.
Example C03_desc_pin_chain : forall bs f nh pos lim fr,
  chain_end bs (S f) nh pos lim fr =
    (if lim <=? pos then (nh, fr)
     else if (nh =? 0) || (nh =? 43) || (nh =? 60) then
       chain_end bs f (B bs pos) (pos + (B bs (pos + 1) + 1) * 8) lim fr
     else if nh =? 44 then
       chain_end bs f (B bs pos) (pos + 8) lim
         (fr || (negb (B bs (pos + 3) mod 2 =? 0) || negb (W bs (pos + 2) / 8 =? 0)))
     else if nh =? 51 then
       chain_end bs f (B bs pos) (pos + (B bs (pos + 1) + 2) * 4) lim fr
     else (nh, fr)) /\
  chain_end bs 0 nh pos lim fr = (nh, fr).
Proof. repeat split. Qed.
Example C03_fields2_pin_macsec : forall bs p,
  macsec_spec2 bs p =
  (let e := flag bs p 1 4 in
   let c := flag bs p 1 5 in
   let sc := flag bs p 1 2 in
   let sl := bits bs (p + 1) 1 2 6 in
   let unmod := negb e && negb c in
   let et := W bs (p + 6 + (if sc then 8 else 0)) in
   [(Dis_unmodified, DvB unmod);
    (Dptype, DvN (if e then (if c then 3 else 2) else if c then 1 else 0));
    (Dptype_ether_type, DvOptN (if unmod then Some et else None));
    (Dnext_ether_type, DvOptN (if unmod then Some et else None));
    (Dheader_len, DvN (6 + (if sc then 8 else 0) + (if unmod then 2 else 0)));
    (Dexpected_payload_len,
     DvOptN (if sl =? 0 then None
             else if unmod then (if sl <? 2 then None else Some (sl - 2))
             else Some sl))]).
Proof. reflexivity. Qed.
Example C03_fields2_pin_ip : forall bs h a x cend,
  ipv4_spec2 bs h a =
  (let p := fst h in
   let fr := flag bs (p + 6) 2 2 || negb (bits bs (p + 6) 2 3 13 =? 0) in
   let start := match a with Some w => fst w + snd w | None => fst h + snd h end in
   [(Dpayload_len, DvN (W bs (p + 2) - bits bs p 1 4 4 * 4));
    (Dis_fragmenting_payload, DvB fr);
    (Dpl_ip_number, DvN (match a with Some w => B bs (fst w) | None => B bs (p + 9) end));
    (Dpl_fragmented, DvB fr);
    (Dpl_len_source, DvSrc LsIpv4HeaderTotalLen);
    (Dpl_window, DvWin (start, p + W bs (p + 2) - start))]) /\
  ipv6_spec2 bs h x cend =
  (let p := fst h in
   let ne := chain_end_b bs (S (N.to_nat (snd x))) (B bs (p + 6)) (fst x) (fst x + snd x) false in
   let pend := if W bs (p + 4) =? 0 then cend else p + 40 + W bs (p + 4) in
   [(Ddscp, DvN (bits bs p 2 4 6)); (Decn, DvN (bits bs p 2 10 2));
    (Dpl_ip_number, DvN (fst ne)); (Dpl_fragmented, DvB (snd ne));
    (Dpl_len_source,
     DvSrc (if (W bs (p + 4) =? 0) && (p + 40 <? cend) then LsSlice else LsIpv6HeaderPayloadLen));
    (Dpl_window, DvWin (fst x + snd x, pend - (fst x + snd x)))]) /\
  frag_fragments_spec bs (fst h) =
    (flag bs (fst h + 2) 2 15 || negb (bits bs (fst h + 2) 2 0 13 =? 0)).
Proof. repeat split. Qed.
Example C03_fields2_pin_link_transport : forall bs w h,
  eth_spec2 w = [(Dfcs, DvOptBytes None); (Dheader, DvWin (fst w, 14));
                 (Dpayload, DvWin (fst w + 14, snd w - 14))] /\
  sll_spec2 bs h w = [(Dsender_address, DvWin (fst h + 6, N.min (W bs (fst h + 4)) 8));
                      (Dpayload, DvWin (fst w + 16, snd w - 16))] /\
  vlan_spec2 w = [(Dheader, DvWin (fst w, 4)); (Dpayload, DvWin (fst w + 4, snd w - 4))] /\
  arp_spec2 bs (fst w) =
    (let hln := B bs (fst w + 4) in let pln := B bs (fst w + 5) in
     [(Dsender_hw, DvWin (fst w + 8, hln)); (Dsender_proto, DvWin (fst w + 8 + hln, pln));
      (Dtarget_hw, DvWin (fst w + 8 + hln + pln, hln));
      (Dtarget_proto, DvWin (fst w + 8 + hln + pln + hln, pln))]) /\
  udp_spec2 bs w =
    [(Dheader, DvWin (fst w, 8)); (Dpayload, DvWin (fst w + 8, snd w - 8));
     (Dpayload_len_source, DvSrc (if W bs (fst w + 4) =? 0 then LsSlice else LsUdpHeaderLen))] /\
  tcp_spec2 bs w =
    (let hl := bits bs (fst w + 12) 1 0 4 * 4 in
     [(Dheader_len, DvN hl); (Dheader, DvWin (fst w, hl)); (Dpayload, DvWin (fst w + hl, snd w - hl))]) /\
  icmp4_spec2 bs w =
    (let hl := if ((B bs (fst w) =? 13) || (B bs (fst w) =? 14)) && (B bs (fst w + 1) =? 0) then 20 else 8 in
     [(Dheader_len, DvN hl); (Dpayload, DvWin (fst w + hl, snd w - hl))]) /\
  icmp6_spec2 w = [(Dheader_len, DvN 8); (Dpayload, DvWin (fst w + 8, snd w - 8))].
Proof. repeat split. Qed.
Example C03_fields2_pin_view : forall bs v,
  spec_fields2 bs v =
    dopt (spec_link2 bs) (v_link v) ++ map (spec_ext2 bs) (v_exts v) ++
    dopt (spec_net2 bs (wend (exts_final (link_payload bs (v_link v)) (v_exts v)))) (v_net v) ++
    dopt (spec_tr2 bs) (v_transport v).
Proof. reflexivity. Qed.

(* non-vacuity: the Ethernet / VLAN / IPv4 / UDP packet of C03_ex_ok; IPv6 (traffic class 0xab)
   / hop-by-hop / fragment (offset 0, M 1) / 20 payload octets; ether type 0x8100: VLAN /
   MACsec (SC, unmodified, SL 0) / ARP; MACsec with C set and SL 5; Linux SLL with a 6 octet
   address; an ICMPv4 timestamp message *)
Example C03_fields2_ex :
  exists p, SlicedPacket.from_ethernet ex_pkt = Ok p /\
    fields2_of_packet p =
      Ok [(LEth, [(Dfcs, DvOptBytes None); (Dheader, DvWin (0, 14)); (Dpayload, DvWin (14, 36))]);
          (LVlan, [(Dheader, DvWin (14, 4)); (Dpayload, DvWin (18, 32))]);
          (LIpv4, [(Dpayload_len, DvN 12); (Dis_fragmenting_payload, DvB false); (Dpl_ip_number, DvN 17);
                   (Dpl_fragmented, DvB false); (Dpl_len_source, DvSrc LsIpv4HeaderTotalLen);
                   (Dpl_window, DvWin (38, 12))]);
          (LUdp, [(Dheader, DvWin (38, 8)); (Dpayload, DvWin (46, 4));
                  (Dpayload_len_source, DvSrc LsUdpHeaderLen)])] /\
    fields2_of_packet p = Ok (spec_fields2 ex_pkt (view p)).
Proof. eexists. split; [vm_compute; reflexivity|split; vm_compute; reflexivity]. Qed.

Definition ex6f_pkt : bytes :=
  [106;188;222;241; 0;36; 0; 64] ++ repeat 17 16 ++ repeat 34 16 ++
  [44;0;1;2;3;4;5;6] ++ [6;0;0;1; 0;0;0;9] ++
  [0;80; 1;187; 0;0;0;1; 0;0;0;2; 81;18; 16;0; 171;205; 0;7].
Example C03_fields2_ex6 :
  bytes_ok ex6f_pkt /\
  exists p, SlicedPacket.from_ip ex6f_pkt = Ok p /\
    fields2_of_packet p =
      Ok [(LIpv6, [(Ddscp, DvN 42); (Decn, DvN 3); (Dpl_ip_number, DvN 6); (Dpl_fragmented, DvB true);
                   (Dpl_len_source, DvSrc LsIpv6HeaderPayloadLen); (Dpl_window, DvWin (56, 20))]);
          (LFragment, [(Dis_fragmenting_payload, DvB true)])] /\
    fields2_of_packet p = Ok (spec_fields2 ex6f_pkt (view p)).
Proof.
  split; [apply bytes_okb_spec; vm_compute; reflexivity|].
  eexists. split; [vm_compute; reflexivity|split; vm_compute; reflexivity].
Qed.

Example C03_fields2_ex_et :
  exists p, SlicedPacket.from_ether_type 33024 ex_et = Ok p /\
    fields2_of_packet p =
      Ok [(LVlan, [(Dheader, DvWin (0, 4)); (Dpayload, DvWin (4, 44))]);
          (LMacsec, [(Dis_unmodified, DvB true); (Dptype, DvN 0); (Dptype_ether_type, DvOptN (Some 2054));
                     (Dnext_ether_type, DvOptN (Some 2054)); (Dheader_len, DvN 16);
                     (Dexpected_payload_len, DvOptN None)]);
          (LArp, [(Dsender_hw, DvWin (28, 6)); (Dsender_proto, DvWin (34, 4));
                  (Dtarget_hw, DvWin (38, 6)); (Dtarget_proto, DvWin (44, 4))])] /\
    fields2_of_packet p = Ok (spec_fields2 ex_et (view p)).
Proof. eexists. split; [vm_compute; reflexivity|split; vm_compute; reflexivity]. Qed.

Definition ex_msm : bytes := [4;5; 0;0;0;9; 1;2;3;4;5; 9;9].
Example C03_fields2_ex_macsec_modified :
  exists p, SlicedPacket.from_ether_type 35045 ex_msm = Ok p /\
    fields2_of_packet p =
      Ok [(LMacsec, [(Dis_unmodified, DvB false); (Dptype, DvN 1); (Dptype_ether_type, DvOptN None);
                     (Dnext_ether_type, DvOptN None); (Dheader_len, DvN 6);
                     (Dexpected_payload_len, DvOptN (Some 5))])] /\
    fields2_of_packet p = Ok (spec_fields2 ex_msm (view p)).
Proof. eexists. split; [vm_compute; reflexivity|split; vm_compute; reflexivity]. Qed.

Example C03_fields2_ex_sll :
  exists p, SlicedPacket.from_linux_sll ex_sll = Ok p /\
    fields2_of_packet p = Ok (spec_fields2 ex_sll (view p)) /\
    hd_error (spec_fields2 ex_sll (view p)) =
      Some (LSll, [(Dsender_address, DvWin (6, 6)); (Dpayload, DvWin (16, 32))]).
Proof. eexists. split; [vm_compute; reflexivity|split; vm_compute; reflexivity]. Qed.

Definition ex_ts : bytes :=
  [69;0;0;40; 0;0;0;0; 64;1;0;0; 1;2;3;4; 5;6;7;8] ++ [13;0;0;0; 0;1;0;2] ++ repeat 7 12.
Example C03_fields2_ex_icmp_ts :
  exists p, SlicedPacket.from_ip ex_ts = Ok p /\
    fields2_of_packet p = Ok (spec_fields2 ex_ts (view p)) /\
    last (spec_fields2 ex_ts (view p)) (LEth, []) =
      (LIcmp4, [(Dheader_len, DvN 20); (Dpayload, DvWin (40, 0))]).
Proof. eexists. split; [vm_compute; reflexivity|split; vm_compute; reflexivity]. Qed.

(* ==== round3 c03disp begin ==== *)
(* ==== layer DISPATCH and CONTENT RULES of accepted views (audit round 3, top item 1) =====
   `dispatch bs e v` (Parse/WireDispatch.v) is a DESCRIPTION of a view, not a decoder: it takes
   the view as given and says which layer kind may stand where, read off the octets the view
   points at -- which ether type is announced behind the link header (Ethernet II: octets
   12..13; Linux SLL: octets 14..15, only for ARP hardware type 1 and a protocol number that is
   not a Linux non-standard type; from_ether_type: the argument), that every link extension is
   of the kind the type announced in front of it names (0x8100 / 0x88A8 / 0x9100 -> 802.1Q,
   0x88E5 -> MACsec) and announces the next type itself (a MACsec payload that is encrypted or
   changed announces nothing), at most 3 extensions, ARP / IPv4 / IPv6 behind 0x0806 / 0x0800 /
   0x86DD (from_ip: by the version nibble), ICMPv4 / UDP / TCP / ICMPv6 behind IP number 1 / 17
   / 6 / 58 of an unfragmented payload, and the documented content rules on what was accepted:
   SLL packet type <= 7 and supported hardware type, MACsec version bit 0 and not (unmodified
   /\ short length 1), IP version 4 / 6, IHL >= 5, AH decoded exactly behind protocol 51 with
   length octet <> 0, the IPv6 extension window tiled exactly by extension headers with
   hop-by-hop (0) only directly behind the IPv6 header and ending at the first number that is
   none of 0 / 43 / 44 / 51 / 60, TCP data offset >= 5, ICMPv4 timestamp messages 20 octets.
   "NO next layer" holds exactly for the documented causes (C03_dispatch_no_net_iff,
   C03_dispatch_no_transport_iff, C03_dispatch_exts_stop).
   Proved of the reference decoder (C03_wire_dispatch) and transferred to the slicer model
   through the C03_from_X refinements (C03_dispatch_from_X), together with `nested` and `desc`. *)
From EP Require Import Parse.WireDispatch Parse.StrictDispatch.

Theorem C03_wire_dispatch : forall bs et v,
  (wire_ethernet bs = VOk v -> dispatch bs EnEthernet v) /\
  (wire_linux_sll bs = VOk v -> dispatch bs EnLinuxSll v) /\
  (wire_ether_type bs et = VOk v -> dispatch bs (EnEtherType et) v) /\
  (wire_from_ip bs = VOk v -> dispatch bs EnIp v).
Proof. exact wire_dispatch. Qed.
Print Assumptions C03_wire_dispatch.

Theorem C03_dispatch_from_ethernet : forall bs p, bytes_ok bs ->
  SlicedPacket.from_ethernet bs = Ok p ->
  wire_ethernet bs = VOk (view p) /\
  nested bs (view p) /\ desc bs (view p) /\ dispatch bs EnEthernet (view p).
Proof. exact (fun bs p H => strict_dispatch_from_ethernet bs H p). Qed.
Print Assumptions C03_dispatch_from_ethernet.

Theorem C03_dispatch_from_linux_sll : forall bs p, bytes_ok bs ->
  SlicedPacket.from_linux_sll bs = Ok p ->
  wire_linux_sll bs = VOk (view p) /\
  nested bs (view p) /\ desc bs (view p) /\ dispatch bs EnLinuxSll (view p).
Proof. exact (fun bs p H => strict_dispatch_from_linux_sll bs H p). Qed.
Print Assumptions C03_dispatch_from_linux_sll.

Theorem C03_dispatch_from_ether_type : forall bs et p, bytes_ok bs ->
  SlicedPacket.from_ether_type et bs = Ok p ->
  wire_ether_type bs et = VOk (view p) /\
  nested bs (view p) /\ desc bs (view p) /\ dispatch bs (EnEtherType et) (view p).
Proof. exact (fun bs et p H => strict_dispatch_from_ether_type bs et H p). Qed.
Print Assumptions C03_dispatch_from_ether_type.

Theorem C03_dispatch_from_ip : forall bs p, bytes_ok bs ->
  SlicedPacket.from_ip bs = Ok p ->
  wire_from_ip bs = VOk (view p) /\
  nested bs (view p) /\ desc bs (view p) /\ dispatch bs EnIp (view p).
Proof. exact (fun bs p H => strict_dispatch_from_ip bs H p). Qed.
Print Assumptions C03_dispatch_from_ip.

(* the "exactly when" readings of the description *)
Theorem C03_dispatch_no_net_iff : forall bs e v, dispatch bs e v -> e <> EnIp ->
  (v_net v = None <->
   match exts_announced bs (first_type bs e) (v_exts v) with
   | None => True                       (* SLL protocol that is no ether type / modified MACsec payload *)
   | Some et =>
       (link_ext_type et /\ length (v_exts v) = 3%nat)       (* cap reached *)
       \/ (~ link_ext_type et /\ ~ net_type et)              (* a type the crate does not decode *)
   end).
Proof. exact dispatch_no_net_iff. Qed.
Print Assumptions C03_dispatch_no_net_iff.

Theorem C03_dispatch_ip_has_net : forall bs v, dispatch bs EnIp v ->
  v_link v = None /\ v_exts v = [] /\ v_net v <> None.
Proof. exact dispatch_ip_has_net. Qed.
Print Assumptions C03_dispatch_ip_has_net.

Theorem C03_dispatch_no_transport_iff : forall bs e v, dispatch bs e v ->
  (v_transport v = None <->
   match net_payload (v_net v) with
   | None => True                                            (* no network layer / ARP *)
   | Some p => vip_frag p = true \/ ~ tr_number (vip_number p)
   end).
Proof. exact dispatch_no_transport_iff. Qed.
Print Assumptions C03_dispatch_no_transport_iff.

Theorem C03_dispatch_exts_stop : forall bs e v et, dispatch bs e v -> e <> EnIp ->
  exts_announced bs (first_type bs e) (v_exts v) = Some et -> link_ext_type et ->
  length (v_exts v) = 3%nat /\ v_net v = None.
Proof. exact dispatch_exts_stop. Qed.
Print Assumptions C03_dispatch_exts_stop.

(* what `dispatch` says (definitional unfoldings; the numbers are the crate's constants as
   regenerated from the source, Gen/ConstsAll.v) *)
Example C03_dispatch_pin : forall bs e v,
  dispatch bs e v =
  (link_dispatch bs e (v_link v) /\
   (length (v_exts v) <= 3)%nat /\
   exts_dispatch bs (first_type bs e) (v_exts v) /\
   match e with
   | EnIp => ip_dispatch bs (v_net v)
   | _ => net_dispatch bs (exts_announced bs (first_type bs e) (v_exts v)) (length (v_exts v)) (v_net v)
   end /\
   tr_dispatch bs (v_net v) (v_transport v)).
Proof. reflexivity. Qed.
Example C03_dispatch_pin_numbers : forall n,
  vlan_type n = (n = Gen.ConstsAll.link_ether_type_impl__VLAN_TAGGED_FRAME \/
                 n = Gen.ConstsAll.link_ether_type_impl__PROVIDER_BRIDGING \/
                 n = Gen.ConstsAll.link_ether_type_impl__VLAN_DOUBLE_TAGGED_FRAME) /\
  macsec_type n = (n = Gen.ConstsAll.link_ether_type_impl__MACSEC) /\
  link_ext_type n = (vlan_type n \/ macsec_type n) /\
  net_type n = (n = Gen.ConstsAll.link_ether_type_impl__ARP \/
                n = Gen.ConstsAll.link_ether_type_impl__IPV4 \/
                n = Gen.ConstsAll.link_ether_type_impl__IPV6) /\
  tr_number n = (n = Gen.ConstsAll.net_ip_number_impl__ICMP \/ n = Gen.ConstsAll.net_ip_number_impl__UDP \/
                 n = Gen.ConstsAll.net_ip_number_impl__TCP \/ n = Gen.ConstsAll.net_ip_number_impl__IPV6_ICMP) /\
  ext_number n = (n = Gen.ConstsAll.net_ip_number_impl__IPV6_HEADER_HOP_BY_HOP \/
                  n = Gen.ConstsAll.net_ip_number_impl__IPV6_ROUTE_HEADER \/
                  n = Gen.ConstsAll.net_ip_number_impl__IPV6_FRAGMENTATION_HEADER \/
                  n = Gen.ConstsAll.net_ip_number_impl__AUTHENTICATION_HEADER \/
                  n = Gen.ConstsAll.net_ip_number_impl__IPV6_DESTINATION_OPTIONS) /\
  N.to_nat Gen.ConstsAll.sliced_packet__LINK_EXTS_CAP = 3%nat.
Proof. repeat split. Qed.
Example C03_dispatch_pin_link : forall bs et w h ep l hw v,
  first_type bs EnEthernet = Some (W bs 12) /\
  first_type bs EnLinuxSll =
    (if (W bs 2 =? Gen.ConstsAll.net_arp_hardware_id__ETHERNET) && negb (sll_nonstandard (W bs 14))
     then Some (W bs 14) else None) /\
  first_type bs (EnEtherType et) = Some et /\ first_type bs EnIp = None /\
  link_dispatch bs EnEthernet (Some (VEthernet2 w)) = True /\
  link_dispatch bs EnLinuxSll (Some (VLinuxSll h w)) =
    (W bs 0 <= Gen.ConstsAll.link_linux_sll_packet_type__MAX_VAL /\ sll_hw_supported (W bs 2) = true) /\
  link_dispatch bs (EnEtherType et) (Some (VEtherPayload ep)) = (vep_type ep = et) /\
  link_dispatch bs EnIp None = True /\ link_dispatch bs EnIp (Some l) = False /\
  link_dispatch bs EnEthernet None = False /\
  sll_hw_supported hw =
    ((hw =? Gen.ConstsAll.net_arp_hardware_id__NETLINK) || (hw =? Gen.ConstsAll.net_arp_hardware_id__IPGRE) ||
     (hw =? Gen.ConstsAll.net_arp_hardware_id__IEEE80211_RADIOTAP) || (hw =? Gen.ConstsAll.net_arp_hardware_id__FRAD) ||
     (hw =? Gen.ConstsAll.net_arp_hardware_id__ETHERNET)) /\
  sll_nonstandard v =
    (((1 <=? v) && (v <=? 9)) || ((12 <=? v) && (v <=? 14)) || (v =? 16) || (v =? 17)
     || ((21 <=? v) && (v <=? 28)) || ((245 <=? v) && (v <=? 250))).
Proof. repeat split. Qed.
Example C03_dispatch_pin_exts : forall bs et x r w h e,
  exts_dispatch bs (Some et) (x :: r) =
    (ext_kind et x /\ ext_rules bs x /\ exts_dispatch bs (ext_announces bs x) r) /\
  exts_dispatch bs None (x :: r) = False /\
  exts_announced bs (Some et) (x :: r) = exts_announced bs (ext_announces bs x) r /\
  exts_announced bs (Some et) [] = Some et /\
  ext_kind et (VVlan w) = vlan_type et /\ ext_kind et (VMacsec h (VMpModified w)) = macsec_type et /\
  ext_announces bs (VVlan w) = Some (W bs (fst w + 2)) /\
  ext_announces bs (VMacsec h (VMpUnmodified e)) = Some (W bs (fst h + snd h - 2)) /\
  ext_announces bs (VMacsec h (VMpModified w)) = None /\
  ext_rules bs (VMacsec h (VMpModified w)) =
    (B bs (fst h) < 128 /\ ~ ((B bs (fst h) / 4) mod 4 = 0 /\ B bs (fst h + 1) mod 64 = 1)).
Proof. repeat split. Qed.
Example C03_dispatch_pin_net : forall bs ann k nn h a p first fr x w et,
  net_dispatch bs ann k (Some nn) = ((exists t, ann = Some t /\ net_kind t nn) /\ net_rules bs nn) /\
  net_dispatch bs (Some et) k None =
    ((link_ext_type et /\ k = 3%nat) \/ (~ link_ext_type et /\ ~ net_type et)) /\
  net_dispatch bs None k None = True /\
  net_kind et (VArp w) = (et = 2054) /\ net_kind et (VIpv4 h a p) = (et = 2048) /\
  net_kind et (VIpv6 h first fr x p) = (et = 34525) /\
  net_rules bs (VIpv4 h (Some w) p) =
    (B bs (fst h) / 16 = 4 /\ 5 <= B bs (fst h) mod 16 /\ B bs (fst h + 9) = 51 /\ B bs (fst w + 1) <> 0) /\
  net_rules bs (VIpv4 h None p) =
    (B bs (fst h) / 16 = 4 /\ 5 <= B bs (fst h) mod 16 /\ B bs (fst h + 9) <> 51) /\
  net_rules bs (VIpv6 h first fr x p) =
    (B bs (fst h) / 16 = 6 /\
     first = (if snd x =? 0 then None else Some (B bs (fst h + 6))) /\
     chain_rules bs (S (N.to_nat (snd x))) true (B bs (fst h + 6)) (fst x) (fst x + snd x) /\
     ~ ext_number (vip_number p)) /\
  ip_dispatch bs (Some (VIpv4 h a p)) = net_rules bs (VIpv4 h a p) /\
  ip_dispatch bs (Some (VIpv6 h first fr x p)) = net_rules bs (VIpv6 h first fr x p) /\
  ip_dispatch bs (Some (VArp w)) = False /\ ip_dispatch bs None = False.
Proof. repeat split. Qed.
Example C03_dispatch_pin_chain : forall bs f first nh pos lim,
  chain_rules bs (S f) first nh pos lim =
    (if lim <=? pos then pos = lim /\ ~ ext_number nh
     else ext_number nh /\ (nh = 0 -> first = true) /\ (nh = 51 -> B bs (pos + 1) <> 0) /\
          pos + ext_hdr_len bs nh pos <= lim /\
          chain_rules bs f false (B bs pos) (pos + ext_hdr_len bs nh pos) lim) /\
  chain_rules bs O first nh pos lim = False /\
  ext_hdr_len bs nh pos =
    (if nh =? 44 then 8 else if nh =? 51 then (B bs (pos + 1) + 2) * 4 else (B bs (pos + 1) + 1) * 8).
Proof. repeat split. Qed.
Example C03_dispatch_pin_transport : forall bs nn t n w hl,
  tr_dispatch bs nn (Some t) =
    match net_payload nn with
    | Some p => vip_frag p = false /\ tr_kind bs (vip_number p) t
    | None => False
    end /\
  tr_dispatch bs nn None =
    match net_payload nn with
    | None => True
    | Some p => vip_frag p = true \/ ~ tr_number (vip_number p)
    end /\
  tr_kind bs n (VIcmpv4 w) =
    (n = 1 /\ ((B bs (fst w) = 13 \/ B bs (fst w) = 14) -> B bs (fst w + 1) = 0 -> snd w = 20)) /\
  tr_kind bs n (VUdp w) = (n = 17) /\
  tr_kind bs n (VTcp hl w) = (n = 6 /\ 5 <= B bs (fst w + 12) / 16) /\
  tr_kind bs n (VIcmpv6 w) = (n = 58).
Proof. repeat split. Qed.

(* non-vacuity.  (1) the Ethernet / VLAN / IPv4 / UDP packet of C03_ex_ok is accepted by the
   model, so C03_dispatch_from_ethernet applies to it; its view without the UDP layer is NOT
   dispatched (number 17, unfragmented: UDP must follow), so `dispatch` is no tautology.
   (2) four stacked 802.1Q tags: three are decoded, the fourth announced type (0x8100) stays
   undecoded -- the cap -- and there is no network layer, in model and reference decoder.
   (3) a MACsec SecTAG with C set: nothing follows although IPv4 octets do. *)
Example C03_dispatch_ex :
  (exists p, SlicedPacket.from_ethernet ex_pkt = Ok p /\
     view p = mkVPacket (Some (VEthernet2 (0, 50))) [VVlan (14, 36)]
                (Some (VIpv4 (18, 20) None (mkVIp 17 false LsIpv4HeaderTotalLen (38, 12))))
                (Some (VUdp (38, 12)))) /\
  ~ dispatch ex_pkt EnEthernet
      (mkVPacket (Some (VEthernet2 (0, 50))) [VVlan (14, 36)]
         (Some (VIpv4 (18, 20) None (mkVIp 17 false LsIpv4HeaderTotalLen (38, 12)))) None).
Proof.
  split; [eexists; split; vm_compute; reflexivity|].
  intros (_ & _ & _ & _ & [H|H]); [discriminate H|]. apply H. right. left. reflexivity.
Qed.
Definition ex_cap : bytes :=
  [1;2;3;4;5;6; 7;8;9;10;11;12; 129;0] ++ [0;1; 136;168] ++ [0;2; 145;0] ++ [0;3; 129;0] ++
  [0;4; 8;0] ++ [69;0;0;20; 0;0;0;0; 64;17;0;0; 1;2;3;4; 5;6;7;8].
Example C03_dispatch_ex_cap :
  wire_ethernet ex_cap =
    VOk (mkVPacket (Some (VEthernet2 (0, 50))) [VVlan (14, 36); VVlan (18, 32); VVlan (22, 28)] None None) /\
  vres_of (SlicedPacket.from_ethernet ex_cap) = wire_ethernet ex_cap /\
  exts_announced ex_cap (first_type ex_cap EnEthernet) [VVlan (14, 36); VVlan (18, 32); VVlan (22, 28)]
    = Some 33024.
Proof. split; [|split]; vm_compute; reflexivity. Qed.
Definition ex_msm_ip : bytes :=
  [8;0; 0;0;0;9] ++ [69;0;0;20; 0;0;0;0; 64;17;0;0; 1;2;3;4; 5;6;7;8].
Example C03_dispatch_ex_macsec_modified :
  wire_ether_type ex_msm_ip 35045 =
    VOk (mkVPacket (Some (VEtherPayload (mkVEp 35045 LsSlice (0, 26))))
           [VMacsec (0, 6) (VMpModified (6, 20))] None None) /\
  vres_of (SlicedPacket.from_ether_type 35045 ex_msm_ip) = wire_ether_type ex_msm_ip 35045 /\
  exts_announced ex_msm_ip (first_type ex_msm_ip (EnEtherType 35045)) [VMacsec (0, 6) (VMpModified (6, 20))]
    = None.
Proof. split; [|split]; vm_compute; reflexivity. Qed.

(* ---- converse: a described view IS the answer (audit round 3, C03 ranked item 4) ----------
   `nested` (windows), `desc` (IP payload descriptors) and `dispatch` (layer kinds, cap, content
   rules) together are a complete description: the reference decoder accepts bs with view v
   exactly when v is described for bs, so the described view is unique, and the slicer MODEL
   accepts with view v exactly when v is described and rejects exactly when no described view
   exists -- clause (a) "layer sequence" and both directions of "fails exactly when" against a
   description that is not a decoder. *)
From EP Require Import Parse.WireAccepts.

Theorem C03_wire_accepts_iff : forall bs e v,
  wire_of bs e = VOk v <-> nested bs v /\ desc bs v /\ dispatch bs e v.
Proof. exact wire_accepts_iff. Qed.
Print Assumptions C03_wire_accepts_iff.

Theorem C03_described_unique : forall bs e v v',
  nested bs v /\ desc bs v /\ dispatch bs e v ->
  nested bs v' /\ desc bs v' /\ dispatch bs e v' -> v = v'.
Proof. exact described_unique. Qed.
Print Assumptions C03_described_unique.

Theorem C03_strict_accepts_iff : forall bs e v, bytes_ok bs ->
  ((exists p, strict_of bs e = Ok p /\ view p = v) <->
   nested bs v /\ desc bs v /\ dispatch bs e v).
Proof. exact strict_accepts_iff. Qed.
Print Assumptions C03_strict_accepts_iff.

Theorem C03_strict_rejects_iff : forall bs e, bytes_ok bs ->
  ((exists err, strict_of bs e = Err err) <->
   forall v, ~ (nested bs v /\ desc bs v /\ dispatch bs e v)).
Proof. exact strict_rejects_iff. Qed.
Print Assumptions C03_strict_rejects_iff.

Example C03_accepts_pin : forall bs et,
  wire_of bs EnEthernet = wire_ethernet bs /\ wire_of bs EnLinuxSll = wire_linux_sll bs /\
  wire_of bs (EnEtherType et) = wire_ether_type bs et /\ wire_of bs EnIp = wire_from_ip bs /\
  strict_of bs EnEthernet = SlicedPacket.from_ethernet bs /\
  strict_of bs EnLinuxSll = SlicedPacket.from_linux_sll bs /\
  strict_of bs (EnEtherType et) = SlicedPacket.from_ether_type et bs /\
  strict_of bs EnIp = SlicedPacket.from_ip bs.
Proof. repeat split. Qed.
(* non-vacuity: both sides of the two model-level equivalences occur -- ex_pkt is accepted
   (so its view is described), ex_pkt cut inside the UDP header is rejected (so no view of
   those 41 bytes is described) *)
Example C03_accepts_ex :
  bytes_ok ex_pkt /\ (exists p, strict_of ex_pkt EnEthernet = Ok p /\
     view p = mkVPacket (Some (VEthernet2 (0, 50))) [VVlan (14, 36)]
                (Some (VIpv4 (18, 20) None (mkVIp 17 false LsIpv4HeaderTotalLen (38, 12))))
                (Some (VUdp (38, 12)))) /\
  bytes_ok (firstn 41 ex_pkt) /\ (exists err, strict_of (firstn 41 ex_pkt) EnEthernet = Err err).
Proof.
  split; [apply bytes_okb_spec; vm_compute; reflexivity|].
  split; [eexists; split; vm_compute; reflexivity|].
  split; [apply bytes_okb_spec; vm_compute; reflexivity|eexists; vm_compute; reflexivity].
Qed.
(* ==== round3 c03disp end ==== *)
