(* Props/C03.v -- property C03: strict packet slicing matches the wire formats
   for every byte string.  Statements only; proofs are `exact`.

   Model : Parse/Slices.v + Parse/Cursor.v (transliteration of the crate's slicers
           and of SlicedPacketCursor; sub-slices are (pointer offset, contents))
   Spec  : Parse/WireSpec.v (reference decoder over absolute positions, written
           from the formats)
   `vres_of` maps a model result to what an observer sees (windows, protocol
   numbers, fragmentation flags, length sources); `c03_rel` demands equal accepted
   packets and the same rejection cause (layer / required / available, or the
   same content error with the same offending value). *)
From EP Require Parse.ConstsOk.
From EP Require Import Base.Bytes Parse.Types Parse.Slices Parse.Cursor Parse.View
  Parse.WireSpec Parse.StrictProofs.

Theorem C03_from_ethernet : forall bs, bytes_ok bs ->
  c03_rel (vres_of (SlicedPacket.from_ethernet bs)) (wire_ethernet bs).
Proof. exact (fun bs H => res_rel_c03 _ _ (from_ethernet_rel bs H)). Qed.
Print Assumptions C03_from_ethernet.

Theorem C03_from_linux_sll : forall bs, bytes_ok bs ->
  c03_rel (vres_of (SlicedPacket.from_linux_sll bs)) (wire_linux_sll bs).
Proof. exact (fun bs H => res_rel_c03 _ _ (from_linux_sll_rel bs H)). Qed.
Print Assumptions C03_from_linux_sll.

Theorem C03_from_ether_type : forall bs et, bytes_ok bs ->
  c03_rel (vres_of (SlicedPacket.from_ether_type et bs)) (wire_ether_type bs et).
Proof. exact (fun bs et H => res_rel_c03 _ _ (from_ether_type_rel bs et H)). Qed.
Print Assumptions C03_from_ether_type.

Theorem C03_from_ip : forall bs, bytes_ok bs ->
  c03_rel (vres_of (SlicedPacket.from_ip bs)) (wire_from_ip bs).
Proof. exact (fun bs H => res_rel_c03 _ _ (from_ip_rel bs H)). Qed.
Print Assumptions C03_from_ip.

(* by-product (feeds C01/C02 for the strict slicing path): no unchecked read,
   from_raw_parts, unwrap, subtraction or loop bound of the model fails *)
Theorem C03_strict_never_bug : forall bs et b, bytes_ok bs ->
  SlicedPacket.from_ethernet bs <> Bug b /\ SlicedPacket.from_linux_sll bs <> Bug b /\
  SlicedPacket.from_ether_type et bs <> Bug b /\ SlicedPacket.from_ip bs <> Bug b.
Proof. exact strict_never_bug. Qed.
Print Assumptions C03_strict_never_bug.

(* non-vacuity: Ethernet / VLAN / IPv4 / UDP is accepted with the expected layout;
   the same packet cut inside the UDP header is rejected at offset 38 *)
Definition ex_pkt : bytes :=
  [1;2;3;4;5;6; 7;8;9;10;11;12; 129;0;  0;5; 8;0;
   69;0;0;32; 0;0;0;0; 64;17;0;0; 1;2;3;4; 5;6;7;8;
   0;1;0;2;0;12;0;0; 170;187;204;221].
Example C03_ex_ok :
  bytes_ok ex_pkt /\
  wire_ethernet ex_pkt =
    VOk (mkVPacket (Some (VEthernet2 (0, 50))) [VVlan (14, 36)]
           (Some (VIpv4 (18, 20) None (mkVIp 17 false LsIpv4HeaderTotalLen (38, 12))))
           (Some (VUdp (38, 12)))) /\
  vres_of (SlicedPacket.from_ethernet ex_pkt) = wire_ethernet ex_pkt.
Proof. split; [apply bytes_okb_spec; vm_compute; reflexivity|split; vm_compute; reflexivity]. Qed.
Example C03_ex_cut :
  vres_of (SlicedPacket.from_ethernet (firstn 41 ex_pkt)) =
    VErr (ELen (mkLenError 32 23 LsSlice LyIpv4Packet 18)).
Proof. vm_compute; reflexivity. Qed.
