(* Props/C03.v -- property C03: strict packet slicing matches the wire formats
   for every byte string.  Statements only; proofs are `exact`.

   Model : Parse/Slices.v + Parse/Cursor.v (transliteration of the crate's slicers
           and of SlicedPacketCursor; sub-slices are (pointer offset, contents))
   Spec  : Parse/WireSpec.v (reference decoder over absolute positions, written
           from the formats)
   `vres_of` maps a model result to what an observer sees (windows, protocol
   numbers, fragmentation flags, length sources); `c03_rel` demands equal accepted
   packets and the same rejection cause (layer / required / available, or the
   same content error with the same offending value). *)
From EP Require Parse.ConstsOk.
From EP Require Import Base.Bytes Parse.Types Parse.Slices Parse.Cursor Parse.View
  Parse.WireSpec Parse.StrictProofs.

Theorem C03_from_ethernet : forall bs, bytes_ok bs ->
  c03_rel (vres_of (SlicedPacket.from_ethernet bs)) (wire_ethernet bs).
Proof. exact (fun bs H => res_rel_c03 _ _ (from_ethernet_rel bs H)). Qed.
Print Assumptions C03_from_ethernet.

Theorem C03_from_linux_sll : forall bs, bytes_ok bs ->
  c03_rel (vres_of (SlicedPacket.from_linux_sll bs)) (wire_linux_sll bs).
Proof. exact (fun bs H => res_rel_c03 _ _ (from_linux_sll_rel bs H)). Qed.
Print Assumptions C03_from_linux_sll.

Theorem C03_from_ether_type : forall bs et, bytes_ok bs ->
  c03_rel (vres_of (SlicedPacket.from_ether_type et bs)) (wire_ether_type bs et).
Proof. exact (fun bs et H => res_rel_c03 _ _ (from_ether_type_rel bs et H)). Qed.
Print Assumptions C03_from_ether_type.

Theorem C03_from_ip : forall bs, bytes_ok bs ->
  c03_rel (vres_of (SlicedPacket.from_ip bs)) (wire_from_ip bs).
Proof. exact (fun bs H => res_rel_c03 _ _ (from_ip_rel bs H)). Qed.
Print Assumptions C03_from_ip.

(* by-product (feeds C01/C02 for the strict slicing path): no unchecked read,
   from_raw_parts, unwrap, subtraction or loop bound of the model fails *)
Theorem C03_strict_never_bug : forall bs et b, bytes_ok bs ->
  SlicedPacket.from_ethernet bs <> Bug b /\ SlicedPacket.from_linux_sll bs <> Bug b /\
  SlicedPacket.from_ether_type et bs <> Bug b /\ SlicedPacket.from_ip bs <> Bug b.
Proof. exact strict_never_bug. Qed.
Print Assumptions C03_strict_never_bug.

(* non-vacuity: Ethernet / VLAN / IPv4 / UDP is accepted with the expected layout;
   the same packet cut inside the UDP header is rejected at offset 38 *)
Definition ex_pkt : bytes :=
  [1;2;3;4;5;6; 7;8;9;10;11;12; 129;0;  0;5; 8;0;
   69;0;0;32; 0;0;0;0; 64;17;0;0; 1;2;3;4; 5;6;7;8;
   0;1;0;2;0;12;0;0; 170;187;204;221].
Example C03_ex_ok :
  bytes_ok ex_pkt /\
  wire_ethernet ex_pkt =
    VOk (mkVPacket (Some (VEthernet2 (0, 50))) [VVlan (14, 36)]
           (Some (VIpv4 (18, 20) None (mkVIp 17 false LsIpv4HeaderTotalLen (38, 12))))
           (Some (VUdp (38, 12)))) /\
  vres_of (SlicedPacket.from_ethernet ex_pkt) = wire_ethernet ex_pkt.
Proof. split; [apply bytes_okb_spec; vm_compute; reflexivity|split; vm_compute; reflexivity]. Qed.
Example C03_ex_cut :
  vres_of (SlicedPacket.from_ethernet (firstn 41 ex_pkt)) =
    VErr (ELen (mkLenError 32 23 LsSlice LyIpv4Packet 18)).
Proof. vm_compute; reflexivity. Qed.

(* ==== header FIELD VALUES (extension of C03) ==========================================
   Spec  : Parse/Fields.v `spec_fields bs v` -- per layer of the view the list of
           (field tag, value) the formats prescribe for the bytes at the layer's ABSOLUTE
           position (B/W readers of Parse/WireSpec.v; sub-octet fields as bit ranges in the
           RFC numbering, BitFields/Spec.v): Ethernet II, Linux SLL, 802.1Q, MACsec SecTAG,
           ARP, IPv4 (+options), AH, IPv6, every extension header of the chain (raw /
           fragment / AH), UDP, TCP (+9 flags, options), ICMPv4, ICMPv6.
   Model : Parse/Fields.v `fields_of_packet p` -- the same list through the ACCESSOR models
           of Parse/Access.v (C01) applied to the slices stored in the strict result.
   For every byte string: when the strict slicer accepts, (1) the reference decoder accepts
   with exactly the layers / windows of the result (C03 above) and (2) every accessor of every
   layer returns the field of the format at that layer's absolute position.  All layer kinds
   are covered (nothing `_partial`). *)
From EP Require Import Parse.Access Parse.Fields Parse.FieldsProofs.

Theorem C03_fields_from_ethernet : forall bs p, bytes_ok bs ->
  SlicedPacket.from_ethernet bs = Ok p ->
  wire_ethernet bs = VOk (view p) /\ fields_of_packet p = Ok (spec_fields bs (view p)).
Proof. exact fields_wire_from_ethernet. Qed.
Print Assumptions C03_fields_from_ethernet.

Theorem C03_fields_from_linux_sll : forall bs p, bytes_ok bs ->
  SlicedPacket.from_linux_sll bs = Ok p ->
  wire_linux_sll bs = VOk (view p) /\ fields_of_packet p = Ok (spec_fields bs (view p)).
Proof. exact fields_wire_from_linux_sll. Qed.
Print Assumptions C03_fields_from_linux_sll.

Theorem C03_fields_from_ether_type : forall bs et p, bytes_ok bs ->
  SlicedPacket.from_ether_type et bs = Ok p ->
  wire_ether_type bs et = VOk (view p) /\ fields_of_packet p = Ok (spec_fields bs (view p)).
Proof. exact fields_wire_from_ether_type. Qed.
Print Assumptions C03_fields_from_ether_type.

Theorem C03_fields_from_ip : forall bs p, bytes_ok bs ->
  SlicedPacket.from_ip bs = Ok p ->
  wire_from_ip bs = VOk (view p) /\ fields_of_packet p = Ok (spec_fields bs (view p)).
Proof. exact fields_wire_from_ip. Qed.
Print Assumptions C03_fields_from_ip.

(* non-vacuity: the Ethernet / VLAN / IPv4 / UDP packet above, and IPv6 (traffic class 0xab,
   flow label 0xcdef1) / hop-by-hop / fragment (offset 0, M 0) / TCP with NS, ACK, SYN set *)
Example C03_fields_ex :
  exists p, SlicedPacket.from_ethernet ex_pkt = Ok p /\
    fields_of_packet p =
      Ok [(LEth, [(Fdst, FvN 1108152157446); (Fsrc, FvN 7731092785932); (Fether_type, FvN 33024)]);
          (LVlan, [(Fpcp, FvN 0); (Fdei, FvB false); (Fvid, FvN 5); (Fether_type, FvN 2048)]);
          (LIpv4, [(Fversion, FvN 4); (Fihl, FvN 5); (Fdscp, FvN 0); (Fecn, FvN 0); (Ftotal_len, FvN 32);
                   (Fident, FvN 0); (Fdf, FvB false); (Fmf, FvB false); (Ffrag_off, FvN 0); (Fttl, FvN 64);
                   (Fprotocol, FvN 17); (Fchecksum, FvN 0); (Fsrc, FvN 16909060); (Fdst, FvN 84281096);
                   (Foptions, FvBytes [])]);
          (LUdp, [(Fsrc_port, FvN 1); (Fdst_port, FvN 2); (Flength, FvN 12); (Fchecksum, FvN 0)])] /\
    spec_fields ex_pkt (view p) =
      match fields_of_packet p with Ok l => l | _ => [] end.
Proof. eexists. split; [vm_compute; reflexivity|split; vm_compute; reflexivity]. Qed.

Definition ex6_pkt : bytes :=
  [106;188;222;241; 0;36; 0; 64] ++ repeat 17 16 ++ repeat 34 16 ++
  [44;0;1;2;3;4;5;6] ++ [6;0;0;0; 0;0;0;9] ++
  [0;80; 1;187; 0;0;0;1; 0;0;0;2; 81;18; 16;0; 171;205; 0;7].
Example C03_fields_ex6 :
  bytes_ok ex6_pkt /\
  exists p, SlicedPacket.from_ip ex6_pkt = Ok p /\
    fields_of_packet p =
      Ok [(LIpv6, [(Fversion, FvN 6); (Ftraffic_class, FvN 171); (Fflow_label, FvN 843505);
                   (Fpayload_len, FvN 36); (Fnext_header, FvN 0); (Fhop_limit, FvN 64);
                   (Fsrc, FvBytes (repeat 17 16)); (Fdst, FvBytes (repeat 34 16))]);
          (LHopByHop, [(Fnext_header, FvN 44); (Flen_byte, FvN 0); (Fpayload, FvBytes [1; 2; 3; 4; 5; 6])]);
          (LFragment, [(Fnext_header, FvN 6); (Ffrag_off, FvN 0); (Fmf, FvB false); (Fident, FvN 9)]);
          (LTcp, [(Fsrc_port, FvN 80); (Fdst_port, FvN 443); (Fseq, FvN 1); (Fack_nr, FvN 2);
                  (Fdata_offset, FvN 5); (Fns, FvB true); (Fcwr, FvB false); (Fece, FvB false);
                  (Furg, FvB false); (Fack, FvB true); (Fpsh, FvB false); (Frst, FvB false);
                  (Fsyn, FvB true); (Ffin, FvB false); (Fwindow, FvN 4096); (Fchecksum, FvN 43981);
                  (Furgent, FvN 7); (Foptions, FvBytes [])])].
Proof. split; [apply bytes_okb_spec; vm_compute; reflexivity|]. eexists. split; vm_compute; reflexivity. Qed.

(* Linux SLL / IPv4 / UDP, and ether type 0x8100: VLAN / MACsec (SC, unmodified) / ARP *)
Definition ex_sll : bytes := [0;4; 0;1; 0;6; 1;2;3;4;5;6;0;0; 8;0] ++ skipn 18 ex_pkt.
Example C03_fields_ex_sll :
  exists p, SlicedPacket.from_linux_sll ex_sll = Ok p /\
    fields_of_packet p = Ok (spec_fields ex_sll (view p)) /\
    hd_error (spec_fields ex_sll (view p)) =
      Some (LSll, [(Fpacket_type, FvN 4); (Fhw_type, FvN 1); (Faddr_len, FvN 6);
                   (Faddr, FvBytes [1; 2; 3; 4; 5; 6; 0; 0]); (Fprotocol, FvN 2048)]) /\
    map fst (spec_fields ex_sll (view p)) = [LSll; LIpv4; LUdp].
Proof. eexists. split; [vm_compute; reflexivity|repeat split; vm_compute; reflexivity]. Qed.

Definition ex_et : bytes :=
  [164;210; 136;229; 32;0; 0;0;0;9; 1;2;3;4;5;6;7;8; 8;6; 0;1; 8;0; 6;4; 0;2] ++
  [1;2;3;4;5;6; 10;0;0;1; 7;8;9;10;11;12; 10;0;0;2].
Example C03_fields_ex_et :
  exists p, SlicedPacket.from_ether_type 33024 ex_et = Ok p /\
    fields_of_packet p =
      Ok [(LVlan, [(Fpcp, FvN 5); (Fdei, FvB false); (Fvid, FvN 1234); (Fether_type, FvN 35045)]);
          (LMacsec, [(Fv, FvB false); (Fes, FvB false); (Fsc, FvB true); (Fscb, FvB false); (Fe, FvB false);
                     (Fc, FvB false); (Fan, FvN 0); (Fsl, FvN 0); (Fpn, FvN 9);
                     (Fsci, FvN 72623859790382856)]);
          (LArp, [(Fhw_type, FvN 1); (Fproto_type, FvN 2048); (Fhw_size, FvN 6); (Fproto_size, FvN 4);
                  (Foperation, FvN 2); (Fsender_hw, FvBytes [1; 2; 3; 4; 5; 6]);
                  (Fsender_proto, FvBytes [10; 0; 0; 1]); (Ftarget_hw, FvBytes [7; 8; 9; 10; 11; 12]);
                  (Ftarget_proto, FvBytes [10; 0; 0; 2])])] /\
    fields_of_packet p = Ok (spec_fields ex_et (view p)).
Proof. eexists. split; [vm_compute; reflexivity|split; vm_compute; reflexivity]. Qed.
