(* Props/C02.v -- property C02: decoders are total.  In the model a panic site
   (unwrap/expect, checked indexing, usize underflow, push on a full ArrayVec) and
   an exhausted loop bound are `Bug site` values as well; totality is the statement
   that they are unreachable.  Statements only. *)
From EP Require Parse.ConstsOk.
From EP Require Import Base.Bytes Parse.Types Parse.Slices Parse.Cursor Parse.View
  Parse.WireSpec Parse.StrictProofs.

Theorem C02_strict_total : forall bs et, bytes_ok bs ->
  (exists r, vres_of (SlicedPacket.from_ethernet bs) = r /\ forall b, r <> VBug b) /\
  (forall b, SlicedPacket.from_linux_sll bs <> Bug b) /\
  (forall b, SlicedPacket.from_ether_type et bs <> Bug b) /\
  (forall b, SlicedPacket.from_ip bs <> Bug b).
Proof. exact strict_total. Qed.
Print Assumptions C02_strict_total.
