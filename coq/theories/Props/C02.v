(* Props/C02.v -- property C02: decoders are total.  In the model a panic site
   (unwrap/expect, checked indexing, usize underflow, push on a full ArrayVec) and
   an exhausted loop bound are `Bug site` values as well; totality is the statement
   that they are unreachable.  Statements only. *)
From EP Require Parse.GenAccessOk.   (* the field accessors, re-translated from the Rust source on every run (Gen/Accessors.v), equal the hand models the theorems below are about *)
From EP Require Parse.ConstsOk.
From EP Require Import Base.Bytes Parse.Types Parse.Slices Parse.Cursor Parse.View
  Parse.WireSpec Parse.StrictProofs.

Theorem C02_strict_total : forall bs et, bytes_ok bs ->
  (exists r, vres_of (SlicedPacket.from_ethernet bs) = r /\ forall b, r <> VBug b) /\
  (forall b, SlicedPacket.from_linux_sll bs <> Bug b) /\
  (forall b, SlicedPacket.from_ether_type et bs <> Bug b) /\
  (forall b, SlicedPacket.from_ip bs <> Bug b).
Proof. exact strict_total. Qed.
Print Assumptions C02_strict_total.

(* ======================================================================== *)
(* Accessors, conversions and iterators reachable from the strict slice types
   (Parse/Access.v): unwrap / expect / checked indexing / usize subtraction are
   `Bug` values of the model, the iterator loop has a fuel whose exhaustion is a
   `Bug` as well.  Proofs in Parse/AccessProofs.v. *)
From EP Require Import Parse.Access Parse.AccessProofs.

(* every accessor / to_header / to_packet / iterator run on every component of every
   strict whole-packet result returns normally (Ok, or the one documented Err of
   Ipv4HeaderSlice::payload_len) *)
Theorem C02_accessors_total : forall bs et p, bytes_ok bs -> entry bs et p ->
  forall r, In r (SlicedPacketA.accessors p) -> r = Ok tt \/ exists e, r = Err e.
Proof. exact packet_accessors_total. Qed.
Print Assumptions C02_accessors_total.

(* IpAuthHeaderSlice::to_header: IpAuthHeader::new(..).unwrap() cannot fail (ICV length
   (p+2)*4-12 is a multiple of 4 and <= 1016) *)
Theorem C02_auth_to_header_unwrap : forall s h,
  IpAuthHeaderSlice.from_slice s = Ok h -> bytes_ok (snd s) ->
  exists v, IpAuthHeaderA.to_header h = Ok v.
Proof. exact auth_to_header_unwrap. Qed.
Print Assumptions C02_auth_to_header_unwrap.

(* Ipv6RawExtHeaderSlice::to_header: new_raw(..).unwrap() cannot fail (payload length
   (b+1)*8-2 lies in [6,2046] and (len+2) mod 8 = 0) *)
Theorem C02_raw_ext_to_header_unwrap : forall s h,
  Ipv6RawExtHeaderSlice.from_slice s = Ok h -> bytes_ok (snd s) ->
  exists v, Ipv6RawExtHeaderA.to_header h = Ok v.
Proof. exact raw_ext_to_header_unwrap. Qed.
Print Assumptions C02_raw_ext_to_header_unwrap.

(* the extension iterator over every Ipv6ExtensionsSlice that from_slice returns (for
   EVERY start number and slice): the loop `for h in exts` ends within length+1 calls of
   next without Bug (no out-of-fuel, no unchecked failure), yields at most len/8 items,
   and the yielded header windows tile the exts window exactly (progress: each item
   starts where the previous one ended) *)
Theorem C02_exts_iter_bounded : forall nh s x nx rest,
  Ipv6ExtensionsSlice.from_slice nh s = Ok (x, nx, rest) ->
  exists l, Ipv6ExtIterA.items x = Ok l /\
            8 * len l <= s_len (x6_slice x) /\
            tiles (s_off (x6_slice x)) (map item_win l) (s_off (x6_slice x) + s_len (x6_slice x)) /\
            Forall item_wf l /\
            Forall (fun i => sub_of (ext_item_slice i) (x6_slice x)) l.
Proof. exact exts_iter_bounded. Qed.
Print Assumptions C02_exts_iter_bounded.

(* the same for the IPv6 slice of every strict whole-packet result *)
Theorem C02_packet_exts_iter_bounded : forall bs et p v,
  entry bs et p -> sp_net p = Some (NtIpv6 v) ->
  exists l, Ipv6ExtIterA.items (v6_exts v) = Ok l /\
            8 * len l <= s_len (x6_slice (v6_exts v)) /\
            tiles (s_off (x6_slice (v6_exts v))) (map item_win l)
                  (s_off (x6_slice (v6_exts v)) + s_len (x6_slice (v6_exts v))).
Proof. exact packet_exts_iter_bounded. Qed.
Print Assumptions C02_packet_exts_iter_bounded.

(* ---- non-vacuity ---------------------------------------------------------- *)
(* IPv6 / hop-by-hop / destination options / fragment (offset 0, last) / UDP *)
Definition ex6_pkt_tot : bytes :=
  [96;0;0;0; 0;32; 0; 64] ++ repeat 1 16 ++ repeat 2 16 ++
  [60;0;0;0;0;0;0;0] ++ [44;0;1;4;0;0;0;0] ++ [17;0;0;0;0;0;0;1] ++ [0;1;0;2;0;8;0;0].

Example C02_exts_iter_ex :
  bytes_ok ex6_pkt_tot /\
  match SlicedPacket.from_ip ex6_pkt_tot with
  | Ok (mkSliced _ _ (Some (NtIpv6 v)) (Some (TrUdp _)) as p) =>
      (forallb (fun r => match r with Ok _ => true | _ => false end) (SlicedPacketA.accessors p),
       match Ipv6ExtIterA.items (v6_exts v) with Ok l => Some (map item_win l) | _ => None end,
       win_of (x6_slice (v6_exts v)))
  | _ => (false, None, (0, 0))
  end = (true, Some [(40, 8); (48, 8); (56, 8)], (40, 24)).
Proof. split; [apply bytes_okb_spec; vm_compute; reflexivity|vm_compute; reflexivity]. Qed.

(* an authentication header with payload_len 4 (24 bytes, 12 bytes ICV) and a routing header
   of 16 bytes: both conversions succeed; the unwrap sites are reachable in the model *)
Example C02_unwrap_ex :
  (let s := mk_slice ([17;4;0;0; 0;0;0;1; 0;0;0;2] ++ repeat 9 12 ++ [255]) in
   match IpAuthHeaderSlice.from_slice s with
   | Ok h => (s_len h, IpAuthHeaderA.to_header h)
   | _ => (0, Bug 0)
   end) = (24, Ok (17, 1, 2, 3, repeat 9 12)) /\
  (let s := mk_slice ([6;1] ++ repeat 7 14 ++ [255]) in
   match Ipv6RawExtHeaderSlice.from_slice s with
   | Ok h => (s_len h, Ipv6RawExtHeaderA.to_header h)
   | _ => (0, Bug 0)
   end) = (16, Ok (6, 1, repeat 7 14)) /\
  IpAuthHeaderA.to_header (mk_slice [17;0;0;0;0;0;0;0;0;0;0;0;0;0]) = Bug SITE_UNWRAP.
Proof. vm_compute. repeat split. Qed.

(* ---- the other decoder families: panic sites (unwrap/expect, indexing, push on
   a full ArrayVec, usize underflow) and loop bounds are the same `Bug` values;
   restated here so that C02 lists every family it rests on.  The TCP option
   iterator (C13_in_bounds, C13_bounded, C13_exhausted), the NDP option iterator
   (C17_ndp_options), defragmentation (C11_no_panic), extension chain walkers
   (C12_write_iff_walk), readers (C16_readers_total) and the builder
   (C10_never_panics) are stated in their own Props files. *)
From EP Require Import Parse.Repr Parse.LaxSlices Parse.LaxCursor Parse.LaxWire Parse.LaxWireProofs
  Parse.HdrModel Parse.HdrProofs3.

Theorem C02_lax_total : forall bs et b, bytes_ok bs ->
  LaxSlicedPacket.from_ethernet bs <> Bug b /\
  LaxSlicedPacket.from_ether_type et bs <> Bug b /\
  LaxSlicedPacket.from_ip bs <> Bug b.
Proof. exact lax_never_bug. Qed.
Print Assumptions C02_lax_total.

Theorem C02_headers_total : forall bs et b, bytes_ok bs ->
  PacketHeaders.from_ethernet_slice bs <> Bug b /\
  PacketHeaders.from_ether_type et bs <> Bug b /\
  PacketHeaders.from_ip_slice bs <> Bug b.
Proof. exact hdr_never_bug_raw. Qed.
Print Assumptions C02_headers_total.

(* ---- extend-c01b ---- *)
(* ======================================================================== *)
(* Totality of everything reachable from the LAX results (Parse/LaxAccess.v,
   proofs Parse/LaxAccessProofs.v + LaxAccessPacket.v) and of IpSlice::to_header
   (proof Parse/LaxAccessToHeader.v). *)
From EP Require Import Parse.LaxAccess Parse.LaxAccessProofs Parse.LaxAccessPacket Parse.LaxAccessToHeader.

(* every accessor / conversion / iterator / packet-level accessor run on every lax
   whole-packet result returns normally (Ok, or the one documented Err of
   Ipv4HeaderSlice::payload_len); together with C02_lax_total: the entry point itself
   returns Ok or Err for every input *)
Theorem C02_lax_accessors_total : forall bs et p, bytes_ok bs -> lax_entry bs et p ->
  forall r, In r (LaxSlicedPacketA.accessors p) -> r = Ok tt \/ exists e, r = Err e.
Proof. exact lax_packet_accessors_total. Qed.
Print Assumptions C02_lax_accessors_total.

(* the extension iterator over every Ipv6ExtensionsSlice that from_slice_lax returns, for
   EVERY start number, slice and stop error: ends within length+1 calls of next, no Bug, at
   most len/8 items, the yielded windows tile the stored slice (progress) *)
Theorem C02_lax_exts_iter_bounded : forall nh s x nx rest err,
  LaxIpv6Exts.from_slice_lax nh s = Ok (x, nx, rest, err) ->
  exists l, Ipv6ExtIterA.items x = Ok l /\
            8 * len l <= s_len (x6_slice x) /\
            tiles (s_off (x6_slice x)) (map item_win l) (s_off (x6_slice x) + s_len (x6_slice x)) /\
            Forall item_wf l /\
            Forall (fun i => sub_of (ext_item_slice i) (x6_slice x)) l.
Proof. exact lax_exts_iter_items. Qed.
Print Assumptions C02_lax_exts_iter_bounded.

(* IpSlice::to_header: for every IpSlice / Ipv4Slice / Ipv6Slice produced by a strict
   from_slice (`from_strict s i`), the conversion returns normally.  IPv6 arm: the struct
   decoder Ipv6Extensions::from_slice, run on the stored extension window with the
   header's next_header, returns Ok -- the `expect` cannot fail (it may have stopped early
   at a refilled header: see the example) *)
Theorem C02_ip_slice_to_header_expect : forall s i,
  from_strict s i -> bytes_ok (snd s) -> IpSliceToHeaderA.to_header i = Ok tt.
Proof. exact ip_slice_to_header_ok. Qed.
Print Assumptions C02_ip_slice_to_header_expect.

Theorem C02_ipv6_exts_expect : forall s v,
  from_strict s (IpV6 v) -> bytes_ok (snd s) ->
  exists x, IpSliceToHeaderA.v6_exts_to_header v = Ok x.
Proof. exact v6_exts_to_header_ok. Qed.
Print Assumptions C02_ipv6_exts_expect.

(* a chain accepted by the slice walker is accepted again on the window it stored *)
Theorem C02_exts_window_reaccepted : forall nh s x nx rest,
  Ipv6ExtensionsSlice.from_slice nh s = Ok (x, nx, rest) ->
  exists x' rest', Ipv6ExtensionsSlice.from_slice nh (x6_slice x) = Ok (x', nx, rest').
Proof. exact exts_trunc. Qed.
Print Assumptions C02_exts_window_reaccepted.

(* ---- non-vacuity ---------------------------------------------------------- *)
(* IPv6 / destination options / destination options / UDP: the slice walker accepts both
   headers (window 40+16, iterator yields two items); the struct decoder fills its single
   slot with the first and stops in front of the second -- Ok, no error: to_header = Ok *)
Definition ex_refill : bytes :=
  [96;0;0;0; 0;24; 60; 64] ++ repeat 1 16 ++ repeat 2 16 ++
  [60;0;0;0;0;0;0;0] ++ [17;0;0;0;0;0;0;0] ++ [0;1;0;2;0;8;0;0].

Example C02_to_header_ex :
  bytes_ok ex_refill /\
  match IpSlice.from_slice (mk_slice ex_refill) with
  | Ok (IpV6 v as i) =>
      (win_of (x6_slice (v6_exts v)), IpSliceToHeaderA.to_header i,
       match IpSliceToHeaderA.v6_exts_to_header v with
       | Ok x => Some (option_map win_of (HdrModel.x_dest x), option_map win_of (HdrModel.x_fdest x))
       | _ => None
       end,
       match Ipv6ExtIterA.items (v6_exts v) with Ok l => Some (map item_win l) | _ => None end)
  | _ => ((0, 0), Bug 0, None, None)
  end = ((40, 16), Ok tt, Some (Some (40, 8), None), Some [(40, 8); (48, 8)]) /\
  (* the expect site is reachable in the model: a window the walker did not validate *)
  IpSliceToHeaderA.v6_exts_to_header
    (mkIpv6Slice (mk_slice (firstn 40 ex_refill)) (mkIpv6Exts (Some 60) false (40, [60;0;0;0])) 
       (mkIpPayload 17 false LsSlice (44, []))) = Bug SITE_UNWRAP.
Proof.
  split; [apply bytes_okb_spec; vm_compute; reflexivity|]. split; vm_compute; reflexivity.
Qed.

(* the cut chain of C01_lax_cut_chain_ex: the iterator run on the lax result ends after one item *)
Example C02_lax_exts_iter_ex :
  match LaxSlicedPacket.from_ip ([96;0;0;0; 0;8; 60; 64] ++ repeat 0 32 ++ [43;0;0;0;0;0;0;0]) with
  | Ok p =>
      (forallb (fun r => match r with Ok _ => true | _ => false end) (LaxSlicedPacketA.accessors p),
       match lsp_net p with
       | Some (LNtIpv6 v) =>
           match Ipv6ExtIterA.items (lv6_exts v) with Ok l => Some (map item_win l) | _ => None end
       | _ => None
       end)
  | _ => (false, None)
  end = (true, Some [(40, 8)]).
Proof. vm_compute. reflexivity. Qed.
(* ---- end extend-c01b ---- *)

(* ---- audit follow-up (round 1) ---- *)
(* ======================================================================== *)
(* The strict single-layer CONSTRUCTORS are total on every slice value: for an arbitrary
   standalone slice (any pointer offset, any contents -- no byte-range hypothesis --, any
   length, accepted or rejected) each run `returns`: it is Ok _ or Err _, never a panic
   site, a failing unchecked primitive or an exhausted loop bound (the extension walk of
   Ipv6ExtensionsSlice::from_slice ends within length + 1 iterations: every continuing
   iteration consumes at least 8 bytes).  Same list as C01_single_layer_ctor_no_oob.
   Proofs: Parse/CtorsTotal.v. *)
From EP Require Import Parse.CtorsTotal.

Theorem C02_single_layer_ctor_total : forall s,
  returns (Ethernet2A.from_slice_without_fcs s) /\ returns (Ethernet2A.from_slice_with_crc32_fcs s) /\
  returns (LinuxSll.header_from_slice s) /\ returns (LinuxSll.from_slice s) /\
  returns (SingleVlanSlice.from_slice s) /\
  returns (Macsec.header_from_slice s) /\ returns (Macsec.from_slice s) /\
  returns (ArpPacketSlice.from_slice s) /\
  returns (Ipv4HeaderSlice.from_slice s) /\ returns (Ipv4Slice.from_slice s) /\
  returns (Ipv6HeaderSlice.from_slice s) /\ returns (Ipv6Slice.from_slice s) /\
  returns (IpSlice.from_slice s) /\
  returns (IpAuthHeaderSlice.from_slice s) /\ returns (Ipv6RawExtHeaderSlice.from_slice s) /\
  returns (Ipv6FragmentHeaderSlice.from_slice s) /\
  (forall nh, returns (Ipv6ExtensionsSlice.from_slice nh s)) /\
  returns (UdpSlice.header_from_slice s) /\ returns (UdpSlice.from_slice s) /\
  returns (UdpSlice.from_slice_lax s) /\
  returns (TcpHeaderSliceA.from_slice s) /\ returns (TcpSlice.from_slice s) /\
  returns (Icmpv4Slice.from_slice s) /\ returns (Icmpv6Slice.from_slice s).
Proof. exact single_layer_ctor_returns. Qed.
Print Assumptions C02_single_layer_ctor_total.

(* the extension walk in isolation: any fuel above the length of what is left suffices *)
Theorem C02_exts_walk_fuel : forall fuel start_len rest nh fr,
  (N.to_nat (s_len rest) < fuel)%nat -> s_len rest <= start_len ->
  nobug (Ipv6ExtensionsSlice.walk fuel start_len rest nh fr).
Proof. exact nb_walk. Qed.
Print Assumptions C02_exts_walk_fuel.

(* ---- fixed-width overflow (Parse/UsizeBounds.v) ------------------------------------
   Overflow of a usize `+` / `*` is not a failure value of the models of Parse/Slices.v
   (they compute in N).  For the strict single-layer constructors that add or multiply,
   the copies with every such operation CHECKED against a usize of M values
   (addC / mulC: Bug SITE_OVERFLOW when the exact result is >= M) are EQUAL to the models,
   for every M >= 2^17 -- 32-bit and 64-bit usize included -- and every slice of bytes,
   of any length: all operands are widened u8 / u16 fields or constants.  The remaining
   constructors contain no usize addition or multiplication.  Not covered: the offset
   bookkeeping (cursor offset + header length / pointer difference, layer_start_offset
   fix-ups of LenErrors), the accessors and conversions, the lax and struct decoders. *)
From EP Require Import Parse.UsizeBounds.

Theorem C02_no_usize_overflow : forall M s, 2 ^ 17 <= M -> bytes_ok (snd s) ->
  macsec_header_from_slice M s = Macsec.header_from_slice s /\
  macsec_from_slice M s = Macsec.from_slice s /\
  arp_from_slice M s = ArpPacketSlice.from_slice s /\
  ipv4_header_from_slice M s = Ipv4HeaderSlice.from_slice s /\
  auth_from_slice M s = IpAuthHeaderSlice.from_slice s /\
  raw_from_slice M s = Ipv6RawExtHeaderSlice.from_slice s /\
  ipv6_from_slice M s = Ipv6Slice.from_slice s /\
  ip_from_slice M s = IpSlice.from_slice s.
Proof. exact no_usize_overflow. Qed.
Print Assumptions C02_no_usize_overflow.

(* 32-bit usize: the checked constructors never report an overflow (nor any other Bug) *)
Theorem C02_no_usize_overflow_32 : forall s b, bytes_ok (snd s) ->
  macsec_header_from_slice (2 ^ 32) s <> Bug b /\ macsec_from_slice (2 ^ 32) s <> Bug b /\
  arp_from_slice (2 ^ 32) s <> Bug b /\ ipv4_header_from_slice (2 ^ 32) s <> Bug b /\
  auth_from_slice (2 ^ 32) s <> Bug b /\ raw_from_slice (2 ^ 32) s <> Bug b /\
  ipv6_from_slice (2 ^ 32) s <> Bug b /\ ip_from_slice (2 ^ 32) s <> Bug b.
Proof. exact no_usize_overflow_32. Qed.
Print Assumptions C02_no_usize_overflow_32.

(* ---- non-vacuity ---------------------------------------------------------- *)
(* rejected inputs return Err; the overflow site is reachable: a 16-bit usize overflows on
   40 + 65535, and the checked primitives report it; the largest lengths the constructors
   compute from the contents (ARP 8+2*255+2*255, auth (255+2)*4, raw (255+1)*8) are reached *)
Example C02_ctor_total_ex :
  (exists e, Ipv4Slice.from_slice (mk_slice [69;0;0]) = Err e) /\
  (exists e, Ipv6ExtensionsSlice.from_slice 0 (mk_slice [43;0;0;0;0;0;0;0; 59;1;0;0]) = Err e) /\
  (exists v, Ipv6ExtensionsSlice.from_slice 0 (mk_slice [43;0;0;0;0;0;0;0; 59;0;0;0;0;0;0;0]) = Ok v) /\
  Ipv6ExtensionsSlice.walk 1 16 (mk_slice [43;0;0;0;0;0;0;0; 59;0;0;0;0;0;0;0]) 60 false = Bug SITE_FUEL /\
  ipv6_finish (2 ^ 16) (mk_slice (repeat 0 41%nat))
    (mk_slice ([96;0;0;0; 255;255; 59; 64] ++ repeat 0 32%nat)) = Bug SITE_OVERFLOW /\
  addC (2 ^ 32) 4294967295 1 = Bug SITE_OVERFLOW /\
  (match arp_from_slice (2 ^ 32) (mk_slice ([0;1;8;0;255;255;0;1] ++ repeat 0 1020%nat)) with
   | Ok a => s_len a | _ => 0 end,
   match auth_from_slice (2 ^ 32) (mk_slice ([17;255] ++ repeat 0 1026%nat)) with
   | Ok a => s_len a | _ => 0 end,
   match raw_from_slice (2 ^ 32) (mk_slice ([17;255] ++ repeat 0 2046%nat)) with
   | Ok a => s_len a | _ => 0 end) = (1028, 1028, 2048).
Proof.
  split; [eexists; vm_compute; reflexivity|]. split; [eexists; vm_compute; reflexivity|].
  split; [eexists; vm_compute; reflexivity|]. vm_compute. repeat split.
Qed.
(* ---- end audit follow-up ---- *)

(* ---- audit follow-up (round 2) ---- *)
(* ======================================================================== *)
(* The public slice constructors not listed in C02_single_layer_ctor_total return Ok or Err
   (ErrLen in the vocabulary of CtlMsg) for EVERY slice / byte string: Ethernet2HeaderSlice,
   SingleVlanHeaderSlice, Ipv4ExtensionsSlice (every start number), the 11 typed ICMPv6
   payload slices (`payload_ctor k`) and the enum constructors Icmpv6PayloadSlice::from_slice
   / from_type_u8; and every accessor of an accepted payload slice returns (the unwraps of
   first_chunk and the checked `[FIXED_PART_LEN..]` cannot panic): it is the view of
   CtlMsg/Spec.v.  Same list as C01_remaining_ctors_no_oob.  Proofs: Parse/CtorsTotal2.v. *)
From EP Require Import Parse.CtorsTotal2.

Theorem C02_remaining_ctors_total :
  (forall s, returns (Ethernet2HeaderSliceM.from_slice s)) /\
  (forall s, returns (SingleVlanHeaderSliceM.from_slice s)) /\
  (forall nh s, returns (Ipv4Exts.from_slice nh s)) /\
  (forall k s, returns6 (payload_ctor k s)) /\
  (forall ty s, returns6 (P6.from_slice ty s)) /\
  (forall t c s, returns6 (P6.from_type_u8 t c s)) /\
  (forall k s p, payload_ctor k s = CtlMsg.Spec.Ok p ->
     P6.accessors p = CtlMsg.Spec.Ok (CtlMsg.Spec.ndp_payload_view k s)).
Proof. exact remaining_ctors_return. Qed.
Print Assumptions C02_remaining_ctors_total.

(* ---- fixed-width overflow in the OFFSET bookkeeping (Parse/OffsetBounds.v) -------------
   The whole strict path written once more -- Ipv4Slice / Ipv6ExtensionsSlice / Ipv6Slice /
   IpSlice ::from_slice and every slicer of SlicedPacketCursor, calling the checked
   constructors of UsizeBounds.v -- with EVERY usize `+` on a position checked against a
   usize of M values (addC: Bug SITE_OVERFLOW when the exact sum is >= M):
     LenError::add_offset / `layer_start_offset += ..` (+ header.slice().len() in the IPv4
     constructors, + start_slice.len() - rest.len() in the extension walk, + Ipv6Header::LEN
     in the IPv6 constructors, + self.offset in every cursor slicer),
     `self.offset += header_len() | pointer difference | result.slice().len()` (the last one,
     in the four transport slicers, is a dead store Parse/Cursor.v does not carry; the checked
     copy has it), MacsecHeaderSlice::header_len().
   For every M >= 2^17 and every byte string with len bs < M (a real slice: len <= isize::MAX
   < M/2), the four checked entry points ARE the models of Parse/Cursor.v: no addition
   overflows.  Invariant of the proof: c_offset c + s_len s <= len bs for the slice s the
   cursor is about to parse, and X.from_slice s = Err (ELen e) -> le_off e <= s_len s. *)
From EP Require Import Parse.OffsetBounds.

Theorem C02_no_offset_overflow : forall M bs et, 2 ^ 17 <= M -> bytes_ok bs -> len bs < M ->
  from_ethernetC M bs = SlicedPacket.from_ethernet bs /\
  from_linux_sllC M bs = SlicedPacket.from_linux_sll bs /\
  from_ether_typeC M et bs = SlicedPacket.from_ether_type et bs /\
  from_ipC M bs = SlicedPacket.from_ip bs.
Proof. exact no_offset_overflow. Qed.
Print Assumptions C02_no_offset_overflow.

Theorem C02_no_offset_overflow_32 : forall bs et, bytes_ok bs -> len bs < 2 ^ 32 ->
  from_ethernetC (2 ^ 32) bs = SlicedPacket.from_ethernet bs /\
  from_linux_sllC (2 ^ 32) bs = SlicedPacket.from_linux_sll bs /\
  from_ether_typeC (2 ^ 32) et bs = SlicedPacket.from_ether_type et bs /\
  from_ipC (2 ^ 32) bs = SlicedPacket.from_ip bs.
Proof. exact no_offset_overflow_32. Qed.
Print Assumptions C02_no_offset_overflow_32.

Theorem C02_no_offset_overflow_64 : forall bs et, bytes_ok bs -> len bs < 2 ^ 64 ->
  from_ethernetC (2 ^ 64) bs = SlicedPacket.from_ethernet bs /\
  from_linux_sllC (2 ^ 64) bs = SlicedPacket.from_linux_sll bs /\
  from_ether_typeC (2 ^ 64) et bs = SlicedPacket.from_ether_type et bs /\
  from_ipC (2 ^ 64) bs = SlicedPacket.from_ip bs.
Proof. exact no_offset_overflow_64. Qed.
Print Assumptions C02_no_offset_overflow_64.

(* hence the checked entry points never report an overflow (nor any other Bug) *)
Theorem C02_no_offset_overflow_nobug : forall M bs et, 2 ^ 17 <= M -> bytes_ok bs -> len bs < M ->
  nobug (from_ethernetC M bs) /\ nobug (from_linux_sllC M bs) /\
  nobug (from_ether_typeC M et bs) /\ nobug (from_ipC M bs).
Proof. exact no_offset_overflow_nobug. Qed.
Print Assumptions C02_no_offset_overflow_nobug.

(* the constructors on their own, for any slice: the checked Ipv4Slice needs no length bound
   (its only offset is the IPv4 header length <= 60); the others need s_len s < M *)
Theorem C02_no_offset_overflow_ctors : forall M s, 2 ^ 17 <= M -> bytes_ok (snd s) ->
  ipv4_from_sliceC M s = Ipv4Slice.from_slice s /\
  (s_len s < M ->
   (forall nh, exts_from_sliceC M nh s = Ipv6ExtensionsSlice.from_slice nh s) /\
   ipv6_from_sliceC M s = Ipv6Slice.from_slice s /\
   ip_from_sliceC M s = IpSlice.from_slice s).
Proof. exact no_offset_overflow_ctors. Qed.
Print Assumptions C02_no_offset_overflow_ctors.

(* where the layer_start_offset of a constructor's LenError lies: inside the slice *)
Theorem C02_len_error_offset_inside : forall s e,
  (Ipv4Slice.from_slice s = Err (ELen e) \/ Ipv6Slice.from_slice s = Err (ELen e) \/
   IpSlice.from_slice s = Err (ELen e) \/
   (exists nh, Ipv6ExtensionsSlice.from_slice nh s = Err (ELen e))) -> le_off e <= s_len s.
Proof. exact len_error_offset_inside. Qed.
Print Assumptions C02_len_error_offset_inside.

(* ---- fixed-width overflow in the accessors that add or multiply (Parse/AccessorArith.v):
   LinuxSllHeaderSlice::sender_address (6 + length), MacsecHeaderSlice::header_len,
   ArpPacketSlice::{sender_protocol_addr, target_hw_addr, target_protocol_addr}
   (8 + hw, 8 + hw + pr, 8 + hw*2 + pr), Ipv6RawExtHeaderSlice / IpAuthHeaderSlice
   ::from_slice_unchecked ((b+1)*8, (b+2)*4: run by the extension iterator on every header),
   TcpHeaderSlice::options (data_offset()*4): the checked copies are the accessors of
   Parse/Access.v for every M >= 2^17 and every slice of bytes. *)
From EP Require Import Parse.AccessorArith.

Theorem C02_accessor_arith_bounds : forall M s, 2 ^ 17 <= M -> bytes_ok (snd s) ->
  sll_sender_addressC M s = LinuxSllHeaderA.sender_address s /\
  AccessorArith.macsec_header_lenC M s = MacsecHeaderA.header_len s /\
  arp_sender_protocol_addrC M s = ArpPacketA.sender_protocol_addr s /\
  arp_target_hw_addrC M s = ArpPacketA.target_hw_addr s /\
  arp_target_protocol_addrC M s = ArpPacketA.target_protocol_addr s /\
  raw_from_slice_uncheckedC M s = Ipv6RawExtHeaderA.from_slice_unchecked s /\
  auth_from_slice_uncheckedC M s = Ipv6ExtIterA.auth_from_slice_unchecked s /\
  tcp_optionsC M s = TcpHeaderSliceA.options s.
Proof. exact accessor_arith_bounds. Qed.
Print Assumptions C02_accessor_arith_bounds.

(* ---- non-vacuity ---------------------------------------------------------- *)
(* the checked copies are not the models by construction: with a usize too small for the
   input they report the overflow -- (a) Ethernet II + VLAN with 16 usize values:
   `self.offset += vlan.header_len()` = 14 + 4; (b) Ethernet II + IPv6 (next header 60) + one
   byte with 50 usize values: the LenError of the cut destination options header is moved by
   0 (walk), 40 (Ipv6Slice), then `add_offset(self.offset)` = 40 + 14 overflows; with a 32-bit
   usize both equal the model (the error carries offset 54).  Accessors: the largest
   windows are reached (ARP 8+255*2+255 = 773, raw ext 2048, TCP options up to 60) and an
   8-bit usize overflows.  Payload slices: a Redirect payload of 31 bytes is rejected. *)
Example C02_offset_overflow_ex :
  from_ethernetC 16 ex_vlan_pkt = Bug SITE_OVERFLOW /\
  (exists p, from_ethernetC (2 ^ 32) ex_vlan_pkt = Ok p /\ SlicedPacket.from_ethernet ex_vlan_pkt = Ok p) /\
  from_ethernetC 50 ex_v6_cut_pkt = Bug SITE_OVERFLOW /\
  from_ethernetC (2 ^ 32) ex_v6_cut_pkt = Err (ELen (mkLenError 8 1 LsSlice LyIpv6ExtHeader 54)) /\
  SlicedPacket.from_ethernet ex_v6_cut_pkt = Err (ELen (mkLenError 8 1 LsSlice LyIpv6ExtHeader 54)) /\
  arp_target_protocol_addrC (2 ^ 8) (mk_slice ([0;1;8;0;255;255;0;1] ++ repeat 0 1020%nat)) = Bug SITE_OVERFLOW /\
  (exists e, payload_ctor CtlMsg.Spec.PkRedirect (repeat 0 31%nat) = CtlMsg.Spec.ErrLen e) /\
  (exists e, Ethernet2HeaderSliceM.from_slice (mk_slice (repeat 0 13%nat)) = Err e).
Proof.
  split; [vm_compute; reflexivity|]. split; [eexists; split; vm_compute; reflexivity|].
  split; [vm_compute; reflexivity|]. split; [vm_compute; reflexivity|].
  split; [vm_compute; reflexivity|]. split; [vm_compute; reflexivity|].
  split; eexists; vm_compute; reflexivity.
Qed.
(* ---- end audit follow-up (round 2) ---- *)

(* ==== round3 c0102 begin ==== *)
(* ---- round 3 (audit top-12 item 4) ---------------------------------------------------------------
   (a) the packet-level accessors of a STRICT result -- SlicedPacket::{payload_ether_type,
   ether_payload, ip_payload, is_ip_payload_fragmented, vlan, vlan_ids}, Parse/PacketAccess.v, with
   push_unchecked on a full ArrayVec = Bug SITE_PUSH -- return normally for every result of the four
   strict entry points: each run is `Ok tt` (none of them has an Err arm).  No `bytes_ok` needed. *)
From EP Require Import Parse.PacketAccess Parse.PacketAccessProofs.

Theorem C02_strict_packet_accessors_total : forall bs et p, entry bs et p ->
  forall r, In r (SlicedPacketPA.packet_accessors p) -> r = Ok tt.
Proof. exact strict_packet_accessors_total. Qed.
Print Assumptions C02_strict_packet_accessors_total.

(* (b) the TCP-option and NDP-option iterator clauses, inside C02: on EVERY window / byte area the
   iteration returns -- no OOB read, no panic, no UB item, the loop bound length+1 of the models is
   never exhausted --, yields at most one item per byte (TCP) / one accepted option per 8 bytes
   (NDP), every Ok item shrinks the state, the final state is exhausted (definitions pinned in
   Props/C01.v; restates C13_in_bounds / C13_bounded / C13_exhausted and C17_ndp_options) ... *)
From EP Require Import Parse.StoredIter.

Theorem C02_option_iterators_total :
  (forall o, tcp_iter_ok o) /\ (forall opts, ndp_iter_ok opts).
Proof. exact (conj tcp_iter_total ndp_iter_total). Qed.
Print Assumptions C02_option_iterators_total.

(* ... and composed with the slices a result STORES: options() of every accepted TcpSlice /
   TcpHeaderSlice returns a window of at most 40 bytes inside the slice whose iteration is total and
   bounded; payload_slice() of every accepted Icmpv6Slice returns Ok or ErrLen (never UB), the
   accessors of the typed payload slice return, and the NDP iteration over its options() area is
   total and bounded.  Single-layer constructors on every slice value: *)
Theorem C02_stored_iter_single_layer :
  (forall s x, TcpSlice.from_slice s = Ok x ->
     exists o, TcpSliceA.options x = Ok o /\ sub_of o s /\ s_len o = fst x - 20 /\ s_len o <= 40 /\
               tcp_iter_ok o) /\
  (forall s h, TcpHeaderSliceA.from_slice s = Ok h ->
     exists o, TcpHeaderSliceA.options h = Ok o /\ sub_of o s /\ s_len o = s_len h - 20 /\ s_len o <= 40 /\
               tcp_iter_ok o) /\
  (forall s v, Icmpv6Slice.from_slice s = Ok v ->
     exists t c pw,
       icmpv6_payload_slice v = Ok (pw, P6.from_type_u8 t c (snd pw)) /\
       sub_of pw s /\ s_len pw = s_len s - 8 /\
       payload_slice_ok pw (P6.from_type_u8 t c (snd pw))).
Proof. exact stored_iter_single_layer. Qed.
Print Assumptions C02_stored_iter_single_layer.

(* the transport slice of every strict (4 entry points) or lax (3 entry points) whole-packet result *)
Theorem C02_packet_tcp_options_iter : forall bs hl s,
  bytes_ok bs -> stored_transport bs (TrTcp hl s) ->
  exists o, TcpSliceA.options (hl, s) = Ok o /\ sub_of o s /\ in_window bs o /\
            s_len o = hl - 20 /\ s_len o <= 40 /\ tcp_iter_in bs o.
Proof. exact packet_tcp_options_iter. Qed.
Print Assumptions C02_packet_tcp_options_iter.

Theorem C02_packet_icmp6_payload_slice : forall bs s,
  stored_transport bs (TrIcmpv6 s) ->
  exists t c pw,
    icmpv6_payload_slice s = Ok (pw, P6.from_type_u8 t c (snd pw)) /\
    sub_of pw s /\ in_window bs pw /\ s_len pw = s_len s - 8 /\
    payload_slice_in bs pw (P6.from_type_u8 t c (snd pw)).
Proof. exact packet_icmp6_payload_slice. Qed.
Print Assumptions C02_packet_icmp6_payload_slice.

(* (c) LaxPacketHeaders::from_linux_sll returns Ok or Err for every byte string of bytes
   (C06_sll_start_laxheaders + C04_lax_headers_never_bug; Parse/LaxHdrSll.v) *)
From EP Require Import Parse.LaxHdrSll.

Theorem C02_lax_headers_from_linux_sll_total : forall bs, bytes_ok bs ->
  (exists p, EP.Parse.HdrLaxModel.LaxPacketHeaders.from_linux_sll bs = Ok p) \/
  (exists e, EP.Parse.HdrLaxModel.LaxPacketHeaders.from_linux_sll bs = Err e).
Proof. exact lax_headers_from_linux_sll_total. Qed.
Print Assumptions C02_lax_headers_from_linux_sll_total.

(* ---- non-vacuity ---------------------------------------------------------- *)
(* Ethernet II + VLAN + MACsec (unmodified, short length 6, no SCI) + an unknown ether type: no net /
   transport layer, so payload_ether_type = the ether type behind the SecTAG and ether_payload = the
   MACsec payload with LenSource::MacsecShortLength; the six runs are Ok.  A malformed TCP option
   area (MSS announcing length 4 with 3 bytes present) ends the iteration with one error item; an NDP
   area whose second option has length 0 ends with one accepted option and one error *)
Definition ex_macsec_pkt : bytes :=
  [1;2;3;4;5;6; 7;8;9;10;11;12; 129;0;  0;5; 136;229;
   0; 6; 0;0;0;1; 18;52; 170;187;204;221; 238;255].

Example C02_strict_packet_accessors_ex :
  match SlicedPacket.from_ethernet ex_macsec_pkt with
  | Ok p => Some (map (fun x => match x with LeVlan _ => 0 | LeMacsec _ => 1 end) (sp_exts p),
                  SlicedPacketPA.packet_accessors p,
                  SlicedPacketPA.payload_ether_type p, SlicedPacketPA.vlan_ids p,
                  match SlicedPacketPA.ether_payload p with
                  | Ok (Some e) => Some (ep_ether_type e, ep_src e, win_of (ep_slice e))
                  | _ => None
                  end)
  | _ => None
  end =
  Some ([0; 1], [Ok tt; Ok tt; Ok tt; Ok tt; Ok tt; Ok tt],
        Ok (Some 4660), Ok [5], Some (4660, LsMacsecShortLength, (26, 4))) /\
  TO.iterate [2; 4; 5] =
    TO.Ret ([(TO.Err (EP.TcpOpt.Spec.UnexpectedEndOfSlice 2 4 3), [])], []) /\
  CtlMsg.Model.Ndp.collect 17 [1;1; 10;11;12;13;14;15; 5;0; 0;0;0;0;0;0] =
    Some [CtlMsg.Spec.IOk CtlMsg.Spec.KSrcLL [1;1; 10;11;12;13;14;15];
          CtlMsg.Spec.IErr (CtlMsg.Spec.ZeroLength 5)].
Proof. split; [vm_compute; reflexivity|split; vm_compute; reflexivity]. Qed.
(* ==== round3 c0102 end ==== *)
