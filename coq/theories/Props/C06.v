(* Props/C06.v -- property C06: equivalent entry points give equivalent
   answers.  Statements only; proofs are `exact`.

   Models : Parse/Slices.v, Parse/Cursor.v (strict slicing), Parse/LaxSlices.v,
            Parse/HdrModel.v (the twelve IP boundary copies live in these three),
            IoFault/Model.v (every `read` as a read program), Equiv/ModelRead.v
   Canonicalisation (Equiv/Model.v): `shift_vres k` = every window and every
   layer_start_offset moved by k, link layer set aside; `canon_vres` / `same_answer`
   = link layer aside, err::ipv4/ipv6::HeaderError read as the err::ip::HeaderError
   naming the same fact; `F11` = the decidable known class (input ends inside the
   fixed part of the IPv4 header announced by its first byte, or is empty). *)
From EP Require Import IoFault.Spec IoFault.Model.
From EP Require Import Base.Bytes Parse.Types Parse.Slices Parse.Cursor Parse.View
  Parse.HdrModel Parse.LaxSlices Equiv.Model Equiv.ModelRead Equiv.Proofs Equiv.ShiftProofs
  Equiv.ReadProofs Equiv.ReadBase Equiv.ReadSimple Equiv.ReadChain Equiv.ReadIpHeaders
  Equiv.ReadTotal Equiv.ReadAll Equiv.ReadValues Equiv.HdrShift Equiv.LaxShift.
From EP Require Import Parse.LaxCursor.
From EP Require Roundtrip.Common Roundtrip.Tcp Roundtrip.Ipv4 Roundtrip.Frag BitFields.Model Equiv.ReadValues6.

Local Open Scope N_scope.

(* ---- group 1: whole-packet starting points (strict slicing family) ---------- *)
(* Ethernet II header present: slicing from it = slicing the bytes behind it from
   its ether type, every window and error offset 14 bytes later, link layer aside.
   Equality is exact (len_source included). *)
Theorem C06_ethernet_eq_ethertype : forall bs a b,
  rd bs 12 = Some a -> rd bs 13 = Some b ->
  nolink (vres_of (SlicedPacket.from_ethernet bs)) =
  shift_vres 14 (nolink (vres_of (SlicedPacket.from_ether_type (be16 a b) (drop 14 bs)))).
Proof. exact ethernet_eq_ethertype. Qed.
Print Assumptions C06_ethernet_eq_ethertype.

(* ... and when the 14 bytes are not there *)
Theorem C06_ethernet_short : forall bs, len bs < 14 ->
  SlicedPacket.from_ethernet bs = Err (ELen (mkLenError 14 (len bs) LsSlice LyEthernet2Header 0)).
Proof. exact ethernet_short. Qed.
Print Assumptions C06_ethernet_short.

(* ether type IPv4 / IPv6 with the matching version nibble = starting at IP *)
Theorem C06_ethertype_eq_ip : forall b rest, F11 (b :: rest) = false ->
  (N.shiftr b 4 = 4 ->
   canon_vres (vres_of (SlicedPacket.from_ether_type ET_IPV4 (b :: rest))) =
   canon_vres (vres_of (SlicedPacket.from_ip (b :: rest)))) /\
  (N.shiftr b 4 = 6 ->
   canon_vres (vres_of (SlicedPacket.from_ether_type ET_IPV6 (b :: rest))) =
   canon_vres (vres_of (SlicedPacket.from_ip (b :: rest)))).
Proof. exact ethertype_eq_ip. Qed.
Print Assumptions C06_ethertype_eq_ip.

Theorem C06_ethertype_eq_ip_refuted :
  exists bs, F11 bs = true /\
    canon_vres (vres_of (SlicedPacket.from_ether_type ET_IPV4 bs)) <>
    canon_vres (vres_of (SlicedPacket.from_ip bs)).
Proof. exact ethertype_eq_ip_refuted. Qed.
Print Assumptions C06_ethertype_eq_ip_refuted.

(* the nibble contradicts the ether type (or the fixed header is cut short):
   the ether type's decoder rejects, precisely like this *)
Theorem C06_ethertype_mismatch : forall bs,
  (len bs < 20 ->
   SlicedPacket.from_ether_type ET_IPV4 bs =
   Err (ELen (mkLenError 20 (len bs) LsSlice LyIpv4Header 0))) /\
  (len bs < 40 ->
   SlicedPacket.from_ether_type ET_IPV6 bs =
   Err (ELen (mkLenError 40 (len bs) LsSlice LyIpv6Header 0))) /\
  (forall b rest, bs = b :: rest -> 20 <= len bs -> N.shiftr b 4 <> 4 ->
   SlicedPacket.from_ether_type ET_IPV4 bs = Err (EContent (CeIpv4Version (N.shiftr b 4)))) /\
  (forall b rest, bs = b :: rest -> 40 <= len bs -> N.shiftr b 4 <> 6 ->
   SlicedPacket.from_ether_type ET_IPV6 bs = Err (EContent (CeIpv6Version (N.shiftr b 4)))).
Proof. exact ethertype_mismatch. Qed.
Print Assumptions C06_ethertype_mismatch.

(* ---- group 2: the IP boundary copies ---------------------------------------- *)
(* the version-dispatching decoder = the version-specific one its first nibble
   selects; any pointer o, any non-empty byte string outside F11 *)
Theorem C06_dispatch_eq_specific : forall o b rest, F11 (b :: rest) = false ->
  same_answer (IpSlice.from_slice (o, b :: rest)) (ip_slice_specific (o, b :: rest) b).
Proof. exact ip_slice_dispatch. Qed.
Print Assumptions C06_dispatch_eq_specific.

Theorem C06_dispatch_eq_specific_refuted :
  exists bs, F11 bs = true /\
    match bs with
    | b :: _ => ~ same_answer (IpSlice.from_slice (0, bs)) (ip_slice_specific (0, bs) b)
    | [] => False
    end.
Proof. exact ip_slice_dispatch_refuted. Qed.
Print Assumptions C06_dispatch_eq_specific_refuted.

Theorem C06_dispatch_eq_specific_lax : forall o b rest, F11 (b :: rest) = false ->
  same_answer (LaxIpSlice.from_slice (o, b :: rest)) (lax_ip_specific (o, b :: rest) b).
Proof. exact lax_ip_dispatch. Qed.
Print Assumptions C06_dispatch_eq_specific_lax.

(* the struct family checks the 20 bytes before the IHL in both copies: no exclusion *)
Theorem C06_dispatch_eq_specific_headers : forall o b rest,
  same_answer (IpHeaders.from_slice (o, b :: rest)) (ip_headers_specific (o, b :: rest) b).
Proof. exact ip_headers_dispatch. Qed.
Print Assumptions C06_dispatch_eq_specific_headers.

(* ---- group 3: read vs from_slice -------------------------------------------- *)
(* C06_read_eq_slice_partial (first round): 4 of the 17 header types, those whose
   reader is a single read_exact.  Superseded by C06_read_eq_slice below, which
   covers all 17; kept because it is stated as plain equality.  The statement
   first planned,
     forall t bs, (t = HIpHeaders -> F15 bs = false) ->
       read_outcome t bs = slice_outcome t bs,
   is FALSE as it stands: see C06_read_cut_fixed_refuted,
   C06_read_announced_missing_refuted and C06_read_required_len_differs. *)
Theorem C06_read_eq_slice_partial : forall bs,
  read_outcome HEthernet2 bs = slice_outcome HEthernet2 bs /\
  read_outcome HSingleVlan bs = slice_outcome HSingleVlan bs /\
  read_outcome HUdp bs = slice_outcome HUdp bs /\
  read_outcome HIpv6Frag bs = slice_outcome HIpv6Frag bs.
Proof.
  exact (fun bs => conj (read_eq_slice_ethernet2 bs) (conj (read_eq_slice_single_vlan bs)
          (conj (read_eq_slice_udp bs) (read_eq_slice_ipv6_frag bs)))).
Qed.
Print Assumptions C06_read_eq_slice_partial.

(* known class F15: IpHeaders::read takes an IPv6 payload length of 0 literally *)
Theorem C06_read_eq_slice_ip_headers_refuted :
  exists bs, F15 bs = true /\ read_outcome HIpHeaders bs <> slice_outcome HIpHeaders bs.
Proof. exact read_eq_slice_ip_headers_refuted. Qed.
Print Assumptions C06_read_eq_slice_ip_headers_refuted.

(* ---- non-vacuity -------------------------------------------------------------- *)
(* Ethernet / VLAN / IPv4 / UDP: accepted, and the theorem's two sides are this *)
Definition ex_pkt : bytes :=
  [1;2;3;4;5;6; 7;8;9;10;11;12; 129;0;  0;5; 8;0;
   69;0;0;32; 0;0;0;0; 64;17;0;0; 1;2;3;4; 5;6;7;8;
   0;1;0;2;0;12;0;0; 170;187;204;221].
Example C06_ex_eth :
  rd ex_pkt 12 = Some 129 /\ rd ex_pkt 13 = Some 0 /\
  nolink (vres_of (SlicedPacket.from_ethernet ex_pkt)) =
    VOk (mkVPacket None [VVlan (14, 36)]
           (Some (VIpv4 (18, 20) None (mkVIp 17 false LsIpv4HeaderTotalLen (38, 12))))
           (Some (VUdp (38, 12)))) /\
  vres_of (SlicedPacket.from_ether_type (be16 129 0) (drop 14 ex_pkt)) =
    VOk (mkVPacket (Some (VEtherPayload (mkVEp 33024 LsSlice (0, 36)))) [VVlan (0, 36)]
           (Some (VIpv4 (4, 20) None (mkVIp 17 false LsIpv4HeaderTotalLen (24, 12))))
           (Some (VUdp (24, 12)))).
Proof. repeat split; vm_compute; reflexivity. Qed.
(* cut inside the UDP header: the error offsets differ by exactly 14 *)
Example C06_ex_eth_cut :
  vres_of (SlicedPacket.from_ethernet (firstn 41 ex_pkt)) =
    VErr (ELen (mkLenError 32 23 LsSlice LyIpv4Packet 18)) /\
  vres_of (SlicedPacket.from_ether_type 33024 (drop 14 (firstn 41 ex_pkt))) =
    VErr (ELen (mkLenError 32 23 LsSlice LyIpv4Packet 4)).
Proof. split; vm_compute; reflexivity. Qed.
(* an IPv4/UDP packet outside F11 with IHL 6: all three doors accept *)
Definition ex_ip : bytes :=
  [70;0;0;32; 0;0;0;0; 64;17;0;0; 1;2;3;4; 5;6;7;8; 1;1;1;1; 0;1;0;2;0;8;0;0].
Example C06_ex_ip :
  F11 ex_ip = false /\
  (exists v, IpSlice.from_slice (0, ex_ip) = Ok (IpV4 v) /\ Ipv4Slice.from_slice (0, ex_ip) = Ok v) /\
  (exists p, vres_of (SlicedPacket.from_ip ex_ip) = VOk p /\ v_transport p = Some (VUdp (24, 8))).
Proof.
  split; [reflexivity|]. split; eexists; split; vm_compute; reflexivity.
Qed.
Example C06_ex_read :
  read_outcome HEthernet2 ex_pkt = OOk 14 /\ read_outcome HEthernet2 (firstn 9 ex_pkt) = OEof /\
  read_outcome HIpHeaders ex_ip = OOk 24 /\ slice_outcome HIpHeaders ex_ip = OOk 24 /\
  F15 ex_ip = false.
Proof. repeat split; vm_compute; reflexivity. Qed.

(* ---- group 3, all 17 header types ---------------------------------------------- *)
(* outcome of T::read(&mut Cursor::new(bs)) (read side, IoFault/Model.v read programs:
   OOk n = Ok(header) with the Cursor advanced by n; OEof = Io(UnexpectedEof);
   OContent k = Content(k); OLen .. = Len(LenError) of the LimitedReader) against
   the outcome of T::from_slice(bs) (OOk n = header decoded from the first n bytes,
   i.e. header_len = n; OEof = Len error whose len_source is the slice itself /
   ArpAddrLengths; OContent, OLen likewise).

   same_reason (Equiv/ReadBase.v): equal outcomes, except that for a LimitedReader
   length error about a raw IPv6 extension header with fewer than 8 bytes left the
   required_len may differ (reader: what its current read_exact needs; slice
   decoder: 8) -- len, len_source, layer and layer_start_offset are equal, both
   required_len exceed len.  Neither side is ever an "impossible" outcome (OBad).

   Hypotheses: bytes are bytes; outside cut_fixed (HIpv4 / HIpv6 / HIpHeaders only:
   the data ends inside the fixed 20 / 40 bytes AND the reader has already rejected
   the version nibble / IHL it saw); for IpHeaders additionally: the slice holds the
   packet its fixed header announces (announced_missing = false: not (20 <= len <
   total_len) for IPv4, not (40 <= len < 40 + payload_length) for IPv6) and the
   input is outside the known class F15.  ICMPv4 / ICMPv6 are compared on the slice
   that ends with the header (ModelRead.ends_with_header), as the property says. *)
Theorem C06_read_eq_slice : forall t bs, bytes_ok bs -> cut_fixed t bs = false ->
  (t = HIpHeaders -> announced_missing bs = false /\ F15 bs = false) ->
  same_reason (read_outcome t bs) (slice_outcome t bs).
Proof. exact read_eq_slice_all. Qed.
Print Assumptions C06_read_eq_slice.

(* plain equality for the 15 types without LimitedReader / loop *)
Theorem C06_read_eq_slice_exact : forall t bs, bytes_ok bs -> cut_fixed t bs = false ->
  match t with HIpv6Exts _ | HIpHeaders => True | _ => read_outcome t bs = slice_outcome t bs end.
Proof. exact read_eq_slice_exact. Qed.
Print Assumptions C06_read_eq_slice_exact.

(* "... and consumes exactly the header's bytes" *)
Theorem C06_read_ok_consumes : forall t bs n, bytes_ok bs -> cut_fixed t bs = false ->
  (t = HIpHeaders -> announced_missing bs = false /\ F15 bs = false) ->
  read_outcome t bs = OOk n -> slice_outcome t bs = OOk n.
Proof. exact read_ok_consumes. Qed.
Print Assumptions C06_read_ok_consumes.

(* the exclusions are needed (witnesses), and what happens inside cut_fixed *)
Theorem C06_read_cut_fixed_refuted :
  (cut_fixed HIpv4 [48] = true /\ read_outcome HIpv4 [48] = OContent (KC CVersion) /\
   slice_outcome HIpv4 [48] = OEof) /\
  (cut_fixed HIpv6 [64] = true /\ read_outcome HIpv6 [64] = OContent (KC CVersion) /\
   slice_outcome HIpv6 [64] = OEof) /\
  (cut_fixed HIpHeaders [64] = true /\ read_outcome HIpHeaders [64] = OContent (KC CIhl) /\
   slice_outcome HIpHeaders [64] = OEof).
Proof. exact read_cut_fixed_refuted. Qed.
Print Assumptions C06_read_cut_fixed_refuted.

Theorem C06_read_cut_fixed_inside : forall bs,
  (cut_fixed HIpv4 bs = true ->
   read_outcome HIpv4 bs = OContent (KC CVersion) /\ slice_outcome HIpv4 bs = OEof) /\
  (cut_fixed HIpv6 bs = true ->
   read_outcome HIpv6 bs = OContent (KC CVersion) /\ slice_outcome HIpv6 bs = OEof).
Proof. exact (fun bs => conj (read_cut_fixed_ipv4 bs) (read_cut_fixed_ipv6 bs)). Qed.
Print Assumptions C06_read_cut_fixed_inside.

Theorem C06_read_announced_missing_refuted :
  bytes_ok missing_witness /\ cut_fixed HIpHeaders missing_witness = false /\
  F15 missing_witness = false /\ announced_missing missing_witness = true /\
  read_outcome HIpHeaders missing_witness = OOk 20 /\ slice_outcome HIpHeaders missing_witness = OEof.
Proof. exact read_announced_missing_refuted. Qed.
Print Assumptions C06_read_announced_missing_refuted.

Theorem C06_read_required_len_differs :
  read_outcome HIpHeaders req_witness = OLen 2 1 LS_IPV6_PAYLOAD L_IPV6EXT 40 /\
  slice_outcome HIpHeaders req_witness = OLen 8 1 LS_IPV6_PAYLOAD L_IPV6EXT 40.
Proof. exact read_required_len_differs. Qed.
Print Assumptions C06_read_required_len_differs.

(* non-vacuity: IPv6 + hop-by-hop + fragment + UDP, every hypothesis holds, both
   sides accept and the reader consumed 40 + 8 + 8 bytes; cut inside the second
   extension header by the payload length field: the same LimitedReader error *)
Definition ex_v6 (pl : N) : bytes :=
  [96;0;0;0;0;pl;0;64] ++ repeat 0 32 ++ [44;0;1;2;3;4;5;6; 17;0;0;0;0;0;0;1; 0;1;0;2;0;8;0;0].
Example C06_ex_read_all :
  bytes_ok (ex_v6 24) /\ cut_fixed HIpHeaders (ex_v6 24) = false /\
  announced_missing (ex_v6 24) = false /\ F15 (ex_v6 24) = false /\
  read_outcome HIpHeaders (ex_v6 24) = OOk 56 /\ slice_outcome HIpHeaders (ex_v6 24) = OOk 56 /\
  announced_missing (ex_v6 12) = false /\ F15 (ex_v6 12) = false /\
  read_outcome HIpHeaders (ex_v6 12) = OLen 8 4 LS_IPV6_PAYLOAD L_IPV6FRAG 48 /\
  slice_outcome HIpHeaders (ex_v6 12) = OLen 8 4 LS_IPV6_PAYLOAD L_IPV6FRAG 48 /\
  read_outcome (HIpv6Exts 0) (drop 40 (ex_v6 24)) = OOk 16 /\
  read_outcome HTcp (repeat 0 12 ++ [96] ++ repeat 0 11) = OOk 24 /\
  read_outcome HMacsec [0;1;0;0;0;1] = OContent (KC CMacsecShortLen).
Proof.
  split; [apply bytes_okb_spec; vm_compute; reflexivity|]. repeat split; vm_compute; reflexivity.
Qed.

(* ---- group 3, header values ------------------------------------------------------ *)
(* C06_read_eq_slice compares outcomes: "decoded from the same n bytes".  For the
   header types that have a field-level decode model (C08: TcpHeader, Ipv4Header,
   Ipv6FragmentHeader -- their `read` decodes every field a second time, by hand,
   independently of XHeaderSlice::to_header) the decoded STRUCTS and the unread
   rest are equal, for every byte string (Ipv4Header / Ipv6Header: every byte string
   that holds the 20 / 40 fixed bytes -- shorter inputs are the class cut_fixed of the
   outcome-level theorem, C06_read_cut_fixed_inside); a slice Len error is the reader's
   UnexpectedEof (eof_of_len).  The other header types: "the remaining header types"
   below (all 17 have a value-level theorem now; the harness `eq` flag checks the same
   per case). *)
Theorem C06_read_value_tcp : forall bs, bytes_ok bs ->
  Roundtrip.Tcp.read bs = eof_of_len (Roundtrip.Tcp.from_slice bs).
Proof. exact tcp_read_eq_from_slice. Qed.
Print Assumptions C06_read_value_tcp.

Theorem C06_read_value_ipv4 : forall bs, bytes_ok bs -> 20 <= len bs ->
  Roundtrip.Ipv4.ip4_read bs = eof_of_len (Roundtrip.Ipv4.ip4_from_slice bs).
Proof. exact ip4_read_eq_from_slice. Qed.
Print Assumptions C06_read_value_ipv4.

Theorem C06_read_value_frag : forall bs,
  Roundtrip.Frag.frag_read bs = eof_of_len (Roundtrip.Frag.frag_from_slice bs).
Proof. exact frag_read_eq_from_slice. Qed.
Print Assumptions C06_read_value_frag.

(* Ipv6Header: the field-level decode models of C15 (BitFields/Model.v) *)
Theorem C06_read_value_ipv6 : forall bs, bytes_ok bs -> 40 <= len bs ->
  BitFields.Model.Ipv6Header_read bs =
  Equiv.ReadValues6.eof_of_len6 (BitFields.Model.Ipv6Header_from_slice bs).
Proof. exact Equiv.ReadValues6.ip6_read_eq_from_slice. Qed.
Print Assumptions C06_read_value_ipv6.

Example C06_ex_read_value6 :
  exists h, BitFields.Model.Ipv6Header_read ([105;18;52;86;0;8;17;64] ++ repeat 1 16 ++ repeat 2 16 ++ [9]) =
            BitFields.Model.Val h /\ BitFields.Model.v6_traffic_class h = 145 /\
            BitFields.Model.v6_flow_label h = 144470.
Proof. eexists. repeat split; vm_compute; reflexivity. Qed.

Example C06_ex_read_value :
  (exists h, Roundtrip.Tcp.read (repeat 0 12 ++ [96] ++ repeat 0 11 ++ [7]) = Roundtrip.Common.Ok (h, [7]) /\
             Roundtrip.Tcp.o_len (Roundtrip.Tcp.options h) = 4) /\
  (exists h, Roundtrip.Ipv4.ip4_read ([70] ++ repeat 0 23 ++ [9]) = Roundtrip.Common.Ok (h, [9])) /\
  Roundtrip.Tcp.from_slice (repeat 0 12 ++ [96] ++ repeat 0 9) = Roundtrip.Common.Err Roundtrip.Common.ELen /\
  Roundtrip.Tcp.read (repeat 0 12 ++ [96] ++ repeat 0 9) = Roundtrip.Common.Err Roundtrip.Common.EIo.
Proof.
  split; [eexists; split; vm_compute; reflexivity|].
  split; [eexists; vm_compute; reflexivity|]. split; vm_compute; reflexivity.
Qed.

(* ---- group 1, struct family (PacketHeaders) --------------------------------------- *)
(* Ethernet II header present: PacketHeaders::from_ethernet_slice = from_ether_type on
   the bytes behind it, as VALUES of the model (a decoded header is the sub-slice it
   was decoded from): every header and the payload 14 bytes later (sh_* 14), the
   layer_start_offset of a length error 14 later, everything else -- protocol
   numbers, length sources, content errors, Bug sites -- equal; the decoded Ethernet
   II header in front.  No bytes_ok needed. *)
Theorem C06_headers_ethernet_eq_ethertype : forall bs a b,
  rd bs 12 = Some a -> rd bs 13 = Some b ->
  PacketHeaders.from_ethernet_slice bs =
  match PacketHeaders.from_ether_type (be16 a b) (drop 14 bs) with
  | Ok r => Ok (mkH (Some (0, take 14 bs)) (map (sh_hx 14) (h_exts r)) (option_map (sh_hnet 14) (h_net r))
                    (option_map (sh_htr 14) (h_transport r)) (sh_hpl 14 (h_payload r)))
  | Err (ELen e) => Err (ELen (le_add_offset e 14))
  | r => r
  end.
Proof. exact headers_ethernet_eq_ethertype. Qed.
Print Assumptions C06_headers_ethernet_eq_ethertype.

Theorem C06_headers_ethernet_short : forall bs, len bs < 14 ->
  PacketHeaders.from_ethernet_slice bs =
  Err (ELen (mkLenError 14 (len bs) LsSlice LyEthernet2Header 0)).
Proof. exact headers_ethernet_short. Qed.
Print Assumptions C06_headers_ethernet_short.

(* pointer-shift equivariance of from_ether_type itself: any k, any ether type *)
Theorem C06_headers_ethertype_shift : forall k et s,
  PacketHeaders.from_ether_type_slice et (sh k s) = rmap (sh_hp k) (PacketHeaders.from_ether_type_slice et s).
Proof. exact from_ether_type_slice_sh. Qed.
Print Assumptions C06_headers_ethertype_shift.

(* ether type IPv4 / IPv6 with the matching nibble = starting at IP; NO exclusion:
   F11 does not reach this family (both struct copies check 20 bytes before the IHL) *)
Theorem C06_headers_ethertype_eq_ip : forall b rest,
  (N.shiftr b 4 = 4 ->
   same_answer (PacketHeaders.from_ip_slice (b :: rest)) (PacketHeaders.from_ether_type ET_IPV4 (b :: rest))) /\
  (N.shiftr b 4 = 6 ->
   same_answer (PacketHeaders.from_ip_slice (b :: rest)) (PacketHeaders.from_ether_type ET_IPV6 (b :: rest))).
Proof. exact headers_ethertype_eq_ip. Qed.
Print Assumptions C06_headers_ethertype_eq_ip.

Example C06_ex_headers :
  (exists r, PacketHeaders.from_ethernet_slice ex_pkt = Ok r /\
             h_link r = Some (0, firstn 14 ex_pkt) /\
             h_transport r = Some (HtUdp (38, firstn 8 (skipn 38 ex_pkt)))) /\
  (exists r, PacketHeaders.from_ether_type 33024 (drop 14 ex_pkt) = Ok r /\
             h_transport r = Some (HtUdp (24, firstn 8 (skipn 38 ex_pkt)))) /\
  PacketHeaders.from_ethernet_slice (firstn 41 ex_pkt) =
    Err (ELen (mkLenError 32 23 LsSlice LyIpv4Packet 18)) /\
  PacketHeaders.from_ether_type 33024 (drop 14 (firstn 41 ex_pkt)) =
    Err (ELen (mkLenError 32 23 LsSlice LyIpv4Packet 4)) /\
  (exists r, PacketHeaders.from_ip_slice ex_ip = Ok r /\ PacketHeaders.from_ether_type ET_IPV4 ex_ip = Ok r).
Proof.
  (* (proof script only: `repeat split` on `_ = Ok ?r` closed it by lazy conversion, 25 s) *)
  split; [eexists; split; [vm_compute; reflexivity|split; vm_compute; reflexivity]|].
  split; [eexists; split; [vm_compute; reflexivity|vm_compute; reflexivity]|].
  split; [vm_compute; reflexivity|]. split; [vm_compute; reflexivity|].
  eexists; split; vm_compute; reflexivity.
Qed.

(* ---- group 1, lax slicing family (LaxSlicedPacket) --------------------------------- *)
(* lrrel k (Equiv/LaxShift.v): both Ok with link extensions, net and transport
   slices k bytes later and the stop error equal except for its layer_start_offset,
   k later (layer tag, required_len, len, len_source equal); link layer aside.
   (Err/Err with equal errors and Bug/Bug cover outcomes neither side has once the
   14 Ethernet bytes are present.) *)
Theorem C06_lax_ethernet_eq_ethertype : forall bs a b,
  rd bs 12 = Some a -> rd bs 13 = Some b ->
  lrrel 14 (LaxSlicedPacket.from_ethernet bs) (LaxSlicedPacket.from_ether_type (be16 a b) (drop 14 bs)).
Proof. exact lax_ethernet_eq_ethertype. Qed.
Print Assumptions C06_lax_ethernet_eq_ethertype.

Theorem C06_lax_ethernet_short : forall bs, len bs < 14 ->
  LaxSlicedPacket.from_ethernet bs = Err (ELen (mkLenError 14 (len bs) LsSlice LyEthernet2Header 0)).
Proof. exact lax_ethernet_short. Qed.
Print Assumptions C06_lax_ethernet_short.

(* ether type IPv4 or IPv6 (whatever the version nibble: F10) = from_ip repackaged:
   the ether payload recorded as link layer, and the first header's error -- which
   from_ip returns -- kept as stop error of layer IpHeader.  No exclusion. *)
Theorem C06_lax_ethertype_eq_ip : forall et bs, et = ET_IPV4 \/ et = ET_IPV6 ->
  LaxSlicedPacket.from_ether_type et bs = lax_ip_as_ether_type et bs (LaxSlicedPacket.from_ip bs).
Proof. exact lax_ethertype_eq_ip. Qed.
Print Assumptions C06_lax_ethertype_eq_ip.

Example C06_ex_lax :
  (exists p q, LaxSlicedPacket.from_ethernet (firstn 41 ex_pkt) = Ok p /\
     LaxSlicedPacket.from_ether_type 33024 (drop 14 (firstn 41 ex_pkt)) = Ok q /\
     lsp_stop_err p = Some (ELen (mkLenError 8 3 LsSlice LyUdpHeader 38), LyUdpHeader) /\
     lsp_stop_err q = Some (ELen (mkLenError 8 3 LsSlice LyUdpHeader 24), LyUdpHeader)) /\
  LaxSlicedPacket.from_ip [69] = Err (ELen (mkLenError 20 1 LsSlice LyIpv4Header 0)) /\
  (exists q, LaxSlicedPacket.from_ether_type ET_IPV4 [69] = Ok q /\
     lsp_stop_err q = Some (ELen (mkLenError 20 1 LsSlice LyIpv4Header 0), LyIpHeader)).
Proof.
  (* (proof script only: no `repeat split` on `_ = Ok ?p`, see C06_ex_headers) *)
  split; [do 2 eexists; split; [vm_compute; reflexivity|split; [vm_compute; reflexivity|split; vm_compute; reflexivity]]|].
  split; [vm_compute; reflexivity|]. eexists; split; vm_compute; reflexivity.
Qed.

(* ==== round 3 (extend-c06): LaxPacketHeaders family, the _lax struct copies of the IP
   boundary, from_linux_sll as a starting point ======================================= *)
From EP Require Import Parse.HdrLaxModel Equiv.HdrLaxShift Equiv.SllStart Equiv.ModelLaxIp Equiv.LaxIpCopies.
From EP Require Parse.LaxView Parse.HdrView Parse.HdrLaxCut Parse.HdrLaxProofs2.

(* ---- group 1, lax struct family (LaxPacketHeaders) ---------------------------------- *)
(* Ethernet II header present: LaxPacketHeaders::from_ethernet = from_ether_type on the
   bytes behind it, as VALUES of the model (Parse/HdrLaxModel.v; a decoded header is the
   sub-slice it was decoded from).  lh_behind 14 link r (Equiv/HdrLaxShift.v) = r with
   every decoded header (link extensions, net, transport) and the payload slice 14 bytes
   later, the layer_start_offset of a Len stop error 14 later -- whatever its layer:
   VlanHeader, MacsecHeader, IpHeader, Ipv4Header, Ipv6Header, IpAuthHeader, the IPv6
   extension layers, Arp, Icmpv4, Icmpv6, UdpHeader, TcpHeader -- and required_len, len,
   len_source, layer tag, content stop errors, incomplete flags, protocol numbers all
   equal; the decoded Ethernet II header as link.  Exact equality, every byte string. *)
Theorem C06_laxheaders_ethernet_eq_ethertype : forall bs a b,
  rd bs 12 = Some a -> rd bs 13 = Some b ->
  LaxPacketHeaders.from_ethernet bs =
  lh_behind 14 (HlEthernet2 (0, take 14 bs)) (LaxPacketHeaders.from_ether_type (be16 a b) (drop 14 bs)).
Proof. exact laxheaders_ethernet_eq_ethertype. Qed.
Print Assumptions C06_laxheaders_ethernet_eq_ethertype.

Theorem C06_laxheaders_ethernet_short : forall bs, len bs < 14 ->
  LaxPacketHeaders.from_ethernet bs = Err (ELen (mkLenError 14 (len bs) LsSlice LyEthernet2Header 0)).
Proof. exact laxheaders_ethernet_short. Qed.
Print Assumptions C06_laxheaders_ethernet_short.

(* pointer-shift equivariance of from_ether_type itself: any k, any ether type.  sh_lh k
   moves every decoded header and the payload slice; the stop error is untouched (its
   offsets count from the start of the slice the function was given) *)
Theorem C06_laxheaders_ethertype_shift : forall k et s,
  LaxPacketHeaders.from_ether_type_slice et (sh k s) =
  rmap (sh_lh k) (LaxPacketHeaders.from_ether_type_slice et s).
Proof. exact lh_from_ether_type_slice_sh. Qed.
Print Assumptions C06_laxheaders_ethertype_shift.

(* ether type IPv4 or IPv6 (whatever the version nibble: F10) = from_ip, except that the
   first header's error -- which from_ip RETURNS -- is kept as stop error of layer
   IpHeader beside the untouched start value (payload = the ether payload).  Exact
   equality, no exclusion (F11 does not reach this pair: both sides call the same
   IpHeaders::from_slice_lax). *)
Theorem C06_laxheaders_ethertype_eq_ip : forall et bs, et = ET_IPV4 \/ et = ET_IPV6 ->
  LaxPacketHeaders.from_ether_type et bs = lh_ip_as_ether_type et bs (LaxPacketHeaders.from_ip bs).
Proof. exact laxheaders_ethertype_eq_ip. Qed.
Print Assumptions C06_laxheaders_ethertype_eq_ip.

Example C06_ex_laxheaders :
  match LaxPacketHeaders.from_ethernet (firstn 41 ex_pkt),
        LaxPacketHeaders.from_ether_type 33024 (drop 14 (firstn 41 ex_pkt)) with
  | Ok p, Ok q =>
     lh_exts p = [HxVlan (14, [0; 5; 8; 0])] /\ lh_exts q = [HxVlan (0, [0; 5; 8; 0])] /\
     lh_stop p = Some (ELen (mkLenError 8 3 LsSlice LyUdpHeader 38), LyUdpHeader) /\
     lh_stop q = Some (ELen (mkLenError 8 3 LsSlice LyUdpHeader 24), LyUdpHeader)
  | _, _ => False
  end /\
  LaxPacketHeaders.from_ip [69] = Err (ELen (mkLenError 20 1 LsSlice LyIpv4Header 0)) /\
  LaxPacketHeaders.from_ether_type ET_IPV4 [69] =
    Ok (mkLH None [] None None (LHpEther (mkLaxEp false 2048 LsSlice (0, [69])))
             (Some (ELen (mkLenError 20 1 LsSlice LyIpv4Header 0), LyIpHeader))) /\
  match LaxPacketHeaders.from_ip ex_ip, LaxPacketHeaders.from_ether_type ET_IPV4 ex_ip with
  | Ok p, Ok q => p = q /\ lh_transport q = Some (HtUdp (24, [0; 1; 0; 2; 0; 8; 0; 0]))
  | _, _ => False
  end.
Proof. vm_compute. repeat split; reflexivity. Qed.

(* ---- group 2, the lax struct trio ----------------------------------------------------- *)
(* IpHeaders::from_slice_lax = the copy its first nibble selects (Equiv/ModelLaxIp.v:
   from_ipv4_slice_lax with its bare ip_auth stop error tagged IpAuthHeader,
   from_ipv6_slice_lax as is; anything else: UnsupportedIpVersion).  PLAIN equality --
   header, payload slice, incomplete flag, length source, stop error, first-header error
   -- for every pointer and every non-empty byte string; no F11-like exclusion (the
   dispatching copy checks the 20 fixed bytes before the IHL, like Ipv4Header::from_slice). *)
Theorem C06_dispatch_eq_specific_headers_lax : forall o b rest,
  LaxIpHeaders.from_slice_lax (o, b :: rest) = lax_ip_headers_specific (o, b :: rest) b.
Proof. exact lax_ip_headers_dispatch. Qed.
Print Assumptions C06_dispatch_eq_specific_headers_lax.

(* the lax boundary, slice family vs struct family: C04's theorem (Parse/HdrLaxProofs2.v
   lax_ip_agree = C04_lax_ip_headers_agree_cut), cited here because it is the second half
   of "the twelve copies agree": IpHeaders::from_slice_lax against LaxIpSlice::from_slice
   cut at the first refilled IPv6 extension header (C04's documented exception) -- same
   payload descriptor, the struct is to_header() of the slices, same stop error, same
   first-header error; outside the F11 class (nibble 4 and fewer than 20 bytes). *)
Theorem C06_lax_ip_boundary_slice_eq_struct : forall s, bytes_ok (snd s) ->
  (forall b0, rd (snd s) 0 = Some b0 -> N.shiftr b0 4 = 4 -> 20 <= s_len s) ->
  Parse.HdrLaxProofs2.lipd_rel s (LaxIpHeaders.from_slice_lax s) (Parse.HdrLaxCut.LaxCut.ip_from_slice true s).
Proof. exact Parse.HdrLaxProofs2.lax_ip_agree. Qed.
Print Assumptions C06_lax_ip_boundary_slice_eq_struct.

(* IPv4, total length 44 announced, 36 bytes present, AH cut short: all copies say
   incomplete / Slice / stop error Len(24, 16, Slice, IpAuthHeader, 20);
   total_len = header_len: empty payload, source Ipv4HeaderTotalLen *)
Definition ex_ip4_ah : bytes :=
  [69;0;0;44; 0;0;0;0; 64;51;0;0; 1;2;3;4; 5;6;7;8;  17;4;0;0;0;0;0;1;0;0;0;2; 1;1;1;1].
Example C06_ex_lax_copies :
  match LaxIpHeaders.from_slice_lax (0, ex_ip4_ah), LaxIpHeadersSpecific.from_ipv4_slice_lax (0, ex_ip4_ah) with
  | Ok (h, p, st), Ok (h', p', st') =>
      h = h' /\ p = p' /\ lipp_incomplete p = true /\ lipp_src p = LsSlice /\
      st = Some (ELen (mkLenError 24 16 LsSlice LyIpAuthHeader 20), LyIpAuthHeader) /\
      st' = Some (ELen (mkLenError 24 16 LsSlice LyIpAuthHeader 20))
  | _, _ => False
  end /\
  match LaxIpHeadersSpecific.from_ipv4_slice_lax (0, [69;0;0;20; 0;0;0;0; 64;17;0;0; 1;2;3;4; 5;6;7;8; 9;9]) with
  | Ok (_, p, st) => p = mkLaxIpp false 17 false LsIpv4HeaderTotalLen (20, []) /\ st = None
  | _ => False
  end /\
  LaxIpHeadersSpecific.from_ipv4_slice_lax (0, [96]) = Err (ELen (mkLenError 20 1 LsSlice LyIpv4Header 0)) /\
  LaxIpHeaders.from_slice_lax (0, [96]) = Err (ELen (mkLenError 40 1 LsSlice LyIpv6Header 0)).
Proof. vm_compute. repeat split; reflexivity. Qed.

(* ---- group 1, Linux SLL header as starting point ---------------------------------------- *)
(* sll_head bs (Equiv/SllStart.v) reads the first 16 bytes: fewer than 16 (SllShort);
   packet type > 7 or unsupported ARP hardware id (SllReject, with the content error);
   valid with a protocol type that is not an ether type -- netlink, GRE, ignored, Linux
   non-standard ether type -- (SllOther); valid with ether type et (SllEther et).
   SlicedPacket::from_linux_sll: in the last case = from_ether_type(et) on the bytes behind
   the header, every window and every error offset 16 later, link layer aside (same
   canonicalisation as C06_ethernet_eq_ethertype); otherwise the header's length error /
   content error / a packet with only the link layer. *)
Theorem C06_sll_start_sliced : forall bs,
  match sll_head bs with
  | SllShort =>
      SlicedPacket.from_linux_sll bs = Err (ELen (mkLenError 16 (len bs) LsSlice LyLinuxSllHeader 0))
  | SllReject c => SlicedPacket.from_linux_sll bs = Err (EContent c)
  | SllOther pt =>
      SlicedPacket.from_linux_sll bs =
      Ok (mkSliced (Some (LkLinuxSll (0, take 16 bs) (0, bs))) [] None None)
  | SllEther et =>
      nolink (vres_of (SlicedPacket.from_linux_sll bs)) =
      shift_vres 16 (nolink (vres_of (SlicedPacket.from_ether_type et (drop 16 bs))))
  end.
Proof. exact sll_start_sliced. Qed.
Print Assumptions C06_sll_start_sliced.

(* LaxPacketHeaders::from_linux_sll: = lh_behind 16 of from_ether_type(et) behind the
   header (as C06_laxheaders_ethernet_eq_ethertype, with 16); not an ether type: link +
   the LinuxSll payload (protocol type, bytes behind the header), nothing else *)
Theorem C06_sll_start_laxheaders : forall bs,
  match sll_head bs with
  | SllShort =>
      LaxPacketHeaders.from_linux_sll bs = Err (ELen (mkLenError 16 (len bs) LsSlice LyLinuxSllHeader 0))
  | SllReject c => LaxPacketHeaders.from_linux_sll bs = Err (EContent c)
  | SllOther pt =>
      LaxPacketHeaders.from_linux_sll bs =
      Ok (mkLH (Some (HlLinuxSll (0, take 16 bs))) [] None None (LHpLinuxSll pt (16, drop 16 bs)) None)
  | SllEther et =>
      LaxPacketHeaders.from_linux_sll bs =
      lh_behind 16 (HlLinuxSll (0, take 16 bs)) (LaxPacketHeaders.from_ether_type et (drop 16 bs))
  end.
Proof. exact sll_start_laxheaders. Qed.
Print Assumptions C06_sll_start_laxheaders.

(* SLL / IPv4 / UDP cut inside the UDP header; all four classes occur *)
Definition ex_sll : bytes := [0;0; 0;1; 0;6; 1;2;3;4;5;6;0;0; 8;0] ++ drop 18 ex_pkt.
Example C06_ex_sll :
  sll_head ex_sll = SllEther 2048 /\
  vres_of (SlicedPacket.from_linux_sll (firstn 39 ex_sll)) =
    VErr (ELen (mkLenError 32 23 LsSlice LyIpv4Packet 16)) /\
  vres_of (SlicedPacket.from_ether_type 2048 (drop 16 (firstn 39 ex_sll))) =
    VErr (ELen (mkLenError 32 23 LsSlice LyIpv4Packet 0)) /\
  match LaxPacketHeaders.from_linux_sll (firstn 39 ex_sll),
        LaxPacketHeaders.from_ether_type 2048 (drop 16 (firstn 39 ex_sll)) with
  | Ok p, Ok q =>
     lh_stop p = Some (ELen (mkLenError 8 3 LsSlice LyUdpHeader 36), LyUdpHeader) /\
     lh_stop q = Some (ELen (mkLenError 8 3 LsSlice LyUdpHeader 20), LyUdpHeader)
  | _, _ => False
  end /\
  match vres_of (SlicedPacket.from_linux_sll ex_sll) with
  | VOk p => v_transport p = Some (VUdp (36, 12))
  | _ => False
  end /\
  sll_head [0;0; 3;56; 0;6; 1;2;3;4;5;6;0;0; 0;16; 1;2;3] = SllOther (SllNetlink 16) /\
  sll_head [0;9; 0;1; 0;6; 1;2;3;4;5;6;0;0; 8;0] = SllReject (CeLinuxSllPacketType 9) /\
  sll_head [0;0; 0;2; 0;6; 1;2;3;4;5;6;0;0; 8;0] = SllReject (CeLinuxSllArpHardwareId 2) /\
  sll_head [0;0; 0;1; 0;6; 1;2;3;4;5;6;0;0; 0;4] = SllOther (SllNonstandard 4) /\
  sll_head [0;0; 0;1] = SllShort.
Proof. vm_compute. repeat split; reflexivity. Qed.

From EP Require Roundtrip.Eth Roundtrip.Vlan Roundtrip.Sll Roundtrip.Macsec Roundtrip.Arp Roundtrip.Udp Roundtrip.RawExt
  Roundtrip.Auth Roundtrip.Exts4 Roundtrip.Icmp4 Roundtrip.Icmp6 Equiv.ReadValuesLink Equiv.ReadValuesNet
  ExtChain.Model ExtChain.ReadModel ExtChain.ReadProofs.

(* ---- group 3, header values: the remaining header types ----------------------------------- *)
(* As C06_read_value_tcp / _ipv4 / _frag / _ipv6 above, for the header types whose field-level
   decode models C08 has added since (Roundtrip/{Eth,Vlan,Sll,Macsec,Arp,Auth,RawExt,Udp,Icmp4,
   Icmp6,Exts4}.v: `X_read` = T::read over a byte list, `X_from_slice` = T::from_slice; proofs:
   Equiv/ReadValuesLink.v, Equiv/ReadValuesNet.v): the decoded STRUCT (every field), the unread
   rest and the error of `read` (kind and, for content errors, the code with the offending value)
   are those of `from_slice`, for every byte string (Ipv6Extensions and IpHeaders further below:
   whenever from_slice accepts; their rejections are compared at outcome level); a slice
   Len error is the reader's UnexpectedEof (eof_of_len).  bytes_ok where a length octet >= 256
   would send the reader model into a slice-index panic a real u8 cannot reach. *)
Theorem C06_read_value_ethernet2 : forall bs,
  Roundtrip.Eth.eth_read bs = eof_of_len (Roundtrip.Eth.eth_from_slice bs).
Proof. exact Equiv.ReadValuesLink.eth_read_eq_from_slice. Qed.
Print Assumptions C06_read_value_ethernet2.

Theorem C06_read_value_single_vlan : forall bs,
  Roundtrip.Vlan.vl_read bs = eof_of_len (Roundtrip.Vlan.vl_from_slice bs).
Proof. exact Equiv.ReadValuesLink.vl_read_eq_from_slice. Qed.
Print Assumptions C06_read_value_single_vlan.

(* LinuxSllHeader::read decodes through from_bytes, from_slice through the slice accessors *)
Theorem C06_read_value_linux_sll : forall bs,
  Roundtrip.Sll.sll_read bs = eof_of_len (Roundtrip.Sll.sll_from_slice bs).
Proof. exact Equiv.ReadValuesLink.sll_read_eq_from_slice. Qed.
Print Assumptions C06_read_value_linux_sll.

(* MacsecHeader::from_slice / ArpPacket::from_slice return the header only: the reader's rest
   is compared with the bytes behind header_len() / packet_len() *)
Theorem C06_read_value_macsec : forall bs,
  Roundtrip.Macsec.mac_read bs =
  eof_of_len (match Roundtrip.Macsec.mac_from_slice bs with
              | Roundtrip.Common.Ok h => Roundtrip.Common.Ok (h, drop (Roundtrip.Macsec.mac_header_len h) bs)
              | Roundtrip.Common.Err e => Roundtrip.Common.Err e
              end).
Proof. exact Equiv.ReadValuesLink.mac_read_eq_from_slice. Qed.
Print Assumptions C06_read_value_macsec.

Theorem C06_read_value_arp : forall bs, bytes_ok bs ->
  Roundtrip.Arp.arp_read bs =
  eof_of_len (match Roundtrip.Arp.arp_from_slice bs with
              | Roundtrip.Common.Ok h => Roundtrip.Common.Ok (h, drop (Roundtrip.Arp.arp_packet_len h) bs)
              | Roundtrip.Common.Err e => Roundtrip.Common.Err e
              end).
Proof. exact Equiv.ReadValuesLink.arp_read_eq_from_slice. Qed.
Print Assumptions C06_read_value_arp.

Theorem C06_read_value_udp : forall bs,
  Roundtrip.Udp.udp_read bs = eof_of_len (Roundtrip.Udp.udp_from_slice bs).
Proof. exact Equiv.ReadValuesNet.udp_read_eq_from_slice. Qed.
Print Assumptions C06_read_value_udp.

Theorem C06_read_value_ipv6_raw_ext : forall bs, bytes_ok bs ->
  Roundtrip.RawExt.rx_read bs = eof_of_len (Roundtrip.RawExt.rx_from_slice bs).
Proof. exact Equiv.ReadValuesNet.rx_read_eq_from_slice. Qed.
Print Assumptions C06_read_value_ipv6_raw_ext.

Theorem C06_read_value_ip_auth : forall bs, bytes_ok bs ->
  Roundtrip.Auth.ah_read bs = eof_of_len (Roundtrip.Auth.ah_from_slice bs).
Proof. exact Equiv.ReadValuesNet.ah_read_eq_from_slice. Qed.
Print Assumptions C06_read_value_ip_auth.

Theorem C06_read_value_ipv4_exts : forall start bs, bytes_ok bs ->
  Roundtrip.Exts4.x4_read bs start = eof_of_len (Roundtrip.Exts4.x4_from_slice start bs).
Proof. exact Equiv.ReadValuesNet.x4_read_eq_from_slice. Qed.
Print Assumptions C06_read_value_ipv4_exts.

(* ICMPv4: Icmpv4Slice::from_slice wants a timestamp / timestamp reply message (type 13 | 14,
   code 0) to END the slice (exactly 20 bytes); read takes 20 bytes and leaves the rest.  As the
   property says, this rule is compared on the slice that ends with the header: outside
   icmp4_ts_trailing (timestamp message followed by more bytes) plain equality; inside, read
   = from_slice of the first 20 bytes; the witness shows the exclusion is needed. *)
Theorem C06_read_value_icmpv4 : forall bs,
  (Equiv.ReadValuesNet.icmp4_ts_trailing bs = false ->
   Roundtrip.Icmp4.icmp4_read bs = eof_of_len (Roundtrip.Icmp4.icmp4_from_slice bs)) /\
  (Equiv.ReadValuesNet.icmp4_is_ts bs = true -> 20 <= len bs ->
   Roundtrip.Icmp4.icmp4_read bs =
   match Roundtrip.Icmp4.icmp4_from_slice (take 20 bs) with
   | Roundtrip.Common.Ok (h, _) => Roundtrip.Common.Ok (h, drop 20 bs)
   | Roundtrip.Common.Err e => Roundtrip.Common.Err e
   end).
Proof.
  exact (fun bs => conj (Equiv.ReadValuesNet.icmp4_read_eq_from_slice bs)
                        (Equiv.ReadValuesNet.icmp4_read_eq_from_slice_ts bs)).
Qed.
Print Assumptions C06_read_value_icmpv4.

Theorem C06_read_value_icmpv4_ts_refuted :
  exists bs, Equiv.ReadValuesNet.icmp4_ts_trailing bs = true /\
    Roundtrip.Icmp4.icmp4_from_slice bs = Roundtrip.Common.Err Roundtrip.Common.ELen /\
    exists h, Roundtrip.Icmp4.icmp4_read bs = Roundtrip.Common.Ok (h, [99]).
Proof.
  exists [13;0; 1;2; 0;7; 0;9; 0;0;0;1; 0;0;0;2; 0;0;0;3; 99].
  split; [vm_compute; reflexivity|]. split; [vm_compute; reflexivity|].
  eexists. vm_compute. reflexivity.
Qed.
Print Assumptions C06_read_value_icmpv4_ts_refuted.

(* ICMPv6: Icmpv6Slice::from_slice rejects slices longer than u32::MAX, read has no such limit
   (lengths are unbounded in the model): equality up to that length, and for every byte string
   read = from_slice of the first 8 bytes *)
Theorem C06_read_value_icmpv6 : forall bs,
  (len bs <= 4294967295 ->
   Roundtrip.Icmp6.icmp6_read bs = eof_of_len (Roundtrip.Icmp6.icmp6_from_slice bs)) /\
  Roundtrip.Icmp6.icmp6_read bs =
  eof_of_len (match Roundtrip.Icmp6.icmp6_from_slice (take 8 bs) with
              | Roundtrip.Common.Ok (h, _) => Roundtrip.Common.Ok (h, drop 8 bs)
              | Roundtrip.Common.Err e => Roundtrip.Common.Err e
              end).
Proof.
  exact (fun bs => conj (Equiv.ReadValuesNet.icmp6_read_eq_from_slice bs)
                        (Equiv.ReadValuesNet.icmp6_read_eq_from_slice_prefix bs)).
Qed.
Print Assumptions C06_read_value_icmpv6.

(* Ipv6Extensions (and Ipv4Extensions a second time, on C12's own model): C12's value-carrying
   reader model (ExtChain/ReadModel.v, reader = C16's) -- cited: whenever from_slice accepts,
   `read` over a Cursor returns the same struct and next header number, has consumed exactly the
   bytes from_slice consumed, and what is left to read is from_slice's rest
   (= C12_read_cursor; the rejecting side is C06_read_eq_slice above) *)
Theorem C06_read_value_ipv6_exts : forall first bs e n rest, bytes_ok bs ->
  ExtChain.Model.from_slice first bs = ExtChain.Model.Ok (e, n, rest) ->
  exists s', ExtChain.ReadModel.read6 false first (IoFault.Model.mk_rstate (ExtChain.ReadModel.cursor bs) None) =
               (IoFault.Model.QOk (e, n), IoFault.Model.mk_rstate s' None) /\
             IoFault.Spec.src_data s' = rest /\ IoFault.Spec.src_pulled s' + len rest = len bs.
Proof. exact ExtChain.ReadProofs.read6_cursor. Qed.
Print Assumptions C06_read_value_ipv6_exts.

Example C06_ex_read_value_more :
  (exists h, Roundtrip.Sll.sll_read [0;4; 0;1; 0;6; 1;2;3;4;5;6;0;0; 8;0; 7] = Roundtrip.Common.Ok (h, [7]) /\
             Roundtrip.Sll.sll_from_slice [0;4; 0;1; 0;6; 1;2;3;4;5;6;0;0; 8;0; 7] = Roundtrip.Common.Ok (h, [7]) /\
             Roundtrip.Sll.sll_packet_type h = 4) /\
  (exists h, Roundtrip.Udp.udp_read [0;1; 0;2; 0;9; 3;4; 5] = Roundtrip.Common.Ok (h, [5]) /\
             Roundtrip.Udp.udp_length h = 9) /\
  Roundtrip.Eth.eth_read [1;2;3] = Roundtrip.Common.Err Roundtrip.Common.EIo /\
  Roundtrip.Eth.eth_from_slice [1;2;3] = Roundtrip.Common.Err Roundtrip.Common.ELen /\
  (exists h, Roundtrip.Icmp4.icmp4_read [8;0; 1;2; 0;7; 0;9; 99] = Roundtrip.Common.Ok (h, [99]) /\
             Roundtrip.Icmp4.icmp4_from_slice [8;0; 1;2; 0;7; 0;9; 99] = Roundtrip.Common.Ok (h, [99]) /\
             Equiv.ReadValuesNet.icmp4_ts_trailing [8;0; 1;2; 0;7; 0;9; 99] = false).
Proof.
  split; [eexists; repeat split; vm_compute; reflexivity|].
  split; [eexists; repeat split; vm_compute; reflexivity|].
  split; [vm_compute; reflexivity|]. split; [vm_compute; reflexivity|].
  eexists; repeat split; vm_compute; reflexivity.
Qed.

(* non-vacuity of C06_lax_ip_boundary_slice_eq_struct: the hypotheses hold for ex_ip4_ah and both
   sides accept with the same stop error *)
Example C06_ex_lax_boundary :
  bytes_okb ex_ip4_ah = true /\ 20 <= s_len (0, ex_ip4_ah) /\
  match LaxIpHeaders.from_slice_lax (0, ex_ip4_ah), Parse.HdrLaxCut.LaxCut.ip_from_slice true (0, ex_ip4_ah) with
  | Ok (_, p, st), Ok (i, st') => p = LaxIpSlice.payload i /\ st = st' /\ st <> None
  | _, _ => False
  end.
Proof. vm_compute. repeat split; try reflexivity; discriminate. Qed.

(* ---- IpHeaders struct value (extend-c08c) ---- *)
(* The 17th type.  On the field-level model of IpHeaders built for property C08 (Roundtrip/IpHeaders.v:
   Ipv4Header / Ipv6Header / Ipv4Extensions of C08, Ipv6Extensions + read_limited of C12, LimitedReader of
   C16; executed against the crate on every `./check C08`, fields fs= / rd=): whenever
   IpHeaders::from_slice accepts a byte string -- then the slice holds the announced packet, from_slice
   checks it -- and the input is outside the known class F15 (IPv6 payload_length 0 followed by an
   extension header), IpHeaders::read over a Cursor on the same bytes returns the SAME struct value
   (every field of the IP header, every extension header) and the same ip number, and leaves the cursor
   exactly behind the headers (header_len bytes consumed).  The other excluded class of
   C06_read_eq_slice, "announced packet missing", cannot occur under the hypothesis (from_slice rejects
   such input: C06_read_announced_missing_refuted); inside F15 the two differ: C06_read_eq_slice_ip_headers_refuted
   and C08's IPHEADERS.C08_IpHeaders_read_zero_payload_len_refuted. *)
From EP Require Roundtrip.IpHeaders Equiv.ReadValuesIp.
Theorem C06_read_value_ip_headers : forall bs h p, bytes_ok bs -> F15 bs = false ->
  Roundtrip.IpHeaders.iph_from_slice bs = Roundtrip.Common.Ok (h, p) ->
  Roundtrip.IpHeaders.iph_read bs =
    Roundtrip.Common.Ok (h, Roundtrip.IpHeaders.ipp_ip_number p, drop (Roundtrip.IpHeaders.iph_header_len h) bs).
Proof.
  exact (fun bs h p OK NF H =>
           Equiv.ReadValuesIp.iph_read_eq_from_slice bs h p OK H
             (eq_trans (eq_sym (Equiv.ReadValuesIp.F15_is_zero_len_ext bs h p H)) NF)).
Qed.
Print Assumptions C06_read_value_ip_headers.

(* the same, per version-specific copy (dispatch = specific: C08's IPHEADERS.C08_IpHeaders_dispatch) *)
Theorem C06_read_value_ip_headers_v4 : forall bs h p, bytes_ok bs ->
  Roundtrip.IpHeaders.iph_from_ipv4_slice bs = Roundtrip.Common.Ok (h, p) ->
  Roundtrip.IpHeaders.iph_read bs =
    Roundtrip.Common.Ok (h, Roundtrip.IpHeaders.ipp_ip_number p, drop (Roundtrip.IpHeaders.iph_header_len h) bs).
Proof. exact Equiv.ReadValuesIp.iph_read_eq_from_slice_v4. Qed.
Print Assumptions C06_read_value_ip_headers_v4.

(* non-vacuity: IPv4 + AH + 4 payload bytes + 1 trailing byte, and IPv6 + hop-by-hop + fragment header;
   and the F15 witness of C06_read_eq_slice_ip_headers_refuted is accepted by from_slice, refused by read *)
Example C06_ex_read_value_ip_headers :
  let v4 := [69;0;0;40; 0;1;0;0; 64;51;0;0; 10;0;0;1; 10;0;0;2] ++ [17;2;0;0; 0;0;0;1; 0;0;0;2; 1;2;3;4]
            ++ [9;9;9;9] ++ [7] in
  let v6 := [96;0;0;0; 0;18; 0; 64] ++ repeat 1 16 ++ repeat 2 16 ++ [44;0;1;2;3;4;5;6] ++ [17;170;0;15;0;0;0;1]
            ++ [9;9] ++ [7;7] in
  (bytes_okb v4 = true /\ F15 v4 = false /\
   match Roundtrip.IpHeaders.iph_from_slice v4, Roundtrip.IpHeaders.iph_read v4 with
   | Roundtrip.Common.Ok (h, p), Roundtrip.Common.Ok (h', n, r) =>
       h' = h /\ n = 17 /\ Roundtrip.IpHeaders.iph_header_len h = 36 /\ r = [9;9;9;9;7]
   | _, _ => False
   end) /\
  (bytes_okb v6 = true /\ F15 v6 = false /\
   match Roundtrip.IpHeaders.iph_from_slice v6, Roundtrip.IpHeaders.iph_read v6 with
   | Roundtrip.Common.Ok (h, p), Roundtrip.Common.Ok (h', n, r) =>
       h' = h /\ n = 17 /\ Roundtrip.IpHeaders.iph_header_len h = 56 /\ r = [9;9;7;7]
   | _, _ => False
   end) /\
  (F15 f15_witness = true /\
   match Roundtrip.IpHeaders.iph_from_slice f15_witness, Roundtrip.IpHeaders.iph_read f15_witness with
   | Roundtrip.Common.Ok _, Roundtrip.Common.Err Roundtrip.Common.ELen => True
   | _, _ => False
   end).
Proof. vm_compute. repeat split; reflexivity. Qed.
(* ---- end extend-c08c ---- *)

(* ==== audit follow-up (round 1 audit, notes/audit1/C06.md) ================================== *)
From EP Require Equiv.ReadNeverBad Equiv.HdrMismatch Equiv.ReadValues6Total Equiv.ReadValuesTotal Roundtrip.DecodersTotal.

(* ---- group 3: no reader ever reaches an impossible outcome ------------------------------------ *)
(* For EVERY list of numbers and all 17 header types -- inside the three exclusion classes of
   C06_read_eq_slice too: T::read over a Cursor never ends in an outcome the model calls impossible
   (OBad: an Io error other than the end of the data, a usize underflow of the LimitedReader, an
   impossible index, exhausted fuel).  Until now this was only implied, through same_reason, outside
   the classes. *)
Theorem C06_read_never_bad : forall t bs b, read_outcome t bs <> OBad b.
Proof. exact Equiv.ReadNeverBad.read_never_bad. Qed.
Print Assumptions C06_read_never_bad.

(* inside cut_fixed, the IpHeaders conjunct missing from C06_read_cut_fixed_inside: IpHeaders::read has
   seen version nibble 4 and an IHL below 5 after ONE byte, from_slice wants 20 bytes first *)
Theorem C06_read_cut_fixed_inside_ip_headers : forall bs, cut_fixed HIpHeaders bs = true ->
  read_outcome HIpHeaders bs = OContent (KC CIhl) /\ slice_outcome HIpHeaders bs = OEof.
Proof. exact Equiv.ReadNeverBad.read_cut_fixed_ip_headers. Qed.
Print Assumptions C06_read_cut_fixed_inside_ip_headers.

(* what C06_read_eq_slice compares when one side rejects, spelled out.  A Len error that is not about
   the end of the data (OLen: the LimitedReader's, resp. a slice Len error whose len_source is not the
   slice) on either side is the same RECORD on the other: len, len_source, layer and
   layer_start_offset equal, required_len equal except for the raw extension header with fewer than 8
   bytes left (C06_read_required_len_differs).  A content rejection is compared by KIND (kind_of:
   the offending version nibble / IHL / data offset is dropped, the C16 read programs carry none; SLL
   kinds keep their value); every slice Len error whose source is the slice itself (or ArpAddrLengths)
   is the reader's UnexpectedEof -- the reader has no record to compare with. *)
Theorem C06_read_len_error_full : forall t bs, bytes_ok bs -> cut_fixed t bs = false ->
  (t = HIpHeaders -> announced_missing bs = false /\ F15 bs = false) ->
  forall rq l src ly off,
  (read_outcome t bs = OLen rq l src ly off ->
   exists rq', slice_outcome t bs = OLen rq' l src ly off /\
               (rq = rq' \/ (ly = L_IPV6EXT /\ l < 8 /\ l < rq /\ rq' = 8))) /\
  (slice_outcome t bs = OLen rq l src ly off ->
   exists rq', read_outcome t bs = OLen rq' l src ly off /\
               (rq' = rq \/ (ly = L_IPV6EXT /\ l < 8 /\ l < rq' /\ rq = 8))).
Proof. exact Equiv.ReadNeverBad.read_len_error_full. Qed.
Print Assumptions C06_read_len_error_full.

Theorem C06_read_rejection_iff : forall t bs, bytes_ok bs -> cut_fixed t bs = false ->
  (t = HIpHeaders -> announced_missing bs = false /\ F15 bs = false) ->
  (forall k, read_outcome t bs = OContent k <-> slice_outcome t bs = OContent k) /\
  (read_outcome t bs = OEof <-> slice_outcome t bs = OEof).
Proof. exact Equiv.ReadNeverBad.read_rejection_iff. Qed.
Print Assumptions C06_read_rejection_iff.

(* non-vacuity: an OLen on both sides (ex_v6 12 of C06_ex_read_all), an OBad-free answer inside each class *)
Example C06_ex_never_bad :
  read_outcome HIpHeaders (ex_v6 12) = OLen 8 4 LS_IPV6_PAYLOAD L_IPV6FRAG 48 /\
  cut_fixed HIpHeaders [64] = true /\ read_outcome HIpHeaders [64] = OContent (KC CIhl) /\
  F15 f15_witness = true /\ (exists e, read_outcome HIpHeaders f15_witness = e /\ forall b, e <> OBad b) /\
  read_outcome HTcp (repeat 0 12 ++ [64] ++ repeat 0 7) = OContent (KC CDataOffset) /\
  slice_outcome HTcp (repeat 0 12 ++ [64] ++ repeat 0 7) = OContent (KC CDataOffset).
Proof.
  split; [vm_compute; reflexivity|]. split; [reflexivity|]. split; [vm_compute; reflexivity|].
  split; [vm_compute; reflexivity|].
  split; [eexists; split; [reflexivity|]; intros b; apply Equiv.ReadNeverBad.read_never_bad|].
  split; vm_compute; reflexivity.
Qed.

(* ---- group 1, struct family: nibble and ether type disagree ----------------------------------- *)
(* C06_ethertype_mismatch is about SlicedPacket; the same four answers for PacketHeaders::from_ether_type
   (data shorter than the fixed header, or another version nibble).  With C06_headers_ethertype_eq_ip
   (matching nibble) every input of from_ether_type(IPv4 | IPv6) is covered.  The two lax families never
   reject here (C06_lax_ethertype_eq_ip / C06_laxheaders_ethertype_eq_ip: the error becomes the stop error). *)
Theorem C06_headers_ethertype_mismatch : forall bs,
  (len bs < 20 ->
   PacketHeaders.from_ether_type ET_IPV4 bs =
   Err (ELen (mkLenError 20 (len bs) LsSlice LyIpv4Header 0))) /\
  (len bs < 40 ->
   PacketHeaders.from_ether_type ET_IPV6 bs =
   Err (ELen (mkLenError 40 (len bs) LsSlice LyIpv6Header 0))) /\
  (forall b rest, bs = b :: rest -> 20 <= len bs -> N.shiftr b 4 <> 4 ->
   PacketHeaders.from_ether_type ET_IPV4 bs = Err (EContent (CeIpv4Version (N.shiftr b 4)))) /\
  (forall b rest, bs = b :: rest -> 40 <= len bs -> N.shiftr b 4 <> 6 ->
   PacketHeaders.from_ether_type ET_IPV6 bs = Err (EContent (CeIpv6Version (N.shiftr b 4)))).
Proof. exact Equiv.HdrMismatch.headers_ethertype_mismatch. Qed.
Print Assumptions C06_headers_ethertype_mismatch.

Example C06_ex_headers_mismatch :
  PacketHeaders.from_ether_type ET_IPV6 ex_ip = Err (ELen (mkLenError 40 32 LsSlice LyIpv6Header 0)) /\
  PacketHeaders.from_ether_type ET_IPV4 (ex_v6 24) = Err (EContent (CeIpv4Version 6)).
Proof. split; vm_compute; reflexivity. Qed.

(* ---- group 3, header values: the value theorems do not hold "for the wrong reason" ------------- *)
(* C06_read_value_* are equations between two field-level decoder models.  Those models have failure
   values of their own (Roundtrip.Common.EOOB / EPanic: unchecked read out of bounds, slice-index panic;
   BitFields.Model OOB / UBRange / Panic / Other) which the C08 / C15 theorems exclude for ACCEPTED inputs
   only.  For every byte string -- rejected ones included -- every from_slice / read model the value
   theorems mention returns a value or a proper error (Len / Content / Io): `proper`, Roundtrip/DecodersTotal.v
   (= C08_decoders_total_any / _bytes, stated there for all C08 types). *)
Theorem C06_read_value_models_total : forall bs, bytes_ok bs ->
  Roundtrip.DecodersTotal.proper (Roundtrip.Eth.eth_from_slice bs) /\ Roundtrip.DecodersTotal.proper (Roundtrip.Eth.eth_read bs) /\
  Roundtrip.DecodersTotal.proper (Roundtrip.Vlan.vl_from_slice bs) /\ Roundtrip.DecodersTotal.proper (Roundtrip.Vlan.vl_read bs) /\
  Roundtrip.DecodersTotal.proper (Roundtrip.Sll.sll_from_slice bs) /\ Roundtrip.DecodersTotal.proper (Roundtrip.Sll.sll_read bs) /\
  Roundtrip.DecodersTotal.proper (Roundtrip.Macsec.mac_from_slice bs) /\ Roundtrip.DecodersTotal.proper (Roundtrip.Macsec.mac_read bs) /\
  Roundtrip.DecodersTotal.proper (Roundtrip.Arp.arp_from_slice bs) /\ Roundtrip.DecodersTotal.proper (Roundtrip.Arp.arp_read bs) /\
  Roundtrip.DecodersTotal.proper (Roundtrip.Ipv4.ip4_from_slice bs) /\ Roundtrip.DecodersTotal.proper (Roundtrip.Ipv4.ip4_read bs) /\
  Roundtrip.DecodersTotal.proper (Roundtrip.Auth.ah_from_slice bs) /\ Roundtrip.DecodersTotal.proper (Roundtrip.Auth.ah_read bs) /\
  Roundtrip.DecodersTotal.proper (Roundtrip.RawExt.rx_from_slice bs) /\ Roundtrip.DecodersTotal.proper (Roundtrip.RawExt.rx_read bs) /\
  Roundtrip.DecodersTotal.proper (Roundtrip.Frag.frag_from_slice bs) /\ Roundtrip.DecodersTotal.proper (Roundtrip.Frag.frag_read bs) /\
  Roundtrip.DecodersTotal.proper (Roundtrip.Tcp.from_slice bs) /\ Roundtrip.DecodersTotal.proper (Roundtrip.Tcp.read bs) /\
  Roundtrip.DecodersTotal.proper (Roundtrip.Udp.udp_from_slice bs) /\ Roundtrip.DecodersTotal.proper (Roundtrip.Udp.udp_read bs) /\
  Roundtrip.DecodersTotal.proper (Roundtrip.Icmp4.icmp4_from_slice bs) /\ Roundtrip.DecodersTotal.proper (Roundtrip.Icmp4.icmp4_read bs) /\
  Roundtrip.DecodersTotal.proper (Roundtrip.Icmp6.icmp6_from_slice bs) /\ Roundtrip.DecodersTotal.proper (Roundtrip.Icmp6.icmp6_read bs) /\
  (forall start, Roundtrip.DecodersTotal.proper (Roundtrip.Exts4.x4_from_slice start bs) /\
                 Roundtrip.DecodersTotal.proper (Roundtrip.Exts4.x4_read bs start)) /\
  Roundtrip.DecodersTotal.proper (Roundtrip.IpHeaders.iph_from_slice bs) /\ Roundtrip.DecodersTotal.proper (Roundtrip.IpHeaders.iph_read bs) /\
  Equiv.ReadValues6Total.proper6 (BitFields.Model.Ipv6Header_from_slice bs) /\
  Equiv.ReadValues6Total.proper6 (BitFields.Model.Ipv6Header_read bs) /\
  (forall first, Roundtrip.DecodersTotal.x6_proper (ExtChain.Model.from_slice first bs)) /\
  (forall first, Roundtrip.DecodersTotal.qreg
     (fst (ExtChain.ReadModel.read6 false first (IoFault.Model.mk_rstate (ExtChain.ReadModel.cursor bs) None)))).
Proof. exact Equiv.ReadValuesTotal.read_value_models_total. Qed.
Print Assumptions C06_read_value_models_total.

(* both kinds of answers occur: proper errors on rejected inputs, and the model failure that bytes_ok
   excludes (a length "octet" of 300) *)
Example C06_ex_models_total :
  Roundtrip.Auth.ah_read ([17; 300] ++ repeat 0 10) = Roundtrip.Common.Err Roundtrip.Common.EPanic /\
  Roundtrip.Auth.ah_from_slice [17; 2; 0; 0; 0; 0; 0; 1; 0; 0; 0; 2; 1; 2; 3] = Roundtrip.Common.Err Roundtrip.Common.ELen /\
  Roundtrip.Auth.ah_read [17; 2; 0; 0; 0; 0; 0; 1; 0; 0; 0; 2; 1; 2; 3] = Roundtrip.Common.Err Roundtrip.Common.EIo /\
  Roundtrip.IpHeaders.iph_read [64] = Roundtrip.Common.Err (Roundtrip.Common.EContent 0).
Proof. repeat split; vm_compute; reflexivity. Qed.
(* ==== end audit follow-up ==== *)

(* ==== round3 v6lax begin ==== *)
(* `Ipv6Slice::from_slice_lax` (net/ipv6_slice.rs:139), the 13th copy of the IP boundary logic,
   so far outside every model.  Model: Parse/Ipv6SliceLax.v (module Ipv6SliceLax), proofs:
   Equiv/Ipv6SliceLaxProofs.v, Equiv/Ipv6SliceLaxTotal.v; tied to the crate by the `ipb` cases of this property's run
   (field `Ipv6SliceLax`).  The Rust function is NOT a forwarding alias: it is a third textual
   copy of `Ipv6Slice::from_slice` whose "more payload announced than present" branch takes the
   rest of the slice (LenSource::Slice) instead of returning Len(Ipv6Packet); behind the payload
   selection it runs the STRICT extension decoder.  `Ipv4Slice` has no `from_slice_lax` in the
   crate.
   Vocabulary (Equiv/Ipv6SliceLaxProofs.v):
     v6lax_of_lax6 r   what from_slice_lax answers, read off LaxIpv6Slice::from_slice's answer r;
     v6lax_of_lax_ip r the same for the dispatching LaxIpSlice::from_slice;
     v6lax_select      the payload selection of from_slice_lax;
     strict_v6_tail    (Parse/LaxProofs.v) the strict code behind the payload selection;
     strict_v6         (Parse/LaxAccess.v) a LaxIpv6Slice value without its `incomplete` flag. *)
From EP Require Import Parse.Repr Parse.Access Parse.AccessProofs Parse.LaxAccess Parse.LaxProofs Parse.LaxFacts
  Parse.Ipv6SliceLax Equiv.Ipv6SliceLaxProofs Equiv.Ipv6SliceLaxTotal.

(* pin the meaning of the two read-off functions *)
Check (eq_refl : v6lax_of_lax6 =
  fun r => match r with
           | Ok (lv, None) => Ok (strict_v6 lv)
           | Ok (_, Some (e, _)) => Err e
           | Err e => Err e
           | Bug b => Bug b
           end).
Check (eq_refl : v6lax_of_lax_ip =
  fun r => match r with
           | Ok (LIpV6 lv, None) => Ok (strict_v6 lv)
           | Ok (LIpV6 _, Some (e, _)) => Err e
           | Ok (LIpV4 _, _) => Bug SITE_UNWRAP
           | Err e => Err e
           | Bug b => Bug b
           end).

(* ---- C01 / C02 shape ---- every slice value (any pointer, any contents, any length): the run
   returns Ok or Err, never Bug (no failing unchecked read / from_raw_parts / usize subtraction /
   exhausted fuel); the header, the extension window and the payload stored in an Ok value are
   from_raw_parts-windows of the input (`ipv6_in`), the value satisfies the invariant of
   Ipv6Slice (`wf_ipv6`: 40-byte header, extension window that the iterator re-walks), and on
   octets every accessor / extension-iterator run is Bug-free with its windows inside the input *)
Theorem C06_ipv6_slice_lax_total : forall s,
  nobug (Ipv6SliceLax.from_slice_lax s) /\
  forall v, Ipv6SliceLax.from_slice_lax s = Ok v ->
    wf_ipv6 v /\ ipv6_in v s /\
    (bytes_ok (snd s) ->
     Forall nobug (Ipv6SliceA.accessors v) /\ Forall (win_ok s) (Ipv6SliceA.windows v)).
Proof. exact v6lax_total. Qed.
Print Assumptions C06_ipv6_slice_lax_total.

(* the answer depends on the bytes only: moving the pointer by k moves every stored slice by k
   (Err and Bug values EQUAL); a window of a larger buffer = a standalone copy of its bytes *)
Theorem C06_ipv6_slice_lax_location_independent : forall k s,
  Ipv6SliceLax.from_slice_lax (sh k s) = rmap (sh_v6 k) (Ipv6SliceLax.from_slice_lax s).
Proof. exact v6lax_sh. Qed.
Print Assumptions C06_ipv6_slice_lax_location_independent.

Theorem C06_ipv6_slice_lax_surroundings_independent : forall bs s pos lim,
  repr bs s pos lim ->
  Ipv6SliceLax.from_slice_lax s =
  rmap (sh_v6 pos) (Ipv6SliceLax.from_slice_lax (mk_slice (take (lim - pos) (drop pos bs)))).
Proof. exact v6lax_window. Qed.
Print Assumptions C06_ipv6_slice_lax_surroundings_independent.

(* ---- C06, the copies agree ---- against LaxIpv6Slice::from_slice: plain equality with the
   read-off function, EVERY slice value (any pointer, any contents, any length), no hypothesis.
   (Equiv/Ipv6SliceLaxTotal.v: the lax sibling never returns Bug on any slice value --
   C06_lax_ipv6_never_bug below; C01_lax_single_no_oob has that for windows of an octet buffer.) *)
Theorem C06_ipv6_slice_lax_eq_lax_ipv6 : forall s,
  Ipv6SliceLax.from_slice_lax s = v6lax_of_lax6 (LaxIpv6Slice.from_slice s).
Proof. exact v6lax_eq_lax6_all. Qed.
Print Assumptions C06_ipv6_slice_lax_eq_lax_ipv6.

Theorem C06_ipv6_slice_lax_ok_iff : forall s v,
  Ipv6SliceLax.from_slice_lax s = Ok v <->
  exists lv, LaxIpv6Slice.from_slice s = Ok (lv, None) /\ v = strict_v6 lv.
Proof. exact v6lax_ok_iff. Qed.
Print Assumptions C06_ipv6_slice_lax_ok_iff.

Theorem C06_lax_ipv6_never_bug : forall s nh,
  nobug (LaxIpv6Slice.from_slice s) /\ nobug (LaxIpv6Exts.from_slice_lax nh s).
Proof. exact lax6_never_bug. Qed.
Print Assumptions C06_lax_ipv6_never_bug.

(* ... against the IPv6 arm of the dispatching LaxIpSlice::from_slice (version nibble 6; the
   F11 class is IPv4-only), every pointer, every byte string, no hypothesis; any other nibble /
   fewer than 40 bytes: what the copy answers *)
Theorem C06_ipv6_slice_lax_eq_lax_ip_arm : forall o b rest, N.shiftr b 4 = 6 ->
  Ipv6SliceLax.from_slice_lax (o, b :: rest) = v6lax_of_lax_ip (LaxIpSlice.from_slice (o, b :: rest)).
Proof. exact v6lax_eq_lax_ip_arm_all. Qed.
Print Assumptions C06_ipv6_slice_lax_eq_lax_ip_arm.

Theorem C06_ipv6_slice_lax_mismatch : forall o b rest, N.shiftr b 4 <> 6 ->
  Ipv6SliceLax.from_slice_lax (o, b :: rest) =
  if s_len (o, b :: rest) <? 40
  then Err (ELen (mkLenError 40 (s_len (o, b :: rest)) LsSlice LyIpv6Header 0))
  else Err (EContent (CeIpv6Version (N.shiftr b 4))).
Proof. exact v6lax_mismatch. Qed.
Print Assumptions C06_ipv6_slice_lax_mismatch.

(* ---- C05 shape ---- (a) what Ipv6Slice::from_slice accepts is returned unchanged (len_source
   included); (b) a strict rejection is kept as the same Err, except the one rejection the
   function exists to drop -- Len(40 + payload_length, len, Slice, Ipv6Packet, 0) -- where the
   answer is the strict tail run on the whole rest of the slice with the slice as length source;
   the strict model never returns Bug *)
Theorem C06_ipv6_slice_lax_extends_strict : forall s,
  match Ipv6Slice.from_slice s with
  | Ok v => Ipv6SliceLax.from_slice_lax s = Ok v
  | Err e =>
      Ipv6SliceLax.from_slice_lax s = Err e \/
      exists h pl p,
        Ipv6HeaderSlice.from_slice s = Ok h /\ Ipv6HeaderSlice.payload_length h = Ok pl /\
        s_len s < 40 + pl /\
        e = ELen (mkLenError (40 + pl) (s_len s) LsSlice LyIpv6Packet 0) /\
        subU s 40 (s_len s - 40) = Ok p /\
        Ipv6SliceLax.from_slice_lax s = strict_v6_tail h p LsSlice
  | Bug _ => False
  end.
Proof. exact v6lax_vs_strict. Qed.
Print Assumptions C06_ipv6_slice_lax_extends_strict.

(* (c) Err exactly for an undecodable IPv6 header or a fault of the (strict) extension decoder
   on the selected payload *)
Theorem C06_ipv6_slice_lax_err_iff : forall s e,
  Ipv6SliceLax.from_slice_lax s = Err e <->
  Ipv6HeaderSlice.from_slice s = Err e \/
  exists h pl hp,
    Ipv6HeaderSlice.from_slice s = Ok h /\ Ipv6HeaderSlice.payload_length h = Ok pl /\
    v6lax_select s pl = Ok hp /\ strict_v6_tail h (fst hp) (snd hp) = Err e.
Proof. exact v6lax_err_iff. Qed.
Print Assumptions C06_ipv6_slice_lax_err_iff.

(* (d) through the lax sibling (C05_incomplete_iff): the sibling's `incomplete` flag is
   "payload_length promised more than the slice holds"; exactly then -- or when payload_length
   is 0 with data behind the header -- the slice is reported as length source, and when more was
   promised than present the payload handed out ends at the slice end *)
Theorem C06_ipv6_slice_lax_len_source : forall s v,
  Ipv6SliceLax.from_slice_lax s = Ok v ->
  exists lv h pl,
    LaxIpv6Slice.from_slice s = Ok (lv, None) /\ v = strict_v6 lv /\
    Ipv6HeaderSlice.from_slice s = Ok h /\ v6_header v = h /\
    Ipv6HeaderSlice.payload_length h = Ok pl /\
    lipp_incomplete (lv6_payload lv) = (s_len s <? 40 + pl) /\
    ipp_src (v6_payload v) =
      (if ((0 =? pl) && (40 <? s_len s)) || (s_len s <? 40 + pl)
       then LsSlice else LsIpv6HeaderPayloadLen) /\
    (s_len s < 40 + pl ->
     ipp_src (v6_payload v) = LsSlice /\ s_end (ipp_slice (v6_payload v)) = s_end s).
Proof. exact v6lax_len_source. Qed.
Print Assumptions C06_ipv6_slice_lax_len_source.

(* ---- non-vacuity ---- *)
(* A: payload_length 100 announced, 8 bytes present (UDP): strict rejects, the lax copy hands
      out the 8 bytes with the slice as length source (pointer 7: windows 7 later)
   B: payload_length 8, a destination-options header announcing a routing header that is not
      there: LaxIpv6Slice keeps the chain and a stop error, the lax copy returns that error
   C: complete packet with one extension header: strict = lax copy
   D: payload_length 0 with a fragment header and 3 bytes behind it: slice as length source *)
Example C06_ex_ipv6_slice_lax :
  bytes_ok v6lax_exA /\ bytes_ok v6lax_exB /\ bytes_ok v6lax_exC /\ bytes_ok v6lax_exD /\
  (* A *)
  v6lax_show (Ipv6SliceLax.from_slice_lax (7, v6lax_exA)) =
    Some ((7, 40), None, (47, 0), 17, false, LsSlice, (47, 8)) /\
  Ipv6Slice.from_slice (7, v6lax_exA) = Err (ELen (mkLenError 140 48 LsSlice LyIpv6Packet 0)) /\
  Ipv6SliceLax.from_slice_lax (7, v6lax_exA) = v6lax_of_lax6 (LaxIpv6Slice.from_slice (7, v6lax_exA)) /\
  Ipv6SliceLax.from_slice_lax (7, v6lax_exA) = v6lax_of_lax_ip (LaxIpSlice.from_slice (7, v6lax_exA)) /\
  (* B *)
  Ipv6SliceLax.from_slice_lax (0, v6lax_exB) =
    Err (ELen (mkLenError 8 0 LsIpv6HeaderPayloadLen LyIpv6ExtHeader 48)) /\
  (match LaxIpv6Slice.from_slice (0, v6lax_exB) with
   | Ok (lv, st) => Some (win_of (x6_slice (lv6_exts lv)), st)
   | _ => None
   end) = Some ((40, 8), Some (ELen (mkLenError 8 0 LsIpv6HeaderPayloadLen LyIpv6ExtHeader 48),
                               LyIpv6RouteHeader)) /\
  (* C *)
  v6lax_show (Ipv6SliceLax.from_slice_lax (0, v6lax_exC)) =
    Some ((0, 40), Some 60, (40, 8), 6, false, LsIpv6HeaderPayloadLen, (48, 8)) /\
  Ipv6SliceLax.from_slice_lax (0, v6lax_exC) = Ipv6Slice.from_slice (0, v6lax_exC) /\
  (* D, with every accessor / iterator run and the yielded header window *)
  v6lax_show (Ipv6SliceLax.from_slice_lax (7, v6lax_exD)) =
    Some ((7, 40), Some 44, (47, 8), 17, true, LsSlice, (55, 3)) /\
  (match Ipv6SliceLax.from_slice_lax (7, v6lax_exD) with
   | Ok v => (length (Ipv6SliceA.accessors v),
              forallb (fun r => match r with Ok _ => true | _ => false end) (Ipv6SliceA.accessors v),
              map (fun r => match r with Ok w => Some (win_of w) | _ => None end) (Ipv6SliceA.windows v))
   | _ => (0%nat, false, [])
   end) = (18%nat, true, [Some (47, 8)]) /\
  (* another version nibble *)
  Ipv6SliceLax.from_slice_lax (0, 69 :: repeat 0 47) = Err (EContent (CeIpv6Version 4)) /\
  Ipv6SliceLax.from_slice_lax (0, [96; 0; 0]) = Err (ELen (mkLenError 40 3 LsSlice LyIpv6Header 0)).
Proof.
  repeat (split; [first [apply bytes_okb_spec; vm_compute; reflexivity | vm_compute; reflexivity]|]).
  vm_compute; reflexivity.
Qed.
(* ==== round3 v6lax end ==== *)

(* ==== round3 c06rd begin ==== *)
(* ---- group 3: the two families of `read` transliterations are ONE reader ------------------------
   The outcome-level theorems (C06_read_eq_slice, C06_read_ok_consumes, ...) run the read PROGRAMS
   of IoFault/Model.v (C16) on a Cursor: `read_outcome`.  The value-level theorems
   (the C06_read_value theorems) are about the value readers of Roundtrip/*.v (C08; C12's read6 for
   Ipv6Extensions).  Equiv/ReadLink.v, Equiv/ReadLinkIp.v: for every byte string the outcome of the
   program IS the outcome of the value reader (`rt_read_outcome t bs`, per type `rt_outcome`):
     Ok (h, rest)      <-> OOk (len bs - len rest)      cursor position = bytes consumed
     Err EIo           <-> OEof
     Err (EContent c)  <-> OContent k, k the kind of code c (the code carries the offending value)
     Err ELen          <-> a LimitedReader length error (IpHeaders / Ipv6Extensions::read_limited;
                           the value reader keeps no record: compared after `erase_len`)
     Err EOOB | EPanic <-> OBad, which C06_read_never_bad excludes
   Plain equality for the 15 types whose reader has no LimitedReader and no loop; all 17 after
   erase_len.  bytes_ok: a length "octet" >= 256 sends a value reader into a model failure. *)
From EP Require Equiv.ReadLink Equiv.ReadLinkIp Equiv.ReadValueErr.

Theorem C06_read_link : forall t bs, bytes_ok bs ->
  Equiv.ReadLink.erase_len (read_outcome t bs) = Equiv.ReadLinkIp.rt_read_outcome t bs.
Proof. exact Equiv.ReadLinkIp.read_link. Qed.
Print Assumptions C06_read_link.

Theorem C06_read_link_exact : forall t bs, bytes_ok bs -> Equiv.ReadLinkIp.plain_reader t = true ->
  read_outcome t bs = Equiv.ReadLinkIp.rt_read_outcome t bs.
Proof. exact Equiv.ReadLinkIp.read_link_exact. Qed.
Print Assumptions C06_read_link_exact.

(* non-vacuity: Ok with the cursor position (TCP with 4 option bytes + 1 byte behind), a content
   rejection whose code carries the value (IPv4 IHL 3), end of data, and the LimitedReader error of
   IpHeaders::read (C06_ex_read_all's ex_v6 12), all on both sides *)
Example C06_ex_read_link :
  let tcp := repeat 0 12 ++ [96] ++ repeat 0 11 ++ [7] in
  (bytes_okb tcp = true /\ read_outcome HTcp tcp = OOk 24 /\ Equiv.ReadLinkIp.rt_read_outcome HTcp tcp = OOk 24 /\
   exists h, Roundtrip.Tcp.read tcp = Roundtrip.Common.Ok (h, [7])) /\
  (read_outcome HIpv4 ([67] ++ repeat 0 19) = OContent (KC CIhl) /\
   Equiv.ReadLinkIp.rt_read_outcome HIpv4 ([67] ++ repeat 0 19) = OContent (KC CIhl) /\
   Roundtrip.Ipv4.ip4_read ([67] ++ repeat 0 19) = Roundtrip.Common.Err (Roundtrip.Common.EContent 3)) /\
  (read_outcome HArp [0;1;8;0;6;4;0;1;9] = OEof /\ Equiv.ReadLinkIp.rt_read_outcome HArp [0;1;8;0;6;4;0;1;9] = OEof) /\
  (bytes_okb (ex_v6 12) = true /\
   read_outcome HIpHeaders (ex_v6 12) = OLen 8 4 LS_IPV6_PAYLOAD L_IPV6FRAG 48 /\
   Equiv.ReadLinkIp.rt_read_outcome HIpHeaders (ex_v6 12) = OLen 0 0 0 0 0 /\
   Roundtrip.IpHeaders.iph_read (ex_v6 12) = Roundtrip.Common.Err Roundtrip.Common.ELen) /\
  (read_outcome HIpHeaders (ex_v6 24) = OOk 56 /\ Equiv.ReadLinkIp.rt_read_outcome HIpHeaders (ex_v6 24) = OOk 56).
Proof.
  cbv zeta. split; [split; [vm_compute; reflexivity|]; split; [vm_compute; reflexivity|];
                    split; [vm_compute; reflexivity|]; eexists; vm_compute; reflexivity|].
  repeat split; vm_compute; reflexivity.
Qed.

(* ---- the offending VALUE of content rejections: Ipv6Header and IpHeaders ---------------------------
   Ipv6Header on the C08 model Roundtrip/Ipv6.v (struct, unread rest, `EContent version_number`),
   for every byte string outside cut_fixed (inside, the two differ: C06_read_cut_fixed_inside);
   replaces the `40 <= len` hypothesis of C06_read_value_ipv6 and adds rest + version number.
   The same weakening for Ipv4Header (C06_read_value_ipv4 had `20 <= len`). *)
Theorem C06_read_value_ipv6_full : forall bs, cut_fixed HIpv6 bs = false ->
  Roundtrip.Ipv6.ip6_read bs = eof_of_len (Roundtrip.Ipv6.ip6_from_slice bs).
Proof. exact Equiv.ReadValueErr.ip6_read_eq_from_slice_cut. Qed.
Print Assumptions C06_read_value_ipv6_full.

Theorem C06_read_value_ipv4_full : forall bs, bytes_ok bs -> cut_fixed HIpv4 bs = false ->
  Roundtrip.Ipv4.ip4_read bs = eof_of_len (Roundtrip.Ipv4.ip4_from_slice bs).
Proof. exact Equiv.ReadValueErr.ip4_read_eq_from_slice_cut. Qed.
Print Assumptions C06_read_value_ipv4_full.

(* with the link: the read PROGRAM of C06_read_eq_slice against the value-level from_slice *)
Theorem C06_read_program_eq_value_slice_ipv6 : forall bs, cut_fixed HIpv6 bs = false ->
  read_outcome HIpv6 bs =
  Equiv.ReadLink.rt_outcome Equiv.ReadLink.ipv6_kind bs snd (eof_of_len (Roundtrip.Ipv6.ip6_from_slice bs)).
Proof. exact Equiv.ReadValueErr.read_program_eq_value_slice_ipv6. Qed.
Print Assumptions C06_read_program_eq_value_slice_ipv6.

Theorem C06_read_program_eq_value_slice_ipv4 : forall bs, bytes_ok bs -> cut_fixed HIpv4 bs = false ->
  read_outcome HIpv4 bs =
  Equiv.ReadLink.rt_outcome (Equiv.ReadLink.ipv4_kind bs) bs snd (eof_of_len (Roundtrip.Ipv4.ip4_from_slice bs)).
Proof. exact Equiv.ReadValueErr.read_program_eq_value_slice_ipv4. Qed.
Print Assumptions C06_read_program_eq_value_slice_ipv4.

Example C06_ex_read_value_ipv6_full :
  let v4 := [69] ++ repeat 0 40 in
  let short6 := [96; 0; 0] in
  let ok6 := [105;18;52;86;0;8;17;64] ++ repeat 1 16 ++ repeat 2 16 ++ [9] in
  (cut_fixed HIpv6 v4 = false /\
   Roundtrip.Ipv6.ip6_read v4 = Roundtrip.Common.Err (Roundtrip.Common.EContent 4) /\
   Roundtrip.Ipv6.ip6_from_slice v4 = Roundtrip.Common.Err (Roundtrip.Common.EContent 4)) /\
  (cut_fixed HIpv6 short6 = false /\
   Roundtrip.Ipv6.ip6_read short6 = Roundtrip.Common.Err Roundtrip.Common.EIo /\
   Roundtrip.Ipv6.ip6_from_slice short6 = Roundtrip.Common.Err Roundtrip.Common.ELen) /\
  (cut_fixed HIpv6 ok6 = false /\
   exists h, Roundtrip.Ipv6.ip6_read ok6 = Roundtrip.Common.Ok (h, [9]) /\
             Roundtrip.Ipv6.ip6_from_slice ok6 = Roundtrip.Common.Ok (h, [9]) /\
             Roundtrip.Ipv6.i6_traffic_class h = 145).
Proof.
  cbv zeta. split; [repeat split; vm_compute; reflexivity|]. split; [repeat split; vm_compute; reflexivity|].
  split; [vm_compute; reflexivity|]. eexists. repeat split; vm_compute; reflexivity.
Qed.

(* IpHeaders (model Roundtrip/IpHeaders.v): the two rejections that carry a value --
   err::ip::HeaderError::UnsupportedIpVersion{version_number} (code 1000 + version) and
   Ipv4HeaderLengthSmallerThanHeader{ihl} (code ihl) -- are decided by the first byte on both
   sides with the same value; from_slice wants 20 bytes before it looks at the IHL (the class
   cut_fixed).  The other content rejections of IpHeaders (hop-by-hop header not at the start,
   zero AH payload length) carry no value: C06_read_rejection_iff through C06_read_link. *)
Theorem C06_read_value_ip_headers_rejections : forall b0 r,
  (N.shiftr b0 4 <> 4 -> N.shiftr b0 4 <> 6 ->
   Roundtrip.IpHeaders.iph_read (b0 :: r) =
     Roundtrip.Common.Err (Roundtrip.IpHeaders.C_UNSUPPORTED_VERSION (N.shiftr b0 4)) /\
   Roundtrip.IpHeaders.iph_from_slice (b0 :: r) =
     Roundtrip.Common.Err (Roundtrip.IpHeaders.C_UNSUPPORTED_VERSION (N.shiftr b0 4))) /\
  (N.shiftr b0 4 = 4 -> N.land b0 15 < 5 ->
   Roundtrip.IpHeaders.iph_read (b0 :: r) = Roundtrip.Common.Err (Roundtrip.Common.EContent (N.land b0 15)) /\
   Roundtrip.IpHeaders.iph_from_slice (b0 :: r) =
     if len (b0 :: r) <? 20 then Roundtrip.Common.Err Roundtrip.Common.ELen
     else Roundtrip.Common.Err (Roundtrip.Common.EContent (N.land b0 15))).
Proof. exact Equiv.ReadValueErr.iph_value_rejections. Qed.
Print Assumptions C06_read_value_ip_headers_rejections.

Theorem C06_read_value_ip_headers_rejections_eq : forall bs, cut_fixed HIpHeaders bs = false ->
  forall b0 r, bs = b0 :: r ->
  N.shiftr b0 4 <> 6 -> (N.shiftr b0 4 = 4 -> N.land b0 15 < 5) ->
  exists c, Roundtrip.IpHeaders.iph_read bs = Roundtrip.Common.Err (Roundtrip.Common.EContent c) /\
            Roundtrip.IpHeaders.iph_from_slice bs = Roundtrip.Common.Err (Roundtrip.Common.EContent c) /\
            c = if N.shiftr b0 4 =? 4 then N.land b0 15 else 1000 + N.shiftr b0 4.
Proof. exact Equiv.ReadValueErr.iph_value_rejections_eq. Qed.
Print Assumptions C06_read_value_ip_headers_rejections_eq.

Example C06_ex_read_value_ip_headers_rejections :
  (cut_fixed HIpHeaders ([67] ++ repeat 0 19) = false /\
   Roundtrip.IpHeaders.iph_read ([67] ++ repeat 0 19) = Roundtrip.Common.Err (Roundtrip.Common.EContent 3) /\
   Roundtrip.IpHeaders.iph_from_slice ([67] ++ repeat 0 19) = Roundtrip.Common.Err (Roundtrip.Common.EContent 3)) /\
  (cut_fixed HIpHeaders [112; 1] = false /\
   Roundtrip.IpHeaders.iph_read [112; 1] = Roundtrip.Common.Err (Roundtrip.Common.EContent 1007) /\
   Roundtrip.IpHeaders.iph_from_slice [112; 1] = Roundtrip.Common.Err (Roundtrip.Common.EContent 1007)) /\
  (cut_fixed HIpHeaders [67; 1] = true /\
   Roundtrip.IpHeaders.iph_read [67; 1] = Roundtrip.Common.Err (Roundtrip.Common.EContent 3) /\
   Roundtrip.IpHeaders.iph_from_slice [67; 1] = Roundtrip.Common.Err Roundtrip.Common.ELen).
Proof. repeat split; vm_compute; reflexivity. Qed.

(* ... and these two are the ONLY value-carrying rejections: with version nibble 4 and IHL >= 5, or
   nibble 6, a content rejection of either side has code 0 (zero AH payload length) or 1
   (hop-by-hop header not at the start) -- no value to compare *)
Theorem C06_read_value_ip_headers_no_other_value : forall b0 r c,
  (N.shiftr b0 4 = 4 /\ 5 <= N.land b0 15) \/ N.shiftr b0 4 = 6 ->
  Roundtrip.IpHeaders.iph_read (b0 :: r) = Roundtrip.Common.Err (Roundtrip.Common.EContent c) \/
  Roundtrip.IpHeaders.iph_from_slice (b0 :: r) = Roundtrip.Common.Err (Roundtrip.Common.EContent c) ->
  c = 0 \/ c = 1.
Proof. exact Equiv.ReadValueErr.iph_other_rejections_no_value. Qed.
Print Assumptions C06_read_value_ip_headers_no_other_value.

Example C06_ex_read_value_ip_headers_no_other_value :
  let ah0 := [69;0;0;32; 0;0;0;0; 64;51;0;0; 10;0;0;1; 10;0;0;2] ++ [17;0;0;0; 0;0;0;1; 0;0;0;2] in
  N.shiftr 69 4 = 4 /\ 5 <= N.land 69 15 /\
  Roundtrip.IpHeaders.iph_read ah0 = Roundtrip.Common.Err (Roundtrip.Common.EContent 0) /\
  Roundtrip.IpHeaders.iph_from_slice ah0 = Roundtrip.Common.Err (Roundtrip.Common.EContent 0).
Proof. cbv zeta. repeat split; vm_compute; try reflexivity; discriminate. Qed.
(* ==== round3 c06rd end ==== *)
