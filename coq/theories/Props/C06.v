(* Props/C06.v -- property C06: equivalent entry points give equivalent
   answers.  Statements only; proofs are `exact`.

   Models : Parse/Slices.v, Parse/Cursor.v (strict slicing), Parse/LaxSlices.v,
            Parse/HdrModel.v (the twelve IP boundary copies live in these three),
            IoFault/Model.v (every `read` as a read program), Equiv/ModelRead.v
   Canonicalisation (Equiv/Model.v): `shift_vres k` = every window and every
   layer_start_offset moved by k, link layer set aside; `canon_vres` / `same_answer`
   = link layer aside, err::ipv4/ipv6::HeaderError read as the err::ip::HeaderError
   naming the same fact; `F11` = the decidable known class (input ends inside the
   fixed part of the IPv4 header announced by its first byte, or is empty). *)
From EP Require Import Base.Bytes Parse.Types Parse.Slices Parse.Cursor Parse.View
  Parse.HdrModel Parse.LaxSlices Equiv.Model Equiv.ModelRead Equiv.Proofs Equiv.ShiftProofs
  Equiv.ReadProofs.

Local Open Scope N_scope.

(* ---- group 1: whole-packet starting points (strict slicing family) ---------- *)
(* Ethernet II header present: slicing from it = slicing the bytes behind it from
   its ether type, every window and error offset 14 bytes later, link layer aside.
   Equality is exact (len_source included). *)
Theorem C06_ethernet_eq_ethertype : forall bs a b,
  rd bs 12 = Some a -> rd bs 13 = Some b ->
  nolink (vres_of (SlicedPacket.from_ethernet bs)) =
  shift_vres 14 (nolink (vres_of (SlicedPacket.from_ether_type (be16 a b) (drop 14 bs)))).
Proof. exact ethernet_eq_ethertype. Qed.
Print Assumptions C06_ethernet_eq_ethertype.

(* ... and when the 14 bytes are not there *)
Theorem C06_ethernet_short : forall bs, len bs < 14 ->
  SlicedPacket.from_ethernet bs = Err (ELen (mkLenError 14 (len bs) LsSlice LyEthernet2Header 0)).
Proof. exact ethernet_short. Qed.
Print Assumptions C06_ethernet_short.

(* ether type IPv4 / IPv6 with the matching version nibble = starting at IP *)
Theorem C06_ethertype_eq_ip : forall b rest, F11 (b :: rest) = false ->
  (N.shiftr b 4 = 4 ->
   canon_vres (vres_of (SlicedPacket.from_ether_type ET_IPV4 (b :: rest))) =
   canon_vres (vres_of (SlicedPacket.from_ip (b :: rest)))) /\
  (N.shiftr b 4 = 6 ->
   canon_vres (vres_of (SlicedPacket.from_ether_type ET_IPV6 (b :: rest))) =
   canon_vres (vres_of (SlicedPacket.from_ip (b :: rest)))).
Proof. exact ethertype_eq_ip. Qed.
Print Assumptions C06_ethertype_eq_ip.

Theorem C06_ethertype_eq_ip_refuted :
  exists bs, F11 bs = true /\
    canon_vres (vres_of (SlicedPacket.from_ether_type ET_IPV4 bs)) <>
    canon_vres (vres_of (SlicedPacket.from_ip bs)).
Proof. exact ethertype_eq_ip_refuted. Qed.
Print Assumptions C06_ethertype_eq_ip_refuted.

(* the nibble contradicts the ether type (or the fixed header is cut short):
   the ether type's decoder rejects, precisely like this *)
Theorem C06_ethertype_mismatch : forall bs,
  (len bs < 20 ->
   SlicedPacket.from_ether_type ET_IPV4 bs =
   Err (ELen (mkLenError 20 (len bs) LsSlice LyIpv4Header 0))) /\
  (len bs < 40 ->
   SlicedPacket.from_ether_type ET_IPV6 bs =
   Err (ELen (mkLenError 40 (len bs) LsSlice LyIpv6Header 0))) /\
  (forall b rest, bs = b :: rest -> 20 <= len bs -> N.shiftr b 4 <> 4 ->
   SlicedPacket.from_ether_type ET_IPV4 bs = Err (EContent (CeIpv4Version (N.shiftr b 4)))) /\
  (forall b rest, bs = b :: rest -> 40 <= len bs -> N.shiftr b 4 <> 6 ->
   SlicedPacket.from_ether_type ET_IPV6 bs = Err (EContent (CeIpv6Version (N.shiftr b 4)))).
Proof. exact ethertype_mismatch. Qed.
Print Assumptions C06_ethertype_mismatch.

(* ---- group 2: the IP boundary copies ---------------------------------------- *)
(* the version-dispatching decoder = the version-specific one its first nibble
   selects; any pointer o, any non-empty byte string outside F11 *)
Theorem C06_dispatch_eq_specific : forall o b rest, F11 (b :: rest) = false ->
  same_answer (IpSlice.from_slice (o, b :: rest)) (ip_slice_specific (o, b :: rest) b).
Proof. exact ip_slice_dispatch. Qed.
Print Assumptions C06_dispatch_eq_specific.

Theorem C06_dispatch_eq_specific_refuted :
  exists bs, F11 bs = true /\
    match bs with
    | b :: _ => ~ same_answer (IpSlice.from_slice (0, bs)) (ip_slice_specific (0, bs) b)
    | [] => False
    end.
Proof. exact ip_slice_dispatch_refuted. Qed.
Print Assumptions C06_dispatch_eq_specific_refuted.

Theorem C06_dispatch_eq_specific_lax : forall o b rest, F11 (b :: rest) = false ->
  same_answer (LaxIpSlice.from_slice (o, b :: rest)) (lax_ip_specific (o, b :: rest) b).
Proof. exact lax_ip_dispatch. Qed.
Print Assumptions C06_dispatch_eq_specific_lax.

(* the struct family checks the 20 bytes before the IHL in both copies: no exclusion *)
Theorem C06_dispatch_eq_specific_headers : forall o b rest,
  same_answer (IpHeaders.from_slice (o, b :: rest)) (ip_headers_specific (o, b :: rest) b).
Proof. exact ip_headers_dispatch. Qed.
Print Assumptions C06_dispatch_eq_specific_headers.

(* ---- group 3: read vs from_slice -------------------------------------------- *)
(* C06_read_eq_slice_partial: proved for 4 of the 17 header types (those whose
   reader is a single read_exact); full statement:
     forall t bs, (t = HIpHeaders -> F15 bs = false) ->
       read_outcome t bs = slice_outcome t bs
   (missing: the 13 types with a length-dependent second read; they are covered
   by the correspondence run -- model outcome = implementation outcome on every
   case -- and by the implementation-side oracle). *)
Theorem C06_read_eq_slice_partial : forall bs,
  read_outcome HEthernet2 bs = slice_outcome HEthernet2 bs /\
  read_outcome HSingleVlan bs = slice_outcome HSingleVlan bs /\
  read_outcome HUdp bs = slice_outcome HUdp bs /\
  read_outcome HIpv6Frag bs = slice_outcome HIpv6Frag bs.
Proof.
  exact (fun bs => conj (read_eq_slice_ethernet2 bs) (conj (read_eq_slice_single_vlan bs)
          (conj (read_eq_slice_udp bs) (read_eq_slice_ipv6_frag bs)))).
Qed.
Print Assumptions C06_read_eq_slice_partial.

(* known class F15: IpHeaders::read takes an IPv6 payload length of 0 literally *)
Theorem C06_read_eq_slice_ip_headers_refuted :
  exists bs, F15 bs = true /\ read_outcome HIpHeaders bs <> slice_outcome HIpHeaders bs.
Proof. exact read_eq_slice_ip_headers_refuted. Qed.
Print Assumptions C06_read_eq_slice_ip_headers_refuted.

(* ---- non-vacuity -------------------------------------------------------------- *)
(* Ethernet / VLAN / IPv4 / UDP: accepted, and the theorem's two sides are this *)
Definition ex_pkt : bytes :=
  [1;2;3;4;5;6; 7;8;9;10;11;12; 129;0;  0;5; 8;0;
   69;0;0;32; 0;0;0;0; 64;17;0;0; 1;2;3;4; 5;6;7;8;
   0;1;0;2;0;12;0;0; 170;187;204;221].
Example C06_ex_eth :
  rd ex_pkt 12 = Some 129 /\ rd ex_pkt 13 = Some 0 /\
  nolink (vres_of (SlicedPacket.from_ethernet ex_pkt)) =
    VOk (mkVPacket None [VVlan (14, 36)]
           (Some (VIpv4 (18, 20) None (mkVIp 17 false LsIpv4HeaderTotalLen (38, 12))))
           (Some (VUdp (38, 12)))) /\
  vres_of (SlicedPacket.from_ether_type (be16 129 0) (drop 14 ex_pkt)) =
    VOk (mkVPacket (Some (VEtherPayload (mkVEp 33024 LsSlice (0, 36)))) [VVlan (0, 36)]
           (Some (VIpv4 (4, 20) None (mkVIp 17 false LsIpv4HeaderTotalLen (24, 12))))
           (Some (VUdp (24, 12)))).
Proof. repeat split; vm_compute; reflexivity. Qed.
(* cut inside the UDP header: the error offsets differ by exactly 14 *)
Example C06_ex_eth_cut :
  vres_of (SlicedPacket.from_ethernet (firstn 41 ex_pkt)) =
    VErr (ELen (mkLenError 32 23 LsSlice LyIpv4Packet 18)) /\
  vres_of (SlicedPacket.from_ether_type 33024 (drop 14 (firstn 41 ex_pkt))) =
    VErr (ELen (mkLenError 32 23 LsSlice LyIpv4Packet 4)).
Proof. split; vm_compute; reflexivity. Qed.
(* an IPv4/UDP packet outside F11 with IHL 6: all three doors accept *)
Definition ex_ip : bytes :=
  [70;0;0;32; 0;0;0;0; 64;17;0;0; 1;2;3;4; 5;6;7;8; 1;1;1;1; 0;1;0;2;0;8;0;0].
Example C06_ex_ip :
  F11 ex_ip = false /\
  (exists v, IpSlice.from_slice (0, ex_ip) = Ok (IpV4 v) /\ Ipv4Slice.from_slice (0, ex_ip) = Ok v) /\
  (exists p, vres_of (SlicedPacket.from_ip ex_ip) = VOk p /\ v_transport p = Some (VUdp (24, 8))).
Proof.
  split; [reflexivity|]. split; eexists; split; vm_compute; reflexivity.
Qed.
Example C06_ex_read :
  read_outcome HEthernet2 ex_pkt = OOk 14 /\ read_outcome HEthernet2 (firstn 9 ex_pkt) = OEof /\
  read_outcome HIpHeaders ex_ip = OOk 24 /\ slice_outcome HIpHeaders ex_ip = OOk 24 /\
  F15 ex_ip = false.
Proof. repeat split; vm_compute; reflexivity. Qed.
