(* Props/C07.v -- property C07 (strict entry points): every reported length error
   names the layer that failed, its true offset in the caller's buffer, the bytes
   really available and a length really required, as determined by the reference
   decoder over absolute positions (Parse/WireSpec.v); a length source other than
   "slice" is the source of the limit that the reference decoder tracks.  Content
   errors carry the value present in the bytes.  The known finding F7 (MACsec
   short length / ARP address sizes name the field that produced required_len) is
   excluded explicitly and witnessed below. *)
From EP Require Parse.ConstsOk.
From EP Require Import Base.Bytes Parse.Types Parse.Slices Parse.Cursor Parse.View
  Parse.WireSpec Parse.StrictProofs.

Theorem C07_from_ethernet : forall bs, bytes_ok bs ->
  c07_truthful (vres_of (SlicedPacket.from_ethernet bs)) (wire_ethernet bs).
Proof. exact (fun bs H => res_rel_c07 _ _ (from_ethernet_rel bs H)). Qed.
Print Assumptions C07_from_ethernet.

Theorem C07_from_linux_sll : forall bs, bytes_ok bs ->
  c07_truthful (vres_of (SlicedPacket.from_linux_sll bs)) (wire_linux_sll bs).
Proof. exact (fun bs H => res_rel_c07 _ _ (from_linux_sll_rel bs H)). Qed.
Print Assumptions C07_from_linux_sll.

Theorem C07_from_ether_type : forall bs et, bytes_ok bs ->
  c07_truthful (vres_of (SlicedPacket.from_ether_type et bs)) (wire_ether_type bs et).
Proof. exact (fun bs et H => res_rel_c07 _ _ (from_ether_type_rel bs et H)). Qed.
Print Assumptions C07_from_ether_type.

Theorem C07_from_ip : forall bs, bytes_ok bs ->
  c07_truthful (vres_of (SlicedPacket.from_ip bs)) (wire_from_ip bs).
Proof. exact (fun bs H => res_rel_c07 _ _ (from_ip_rel bs H)). Qed.
Print Assumptions C07_from_ip.

(* non-vacuity: a fault behind Ethernet + MACsec (short length 4, two trailing
   bytes) + VLAN: the IPv4 header at offset 26 is cut short by the MACsec short
   length; the crate reports "slice" as length source, the reference decoder the
   short length - both are admitted by the property *)
Definition ex_macsec : bytes :=
  [1;2;3;4;5;6; 7;8;9;10;11;12; 136;229;
   0;8; 0;0;0;1; 129;0;  0;5;8;0;  69;0;  0;0].
Example C07_ex :
  vres_of (SlicedPacket.from_ethernet ex_macsec) =
    VErr (ELen (mkLenError 20 2 LsSlice LyIpv4Header 26))
  /\ wire_ethernet ex_macsec = VErr (ELen (mkLenError 20 2 LsMacsecShortLength LyIpv4Header 26)).
Proof. split; vm_compute; reflexivity. Qed.

(* the known finding F7, as a machine-checked witness: an ARP packet whose address
   sizes exceed the data is reported with len_source ArpAddrLengths although the
   8 available bytes are bounded by the slice *)
Example C07_F7_refuted :
  exists bs e, bytes_ok bs /\
    vres_of (SlicedPacket.from_ether_type 2054 bs) = VErr (ELen e) /\ F7 e /\
    exists se, wire_ether_type bs 2054 = VErr (ELen se) /\
               le_src e <> le_src se /\ le_src e <> LsSlice.
Proof.
  exists [0;1;8;0;6;4;0;1], (mkLenError 28 8 LsArpAddrLengths LyArp 0).
  split; [apply bytes_okb_spec; vm_compute; reflexivity|].
  split; [vm_compute; reflexivity|].
  split; [left; split; reflexivity|].
  exists (mkLenError 28 8 LsSlice LyArp 0).
  split; [vm_compute; reflexivity|]. split; discriminate.
Qed.

(* ---- the struct decoders (PacketHeaders) ------------------------------------
   Whenever PacketHeaders rejects, its error record is the one strict slicing
   reports for the same bytes (C04_headers_eq_slices: same verdict and record as
   slicing cut at a refilled extension header; a rejecting cut variant is plain
   slicing), hence truthful in the same sense.  For the bare-IP entry the class
   F11 (first nibble 4 and fewer than 20 bytes: sibling decoders describe the
   cut-short first header differently, each truthfully) is excluded. *)
From EP Require Import Parse.HdrModel Parse.HdrProofs3 Parse.HdrErrTruth.

Theorem C07_headers_errors_are_slicing_errors : forall bs et, bytes_ok bs ->
  (forall e, PacketHeaders.from_ethernet_slice bs = Err e -> SlicedPacket.from_ethernet bs = Err e) /\
  (forall e, PacketHeaders.from_ether_type et bs = Err e -> SlicedPacket.from_ether_type et bs = Err e) /\
  (F11 bs = false ->
   forall e, PacketHeaders.from_ip_slice bs = Err e -> SlicedPacket.from_ip bs = Err e).
Proof. exact headers_errors_are_slicing_errors. Qed.
Print Assumptions C07_headers_errors_are_slicing_errors.

Theorem C07_headers : forall bs et, bytes_ok bs ->
  (forall e, PacketHeaders.from_ethernet_slice bs = Err e -> c07_truthful (VErr e) (wire_ethernet bs)) /\
  (forall e, PacketHeaders.from_ether_type et bs = Err e -> c07_truthful (VErr e) (wire_ether_type bs et)) /\
  (F11 bs = false ->
   forall e, PacketHeaders.from_ip_slice bs = Err e -> c07_truthful (VErr e) (wire_from_ip bs)).
Proof. exact headers_errors_truthful. Qed.
Print Assumptions C07_headers.

(* non-vacuity: the F9 situation (MACsec short length 4 + trailing bytes, VLAN cut
   short behind it) through the struct decoder: offset 8, not 10 *)
Example C07_headers_ex :
  PacketHeaders.from_ether_type 35045 [0;4;0;0;0;1; 129;0; 1;2; 170;187;204;221]
  = Err (ELen (mkLenError 4 2 LsSlice LyVlanHeader 8)).
Proof. vm_compute; reflexivity. Qed.

(* ==== audit round 1 follow-up ==========================================================
   (1) The clause "required_len > len for missing data and required_len < len for oversized
   data": proved ABOUT the reference decoder for every byte string and all four entry points
   (Parse/WireSpecFacts.v), then transferred to the model of SlicedPacket (through the
   refinement theorems behind C07_from_X) and of PacketHeaders (through C07_headers; inside
   the class F11 the record of from_ip_slice is computed directly, so no exclusion is left).
   `len_direction e`: required > len, except for the two rules of the reference decoder that
   reject OVERSIZED data: an ICMPv4 timestamp / timestamp reply message that is not exactly
   20 bytes long (required 20; len is anything >= 8 other than 20, so both directions occur),
   and an ICMPv6 message longer than 2^32-1 bytes (required 2^32-1 < len).
   (2) `c07_truthful m s` is `True` when m is `VBug`; the C07_from_X_strong theorems conjoin
   it with "the model result is never Bug". *)
From EP Require Import Parse.WireSpecFacts Parse.StrictFacts Parse.HdrErrFacts.

(* the predicate, spelled out *)
Theorem C07_len_direction_means : forall e,
  len_direction e <->
  match le_layer e with
  | LyIcmpv4Timestamp | LyIcmpv4TimestampReply =>
      le_required e = 20 /\ 8 <= le_len e /\ le_len e <> 20
  | LyIcmpv6 =>
      (le_required e = 8 /\ le_len e < 8) \/
      (le_required e = 4294967295 /\ 4294967295 < le_len e)
  | _ => le_len e < le_required e
  end.
Proof. exact (fun e => iff_refl _). Qed.
Print Assumptions C07_len_direction_means.

(* ... in the words of the property: missing data (required > len) or oversized data
   (required < len), the latter only for the two oversized rules; never required = len *)
Theorem C07_len_direction_clause : forall e, len_direction e ->
  (le_len e < le_required e \/
   (le_required e < le_len e /\
    (((le_layer e = LyIcmpv4Timestamp \/ le_layer e = LyIcmpv4TimestampReply) /\ le_required e = 20) \/
     (le_layer e = LyIcmpv6 /\ le_required e = 4294967295)))) /\
  le_required e <> le_len e.
Proof. exact len_direction_meaning. Qed.
Print Assumptions C07_len_direction_clause.

(* the reference decoder, all byte strings, all four entry points *)
Theorem C07_len_error_direction_reference : forall bs et e,
  (wire_ethernet bs = VErr (ELen e) -> len_direction e) /\
  (wire_linux_sll bs = VErr (ELen e) -> len_direction e) /\
  (wire_ether_type bs et = VErr (ELen e) -> len_direction e) /\
  (wire_from_ip bs = VErr (ELen e) -> len_direction e).
Proof. exact wire_len_direction. Qed.
Print Assumptions C07_len_error_direction_reference.

(* the model of SlicedPacket *)
Theorem C07_len_error_direction_from_ethernet : forall bs e, bytes_ok bs ->
  SlicedPacket.from_ethernet bs = Err (ELen e) -> len_direction e.
Proof. exact (fun bs e H => proj1 (strict_len_direction bs 0 H e)). Qed.
Print Assumptions C07_len_error_direction_from_ethernet.

Theorem C07_len_error_direction_from_linux_sll : forall bs e, bytes_ok bs ->
  SlicedPacket.from_linux_sll bs = Err (ELen e) -> len_direction e.
Proof. exact (fun bs e H => proj1 (proj2 (strict_len_direction bs 0 H e))). Qed.
Print Assumptions C07_len_error_direction_from_linux_sll.

Theorem C07_len_error_direction_from_ether_type : forall bs et e, bytes_ok bs ->
  SlicedPacket.from_ether_type et bs = Err (ELen e) -> len_direction e.
Proof. exact (fun bs et e H => proj1 (proj2 (proj2 (strict_len_direction bs et H e)))). Qed.
Print Assumptions C07_len_error_direction_from_ether_type.

Theorem C07_len_error_direction_from_ip : forall bs e, bytes_ok bs ->
  SlicedPacket.from_ip bs = Err (ELen e) -> len_direction e.
Proof. exact (fun bs e H => proj2 (proj2 (proj2 (strict_len_direction bs 0 H e)))). Qed.
Print Assumptions C07_len_error_direction_from_ip.

(* the model of PacketHeaders (no F11 exclusion) *)
Theorem C07_len_error_direction_headers : forall bs et, bytes_ok bs ->
  (forall e, PacketHeaders.from_ethernet_slice bs = Err (ELen e) -> len_direction e) /\
  (forall e, PacketHeaders.from_ether_type et bs = Err (ELen e) -> len_direction e) /\
  (forall e, PacketHeaders.from_ip_slice bs = Err (ELen e) -> len_direction e).
Proof. exact headers_len_direction. Qed.
Print Assumptions C07_len_error_direction_headers.

(* truthful AND never Bug (the VBug arm of c07_truthful is True) *)
Theorem C07_from_ethernet_strong : forall bs, bytes_ok bs ->
  c07_truthful (vres_of (SlicedPacket.from_ethernet bs)) (wire_ethernet bs) /\
  forall b, vres_of (SlicedPacket.from_ethernet bs) <> VBug b.
Proof. exact (fun bs H => proj1 (strict_truthful_strong bs 0 H)). Qed.
Print Assumptions C07_from_ethernet_strong.

Theorem C07_from_linux_sll_strong : forall bs, bytes_ok bs ->
  c07_truthful (vres_of (SlicedPacket.from_linux_sll bs)) (wire_linux_sll bs) /\
  forall b, vres_of (SlicedPacket.from_linux_sll bs) <> VBug b.
Proof. exact (fun bs H => proj1 (proj2 (strict_truthful_strong bs 0 H))). Qed.
Print Assumptions C07_from_linux_sll_strong.

Theorem C07_from_ether_type_strong : forall bs et, bytes_ok bs ->
  c07_truthful (vres_of (SlicedPacket.from_ether_type et bs)) (wire_ether_type bs et) /\
  forall b, vres_of (SlicedPacket.from_ether_type et bs) <> VBug b.
Proof. exact (fun bs et H => proj1 (proj2 (proj2 (strict_truthful_strong bs et H)))). Qed.
Print Assumptions C07_from_ether_type_strong.

Theorem C07_from_ip_strong : forall bs, bytes_ok bs ->
  c07_truthful (vres_of (SlicedPacket.from_ip bs)) (wire_from_ip bs) /\
  forall b, vres_of (SlicedPacket.from_ip bs) <> VBug b.
Proof. exact (fun bs H => proj2 (proj2 (proj2 (strict_truthful_strong bs 0 H)))). Qed.
Print Assumptions C07_from_ip_strong.

(* non-vacuity: IPv4 carrying an ICMP timestamp request of 24 bytes (oversized, required 20
   < len 24) and of 12 bytes (missing, required 20 > len 12); model = reference decoder *)
Definition ex_ts (n : nat) : bytes :=
  [69;0;0;20 + N.of_nat n; 0;0;0;0; 64;1;0;0; 1;2;3;4; 5;6;7;8] ++ [13;0;0;0] ++ repeat 0 (n - 4).
Example C07_direction_ex :
  bytes_ok (ex_ts 24) /\
  SlicedPacket.from_ip (ex_ts 24) =
    Err (ELen (mkLenError 20 24 LsIpv4HeaderTotalLen LyIcmpv4Timestamp 20)) /\
  wire_from_ip (ex_ts 24) =
    VErr (ELen (mkLenError 20 24 LsIpv4HeaderTotalLen LyIcmpv4Timestamp 20)) /\
  SlicedPacket.from_ip (ex_ts 12) =
    Err (ELen (mkLenError 20 12 LsIpv4HeaderTotalLen LyIcmpv4Timestamp 20)) /\
  PacketHeaders.from_ip_slice (ex_ts 24) =
    Err (ELen (mkLenError 20 24 LsIpv4HeaderTotalLen LyIcmpv4Timestamp 20)) /\
  classify (ex_ts 24) (ELen (mkLenError 20 24 LsIpv4HeaderTotalLen LyIcmpv4Timestamp 20))
    = Some EcIcmpv4TimestampSize.
Proof.
  split; [apply bytes_okb_spec; vm_compute; reflexivity|].
  repeat split; vm_compute; reflexivity.
Qed.
