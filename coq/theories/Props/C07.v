(* Props/C07.v -- property C07 (strict entry points): every reported length error
   names the layer that failed, its true offset in the caller's buffer, the bytes
   really available and a length really required, as determined by the reference
   decoder over absolute positions (Parse/WireSpec.v); a length source other than
   "slice" is the source of the limit that the reference decoder tracks.  Content
   errors carry the value present in the bytes.  The known finding F7 (MACsec
   short length / ARP address sizes name the field that produced required_len) is
   excluded explicitly and witnessed below. *)
From EP Require Parse.ConstsOk.
From EP Require Import Base.Bytes Parse.Types Parse.Slices Parse.Cursor Parse.View
  Parse.WireSpec Parse.StrictProofs.

Theorem C07_from_ethernet : forall bs, bytes_ok bs ->
  c07_truthful (vres_of (SlicedPacket.from_ethernet bs)) (wire_ethernet bs).
Proof. exact (fun bs H => res_rel_c07 _ _ (from_ethernet_rel bs H)). Qed.
Print Assumptions C07_from_ethernet.

Theorem C07_from_linux_sll : forall bs, bytes_ok bs ->
  c07_truthful (vres_of (SlicedPacket.from_linux_sll bs)) (wire_linux_sll bs).
Proof. exact (fun bs H => res_rel_c07 _ _ (from_linux_sll_rel bs H)). Qed.
Print Assumptions C07_from_linux_sll.

Theorem C07_from_ether_type : forall bs et, bytes_ok bs ->
  c07_truthful (vres_of (SlicedPacket.from_ether_type et bs)) (wire_ether_type bs et).
Proof. exact (fun bs et H => res_rel_c07 _ _ (from_ether_type_rel bs et H)). Qed.
Print Assumptions C07_from_ether_type.

Theorem C07_from_ip : forall bs, bytes_ok bs ->
  c07_truthful (vres_of (SlicedPacket.from_ip bs)) (wire_from_ip bs).
Proof. exact (fun bs H => res_rel_c07 _ _ (from_ip_rel bs H)). Qed.
Print Assumptions C07_from_ip.

(* non-vacuity: a fault behind Ethernet + MACsec (short length 4, two trailing
   bytes) + VLAN: the IPv4 header at offset 26 is cut short by the MACsec short
   length; the crate reports "slice" as length source, the reference decoder the
   short length - both are admitted by the property *)
Definition ex_macsec : bytes :=
  [1;2;3;4;5;6; 7;8;9;10;11;12; 136;229;
   0;8; 0;0;0;1; 129;0;  0;5;8;0;  69;0;  0;0].
Example C07_ex :
  vres_of (SlicedPacket.from_ethernet ex_macsec) =
    VErr (ELen (mkLenError 20 2 LsSlice LyIpv4Header 26))
  /\ wire_ethernet ex_macsec = VErr (ELen (mkLenError 20 2 LsMacsecShortLength LyIpv4Header 26)).
Proof. split; vm_compute; reflexivity. Qed.

(* the known finding F7, as a machine-checked witness: an ARP packet whose address
   sizes exceed the data is reported with len_source ArpAddrLengths although the
   8 available bytes are bounded by the slice *)
Example C07_F7_refuted :
  exists bs e, bytes_ok bs /\
    vres_of (SlicedPacket.from_ether_type 2054 bs) = VErr (ELen e) /\ F7 e /\
    exists se, wire_ether_type bs 2054 = VErr (ELen se) /\
               le_src e <> le_src se /\ le_src e <> LsSlice.
Proof.
  exists [0;1;8;0;6;4;0;1], (mkLenError 28 8 LsArpAddrLengths LyArp 0).
  split; [apply bytes_okb_spec; vm_compute; reflexivity|].
  split; [vm_compute; reflexivity|].
  split; [left; split; reflexivity|].
  exists (mkLenError 28 8 LsSlice LyArp 0).
  split; [vm_compute; reflexivity|]. split; discriminate.
Qed.

(* ---- the struct decoders (PacketHeaders) ------------------------------------
   Whenever PacketHeaders rejects, its error record is the one strict slicing
   reports for the same bytes (C04_headers_eq_slices: same verdict and record as
   slicing cut at a refilled extension header; a rejecting cut variant is plain
   slicing), hence truthful in the same sense.  For the bare-IP entry the class
   F11 (first nibble 4 and fewer than 20 bytes: sibling decoders describe the
   cut-short first header differently, each truthfully) is excluded. *)
From EP Require Import Parse.HdrModel Parse.HdrProofs3 Parse.HdrErrTruth.

Theorem C07_headers_errors_are_slicing_errors : forall bs et, bytes_ok bs ->
  (forall e, PacketHeaders.from_ethernet_slice bs = Err e -> SlicedPacket.from_ethernet bs = Err e) /\
  (forall e, PacketHeaders.from_ether_type et bs = Err e -> SlicedPacket.from_ether_type et bs = Err e) /\
  (F11 bs = false ->
   forall e, PacketHeaders.from_ip_slice bs = Err e -> SlicedPacket.from_ip bs = Err e).
Proof. exact headers_errors_are_slicing_errors. Qed.
Print Assumptions C07_headers_errors_are_slicing_errors.

Theorem C07_headers : forall bs et, bytes_ok bs ->
  (forall e, PacketHeaders.from_ethernet_slice bs = Err e -> c07_truthful (VErr e) (wire_ethernet bs)) /\
  (forall e, PacketHeaders.from_ether_type et bs = Err e -> c07_truthful (VErr e) (wire_ether_type bs et)) /\
  (F11 bs = false ->
   forall e, PacketHeaders.from_ip_slice bs = Err e -> c07_truthful (VErr e) (wire_from_ip bs)).
Proof. exact headers_errors_truthful. Qed.
Print Assumptions C07_headers.

(* non-vacuity: the F9 situation (MACsec short length 4 + trailing bytes, VLAN cut
   short behind it) through the struct decoder: offset 8, not 10 *)
Example C07_headers_ex :
  PacketHeaders.from_ether_type 35045 [0;4;0;0;0;1; 129;0; 1;2; 170;187;204;221]
  = Err (ELen (mkLenError 4 2 LsSlice LyVlanHeader 8)).
Proof. vm_compute; reflexivity. Qed.

(* ==== audit round 1 follow-up ==========================================================
   (1) The clause "required_len > len for missing data and required_len < len for oversized
   data": proved ABOUT the reference decoder for every byte string and all four entry points
   (Parse/WireSpecFacts.v), then transferred to the model of SlicedPacket (through the
   refinement theorems behind C07_from_X) and of PacketHeaders (through C07_headers; inside
   the class F11 the record of from_ip_slice is computed directly, so no exclusion is left).
   `len_direction e`: required > len, except for the two rules of the reference decoder that
   reject OVERSIZED data: an ICMPv4 timestamp / timestamp reply message that is not exactly
   20 bytes long (required 20; len is anything >= 8 other than 20, so both directions occur),
   and an ICMPv6 message longer than 2^32-1 bytes (required 2^32-1 < len).
   (2) `c07_truthful m s` is `True` when m is `VBug`; the C07_from_X_strong theorems conjoin
   it with "the model result is never Bug". *)
From EP Require Import Parse.WireSpecFacts Parse.StrictFacts Parse.HdrErrFacts.

(* the predicate, spelled out *)
Theorem C07_len_direction_means : forall e,
  len_direction e <->
  match le_layer e with
  | LyIcmpv4Timestamp | LyIcmpv4TimestampReply =>
      le_required e = 20 /\ 8 <= le_len e /\ le_len e <> 20
  | LyIcmpv6 =>
      (le_required e = 8 /\ le_len e < 8) \/
      (le_required e = 4294967295 /\ 4294967295 < le_len e)
  | _ => le_len e < le_required e
  end.
Proof. exact (fun e => iff_refl _). Qed.
Print Assumptions C07_len_direction_means.

(* ... in the words of the property: missing data (required > len) or oversized data
   (required < len), the latter only for the two oversized rules; never required = len *)
Theorem C07_len_direction_clause : forall e, len_direction e ->
  (le_len e < le_required e \/
   (le_required e < le_len e /\
    (((le_layer e = LyIcmpv4Timestamp \/ le_layer e = LyIcmpv4TimestampReply) /\ le_required e = 20) \/
     (le_layer e = LyIcmpv6 /\ le_required e = 4294967295)))) /\
  le_required e <> le_len e.
Proof. exact len_direction_meaning. Qed.
Print Assumptions C07_len_direction_clause.

(* the reference decoder, all byte strings, all four entry points *)
Theorem C07_len_error_direction_reference : forall bs et e,
  (wire_ethernet bs = VErr (ELen e) -> len_direction e) /\
  (wire_linux_sll bs = VErr (ELen e) -> len_direction e) /\
  (wire_ether_type bs et = VErr (ELen e) -> len_direction e) /\
  (wire_from_ip bs = VErr (ELen e) -> len_direction e).
Proof. exact wire_len_direction. Qed.
Print Assumptions C07_len_error_direction_reference.

(* the model of SlicedPacket *)
Theorem C07_len_error_direction_from_ethernet : forall bs e, bytes_ok bs ->
  SlicedPacket.from_ethernet bs = Err (ELen e) -> len_direction e.
Proof. exact (fun bs e H => proj1 (strict_len_direction bs 0 H e)). Qed.
Print Assumptions C07_len_error_direction_from_ethernet.

Theorem C07_len_error_direction_from_linux_sll : forall bs e, bytes_ok bs ->
  SlicedPacket.from_linux_sll bs = Err (ELen e) -> len_direction e.
Proof. exact (fun bs e H => proj1 (proj2 (strict_len_direction bs 0 H e))). Qed.
Print Assumptions C07_len_error_direction_from_linux_sll.

Theorem C07_len_error_direction_from_ether_type : forall bs et e, bytes_ok bs ->
  SlicedPacket.from_ether_type et bs = Err (ELen e) -> len_direction e.
Proof. exact (fun bs et e H => proj1 (proj2 (proj2 (strict_len_direction bs et H e)))). Qed.
Print Assumptions C07_len_error_direction_from_ether_type.

Theorem C07_len_error_direction_from_ip : forall bs e, bytes_ok bs ->
  SlicedPacket.from_ip bs = Err (ELen e) -> len_direction e.
Proof. exact (fun bs e H => proj2 (proj2 (proj2 (strict_len_direction bs 0 H e)))). Qed.
Print Assumptions C07_len_error_direction_from_ip.

(* the model of PacketHeaders (no F11 exclusion) *)
Theorem C07_len_error_direction_headers : forall bs et, bytes_ok bs ->
  (forall e, PacketHeaders.from_ethernet_slice bs = Err (ELen e) -> len_direction e) /\
  (forall e, PacketHeaders.from_ether_type et bs = Err (ELen e) -> len_direction e) /\
  (forall e, PacketHeaders.from_ip_slice bs = Err (ELen e) -> len_direction e).
Proof. exact headers_len_direction. Qed.
Print Assumptions C07_len_error_direction_headers.

(* truthful AND never Bug (the VBug arm of c07_truthful is True) *)
Theorem C07_from_ethernet_strong : forall bs, bytes_ok bs ->
  c07_truthful (vres_of (SlicedPacket.from_ethernet bs)) (wire_ethernet bs) /\
  forall b, vres_of (SlicedPacket.from_ethernet bs) <> VBug b.
Proof. exact (fun bs H => proj1 (strict_truthful_strong bs 0 H)). Qed.
Print Assumptions C07_from_ethernet_strong.

Theorem C07_from_linux_sll_strong : forall bs, bytes_ok bs ->
  c07_truthful (vres_of (SlicedPacket.from_linux_sll bs)) (wire_linux_sll bs) /\
  forall b, vres_of (SlicedPacket.from_linux_sll bs) <> VBug b.
Proof. exact (fun bs H => proj1 (proj2 (strict_truthful_strong bs 0 H))). Qed.
Print Assumptions C07_from_linux_sll_strong.

Theorem C07_from_ether_type_strong : forall bs et, bytes_ok bs ->
  c07_truthful (vres_of (SlicedPacket.from_ether_type et bs)) (wire_ether_type bs et) /\
  forall b, vres_of (SlicedPacket.from_ether_type et bs) <> VBug b.
Proof. exact (fun bs et H => proj1 (proj2 (proj2 (strict_truthful_strong bs et H)))). Qed.
Print Assumptions C07_from_ether_type_strong.

Theorem C07_from_ip_strong : forall bs, bytes_ok bs ->
  c07_truthful (vres_of (SlicedPacket.from_ip bs)) (wire_from_ip bs) /\
  forall b, vres_of (SlicedPacket.from_ip bs) <> VBug b.
Proof. exact (fun bs H => proj2 (proj2 (proj2 (strict_truthful_strong bs 0 H)))). Qed.
Print Assumptions C07_from_ip_strong.

(* non-vacuity: IPv4 carrying an ICMP timestamp request of 24 bytes (oversized, required 20
   < len 24) and of 12 bytes (missing, required 20 > len 12); model = reference decoder *)
Definition ex_ts (n : nat) : bytes :=
  [69;0;0;20 + N.of_nat n; 0;0;0;0; 64;1;0;0; 1;2;3;4; 5;6;7;8] ++ [13;0;0;0] ++ repeat 0 (n - 4).
Example C07_direction_ex :
  bytes_ok (ex_ts 24) /\
  SlicedPacket.from_ip (ex_ts 24) =
    Err (ELen (mkLenError 20 24 LsIpv4HeaderTotalLen LyIcmpv4Timestamp 20)) /\
  wire_from_ip (ex_ts 24) =
    VErr (ELen (mkLenError 20 24 LsIpv4HeaderTotalLen LyIcmpv4Timestamp 20)) /\
  SlicedPacket.from_ip (ex_ts 12) =
    Err (ELen (mkLenError 20 12 LsIpv4HeaderTotalLen LyIcmpv4Timestamp 20)) /\
  PacketHeaders.from_ip_slice (ex_ts 24) =
    Err (ELen (mkLenError 20 24 LsIpv4HeaderTotalLen LyIcmpv4Timestamp 20)) /\
  classify (ex_ts 24) (ELen (mkLenError 20 24 LsIpv4HeaderTotalLen LyIcmpv4Timestamp 20))
    = Some EcIcmpv4TimestampSize.
Proof.
  split; [apply bytes_okb_spec; vm_compute; reflexivity|].
  repeat split; vm_compute; reflexivity.
Qed.

(* ==== round3 c07sl begin ==== *)
(* ---- audit round 3, top-12 item 11 ---------------------------------------------------------------
   (1) The SINGLE-LAYER decoders called directly.  `repr bs s pos lim`: the slice s handed to the
   decoder is the window [pos, lim) of a buffer bs (Parse/Repr.v; the whole buffer is `repr_whole bs :
   repr bs (mk_slice bs) 0 (len bs)`).  A decoder called on a sub-slice reports offsets relative to
   that slice; `shift_err e pos` moves the record into the coordinates of bs (`shift_err e 0 = e`,
   C07_single_layer_whole states the pos = 0 instance without the shift).  The reference is the
   per-layer function of Parse/WireSpec.v started with (length source Slice, position pos, limit lim):
   layer, offset (0 relative to the slice), available = lim - pos = the slice length (or the value of
   the limiting field for "UDP length < 8"), required, length source.  Proofs: the per-layer
   refinement lemmas of Parse/StrictProofs.v with a cursor that has decoded nothing.
   (2) C07_headers_F11_record, (3) C07_lax_stop_truthful / C07_headers_lax_stop_truthful /
   C07_lax_stop_after_ip_fallback: the delegated families, restated from the C05 theorems.
   Definitions and lemmas: Parse/SingleLayerTruth.v, Parse/DelegatedTruth.v (new files). *)
From EP Require Import Parse.Repr Parse.SingleLayerTruth.

Check (eq_refl : shift_err = fun e pos =>
  match e with ELen l => ELen (le_add_offset l pos) | EContent c => EContent c end).

(* transport decoders, VLAN tag, IPv6 extension chain, IP authentication header: the COMPLETE record
   of the reference function incl. the length source (no relaxation); ARP: complete up to the length
   source of its second check, which is the known class F7 *)
Theorem C07_single_layer_exact : forall bs s pos lim p et nh, bytes_ok bs -> repr bs s pos lim ->
  (forall e, UdpSlice.from_slice s = Err e -> wire_udp bs p LsSlice pos lim = VErr (shift_err e pos)) /\
  (forall e, TcpSlice.from_slice s = Err e -> wire_tcp bs p LsSlice pos lim = VErr (shift_err e pos)) /\
  (forall e, Icmpv4Slice.from_slice s = Err e -> wire_icmp4 bs p LsSlice pos lim = VErr (shift_err e pos)) /\
  (forall e, Icmpv6Slice.from_slice s = Err e -> wire_icmp6 p LsSlice pos lim = VErr (shift_err e pos)) /\
  (is_vlan et = true -> forall e, SingleVlanSlice.from_slice s = Err e ->
     wire_ether bs 3 p et LsSlice pos lim = VErr (shift_err e pos)) /\
  (forall e, Ipv6ExtensionsSlice.from_slice nh s = Err e ->
     wire_exts bs (S (N.to_nat (lim - pos))) LsSlice pos lim nh = ChErr (VErr (shift_err e pos))) /\
  (forall e, IpAuthHeaderSlice.from_slice s = Err e ->
     wire_ah bs CeAuthZeroPayloadLen LsSlice pos lim = AhErr (VErr (shift_err e pos))) /\
  (forall e, ArpPacketSlice.from_slice s = Err e ->
     exists l, e = ELen l /\
       wire_arp bs p LsSlice pos lim = VErr (ELen (le_set_src (le_add_offset l pos) LsSlice)) /\
       (le_src l = LsSlice \/ (F7 l /\ le_required l = 8 + B bs (pos + 4) * 2 + B bs (pos + 5) * 2))).
Proof. exact single_layer_exact. Qed.
Print Assumptions C07_single_layer_exact.

(* MACsec, ARP, Ipv4Slice, Ipv6Slice, IpSlice: the C07 relation to the reference function started at
   the same place (which goes on behind the layer: a rejection of the single-layer decoder is the
   rejection of the reference decoder) *)
Theorem C07_single_layer_truthful : forall bs s pos lim, bytes_ok bs -> repr bs s pos lim ->
  (forall e, Macsec.from_slice s = Err e ->
     c07_truthful (VErr (shift_err e pos)) (wire_ether bs 3 empty_packet 35045 LsSlice pos lim)) /\
  (forall e, ArpPacketSlice.from_slice s = Err e ->
     c07_truthful (VErr (shift_err e pos)) (wire_arp bs empty_packet LsSlice pos lim)) /\
  (forall e, Ipv4Slice.from_slice s = Err e ->
     c07_truthful (VErr (shift_err e pos)) (wire_ipv4 bs empty_packet LsSlice pos lim)) /\
  (forall e, Ipv6Slice.from_slice s = Err e ->
     c07_truthful (VErr (shift_err e pos)) (wire_ipv6 bs empty_packet LsSlice pos lim)) /\
  (forall e, IpSlice.from_slice s = Err e ->
     c07_truthful (VErr (shift_err e pos)) (wire_ip bs empty_packet LsSlice pos lim)).
Proof. exact single_layer_truthful. Qed.
Print Assumptions C07_single_layer_truthful.

(* the decoder is handed the whole buffer: offset 0, limit = slice length, source Slice; the reported
   record itself is the truthful one (twelve decoders) *)
Theorem C07_single_layer_whole : forall bs, bytes_ok bs ->
  (forall e, Ethernet2Slice.from_slice_without_fcs (mk_slice bs) = Err e ->
     c07_truthful (VErr e) (wire_ethernet bs)) /\
  (forall e, LinuxSll.from_slice (mk_slice bs) = Err e -> c07_truthful (VErr e) (wire_linux_sll bs)) /\
  (forall e, SingleVlanSlice.from_slice (mk_slice bs) = Err e ->
     c07_truthful (VErr e) (wire_ether bs 3 empty_packet 33024 LsSlice 0 (len bs))) /\
  (forall e, Macsec.from_slice (mk_slice bs) = Err e ->
     c07_truthful (VErr e) (wire_ether bs 3 empty_packet 35045 LsSlice 0 (len bs))) /\
  (forall e, ArpPacketSlice.from_slice (mk_slice bs) = Err e ->
     c07_truthful (VErr e) (wire_arp bs empty_packet LsSlice 0 (len bs))) /\
  (forall e, Ipv4Slice.from_slice (mk_slice bs) = Err e ->
     c07_truthful (VErr e) (wire_ipv4 bs empty_packet LsSlice 0 (len bs))) /\
  (forall e, Ipv6Slice.from_slice (mk_slice bs) = Err e ->
     c07_truthful (VErr e) (wire_ipv6 bs empty_packet LsSlice 0 (len bs))) /\
  (forall e, IpSlice.from_slice (mk_slice bs) = Err e -> c07_truthful (VErr e) (wire_from_ip bs)) /\
  (forall e, UdpSlice.from_slice (mk_slice bs) = Err e ->
     c07_truthful (VErr e) (wire_udp bs empty_packet LsSlice 0 (len bs))) /\
  (forall e, TcpSlice.from_slice (mk_slice bs) = Err e ->
     c07_truthful (VErr e) (wire_tcp bs empty_packet LsSlice 0 (len bs))) /\
  (forall e, Icmpv4Slice.from_slice (mk_slice bs) = Err e ->
     c07_truthful (VErr e) (wire_icmp4 bs empty_packet LsSlice 0 (len bs))) /\
  (forall e, Icmpv6Slice.from_slice (mk_slice bs) = Err e ->
     c07_truthful (VErr e) (wire_icmp6 empty_packet LsSlice 0 (len bs))).
Proof. exact single_layer_whole. Qed.
Print Assumptions C07_single_layer_whole.

(* direction clause for the single-layer decoders, on every window *)
Theorem C07_single_layer_len_direction : forall bs s pos lim nh l, bytes_ok bs -> repr bs s pos lim ->
  (UdpSlice.from_slice s = Err (ELen l) -> len_direction l) /\
  (TcpSlice.from_slice s = Err (ELen l) -> len_direction l) /\
  (Icmpv4Slice.from_slice s = Err (ELen l) -> len_direction l) /\
  (Icmpv6Slice.from_slice s = Err (ELen l) -> len_direction l) /\
  (ArpPacketSlice.from_slice s = Err (ELen l) -> len_direction l) /\
  (SingleVlanSlice.from_slice s = Err (ELen l) -> len_direction l) /\
  (Macsec.from_slice s = Err (ELen l) -> len_direction l) /\
  (Ipv4Slice.from_slice s = Err (ELen l) -> len_direction l) /\
  (Ipv6Slice.from_slice s = Err (ELen l) -> len_direction l) /\
  (IpSlice.from_slice s = Err (ELen l) -> len_direction l) /\
  (Ipv6ExtensionsSlice.from_slice nh s = Err (ELen l) -> len_direction l) /\
  (IpAuthHeaderSlice.from_slice s = Err (ELen l) -> len_direction l).
Proof. exact single_layer_len_direction. Qed.
Print Assumptions C07_single_layer_len_direction.

Theorem C07_single_layer_start_len_direction : forall bs l, bytes_ok bs ->
  (Ethernet2Slice.from_slice_without_fcs (mk_slice bs) = Err (ELen l) -> len_direction l) /\
  (LinuxSll.from_slice (mk_slice bs) = Err (ELen l) -> len_direction l).
Proof. exact single_layer_start_len_direction. Qed.
Print Assumptions C07_single_layer_start_len_direction.

(* non-vacuity: a UDP datagram at offset 34 of a 42 byte buffer whose length field says 5: the decoder
   called on the sub-slice reports (8, 5, UdpHeaderLen, UdpHeader, offset 0), the reference decoder
   the same record at offset 34; an ICMPv4 timestamp request of 24 bytes called directly: oversized
   (required 20 < len 24); Ipv6Slice on a 48 byte buffer whose routing header announces 16 bytes with
   8 present: offset 40 inside the slice, length source Ipv6HeaderPayloadLen *)
Definition ex_udp5 : bytes := repeat 0 34 ++ [0;1;0;2;0;5;0;0].
Definition ex_v6_route8 : bytes := [96;0;0;0; 0;8; 43;64] ++ repeat 0 32 ++ [17;1;0;0;0;0;0;0].
Example C07_single_layer_ex :
  bytes_ok ex_udp5 /\ repr ex_udp5 (34, [0;1;0;2;0;5;0;0]) 34 42 /\
  UdpSlice.from_slice (34, [0;1;0;2;0;5;0;0]) = Err (ELen (mkLenError 8 5 LsUdpHeaderLen LyUdpHeader 0)) /\
  wire_udp ex_udp5 empty_packet LsSlice 34 42 = VErr (ELen (mkLenError 8 5 LsUdpHeaderLen LyUdpHeader 34)) /\
  Icmpv4Slice.from_slice (mk_slice (13 :: repeat 0 23)) =
    Err (ELen (mkLenError 20 24 LsSlice LyIcmpv4Timestamp 0)) /\
  bytes_ok ex_v6_route8 /\
  Ipv6Slice.from_slice (mk_slice ex_v6_route8) =
    Err (ELen (mkLenError 16 8 LsIpv6HeaderPayloadLen LyIpv6ExtHeader 40)) /\
  wire_ipv6 ex_v6_route8 empty_packet LsSlice 0 48 =
    VErr (ELen (mkLenError 16 8 LsIpv6HeaderPayloadLen LyIpv6ExtHeader 40)).
Proof.
  split; [apply bytes_okb_spec; vm_compute; reflexivity|].
  split; [split; [vm_compute; reflexivity|split; vm_compute; discriminate]|].
  split; [vm_compute; reflexivity|]. split; [vm_compute; reflexivity|].
  split; [vm_compute; reflexivity|].
  split; [apply bytes_okb_spec; vm_compute; reflexivity|].
  split; vm_compute; reflexivity.
Qed.

(* ---- PacketHeaders::from_ip_slice INSIDE the class F11 (first nibble 4, fewer than 20 bytes): the
   record it reports is exactly the record of the IPv4 reference decoder started at offset 0
   (required 20, len = slice length, source Slice, layer Ipv4Header, offset 0: all true of the
   bytes); the nibble-dispatching reference decoder `wire_from_ip` (= what SlicedPacket::from_ip is
   compared with) reports the IHL content error or the same layer / offset / len with required =
   IHL*4; the direction clause holds *)
From EP Require Import Parse.DelegatedTruth.
Theorem C07_headers_F11_record : forall bs, bytes_ok bs -> F11 bs = true ->
  PacketHeaders.from_ip_slice bs = Err (ELen (mkLenError 20 (len bs) LsSlice LyIpv4Header 0)) /\
  wire_ipv4 bs empty_packet LsSlice 0 (len bs) =
    VErr (ELen (mkLenError 20 (len bs) LsSlice LyIpv4Header 0)) /\
  0 < len bs < 20 /\ B bs 0 / 16 = 4 /\
  wire_from_ip bs =
    VErr (if B bs 0 mod 16 <? 5 then EContent (CeIpIhl (B bs 0 mod 16))
          else ELen (mkLenError (B bs 0 mod 16 * 4) (len bs) LsSlice LyIpv4Header 0)) /\
  len_direction (mkLenError 20 (len bs) LsSlice LyIpv4Header 0).
Proof. exact headers_f11_record. Qed.
Print Assumptions C07_headers_F11_record.

Example C07_headers_F11_ex :
  bytes_ok [70;0;0] /\ F11 [70;0;0] = true /\
  PacketHeaders.from_ip_slice [70;0;0] = Err (ELen (mkLenError 20 3 LsSlice LyIpv4Header 0)) /\
  wire_from_ip [70;0;0] = VErr (ELen (mkLenError 24 3 LsSlice LyIpv4Header 0)).
Proof.
  split; [apply bytes_okb_spec; vm_compute; reflexivity|]. repeat split; vm_compute; reflexivity.
Qed.

(* ---- lax stop errors -------------------------------------------------------------------------------
   Every stop error (e', tag ly) of LaxSlicedPacket, for a fault behind the first header: the strict
   reference decoder rejects the same bytes with some e_ref, and (outside the known class F10) one of
     - e' is the same fault: C07 relation to e_ref (layer, offset, len, required_len; len_source the
       reference's or Slice outside F7; content value), the tag fits, and the direction clause holds;
     - F11 group: e_ref and e' are both faults of the IP header itself at the same offset, tag IpHeader;
     - e_ref is a documented length fallback (IPv4 total length, IPv6 payload length, MACsec short
       length, UDP length): the stop error stems from the resumed decoding, see
       C07_lax_stop_after_ip_fallback for the two IP fallbacks. *)
From EP Require Import Parse.LaxSlices Parse.LaxCursor Parse.LaxView Parse.LaxProofs Parse.LaxFacts
  Parse.LaxWire Parse.LaxWire2 Parse.HdrLaxModel Parse.HdrLaxView Parse.HdrLaxCut Parse.HdrLaxC05.
Theorem C07_lax_stop_truthful : forall bs et, bytes_ok bs ->
  (14 <= len bs -> lax_stop_ok bs (wire_ethernet bs) (LaxSlicedPacket.from_ethernet bs)) /\
  lax_stop_ok bs (wire_ether_type bs et) (LaxSlicedPacket.from_ether_type et bs) /\
  (ip_header_fault bs = None -> lax_stop_ok bs (wire_from_ip bs) (LaxSlicedPacket.from_ip bs)).
Proof. exact lax_stop_truthful. Qed.
Print Assumptions C07_lax_stop_truthful.

(* pin the meaning *)
Check (eq_refl : lax_stop_ok =
  fun bs w lax => forall r' e' ly, lax = Ok r' -> lsp_stop_err r' = Some (e', ly) ->
    exists e_ref, w = VErr e_ref /\ (F10_class bs e_ref \/ stop_truthful e_ref e' ly)).
Check (eq_refl : stop_truthful =
  fun e_ref e' ly =>
    (c07_truthful (VErr e') (VErr e_ref) /\ tag_ok e' ly /\
     (forall l, e' = ELen l -> len_direction l)) \/
    (ip_hdr_class e_ref /\ ip_hdr_class e' /\ ly = LyIpHeader /\
     (forall o o', err_off e_ref = Some o -> err_off e' = Some o' -> o = o')) \/
    fallback e_ref).

(* LaxPacketHeaders, from the side of the reference decoder: it rejects with e_ref behind the first
   header, outside F10 and outside the refilled-extension class  ==>  LaxPacketHeaders returns Ok and
   its stop error is related to e_ref in the same three ways *)
Theorem C07_headers_lax_stop_truthful : forall bs et, bytes_ok bs ->
  (14 <= len bs ->
   hdr_stop_ok bs (wire_ethernet bs) (LaxCut.from_ethernet true bs) (LaxPacketHeaders.from_ethernet bs)) /\
  hdr_stop_ok bs (wire_ether_type bs et) (LaxCut.from_ether_type true et bs)
    (LaxPacketHeaders.from_ether_type et bs) /\
  (ip_header_fault bs = None ->
   hdr_stop_ok bs (wire_from_ip bs) (LaxCut.from_ip true bs) (LaxPacketHeaders.from_ip bs)).
Proof. exact hdr_lax_stop_truthful. Qed.
Print Assumptions C07_headers_lax_stop_truthful.

Check (eq_refl : hdr_stop_ok =
  fun bs w laxcut lh =>
    forall e_ref, w = VErr e_ref -> lax_stopped_at_ext laxcut = false -> ~ F10_class bs e_ref ->
      exists p v, lh = Ok p /\ lhview_of p = Ok v /\
        ((exists e' ly, lhv_stop v = Some (e', ly) /\
            c07_truthful (VErr e') (VErr e_ref) /\ tag_ok e' ly /\
            (forall l, e' = ELen l -> len_direction l)) \/
         (ip_hdr_class e_ref /\
          exists e', lhv_stop v = Some (e', LyIpHeader) /\ ip_hdr_class e' /\
            (f11_stop (lhv_stop v) = false ->
             forall o o', err_off e_ref = Some o -> err_off e' = Some o' -> o = o')) \/
         fallback e_ref)).

(* the fallback disjunct for the two IP length fallbacks: the finer instrumented reference decoder
   answers P2Fb q e_fb inc resumed (e_fb = the IPv4 total length / IPv6 payload length rejection,
   resumed = the same strict reference decoder continued with the data that is there); the lax stop
   error is exactly (error, tag) of `resumed` when that rejects inside the network layer, and related
   to its rejection as above when it rejects behind the network layer *)
Theorem C07_lax_stop_after_ip_fallback : forall bs et, bytes_ok bs ->
  (14 <= len bs ->
   fallback_stop_ok (wire_ethernet bs) (pwire2_ethernet bs) (LaxSlicedPacket.from_ethernet bs)) /\
  fallback_stop_ok (wire_ether_type bs et) (pwire2_ether_type bs et)
    (LaxSlicedPacket.from_ether_type et bs) /\
  (ip_header_fault bs = None ->
   fallback_stop_ok (wire_from_ip bs) (pwire2_from_ip bs) (LaxSlicedPacket.from_ip bs)).
Proof. exact lax_stop_after_ip_fallback. Qed.
Print Assumptions C07_lax_stop_after_ip_fallback.

Check (eq_refl : fallback_stop_ok =
  fun w pw lax => forall q e_fb inc resumed, pw = P2Fb q e_fb inc resumed ->
    w = VErr e_fb /\
    exists r', lax = Ok r' /\
      match resumed with
      | P2RejNet _ _ tag e2 => lsp_stop_err r' = Some (e2, tag)
      | P2Rej _ e2 => behind_truthful e2 (lsp_stop_err r')
      | P2Acc _ => True
      | _ => False
      end).
Check (eq_refl : behind_truthful =
  fun e2 stop =>
    (exists e' ly, stop = Some (e', ly) /\ c07_truthful (VErr e') (VErr e2) /\ tag_ok e' ly) \/
    (ip_hdr_class e2 /\
     exists e', stop = Some (e', LyIpHeader) /\ ip_hdr_class e' /\
       (forall o o', err_off e2 = Some o -> err_off e' = Some o' -> o = o')) \/
    fallback e2).

(* non-vacuity: Ethernet II / IPv4 / TCP with 4 of 20 TCP header bytes (the packet of
   C05_ex_prefix_stop): the stop error of LaxSlicedPacket is the reference decoder's record, first
   disjunct; and an IPv4 packet whose total length (44) exceeds the 32 bytes present, carrying a
   cut-short authentication header: P2Fb, resumed rejects inside the network layer *)
Definition ex_tcp_cut7 : bytes :=
  [1;2;3;4;5;6; 7;8;9;10;11;12; 8;0;
   69;0;0;24; 0;0;0;0; 64;6;0;0; 1;2;3;4; 5;6;7;8;
   0;1;0;2].
Definition ex_v4_fb_ah7 : bytes :=
  [69;0;0;44; 0;0;0;0; 64;51;0;0; 1;2;3;4; 5;6;7;8] ++ [6;4;0;0; 0;0;0;1; 0;0;0;2].
Example C07_lax_stop_ex :
  bytes_ok ex_tcp_cut7 /\ 14 <= len ex_tcp_cut7 /\
  (exists r', LaxSlicedPacket.from_ethernet ex_tcp_cut7 = Ok r' /\
     lsp_stop_err r' = Some (ELen (mkLenError 20 4 LsIpv4HeaderTotalLen LyTcpHeader 34), LyTcpHeader)) /\
  wire_ethernet ex_tcp_cut7 = VErr (ELen (mkLenError 20 4 LsIpv4HeaderTotalLen LyTcpHeader 34)) /\
  bytes_ok ex_v4_fb_ah7 /\ ip_header_fault ex_v4_fb_ah7 = None /\
  (exists q inc q' n,
     pwire2_from_ip ex_v4_fb_ah7 =
       P2Fb q (ELen (mkLenError 44 32 LsSlice LyIpv4Packet 0)) inc
         (P2RejNet q' n LyIpAuthHeader (ELen (mkLenError 24 12 LsSlice LyIpAuthHeader 20)))) /\
  (exists r', LaxSlicedPacket.from_ip ex_v4_fb_ah7 = Ok r' /\
     lsp_stop_err r' = Some (ELen (mkLenError 24 12 LsSlice LyIpAuthHeader 20), LyIpAuthHeader)).
Proof.
  split; [apply bytes_okb_spec; vm_compute; reflexivity|].
  split; [vm_compute; discriminate|].
  split; [eexists; split; vm_compute; reflexivity|].
  split; [vm_compute; reflexivity|].
  split; [apply bytes_okb_spec; vm_compute; reflexivity|].
  split; [vm_compute; reflexivity|].
  split; [eexists _, _, _, _; vm_compute; reflexivity|].
  eexists; split; vm_compute; reflexivity.
Qed.

(* ---- audit round 3, top-12 item 3 (PARTIAL): fault geometry of the reference decoder ---------------
   `pwire_X` (Parse/LaxWire.v) is the strict reference decoder handing back the layers q decoded in
   front of the fault (forget pwire = wire: C05_partial_reference_sound).  `cur_window start q` is
   the data window these layers leave for the next layer, computed from the windows of q alone
   (payload of the IP layer / of the last link extension / behind the link header = start).
   `located bs start q e`: that window exists, ends inside the buffer, and the fault lies AT its
   start with len = its length (or = the failing header's own length field: IPv4 total length
   smaller than the header, UDP length smaller than 8); for a header inside the network layer
   (authentication header, IPv6 extension chain) the fault lies INSIDE the window.
   Full statement of the audit (not proved, hence _partial): additionally `prefix_nested bs q`, for
   faults inside the network layer the exact start (= end of the extension headers in front) and
   end (= what the IP length field allows), the len_source clause (`le_src e <> LsSlice -> a layer
   of q carries that non-zero length field and the window ends where it says`), and the position of
   content values. *)
From EP Require Import Parse.FaultGeometry.
Theorem C07_reference_fault_geometry_partial : forall bs et q e,
  (14 <= len bs -> pwire_ethernet bs = PRej q (ELen e) -> located bs (14, len bs - 14) q e) /\
  (pwire_ether_type bs et = PRej q (ELen e) -> located bs (0, len bs) q e) /\
  (pwire_from_ip bs = PRej q (ELen e) -> located bs (0, len bs) q e).
Proof. exact pwire_fault_geometry. Qed.
Print Assumptions C07_reference_fault_geometry_partial.

(* transferred to the model of SlicedPacket: its error has layer, offset, len, required_len of a
   reference rejection (q, se) that is located in this sense *)
Theorem C07_strict_fault_geometry_partial : forall bs et e, bytes_ok bs ->
  (14 <= len bs -> SlicedPacket.from_ethernet bs = Err (ELen e) ->
   exists q se, pwire_ethernet bs = PRej q (ELen se) /\ same_place e se /\
                located bs (14, len bs - 14) q se) /\
  (SlicedPacket.from_ether_type et bs = Err (ELen e) ->
   exists q se, pwire_ether_type bs et = PRej q (ELen se) /\ same_place e se /\
                located bs (0, len bs) q se) /\
  (SlicedPacket.from_ip bs = Err (ELen e) ->
   exists q se, pwire_from_ip bs = PRej q (ELen se) /\ same_place e se /\
                located bs (0, len bs) q se).
Proof. exact strict_fault_geometry. Qed.
Print Assumptions C07_strict_fault_geometry_partial.

(* pin the meaning *)
Check (eq_refl : located =
  fun bs start q e => exists w, cur_window start q = Some w /\ fst w + snd w <= len bs /\
    (inner_net e = false -> at_window bs w e) /\ (inner_net e = true -> in_window w e)).
Check (eq_refl : cur_window =
  fun start q =>
    match v_net q with
    | Some (VIpv4 _ _ ip) => Some (vip_win ip)
    | Some (VIpv6 _ _ _ _ ip) => Some (vip_win ip)
    | Some (VArp _) => None
    | None => match last (map Some (v_exts q)) None with
              | None => Some start
              | Some x => ext_rest x
              end
    end).
Check (eq_refl : ext_rest =
  fun x => match x with
           | VVlan (o, l) => Some (o + 4, l - 4)
           | VMacsec _ (VMpUnmodified e) => Some (vep_win e)
           | VMacsec _ (VMpModified _) => None
           end).
Check (eq_refl : at_window =
  fun bs w e =>
    le_off e = fst w /\
    (le_len e = snd w \/
     (le_layer e = LyIpv4Packet /\ le_src e = LsIpv4HeaderTotalLen /\ le_len e = W bs (fst w + 2)) \/
     (le_layer e = LyUdpHeader /\ le_src e = LsUdpHeaderLen /\ le_len e = W bs (fst w + 4)))).
Check (eq_refl : in_window =
  fun w e => fst w <= le_off e /\ le_off e + le_len e <= fst w + snd w).
Check (eq_refl : inner_net =
  fun e => match le_layer e with
           | LyIpAuthHeader | LyIpv6ExtHeader | LyIpv6FragHeader => true
           | _ => false
           end).
Check (eq_refl : same_place =
  fun e se => le_layer e = le_layer se /\ le_off e = le_off se /\ le_len e = le_len se /\
              le_required e = le_required se).

(* non-vacuity: the packet of C07_ex (Ethernet + MACsec short length 4 + VLAN + cut IPv4 header): the
   prefix is Ethernet / MACsec / VLAN, the window it leaves is [26, 28), the fault lies at 26 with
   len 2; and the TCP cut of C07_lax_stop_ex: window of the IPv4 payload [34, 38) *)
Example C07_fault_geometry_ex :
  (exists q, pwire_ethernet ex_macsec =
               PRej q (ELen (mkLenError 20 2 LsMacsecShortLength LyIpv4Header 26)) /\
             cur_window (14, len ex_macsec - 14) q = Some (26, 2)) /\
  (exists q, pwire_ethernet ex_tcp_cut7 =
               PRej q (ELen (mkLenError 20 4 LsIpv4HeaderTotalLen LyTcpHeader 34)) /\
             cur_window (14, len ex_tcp_cut7 - 14) q = Some (34, 4)).
Proof. split; eexists; split; vm_compute; reflexivity. Qed.
(* ==== round3 c07sl end ==== *)
