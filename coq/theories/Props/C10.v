(* Props/C10.v -- property C10: PacketBuilder emits consistent, parseable packets of
   the announced size.  Statements only; every proof is `exact <lemma>`.

   Model : Builder/Model.v   (final_write_with_net as `build_run`/`build`, final_size;
           Ipv4Header / TcpHeader encoders of C08, extension chains of C12, checksum
           call sequences of C09, SingleVlanHeader / Ipv6Header encoders of C15)
   Spec  : Builder/Spec.v    (layout offsets, pseudo headers, `verifies`, `spec_outcome`,
           `cfg_wf` = type invariants of the crate's structs + builder typestate)
   All theorems hold for every well-formed configuration (all header field values,
   all options / extension headers, both host endiannesses) and every payload.

   Sinks: `build` is what reaches an infallible sink.  That write(io::Write), write_to_vec and
   write_to_slice deliver these bytes / this verdict is C10_sink_bridge + C10_three_sinks (last
   part of this file): `bcfg_of` instantiates the abstract part encodings of C16's write program
   (IoFault/Model.v) with the encodings of this model, the program is shown to write exactly
   `build_run`'s bytes with its verdict (error outcomes included), and C16_builder_space /
   C16_builder_write_fault are instantiated with it; the correspondence run additionally compares
   all three sinks of the real crate on every case.

   Round 1 left three groups of statements to the per-case oracle; they are proved now:
     - all transport checksums (TCP incl. options, ICMPv4, ICMPv6, UDP) verify and equal the
       RFC 1071 value with the field zeroed:              C10_checksums_verify, C10_transport_rfc_layout
     - ether type / protocol / next-header bytes of link, VLAN, IP and extension headers:
                                                          C10_next_protocol_fields
     - full wire parse-back, every family, extension headers included (view expected_x of
       Builder/SpecX.v; the round-1 target with `parse_pre` / `expected` is the corollary
       C10_parse_back_no_exts):                           C10_parse_back, C10_parse_back_ether_type
     - the values behind the windows:                     C10_layers_as_configured,
       C10_parse_back_ipv4_header_partial, C10_parse_back_tcp_partial (C08 decoders)
   Round 3 (this file, last two sections):
     - the transport step of the model covers EVERY Icmpv4Type / Icmpv6Type variant (composition of
       the C08 serialisers Roundtrip/Icmp4.v, Icmp6.v with the C09 checksum models); all theorems
       above therefore quantify over every typed kind (20-byte timestamp headers included), and
       C10_icmp4_value_back / C10_icmp6_value_back add: the crate's decoders (C08 models) and the
       RFC-table decoders of C17 return the configured type, all its fields and the payload;
     - the cases excluded by `payload_admitted` are theorems now: C10_parse_back_upto_ip (no
       hypothesis), C10_parse_back_upto_transport (chain_ok), C10_timestamp_wrong_size_rejected
       (the decoder's exact answer, for ANY wrong size), and C10_parse_back_refuted_* give one
       witness per excluded number and four timestamp witnesses for which the full parse-back
       equation FAILS (the exclusions are necessary).
   Audit follow-up (last part of this file):
     - C10_build_bytes_ok, C10_crate_parse_back(_ether_type), C10_crate_never_bug: the MODEL OF THE
       CRATE'S SLICER (SlicedPacket::from_ethernet / from_linux_sll / from_ip / from_ether_type,
       Parse/Cursor.v) returns Ok with the view expected_x on the built bytes (composition with C03);
     - C10_sink_bridge, C10_three_sinks, C10_three_sinks_ok, C10_model_write_to_slice: the three sinks;
     - C10_link_values_back: link / VLAN / IPv6 / ARP / UDP header VALUES through the C08 decoders
       (the conjuncts of C10_layers_as_configured compare with the model's own encoders);
     - C10_icmp_wf_gap, C10_icmp_typed_pairs, C10_icmp4/6_value_back_cfg: the ICMP value theorems
       with the one hypothesis cfg_wf does not contain made explicit.
   Pseudo headers: `ck_pseudo` uses the source / destination fields of the emitted IP header (what a
   receiver sees; the crate does not consult a configured IPv6 Routing header, RFC 8200 8.1). *)
From EP Require Import Base.Bytes Checksum.Spec Checksum.Model.
From EP Require Roundtrip.Common Roundtrip.Tcp Roundtrip.Ipv4 ExtChain.Spec ExtChain.Model BitFields.Model.
From EP Require Import Parse.Types Parse.View Parse.WireSpec.
From EP Require Import Builder.Model Builder.Spec Builder.Proofs Builder.ProofsCk.
From EP Require Checksum.ProtoTypes Checksum.ProtoSpec.
From EP Require Import Builder.SpecX Builder.ProofsTr Builder.ProofsNx Builder.ProofsWire Builder.ProofsPb
  Builder.ProofsVal Builder.ProofsEx.
From EP Require ExtChain.View.
From EP Require CtlMsg.Spec CtlMsg.Model Roundtrip.Icmp4 Roundtrip.Icmp6.
Local Open Scope N_scope.

(* ---- outcome: encodable configurations give exactly size() bytes, the others the documented error *)
Theorem C10_outcome : forall e c p, cfg_wf c = true ->
  match spec_outcome c (len p) with
  | OOk => exists bs, build e c p = BOk bs /\ len bs = final_size c (len p)
  | OErr er => build e c p = BErr er
  end.
Proof. exact build_outcome. Qed.
Print Assumptions C10_outcome.

Theorem C10_size : forall e c p bs, cfg_wf c = true -> build e c p = BOk bs -> len bs = final_size c (len p).
Proof. exact build_size. Qed.
Print Assumptions C10_size.

(* no unwrap / array access / u16 underflow / to_bytes of the model fails *)
Theorem C10_never_panics : forall e c p s, cfg_wf c = true -> build e c p <> BPanic s.
Proof. exact build_never_panics. Qed.
Print Assumptions C10_never_panics.

(* Err <-> the configuration cannot be encoded; the inner range checks of
   UdpHeader/TcpHeader/Icmpv6Type::calc_checksum_* never fire (no such error in spec_outcome) *)
Theorem C10_errors : forall e c p er, cfg_wf c = true ->
  (build e c p = BErr er <-> spec_outcome c (len p) = OErr er).
Proof. exact build_error_iff. Qed.
Print Assumptions C10_errors.

(* ... which is: payload too large for the IP length field, ICMPv6 in IPv4, or an
   extension chain not covered by the walk -- the last only for write(ip_number, ..)
   with an ip number that is itself an extension header number *)
Theorem C10_errors_classified : forall c plen er, cfg_wf c = true -> spec_outcome c plen = OErr er ->
  (exists vt, er = EPayloadLen (ip_payload_len c plen) (ip_payload_max c) vt /\
              ip_payload_max c < ip_payload_len c plen) \/
  (er = EIcmpv6InIpv4 /\ is_icmpv6 (c_transport c) = true /\ exists h x, c_net c = NtIpv4 h x) \/
  (exists w k, er = EIpv6Exts w /\ c_transport c = TrNone k /\ ExtChain.Spec.is_ext_number k = true).
Proof. exact errors_classified. Qed.
Print Assumptions C10_errors_classified.

Theorem C10_no_walk_error_with_transport : forall c plen w, cfg_wf c = true ->
  (forall k, c_transport c <> TrNone k) ->
  spec_outcome c plen <> OErr (EIpv6Exts w) /\ spec_outcome c plen <> OErr (EIpv4Exts w).
Proof. exact no_walk_error_with_transport. Qed.
Print Assumptions C10_no_walk_error_with_transport.

(* ---- consistency of the derived fields *)
(* IPv4 (with or without options / authentication header): at off_net stands the
   to_bytes of the configured header (= RFC 791 layout by C08_Ipv4_spec) with total
   length = the actual length (< 2^16: not truncated), protocol = what follows, and
   a header checksum that verifies; all other fields as supplied *)
Theorem C10_consistent_ipv4 : forall e c p bs h x,
  cfg_wf c = true -> build e c p = BOk bs -> c_net c = NtIpv4 h x ->
  let hf := v4_final e h x (c_transport c) (len p) in
  Ipv4.wf_ip4 hf = true /\
  Ipv4.ip4_to_bytes hf = Some (take (Ipv4.ip4_header_len h) (drop (off_net c) bs)) /\
  verifies (take (Ipv4.ip4_header_len h) (drop (off_net c) bs)) /\
  Ipv4.i4_total_len hf = len bs - off_net c /\ off_net c + Ipv4.ip4_header_len h <= len bs /\
  len bs - off_net c < 65536 /\
  Ipv4.i4_protocol hf = snd (ExtChain.Model.set_next_headers4 x (tr_ip_number (c_transport c))) /\
  Ipv4.i4_source hf = Ipv4.i4_source h /\ Ipv4.i4_destination hf = Ipv4.i4_destination h /\
  Ipv4.i4_time_to_live hf = Ipv4.i4_time_to_live h /\ Ipv4.i4_identification hf = Ipv4.i4_identification h /\
  Ipv4.i4_dscp hf = Ipv4.i4_dscp h /\ Ipv4.i4_ecn hf = Ipv4.i4_ecn h /\ Ipv4.i4_options hf = Ipv4.i4_options h /\
  Ipv4.i4_dont_fragment hf = Ipv4.i4_dont_fragment h /\ Ipv4.i4_more_fragments hf = Ipv4.i4_more_fragments h /\
  Ipv4.i4_fragment_offset hf = Ipv4.i4_fragment_offset h.
Proof. exact ipv4_consistent. Qed.
Print Assumptions C10_consistent_ipv4.

Theorem C10_consistent_ipv6 : forall e c p bs h x,
  cfg_wf c = true -> build e c p = BOk bs -> c_net c = NtIpv6 h x ->
  let hf := v6_final h x (c_transport c) (len p) in
  take 40 (drop (off_net c) bs) = BitFields.Model.Ipv6Header_to_bytes hf /\
  off_net c + 40 <= len bs /\
  BitFields.Model.v6_payload_length hf = len bs - off_net c - 40 /\ len bs - off_net c - 40 < 65536 /\
  BitFields.Model.v6_next_header hf = snd (ExtChain.Model.set_next_headers x (tr_ip_number (c_transport c))) /\
  BitFields.Model.v6_source hf = BitFields.Model.v6_source h /\
  BitFields.Model.v6_destination hf = BitFields.Model.v6_destination h /\
  BitFields.Model.v6_hop_limit hf = BitFields.Model.v6_hop_limit h /\
  BitFields.Model.v6_traffic_class hf = BitFields.Model.v6_traffic_class h /\
  BitFields.Model.v6_flow_label hf = BitFields.Model.v6_flow_label h.
Proof. exact ipv6_consistent. Qed.
Print Assumptions C10_consistent_ipv6.

(* UDP (any link / VLAN / options / extension headers in front): ports as supplied,
   length field = 8 + payload length (< 2^16: the `as u16` never wraps on success),
   checksum never 0 and verifying with the pseudo header of RFC 768 / RFC 8200 8.1 *)
Theorem C10_consistent_udp : forall e c p bs sp dp,
  cfg_wf c = true -> bytes_ok p -> build e c p = BOk bs -> c_transport c = TrUdp sp dp ->
  match c_net c with
  | NtArp _ => True
  | NtIpv4 h _ =>
      8 + len p < 65536 /\ exists ck, ck <> 0 /\ ck < 65536 /\
        drop (off_transport c) bs = udp_to_bytes sp dp (8 + len p) ck ++ p /\
        verifies (pseudo4 (Ipv4.i4_source h) (Ipv4.i4_destination h) 17 (8 + len p) ++ drop (off_transport c) bs)
  | NtIpv6 h _ =>
      8 + len p < 65536 /\ exists ck, ck <> 0 /\ ck < 65536 /\
        drop (off_transport c) bs = udp_to_bytes sp dp (8 + len p) ck ++ p /\
        verifies (pseudo6 (BitFields.Model.v6_source h) (BitFields.Model.v6_destination h) (8 + len p) 17
                  ++ drop (off_transport c) bs)
  end.
Proof. exact udp_consistent. Qed.
Print Assumptions C10_consistent_udp.

(* Ipv4Header::calc_header_checksum + to_bytes, for every well-formed header *)
Theorem C10_ipv4_header_checksum : forall e h, Ipv4.wf_ip4 h = true ->
  exists ck hb, Ipv4.ip4_calc_checksum e h = Some ck /\ ck < 65536 /\
    Ipv4.ip4_to_bytes (Ipv4.ip4_set_checksum h ck) = Some hb /\ folds_to_ffff hb = true.
Proof. exact ip4_header_verifies. Qed.
Print Assumptions C10_ipv4_header_checksum.

(* ---- parse-back, proved parts (C08 decoders on the built bytes) *)
Theorem C10_parse_back_ipv4_header_partial : forall e c p bs h x,
  cfg_wf c = true -> build e c p = BOk bs -> c_net c = NtIpv4 h x ->
  Ipv4.ip4_from_slice (drop (off_net c) bs)
  = Roundtrip.Common.Ok (Ipv4.ip4_norm (v4_final e h x (c_transport c) (len p)),
                         drop (off_net c + Ipv4.ip4_header_len h) bs).
Proof. exact ipv4_header_decodes. Qed.
Print Assumptions C10_parse_back_ipv4_header_partial.

Theorem C10_parse_back_tcp_partial : forall e c p bs t,
  cfg_wf c = true -> build e c p = BOk bs -> c_transport c = TrTcp t ->
  match c_net c with
  | NtArp _ => True
  | _ => exists ck, ck < 65536 /\
           Tcp.from_slice (drop (off_transport c) bs)
           = Roundtrip.Common.Ok (Tcp.norm (tcp_set_checksum t ck), p)
  end.
Proof. exact tcp_decodes. Qed.
Print Assumptions C10_parse_back_tcp_partial.

(* ---- all transport checksums verify (UDP, TCP, ICMPv4, ICMPv6 -- the modelled kinds) ----
   seg = the bytes from the transport header to the end of the packet; ck_pseudo = the
   pseudo header of RFC 768 / 9293 3.1 / 8200 8.1 / 4443 2.3 built from the configured
   addresses and the ACTUAL length of seg ([] for ICMPv4; None = no checksum: raw
   payload, ARP, or the refused ICMPv6-in-IPv4).  The receiver's RFC 1071 sum over pseudo
   header ++ segment folds to 0xffff, and the 16 bit field at the RFC's offset equals the
   RFC value over the same bytes with the field zeroed (UDP: 0 transmitted as 0xffff).
   Corollary of C09_update_checksum_ipv4/_ipv6 (Checksum/ProtoProofs.v) after showing that
   the builder calls update_checksum on exactly the header it serialises
   (tr_ipv4_is_update / tr_ipv6_is_update, TCP options included) and the payload it appends. *)
Theorem C10_checksums_verify : forall e c p bs,
  cfg_wf c = true -> bytes_ok p -> build e c p = BOk bs ->
  let seg := drop (off_transport c) bs in
  let k := ck_field_off (c_transport c) in
  match ck_pseudo c (len seg) with
  | None => True
  | Some ph =>
      len seg = tr_header_len (c_transport c) + len p /\ off_transport c + len seg = len bs /\
      k + 2 <= tr_header_len (c_transport c) /\
      verifies (ph ++ seg) /\
      W bs (off_transport c + k) = ck_value (c_transport c) (rfc1071 (ph ++ zero16_at k seg))
  end.
Proof. exact checksums_verify. Qed.
Print Assumptions C10_checksums_verify.

(* the transport header in the packet is the RFC layout (Checksum/ProtoSpec.v: udp_wire,
   tcp_wire, icmp4_wire, icmp6_wire) of the configured header, followed by exactly the payload *)
Theorem C10_transport_rfc_layout : forall e c p bs, cfg_wf c = true -> build e c p = BOk bs ->
  match c_net c with
  | NtArp _ => True
  | _ =>
    match th_of (c_transport c) (8 + len p) with
    | None => drop (off_transport c) bs = p
    | Some th => exists ck, ck < 65536 /\ drop (off_transport c) bs = th_wire th ck ++ p
    end
  end.
Proof. exact transport_is_rfc_layout. Qed.
Print Assumptions C10_transport_rfc_layout.

(* ---- ether types and protocol numbers name the layer that follows ----
   Ethernet II / Linux SLL protocol field, every VLAN tag, the IPv4 protocol / IPv6 next
   header field and the first byte of every extension header (chain_at walks the
   configured headers in wire order at their computed offsets).  The chain part needs
   chain_pre: for write(ip_number, ..) over IPv6 the ip_number must not itself be an
   extension header number (C12_link_write_order); for that case C10_consistent_ipv6
   still gives the next header field of the IPv6 header. *)
Theorem C10_next_protocol_fields : forall e c p bs, cfg_wf c = true -> build e c p = BOk bs ->
  match c_link c with
  | LkNone => True
  | LkEthernet2 _ _ => W bs 12 = link_announces c
  | LkLinuxSll pt _ _ => W bs 0 = pt /\ W bs 2 = 1 /\ W bs 14 = net_ether_type (c_net c) /\ c_vlan c = VlNone
  end /\
  match c_vlan c with
  | VlNone => True
  | VlSingle _ => W bs (off_vlan c + 2) = net_ether_type (c_net c)
  | VlDouble _ _ => W bs (off_vlan c + 2) = 33024 /\ W bs (off_vlan c + 6) = net_ether_type (c_net c)
  end /\
  match c_net c with
  | NtArp _ => True
  | _ => chain_pre c = true ->
         chain_at (B bs) (off_exts c) (B bs (ip_next_field_off c)) (ext_layout c) (tr_ip_number (c_transport c))
  end.
Proof. exact next_protocol_fields. Qed.
Print Assumptions C10_next_protocol_fields.

(* ---- parse-back: the wire reference decoder of C03 accepts the built bytes ----
   For EVERY well-formed configuration -- link none / Ethernet II / Linux SLL x 0-2 VLAN tags x
   IPv4 (any options, authentication header) / IPv6 (all 48 extension shapes) / ARP x
   UDP / TCP (+options) / ICMPv4 / ICMPv6 / raw -- whose payload the message type admits,
   the entry point matching the link layer (wire_entry: wire_ethernet / wire_linux_sll /
   wire_from_ip) returns VOk of exactly the configured layers at their computed offsets,
   the payload window being exactly the supplied payload (expected_x, Builder/SpecX.v).
   payload_admitted (Builder/Spec.v) excludes precisely:
     - write(ip_number, ..) with ip_number in {1, 6, 17, 58, 51} (the decoder would read a
       transport / authentication header out of the raw payload) and, over IPv6, in
       {0, 43, 44, 60} (an extension header number: chain not determined by the configuration);
     - ICMPv4 type 13 / 14 code 0 (timestamp messages, exactly 20 bytes) with a payload
       other than 12 bytes, unless the IPv4 header fragments the payload.
   Fragmenting configurations (IPv4 more_fragments / fragment_offset != 0, IPv6 fragment
   header with M or an offset) are INCLUDED: the decoder stops before the transport layer,
   expected_x lists link, VLAN, the IP header, the extension headers and the IP payload
   window (= transport header ++ payload) with vip_frag = true and no transport layer. *)
Theorem C10_parse_back : forall e c p bs,
  cfg_wf c = true -> payload_admitted c (len p) = true -> build e c p = BOk bs ->
  wire_entry c bs = VOk (expected_x c (len p)).
Proof. exact parse_back. Qed.
Print Assumptions C10_parse_back.

(* the statement announced in the first round (view `expected` of Builder/Spec.v, no
   extension headers) is the special case *)
Theorem C10_parse_back_no_exts : forall e c p bs,
  cfg_wf c = true -> parse_pre c (len p) = true -> build e c p = BOk bs ->
  (match c_link c with
   | LkEthernet2 _ _ => wire_ethernet bs
   | LkLinuxSll _ _ _ => wire_linux_sll bs
   | LkNone => wire_from_ip bs
   end) = VOk (expected c (len p)).
Proof. exact parse_back_no_exts. Qed.
Print Assumptions C10_parse_back_no_exts.

(* a packet built without link layer, handed to the ether-type entry point *)
Theorem C10_parse_back_ether_type : forall e c p bs,
  cfg_wf c = true -> payload_admitted c (len p) = true -> build e c p = BOk bs -> c_link c = LkNone ->
  let x := expected_x c (len p) in
  wire_ether_type bs (net_ether_type (c_net c))
  = VOk (mkVPacket (Some (VEtherPayload (mkVEp (net_ether_type (c_net c)) LsSlice (0, len bs))))
                   (v_exts x) (v_net x) (v_transport x)).
Proof. exact parse_back_ether_type. Qed.
Print Assumptions C10_parse_back_ether_type.

(* ---- the values behind the windows of C10_parse_back ----
   link and VLAN headers are the encodings of the configured structs with the ether types
   set (link_bytes / vlan_bytes of Builder/Model.v: Ethernet2Header / LinuxSllHeader /
   SingleVlanHeader::to_bytes, the last one decoded back by C15_vlan_roundtrip); the
   extension area is the RFC 8200 / 4302 wire format of the configured headers in RFC
   order (C12 rfc_order_bytes) and the crate's Ipv6Extensions / Ipv4Extensions::from_slice
   (C12 models) returns the configured headers, the transport number and no rest; an ARP
   packet is ArpPacket::to_bytes; the bytes from off_payload on are exactly the payload.
   (IPv4 / IPv6 / transport headers: C10_consistent_ipv4, C10_consistent_ipv6,
   C10_parse_back_ipv4_header_partial, C10_transport_rfc_layout, C10_parse_back_tcp_partial.) *)
Theorem C10_layers_as_configured : forall e c p bs, cfg_wf c = true -> build e c p = BOk bs ->
  let n := tr_ip_number (c_transport c) in
  take (link_len c) bs = link_bytes c /\
  take (vlan_len c) (drop (off_vlan c) bs) = vlan_bytes c /\
  match c_net c with
  | NtIpv4 h x =>
      let s := ExtChain.Model.set_next_headers4 x n in
      take (ExtChain.Model.header_len4 x) (drop (off_exts c) bs) = ExtChain.View.rfc_order_bytes4 (fst s) /\
      (n <> 51 ->
       ExtChain.Model.from_slice4 (snd s) (take (ExtChain.Model.header_len4 x) (drop (off_exts c) bs))
       = ExtChain.Model.Ok (fst s, n, []))
  | NtIpv6 h x =>
      chain_pre c = true ->
      let s := ExtChain.Model.set_next_headers x n in
      take (ExtChain.Model.header_len x) (drop (off_exts c) bs) = ExtChain.View.rfc_order_bytes (fst s) /\
      ExtChain.Model.from_slice (snd s) (take (ExtChain.Model.header_len x) (drop (off_exts c) bs))
      = ExtChain.Model.Ok (fst s, n, [])
  | NtArp a => take (arp_packet_len a) (drop (off_net c) bs) = arp_to_bytes a
  end /\
  drop (off_payload c) bs = p /\ off_payload c + len p = len bs.
Proof. exact layers_as_configured. Qed.
Print Assumptions C10_layers_as_configured.

(* ==== every typed ICMP kind: the decoders return the configured message ====
   seg = the bytes from the transport header to the end of the packet.  For EVERY Icmpv4Type
   variant (Unknown, EchoReply, DestinationUnreachable with each of the 16 headers incl. the
   next-hop MTU, Redirect x 4 codes, EchoRequest, TimeExceeded x 2, ParameterProblem x 3,
   TimestampRequest, TimestampReply) over IPv4 and over IPv6, any link / VLAN / options /
   extension headers in front:
     Icmpv4Header::read      (C08 model)        = the configured type + stored checksum, rest = payload
     Icmpv4Header::from_slice (C08 model)       = the same
     CtlMsg.Spec.icmp4        (RFC 792 tables)  = (configured type, header_len, payload)
     Icmpv4Slice view         (C17 model)       = the same
   wf_icmp4_type (C08): field ranges of the Rust types, and a raw Unknown{type, code} does not
   name a typed kind (icmpv4_raw(8, 0, ..) is read as EchoRequest; Example C10_ex_raw_named).
   The ONE payload side condition: `header_len = 8 \/ p = []` -- TimestampRequest / TimestampReply
   are 20-byte messages, the slice decoders insist on exactly 20 bytes (read does not:
   the first conjunct has no side condition). *)
Theorem C10_icmp4_value_back : forall e c p bs t, cfg_wf c = true -> build e c p = BOk bs ->
  c_transport c = TrIcmpv4 t -> (forall a, c_net c <> NtArp a) ->
  Icmp4.wf_icmp4_type t = true ->
  exists ck, ck < 65536 /\
    let seg := drop (off_transport c) bs in
    let h := {| Icmp4.icmp4_type := t; Icmp4.icmp4_checksum := ck |} in
    Icmp4.icmp4_read seg = Roundtrip.Common.Ok (h, p) /\
    (Icmp4.icmp4_type_header_len t = 8 \/ p = [] ->
     Icmp4.icmp4_from_slice seg = Roundtrip.Common.Ok (h, p) /\
     CtlMsg.Spec.icmp4 seg = CtlMsg.Spec.Ok (t, Icmp4.icmp4_type_header_len t, p) /\
     CtlMsg.Model.Icmpv4Slice.view seg = CtlMsg.Spec.Ok (t, Icmp4.icmp4_type_header_len t, p)).
Proof. exact icmp4_value_back. Qed.
Print Assumptions C10_icmp4_value_back.

(* the other side of the side condition: a typed timestamp message with a non-empty payload
   is 20 + |p| bytes of type 13 / 14 code 0, which the typed view refuses *)
Theorem C10_icmp4_timestamp_payload_rejected : forall e c p bs t, cfg_wf c = true -> build e c p = BOk bs ->
  c_transport c = TrIcmpv4 t -> (forall a, c_net c <> NtArp a) ->
  Icmp4.icmp4_type_header_len t = 20 -> p <> [] ->
  let seg := drop (off_transport c) bs in
  len seg = 20 + len p /\
  CtlMsg.Model.Icmpv4Slice.view seg =
    CtlMsg.Spec.ErrLen (CtlMsg.Spec.mkLenError 20 (20 + len p) CtlMsg.Spec.LsSlice
      (if fst (icmp4_tc t) =? 13 then CtlMsg.Spec.LIcmpv4Timestamp else CtlMsg.Spec.LIcmpv4TimestampReply) 0) /\
  Icmp4.icmp4_from_slice seg = Roundtrip.Common.Err Roundtrip.Common.ELen.
Proof. exact icmp4_timestamp_payload_rejected. Qed.
Print Assumptions C10_icmp4_timestamp_payload_rejected.

(* EVERY Icmpv6Type variant (Unknown, DestinationUnreachable x 7, PacketTooBig, TimeExceeded x 2,
   ParameterProblem x 11 codes + pointer, EchoRequest / EchoReply, RouterSolicitation,
   RouterAdvertisement with M / O flags, NeighborSolicitation, NeighborAdvertisement with R / S / O,
   Redirect), every payload: no side condition *)
Theorem C10_icmp6_value_back : forall e c p bs t, cfg_wf c = true -> build e c p = BOk bs ->
  c_transport c = TrIcmpv6 t -> (forall a, c_net c <> NtArp a) ->
  Icmp6.wf_icmp6_type t = true ->
  exists ck, ck < 65536 /\
    let seg := drop (off_transport c) bs in
    let h := {| Icmp6.icmp6_type := t; Icmp6.icmp6_checksum := ck |} in
    Icmp6.icmp6_read seg = Roundtrip.Common.Ok (h, p) /\
    Icmp6.icmp6_from_slice seg = Roundtrip.Common.Ok (h, p) /\
    CtlMsg.Spec.icmp6 seg = CtlMsg.Spec.Ok (t, p) /\
    CtlMsg.Model.Icmpv6Slice.view seg = CtlMsg.Spec.Ok (t, p).
Proof. exact icmp6_value_back. Qed.
Print Assumptions C10_icmp6_value_back.

(* ==== what is guaranteed where C10_parse_back does not apply ====
   (size, no panic, length fields, IPv4 checksum, transport checksums, next-protocol bytes and
   C10_layers_as_configured have no payload hypothesis: they hold there anyway)

   For EVERY well-formed configuration that builds -- any ip number in write(ip_number, ..), any
   ICMP payload size: the link layer, every VLAN tag and the fixed IP header are accepted exactly
   as configured (link_view = the link / VLAN windows of expected_x), and the decoder continues
   with its extension-header / transport stage over exactly the rest of the packet. *)
Theorem C10_parse_back_upto_ip : forall e c p bs, cfg_wf c = true -> build e c p = BOk bs ->
  match c_net c with
  | NtIpv4 h _ =>
      wire_entry c bs = wire_ipv4_tail bs (link_view c (len bs)) (off_net c) (Ipv4.ip4_header_len h) (len bs)
  | NtIpv6 _ _ =>
      wire_entry c bs = wire_ipv6_tail bs (link_view c (len bs)) LsIpv6HeaderPayloadLen LsIpv6HeaderPayloadLen
                                       (off_net c) (len bs)
  | NtArp _ => wire_entry c bs = VOk (expected_x c (len p))
  end.
Proof. exact parse_back_upto_ip. Qed.
Print Assumptions C10_parse_back_upto_ip.

(* chain_ok: the announced number is not read as a further extension header (always true for
   udp / tcp / icmp; for write(n, ..): n <> 51 over IPv4, n not in {0, 43, 44, 51, 60} over IPv6).
   Then link, VLAN, IP header AND every configured extension header parse back as configured
   (upto_net = expected_x without transport layer: the IP payload window is
   (off_transport, header_len + |p|) = the emitted transport bytes), and the decoder's answer is
   that of its transport stage on those bytes.  This covers write(1 | 6 | 17 | 58, ..) -- the
   payload is then read as an ICMPv4 / TCP / UDP / ICMPv6 message -- and ICMPv4 timestamps of
   any size. *)
Theorem C10_parse_back_upto_transport : forall e c p bs,
  cfg_wf c = true -> build e c p = BOk bs -> chain_ok c = true ->
  match c_net c with
  | NtArp _ => True
  | _ =>
    off_transport c + tr_header_len (c_transport c) + len p = len bs /\
    wire_entry c bs =
      wire_transport bs (upto_net c (len p)) (tr_ip_number (c_transport c)) (is_fragmented_x c) (ip_len_src c)
                     (off_transport c) (len bs)
  end.
Proof. exact parse_back_upto_transport. Qed.
Print Assumptions C10_parse_back_upto_transport.

(* the decoder's answer for an ICMPv4 timestamp / timestamp reply message (typed variant, or raw
   type 13 / 14 code 0) whose size is not 20 bytes: a Len error `required 20`, with the actual
   message size, the IP length field as source, the timestamp layer and the transport offset *)
Theorem C10_timestamp_wrong_size_rejected : forall e c p bs t, cfg_wf c = true -> build e c p = BOk bs ->
  c_transport c = TrIcmpv4 t -> (forall a, c_net c <> NtArp a) ->
  is_fragmented_x c = false -> icmp4_admits t (len p) = false ->
  wire_entry c bs =
    VErr (ELen (mkLenError 20 (Icmp4.icmp4_type_header_len t + len p) (ip_len_src c) (ts_layer t)
                           (off_transport c))).
Proof. exact timestamp_wrong_size_rejected. Qed.
Print Assumptions C10_timestamp_wrong_size_rejected.

(* the exclusions of payload_admitted are necessary: for every excluded ip number (IPv4: 1, 6,
   17, 58, 51; IPv6: additionally 0, 43, 44, 60) and for timestamp messages of the wrong size there
   is a well-formed configuration that builds and whose packet the decoder does NOT read back as
   the configured view.  `refutes c p` = cfg_wf c /\ payload_admitted c |p| = false /\
   build LE c p = BOk bs /\ wire_entry c bs <> VOk (expected_x c |p|). *)
Theorem C10_parse_back_refuted_raw4 :
  Forall (fun n => refutes (wit_cfg4 (TrNone n)) wit_payload) [1; 6; 17; 58; 51].
Proof. exact parse_back_refuted_raw4. Qed.
Print Assumptions C10_parse_back_refuted_raw4.
Theorem C10_parse_back_refuted_raw6 :
  Forall (fun n => refutes (wit_cfg6 (TrNone n)) wit_payload) [1; 6; 17; 58; 51; 0; 43; 44; 60].
Proof. exact parse_back_refuted_raw6. Qed.
Print Assumptions C10_parse_back_refuted_raw6.
Theorem C10_parse_back_refuted_timestamp :
  refutes (wit_cfg4 (TrIcmpv4 (CtlMsg.Spec.V4TimestampRequest wit_ts))) wit_payload /\
  refutes (wit_cfg4 (TrIcmpv4 (CtlMsg.Spec.V4TimestampReply wit_ts))) [9] /\
  refutes (wit_cfg4 (TrIcmpv4 (CtlMsg.Spec.V4Unknown 13 0 0 1 0 2))) wit_payload /\
  refutes (wit_cfg6 (TrIcmpv4 (CtlMsg.Spec.V4Unknown 14 0 0 1 0 2))) (repeat 7 13).
Proof. exact parse_back_refuted_timestamp. Qed.
Print Assumptions C10_parse_back_refuted_timestamp.

(* statement pinning *)
Check (C10_size : forall e c p bs, cfg_wf c = true -> build e c p = BOk bs -> len bs = final_size c (len p)).
Check (C10_never_panics : forall e c p s, cfg_wf c = true -> build e c p <> BPanic s).
Check (C10_errors : forall e c p er, cfg_wf c = true ->
  (build e c p = BErr er <-> spec_outcome c (len p) = OErr er)).

Check (C10_parse_back : forall e c p bs,
  cfg_wf c = true -> payload_admitted c (len p) = true -> build e c p = BOk bs ->
  wire_entry c bs = VOk (expected_x c (len p))).
Check (C10_checksums_verify : forall e c p bs,
  cfg_wf c = true -> bytes_ok p -> build e c p = BOk bs ->
  let seg := drop (off_transport c) bs in
  let k := ck_field_off (c_transport c) in
  match ck_pseudo c (len seg) with
  | None => True
  | Some ph =>
      len seg = tr_header_len (c_transport c) + len p /\ off_transport c + len seg = len bs /\
      k + 2 <= tr_header_len (c_transport c) /\
      verifies (ph ++ seg) /\
      W bs (off_transport c + k) = ck_value (c_transport c) (rfc1071 (ph ++ zero16_at k seg))
  end).

(* ---- non-vacuity: the crate's documentation example (ethernet2 / ipv4 / udp, 8 byte payload),
   the same with a VLAN tag and ICMPv6 (error), and a payload one byte too long *)
Definition ex_ip4 : Ipv4.Ipv4Header :=
  {| Ipv4.i4_dscp := 0; Ipv4.i4_ecn := 0; Ipv4.i4_total_len := 0; Ipv4.i4_identification := 0;
     Ipv4.i4_dont_fragment := true; Ipv4.i4_more_fragments := false; Ipv4.i4_fragment_offset := 0;
     Ipv4.i4_time_to_live := 20; Ipv4.i4_protocol := 255; Ipv4.i4_header_checksum := 0;
     Ipv4.i4_source := [192; 168; 1; 1]; Ipv4.i4_destination := [192; 168; 1; 2];
     Ipv4.i4_options := {| Ipv4.i4o_len := 0; Ipv4.i4o_buf := repeat 0 40 |} |}.
Definition ex_cfg : cfg :=
  mkCfg (LkEthernet2 [1; 2; 3; 4; 5; 6] [7; 8; 9; 10; 11; 12]) VlNone
        (NtIpv4 ex_ip4 (ExtChain.Model.mkExts4 None)) (TrUdp 21 1234).
Definition ex_payload : bytes := [1; 2; 3; 4; 5; 6; 7; 8].
Definition ex_bytes : bytes :=
  [7; 8; 9; 10; 11; 12; 1; 2; 3; 4; 5; 6; 8; 0;
   69; 0; 0; 36; 0; 0; 64; 0; 20; 17; 227; 117; 192; 168; 1; 1; 192; 168; 1; 2;
   0; 21; 4; 210; 0; 16; 103; 127; 1; 2; 3; 4; 5; 6; 7; 8].
Example C10_ex_wf : cfg_wf ex_cfg = true /\ parse_pre ex_cfg 8 = true /\ bytes_ok ex_payload.
Proof. split; [vm_compute; reflexivity|split; [vm_compute; reflexivity|]]. apply bytes_okb_spec. vm_compute. reflexivity. Qed.
Example C10_ex_build : build LE ex_cfg ex_payload = BOk ex_bytes /\ build BE ex_cfg ex_payload = BOk ex_bytes
  /\ final_size ex_cfg 8 = 50 /\ spec_outcome ex_cfg 8 = OOk.
Proof. repeat split; vm_compute; reflexivity. Qed.
(* the full parse-back statement holds on the example *)
Example C10_ex_parse_back : wire_ethernet ex_bytes = VOk (expected ex_cfg 8).
Proof. vm_compute. reflexivity. Qed.
Example C10_ex_verifies :
  verifies (take 20 (drop 14 ex_bytes)) /\
  verifies (pseudo4 [192; 168; 1; 1] [192; 168; 1; 2] 17 16 ++ drop 34 ex_bytes).
Proof. split; vm_compute; reflexivity. Qed.
(* error outcomes *)
Definition ex_cfg_icmp6 : cfg :=
  mkCfg (c_link ex_cfg) (VlSingle (BitFields.Model.mkVlan 0 false 5 0)) (c_net ex_cfg) (TrIcmpv6 (CtlMsg.Spec.V6EchoRequest 1 2)).
Example C10_ex_icmpv6_in_ipv4 : cfg_wf ex_cfg_icmp6 = true /\
  build LE ex_cfg_icmp6 [1] = BErr EIcmpv6InIpv4 /\ spec_outcome ex_cfg_icmp6 1 = OErr EIcmpv6InIpv4 /\
  len (snd (build_run LE ex_cfg_icmp6 [1])) = 38.
Proof. repeat split; vm_compute; reflexivity. Qed.
Example C10_ex_too_long : spec_outcome ex_cfg 65508 = OErr (EPayloadLen 65516 65515 VtIpv4PayloadLength)
  /\ spec_outcome ex_cfg 65507 = OOk.
Proof. split; vm_compute; reflexivity. Qed.

(* TCP with options over IPv6 behind two VLAN tags and a hop-by-hop + fragment header chain:
   the hypotheses of C10_checksums_verify / C10_next_protocol_fields are satisfiable, the
   statements are not vacuous (ck_pseudo = Some, chain of two headers) *)
Definition ex_tcp : Tcp.TcpHeader :=
  {| Tcp.source_port := 80; Tcp.destination_port := 40000; Tcp.sequence_number := 305419896;
     Tcp.acknowledgment_number := 2271560481; Tcp.ns := true; Tcp.fin := false; Tcp.syn := true;
     Tcp.rst := false; Tcp.psh := true; Tcp.ack := true; Tcp.urg := false; Tcp.ece := true; Tcp.cwr := false;
     Tcp.window_size := 65535; Tcp.checksum := 0; Tcp.urgent_pointer := 7;
     Tcp.options := {| Tcp.o_len := 4; Tcp.o_buf := [2; 4; 5; 180] ++ repeat 0 36 |} |}.
Definition ex_ip6 : BitFields.Model.Ipv6Header :=
  BitFields.Model.mkIpv6 5 74565 0 0 64 [32;1;13;184;0;0;0;0;0;0;0;0;0;0;0;1] [254;128;0;0;0;0;0;0;2;0;0;255;254;0;0;9].
Definition ex_exts6 : ExtChain.Model.Exts6 :=
  ExtChain.Model.mkExts6 (Some (ExtChain.Model.mkRaw 0 0 [1; 4; 0; 0; 0; 0])) None None
                         (Some (ExtChain.Model.mkFrag 0 0 false 99)) None.
Definition ex_cfg_tcp6 : cfg :=
  mkCfg (c_link ex_cfg) (VlDouble (BitFields.Model.mkVlan 1 false 100 0) (BitFields.Model.mkVlan 2 true 200 0))
        (NtIpv6 ex_ip6 ex_exts6) (TrTcp ex_tcp).
Example C10_ex_tcp6 :
  cfg_wf ex_cfg_tcp6 = true /\ chain_pre ex_cfg_tcp6 = true /\
  ext_layout ex_cfg_tcp6 = [(ExtChain.Spec.KHopByHop, 8); (ExtChain.Spec.KFragment, 8)] /\
  exists bs, build LE ex_cfg_tcp6 [1; 2; 3] = BOk bs /\ len bs = 105 /\
    ck_pseudo ex_cfg_tcp6 27 = Some (pseudo6 (BitFields.Model.v6_source ex_ip6) (BitFields.Model.v6_destination ex_ip6) 27 6) /\
    verifies (pseudo6 (BitFields.Model.v6_source ex_ip6) (BitFields.Model.v6_destination ex_ip6) 27 6 ++ drop 78 bs) /\
    W bs 12 = 34984 /\ W bs 16 = 33024 /\ W bs 20 = 34525 /\ B bs 28 = 0 /\ B bs 62 = 44 /\ B bs 70 = 6.
Proof.
  split; [vm_compute; reflexivity|]. split; [vm_compute; reflexivity|]. split; [vm_compute; reflexivity|].
  eexists. split; [vm_compute; reflexivity|]. vm_compute. repeat split; reflexivity.
Qed.

(* parse-back is not vacuous: the TCP/IPv6 example above is admitted, builds, and the
   decoder returns the expected view (two VLAN tags, hop-by-hop + fragment header, TCP) *)
Example C10_ex_parse_back_x :
  payload_admitted ex_cfg_tcp6 3 = true /\
  exists bs, build LE ex_cfg_tcp6 [1; 2; 3] = BOk bs /\ wire_ethernet bs = VOk (expected_x ex_cfg_tcp6 3) /\
    v_transport (expected_x ex_cfg_tcp6 3) = Some (VTcp 24 (78, 27)) /\
    v_net (expected_x ex_cfg_tcp6 3)
    = Some (VIpv6 (22, 40) (Some 0) false (62, 16) (mkVIp 6 false LsIpv6HeaderPayloadLen (78, 27))).
Proof.
  split; [vm_compute; reflexivity|]. eexists. split; [vm_compute; reflexivity|]. vm_compute.
  repeat split; reflexivity.
Qed.

(* ICMPv6 echo request over IPv6 behind a Linux cooked capture header: checksum with the
   RFC 8200 pseudo header (next header 58, upper-layer length = whole ICMPv6 message) *)
Definition ex_cfg_icmp6_sll : cfg :=
  mkCfg (LkLinuxSll 4 6 [1; 2; 3; 4; 5; 6; 0; 0]) VlNone (NtIpv6 ex_ip6 ExtChain.Model.exts6_default)
        (TrIcmpv6 (CtlMsg.Spec.V6EchoRequest 4660 1)).
Example C10_ex_icmp6 :
  cfg_wf ex_cfg_icmp6_sll = true /\ payload_admitted ex_cfg_icmp6_sll 3 = true /\
  exists bs, build LE ex_cfg_icmp6_sll [104; 105; 33] = BOk bs /\
    ck_pseudo ex_cfg_icmp6_sll 11
      = Some (pseudo6 (BitFields.Model.v6_source ex_ip6) (BitFields.Model.v6_destination ex_ip6) 11 58) /\
    verifies (pseudo6 (BitFields.Model.v6_source ex_ip6) (BitFields.Model.v6_destination ex_ip6) 11 58 ++ drop 56 bs) /\
    W bs 58 = 46807 /\ W bs 14 = 34525 /\ wire_linux_sll bs = VOk (expected_x ex_cfg_icmp6_sll 3).
Proof.
  split; [vm_compute; reflexivity|]. split; [vm_compute; reflexivity|].
  eexists. split; [vm_compute; reflexivity|]. vm_compute. repeat split; reflexivity.
Qed.

(* no link layer: the same packet through wire_from_ip and through wire_ether_type *)
Definition ex_cfg_nolink : cfg := mkCfg LkNone VlNone (c_net ex_cfg) (TrIcmpv4 (CtlMsg.Spec.V4Unknown 13 0 0 1 0 2)).
Example C10_ex_nolink :
  cfg_wf ex_cfg_nolink = true /\ payload_admitted ex_cfg_nolink 12 = true /\
  payload_admitted ex_cfg_nolink 11 = false /\
  exists bs, build LE ex_cfg_nolink (repeat 7 12) = BOk bs /\
    wire_from_ip bs = VOk (expected_x ex_cfg_nolink 12) /\
    wire_ether_type bs 2048
    = VOk (mkVPacket (Some (VEtherPayload (mkVEp 2048 LsSlice (0, 40)))) []
                     (v_net (expected_x ex_cfg_nolink 12)) (Some (VIcmpv4 (20, 20)))) /\
    verifies (drop 20 bs).
Proof.
  split; [vm_compute; reflexivity|]. split; [vm_compute; reflexivity|]. split; [vm_compute; reflexivity|].
  eexists. split; [vm_compute; reflexivity|]. vm_compute. repeat split; reflexivity.
Qed.

(* ---- typed ICMP kinds: non-vacuity with boundary field values ----
   ICMPv4 DestinationUnreachable / FragmentationNeeded (next-hop MTU 0xffff) over IPv6 behind a
   hop-by-hop + fragment header chain and two VLAN tags; TimestampReply (20 byte header, all
   fields at their maximum) with the empty payload; ICMPv6 RouterAdvertisement (M set, O clear)
   and PacketTooBig (MTU 2^32-1) *)
Definition ex_cfg_du : cfg :=
  mkCfg (c_link ex_cfg_tcp6) (c_vlan ex_cfg_tcp6) (NtIpv6 ex_ip6 ex_exts6)
        (TrIcmpv4 (CtlMsg.Spec.V4DestinationUnreachable (CtlMsg.Spec.DuFragmentationNeeded 65535))).
Definition ex_ts : CtlMsg.Spec.TimestampMessage := CtlMsg.Spec.mkTimestamp 65535 65535 4294967295 4294967295 4294967295.
Definition ex_cfg_ts : cfg := mkCfg LkNone VlNone (c_net ex_cfg) (TrIcmpv4 (CtlMsg.Spec.V4TimestampReply ex_ts)).
Definition ex_cfg_ra : cfg :=
  mkCfg (c_link ex_cfg_icmp6_sll) VlNone (c_net ex_cfg_icmp6_sll)
        (TrIcmpv6 (CtlMsg.Spec.V6RouterAdvertisement 255 true false 65535)).
Definition ex_cfg_ptb : cfg :=
  mkCfg LkNone VlNone (c_net ex_cfg_icmp6_sll) (TrIcmpv6 (CtlMsg.Spec.V6PacketTooBig 4294967295)).
Example C10_ex_typed_icmp4 :
  cfg_wf ex_cfg_du = true /\ payload_admitted ex_cfg_du 3 = true /\
  Icmp4.wf_icmp4_type (CtlMsg.Spec.V4DestinationUnreachable (CtlMsg.Spec.DuFragmentationNeeded 65535)) = true /\
  exists bs, build LE ex_cfg_du [1; 2; 3] = BOk bs /\ len bs = final_size ex_cfg_du 3 /\
    drop (off_transport ex_cfg_du) bs = [3; 4; 248; 249; 0; 0; 255; 255; 1; 2; 3] /\
    verifies (drop (off_transport ex_cfg_du) bs) /\
    wire_ethernet bs = VOk (expected_x ex_cfg_du 3) /\
    Icmp4.icmp4_from_slice (drop (off_transport ex_cfg_du) bs)
    = Roundtrip.Common.Ok ({| Icmp4.icmp4_type := CtlMsg.Spec.V4DestinationUnreachable (CtlMsg.Spec.DuFragmentationNeeded 65535);
                              Icmp4.icmp4_checksum := 63737 |}, [1; 2; 3]).
Proof.
  split; [vm_compute; reflexivity|]. split; [vm_compute; reflexivity|]. split; [vm_compute; reflexivity|].
  eexists. split; [vm_compute; reflexivity|]. vm_compute. repeat split; reflexivity.
Qed.
Example C10_ex_typed_timestamp :
  cfg_wf ex_cfg_ts = true /\ tr_header_len (c_transport ex_cfg_ts) = 20 /\
  payload_admitted ex_cfg_ts 0 = true /\ payload_admitted ex_cfg_ts 12 = false /\
  Icmp4.wf_icmp4_type (CtlMsg.Spec.V4TimestampReply ex_ts) = true /\
  exists bs, build LE ex_cfg_ts [] = BOk bs /\ len bs = 40 /\ W bs 2 = 40 /\
    wire_from_ip bs = VOk (expected_x ex_cfg_ts 0) /\
    v_transport (expected_x ex_cfg_ts 0) = Some (VIcmpv4 (20, 20)) /\
    CtlMsg.Spec.icmp4 (drop 20 bs) = CtlMsg.Spec.Ok (CtlMsg.Spec.V4TimestampReply ex_ts, 20, []) /\
    verifies (drop 20 bs).
Proof.
  split; [vm_compute; reflexivity|]. split; [reflexivity|]. split; [vm_compute; reflexivity|].
  split; [vm_compute; reflexivity|]. split; [vm_compute; reflexivity|].
  eexists. split; [vm_compute; reflexivity|]. vm_compute. repeat split; reflexivity.
Qed.
(* the excluded side: the same message with one payload byte is refused with `required 20` *)
Example C10_ex_timestamp_payload :
  icmp4_admits (CtlMsg.Spec.V4TimestampReply ex_ts) 1 = false /\ is_fragmented_x ex_cfg_ts = false /\
  chain_ok ex_cfg_ts = true /\
  exists bs, build LE ex_cfg_ts [7] = BOk bs /\ len bs = final_size ex_cfg_ts 1 /\
    wire_from_ip bs = VErr (ELen (mkLenError 20 21 LsIpv4HeaderTotalLen LyIcmpv4TimestampReply 20)).
Proof.
  split; [vm_compute; reflexivity|]. split; [vm_compute; reflexivity|]. split; [vm_compute; reflexivity|].
  eexists. split; [vm_compute; reflexivity|]. split; vm_compute; reflexivity.
Qed.
Example C10_ex_typed_icmp6 :
  cfg_wf ex_cfg_ra = true /\ cfg_wf ex_cfg_ptb = true /\
  Icmp6.wf_icmp6_type (CtlMsg.Spec.V6RouterAdvertisement 255 true false 65535) = true /\
  (exists bs, build LE ex_cfg_ra [3; 4; 0; 0; 0; 0; 0; 0] = BOk bs /\
     take 8 (drop 56 bs) = [134; 0; B bs 58; B bs 59; 255; 128; 255; 255] /\
     wire_linux_sll bs = VOk (expected_x ex_cfg_ra 8) /\
     CtlMsg.Spec.icmp6 (drop 56 bs)
     = CtlMsg.Spec.Ok (CtlMsg.Spec.V6RouterAdvertisement 255 true false 65535, [3; 4; 0; 0; 0; 0; 0; 0]) /\
     verifies (pseudo6 (BitFields.Model.v6_source ex_ip6) (BitFields.Model.v6_destination ex_ip6) 16 58 ++ drop 56 bs)) /\
  (exists bs, build BE ex_cfg_ptb [] = BOk bs /\
     take 2 (drop 40 bs) = [2; 0] /\ drop 44 bs = [255; 255; 255; 255] /\
     CtlMsg.Spec.icmp6 (drop 40 bs) = CtlMsg.Spec.Ok (CtlMsg.Spec.V6PacketTooBig 4294967295, [])).
Proof.
  split; [vm_compute; reflexivity|]. split; [vm_compute; reflexivity|]. split; [vm_compute; reflexivity|].
  split; eexists; (split; [vm_compute; reflexivity|]); vm_compute; repeat split; reflexivity.
Qed.
(* a raw Unknown that names a typed kind is read as that kind: not wf_icmp4_type, the value
   theorem does not apply, the window theorem C10_parse_back does *)
Example C10_ex_raw_named :
  let c := mkCfg LkNone VlNone (c_net ex_cfg) (TrIcmpv4 (CtlMsg.Spec.V4Unknown 8 0 0 1 0 2)) in
  cfg_wf c = true /\ Icmp4.wf_icmp4_type (CtlMsg.Spec.V4Unknown 8 0 0 1 0 2) = false /\
  payload_admitted c 1 = true /\
  exists bs, build LE c [9] = BOk bs /\ wire_from_ip bs = VOk (expected_x c 1) /\
    CtlMsg.Spec.icmp4 (drop 20 bs) = CtlMsg.Spec.Ok (CtlMsg.Spec.V4EchoRequest 1 2, 8, [9]).
Proof.
  cbv zeta. split; [vm_compute; reflexivity|]. split; [vm_compute; reflexivity|]. split; [vm_compute; reflexivity|].
  eexists. split; [vm_compute; reflexivity|]. split; vm_compute; reflexivity.
Qed.
(* write(17, ..): chain_ok holds, the decoder reaches the transport position with the configured
   layers and reads the raw payload as a UDP header *)
Example C10_ex_raw_udp :
  let c := wit_cfg4 (TrNone 17) in
  cfg_wf c = true /\ chain_ok c = true /\ payload_admitted c 3 = false /\
  exists bs, build LE c wit_payload = BOk bs /\ drop (off_transport c) bs = wit_payload /\
    wire_ethernet bs = wire_transport bs (upto_net c 3) 17 false LsIpv4HeaderTotalLen 38 41 /\
    wire_ethernet bs = VErr (ELen (mkLenError 8 3 LsIpv4HeaderTotalLen LyUdpHeader 38)).
Proof.
  cbv zeta. split; [vm_compute; reflexivity|]. split; [vm_compute; reflexivity|]. split; [vm_compute; reflexivity|].
  eexists. split; [vm_compute; reflexivity|]. repeat split; vm_compute; reflexivity.
Qed.
(* write(51, ..) over IPv4 (authentication header number, excluded from C10_parse_back): link, VLAN
   tag and IP header are accepted as configured (C10_parse_back_upto_ip); the decoder then reads an
   authentication header out of the 3 payload bytes and fails there *)
Example C10_ex_upto_ip :
  let c := wit_cfg4 (TrNone 51) in
  cfg_wf c = true /\ chain_ok c = false /\
  exists bs, build LE c wit_payload = BOk bs /\ len bs = 41 /\ B bs 27 = 51 /\ W bs 20 = 23 /\
    link_view c 41 = mkVPacket (Some (VEthernet2 (0, 41))) [VVlan (14, 27)] None None /\
    wire_ethernet bs = wire_ipv4_tail bs (link_view c 41) 18 20 41 /\
    wire_ethernet bs = VErr (ELen (mkLenError 12 3 LsIpv4HeaderTotalLen LyIpAuthHeader 38)).
Proof.
  cbv zeta. split; [vm_compute; reflexivity|]. split; [vm_compute; reflexivity|].
  eexists. split; [vm_compute; reflexivity|]. repeat split; vm_compute; reflexivity.
Qed.
(* hypotheses of C10_icmp4_timestamp_payload_rejected are satisfiable: TimestampReply + one byte *)
Example C10_ex_timestamp_payload_slice :
  Icmp4.icmp4_type_header_len (CtlMsg.Spec.V4TimestampReply ex_ts) = 20 /\
  exists bs, build LE ex_cfg_ts [7] = BOk bs /\ len (drop 20 bs) = 21 /\
    Icmp4.icmp4_from_slice (drop 20 bs) = Roundtrip.Common.Err Roundtrip.Common.ELen /\
    (exists h, Icmp4.icmp4_read (drop 20 bs) = Roundtrip.Common.Ok (h, [7])
               /\ Icmp4.icmp4_type h = CtlMsg.Spec.V4TimestampReply ex_ts).
Proof.
  split; [reflexivity|]. eexists. split; [vm_compute; reflexivity|].
  split; [vm_compute; reflexivity|]. split; [vm_compute; reflexivity|].
  eexists. split; vm_compute; reflexivity.
Qed.

(* ==================================================================================================
   Audit follow-up (round 1 audit, notes/audit1/C10.md): the clauses of the property statement that
   were reached only indirectly.
   ================================================================================================== *)
From EP Require Parse.Slices Parse.Cursor Parse.StrictProofs.
From EP Require IoFault.Spec IoFault.Model IoFault.Proofs.
From EP Require Roundtrip.Eth Roundtrip.Sll Roundtrip.Vlan Roundtrip.Ipv6 Roundtrip.Arp Roundtrip.Udp.
From EP Require Import Builder.ProofsCrate Builder.ProofsSinks Builder.ProofsLink.

(* ---- "strict parsing accepts them": the model of the CRATE's slicer, not only the reference decoder ----
   every byte of a built packet is a byte.  Premises: cfg_wf (it contains bytes_okb of every
   address / option / ICV buffer of the configuration) and bytes_ok of the payload. *)
Theorem C10_build_bytes_ok : forall e c p bs,
  cfg_wf c = true -> bytes_ok p -> build e c p = BOk bs -> bytes_ok bs.
Proof. exact build_bytes_ok. Qed.
Print Assumptions C10_build_bytes_ok.

(* crate_entry c = SlicedPacket::from_ethernet / from_linux_sll / from_ip (Parse/Cursor.v, the
   transliteration of the crate's slicers that C03 refines against the reference decoder), chosen by
   the link layer of the builder.  Composition of C10_parse_back with C03's from_*_rel
   (Parse/StrictProofs.v) through C10_build_bytes_ok: the crate-side slicer returns Ok, and the
   observer view of its result (windows, protocol numbers, fragmentation flags, length sources) is
   exactly the configured layout expected_x. *)
Theorem C10_crate_parse_back : forall e c p bs,
  cfg_wf c = true -> bytes_ok p -> payload_admitted c (len p) = true -> build e c p = BOk bs ->
  exists sp, crate_entry c bs = Ok sp /\ view sp = expected_x c (len p).
Proof. exact crate_parse_back. Qed.
Print Assumptions C10_crate_parse_back.

Theorem C10_crate_parse_back_ether_type : forall e c p bs,
  cfg_wf c = true -> bytes_ok p -> payload_admitted c (len p) = true -> build e c p = BOk bs ->
  c_link c = LkNone ->
  let x := expected_x c (len p) in
  exists sp, EP.Parse.Cursor.SlicedPacket.from_ether_type (net_ether_type (c_net c)) bs = Ok sp /\
    view sp = mkVPacket (Some (VEtherPayload (mkVEp (net_ether_type (c_net c)) LsSlice (0, len bs))))
                        (v_exts x) (v_net x) (v_transport x).
Proof. exact crate_parse_back_ether_type. Qed.
Print Assumptions C10_crate_parse_back_ether_type.

(* whatever the payload: no entry point of the slicer model reaches a Bug value on built bytes *)
Theorem C10_crate_never_bug : forall e c p bs et b, cfg_wf c = true -> bytes_ok p -> build e c p = BOk bs ->
  EP.Parse.Cursor.SlicedPacket.from_ethernet bs <> Bug b /\ EP.Parse.Cursor.SlicedPacket.from_linux_sll bs <> Bug b /\
  EP.Parse.Cursor.SlicedPacket.from_ether_type et bs <> Bug b /\ EP.Parse.Cursor.SlicedPacket.from_ip bs <> Bug b.
Proof. exact crate_never_bug. Qed.
Print Assumptions C10_crate_never_bug.

(* ---- "identical through write, write_to_vec and write_to_slice" ----
   C16 (IoFault/Model.v) models final_write_with_net as a write program over abstract part
   encodings (bcfg) and proves what each sink makes of such a program.  bcfg_of e c p
   (Builder/ProofsSinks.v) instantiates the parts with the encodings of this model.
   C10_sink_bridge: that program writes exactly the bytes and ends with exactly the verdict of
   build_run, for EVERY well-formed configuration (error outcomes included); its declared part
   lengths are the lengths of the encodings (bcfg_wf, the hypothesis of C16_builder_space) and
   C16's final_size is this model's final_size. *)
Theorem C10_sink_bridge : forall e c p, cfg_wf c = true ->
  let prog := IO.final_write_with_net (bcfg_of e c p) p in
  IO.wprog_bytes prog = snd (build_run e c p) /\
  IO.wprog_verdict prog = verdict_of (fst (build_run e c p)) /\
  IOP.bcfg_wf (bcfg_of e c p) /\
  forall n, IO.final_size (bcfg_of e c p) n = final_size c n.
Proof.
  exact (fun e c p W => conj (proj1 (bridge e c p W)) (conj (proj2 (bridge e c p W))
           (conj (bcfg_of_wf e c p) (fun n => size_bridge e c p n W)))).
Qed.
Print Assumptions C10_sink_bridge.

(* Instantiating C16_builder_space / C16_builder_write_fault / the VecWriter with it: with
   (v, out) = build_run e c p,
     write_to_vec   returns v and appends exactly out;
     write          into a sink failing at byte k: k >= |out| -> returns v, the sink holds out;
                    k < |out| -> Err(Io), the sink holds the first k bytes of out;
     write_to_slice |buffer| < size() -> Space(size()), buffer untouched; otherwise returns v
                    (Ok carries size()), the buffer starts with out, the rest is untouched;
   |out| <= size(), with equality on success. *)
Theorem C10_three_sinks : forall e c p, cfg_wf c = true ->
  let b := bcfg_of e c p in
  let out := snd (build_run e c p) in
  let v := verdict_of (fst (build_run e c p)) in
  let size := final_size c (len p) in
  IO.run_w IO.vec_write_all (IO.final_write_with_net b p) [] = (IO.ret_of v, out) /\
  (forall k chunk zero, 1 <= chunk ->
     let r := IO.builder_write b p (IOP.fresh_sink k chunk zero) in
     (len out <= k -> fst r = IO.ret_of v /\ IOS.fs_got (snd r) = out) /\
     (k < len out -> fst r = IO.RIo (if zero then IOS.KWriteZero else IOS.KOther) /\
                     IOS.fs_got (snd r) = take k out)) /\
  (forall buffer,
     (len buffer < size -> IO.final_write_to_slice b buffer p = (IO.BSpace size, buffer)) /\
     (size <= len buffer ->
        IO.final_write_to_slice b buffer p = (IOP.bres_of size v, out ++ drop (len out) buffer))) /\
  len out <= size /\ (v = IO.VOk -> len out = size).
Proof. exact three_sinks. Qed.
Print Assumptions C10_three_sinks.

(* the successful case: all three sinks deliver `build e c p`; write_to_slice needs exactly size() bytes *)
Theorem C10_three_sinks_ok : forall e c p bs, cfg_wf c = true -> build e c p = BOk bs ->
  let b := bcfg_of e c p in
  let size := final_size c (len p) in
  len bs = size /\
  IO.run_w IO.vec_write_all (IO.final_write_with_net b p) [] = (IO.ROk, bs) /\
  (forall k chunk zero, 1 <= chunk -> size <= k ->
     let r := IO.builder_write b p (IOP.fresh_sink k chunk zero) in fst r = IO.ROk /\ IOS.fs_got (snd r) = bs) /\
  (forall buffer,
     (len buffer < size -> IO.final_write_to_slice b buffer p = (IO.BSpace size, buffer)) /\
     (size <= len buffer -> IO.final_write_to_slice b buffer p = (IO.BOk size, bs ++ drop size buffer))).
Proof. exact three_sinks_ok. Qed.
Print Assumptions C10_three_sinks_ok.

(* Builder.Model.write_to_slice (result value only) is the result of C16's final_write_to_slice *)
Theorem C10_model_write_to_slice : forall e c p buffer, cfg_wf c = true ->
  write_to_slice e c (len buffer) p = sres_of (fst (IO.final_write_to_slice (bcfg_of e c p) buffer p)) c e p.
Proof. exact model_write_to_slice_is_c16. Qed.
Print Assumptions C10_model_write_to_slice.

(* ---- "parsing recovers the supplied addresses": through the crate's header decoders ----
   C08 models of Ethernet2Header / LinuxSllHeader / SingleVlanHeader / Ipv6Header / ArpPacket /
   UdpHeader ::from_slice applied to the built bytes at the computed offsets return the configured
   structs (eth_of / sll_of / vl_of / ip6_of / arp_of / udp_of: the supplied fields, the ether type /
   next header / length fields as derived) and the rest of the packet.  IPv4 / TCP / ICMP / extension
   headers: C10_parse_back_ipv4_header_partial, C10_parse_back_tcp_partial, C10_icmp*_value_back,
   C10_layers_as_configured. *)
Theorem C10_link_values_back : forall e c p bs, cfg_wf c = true -> build e c p = BOk bs ->
  match c_link c with
  | LkNone => True
  | LkEthernet2 s d =>
      Eth.eth_from_slice bs = Roundtrip.Common.Ok (eth_of s d (link_announces c), drop 14 bs)
  | LkLinuxSll pt vl a =>
      Sll.sll_from_slice bs = Roundtrip.Common.Ok (sll_of pt vl a (net_et c), drop 16 bs)
  end /\
  match c_vlan c with
  | VlNone => True
  | VlSingle v =>
      Vlan.vl_from_slice (drop (off_vlan c) bs)
      = Roundtrip.Common.Ok (vl_of (vlan_set_ether_type v (net_et c)), drop (off_vlan c + 4) bs)
  | VlDouble o i =>
      Vlan.vl_from_slice (drop (off_vlan c) bs)
      = Roundtrip.Common.Ok (vl_of (vlan_set_ether_type o 33024), drop (off_vlan c + 4) bs) /\
      Vlan.vl_from_slice (drop (off_vlan c + 4) bs)
      = Roundtrip.Common.Ok (vl_of (vlan_set_ether_type i (net_et c)), drop (off_vlan c + 8) bs)
  end /\
  match c_net c with
  | NtIpv4 _ _ => True
  | NtIpv6 h x =>
      Ipv6.ip6_from_slice (drop (off_net c) bs)
      = Roundtrip.Common.Ok (ip6_of (v6_final h x (c_transport c) (len p)), drop (off_net c + 40) bs)
  | NtArp a => Arp.arp_from_slice (drop (off_net c) bs) = Roundtrip.Common.Ok (arp_of a)
  end /\
  match c_net c, c_transport c with
  | NtArp _, _ => True
  | _, TrUdp sp dp =>
      exists ck, ck < 65536 /\
        Udp.udp_from_slice (drop (off_transport c) bs) = Roundtrip.Common.Ok (udp_of sp dp (8 + len p) ck, p)
  | _, _ => True
  end.
Proof. exact link_values_back. Qed.
Print Assumptions C10_link_values_back.

(* ---- the ICMP value theorems: what the hypothesis beyond cfg_wf excludes ----
   wf_icmp4_type / wf_icmp6_type = the field ranges (part of cfg_wf) AND "a raw Unknown{type, code}
   does not name a typed kind".  With cfg_wf the hypothesis is exactly the second part, and it
   concerns only icmpv4_raw / icmpv6_raw values: *)
Theorem C10_icmp_wf_gap :
  (forall t, icmp4_cfg_wf t = true -> Icmp4.wf_icmp4_type t = negb (icmp4_raw_names_typed t)) /\
  (forall t, icmp6_cfg_wf t = true -> Icmp6.wf_icmp6_type t = negb (icmp6_raw_names_typed t)).
Proof. exact (conj icmp4_wf_gap icmp6_wf_gap). Qed.
Print Assumptions C10_icmp_wf_gap.

(* the (type, code) pairs a raw value must not name -- complete sweep over 256 x 256 *)
Theorem C10_icmp_typed_pairs :
  filter (fun q => Icmp4.icmp4_typed (fst q) (snd q)) all_pairs = icmp4_typed_pairs /\
  filter (fun q => Icmp6.icmp6_typed (fst q) (snd q)) all_pairs = icmp6_typed_pairs.
Proof. exact icmp_typed_pairs_exact. Qed.
Print Assumptions C10_icmp_typed_pairs.

Theorem C10_icmp4_value_back_cfg : forall e c p bs t, cfg_wf c = true -> build e c p = BOk bs ->
  c_transport c = TrIcmpv4 t -> (forall a, c_net c <> NtArp a) ->
  icmp4_raw_names_typed t = false ->
  exists ck, ck < 65536 /\
    let seg := drop (off_transport c) bs in
    let h := {| Icmp4.icmp4_type := t; Icmp4.icmp4_checksum := ck |} in
    Icmp4.icmp4_read seg = Roundtrip.Common.Ok (h, p) /\
    (Icmp4.icmp4_type_header_len t = 8 \/ p = [] ->
     Icmp4.icmp4_from_slice seg = Roundtrip.Common.Ok (h, p) /\
     CtlMsg.Spec.icmp4 seg = CtlMsg.Spec.Ok (t, Icmp4.icmp4_type_header_len t, p) /\
     CtlMsg.Model.Icmpv4Slice.view seg = CtlMsg.Spec.Ok (t, Icmp4.icmp4_type_header_len t, p)).
Proof. exact icmp4_value_back_cfg. Qed.
Print Assumptions C10_icmp4_value_back_cfg.

Theorem C10_icmp6_value_back_cfg : forall e c p bs t, cfg_wf c = true -> build e c p = BOk bs ->
  c_transport c = TrIcmpv6 t -> (forall a, c_net c <> NtArp a) ->
  icmp6_raw_names_typed t = false ->
  exists ck, ck < 65536 /\
    let seg := drop (off_transport c) bs in
    let h := {| Icmp6.icmp6_type := t; Icmp6.icmp6_checksum := ck |} in
    Icmp6.icmp6_read seg = Roundtrip.Common.Ok (h, p) /\
    Icmp6.icmp6_from_slice seg = Roundtrip.Common.Ok (h, p) /\
    CtlMsg.Spec.icmp6 seg = CtlMsg.Spec.Ok (t, p) /\
    CtlMsg.Model.Icmpv6Slice.view seg = CtlMsg.Spec.Ok (t, p).
Proof. exact icmp6_value_back_cfg. Qed.
Print Assumptions C10_icmp6_value_back_cfg.

(* statement pinning *)
Check (C10_build_bytes_ok : forall e c p bs,
  cfg_wf c = true -> bytes_ok p -> build e c p = BOk bs -> bytes_ok bs).
Check (C10_crate_parse_back : forall e c p bs,
  cfg_wf c = true -> bytes_ok p -> payload_admitted c (len p) = true -> build e c p = BOk bs ->
  exists sp, crate_entry c bs = Ok sp /\ view sp = expected_x c (len p)).

(* ---- non-vacuity of the follow-up theorems ---- *)
(* the documentation example through the crate's slicer model *)
Example C10_ex_crate_parse_back :
  cfg_wf ex_cfg = true /\ bytes_ok ex_payload /\ payload_admitted ex_cfg 8 = true /\ bytes_ok ex_bytes /\
  exists sp, crate_entry ex_cfg ex_bytes = Ok sp /\ view sp = expected_x ex_cfg 8 /\
    v_transport (view sp) = Some (VUdp (34, 16)).
Proof.
  split; [vm_compute; reflexivity|]. split; [apply bytes_okb_spec; vm_compute; reflexivity|].
  split; [vm_compute; reflexivity|]. split; [apply bytes_okb_spec; vm_compute; reflexivity|].
  eexists. split; [vm_compute; reflexivity|]. split; vm_compute; reflexivity.
Qed.
(* two VLAN tags, IPv6 with hop-by-hop + fragment header, TCP with options *)
Example C10_ex_crate_parse_back_x :
  exists bs sp, build LE ex_cfg_tcp6 [1; 2; 3] = BOk bs /\ bytes_ok bs /\
    EP.Parse.Cursor.SlicedPacket.from_ethernet bs = Ok sp /\ view sp = expected_x ex_cfg_tcp6 3 /\
    v_transport (view sp) = Some (VTcp 24 (78, 27)).
Proof.
  eexists. eexists. split; [vm_compute; reflexivity|]. split; [apply bytes_okb_spec; vm_compute; reflexivity|].
  split; [vm_compute; reflexivity|]. split; vm_compute; reflexivity.
Qed.
(* the three sinks on the documentation example: Vec, slice one byte too short, slice two bytes longer *)
Example C10_ex_three_sinks :
  let b := bcfg_of LE ex_cfg ex_payload in
  IO.run_w IO.vec_write_all (IO.final_write_with_net b ex_payload) [] = (IO.ROk, ex_bytes) /\
  IO.final_size b 8 = 50 /\
  IO.final_write_to_slice b (repeat 9 49) ex_payload = (IO.BSpace 50, repeat 9 49) /\
  IO.final_write_to_slice b (repeat 9 52) ex_payload = (IO.BOk 50, ex_bytes ++ [9; 9]) /\
  fst (IO.builder_write b ex_payload (IOP.fresh_sink 49 7 false)) = IO.RIo IOS.KOther /\
  IOS.fs_got (snd (IO.builder_write b ex_payload (IOP.fresh_sink 49 7 false))) = take 49 ex_bytes /\
  IO.builder_write b ex_payload (IOP.fresh_sink 50 7 false) = (IO.ROk, IOS.mk_fsink 0 7 false ex_bytes) /\
  write_to_slice LE ex_cfg 49 ex_payload = SSpace 50 /\ write_to_slice LE ex_cfg 50 ex_payload = SOk 50.
Proof. cbv zeta. repeat split; vm_compute; reflexivity. Qed.
(* an error outcome through the sinks: ICMPv6 in IPv4 behind a VLAN tag -- link, VLAN, IP header
   (38 bytes) have been written when the error is detected *)
Example C10_ex_three_sinks_err :
  let b := bcfg_of LE ex_cfg_icmp6 [1] in
  IO.run_w IO.vec_write_all (IO.final_write_with_net b [1]) []
    = (IO.RContent IO.CIcmpv6InIpv4, snd (build_run LE ex_cfg_icmp6 [1])) /\
  len (snd (build_run LE ex_cfg_icmp6 [1])) = 38 /\ IO.final_size b 1 = 47 /\
  fst (IO.final_write_to_slice b (repeat 0 47) [1]) = IO.BContent IO.CIcmpv6InIpv4 /\
  IO.final_write_to_slice b (repeat 0 46) [1] = (IO.BSpace 47, repeat 0 46).
Proof. cbv zeta. repeat split; vm_compute; reflexivity. Qed.
(* decoders on built bytes: Ethernet II + two VLAN tags + IPv6; Linux SLL; ARP; UDP *)
Definition ex_arp : ArpPacket := mkArp 1 2048 2 [1; 2; 3; 4; 5; 6] [10; 0; 0; 1] [7; 8; 9; 10; 11; 12] [10; 0; 0; 2].
Definition ex_cfg_arp : cfg :=
  mkCfg (c_link ex_cfg) (VlSingle (BitFields.Model.mkVlan 5 true 1234 0)) (NtArp ex_arp) (TrNone 0).
Example C10_ex_link_values :
  (exists bs, build LE ex_cfg_tcp6 [1; 2; 3] = BOk bs /\
     Eth.eth_from_slice bs
     = Roundtrip.Common.Ok ({| Eth.eth_source := [1; 2; 3; 4; 5; 6]; Eth.eth_destination := [7; 8; 9; 10; 11; 12];
                               Eth.eth_ether_type := 34984 |}, drop 14 bs) /\
     Vlan.vl_from_slice (drop 18 bs)
     = Roundtrip.Common.Ok ({| Vlan.vl_pcp := 2; Vlan.vl_drop_eligible_indicator := true; Vlan.vl_vlan_id := 200;
                               Vlan.vl_ether_type := 34525 |}, drop 22 bs) /\
     exists h6, Ipv6.ip6_from_slice (drop 22 bs) = Roundtrip.Common.Ok (h6, drop 62 bs) /\
       Ipv6.i6_payload_length h6 = 43 /\ Ipv6.i6_next_header h6 = 0 /\ Ipv6.i6_flow_label h6 = 74565 /\
       Ipv6.i6_source h6 = BitFields.Model.v6_source ex_ip6) /\
  (exists bs, build LE ex_cfg_icmp6_sll [104; 105; 33] = BOk bs /\
     Sll.sll_from_slice bs
     = Roundtrip.Common.Ok ({| Sll.sll_packet_type := 4; Sll.sll_arp_hrd_type := 1;
                               Sll.sll_sender_address_valid_length := 6;
                               Sll.sll_sender_address := [1; 2; 3; 4; 5; 6; 0; 0];
                               Sll.sll_protocol_type := Sll.SllEtherType 34525 |}, drop 16 bs)) /\
  (cfg_wf ex_cfg_arp = true /\
   exists bs, build LE ex_cfg_arp [] = BOk bs /\ len bs = 46 /\
     Arp.arp_from_slice (drop 18 bs) = Roundtrip.Common.Ok (arp_of ex_arp) /\
     Arp.arp_operation (arp_of ex_arp) = 2 /\ Arp.arp_target_protocol_addr_buf (arp_of ex_arp) = [10; 0; 0; 2]) /\
  Udp.udp_from_slice (drop 34 ex_bytes)
  = Roundtrip.Common.Ok ({| Udp.udp_source_port := 21; Udp.udp_destination_port := 1234; Udp.udp_length := 16;
                            Udp.udp_checksum := 26495 |}, ex_payload).
Proof.
  split; [|split; [|split]].
  - eexists. split; [vm_compute; reflexivity|]. split; [vm_compute; reflexivity|]. split; [vm_compute; reflexivity|].
    eexists. split; [vm_compute; reflexivity|]. repeat split; vm_compute; reflexivity.
  - eexists. split; vm_compute; reflexivity.
  - split; [vm_compute; reflexivity|]. eexists. split; [vm_compute; reflexivity|]. repeat split; vm_compute; reflexivity.
  - vm_compute. reflexivity.
Qed.
(* which raw values the ICMP value theorems exclude *)
Example C10_ex_raw_names_typed :
  icmp4_raw_names_typed (CtlMsg.Spec.V4Unknown 8 0 0 1 0 2) = true /\
  icmp4_raw_names_typed (CtlMsg.Spec.V4Unknown 8 1 0 1 0 2) = false /\
  icmp4_raw_names_typed (CtlMsg.Spec.V4Unknown 42 0 255 255 255 255) = false /\
  icmp4_raw_names_typed (CtlMsg.Spec.V4EchoRequest 1 2) = false /\
  icmp6_raw_names_typed (CtlMsg.Spec.V6Unknown 128 0 0 1 0 2) = true /\
  icmp6_raw_names_typed (CtlMsg.Spec.V6Unknown 200 7 0 1 0 2) = false /\
  length icmp4_typed_pairs = 29%nat /\ length icmp6_typed_pairs = 28%nat.
Proof. repeat split; vm_compute; reflexivity. Qed.

(* ---- audit round 2 (C10): PacketHeaders on built bytes -----------------------------------------------------
   C10_crate_parse_back proves "strict parsing accepts them and recovers the supplied values" for the
   SlicedPacket family.  Here the same for the header-struct family, by composition (Builder/CutFree.v,
   Builder/HdrOfView.v, Builder/ProofsHeaders.v; no new model):
     C10_crate_parse_back        SlicedPacket::from_* on the built bytes = Ok sp with view expected_x
     C04_headers_eq_slices       PacketHeaders::from_* = (`hagree`) the slicing algorithm CUT in front of the first
                                 IPv6 extension header of a kind whose struct slot is already filled
     C10_cut_free                the cut result is the slicing result sp as soon as, on every header payload from
                                 which sp's extension area was sliced, the cut walk and the uncut walk coincide
                                 (`exts_indep`); C10_chain_cut_free: they coincide when the header payload carries a
                                 chain (Parse/HdrSlots.v) whose kinds never meet a filled slot (`norefill`)
     C10_built_not_stopped       that holds for EVERY built configuration the message type admits: the builder
                                 writes hop-by-hop, destination options, routing, fragment, authentication, final
                                 destination options (the last only together with a routing header), each at most
                                 once; none of the 48 shapes meets a filled slot (the two destination options
                                 headers go to different slots because a routing header lies between them).  So the
                                 C04 exception never applies to a built packet: Cut.from_* true bs =
                                 SlicedPacket.from_* bs and stopped_at_ext = false, for the entry points
                                 from_ethernet / from_ip / from_ether_type.
   C10_headers_parse_back: for every well-formed configuration whose payload the message type admits (the
   hypotheses of C10_crate_parse_back), PacketHeaders::from_ethernet_slice (Ethernet II link) / from_ip_slice (no
   link header) / from_ether_type with the network layer's ether type (no link header) on the built bytes returns
   Ok, and the observer view of the result (Parse/HdrView.v: the window of every header struct + the innermost
   payload) is exactly `hexpected c (len p)` = `hv_of_view` of the expected view expected_x: Ethernet II header
   (0, 14); one (fst w, 4) window per VLAN tag; IPv4 header (+ authentication header) / IPv6 header, first
   next-header, fragmentation flag and the window of all extension headers / ARP packet; the transport header
   window (UDP 8, TCP data offset * 4, ICMPv6 8, ICMPv4 8 or 20 as the parser reads the first two octets:
   `icmp4_parsed_hl`) and the payload behind it; without transport layer (raw ip number, fragmenting
   fragment header / IPv4 fragment) the IP payload descriptor (number, fragmentation flag, length source,
   window).  PacketHeaders has no Linux cooked capture entry point (`hdr_entry c bs = None` there). *)
From EP Require Import Parse.HdrModel Parse.HdrView Parse.HdrCut.
From EP Require Parse.Slices Parse.Cursor Parse.HdrSlots.
From EP Require Import Builder.CutFree Builder.HdrOfView Builder.ProofsHeaders.

(* generic (nothing about the builder): a chain without slot collision is walked identically with and
   without the cut *)
Theorem C10_chain_cut_free : forall nh0 hp L k' nh',
  EP.Parse.HdrSlots.chain hp 0 nh0 L k' nh' ->
  norefill fill_none (map EP.Parse.HdrSlots.item_kind L) = true ->
  is_ext_number nh' = false -> nh' <> IPN_HOP_BY_HOP ->
  Cut.exts_from_slice true nh0 hp = Cut.exts_from_slice false nh0 hp.
Proof. exact exts_cutfree. Qed.
Print Assumptions C10_chain_cut_free.

Theorem C10_cut_free : forall bs et,
  (forall sp, EP.Parse.Cursor.SlicedPacket.from_ethernet bs = Ok sp -> exts_indep sp ->
     Cut.from_ethernet true bs = Ok sp) /\
  (forall sp, EP.Parse.Cursor.SlicedPacket.from_ether_type et bs = Ok sp -> exts_indep sp ->
     Cut.from_ether_type true et bs = Ok sp) /\
  (forall sp, EP.Parse.Cursor.SlicedPacket.from_ip bs = Ok sp -> exts_indep sp -> Cut.from_ip true bs = Ok sp).
Proof. exact cut_free. Qed.
Print Assumptions C10_cut_free.

Check (eq_refl : norefill =
  fix nr (f : fill) (l : list N) : bool :=
    match l with
    | [] => true
    | k :: r => negb (refilled f k) && nr (fill_add f k) r
    end).
Check (eq_refl : exts_indep =
  fun sp => forall v nh hp, EP.Parse.Cursor.sp_net sp = Some (EP.Parse.Cursor.NtIpv6 v) ->
    EP.Parse.Slices.Ipv6HeaderSlice.next_header (EP.Parse.Slices.v6_header v) = Ok nh ->
    Cut.exts_from_slice false nh hp =
      Ok (EP.Parse.Slices.v6_exts v, EP.Parse.Slices.ipp_number (EP.Parse.Slices.v6_payload v),
          EP.Parse.Slices.ipp_slice (EP.Parse.Slices.v6_payload v)) ->
    Cut.exts_from_slice true nh hp = Cut.exts_from_slice false nh hp).

(* the builder's extension order never meets a filled slot: all shapes of Ipv6Extensions *)
Theorem C10_built_order_no_refill : forall x, norefill fill_none (kinds (ext_layout6_full x)) = true.
Proof. exact layout6_norefill. Qed.
Print Assumptions C10_built_order_no_refill.

(* the C04 exception never applies to a built packet *)
Theorem C10_built_not_stopped : forall e c p bs,
  cfg_wf c = true -> bytes_ok p -> payload_admitted c (len p) = true -> build e c p = BOk bs ->
  match c_link c with
  | LkEthernet2 _ _ =>
      Cut.from_ethernet true bs = EP.Parse.Cursor.SlicedPacket.from_ethernet bs /\
      stopped_at_ext (Cut.from_ethernet true bs) = false
  | LkNone =>
      Cut.from_ip true bs = EP.Parse.Cursor.SlicedPacket.from_ip bs /\
      stopped_at_ext (Cut.from_ip true bs) = false /\
      Cut.from_ether_type true (net_ether_type (c_net c)) bs =
        EP.Parse.Cursor.SlicedPacket.from_ether_type (net_ether_type (c_net c)) bs /\
      stopped_at_ext (Cut.from_ether_type true (net_ether_type (c_net c)) bs) = false
  | LkLinuxSll _ _ _ => True
  end.
Proof. exact built_not_stopped. Qed.
Print Assumptions C10_built_not_stopped.

Theorem C10_headers_parse_back : forall e c p bs,
  cfg_wf c = true -> bytes_ok p -> payload_admitted c (len p) = true -> build e c p = BOk bs ->
  (forall r, hdr_entry c bs = Some r -> hvres_of_h r = HOk (hexpected c (len p))) /\
  (c_link c = LkNone ->
   hvres_of_h (PacketHeaders.from_ether_type (net_ether_type (c_net c)) bs) = HOk (hexpected c (len p))).
Proof. exact headers_parse_back. Qed.
Print Assumptions C10_headers_parse_back.

(* pin the meaning *)
Check (eq_refl : hdr_entry =
  fun c bs => match c_link c with
              | LkEthernet2 _ _ => Some (PacketHeaders.from_ethernet_slice bs)
              | LkNone => Some (PacketHeaders.from_ip_slice bs)
              | LkLinuxSll _ _ _ => None
              end).
Check (eq_refl : hexpected = fun c plen => hv_of_view (icmp4_parsed_hl c) (expected_x c plen)).
Check (eq_refl : icmp4_parsed_hl =
  fun c => match c_transport c with
           | TrIcmpv4 t =>
               if ((fst (icmp4_tc t) =? 13) || (fst (icmp4_tc t) =? 14)) && (0 =? snd (icmp4_tc t)) then 20 else 8
           | _ => 8
           end).
Check (eq_refl : hv_of_view =
  fun hl4 x =>
    mkHv (match v_link x with
          | Some (VEthernet2 w) => Some (fst w, 14)
          | Some (VLinuxSll h _) => Some h
          | _ => None
          end)
         (map (fun e => match e with VVlan w => HvVlan (fst w, 4) | VMacsec h _ => HvMacsec h end) (v_exts x))
         (option_map (fun n => match n with
                               | VIpv4 h a _ => HvIpv4 h a
                               | VIpv6 h f fr xw _ => HvIpv6 h f fr xw
                               | VArp w => HvArp w
                               end) (v_net x))
         (option_map (fun t => fst (tr_hdr hl4 t)) (v_transport x))
         (match v_transport x with
          | Some t => snd (tr_hdr hl4 t)
          | None => match v_net x with
                    | Some (VIpv4 _ _ p) | Some (VIpv6 _ _ _ _ p) => HvpIp p
                    | _ => HvpEmpty
                    end
          end)).
Check (eq_refl : tr_hdr =
  fun hl4 t =>
    match t with
    | VUdp w => (HvUdp (fst w, 8), HvpUdp (fst w + 8, snd w - 8))
    | VTcp hl w => (HvTcp (fst w, hl), HvpTcp (fst w + hl, snd w - hl))
    | VIcmpv4 w => (HvIcmpv4 (fst w, hl4), HvpIcmpv4 (fst w + hl4, snd w - hl4))
    | VIcmpv6 w => (HvIcmpv6 (fst w, 8), HvpIcmpv6 (fst w + 8, snd w - 8))
    end).

(* ---- non-vacuity ---- *)
(* Ethernet II / IPv6 with hop-by-hop, routing, fragment (not fragmenting), authentication and final
   destination options headers / UDP with 3 payload bytes.  The hypotheses hold; the layout has five
   extension headers, two of them (routing, final destination options) of the raw kind 43 / 60; struct
   decoding returns exactly hexpected: the 48 byte extension area [54, 102), the UDP header (102, 8) and the
   payload (110, 3); every slot of the struct except the first destination options slot is filled, with the
   windows in wire order *)
Definition ex_exts6_full : ExtChain.Model.Exts6 :=
  ExtChain.Model.mkExts6 (Some (ExtChain.Model.mkRaw 0 0 [1; 4; 0; 0; 0; 0])) None
    (Some (ExtChain.Model.mkRouting (ExtChain.Model.mkRaw 0 0 [0; 0; 0; 0; 0; 0])
             (Some (ExtChain.Model.mkRaw 0 0 [1; 4; 0; 0; 0; 0]))))
    (Some (ExtChain.Model.mkFrag 0 0 false 99))
    (Some (ExtChain.Model.mkAuth 0 7 9 1 [1; 2; 3; 4])).
Definition ex_cfg_v6full : cfg := mkCfg (c_link ex_cfg) VlNone (NtIpv6 ex_ip6 ex_exts6_full) (TrUdp 21 1234).
Example C10_ex_headers_parse_back :
  cfg_wf ex_cfg_v6full = true /\ bytes_ok [1; 2; 3] /\ payload_admitted ex_cfg_v6full 3 = true /\
  ext_layout ex_cfg_v6full =
    [(ExtChain.Spec.KHopByHop, 8); (ExtChain.Spec.KRouting, 8); (ExtChain.Spec.KFragment, 8);
     (ExtChain.Spec.KAuth, 16); (ExtChain.Spec.KFinalDestOpts, 8)] /\
  kinds (ext_layout_full ex_cfg_v6full) = [0; 43; 44; 51; 60] /\
  hexpected ex_cfg_v6full 3 =
    mkHv (Some (0, 14)) [] (Some (HvIpv6 (14, 40) (Some 0) false (54, 48))) (Some (HvUdp (102, 8)))
         (HvpUdp (110, 3)) /\
  exists bs, build LE ex_cfg_v6full [1; 2; 3] = BOk bs /\ len bs = 113 /\
    hdr_entry ex_cfg_v6full bs = Some (PacketHeaders.from_ethernet_slice bs) /\
    hvres_of_h (PacketHeaders.from_ethernet_slice bs) = HOk (hexpected ex_cfg_v6full 3) /\
    stopped_at_ext (Cut.from_ethernet true bs) = false /\
    exists hp hd x, PacketHeaders.from_ethernet_slice bs = Ok hp /\ h_net hp = Some (HnIp (IhV6 hd x)) /\
      map (fun k => option_map win_of (EP.Parse.HdrSlots.slot_get x k))
          [EP.Parse.HdrSlots.SHbh; EP.Parse.HdrSlots.SDest; EP.Parse.HdrSlots.SRoute;
           EP.Parse.HdrSlots.SFdest; EP.Parse.HdrSlots.SFrag; EP.Parse.HdrSlots.SAuth] =
        [Some (54, 8); None; Some (62, 8); Some (94, 8); Some (70, 8); Some (78, 16)].
Proof.
  split; [vm_compute; reflexivity|]. split; [apply bytes_okb_spec; vm_compute; reflexivity|].
  split; [vm_compute; reflexivity|]. split; [vm_compute; reflexivity|]. split; [vm_compute; reflexivity|].
  split; [vm_compute; reflexivity|].
  eexists. split; [vm_compute; reflexivity|]. split; [vm_compute; reflexivity|]. split; [reflexivity|].
  split; [vm_compute; reflexivity|]. split; [vm_compute; reflexivity|].
  do 3 eexists. split; [vm_compute; reflexivity|]. split; [reflexivity|]. vm_compute; reflexivity.
Qed.
(* no link header: from_ip_slice and from_ether_type on a raw Unknown{type 13, code 0} ICMPv4 message of 20
   bytes (the parser reads it as a timestamp message: header 20, payload 0) *)
Example C10_ex_headers_parse_back_nolink :
  cfg_wf ex_cfg_nolink = true /\ payload_admitted ex_cfg_nolink 12 = true /\ icmp4_parsed_hl ex_cfg_nolink = 20 /\
  exists bs, build LE ex_cfg_nolink (repeat 7 12) = BOk bs /\
    hvres_of_h (PacketHeaders.from_ip_slice bs) = HOk (hexpected ex_cfg_nolink 12) /\
    hvres_of_h (PacketHeaders.from_ether_type 2048 bs) = HOk (hexpected ex_cfg_nolink 12) /\
    hexpected ex_cfg_nolink 12 =
      mkHv None [] (Some (HvIpv4 (0, 20) None)) (Some (HvIcmpv4 (20, 20))) (HvpIcmpv4 (40, 0)).
Proof.
  split; [vm_compute; reflexivity|]. split; [vm_compute; reflexivity|]. split; [vm_compute; reflexivity|].
  eexists. split; [vm_compute; reflexivity|]. repeat split; vm_compute; reflexivity.
Qed.
(* ---- end audit round 2 ---- *)

(* ==== round3 c10fb begin ==== *)
(* ---- audit round 3, item 9: "strict parsing recovers the supplied addresses, ports, flags, options ..." stated on
   the values the ACCESSORS of the SlicedPacket result return for the built bytes.
   Composition (Builder/FieldsBack.v, FieldsBack2.v, FieldsBack3.v; no new model of Rust code):
     C10_crate_parse_back   the slicer model returns Ok sp on the built bytes, view sp = expected_x
     C03_fields_from_*      fields_of_packet sp (Parse/Fields.v: the accessor models of Parse/Access.v on the slices
                            stored in sp) = spec_fields bs (view sp) (the RFC fields at the layers' positions)
     evaluation             spec_fields bs (expected_x c |p|) = cfg_fields ..: layer by layer the field specification
                            is evaluated on the encoders of the builder model (C08 / C09 / C15 layouts).
   cfg_fields e c |p| ck xf is written from the configuration alone (pinned below):
     Ethernet II   destination, source (48 bit numbers), ether type = link_announces c
     Linux SLL     packet type, ARPHRD 1, address length, the 8 address octets, protocol = ether type of the net layer
     802.1Q tag(s) PCP, DEI, VID as supplied, ether type 0x8100 (outer of two) / the net layer's
     ARP           hardware / protocol type, sizes = the lengths of the sender addresses, operation, the four addresses
     IPv4          ipv4_cfg (v4_final ..): version 4, IHL = 5 + |options| / 4, and every field of the serialised header
                   v4_final (C10_consistent_ipv4: DSCP, ECN, identification, DF, MF, fragment offset, TTL, source,
                   destination, options AS SUPPLIED; total length = actual size, protocol = next layer, checksum)
     IPv4 AH       next header = transport number, payload len = icv words + 1, SPI, sequence number, ICV as supplied
     IPv6          ipv6_cfg (v6_final ..): version 6, traffic class, flow label, hop limit, source, destination as
                   supplied (C10_consistent_ipv6), payload length = actual size, next header = first following header
     UDP           ports as supplied, length 8 + |p|, checksum ck
     TCP           ports, sequence / acknowledgment number, data offset 5 + |options| / 4, NS CWR ECE URG ACK PSH RST SYN
                   FIN, window, checksum ck, urgent pointer, options = the visible option bytes, all as supplied
     ICMPv4/v6     type, code, checksum ck and octets 4..8 of the RFC 792 / 4443 layout of the configured message
   ck = the transport checksum field, ck_is_rfc: the RFC 1071 value over pseudo header ++ segment with the field zeroed
   (C10_checksums_verify).  Fragmenting configurations: no transport layer in the list (the slicer stops there).
   PARTIAL in one respect: xf, the layers of the IPv6 EXTENSION HEADERS, is `ext6_fields bs c` = the C03 field
   specification of the extension area [off_exts, off_exts + header_len) of the built bytes walked from the number the
   IPv6 header announces (kinds / order / lengths: C10_next_protocol_fields, values: C10_layers_as_configured via the
   C12 decoder) -- it is not evaluated to the configured header values here.  Full statement intended:
     forall e c p bs, cfg_wf c = true -> bytes_ok p -> payload_admitted c (len p) = true -> build e c p = BOk bs ->
       exists sp ck, crate_entry c bs = Ok sp /\ fields_of_packet sp = Ok (cfg_fields e c (len p) ck (ext6_cfg c))
   with ext6_cfg c the per-header lists (next header, length octet, payload / fragment offset, M, identification /
   AH fields) of the configured Ipv6Extensions in RFC 8200 order.  C10_crate_fields_back is that statement for every
   configuration WITHOUT IPv6 extension headers (all link / VLAN / ARP / IPv4 (+options, +AH) / IPv6 / transport
   paths); C10_crate_fields_back_partial covers the rest with xf as described. *)
From EP Require Import Parse.Fields.
From EP Require Import Builder.FieldsBack Builder.FieldsBack2 Builder.FieldsBack3.

Theorem C10_crate_fields_back : forall e c p bs,
  cfg_wf c = true -> bytes_ok p -> payload_admitted c (len p) = true -> build e c p = BOk bs ->
  v6_exts_len c = 0 ->
  exists sp ck, crate_entry c bs = Ok sp /\ view sp = expected_x c (len p) /\
    ck < 65536 /\ ck_is_rfc c bs ck /\
    fields_of_packet sp = Ok (cfg_fields e c (len p) ck []).
Proof. exact crate_fields_back. Qed.
Print Assumptions C10_crate_fields_back.

Theorem C10_crate_fields_back_partial : forall e c p bs,
  cfg_wf c = true -> bytes_ok p -> payload_admitted c (len p) = true -> build e c p = BOk bs ->
  exists sp ck, crate_entry c bs = Ok sp /\ view sp = expected_x c (len p) /\
    ck < 65536 /\ ck_is_rfc c bs ck /\
    fields_of_packet sp = Ok (cfg_fields e c (len p) ck (ext6_fields bs c)).
Proof. exact crate_fields_back_partial. Qed.
Print Assumptions C10_crate_fields_back_partial.

(* SlicedPacket::from_ether_type on a packet built without link layer: the same list *)
Theorem C10_crate_fields_back_ether_type : forall e c p bs,
  cfg_wf c = true -> bytes_ok p -> payload_admitted c (len p) = true -> build e c p = BOk bs ->
  c_link c = LkNone ->
  exists sp ck, EP.Parse.Cursor.SlicedPacket.from_ether_type (net_ether_type (c_net c)) bs = Ok sp /\
    ck < 65536 /\ ck_is_rfc c bs ck /\
    fields_of_packet sp = Ok (cfg_fields e c (len p) ck (ext6_fields bs c)).
Proof. exact crate_fields_back_ether_type. Qed.
Print Assumptions C10_crate_fields_back_ether_type.

(* the evaluation step alone, for EVERY well-formed configuration that builds (no payload hypothesis): the RFC
   fields at the configured offsets of the built bytes are the configured values *)
Theorem C10_fields_at_offsets : forall e c p bs, cfg_wf c = true -> bytes_ok p -> build e c p = BOk bs ->
  exists ck, ck < 65536 /\
    (ck_pseudo c (len (drop (off_transport c) bs)) <> None -> is_fragmented_x c = false ->
     ck = W bs (off_transport c + ck_field_off (c_transport c))) /\
    spec_fields bs (expected_x c (len p)) = cfg_fields e c (len p) ck (ext6_fields bs c).
Proof. exact spec_fields_built. Qed.
Print Assumptions C10_fields_at_offsets.

(* pin the meaning *)
Check (eq_refl : cfg_fields = fun e c plen ck xf =>
  cfg_link_fields c ++ cfg_vlan_fields c ++ cfg_net_fields e c plen xf ++ cfg_tr_fields c plen ck).
Check (eq_refl : cfg_link_fields = fun c =>
  match c_link c with
  | LkNone => []
  | LkEthernet2 s d => [(LEth, [(Fdst, FvN (be_num d)); (Fsrc, FvN (be_num s)); (Fether_type, FvN (link_announces c))])]
  | LkLinuxSll pt vl a =>
      [(LSll, [(Fpacket_type, FvN pt); (Fhw_type, FvN 1); (Faddr_len, FvN vl); (Faddr, FvBytes a);
               (Fprotocol, FvN (net_ether_type (c_net c)))])]
  end).
Check (eq_refl : vlan_cfgf = fun v et =>
  [(Fpcp, FvN (BitFields.Model.vlan_pcp v)); (Fdei, FvB (BitFields.Model.vlan_dei v));
   (Fvid, FvN (BitFields.Model.vlan_id v)); (Fether_type, FvN et)]).
Check (eq_refl : cfg_net_fields = fun e c plen xf =>
  match c_net c with
  | NtIpv4 h x =>
      (LIpv4, ipv4_cfg (v4_final e h x (c_transport c) plen)) ::
      match ExtChain.Model.auth4 x with
      | Some a => [(LAuth, ah_cfg (ExtChain.Model.auth_set_next_header a (tr_ip_number (c_transport c))))]
      | None => []
      end
  | NtIpv6 h x => (LIpv6, ipv6_cfg (v6_final h x (c_transport c) plen)) :: xf
  | NtArp a => [(LArp, arp_cfg a)]
  end).
Check (eq_refl : ipv4_cfg = fun h =>
  [(Fversion, FvN 4); (Fihl, FvN (5 + Ipv4.i4o_len (Ipv4.i4_options h) / 4));
   (Fdscp, FvN (Ipv4.i4_dscp h)); (Fecn, FvN (Ipv4.i4_ecn h)); (Ftotal_len, FvN (Ipv4.i4_total_len h));
   (Fident, FvN (Ipv4.i4_identification h)); (Fdf, FvB (Ipv4.i4_dont_fragment h));
   (Fmf, FvB (Ipv4.i4_more_fragments h)); (Ffrag_off, FvN (Ipv4.i4_fragment_offset h));
   (Fttl, FvN (Ipv4.i4_time_to_live h)); (Fprotocol, FvN (Ipv4.i4_protocol h));
   (Fchecksum, FvN (Ipv4.i4_header_checksum h));
   (Fsrc, FvN (be_num (Ipv4.i4_source h))); (Fdst, FvN (be_num (Ipv4.i4_destination h)));
   (Foptions, FvBytes (take (Ipv4.i4o_len (Ipv4.i4_options h)) (Ipv4.i4o_buf (Ipv4.i4_options h))))]).
Check (eq_refl : ipv6_cfg = fun h =>
  [(Fversion, FvN 6); (Ftraffic_class, FvN (BitFields.Model.v6_traffic_class h));
   (Fflow_label, FvN (BitFields.Model.v6_flow_label h)); (Fpayload_len, FvN (BitFields.Model.v6_payload_length h));
   (Fnext_header, FvN (BitFields.Model.v6_next_header h)); (Fhop_limit, FvN (BitFields.Model.v6_hop_limit h));
   (Fsrc, FvBytes (BitFields.Model.v6_source h)); (Fdst, FvBytes (BitFields.Model.v6_destination h))]).
Check (eq_refl : tcp_cfg = fun t ck =>
  [(Fsrc_port, FvN (Tcp.source_port t)); (Fdst_port, FvN (Tcp.destination_port t));
   (Fseq, FvN (Tcp.sequence_number t)); (Fack_nr, FvN (Tcp.acknowledgment_number t));
   (Fdata_offset, FvN (5 + Tcp.o_len (Tcp.options t) / 4));
   (Fns, FvB (Tcp.ns t)); (Fcwr, FvB (Tcp.cwr t)); (Fece, FvB (Tcp.ece t)); (Furg, FvB (Tcp.urg t));
   (Fack, FvB (Tcp.ack t)); (Fpsh, FvB (Tcp.psh t)); (Frst, FvB (Tcp.rst t)); (Fsyn, FvB (Tcp.syn t));
   (Ffin, FvB (Tcp.fin t)); (Fwindow, FvN (Tcp.window_size t)); (Fchecksum, FvN ck);
   (Furgent, FvN (Tcp.urgent_pointer t));
   (Foptions, FvBytes (take (Tcp.o_len (Tcp.options t)) (Tcp.o_buf (Tcp.options t))))]).
Check (eq_refl : cfg_tr_fields = fun c plen ck =>
  match c_net c with
  | NtArp _ => []
  | _ =>
    if is_fragmented_x c then []
    else match c_transport c with
         | TrNone _ => []
         | TrUdp sp dp =>
             [(LUdp, [(Fsrc_port, FvN sp); (Fdst_port, FvN dp); (Flength, FvN (8 + plen)); (Fchecksum, FvN ck)])]
         | TrTcp t => [(LTcp, tcp_cfg t ck)]
         | TrIcmpv4 t => [(LIcmp4, icmp_cfg (Checksum.ProtoSpec.icmp4_wire (c09_icmp4 t) 0) ck)]
         | TrIcmpv6 t => [(LIcmp6, icmp_cfg (Checksum.ProtoSpec.icmp6_wire (c09_icmp6 t) 0) ck)]
         end
  end).
Check (eq_refl : icmp_cfg = fun w0 ck =>
  [(Ftype, FvN (B w0 0)); (Fcode, FvN (B w0 1)); (Fchecksum, FvN ck); (Fbytes4to8, FvBytes (take 4 (drop 4 w0)))]).
Check (eq_refl : ck_is_rfc = fun c bs ck =>
  let seg := drop (off_transport c) bs in
  forall ph, ck_pseudo c (len seg) = Some ph -> is_fragmented_x c = false ->
    ck = ck_value (c_transport c) (rfc1071 (ph ++ zero16_at (ck_field_off (c_transport c)) seg))).

(* ---- non-vacuity ---- *)
(* the documentation example (Ethernet II / IPv4 / UDP, 8 payload bytes): the hypotheses hold, no IPv6 extension
   headers, and the accessors return the supplied MAC addresses, IPv4 addresses 192.168.1.1 -> 192.168.1.2, TTL 20,
   DF, ports 21 -> 1234, with the derived total length 36, protocol 17, UDP length 16 and the two checksums *)
Example C10_ex_crate_fields_back :
  cfg_wf ex_cfg = true /\ bytes_ok ex_payload /\ payload_admitted ex_cfg 8 = true /\
  build LE ex_cfg ex_payload = BOk ex_bytes /\ v6_exts_len ex_cfg = 0 /\
  exists sp, crate_entry ex_cfg ex_bytes = Ok sp /\
    fields_of_packet sp = Ok (cfg_fields LE ex_cfg 8 26495 []) /\
    cfg_fields LE ex_cfg 8 26495 [] =
      [(LEth, [(Fdst, FvN 7731092785932); (Fsrc, FvN 1108152157446); (Fether_type, FvN 2048)]);
       (LIpv4, [(Fversion, FvN 4); (Fihl, FvN 5); (Fdscp, FvN 0); (Fecn, FvN 0); (Ftotal_len, FvN 36);
                (Fident, FvN 0); (Fdf, FvB true); (Fmf, FvB false); (Ffrag_off, FvN 0); (Fttl, FvN 20);
                (Fprotocol, FvN 17); (Fchecksum, FvN 58229); (Fsrc, FvN 3232235777); (Fdst, FvN 3232235778);
                (Foptions, FvBytes [])]);
       (LUdp, [(Fsrc_port, FvN 21); (Fdst_port, FvN 1234); (Flength, FvN 16); (Fchecksum, FvN 26495)])].
Proof.
  split; [vm_compute; reflexivity|]. split; [apply bytes_okb_spec; vm_compute; reflexivity|].
  split; [vm_compute; reflexivity|]. split; [vm_compute; reflexivity|]. split; [vm_compute; reflexivity|].
  eexists. split; [vm_compute; reflexivity|]. split; vm_compute; reflexivity.
Qed.
(* two VLAN tags / IPv6 with hop-by-hop + fragment header / TCP with options (C10_crate_fields_back_partial): the
   accessor values of link, both tags, IPv6 and TCP are the supplied ones; on this instance the extension part
   ext6_fields evaluates to the two configured headers *)
Example C10_ex_crate_fields_back_x :
  cfg_wf ex_cfg_tcp6 = true /\ payload_admitted ex_cfg_tcp6 3 = true /\ v6_exts_len ex_cfg_tcp6 = 16 /\
  exists bs sp ck, build LE ex_cfg_tcp6 [1; 2; 3] = BOk bs /\
    EP.Parse.Cursor.SlicedPacket.from_ethernet bs = Ok sp /\
    fields_of_packet sp = Ok (cfg_fields LE ex_cfg_tcp6 3 ck (ext6_fields bs ex_cfg_tcp6)) /\
    ext6_fields bs ex_cfg_tcp6 =
      [(LHopByHop, [(Fnext_header, FvN 44); (Flen_byte, FvN 0); (Fpayload, FvBytes [1; 4; 0; 0; 0; 0])]);
       (LFragment, [(Fnext_header, FvN 6); (Ffrag_off, FvN 0); (Fmf, FvB false); (Fident, FvN 99)])] /\
    cfg_vlan_fields ex_cfg_tcp6 =
      [(LVlan, [(Fpcp, FvN 1); (Fdei, FvB false); (Fvid, FvN 100); (Fether_type, FvN 33024)]);
       (LVlan, [(Fpcp, FvN 2); (Fdei, FvB true); (Fvid, FvN 200); (Fether_type, FvN 34525)])] /\
    cfg_tr_fields ex_cfg_tcp6 3 ck =
      [(LTcp, [(Fsrc_port, FvN 80); (Fdst_port, FvN 40000); (Fseq, FvN 305419896); (Fack_nr, FvN 2271560481);
               (Fdata_offset, FvN 6); (Fns, FvB true); (Fcwr, FvB false); (Fece, FvB true); (Furg, FvB false);
               (Fack, FvB true); (Fpsh, FvB true); (Frst, FvB false); (Fsyn, FvB true); (Ffin, FvB false);
               (Fwindow, FvN 65535); (Fchecksum, FvN ck); (Furgent, FvN 7); (Foptions, FvBytes [2; 4; 5; 180])])].
Proof.
  split; [vm_compute; reflexivity|]. split; [vm_compute; reflexivity|]. split; [vm_compute; reflexivity|].
  eexists. eexists. eexists. split; [vm_compute; reflexivity|]. split; [vm_compute; reflexivity|].
  split; [vm_compute; reflexivity|]. split; [vm_compute; reflexivity|]. split; vm_compute; reflexivity.
Qed.
(* ==== round3 c10fb end ==== *)
