(* Props/C10.v -- property C10 (stub while the proofs are being built) *)
From EP Require Import Base.Bytes Builder.Model Builder.Spec.
Theorem C10_stub : forall c n, final_size c n = link_len c + vlan_len c + net_len c + transport_len c + n.
Proof. exact (fun c n => eq_refl). Qed.
Print Assumptions C10_stub.
