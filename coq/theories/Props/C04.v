(* Props/C04.v -- placeholder while the proofs are being written *)
From EP Require Import Base.Bytes Parse.Types Parse.Slices Parse.Cursor Parse.View
  Parse.HdrModel Parse.HdrView Parse.HdrCut.
